// Package lib is the shared runtime-monitoring library of the /verif harness:
// run context + evidence, fixtures, monitors, independent codecs.
package lib

import (
	"encoding/json"
	"fmt"
	"math/rand/v2"
	"os"
	"path/filepath"
	"sort"
	"strconv"
	"strings"
	"sync"
	"time"
)

// VerifRoot is the root of the verification tree (overridable for snapshots).
func VerifRoot() string {
	if v := os.Getenv("VERIF_ROOT"); v != "" {
		return v
	}
	return "/verif"
}

// Levels per property (must match MANIFEST.json).
var Levels = map[string]string{
	"C08": "fault_enumeration",
	"C12": "fault_enumeration",
}

func LevelOf(id string) string {
	if l, ok := Levels[id]; ok {
		return l
	}
	return "exploration"
}

type knownFinding struct {
	Property string `json:"property"`
	Key      string `json:"key"`
	Status   string `json:"status"` // "known" | "fixed"
	Commit   string `json:"commit,omitempty"`
	What     string `json:"what"`
}

// Violation is one refuting observation.
type Violation struct {
	Key    string `json:"key"`  // stable finding key (failing input class / call site)
	What   string `json:"what"` // human readable
	Detail any    `json:"detail,omitempty"`
}

// Run is the per-check context: PRNG, evidence counters, violation sink.
type Run struct {
	ID    string
	Tier  string
	Seed  int64
	Quick bool
	start time.Time

	mu            sync.Mutex
	evaluations   int64
	distinct      map[string]struct{}
	counters      map[string]int64
	samples       []any
	maxSamples    int
	rule          string
	assumptions   []string
	violations    []Violation
	knownHits     map[string]int
	known         map[string]knownFinding
	inconclusive  []string
	extra         map[string]any
	exhaustive    bool
	printedKeys   map[string]int
	replayCounter int
}

func NewRun(id, tier string) *Run {
	seed := int64(1)
	if s := os.Getenv("VERIF_SEED"); s != "" {
		if v, err := strconv.ParseInt(s, 10, 64); err == nil {
			seed = v
		}
	}
	r := &Run{
		// VERIF_RACE_PASS: the second, race-instrumented pass of a thorough run uses the quick case counts (2-20x slower)
		ID: id, Tier: tier, Seed: seed, Quick: tier != "thorough" || os.Getenv("VERIF_RACE_PASS") != "",
		start:       time.Now(),
		distinct:    map[string]struct{}{},
		counters:    map[string]int64{},
		maxSamples:  6,
		knownHits:   map[string]int{},
		known:       map[string]knownFinding{},
		extra:       map[string]any{},
		printedKeys: map[string]int{},
	}
	r.loadKnown()
	return r
}

func (r *Run) loadKnown() {
	b, err := os.ReadFile(filepath.Join(VerifRoot(), "known_findings.json"))
	if err != nil {
		return
	}
	var f struct {
		Findings []knownFinding `json:"findings"`
	}
	if json.Unmarshal(b, &f) != nil {
		return
	}
	for _, k := range f.Findings {
		if k.Property == r.ID && k.Status == "known" {
			r.known[k.Key] = k
		}
	}
}

// Rng returns a deterministic PRNG stream for (seed, check id, stream name).
func (r *Run) Rng(stream string) *rand.Rand {
	h := uint64(1469598103934665603)
	for _, c := range []byte(r.ID + "/" + stream) {
		h ^= uint64(c)
		h *= 1099511628211
	}
	return rand.New(rand.NewPCG(uint64(r.Seed), h))
}

// N picks the case count for the tier.
func (r *Run) N(quick, thorough int) int {
	if r.Quick {
		return quick
	}
	return thorough
}

func (r *Run) SetRule(s string)       { r.mu.Lock(); r.rule = s; r.mu.Unlock() }
func (r *Run) Assume(s string)        { r.mu.Lock(); r.assumptions = append(r.assumptions, s); r.mu.Unlock() }
func (r *Run) SetExhaustive(b bool)   { r.mu.Lock(); r.exhaustive = b; r.mu.Unlock() }
func (r *Run) Extra(k string, v any)  { r.mu.Lock(); r.extra[k] = v; r.mu.Unlock() }
func (r *Run) Eval()                  { r.mu.Lock(); r.evaluations++; r.mu.Unlock() }
func (r *Run) EvalN(n int)            { r.mu.Lock(); r.evaluations += int64(n); r.mu.Unlock() }
func (r *Run) Count(k string)         { r.CountN(k, 1) }
func (r *Run) Counter(k string) int64 { r.mu.Lock(); defer r.mu.Unlock(); return r.counters[k] }
func (r *Run) CountN(k string, n int64) {
	r.mu.Lock()
	r.counters[k] += n
	r.mu.Unlock()
}

// Distinct records one distinct non-trivial case tuple.
func (r *Run) Distinct(parts ...any) {
	s := fmt.Sprint(parts...)
	r.mu.Lock()
	r.distinct[s] = struct{}{}
	r.mu.Unlock()
}

// Sample keeps the first few actual cases for the evidence file.
func (r *Run) Sample(v any) {
	r.mu.Lock()
	if len(r.samples) < r.maxSamples {
		r.samples = append(r.samples, v)
	}
	r.mu.Unlock()
}

// Inconclusive records that part of the run could not decide.
func (r *Run) Inconclusive(why string) {
	r.mu.Lock()
	r.inconclusive = append(r.inconclusive, why)
	r.mu.Unlock()
}

// clientTimeoutText recognises the harness's own client-side time limits (lib.Ctx expiry, http.Client.Timeout) in a
// verdict text: "the answer did not arrive in time" on a loaded machine is not an observation about the server.
func clientTimeoutText(s string) bool {
	for _, m := range []string{"context deadline exceeded", "DeadlineExceeded", "Client.Timeout exceeded", "i/o timeout"} {
		if strings.Contains(s, m) {
			return true
		}
	}
	return false
}

// Violation records a refuting observation. key is the stable finding key.
func (r *Run) Violation(key, what string, detail any) {
	// Backstop for the contract "expiry of a harness time limit is inconclusive, never a verdict": for every property
	// that is not itself about hanging (C07, C12, C14, C16 drive stalls and deadlines on purpose and use persistent-state
	// oracles), a verdict whose text reports a client-side timeout is recorded as inconclusive.
	switch r.ID {
	case "C07", "C12", "C14", "C16":
	default:
		if clientTimeoutText(what) {
			r.Inconclusive("client-side time limit expired (machine load?) in what would have been reported as " + key + ": " + what)
			return
		}
	}
	r.mu.Lock()
	defer r.mu.Unlock()
	if k, ok := r.known[key]; ok {
		r.knownHits[key]++
		if r.knownHits[key] == 1 {
			fmt.Printf("KNOWN-FINDING: property=%s %s [%s]\n", r.ID, k.What, key)
		}
		return
	}
	v := Violation{Key: key, What: what, Detail: detail}
	r.violations = append(r.violations, v)
	r.printedKeys[key]++
	if r.printedKeys[key] > 3 || len(r.violations) > 40 {
		return // recorded, but do not flood stdout / replays
	}
	r.replayCounter++
	dir := filepath.Join(VerifRoot(), "replays")
	_ = os.MkdirAll(dir, 0o755)
	p := filepath.Join(dir, fmt.Sprintf("%s-seed%d-%s-%d.json", r.ID, r.Seed, r.Tier, r.replayCounter))
	b, _ := json.MarshalIndent(map[string]any{
		"property": r.ID, "seed": r.Seed, "tier": r.Tier, "key": key, "what": what, "detail": detail,
		"replay": fmt.Sprintf("VERIF_SEED=%d ./run.sh %s %s", r.Seed, r.ID, r.Tier),
	}, "", " ")
	_ = os.WriteFile(p, b, 0o644)
	fmt.Printf("VIOLATION property=%s replay=%s\n", r.ID, p)
	fmt.Printf("  key=%s\n  %s\n", key, what)
}

func (r *Run) Violations() int { r.mu.Lock(); defer r.mu.Unlock(); return len(r.violations) }

// Finish writes the evidence file and returns the process exit code:
// 0 held, 1 violation, 2 inconclusive.
func (r *Run) Finish() int {
	r.mu.Lock()
	defer r.mu.Unlock()

	cov := map[string]any{
		"evaluations":         r.evaluations,
		"distinct_nontrivial": len(r.distinct),
		"rule":                r.rule,
		"samples":             r.samples,
		"observed":            r.counters,
	}
	if r.exhaustive {
		cov["exhaustive"] = true
	}
	for k, v := range r.extra {
		cov[k] = v
	}
	if len(r.inconclusive) > 0 {
		cov["inconclusive"] = r.inconclusive
	}
	if len(r.knownHits) > 0 {
		cov["known_findings_observed"] = r.knownHits
	}
	if len(r.violations) > 0 {
		keys := map[string]int{}
		for _, v := range r.violations {
			keys[v.Key]++
		}
		cov["violation_keys"] = keys
	}
	if r.samples == nil {
		cov["samples"] = []any{}
	}
	ev := map[string]any{
		"property_id": r.ID,
		"tier":        r.Tier,
		"seed":        r.Seed,
		"level":       LevelOf(r.ID),
		"coverage":    cov,
		"assumptions": r.assumptions,
		"wall_s":      time.Since(r.start).Seconds(),
		"violations":  len(r.violations),
	}
	if r.assumptions == nil {
		ev["assumptions"] = []string{}
	}
	dir := filepath.Join(VerifRoot(), "evidence")
	_ = os.MkdirAll(dir, 0o755)
	b, _ := json.MarshalIndent(ev, "", " ")
	_ = os.WriteFile(filepath.Join(dir, r.ID+".json"), append(b, '\n'), 0o644)

	// Human readable summary.
	keys := make([]string, 0, len(r.counters))
	for k := range r.counters {
		keys = append(keys, k)
	}
	sort.Strings(keys)
	var sb strings.Builder
	for _, k := range keys {
		fmt.Fprintf(&sb, " %s=%d", k, r.counters[k])
	}
	fmt.Printf("SUMMARY property=%s tier=%s seed=%d evaluations=%d distinct_nontrivial=%d violations=%d known=%d wall=%.1fs\n  observed:%s\n",
		r.ID, r.Tier, r.Seed, r.evaluations, len(r.distinct), len(r.violations), len(r.knownHits), time.Since(r.start).Seconds(), sb.String())

	if len(r.violations) > 0 {
		return 1
	}
	if len(r.inconclusive) > 0 {
		for _, w := range r.inconclusive {
			fmt.Printf("INCONCLUSIVE property=%s %s\n", r.ID, w)
		}
		return 2
	}
	if r.evaluations == 0 || len(r.distinct) < 2 {
		fmt.Printf("INCONCLUSIVE property=%s monitors observed nothing (evaluations=%d distinct=%d)\n", r.ID, r.evaluations, len(r.distinct))
		return 2
	}
	return 0
}

// Registry of checks.
type CheckFn func(r *Run)

var registry = map[string]CheckFn{}

func Register(id string, fn CheckFn) { registry[id] = fn }
func Lookup(id string) CheckFn       { return registry[id] }
func Registered() []string {
	var ids []string
	for k := range registry {
		ids = append(ids, k)
	}
	sort.Strings(ids)
	return ids
}

package lib

import (
	"context"
	"fmt"
	"io"
	"log"
	"math"
	"net"
	"net/http"
	"os"
	"sync"
	"sync/atomic"
	"time"

	"github.com/buchgr/bazel-remote/v2/cache"
	"github.com/buchgr/bazel-remote/v2/cache/disk"
	"github.com/buchgr/bazel-remote/v2/server"

	asset "github.com/buchgr/bazel-remote/v2/genproto/build/bazel/remote/asset/v1"
	pb "github.com/buchgr/bazel-remote/v2/genproto/build/bazel/remote/execution/v2"

	bs "google.golang.org/genproto/googleapis/bytestream"
	"google.golang.org/grpc"
	"google.golang.org/grpc/credentials/insecure"
)

// ServerOpts configures an in-process bazel-remote (F-inproc).
type ServerOpts struct {
	Dir              string // existing dir to (re)open; "" = fresh temp dir
	MaxSize          int64  // bytes
	Storage          string // "zstd" (default) | "uncompressed"
	ZstdImpl         string // "go" (default) | "cgo"
	Proxy            cache.Proxy
	MaxBlobSize      int64 // 0 = unlimited
	MaxProxyBlobSize int64 // 0 = unlimited
	HardLimit        int64 // 0 = off
	NoHTTPValidate   bool  // --disable_http_ac_validation for the main HTTP handler
	NoDepsCheck      bool  // --disable_grpc_ac_deps_check
	Mangle           bool  // --enable_ac_key_instance_mangling
	AssetAPI         bool
	RawHTTP          bool // additionally serve an unvalidated (RAW) HTTP handler on RawURL
	NoGRPC           bool
	NoHTTP           bool
	KeepDir          bool // do not remove Dir on Close
	EndpointMetrics  bool
}

// Server is a running in-process instance.
type Server struct {
	Opts    ServerOpts
	Dir     string
	Cache   disk.Cache
	HTTPURL string // validated-AC handler (unless NoHTTPValidate)
	RawURL  string // unvalidated handler (RawHTTP)

	GRPCAddr string
	Conn     *grpc.ClientConn
	AC       pb.ActionCacheClient
	CAS      pb.ContentAddressableStorageClient
	BS       bs.ByteStreamClient
	Cap      pb.CapabilitiesClient
	Asset    asset.FetchClient

	HTTPErrLog *LogCapture // net/http server ErrorLog (handler panics land here)

	// In-flight accounting of server-side handlers (harness middleware /
	// interceptors wrapped around the real handlers): started and finished
	// counts for HTTP requests and gRPC calls.
	HTTPStarted, HTTPDone, GRPCStarted, GRPCDone atomic.Int64

	httpSrv, rawSrv *http.Server
	grpcSrv         *grpc.Server
	ownDir          bool
	HTTPClient      *http.Client
}

// LogCapture is a thread-safe sink for log lines.
type LogCapture struct {
	mu    sync.Mutex
	lines []string
}

func (l *LogCapture) Write(p []byte) (int, error) {
	l.mu.Lock()
	if len(l.lines) < 2000 {
		l.lines = append(l.lines, string(p))
	}
	l.mu.Unlock()
	return len(p), nil
}

func (l *LogCapture) Lines() []string {
	l.mu.Lock()
	defer l.mu.Unlock()
	return append([]string(nil), l.lines...)
}

// DiscardLogger is a logger that drops everything.
var DiscardLogger = log.New(io.Discard, "", 0)

// QuietGlobalLog silences the standard logger used by the cache packages,
// unless VERIF_VERBOSE is set.
func QuietGlobalLog() {
	if os.Getenv("VERIF_VERBOSE") == "" {
		log.SetOutput(io.Discard)
	}
}

// ScratchBase is where workload directories are created (outside /repo and /verif).
func ScratchBase() string {
	if v := os.Getenv("VERIF_SCRATCH"); v != "" {
		return v
	}
	return os.TempDir()
}

func MkTemp(prefix string) string {
	d, err := os.MkdirTemp(ScratchBase(), "verif-"+prefix+"-")
	if err != nil {
		panic(err)
	}
	return d
}

// NewCache opens a disk cache with the options (no servers).
func NewCache(o ServerOpts) (disk.Cache, string, error) {
	dir := o.Dir
	if dir == "" {
		dir = MkTemp("cache")
	}
	if o.Storage == "" {
		o.Storage = "zstd"
	}
	if o.ZstdImpl == "" {
		o.ZstdImpl = "go"
	}
	opts := []disk.Option{
		disk.WithStorageMode(o.Storage),
		disk.WithZstdImplementation(o.ZstdImpl),
		disk.WithAccessLogger(DiscardLogger),
	}
	if o.MaxBlobSize > 0 {
		opts = append(opts, disk.WithMaxBlobSize(o.MaxBlobSize))
	}
	if o.MaxProxyBlobSize > 0 {
		opts = append(opts, disk.WithProxyMaxBlobSize(o.MaxProxyBlobSize))
	}
	if o.HardLimit > 0 {
		opts = append(opts, disk.WithMaxSizeHardLimit(o.HardLimit))
	}
	if o.Proxy != nil {
		opts = append(opts, disk.WithProxyBackend(o.Proxy))
	}
	if o.EndpointMetrics {
		opts = append(opts, disk.WithEndpointMetrics())
	}
	c, err := disk.New(dir, o.MaxSize, opts...)
	return c, dir, err
}

// StartServer starts an in-process instance wired like main.go (minus auth).
func StartServer(o ServerOpts) (*Server, error) {
	if o.Storage == "" {
		o.Storage = "zstd"
	}
	if o.ZstdImpl == "" {
		o.ZstdImpl = "go"
	}
	s := &Server{Opts: o, ownDir: o.Dir == "" && !o.KeepDir}
	c, dir, err := NewCache(o)
	if err != nil {
		if s.ownDir {
			_ = os.RemoveAll(dir)
		}
		return nil, err
	}
	s.Cache, s.Dir = c, dir
	maxBlob := o.MaxBlobSize
	if maxBlob <= 0 {
		maxBlob = math.MaxInt64
	}
	s.HTTPErrLog = &LogCapture{}
	s.HTTPClient = &http.Client{Transport: &http.Transport{MaxIdleConnsPerHost: 64, DisableCompression: true}}

	if !o.NoHTTP {
		h := server.NewHTTPCache(c, DiscardLogger, DiscardLogger, !o.NoHTTPValidate, o.Mangle, false, false, "", "", maxBlob)
		mux := http.NewServeMux()
		mux.HandleFunc("/status", h.StatusPageHandler)
		mux.HandleFunc("/", s.countHTTP(h.CacheHandler))
		ln, err := net.Listen("tcp", "127.0.0.1:0")
		if err != nil {
			return nil, err
		}
		s.httpSrv = &http.Server{Handler: mux, ErrorLog: log.New(s.HTTPErrLog, "", 0)}
		go func() { _ = s.httpSrv.Serve(ln) }()
		s.HTTPURL = "http://" + ln.Addr().String()
	}
	if o.RawHTTP {
		h := server.NewHTTPCache(c, DiscardLogger, DiscardLogger, false, o.Mangle, false, false, "", "", maxBlob)
		mux := http.NewServeMux()
		mux.HandleFunc("/status", h.StatusPageHandler)
		mux.HandleFunc("/", s.countHTTP(h.CacheHandler))
		ln, err := net.Listen("tcp", "127.0.0.1:0")
		if err != nil {
			return nil, err
		}
		s.rawSrv = &http.Server{Handler: mux, ErrorLog: log.New(s.HTTPErrLog, "", 0)}
		go func() { _ = s.rawSrv.Serve(ln) }()
		s.RawURL = "http://" + ln.Addr().String()
	}
	if !o.NoGRPC {
		ln, err := net.Listen("tcp", "127.0.0.1:0")
		if err != nil {
			return nil, err
		}
		s.grpcSrv = grpc.NewServer(grpc.MaxRecvMsgSize(64*MiB), grpc.MaxSendMsgSize(64*MiB),
			grpc.ChainUnaryInterceptor(func(ctx context.Context, req any, info *grpc.UnaryServerInfo, handler grpc.UnaryHandler) (any, error) {
				s.GRPCStarted.Add(1)
				defer s.GRPCDone.Add(1)
				return handler(ctx, req)
			}),
			grpc.ChainStreamInterceptor(func(srv any, ss grpc.ServerStream, info *grpc.StreamServerInfo, handler grpc.StreamHandler) error {
				s.GRPCStarted.Add(1)
				defer s.GRPCDone.Add(1)
				return handler(srv, ss)
			}))
		go func() {
			_ = server.ServeGRPC(ln, s.grpcSrv, !o.NoDepsCheck, o.Mangle, o.AssetAPI, maxBlob, c, DiscardLogger, DiscardLogger)
		}()
		s.GRPCAddr = ln.Addr().String()
		conn, err := grpc.NewClient(s.GRPCAddr, grpc.WithTransportCredentials(insecure.NewCredentials()),
			grpc.WithDefaultCallOptions(grpc.MaxCallRecvMsgSize(64*MiB), grpc.MaxCallSendMsgSize(64*MiB)))
		if err != nil {
			return nil, err
		}
		s.Conn = conn
		s.AC = pb.NewActionCacheClient(conn)
		s.CAS = pb.NewContentAddressableStorageClient(conn)
		s.BS = bs.NewByteStreamClient(conn)
		s.Cap = pb.NewCapabilitiesClient(conn)
		s.Asset = asset.NewFetchClient(conn)
		// Wait until the server answers (Serve registers services asynchronously).
		deadline := time.Now().Add(10 * time.Second)
		for {
			ctx, cancel := context.WithTimeout(context.Background(), time.Second)
			_, err := s.Cap.GetCapabilities(ctx, &pb.GetCapabilitiesRequest{})
			cancel()
			if err == nil {
				break
			}
			if time.Now().After(deadline) {
				return nil, fmt.Errorf("in-process gRPC server did not come up: %v", err)
			}
			time.Sleep(5 * time.Millisecond)
		}
	}
	return s, nil
}

func (s *Server) countHTTP(h http.HandlerFunc) http.HandlerFunc {
	return func(w http.ResponseWriter, r *http.Request) {
		s.HTTPStarted.Add(1)
		defer s.HTTPDone.Add(1)
		h(w, r)
	}
}

// Inflight is the number of server-side handlers currently running.
func (s *Server) Inflight() int64 {
	return (s.HTTPStarted.Load() - s.HTTPDone.Load()) + (s.GRPCStarted.Load() - s.GRPCDone.Load())
}

// WaitStarted waits (bounded) until the started counter exceeds before.
func WaitCounterAbove(c *atomic.Int64, before int64, max time.Duration) bool {
	deadline := time.Now().Add(max)
	for c.Load() <= before {
		if time.Now().After(deadline) {
			return false
		}
		time.Sleep(100 * time.Microsecond)
	}
	return true
}

// Settle waits until no handler is in flight and no space is reserved.
// Returns "ok", or "reserved" when handlers are gone but reservations persist
// (a persistent-state verdict), or "busy" when handlers never finished.
func (s *Server) Settle(max time.Duration) string {
	deadline := time.Now().Add(max)
	for {
		inflight := s.Inflight()
		_, reserved, _, _ := s.Cache.Stats()
		if inflight == 0 && reserved == 0 {
			return "ok"
		}
		if time.Now().After(deadline) {
			if inflight != 0 {
				return "busy"
			}
			return "reserved"
		}
		time.Sleep(300 * time.Microsecond)
	}
}

// AttachServer builds clients for a server running in another process.
func AttachServer(httpAddr, grpcAddr string) *Server {
	s := &Server{HTTPURL: "http://" + httpAddr, GRPCAddr: grpcAddr}
	s.HTTPClient = &http.Client{Transport: &http.Transport{MaxIdleConnsPerHost: 16, DisableCompression: true}, Timeout: 60 * time.Second}
	if grpcAddr != "" {
		conn, err := grpc.NewClient(grpcAddr, grpc.WithTransportCredentials(insecure.NewCredentials()),
			grpc.WithDefaultCallOptions(grpc.MaxCallRecvMsgSize(64*MiB), grpc.MaxCallSendMsgSize(64*MiB)))
		if err == nil {
			s.Conn = conn
			s.AC = pb.NewActionCacheClient(conn)
			s.CAS = pb.NewContentAddressableStorageClient(conn)
			s.BS = bs.NewByteStreamClient(conn)
			s.Cap = pb.NewCapabilitiesClient(conn)
			s.Asset = asset.NewFetchClient(conn)
		}
	}
	return s
}

// CloseClient releases the client side of an attached server.
func (s *Server) CloseClient() {
	if s.Conn != nil {
		_ = s.Conn.Close()
	}
	if s.HTTPClient != nil {
		s.HTTPClient.CloseIdleConnections()
	}
}

// Close stops servers and removes the directory if owned.
func (s *Server) Close() {
	if s.Conn != nil {
		_ = s.Conn.Close()
	}
	if s.grpcSrv != nil {
		s.grpcSrv.Stop()
	}
	if s.httpSrv != nil {
		_ = s.httpSrv.Close()
	}
	if s.rawSrv != nil {
		_ = s.rawSrv.Close()
	}
	if s.HTTPClient != nil {
		s.HTTPClient.CloseIdleConnections()
	}
	if s.ownDir {
		// Let the background remover drain before deleting the tree.
		WaitEvictionsDrained(s.Cache, 2*time.Second)
		_ = os.RemoveAll(s.Dir)
	}
}

// WaitEvictionsDrained polls until no evicted file awaits deletion.
func WaitEvictionsDrained(c disk.Cache, max time.Duration) bool {
	deadline := time.Now().Add(max)
	for {
		if disk.VerifQueuedEvictions(c) <= 0 {
			return true
		}
		if time.Now().After(deadline) {
			return false
		}
		time.Sleep(200 * time.Microsecond)
	}
}

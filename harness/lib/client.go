package lib

import (
	"bytes"
	"context"
	"fmt"
	"io"
	"net/http"
	"time"

	pb "github.com/buchgr/bazel-remote/v2/genproto/build/bazel/remote/execution/v2"

	bs "google.golang.org/genproto/googleapis/bytestream"
	"google.golang.org/grpc/codes"
	"google.golang.org/grpc/status"
)

// Ctx returns a context with a generous watchdog (expiry = inconclusive, never a verdict).
func Ctx() (context.Context, context.CancelFunc) {
	return context.WithTimeout(context.Background(), 120*time.Second)
}

// HTTPResult is the outcome of one HTTP exchange.
type HTTPResult struct {
	Status int
	Header http.Header
	Body   []byte
	Err    error // transport error (connection reset, ...)
	// BodyErr is set when the body ended with an error after Status was received.
	BodyErr error
}

func (s *Server) HTTPDo(method, url string, body []byte, hdr map[string]string) HTTPResult {
	var rd io.Reader
	if body != nil {
		rd = bytes.NewReader(body)
	}
	req, err := http.NewRequest(method, url, rd)
	if err != nil {
		return HTTPResult{Err: err}
	}
	for k, v := range hdr {
		req.Header.Set(k, v)
	}
	resp, err := s.HTTPClient.Do(req)
	if err != nil {
		return HTTPResult{Err: err}
	}
	defer func() { _ = resp.Body.Close() }()
	b, berr := io.ReadAll(resp.Body)
	return HTTPResult{Status: resp.StatusCode, Header: resp.Header, Body: b, BodyErr: berr}
}

func (s *Server) HTTPPut(path string, body []byte, hdr map[string]string) HTTPResult {
	return s.HTTPDo("PUT", s.HTTPURL+path, body, hdr)
}
func (s *Server) HTTPGet(path string, hdr map[string]string) HTTPResult {
	return s.HTTPDo("GET", s.HTTPURL+path, nil, hdr)
}
func (s *Server) HTTPHead(path string) HTTPResult {
	return s.HTTPDo("HEAD", s.HTTPURL+path, nil, nil)
}

// BSWriteMsgs sends an explicit message sequence on ByteStream.Write.
func (s *Server) BSWriteMsgs(ctx context.Context, msgs []*bs.WriteRequest) (*bs.WriteResponse, error) {
	st, err := s.BS.Write(ctx)
	if err != nil {
		return nil, err
	}
	for _, m := range msgs {
		if err := st.Send(m); err != nil {
			break // the server ended the call early; CloseAndRecv has the status
		}
	}
	return st.CloseAndRecv()
}

// Chunk cuts data into messages of at most n bytes (n<=0: one message).
func Chunk(data []byte, n int) [][]byte {
	if n <= 0 || len(data) <= n {
		return [][]byte{data}
	}
	var out [][]byte
	for i := 0; i < len(data); i += n {
		e := i + n
		if e > len(data) {
			e = len(data)
		}
		out = append(out, data[i:e])
	}
	return out
}

// BSWrite uploads payload under the resource name in chunks; finish_write on the last message.
func (s *Server) BSWrite(ctx context.Context, resource string, payload []byte, chunk int) (*bs.WriteResponse, error) {
	parts := Chunk(payload, chunk)
	msgs := make([]*bs.WriteRequest, 0, len(parts))
	off := int64(0)
	for i, p := range parts {
		m := &bs.WriteRequest{WriteOffset: off, Data: p, FinishWrite: i == len(parts)-1}
		if i == 0 {
			m.ResourceName = resource
		}
		off += int64(len(p))
		msgs = append(msgs, m)
	}
	return s.BSWriteMsgs(ctx, msgs)
}

// BSRead reads a resource; returns everything received before the terminal status, and that status.
func (s *Server) BSRead(ctx context.Context, resource string, offset, limit int64) ([]byte, error) {
	st, err := s.BS.Read(ctx, &bs.ReadRequest{ResourceName: resource, ReadOffset: offset, ReadLimit: limit})
	if err != nil {
		return nil, err
	}
	var buf bytes.Buffer
	for {
		m, err := st.Recv()
		if err == io.EOF {
			return buf.Bytes(), nil
		}
		if err != nil {
			return buf.Bytes(), err
		}
		buf.Write(m.Data)
	}
}

func ResBlobs(hash string, size int64) string { return fmt.Sprintf("blobs/%s/%d", hash, size) }
func ResZstd(hash string, size int64) string {
	return fmt.Sprintf("compressed-blobs/zstd/%s/%d", hash, size)
}
func ResUpload(uuid, hash string, size int64) string {
	return fmt.Sprintf("uploads/%s/blobs/%s/%d", uuid, hash, size)
}
func ResUploadZstd(uuid, hash string, size int64) string {
	return fmt.Sprintf("uploads/%s/compressed-blobs/zstd/%s/%d", uuid, hash, size)
}

// FindMissing calls FindMissingBlobs.
func (s *Server) FindMissing(ctx context.Context, ds ...*pb.Digest) ([]*pb.Digest, error) {
	r, err := s.CAS.FindMissingBlobs(ctx, &pb.FindMissingBlobsRequest{BlobDigests: ds})
	if err != nil {
		return nil, err
	}
	return r.MissingBlobDigests, nil
}

// Code extracts the gRPC code (OK for nil).
func Code(err error) codes.Code {
	if err == nil {
		return codes.OK
	}
	return status.Code(err)
}

// PresenceProbe reports presence of a CAS digest through three independent read paths.
type PresenceProbe struct {
	FindMissingPresent bool
	HeadStatus         int
	GetStatus          int
	GetBody            []byte
	Errs               []string
}

// ProbeCAS checks (hash,size) via FindMissingBlobs, HTTP HEAD and HTTP GET.
func (s *Server) ProbeCAS(hash string, size int64) PresenceProbe {
	var p PresenceProbe
	ctx, cancel := Ctx()
	defer cancel()
	if s.CAS != nil {
		miss, err := s.FindMissing(ctx, &pb.Digest{Hash: hash, SizeBytes: size})
		if err != nil {
			p.Errs = append(p.Errs, "findmissing: "+err.Error())
		} else {
			p.FindMissingPresent = len(miss) == 0
		}
	}
	h := s.HTTPHead("/cas/" + hash)
	if h.Err != nil {
		p.Errs = append(p.Errs, "head: "+h.Err.Error())
	}
	p.HeadStatus = h.Status
	g := s.HTTPGet("/cas/"+hash, nil)
	if g.Err != nil {
		p.Errs = append(p.Errs, "get: "+g.Err.Error())
	}
	p.GetStatus = g.Status
	p.GetBody = g.Body
	return p
}

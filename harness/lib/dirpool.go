package lib

import (
	"os"
	"path/filepath"
	"sync"
)

// DirPool recycles cache directory skeletons (768 sub-directories each) so
// that histories on fresh caches do not pay mkdir/rmdir of the whole tree.
type DirPool struct {
	mu   sync.Mutex
	base string
	free []string
	all  []string
}

func NewDirPool(prefix string) *DirPool {
	return &DirPool{base: MkTemp(prefix)}
}

// Get returns an empty cache directory (possibly with the v2 skeleton present).
func (p *DirPool) Get() string {
	p.mu.Lock()
	defer p.mu.Unlock()
	if n := len(p.free); n > 0 {
		d := p.free[n-1]
		p.free = p.free[:n-1]
		return d
	}
	d, err := os.MkdirTemp(p.base, "c")
	if err != nil {
		panic(err)
	}
	p.all = append(p.all, d)
	return d
}

// Put removes every regular file (and any non-skeleton directory) and makes the directory reusable.
func (p *DirPool) Put(dir string) {
	ok := true
	top, err := os.ReadDir(dir)
	if err != nil {
		ok = false
	}
	for _, t := range top {
		tp := filepath.Join(dir, t.Name())
		if !t.IsDir() || (t.Name() != "cas.v2" && t.Name() != "ac.v2" && t.Name() != "raw.v2") {
			_ = os.RemoveAll(tp)
			continue
		}
		subs, _ := os.ReadDir(tp)
		for _, s := range subs {
			sp := filepath.Join(tp, s.Name())
			if !s.IsDir() || len(s.Name()) != 2 {
				_ = os.RemoveAll(sp)
				continue
			}
			files, _ := os.ReadDir(sp)
			for _, f := range files {
				_ = os.RemoveAll(filepath.Join(sp, f.Name()))
			}
		}
	}
	if !ok {
		_ = os.RemoveAll(dir)
		return
	}
	p.mu.Lock()
	p.free = append(p.free, dir)
	p.mu.Unlock()
}

// Close removes everything.
func (p *DirPool) Close() { _ = os.RemoveAll(p.base) }

package lib

import (
	"bytes"
	"encoding/binary"
	"fmt"
	"regexp"
	"strconv"
)

// Independent implementation of the published cas.v2 blob file format
// (README + design text; NOT derived from calling casblob).
//
//   uint32 LE magic 0x184D2A50 (zstd skippable frame)
//   uint32 LE frame size (= bytes after this field up to end of header)
//   int64  LE logical (uncompressed) size
//   uint8  compression type (0 identity, 1 zstd)
//   uint32 LE chunk size
//   int64  LE number of offsets (= chunks + 1)
//   int64  LE offsets[...]   (file offsets of each chunk, then file size)
//   chunk data (each chunk an independent zstd frame, or raw data for identity)

const casMagic = 0x184D2A50
const casFixedHeader = 4 + 4 + 8 + 1 + 4 + 8 // 29

type CasHeader struct {
	LogicalSize int64
	Compression uint8
	ChunkSize   uint32
	Offsets     []int64
}

// CasEncoder compresses one chunk.
type CasEncoder func(chunk []byte) []byte

// CasWrite lays out a cas.v2 file for data with the given chunk size.
func CasWrite(data []byte, chunkSize int, compression uint8, enc CasEncoder) []byte {
	if len(data) == 0 {
		panic("casfmt: empty blobs are never stored")
	}
	nChunks := 1
	if compression == 1 {
		nChunks = (len(data) + chunkSize - 1) / chunkSize
	}
	nOffsets := nChunks + 1
	hdrSize := casFixedHeader + 8*nOffsets
	var body bytes.Buffer
	offsets := make([]int64, 0, nOffsets)
	pos := int64(hdrSize)
	if compression == 0 {
		offsets = append(offsets, pos)
		body.Write(data)
		pos += int64(len(data))
	} else {
		for i := 0; i < len(data); i += chunkSize {
			end := i + chunkSize
			if end > len(data) {
				end = len(data)
			}
			offsets = append(offsets, pos)
			c := enc(data[i:end])
			body.Write(c)
			pos += int64(len(c))
		}
	}
	offsets = append(offsets, pos)

	out := make([]byte, 0, int(pos))
	out = binary.LittleEndian.AppendUint32(out, casMagic)
	out = binary.LittleEndian.AppendUint32(out, uint32(hdrSize-8))
	out = binary.LittleEndian.AppendUint64(out, uint64(len(data)))
	out = append(out, compression)
	out = binary.LittleEndian.AppendUint32(out, uint32(chunkSize))
	out = binary.LittleEndian.AppendUint64(out, uint64(nOffsets))
	for _, o := range offsets {
		out = binary.LittleEndian.AppendUint64(out, uint64(o))
	}
	out = append(out, body.Bytes()...)
	return out
}

// CasParseHeader parses and validates the header of a complete cas.v2 file.
func CasParseHeader(file []byte) (*CasHeader, error) {
	if len(file) < casFixedHeader+16 {
		return nil, fmt.Errorf("file too small: %d", len(file))
	}
	if m := binary.LittleEndian.Uint32(file[0:]); m != casMagic {
		return nil, fmt.Errorf("bad magic %#x", m)
	}
	frame := binary.LittleEndian.Uint32(file[4:])
	h := &CasHeader{
		LogicalSize: int64(binary.LittleEndian.Uint64(file[8:])),
		Compression: file[16],
		ChunkSize:   binary.LittleEndian.Uint32(file[17:]),
	}
	n := int64(binary.LittleEndian.Uint64(file[21:]))
	if n < 2 || n > int64(len(file))/8 {
		return nil, fmt.Errorf("bad offset count %d", n)
	}
	hdrSize := int64(casFixedHeader) + 8*n
	if int64(frame) != hdrSize-8 {
		return nil, fmt.Errorf("skippable frame size %d does not match header size %d", frame, hdrSize)
	}
	if hdrSize > int64(len(file)) {
		return nil, fmt.Errorf("header larger than file")
	}
	if h.LogicalSize <= 0 {
		return nil, fmt.Errorf("non-positive logical size %d", h.LogicalSize)
	}
	if h.Compression > 1 {
		return nil, fmt.Errorf("unknown compression type %d", h.Compression)
	}
	if h.ChunkSize == 0 {
		return nil, fmt.Errorf("zero chunk size")
	}
	prev := int64(-1)
	for i := int64(0); i < n; i++ {
		o := int64(binary.LittleEndian.Uint64(file[casFixedHeader+8*i:]))
		if o <= prev {
			return nil, fmt.Errorf("offsets not increasing: %d after %d", o, prev)
		}
		prev = o
		h.Offsets = append(h.Offsets, o)
	}
	if h.Offsets[0] != hdrSize {
		return nil, fmt.Errorf("first offset %d != header size %d", h.Offsets[0], hdrSize)
	}
	if prev != int64(len(file)) {
		return nil, fmt.Errorf("last offset %d != file size %d", prev, len(file))
	}
	if h.Compression == 1 {
		want := (h.LogicalSize + int64(h.ChunkSize) - 1) / int64(h.ChunkSize)
		if int64(len(h.Offsets)-1) != want {
			return nil, fmt.Errorf("chunk count %d does not match logical size %d / chunk size %d", len(h.Offsets)-1, h.LogicalSize, h.ChunkSize)
		}
	} else if len(h.Offsets) != 2 {
		return nil, fmt.Errorf("identity blob with %d chunks", len(h.Offsets)-1)
	}
	return h, nil
}

// CasRead decodes a complete cas.v2 file chunk by chunk (each chunk with both
// decoders), checks per-chunk sizes, and additionally requires the whole file
// to be a legal zstd stream for both standard decoders.
func CasRead(file []byte) ([]byte, *CasHeader, error) {
	h, err := CasParseHeader(file)
	if err != nil {
		return nil, nil, err
	}
	if h.Compression == 0 {
		data := file[h.Offsets[0]:h.Offsets[1]]
		if int64(len(data)) != h.LogicalSize {
			return nil, h, fmt.Errorf("identity payload %d != logical size %d", len(data), h.LogicalSize)
		}
		return data, h, nil
	}
	out := make([]byte, 0, h.LogicalSize)
	for i := 0; i+1 < len(h.Offsets); i++ {
		c := file[h.Offsets[i]:h.Offsets[i+1]]
		d, err := ZstdDecodeBoth(c)
		if err != nil {
			return nil, h, fmt.Errorf("chunk %d: %w", i, err)
		}
		want := int64(h.ChunkSize)
		if i == len(h.Offsets)-2 {
			want = h.LogicalSize - int64(i)*int64(h.ChunkSize)
		}
		if int64(len(d)) != want {
			return nil, h, fmt.Errorf("chunk %d decodes to %d bytes, want %d", i, len(d), want)
		}
		out = append(out, d...)
	}
	whole, err := ZstdDecodeBoth(file)
	if err != nil {
		return nil, h, fmt.Errorf("whole file is not a legal zstd stream: %w", err)
	}
	if !bytes.Equal(whole, out) {
		return nil, h, fmt.Errorf("whole-file decode differs from chunk-wise decode")
	}
	return out, h, nil
}

// ---------------------------------------------------------------------------
// File naming grammar.

var (
	reCasCompressed = regexp.MustCompile(`^cas\.v2/([0-9a-f]{2})/([0-9a-f]{64})-([1-9][0-9]*)-([0-9a-zA-Z]+)$`)
	reCasRaw        = regexp.MustCompile(`^cas\.v2/([0-9a-f]{2})/([0-9a-f]{64})-([0-9a-zA-Z]+)\.v1$`)
	reAcRaw         = regexp.MustCompile(`^(ac|raw)\.v2/([0-9a-f]{2})/([0-9a-f]{64})-([0-9a-zA-Z]+)$`)
)

// ParsedName is a cache file name decomposed per the published grammar.
type ParsedName struct {
	Kind        string // "cas", "ac", "raw"
	Hash        string
	LogicalSize int64 // -1 when the name does not carry it
	Legacy      bool  // raw ".v1" CAS file
	Suffix      string
}

func (p ParsedName) Key() string { return p.Kind + "/" + p.Hash }

// ParseCacheFileName parses a path relative to the cache dir.
func ParseCacheFileName(rel string) (ParsedName, error) {
	if m := reCasCompressed.FindStringSubmatch(rel); m != nil {
		if m[1] != m[2][:2] {
			return ParsedName{}, fmt.Errorf("subdir %s does not match hash", m[1])
		}
		n, err := strconv.ParseInt(m[3], 10, 64)
		if err != nil {
			return ParsedName{}, err
		}
		return ParsedName{Kind: "cas", Hash: m[2], LogicalSize: n, Suffix: m[4]}, nil
	}
	if m := reCasRaw.FindStringSubmatch(rel); m != nil {
		if m[1] != m[2][:2] {
			return ParsedName{}, fmt.Errorf("subdir %s does not match hash", m[1])
		}
		return ParsedName{Kind: "cas", Hash: m[2], LogicalSize: -1, Legacy: true, Suffix: m[3]}, nil
	}
	if m := reAcRaw.FindStringSubmatch(rel); m != nil {
		if m[2] != m[3][:2] {
			return ParsedName{}, fmt.Errorf("subdir %s does not match hash", m[2])
		}
		return ParsedName{Kind: m[1], Hash: m[3], LogicalSize: -1, Suffix: m[4]}, nil
	}
	return ParsedName{}, fmt.Errorf("file name %q does not match the v2 naming grammar", rel)
}

// CacheFileName builds a conformant relative path.
func CacheFileName(kind, hash string, logicalSize int64, legacy bool, suffix string) string {
	switch {
	case kind == "cas" && legacy:
		return fmt.Sprintf("cas.v2/%s/%s-%s.v1", hash[:2], hash, suffix)
	case kind == "cas":
		return fmt.Sprintf("cas.v2/%s/%s-%d-%s", hash[:2], hash, logicalSize, suffix)
	default:
		return fmt.Sprintf("%s.v2/%s/%s-%s", kind, hash[:2], hash, suffix)
	}
}

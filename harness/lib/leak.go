package lib

import (
	"regexp"
	"runtime"
	"sort"
	"strings"
)

// M-leak: goroutine signatures. A signature is the innermost frame inside
// github.com/buchgr/bazel-remote/v2 of a goroutine plus its wait reason;
// goroutines without a bazel-remote frame get the signature "" and are ignored.

var reGoroutineHdr = regexp.MustCompile(`(?m)^goroutine \d+ \[([^\],]+)`)

const brPrefix = "github.com/buchgr/bazel-remote/v2/"

// GoroutineSignatures parses a debug=2 dump into signature -> count.
func GoroutineSignatures(dump string) map[string]int {
	out := map[string]int{}
	for _, block := range strings.Split(dump, "\n\n") {
		m := reGoroutineHdr.FindStringSubmatch(block)
		if m == nil {
			continue
		}
		state := m[1]
		sig := ""
		for _, line := range strings.Split(block, "\n")[1:] {
			if strings.HasPrefix(line, brPrefix) && !strings.HasPrefix(line, "created by") {
				fn := line
				if i := strings.LastIndex(fn, "("); i > 0 {
					fn = fn[:i]
				}
				sig = strings.TrimPrefix(fn, brPrefix) + " [" + state + "]"
				break
			}
		}
		if sig == "" {
			// created by a bazel-remote function? (e.g. anonymous goroutines parked in library code)
			for _, line := range strings.Split(block, "\n") {
				if strings.HasPrefix(line, "created by "+brPrefix) {
					fn := strings.TrimPrefix(line, "created by "+brPrefix)
					if i := strings.Index(fn, " in goroutine"); i > 0 {
						fn = fn[:i]
					}
					sig = "child-of " + fn + " [" + state + "]"
					break
				}
			}
		}
		if sig != "" {
			out[sig]++
		}
	}
	return out
}

// SelfGoroutineDump dumps all goroutines of this process.
func SelfGoroutineDump() string {
	buf := make([]byte, 1<<20)
	for {
		n := runtime.Stack(buf, true)
		if n < len(buf) {
			return string(buf[:n])
		}
		buf = make([]byte, 2*len(buf))
	}
}

// SigDiff returns signatures whose count grew from base to now.
func SigDiff(base, now map[string]int) map[string]int {
	d := map[string]int{}
	for k, v := range now {
		if v > base[k] {
			d[k] = v - base[k]
		}
	}
	return d
}

func SigString(m map[string]int) string {
	keys := make([]string, 0, len(m))
	for k := range m {
		keys = append(keys, k)
	}
	sort.Strings(keys)
	var sb strings.Builder
	for _, k := range keys {
		sb.WriteString(k)
		sb.WriteString(" x")
		sb.WriteString(itoa(m[k]))
		sb.WriteString("; ")
	}
	return sb.String()
}

func itoa(n int) string {
	if n == 0 {
		return "0"
	}
	neg := n < 0
	if neg {
		n = -n
	}
	var b [20]byte
	i := len(b)
	for n > 0 {
		i--
		b[i] = byte('0' + n%10)
		n /= 10
	}
	if neg {
		i--
		b[i] = '-'
	}
	return string(b[i:])
}

package lib

import (
	"flag"
	"fmt"
	"net"
	"net/http"
	_ "net/http/pprof"
	"os"
)

// ServeMain is F-launcher: `check serve ...` runs a bazel-remote instance in
// its own process with byte-sized limits, wired like main.go minus auth, plus
// the pprof endpoint on the default mux. It prints "READY http=<addr> grpc=<addr> pprof=<addr>".
func ServeMain(args []string) {
	fs := flag.NewFlagSet("serve", flag.ExitOnError)
	var o ServerOpts
	fs.StringVar(&o.Dir, "dir", "", "cache dir")
	fs.Int64Var(&o.MaxSize, "max_size", 1<<30, "bytes")
	fs.StringVar(&o.Storage, "storage", "zstd", "")
	fs.StringVar(&o.ZstdImpl, "zstd", "go", "")
	fs.Int64Var(&o.MaxBlobSize, "max_blob_size", 0, "")
	fs.Int64Var(&o.HardLimit, "hard_limit", 0, "")
	fs.BoolVar(&o.AssetAPI, "asset", true, "")
	fs.BoolVar(&o.NoHTTPValidate, "no_http_validate", false, "")
	fs.BoolVar(&o.Mangle, "mangle", false, "")
	_ = fs.Parse(args)
	o.KeepDir = true
	QuietGlobalLog()
	s, err := StartServer(o)
	if err != nil {
		fmt.Println("FAILED", err)
		os.Exit(3)
	}
	ln, err := net.Listen("tcp", "127.0.0.1:0")
	if err != nil {
		fmt.Println("FAILED", err)
		os.Exit(3)
	}
	go func() { _ = http.Serve(ln, nil) }()
	fmt.Printf("READY http=%s grpc=%s pprof=%s\n", s.HTTPURL, s.GRPCAddr, ln.Addr().String())
	select {}
}

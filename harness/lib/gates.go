package lib

import (
	"fmt"
	"math/rand/v2"
	"sync"
	"sync/atomic"
	"time"

	"github.com/buchgr/bazel-remote/v2/cache/disk"
)

// HookCtl drives the tag-guarded yield points of cache/disk: random delays,
// targeted gates (hold whoever reaches (point,key) until released), hit
// counters and a per-case trace of (point,key) events whose hash is the
// harness's measure of "distinct interleavings".
type HookCtl struct {
	mu      sync.Mutex
	gates   map[string]*Gate
	hits    map[string]*atomic.Int64
	delayOn atomic.Bool
	rng     *rand.Rand
	trace   []string
	tracing bool
	// GateTimeouts counts gates that gave up waiting (schedule degraded to random).
	GateTimeouts atomic.Int64
}

// Gate holds arrivals at one (point,key) until Release (or timeout).
type Gate struct {
	need     int
	arrived  int
	arriveCh chan struct{} // closed when `need` arrivals are waiting
	release  chan struct{}
	once     sync.Once
	passed   atomic.Int64
	timedOut atomic.Int64 // arrivals that gave up waiting for Release (the forced schedule was NOT kept)
	hold     time.Duration
}

func NewHookCtl(seed uint64) *HookCtl {
	h := &HookCtl{gates: map[string]*Gate{}, hits: map[string]*atomic.Int64{}, rng: rand.New(rand.NewPCG(seed, 0x600d))}
	return h
}

// Install makes h the active hook of package disk.
func (h *HookCtl) Install() { disk.VerifSetHook(h.cb) }

// Callback is the hook function itself (for chaining behind another callback).
func (h *HookCtl) Callback(point, key string, n int64) { h.cb(point, key, n) }
func (h *HookCtl) Remove()                             { disk.VerifSetHook(nil) }

func (h *HookCtl) cb(point, key string, n int64) {
	h.mu.Lock()
	c := h.hits[point]
	if c == nil {
		c = new(atomic.Int64)
		h.hits[point] = c
	}
	if h.tracing && len(h.trace) < 4000 {
		h.trace = append(h.trace, point+" "+key)
	}
	g := h.gates[point+"|"+key]
	if g == nil {
		g = h.gates[point+"|*"]
	}
	var d time.Duration
	if g == nil && point != "lru.removed" && h.delayOn.Load() {
		switch h.rng.IntN(6) {
		case 0:
			d = time.Duration(50+h.rng.IntN(1500)) * time.Microsecond
		case 1:
			d = -1 // Gosched
		}
	}
	if g != nil {
		g.arrived++
		if g.arrived == g.need {
			close(g.arriveCh)
		}
	}
	h.mu.Unlock()
	c.Add(1)
	if point == "lru.removed" {
		return // runs under the cache mutex: never block here
	}
	if g != nil {
		hold := g.hold
		if hold <= 0 {
			hold = 10 * time.Second
		}
		t := time.NewTimer(hold)
		select {
		case <-g.release:
			t.Stop()
		case <-t.C:
			g.timedOut.Add(1)
			h.GateTimeouts.Add(1)
		}
		g.passed.Add(1)
		return
	}
	if d > 0 {
		time.Sleep(d)
	} else if d < 0 {
		yield()
	}
}

func yield() { time.Sleep(0) }

// SetRandomDelays switches random sleeps/yields at yield points on or off.
func (h *HookCtl) SetRandomDelays(on bool) { h.delayOn.Store(on) }

// Gate installs a gate at (point, lookup key) that reports arrival once `need`
// goroutines wait there. key "*" matches any key.
func (h *HookCtl) Gate(point, key string, need int) *Gate {
	g := &Gate{need: need, arriveCh: make(chan struct{}), release: make(chan struct{})}
	h.mu.Lock()
	h.gates[point+"|"+key] = g
	h.mu.Unlock()
	return g
}

// GateHold is Gate with an explicit bound on how long an arrival is held (default 10 s). Scenarios whose driver
// may legitimately need longer than that between the arrival and the Release (slow machine) use a larger bound;
// whether the bound was hit is reported by TimedOut, so that a degraded schedule is never judged as the forced one.
func (h *HookCtl) GateHold(point, key string, need int, hold time.Duration) *Gate {
	g := &Gate{need: need, arriveCh: make(chan struct{}), release: make(chan struct{}), hold: hold}
	h.mu.Lock()
	h.gates[point+"|"+key] = g
	h.mu.Unlock()
	return g
}

// Ungate removes the gate (releasing anyone held).
func (h *HookCtl) Ungate(point, key string) {
	h.mu.Lock()
	g := h.gates[point+"|"+key]
	delete(h.gates, point+"|"+key)
	h.mu.Unlock()
	if g != nil {
		g.Release()
	}
}

// UngateAll removes and releases every gate.
func (h *HookCtl) UngateAll() {
	h.mu.Lock()
	gs := h.gates
	h.gates = map[string]*Gate{}
	h.mu.Unlock()
	for _, g := range gs {
		g.Release()
	}
}

// WaitArrived waits until `need` goroutines are held at the gate.
func (g *Gate) WaitArrived(max time.Duration) bool {
	select {
	case <-g.arriveCh:
		return true
	case <-time.After(max):
		return false
	}
}

// Release lets everyone pass (idempotent).
func (g *Gate) Release() { g.once.Do(func() { close(g.release) }) }

// TimedOut is the number of arrivals that left the gate because their hold expired, not because of Release:
// if it is non-zero the interleaving the gate was meant to force did not (necessarily) happen.
func (g *Gate) TimedOut() int64 { return g.timedOut.Load() }

// Kept reports whether the gate forced its schedule: `need` goroutines arrived and none of them left on a timeout.
// Call it after Release and after the gated operations returned.
func (g *Gate) Kept() bool {
	select {
	case <-g.arriveCh:
		return g.timedOut.Load() == 0
	default:
		return false
	}
}

// Passed is the number of goroutines that went through the gate.
func (g *Gate) Passed() int64 { return g.passed.Load() }

// Hits returns hook hit counts per point.
func (h *HookCtl) Hits() map[string]int64 {
	h.mu.Lock()
	defer h.mu.Unlock()
	out := map[string]int64{}
	for k, v := range h.hits {
		out[k] = v.Load()
	}
	return out
}

// StartTrace begins recording the (point,key) event order of one case.
func (h *HookCtl) StartTrace() {
	h.mu.Lock()
	h.trace, h.tracing = nil, true
	h.mu.Unlock()
}

// EndTrace returns a hash of the recorded event order and its length.
func (h *HookCtl) EndTrace() (string, int) {
	h.mu.Lock()
	defer h.mu.Unlock()
	h.tracing = false
	x := uint64(1469598103934665603)
	for _, s := range h.trace {
		for _, c := range []byte(s) {
			x ^= uint64(c)
			x *= 1099511628211
		}
		x ^= 0xff
		x *= 1099511628211
	}
	return fmt.Sprintf("%016x", x), len(h.trace)
}

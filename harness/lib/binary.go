package lib

import (
	"bytes"
	"fmt"
	"io"
	"net"
	"net/http"
	"os"
	"os/exec"
	"path/filepath"
	"strings"
	"sync"
	"syscall"
	"time"
)

// BinPath returns the path of a binary built by run.sh/setup.sh (VERIF_BIN).
func BinPath(name string) string {
	d := os.Getenv("VERIF_BIN")
	if d == "" {
		d = filepath.Join(VerifRoot(), "bin")
	}
	return filepath.Join(d, name)
}

// FreePort returns a currently free loopback TCP port.
func FreePort() int {
	ln, err := net.Listen("tcp", "127.0.0.1:0")
	if err != nil {
		panic(err)
	}
	defer func() { _ = ln.Close() }()
	return ln.Addr().(*net.TCPAddr).Port
}

// Child is a supervised child process (the real bazel-remote binary, F-binary,
// or the harness launcher `check serve`, F-launcher).
type Child struct {
	Cmd      *exec.Cmd
	LogPath  string
	HTTPAddr string // host:port
	GRPCAddr string
	Pprof    string
	Dir      string // cache dir
	done     chan struct{}
	mu       sync.Mutex
	exitErr  error
	exited   bool
	ownDir   bool // Dir was created by StartBinary and is removed by Stop
}

// BinaryOpts describes how to start the real bazel-remote executable.
type BinaryOpts struct {
	Dir       string   // cache dir ("" = fresh temp dir, removed by Stop)
	Args      []string // extra flags, e.g. "--max_size=1"
	Env       []string // extra environment KEY=VALUE
	NoDefault bool     // do not add --dir/--max_size/--http_address/--grpc_address/--profile_address defaults
	TLS       bool     // HTTP port speaks TLS (only affects readiness probing)
	Exe       string   // executable name under VERIF_BIN ("" = bazel-remote)
	WaitReady time.Duration
}

// StartBinary launches /verif/bin/bazel-remote. With defaults it listens on
// fresh loopback ports (HTTP, gRPC, pprof) with max_size 1 GiB.
// If the process exits before becoming ready the returned Child has Exited()==true
// and err describes it; the log is at Child.LogPath.
func StartBinary(o BinaryOpts) (*Child, error) {
	c := &Child{done: make(chan struct{})}
	args := []string{}
	ownDir := false
	if !o.NoDefault {
		c.Dir = o.Dir
		if c.Dir == "" {
			c.Dir = MkTemp("bin")
			ownDir = true
		}
		c.HTTPAddr = fmt.Sprintf("127.0.0.1:%d", FreePort())
		c.GRPCAddr = fmt.Sprintf("127.0.0.1:%d", FreePort())
		c.Pprof = fmt.Sprintf("127.0.0.1:%d", FreePort())
		args = append(args, "--dir="+c.Dir, "--max_size=1", "--http_address="+c.HTTPAddr, "--grpc_address="+c.GRPCAddr, "--profile_address="+c.Pprof)
	}
	c.ownDir = ownDir
	args = append(args, o.Args...)
	logf, err := os.CreateTemp(ScratchBase(), "verif-binlog-")
	if err != nil {
		return nil, err
	}
	c.LogPath = logf.Name()
	exe := o.Exe
	if exe == "" {
		exe = "bazel-remote"
	}
	cmd := exec.Command(BinPath(exe), args...)
	cmd.Stdout, cmd.Stderr = logf, logf
	cmd.Env = append(os.Environ(), o.Env...)
	cmd.SysProcAttr = &syscall.SysProcAttr{Pdeathsig: syscall.SIGKILL}
	c.Cmd = cmd
	if err := cmd.Start(); err != nil {
		_ = logf.Close()
		return c, err
	}
	_ = logf.Close()
	go func() {
		err := cmd.Wait()
		c.mu.Lock()
		c.exitErr, c.exited = err, true
		c.mu.Unlock()
		close(c.done)
	}()
	wait := o.WaitReady
	if wait == 0 {
		wait = 30 * time.Second
	}
	if c.HTTPAddr != "" {
		if !c.WaitPort(c.HTTPAddr, wait) {
			return c, fmt.Errorf("bazel-remote did not start listening on %s (exited=%v): %s", c.HTTPAddr, c.Exited(), c.LogTail(800))
		}
		if c.GRPCAddr != "" && !c.WaitPort(c.GRPCAddr, wait) {
			return c, fmt.Errorf("bazel-remote did not start listening on grpc %s (exited=%v): %s", c.GRPCAddr, c.Exited(), c.LogTail(800))
		}
	}
	return c, nil
}

// StartLauncher starts `check serve` (F-launcher) with byte-sized limits.
// args are flags of lib.ServeMain; env e.g. VERIF_HOOKS=...
func StartLauncher(args []string, env []string) (*Child, error) {
	c := &Child{done: make(chan struct{})}
	logf, err := os.CreateTemp(ScratchBase(), "verif-launchlog-")
	if err != nil {
		return nil, err
	}
	c.LogPath = logf.Name()
	self, _ := os.Executable()
	cmd := exec.Command(self, append([]string{"serve"}, args...)...)
	cmd.Stdout, cmd.Stderr = logf, logf
	cmd.Env = append(os.Environ(), env...)
	cmd.SysProcAttr = &syscall.SysProcAttr{Pdeathsig: syscall.SIGKILL}
	c.Cmd = cmd
	if err := cmd.Start(); err != nil {
		_ = logf.Close()
		return c, err
	}
	_ = logf.Close()
	go func() {
		err := cmd.Wait()
		c.mu.Lock()
		c.exitErr, c.exited = err, true
		c.mu.Unlock()
		close(c.done)
	}()
	deadline := time.Now().Add(60 * time.Second)
	for {
		b, _ := os.ReadFile(c.LogPath)
		if i := bytes.Index(b, []byte("READY ")); i >= 0 {
			line := string(b[i:])
			if j := strings.IndexByte(line, '\n'); j >= 0 {
				line = line[:j]
				for _, f := range strings.Fields(line)[1:] {
					kv := strings.SplitN(f, "=", 2)
					switch kv[0] {
					case "http":
						c.HTTPAddr = strings.TrimPrefix(kv[1], "http://")
					case "grpc":
						c.GRPCAddr = kv[1]
					case "pprof":
						c.Pprof = kv[1]
					}
				}
				return c, nil
			}
		}
		if c.Exited() || bytes.Contains(b, []byte("FAILED")) {
			return c, fmt.Errorf("launcher failed: %s", c.LogTail(800))
		}
		if time.Now().After(deadline) {
			return c, fmt.Errorf("launcher not ready: %s", c.LogTail(800))
		}
		time.Sleep(2 * time.Millisecond)
	}
}

// WaitPort polls until something accepts TCP connections on addr, the child exits, or max elapses.
func (c *Child) WaitPort(addr string, max time.Duration) bool {
	deadline := time.Now().Add(max)
	for {
		conn, err := net.DialTimeout("tcp", addr, 200*time.Millisecond)
		if err == nil {
			_ = conn.Close()
			return true
		}
		if c.Exited() || time.Now().After(deadline) {
			return false
		}
		time.Sleep(5 * time.Millisecond)
	}
}

func (c *Child) Exited() bool { c.mu.Lock(); defer c.mu.Unlock(); return c.exited }

// ExitCode is -1 while running or when killed by a signal.
func (c *Child) ExitCode() int {
	c.mu.Lock()
	defer c.mu.Unlock()
	if !c.exited || c.Cmd.ProcessState == nil {
		return -1
	}
	return c.Cmd.ProcessState.ExitCode()
}

// WaitExit waits up to max for the process to end.
func (c *Child) WaitExit(max time.Duration) bool {
	select {
	case <-c.done:
		return true
	case <-time.After(max):
		return false
	}
}

func (c *Child) Pid() int { return c.Cmd.Process.Pid }

// Kill sends SIGKILL and reaps.
func (c *Child) Kill() {
	if c.Cmd.Process != nil {
		_ = c.Cmd.Process.Kill()
	}
	<-c.done
}

// Stop kills the process and removes its log (and nothing else).
func (c *Child) Stop() {
	c.Kill()
	_ = os.Remove(c.LogPath)
	if c.ownDir && c.Dir != "" {
		_ = os.RemoveAll(c.Dir)
	}
}

// Log returns the captured stdout+stderr.
func (c *Child) Log() string { b, _ := os.ReadFile(c.LogPath); return string(b) }

func (c *Child) LogTail(n int) string {
	s := c.Log()
	if len(s) > n {
		s = s[len(s)-n:]
	}
	return s
}

// Panicked reports whether the log shows a Go panic / fatal error.
func (c *Child) Panicked() (bool, string) {
	s := c.Log()
	for _, marker := range []string{"panic: ", "fatal error: ", "http: panic serving"} {
		if i := strings.Index(s, marker); i >= 0 {
			e := i + 1500
			if e > len(s) {
				e = len(s)
			}
			return true, s[i:e]
		}
	}
	return false, ""
}

// GoroutineDump fetches the full goroutine dump from the pprof endpoint.
func (c *Child) GoroutineDump() (string, error) {
	cl := &http.Client{Timeout: 20 * time.Second}
	resp, err := cl.Get("http://" + c.Pprof + "/debug/pprof/goroutine?debug=2")
	if err != nil {
		return "", err
	}
	defer func() { _ = resp.Body.Close() }()
	b, err := io.ReadAll(resp.Body)
	return string(b), err
}

// FDCount counts open file descriptors of the child.
func (c *Child) FDCount() int {
	es, err := os.ReadDir(fmt.Sprintf("/proc/%d/fd", c.Pid()))
	if err != nil {
		return -1
	}
	return len(es)
}

// FDTargets lists what the child's descriptors point to.
func (c *Child) FDTargets() []string {
	dir := fmt.Sprintf("/proc/%d/fd", c.Pid())
	es, _ := os.ReadDir(dir)
	var out []string
	for _, e := range es {
		t, err := os.Readlink(filepath.Join(dir, e.Name()))
		if err == nil {
			out = append(out, t)
		}
	}
	return out
}

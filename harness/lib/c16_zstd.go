package lib

import (
	"sync"

	"github.com/klauspost/compress/zstd"
)

// Cached klauspost encoders (one per level).  ZstdEncodeKP builds a new
// encoder with GOMAXPROCS worker states for every call, which dominates the
// cost of checks that compress thousands of payloads; EncodeAll on a shared
// Encoder is safe for concurrent use.

var (
	kpEncMu  sync.Mutex
	kpEncByL = map[zstd.EncoderLevel]*zstd.Encoder{}
)

// ZstdEncodeKPCached compresses like ZstdEncodeKP (level 1..4) with a cached encoder.
func ZstdEncodeKPCached(b []byte, level int) []byte {
	lv := zstd.EncoderLevel(level)
	if lv < zstd.SpeedFastest || lv > zstd.SpeedBestCompression {
		lv = zstd.SpeedDefault
	}
	kpEncMu.Lock()
	enc := kpEncByL[lv]
	if enc == nil {
		enc, _ = zstd.NewWriter(nil, zstd.WithEncoderLevel(lv), zstd.WithEncoderConcurrency(4))
		kpEncByL[lv] = enc
	}
	kpEncMu.Unlock()
	return enc.EncodeAll(b, nil)
}

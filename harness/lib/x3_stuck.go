package lib

import (
	"regexp"
	"sort"
	"strings"
	"time"
)

// Persistent-state hang oracle on goroutine dumps: a deadlocked request is a goroutine that sits PARKED (lock,
// semaphore, channel, select, cond) inside bazel-remote code in two dumps taken some seconds apart - the same
// goroutine id, the same wait reason, the same innermost bazel-remote frame - while no goroutine with a
// bazel-remote frame is runnable, running, sleeping or in a system call (then the machine is merely slow).

// GoroutineRec is one goroutine of a debug=2 dump.
type GoroutineRec struct {
	ID    string
	State string // wait reason without the duration, e.g. "sync.Mutex.Lock", "chan receive", "runnable"
	Site  string // innermost frame inside github.com/buchgr/bazel-remote/v2 ("" = none)
	Top   string // innermost frame of all
	// InHarness: a harness frame (hook callback: gate, injected delay) lies inside the innermost bazel-remote frame,
	// i.e. the goroutine is held by the harness itself, not by the code under test.
	InHarness bool
	Frames    []string // all function names, innermost first
}

var reGoroutineHdrID = regexp.MustCompile(`^goroutine (\d+) \[([^\],]+)`)

// ParseGoroutines splits a debug=2 dump (runtime.Stack(all) has the same format).
func ParseGoroutines(dump string) []GoroutineRec {
	var out []GoroutineRec
	for _, block := range strings.Split(dump, "\n\n") {
		block = strings.TrimLeft(block, "\n")
		lines := strings.Split(block, "\n")
		m := reGoroutineHdrID.FindStringSubmatch(lines[0])
		if m == nil {
			continue
		}
		g := GoroutineRec{ID: m[1], State: m[2]}
		for _, line := range lines[1:] {
			if strings.HasPrefix(line, "\t") || strings.HasPrefix(line, "created by") {
				continue
			}
			fn := line
			if i := strings.LastIndex(fn, "("); i > 0 {
				fn = fn[:i]
			}
			if g.Top == "" {
				g.Top = fn
			}
			g.Frames = append(g.Frames, fn)
			if strings.HasPrefix(fn, "verif/harness/") {
				if g.Site == "" {
					g.InHarness = true
				}
			}
			if g.Site == "" && strings.HasPrefix(fn, brPrefix) {
				g.Site = strings.TrimPrefix(fn, brPrefix)
			}
		}
		if g.Site == "" {
			g.InHarness = false
		}
		out = append(out, g)
	}
	return out
}

// activeStates: the goroutine is making (or about to make) progress.
func goroutineActive(state string) bool {
	switch state {
	case "runnable", "running", "syscall", "IO wait", "sleep", "GC assist wait", "GC sweep wait", "GC worker (idle)", "GC worker (active)", "preempted", "copystack", "GC assist marking":
		return true
	}
	return false
}

// StuckVerdict compares two dumps. baseline lists substrings of sites that are parked by design (background
// workers waiting for work); drivers lists substrings of harness functions whose goroutines issue the requests (if
// one of them is not parked the workload is still moving). stuck: "site [state]" -> count of goroutines parked identically in both dumps;
// active: goroutines with a bazel-remote frame (baseline included), or harness goroutines without one, that are
// not parked in the second dump (somebody can still make progress: no verdict).
func StuckVerdict(dump1, dump2 string, baseline, drivers []string) (stuck map[string]int, active []string) {
	first := map[string]GoroutineRec{}
	for _, g := range ParseGoroutines(dump1) {
		first[g.ID] = g
	}
	stuck = map[string]int{}
	for _, g := range ParseGoroutines(dump2) {
		if g.Site == "" {
			if goroutineActive(g.State) && hasFrame(g, drivers) {
				active = append(active, "harness:"+g.Top+" ["+g.State+"]") // a harness client is still working
			}
			continue
		}
		if goroutineActive(g.State) || g.InHarness {
			active = append(active, g.Site+" ["+g.State+"]")
			continue
		}
		base := false
		for _, b := range baseline {
			if strings.Contains(g.Site, b) {
				base = true
			}
		}
		if base {
			continue
		}
		if p, ok := first[g.ID]; ok && p.State == g.State && p.Site == g.Site && p.Top == g.Top {
			stuck[g.Site+" ["+g.State+" in "+g.Top+"]"]++
		}
	}
	sort.Strings(active)
	return stuck, active
}

func hasFrame(g GoroutineRec, subs []string) bool {
	for _, f := range g.Frames {
		for _, s := range subs {
			if strings.Contains(f, s) {
				return true
			}
		}
	}
	return false
}

// SelfStuckVerdict takes two dumps of this process `gap` apart and applies StuckVerdict.
func SelfStuckVerdict(gap time.Duration, baseline, drivers []string) (stuck map[string]int, active []string, dump string) {
	d1 := SelfGoroutineDump()
	time.Sleep(gap)
	d2 := SelfGoroutineDump()
	stuck, active = StuckVerdict(d1, d2, baseline, drivers)
	return stuck, active, d2
}

package lib

import (
	"context"
	"encoding/json"
	"fmt"
	"io/fs"
	"os"
	"path/filepath"
	"sort"
	"strings"
	"time"

	"github.com/buchgr/bazel-remote/v2/cache"
	"github.com/buchgr/bazel-remote/v2/cache/disk"
)

// Snapshot takes the hooked index snapshot (under the cache's own lock).
func Snapshot(c disk.Cache) disk.VerifSnap {
	s, ok := disk.VerifSnapshot(c)
	if !ok {
		panic("VerifSnapshot: unknown cache implementation")
	}
	return s
}

// CheckAcct is M-acct: the accounting invariant on one snapshot. Returns
// a list of discrepancies (empty = holds). It may be evaluated at any instant
// (the snapshot is taken under the lock the code itself uses).
func CheckAcct(s disk.VerifSnap) []string {
	var bad []string
	var sumDisk, sumLogical int64
	keys := map[string]bool{}
	for _, e := range s.Entries {
		sumDisk += RoundUp4k(e.SizeOnDisk)
		sumLogical += RoundUp4k(e.Size)
		if keys[e.Key] {
			bad = append(bad, "duplicate key in LRU list: "+e.Key)
		}
		keys[e.Key] = true
	}
	if s.MapLen != len(s.Entries) {
		bad = append(bad, fmt.Sprintf("index map has %d entries, list has %d", s.MapLen, len(s.Entries)))
	}
	if s.ReservedSize < 0 {
		bad = append(bad, fmt.Sprintf("reservedSize %d < 0", s.ReservedSize))
	}
	if s.CurrentSize != sumDisk+s.ReservedSize {
		bad = append(bad, fmt.Sprintf("currentSize %d != sum(roundUp4k(sizeOnDisk)) %d + reserved %d (drift %d)",
			s.CurrentSize, sumDisk, s.ReservedSize, s.CurrentSize-sumDisk-s.ReservedSize))
	}
	if s.UncompressedSize != sumLogical {
		bad = append(bad, fmt.Sprintf("uncompressedSize %d != sum(roundUp4k(size)) %d", s.UncompressedSize, sumLogical))
	}
	if s.CurrentSize > s.MaxSize {
		bad = append(bad, fmt.Sprintf("currentSize %d > maxSize %d", s.CurrentSize, s.MaxSize))
	}
	return bad
}

// CheckStatsAgree compares Stats() with a snapshot taken while nothing runs.
func CheckStatsAgree(c disk.Cache, s disk.VerifSnap) []string {
	var bad []string
	total, reserved, n, unc := c.Stats()
	if total != s.CurrentSize || reserved != s.ReservedSize || n != len(s.Entries) || unc != s.UncompressedSize {
		bad = append(bad, fmt.Sprintf("Stats()=(%d,%d,%d,%d) but snapshot=(%d,%d,%d,%d)",
			total, reserved, n, unc, s.CurrentSize, s.ReservedSize, len(s.Entries), s.UncompressedSize))
	}
	if c.MaxSize() != s.MaxSize {
		bad = append(bad, fmt.Sprintf("MaxSize()=%d snapshot %d", c.MaxSize(), s.MaxSize))
	}
	return bad
}

// StatusPage is the JSON served on /status.
type StatusPage struct {
	CurrSize         int64
	UncompressedSize int64
	ReservedSize     int64
	MaxSize          int64
	NumFiles         int
	NumGoroutines    int
}

// CheckStatusPage compares GET /status with a quiescent snapshot.
func (s *Server) CheckStatusPage(snap disk.VerifSnap) []string {
	r := s.HTTPGet("/status", nil)
	if r.Err != nil || r.Status != 200 {
		return []string{fmt.Sprintf("/status failed: %v %d", r.Err, r.Status)}
	}
	var sp StatusPage
	if err := json.Unmarshal(r.Body, &sp); err != nil {
		return []string{"/status not JSON: " + err.Error()}
	}
	var bad []string
	if sp.CurrSize != snap.CurrentSize || sp.ReservedSize != snap.ReservedSize || sp.NumFiles != len(snap.Entries) ||
		sp.UncompressedSize != snap.UncompressedSize || sp.MaxSize != snap.MaxSize {
		bad = append(bad, fmt.Sprintf("/status {Curr:%d Unc:%d Res:%d Max:%d Num:%d} != snapshot {%d %d %d %d %d}",
			sp.CurrSize, sp.UncompressedSize, sp.ReservedSize, sp.MaxSize, sp.NumFiles,
			snap.CurrentSize, snap.UncompressedSize, snap.ReservedSize, snap.MaxSize, len(snap.Entries)))
	}
	return bad
}

// ListFiles returns all regular files under dir (relative path -> size).
func ListFiles(dir string) (map[string]int64, error) {
	out := map[string]int64{}
	err := filepath.WalkDir(dir, func(p string, d fs.DirEntry, err error) error {
		if err != nil {
			if os.IsNotExist(err) {
				return nil // raced with a removal
			}
			return err
		}
		if d.IsDir() {
			return nil
		}
		info, err := d.Info()
		if err != nil {
			if os.IsNotExist(err) {
				return nil
			}
			return err
		}
		rel, _ := filepath.Rel(dir, p)
		out[rel] = info.Size()
		return nil
	})
	return out, err
}

// IndependentEntryPath is the relative file name of an index entry per the v2 naming grammar, computed from the
// entry's key, logical size, suffix and format flag only (legacy = raw ".v1" CAS file; the flag is meaningless
// for AC/RAW entries, whose names never carry it).
func IndependentEntryPath(e disk.VerifEntry) string {
	i := strings.IndexByte(e.Key, '/')
	if i < 0 || len(e.Key) < i+3 {
		return "?" + e.Key
	}
	kind, hash := e.Key[:i], e.Key[i+1:]
	return CacheFileName(kind, hash, e.Size, e.Legacy && kind == "cas", e.Random)
}

// DirDiscrepancy describes how directory and index differ.
type DirDiscrepancy struct {
	Extra   []string // files on disk without index entry
	Missing []string // index entries without file
	BadSize []string
	BadBlob []string

	extraSize map[string]int64 // length of each surplus file
}

func (d DirDiscrepancy) Empty() bool {
	return len(d.Extra)+len(d.Missing)+len(d.BadSize)+len(d.BadBlob) == 0
}

func (d DirDiscrepancy) String() string {
	var sb strings.Builder
	if len(d.Extra) > 0 {
		fmt.Fprintf(&sb, "files without index entry: %v; ", d.Extra)
	}
	if len(d.Missing) > 0 {
		fmt.Fprintf(&sb, "index entries without file: %v; ", d.Missing)
	}
	if len(d.BadSize) > 0 {
		fmt.Fprintf(&sb, "size mismatches: %v; ", d.BadSize)
	}
	if len(d.BadBlob) > 0 {
		fmt.Fprintf(&sb, "malformed blobs: %v; ", d.BadBlob)
	}
	return sb.String()
}

// CompareDir is one evaluation of M-dir (no waiting).
// deep: parse every compressed CAS file with the independent reader.
func CompareDir(c disk.Cache, deep bool) (DirDiscrepancy, disk.VerifSnap) {
	snap := Snapshot(c)
	files, err := ListFiles(snap.Dir)
	var d DirDiscrepancy
	if err != nil {
		d.BadBlob = append(d.BadBlob, "walk error: "+err.Error())
		return d, snap
	}
	want := map[string]disk.VerifEntry{}
	for _, e := range snap.Entries {
		// The file an entry must be stored in follows from the published naming grammar and the entry's own
		// format flag; the path the code under test computes for it (e.Path: what it opens and unlinks) has to agree.
		ip := IndependentEntryPath(e)
		if ip != e.Path {
			d.BadBlob = append(d.BadBlob, fmt.Sprintf("%s: the build resolves this entry to %q, the v2 naming grammar to %q", e.Key, e.Path, ip))
		}
		want[ip] = e
	}
	for f := range files {
		if _, ok := want[f]; !ok {
			d.Extra = append(d.Extra, f)
			if d.extraSize == nil {
				d.extraSize = map[string]int64{}
			}
			d.extraSize[f] = files[f]
		}
	}
	for p, e := range want {
		sz, ok := files[p]
		if !ok {
			d.Missing = append(d.Missing, p)
			continue
		}
		if sz != e.SizeOnDisk {
			d.BadSize = append(d.BadSize, fmt.Sprintf("%s: file %d bytes, index says %d", p, sz, e.SizeOnDisk))
		}
		pn, err := ParseCacheFileName(p)
		if err != nil {
			d.BadBlob = append(d.BadBlob, err.Error())
			continue
		}
		if pn.Key() != e.Key {
			d.BadBlob = append(d.BadBlob, fmt.Sprintf("%s: name says key %s, index says %s", p, pn.Key(), e.Key))
		}
		if pn.Kind != "cas" && e.Size != e.SizeOnDisk {
			// AC/RAW values are stored as they are: the recorded (logical) size is the length of the file
			d.BadBlob = append(d.BadBlob, fmt.Sprintf("%s: %s entry with recorded size %d != on-disk %d", p, pn.Kind, e.Size, e.SizeOnDisk))
		}
		if pn.Kind == "cas" && !pn.Legacy {
			if pn.LogicalSize != e.Size {
				d.BadBlob = append(d.BadBlob, fmt.Sprintf("%s: name says logical size %d, index says %d", p, pn.LogicalSize, e.Size))
			}
			if deep {
				b, err := os.ReadFile(filepath.Join(snap.Dir, p))
				if err != nil {
					d.BadBlob = append(d.BadBlob, p+": "+err.Error())
					continue
				}
				data, h, err := CasRead(b)
				if err != nil {
					d.BadBlob = append(d.BadBlob, p+": "+err.Error())
					continue
				}
				if h.LogicalSize != e.Size || int64(len(data)) != e.Size {
					d.BadBlob = append(d.BadBlob, fmt.Sprintf("%s: header logical size %d / decoded %d, index %d", p, h.LogicalSize, len(data), e.Size))
				}
				if Sha256Hex(data) != pn.Hash {
					d.BadBlob = append(d.BadBlob, p+": content does not hash to its name")
				}
			}
		} else if pn.Kind == "cas" && pn.Legacy {
			if e.Size != e.SizeOnDisk {
				d.BadBlob = append(d.BadBlob, fmt.Sprintf("%s: raw CAS file with logical %d != on-disk %d", p, e.Size, e.SizeOnDisk))
			}
			if deep {
				b, err := os.ReadFile(filepath.Join(snap.Dir, p))
				if err == nil && Sha256Hex(b) != pn.Hash {
					d.BadBlob = append(d.BadBlob, p+": content does not hash to its name")
				}
			}
		}
	}
	sort.Strings(d.Extra)
	sort.Strings(d.Missing)
	return d, snap
}

// CheckEntriesFound is the external half of M-dir: every entry the snapshot lists (and whose file is therefore
// legitimately on disk) must be found by an existence check; a listed entry that lookups do not find is a file
// without a usable index entry. It touches every entry (recency!), so only checks that do not judge eviction order use it.
func CheckEntriesFound(c disk.Cache, snap disk.VerifSnap) []string {
	var bad []string
	for _, e := range snap.Entries {
		i := strings.IndexByte(e.Key, '/')
		if i < 0 {
			continue
		}
		var kind cache.EntryKind
		size := int64(-1)
		switch e.Key[:i] {
		case "cas":
			kind, size = cache.CAS, e.Size
		case "ac":
			kind = cache.AC
		default:
			kind = cache.RAW
		}
		if ok, _ := c.Contains(context.Background(), kind, e.Key[i+1:], size); !ok {
			bad = append(bad, e.Path)
		}
	}
	return bad
}

// DirQuiescence configures CheckDirQuiescentOpts.
type DirQuiescence struct {
	Deep bool // parse every compressed CAS file with the independent reader
	// LingeringWriters: goroutines of server handlers whose client already gave up may still create and remove a
	// temporary file (an orphaned upload). Every surplus file is then judged by persistence only.
	LingeringWriters bool
	// Patience is how long a surplus file whose removal cannot be waited for deterministically (a zero-length file adds
	// nothing to the queued-eviction byte count; a lingering writer) has to persist, seen in every listing, before
	// it counts. Default 15 s.
	Patience time.Duration
}

// CheckDirQuiescent is M-dir: must be called when the harness has no
// operation in flight. Surplus files are tolerated only while the background
// remover still has queued deletions; it polls (bounded) for the backlog to
// drain and reports what persists. Verdict: "ok", "violated", or
// "inconclusive" (deletions still queued when the watchdog expired).
func CheckDirQuiescent(c disk.Cache, deep bool) (DirDiscrepancy, disk.VerifSnap, string) {
	return CheckDirQuiescentOpts(c, DirQuiescence{Deep: deep})
}

func hardItems(d DirDiscrepancy) map[string]bool {
	m := map[string]bool{}
	for _, x := range d.Missing {
		m["missing:"+x] = true
	}
	for _, x := range d.BadSize {
		m["size:"+x] = true
	}
	for _, x := range d.BadBlob {
		m["blob:"+x] = true
	}
	return m
}

// CheckDirQuiescentOpts: see CheckDirQuiescent. No verdict rests on a short sleep:
//   - entry without file / wrong size / malformed blob: cannot be transient at quiescence; confirmed by a second
//     evaluation that shows the same item again;
//   - surplus file of non-zero length: the remover unlinks a file before it subtracts its bytes from the
//     queued-eviction counter, so a listing taken after the counter was read as 0 cannot contain a file that is still
//     waiting for the remover; confirmed by two more listings;
//   - surplus file of zero length (adds nothing to that counter) or any surplus file while handlers may linger:
//     persistent-state verdict - the same file has to be there in every listing for the whole Patience period.
func CheckDirQuiescentOpts(c disk.Cache, o DirQuiescence) (DirDiscrepancy, disk.VerifSnap, string) {
	deep := o.Deep
	patience := o.Patience
	if patience <= 0 {
		patience = 15 * time.Second
	}
	start := time.Now()
	backlogDeadline := start.Add(20 * time.Second)
	firstSeen := map[string]time.Time{}
	sleep := time.Millisecond
	for {
		q0 := disk.VerifQueuedEvictions(c) // read BEFORE the listing
		d, snap := CompareDir(c, deep)
		if d.Empty() {
			return d, snap, "ok"
		}
		if h1 := hardItems(d); len(h1) > 0 {
			// re-evaluate to exclude a walk racing with the remover / a lingering writer: the same item must show again
			time.Sleep(2 * time.Millisecond)
			d2, snap2 := CompareDir(c, deep)
			for x := range hardItems(d2) {
				if h1[x] {
					return d2, snap2, "violated"
				}
			}
			if time.Now().After(backlogDeadline) {
				return d2, snap2, "inconclusive"
			}
			continue
		}
		// only surplus files
		now := time.Now()
		cur := map[string]bool{}
		decidable := false // some surplus file of non-zero length that the remover cannot still be holding
		for _, f := range d.Extra {
			cur[f] = true
			if _, ok := firstSeen[f]; !ok {
				firstSeen[f] = now
			}
			if !o.LingeringWriters && d.extraSize[f] > 0 && q0 == 0 && snap.QueuedEvictions == 0 {
				decidable = true
			}
		}
		for f := range firstSeen {
			if !cur[f] {
				delete(firstSeen, f)
			}
		}
		if decidable {
			time.Sleep(5 * time.Millisecond)
			d2, snap2 := CompareDir(c, deep)
			if d2.Empty() {
				return d2, snap2, "ok"
			}
			time.Sleep(50 * time.Millisecond)
			d3, snap3 := CompareDir(c, deep)
			if d3.Empty() {
				return d3, snap3, "ok"
			}
			for _, f := range d3.Extra {
				if cur[f] && d.extraSize[f] > 0 && d3.extraSize[f] > 0 && snap3.QueuedEvictions == 0 {
					return d3, snap3, "violated"
				}
			}
		}
		if q0 != 0 || snap.QueuedEvictions != 0 {
			// deletions are queued: any surplus file may be one of them; the persistence clock starts when the backlog is gone
			clear(firstSeen)
			if now.After(backlogDeadline) {
				return d, snap, "inconclusive"
			}
		}
		for f, t := range firstSeen {
			if now.Sub(t) >= patience && cur[f] {
				return d, snap, "violated"
			}
		}
		time.Sleep(sleep)
		if sleep < 50*time.Millisecond {
			sleep *= 2
		}
	}
}

package lib

import (
	"bytes"
	"crypto/sha1" //nolint:gosec // htpasswd {SHA} scheme
	"crypto/sha256"
	"encoding/base64"
	"encoding/binary"
	"encoding/hex"
	"fmt"
	"math/rand/v2"

	"github.com/klauspost/compress/zstd"
	"github.com/valyala/gozstd"

	pb "github.com/buchgr/bazel-remote/v2/genproto/build/bazel/remote/execution/v2"
)

const (
	KiB = 1024
	MiB = 1024 * 1024
	GiB = 1024 * MiB
	// EmptySha256 is the digest of the empty blob.
	EmptySha256 = "e3b0c44298fc1c149afbf4c8996fb92427ae41e4649b934ca495991b7852b855"
	Block       = 4096
)

// SizeClasses used throughout (DESIGN §3).
var SizeClasses = []int{1, 2, 4095, 4096, 4097, 64*KiB - 1, 64 * KiB, 64*KiB + 1, MiB - 1, MiB, MiB + 1, 2 * MiB, 2*MiB + 4097, 3*MiB + 1, 5*MiB + 17}

// SmallSizeClasses are the size classes <= 1 MiB + 1.
var SmallSizeClasses = []int{1, 2, 4095, 4096, 4097, 64*KiB - 1, 64 * KiB, 64*KiB + 1, MiB - 1, MiB, MiB + 1}

var ContentKinds = []string{"random", "zero", "text", "repetitive"}

func RoundUp4k(n int64) int64 { return (n + Block - 1) &^ (Block - 1) }

// GenBlob makes deterministic content of a kind; tag makes it unique.
func GenBlob(rng *rand.Rand, size int, kind string, tag string) []byte {
	b := make([]byte, size)
	switch kind {
	case "zero":
		// all zero, but uniqueness is needed: stamp the tag at the start
	case "text":
		words := []string{"bazel ", "remote ", "cache ", "action ", "result ", "digest ", "blob ", "\n", "tree ", "directory "}
		i := 0
		for i < size {
			w := words[rng.IntN(len(words))]
			i += copy(b[i:], w)
		}
	case "repetitive":
		pat := make([]byte, 1+rng.IntN(97))
		for i := range pat {
			pat[i] = byte(rng.Uint32())
		}
		for i := 0; i < size; i += len(pat) {
			copy(b[i:], pat)
		}
	default: // random
		fillRandom(rng, b)
	}
	// Stamp the tag (plus 8 random bytes) so distinct cases have distinct digests.
	stamp := []byte(fmt.Sprintf("[%s:%016x]", tag, rng.Uint64()))
	if len(stamp) > size {
		// tiny blobs: derive bytes from a hash of the stamp
		h := sha256.Sum256(stamp)
		copy(b, h[:])
	} else {
		copy(b, stamp)
	}
	return b
}

func fillRandom(rng *rand.Rand, b []byte) {
	i := 0
	for ; i+8 <= len(b); i += 8 {
		binary.LittleEndian.PutUint64(b[i:], rng.Uint64())
	}
	for ; i < len(b); i++ {
		b[i] = byte(rng.Uint32())
	}
}

func Sha256Hex(b []byte) string {
	h := sha256.Sum256(b)
	return hex.EncodeToString(h[:])
}

func DigestOf(b []byte) *pb.Digest {
	return &pb.Digest{Hash: Sha256Hex(b), SizeBytes: int64(len(b))}
}

// RandHash returns a random well-formed sha256 hex string.
func RandHash(rng *rand.Rand) string {
	var b [32]byte
	fillRandom(rng, b[:])
	return hex.EncodeToString(b[:])
}

// ---------------------------------------------------------------------------
// Two independent standard zstd codecs.

var kpDecoder, _ = zstd.NewReader(nil)

// ZstdEncodeKP compresses with klauspost at a level in 1..4 (SpeedFastest..Best).
func ZstdEncodeKP(b []byte, level int) []byte {
	return ZstdEncodeKPCached(b, level) // shared encoder per level (c16_zstd.go): creating one per call dominated run time
}

// ZstdEncodeC compresses with libzstd (cgo) at a level 1..19.
func ZstdEncodeC(b []byte, level int) []byte {
	return gozstd.CompressLevel(nil, b, level)
}

// ZstdDecodeKP decodes a complete zstd stream (possibly multiple frames, skippable frames) with klauspost.
func ZstdDecodeKP(b []byte) ([]byte, error) {
	return kpDecoder.DecodeAll(b, nil)
}

// ZstdDecodeC decodes with libzstd via streaming reader (handles multiple and skippable frames).
func ZstdDecodeC(b []byte) ([]byte, error) {
	r := gozstd.NewReader(bytes.NewReader(b))
	defer r.Release()
	var out bytes.Buffer
	_, err := out.ReadFrom(r)
	return out.Bytes(), err
}

// ZstdDecodeBoth decodes with both codecs and requires agreement.
func ZstdDecodeBoth(b []byte) ([]byte, error) {
	a, err := ZstdDecodeKP(b)
	if err != nil {
		return nil, fmt.Errorf("klauspost: %w", err)
	}
	c, err := ZstdDecodeC(b)
	if err != nil {
		return nil, fmt.Errorf("libzstd: %w", err)
	}
	if !bytes.Equal(a, c) {
		return nil, fmt.Errorf("decoders disagree: klauspost %d bytes, libzstd %d bytes", len(a), len(c))
	}
	return a, nil
}

// Pick returns a random element.
func Pick[T any](rng *rand.Rand, xs []T) T { return xs[rng.IntN(len(xs))] }

// SizeClassName buckets a size for evidence matrices.
func SizeClassName(n int) string {
	switch {
	case n == 0:
		return "0"
	case n < Block:
		return "<4K"
	case n == Block:
		return "=4K"
	case n < 64*KiB:
		return "4K..64K"
	case n < MiB:
		return "64K..1M"
	case n == MiB:
		return "=1M"
	case n <= 2*MiB:
		return "1M..2M"
	default:
		return ">2M"
	}
}

// Sha1Base64 is base64(sha1(s)): the htpasswd {SHA} scheme.
func Sha1Base64(s string) string {
	d := sha1.Sum([]byte(s)) //nolint:gosec
	return base64.StdEncoding.EncodeToString(d[:])
}

package lib

import (
	"bytes"
	"context"
	"errors"
	"io"
	"sync"
	"time"

	"github.com/buchgr/bazel-remote/v2/cache"
)

// FakeProxy is a direct, scriptable implementation of cache.Proxy (harness
// code, not a mock of bazel-remote): an object store holding entries in the
// on-disk format of the front end's storage mode, with per-key fault plans.
type FakeProxy struct {
	mu sync.Mutex
	// V2: CAS objects are cas.v2 files (zstd storage mode); otherwise raw bytes.
	V2      bool
	objects map[string]proxyObject
	plans   map[string]ProxyPlan
	Puts    []ProxyPut
	gets    map[string]int
	cont    map[string]int
	// StorePuts makes uploads visible to later Gets (a real backend).
	StorePuts bool
	open      int // readers handed out and not yet closed
	// ReadHook, if set, is called from inside the stream handed to the cache
	// before each Read (bytes delivered so far): crash points / interleavings.
	ReadHook func(kind cache.EntryKind, hash string, delivered int)
}

type proxyObject struct {
	raw         []byte
	logicalSize int64
}

// ProxyPut records one write-through.
type ProxyPut struct {
	Kind        cache.EntryKind
	Hash        string
	LogicalSize int64
	SizeOnDisk  int64
	Data        []byte
	ReadErr     error
}

// ProxyPlan scripts faults for one key.
type ProxyPlan struct {
	GetErr        error         // returned instead of a reader
	NotFound      bool          // Get: nil,-1,nil ; Contains: false
	CutAt         int           // >0: stream ends cleanly after CutAt bytes (short stream)
	ErrAt         int           // >0: stream fails with ErrStream after ErrAt bytes
	ExtraBytes    int           // >0: that many extra garbage bytes appended
	ReportSize    int64         // !=0: logical size reported by Get/Contains instead of the true one
	UnknownSize   bool          // Contains reports -1 (size-blind backend)
	Delay         time.Duration // before answering
	ContainsFalse bool          // Contains says absent although Get would work
	Once          bool          // plan is dropped after its first use (then healthy)
}

var ErrStream = errors.New("fakeproxy: injected stream error")

func NewFakeProxy(v2 bool) *FakeProxy {
	return &FakeProxy{V2: v2, objects: map[string]proxyObject{}, plans: map[string]ProxyPlan{}, gets: map[string]int{}, cont: map[string]int{}}
}

func pkey(kind cache.EntryKind, hash string) string { return kind.String() + "/" + hash }

// SetBlob stores logical content under (kind, hash) in the right format.
func (p *FakeProxy) SetBlob(kind cache.EntryKind, hash string, content []byte) {
	raw := content
	if kind == cache.CAS && p.V2 {
		raw = CasWrite(content, MiB, 1, func(c []byte) []byte { return ZstdEncodeKP(c, 2) })
	}
	p.mu.Lock()
	p.objects[pkey(kind, hash)] = proxyObject{raw: raw, logicalSize: int64(len(content))}
	p.mu.Unlock()
}

// SetRaw stores raw object bytes with an explicit logical size.
func (p *FakeProxy) SetRaw(kind cache.EntryKind, hash string, raw []byte, logical int64) {
	p.mu.Lock()
	p.objects[pkey(kind, hash)] = proxyObject{raw: raw, logicalSize: logical}
	p.mu.Unlock()
}

func (p *FakeProxy) Delete(kind cache.EntryKind, hash string) {
	p.mu.Lock()
	delete(p.objects, pkey(kind, hash))
	p.mu.Unlock()
}

func (p *FakeProxy) Has(kind cache.EntryKind, hash string) bool {
	p.mu.Lock()
	defer p.mu.Unlock()
	_, ok := p.objects[pkey(kind, hash)]
	return ok
}

func (p *FakeProxy) SetPlan(kind cache.EntryKind, hash string, pl ProxyPlan) {
	p.mu.Lock()
	p.plans[pkey(kind, hash)] = pl
	p.mu.Unlock()
}

func (p *FakeProxy) ClearPlan(kind cache.EntryKind, hash string) {
	p.mu.Lock()
	delete(p.plans, pkey(kind, hash))
	p.mu.Unlock()
}

func (p *FakeProxy) GetCalls(kind cache.EntryKind, hash string) int {
	p.mu.Lock()
	defer p.mu.Unlock()
	return p.gets[pkey(kind, hash)]
}

func (p *FakeProxy) ContainsCalls(kind cache.EntryKind, hash string) int {
	p.mu.Lock()
	defer p.mu.Unlock()
	return p.cont[pkey(kind, hash)]
}

// OpenReaders is the number of readers handed out and not yet closed.
func (p *FakeProxy) OpenReaders() int { p.mu.Lock(); defer p.mu.Unlock(); return p.open }

func (p *FakeProxy) PutRecords() []ProxyPut {
	p.mu.Lock()
	defer p.mu.Unlock()
	return append([]ProxyPut(nil), p.Puts...)
}

func (p *FakeProxy) takePlan(k string) (ProxyPlan, bool) {
	pl, ok := p.plans[k]
	if ok && pl.Once {
		delete(p.plans, k)
	}
	return pl, ok
}

func (p *FakeProxy) Put(ctx context.Context, kind cache.EntryKind, hash string, logicalSize int64, sizeOnDisk int64, rc io.ReadCloser) {
	data, err := io.ReadAll(rc)
	_ = rc.Close()
	p.mu.Lock()
	p.Puts = append(p.Puts, ProxyPut{Kind: kind, Hash: hash, LogicalSize: logicalSize, SizeOnDisk: sizeOnDisk, Data: data, ReadErr: err})
	if p.StorePuts && err == nil {
		p.objects[pkey(kind, hash)] = proxyObject{raw: data, logicalSize: logicalSize}
	}
	p.mu.Unlock()
}

type proxyReader struct {
	p      *FakeProxy
	kind   cache.EntryKind
	hash   string
	r      io.Reader
	errAt  int
	read   int
	closed bool
}

func (r *proxyReader) Read(b []byte) (int, error) {
	if h := r.p.ReadHook; h != nil {
		h(r.kind, r.hash, r.read)
	}
	if r.errAt > 0 {
		left := r.errAt - r.read
		if left <= 0 {
			return 0, ErrStream
		}
		if len(b) > left {
			b = b[:left]
		}
	}
	n, err := r.r.Read(b)
	r.read += n
	return n, err
}

func (r *proxyReader) Close() error {
	r.p.mu.Lock()
	if !r.closed {
		r.closed = true
		r.p.open--
	}
	r.p.mu.Unlock()
	return nil
}

func (p *FakeProxy) Get(ctx context.Context, kind cache.EntryKind, hash string, size int64) (io.ReadCloser, int64, error) {
	k := pkey(kind, hash)
	p.mu.Lock()
	p.gets[k]++
	pl, _ := p.takePlan(k)
	obj, ok := p.objects[k]
	p.mu.Unlock()
	if pl.Delay > 0 {
		select {
		case <-time.After(pl.Delay):
		case <-ctx.Done():
			return nil, -1, ctx.Err()
		}
	}
	if pl.GetErr != nil {
		return nil, -1, pl.GetErr
	}
	if !ok || pl.NotFound {
		return nil, -1, nil
	}
	raw := obj.raw
	if pl.CutAt > 0 && pl.CutAt < len(raw) {
		raw = raw[:pl.CutAt]
	}
	if pl.ExtraBytes > 0 {
		raw = append(append([]byte(nil), raw...), bytes.Repeat([]byte{0xAB}, pl.ExtraBytes)...)
	}
	sz := obj.logicalSize
	if pl.ReportSize != 0 {
		sz = pl.ReportSize
	}
	p.mu.Lock()
	p.open++
	p.mu.Unlock()
	return &proxyReader{p: p, kind: kind, hash: hash, r: bytes.NewReader(raw), errAt: pl.ErrAt}, sz, nil
}

func (p *FakeProxy) Contains(ctx context.Context, kind cache.EntryKind, hash string, size int64) (bool, int64) {
	k := pkey(kind, hash)
	p.mu.Lock()
	p.cont[k]++
	pl := p.plans[k]
	obj, ok := p.objects[k]
	p.mu.Unlock()
	if pl.Delay > 0 {
		select {
		case <-time.After(pl.Delay):
		case <-ctx.Done():
			return false, -1
		}
	}
	if !ok || pl.NotFound || pl.ContainsFalse || pl.GetErr != nil {
		return false, -1
	}
	if pl.UnknownSize {
		return true, -1
	}
	if pl.ReportSize != 0 {
		return true, pl.ReportSize
	}
	return true, obj.logicalSize
}

module verif/harness

go 1.25.0

require (
	github.com/anishathalye/porcupine v1.3.0
	github.com/buchgr/bazel-remote/v2 v2.0.0
	github.com/klauspost/compress v1.19.0
	github.com/valyala/gozstd v1.26.0
	golang.org/x/crypto v0.54.0
	google.golang.org/genproto/googleapis/bytestream v0.0.0-20260114163908-3f89685c29c3
	google.golang.org/grpc v1.82.1
	google.golang.org/protobuf v1.36.11
)

require (
	cloud.google.com/go/compute/metadata v0.9.0
	cloud.google.com/go/longrunning v0.8.0 // indirect
	github.com/Azure/azure-sdk-for-go/sdk/azcore v1.21.0
	github.com/Azure/azure-sdk-for-go/sdk/azidentity v1.13.1
	github.com/Azure/azure-sdk-for-go/sdk/internal v1.11.2
	github.com/Azure/azure-sdk-for-go/sdk/storage/azblob v1.6.4
	github.com/Azure/go-ntlmssp v0.1.1
	github.com/AzureAD/microsoft-authentication-library-for-go v1.6.0
	github.com/abbot/go-http-auth v0.4.1-0.20220112235402-e1cee1c72f2f // indirect
	github.com/aws/aws-sdk-go v1.44.256
	github.com/beorn7/perks v1.0.1 // indirect
	github.com/cespare/xxhash/v2 v2.3.0 // indirect
	github.com/cpuguy83/go-md2man/v2 v2.0.7
	github.com/djherbis/atime v1.1.0 // indirect
	github.com/dustin/go-humanize v1.0.1
	github.com/go-asn1-ber/asn1-ber v1.5.8-0.20250403174932-29230038a667
	github.com/go-ini/ini v1.67.0
	github.com/go-ldap/ldap/v3 v3.4.12
	github.com/golang-jwt/jwt/v5 v5.3.0
	github.com/golang/snappy v1.0.0 // indirect
	github.com/google/go-cmp v0.7.0
	github.com/google/uuid v1.6.0 // indirect
	github.com/grpc-ecosystem/go-grpc-prometheus v1.2.0
	github.com/johannesboyne/gofakes3 v0.0.0-20230506070712-04da935ef877
	github.com/klauspost/cpuid/v2 v2.3.0
	github.com/klauspost/crc32 v1.3.0
	github.com/kylelemons/godebug v1.1.0
	github.com/minio/crc64nvme v1.1.1
	github.com/minio/md5-simd v1.1.2
	github.com/minio/minio-go/v7 v7.0.98
	github.com/mostynb/go-grpc-compression v1.2.3 // indirect
	github.com/mostynb/zstdpool-syncpool v0.0.13 // indirect
	github.com/munnerz/goautoneg v0.0.0-20191010083416-a7dc8b61c822 // indirect
	github.com/philhofer/fwd v1.2.0
	github.com/pkg/browser v0.0.0-20240102092130-5ac0b6a4141c
	github.com/prometheus/client_golang v1.23.2 // indirect
	github.com/prometheus/client_model v0.6.2 // indirect
	github.com/prometheus/common v0.67.5 // indirect
	github.com/prometheus/procfs v0.19.2 // indirect
	github.com/rs/xid v1.6.0
	github.com/russross/blackfriday/v2 v2.1.0
	github.com/ryszard/goskiplist v0.0.0-20150312221310-2dfbae5fcf46
	github.com/shabbyrobe/gocovmerge v0.0.0-20190829150210-3e036491d500
	github.com/slok/go-http-metrics v0.13.0
	github.com/tinylib/msgp v1.6.3
	github.com/urfave/cli/v2 v2.27.7
	github.com/xrash/smetrics v0.0.0-20250705151800-55b8f293f342
	go.yaml.in/yaml/v2 v2.4.3 // indirect
	go.yaml.in/yaml/v3 v3.0.4
	golang.org/x/net v0.57.0 // indirect
	golang.org/x/oauth2 v0.36.0
	golang.org/x/sync v0.22.0 // indirect
	golang.org/x/sys v0.47.0 // indirect
	golang.org/x/text v0.40.0 // indirect
	golang.org/x/tools v0.47.0
	google.golang.org/genproto/googleapis/api v0.0.0-20260414002931-afd174a4e478 // indirect
	google.golang.org/genproto/googleapis/rpc v0.0.0-20260720211330-0afa2a65878a
	gopkg.in/yaml.v3 v3.0.1
)

replace github.com/buchgr/bazel-remote/v2 => /repo

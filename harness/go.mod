module verif/harness

go 1.25.0

require (
	github.com/anishathalye/porcupine v1.3.0
	github.com/buchgr/bazel-remote/v2 v2.0.0
	github.com/klauspost/compress v1.19.0
	github.com/valyala/gozstd v1.26.0
	golang.org/x/crypto v0.54.0
	google.golang.org/genproto/googleapis/bytestream v0.0.0-20260114163908-3f89685c29c3
	google.golang.org/grpc v1.82.1
	google.golang.org/protobuf v1.36.11
)

require (
	cloud.google.com/go/longrunning v0.8.0 // indirect
	github.com/abbot/go-http-auth v0.4.1-0.20220112235402-e1cee1c72f2f // indirect
	github.com/beorn7/perks v1.0.1 // indirect
	github.com/cespare/xxhash/v2 v2.3.0 // indirect
	github.com/djherbis/atime v1.1.0 // indirect
	github.com/golang/snappy v1.0.0 // indirect
	github.com/mostynb/go-grpc-compression v1.2.3 // indirect
	github.com/mostynb/zstdpool-syncpool v0.0.13 // indirect
	github.com/munnerz/goautoneg v0.0.0-20191010083416-a7dc8b61c822 // indirect
	github.com/prometheus/client_golang v1.23.2 // indirect
	github.com/prometheus/client_model v0.6.2 // indirect
	github.com/prometheus/common v0.67.5 // indirect
	github.com/prometheus/procfs v0.19.2 // indirect
	go.yaml.in/yaml/v2 v2.4.3 // indirect
	golang.org/x/net v0.57.0 // indirect
	golang.org/x/sync v0.22.0 // indirect
	golang.org/x/sys v0.47.0 // indirect
	golang.org/x/text v0.40.0 // indirect
	google.golang.org/genproto/googleapis/api v0.0.0-20260414002931-afd174a4e478 // indirect
	google.golang.org/genproto/googleapis/rpc v0.0.0-20260720211330-0afa2a65878a // indirect
)

replace github.com/buchgr/bazel-remote/v2 => /repo

// Command check runs one property check: check <ID> <quick|thorough>.
package main

import (
	"fmt"
	"os"
	"runtime/pprof"

	_ "verif/harness/checks"
	_ "verif/harness/checks/c06"
	_ "verif/harness/checks/c09"
	_ "verif/harness/checks/c10"
	_ "verif/harness/checks/c11"
	_ "verif/harness/checks/c12"
	_ "verif/harness/checks/c13"
	_ "verif/harness/checks/c14"
	_ "verif/harness/checks/c15"
	_ "verif/harness/checks/c16"
	_ "verif/harness/checks/c17"
	_ "verif/harness/checks/c18"
	_ "verif/harness/checks/c19"
	_ "verif/harness/checks/c20"
	"verif/harness/lib"
)

func main() {
	if len(os.Args) >= 2 && os.Args[1] == "serve" {
		lib.ServeMain(os.Args[2:])
		return
	}
	if len(os.Args) < 3 {
		fmt.Fprintf(os.Stderr, "usage: check <ID> <quick|thorough>; registered: %v\n", lib.Registered())
		os.Exit(64)
	}
	id, tier := os.Args[1], os.Args[2]
	fn := lib.Lookup(id)
	if fn == nil {
		fmt.Fprintf(os.Stderr, "unknown check %q; registered: %v\n", id, lib.Registered())
		os.Exit(64)
	}
	lib.QuietGlobalLog()
	if pf := os.Getenv("VERIF_CPUPROFILE"); pf != "" {
		f, _ := os.Create(pf)
		_ = pprof.StartCPUProfile(f)
		defer pprof.StopCPUProfile()
	}
	r := lib.NewRun(id, tier)
	fn(r)
	rc := r.Finish()
	pprof.StopCPUProfile()
	os.Exit(rc)
}

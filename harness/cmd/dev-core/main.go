// Command dev-core runs the C06 check alone: dev-core C06 <quick|thorough>.
package main

import (
	"fmt"
	"os"
	"runtime/pprof"

	_ "verif/harness/checks"
	"verif/harness/lib"
)

func main() {
	if len(os.Args) >= 2 && os.Args[1] == "serve" {
		lib.ServeMain(os.Args[2:])
		return
	}
	if len(os.Args) < 3 {
		fmt.Fprintf(os.Stderr, "usage: check <ID> <quick|thorough>; registered: %v\n", lib.Registered())
		os.Exit(64)
	}
	id, tier := os.Args[1], os.Args[2]
	fn := lib.Lookup(id)
	if fn == nil {
		fmt.Fprintf(os.Stderr, "unknown check %q; registered: %v\n", id, lib.Registered())
		os.Exit(64)
	}
	lib.QuietGlobalLog()
	if pf := os.Getenv("VERIF_CPUPROFILE"); pf != "" {
		f, _ := os.Create(pf)
		_ = pprof.StartCPUProfile(f)
		defer pprof.StopCPUProfile()
	}
	r := lib.NewRun(id, tier)
	fn(r)
	rc := r.Finish()
	pprof.StopCPUProfile()
	os.Exit(rc)
}

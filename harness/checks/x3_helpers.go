package checks

// Helpers shared by the hardened C07 / C08 checks.

import (
	"bytes"
	"context"
	"fmt"
	"io"
	"math/rand/v2"
	"strings"
	"sync"
	"sync/atomic"
	"time"

	"verif/harness/lib"

	"github.com/buchgr/bazel-remote/v2/cache"
	"github.com/buchgr/bazel-remote/v2/cache/disk"
	bspb "google.golang.org/genproto/googleapis/bytestream"
)

// c07ParkedByDesign: bazel-remote goroutines that wait for work between requests (never a symptom of a hang).
var c07ParkedByDesign = []string{"performQueuedEvictions", "containsWorker", "ServeGRPC", "StartUploaders", "shiftMetricPeriodContinuously", "pollCacheAge"}

// stopChild stops a child returned by lib.StartLauncher / lib.StartBinary together with an error: the child may be
// nil (nothing was started) or may never have been started (no process: Stop would wait forever for its exit).
func stopChild(ch *lib.Child) {
	if ch == nil || ch.Cmd == nil || ch.Cmd.Process == nil {
		return
	}
	ch.Stop()
}

// launcherFailedToStart: the launcher process was started and then exited by itself or printed FAILED (disk.New /
// server start returned an error): an observed start-up failure. Everything else (nil child, not started, still
// running but not ready) is not.
func launcherFailedToStart(ch *lib.Child) (bool, string) {
	if ch == nil || ch.Cmd == nil || ch.Cmd.Process == nil {
		return false, ""
	}
	log := ch.LogTail(1500)
	if strings.Contains(log, "FAILED") || strings.Contains(log, "panic: ") || strings.Contains(log, "fatal error: ") {
		return true, log
	}
	if ch.Exited() && ch.ExitCode() >= 0 {
		return true, log // exited by itself (a process killed by a signal from outside, e.g. the OOM killer, has exit code -1)
	}
	return false, log
}

// ---------------------------------------------------------------------------
// C07: "a read already streaming is unaffected by a concurrent eviction or overwrite" - deterministic, no hooks:
// open the value, take the first k bytes, overwrite / evict the key, wait until the old file is unlinked, take the rest.

// c07ErrAfterReader delivers data and then fails (never EOF).
type c07ErrAfterReader struct {
	data []byte
	pos  int
}

func (e *c07ErrAfterReader) Read(p []byte) (int, error) {
	if e.pos >= len(e.data) {
		return 0, io.ErrUnexpectedEOF
	}
	n := copy(p, e.data[e.pos:])
	e.pos += n
	return n, nil
}

func (s *c07Scn) streamingReadUnaffected(storage string, kind cache.EntryKind, how string, variant string) {
	s.name = "streaming-read-vs-" + how + "/" + kind.String()
	if variant != "" {
		s.name += "-" + variant
	}
	dir := s.pool.Get()
	defer s.pool.Put(dir)
	size := 200000 + s.rng.IntN(1000)
	if kind == cache.CAS {
		size = lib.MiB + 5
	}
	max := int64(64 * lib.MiB)
	if how == "eviction" {
		max = int64(3*size + size/2)
	}
	c, _, err := lib.NewCache(lib.ServerOpts{Dir: dir, MaxSize: max, Storage: storage})
	if err != nil {
		return
	}
	ctx := context.Background()
	var key string
	var v1, v2 []byte
	if kind == cache.CAS {
		v1 = lib.GenBlob(s.rng, size, "random", s.name)
		v2, key = v1, lib.Sha256Hex(v1)
	} else {
		key = lib.RandHash(s.rng)
		v1, v2 = c07Value(1, 1, size), c07Value(2, 2, size+777)
	}
	if c.Put(ctx, kind, key, int64(len(v1)), bytes.NewReader(v1)) != nil {
		return
	}
	off := int64(0)
	var rc io.ReadCloser
	switch variant {
	case "offset":
		off = int64(1 + s.rng.IntN(size-1))
		rc, _, err = c.Get(ctx, kind, key, int64(len(v1)), off)
	case "zstd":
		rc, _, err = c.GetZstd(ctx, key, int64(len(v1)), 0)
	case "size-unknown":
		rc, _, err = c.Get(ctx, kind, key, -1, 0)
	default:
		rc, _, err = c.Get(ctx, kind, key, int64(len(v1)), 0)
	}
	if err != nil || rc == nil {
		s.viol("miss", fmt.Sprintf("a value just uploaded is not found (err=%v)", err), s.detail(nil))
		s.finish(c, false)
		return
	}
	first := make([]byte, 100+s.rng.IntN(900))
	n, ferr := io.ReadFull(rc, first)
	first = first[:n]
	// now the key is overwritten / evicted while the reader holds its stream
	var perr error
	gone := false
	if how == "overwrite" {
		perr = c.Put(ctx, kind, key, int64(len(v2)), bytes.NewReader(v2))
	} else {
		for i := 0; i < 6 && !gone; i++ {
			f := lib.GenBlob(s.rng, size, "random", fmt.Sprintf("%s-f%d", s.name, i))
			_ = c.Put(ctx, cache.CAS, lib.Sha256Hex(f), int64(len(f)), bytes.NewReader(f))
			gone = !indexHas(c, cache.LookupKey(kind, key)) // (an existence check would refresh the key's recency)
		}
	}
	drained := lib.WaitEvictionsDrained(c, 10*time.Second) // the old file is unlinked now
	rest, rerr := io.ReadAll(rc)
	_ = rc.Close()
	reached := drained && ferr == nil && ((how == "overwrite" && perr == nil) || (how == "eviction" && gone))
	s.log = append(s.log, fmt.Sprintf("%d bytes read first (err=%v); %s err=%v evicted=%v drained=%v; %d bytes read afterwards (err=%v)", n, ferr, how, perr, gone, drained, len(rest), rerr))
	if reached {
		got := append(first, rest...)
		if variant == "zstd" && rerr == nil {
			got, rerr = lib.ZstdDecodeKP(got)
		}
		switch {
		case rerr != nil:
			s.viol("read-error", fmt.Sprintf("a read that was already streaming failed after its key was %s: %v", map[string]string{"overwrite": "overwritten", "eviction": "evicted"}[how], rerr), s.detail(nil))
		case !bytes.Equal(got, v1[off:]):
			s.viol("torn-read", fmt.Sprintf("a read that was already streaming when its key was %s delivered %d bytes that are not the value it had opened (%d bytes)", map[string]string{"overwrite": "overwritten", "eviction": "evicted"}[how], len(got), len(v1[off:])), s.detail(nil))
		}
	}
	s.finish(c, reached)
}

// streamingServerReadUnaffected: the same through the front ends of an in-process server (ByteStream.Read, HTTP GET):
// the client takes the first message / bytes, the blob is uploaded again (its old file is unlinked), the client takes
// the rest.
func (s *c07Scn) streamingServerReadUnaffected(storage string, via string) {
	s.name = "streaming-read-vs-overwrite/server-" + via
	dir := s.pool.Get()
	defer s.pool.Put(dir)
	srv, err := lib.StartServer(lib.ServerOpts{Dir: dir, MaxSize: 256 * lib.MiB, Storage: storage})
	if err != nil {
		return
	}
	defer srv.Close()
	c := srv.Cache
	ctx, cancel := lib.Ctx()
	defer cancel()
	v := lib.GenBlob(s.rng, 6*lib.MiB+11, "random", s.name)
	h := lib.Sha256Hex(v)
	if c.Put(ctx, cache.CAS, h, int64(len(v)), bytes.NewReader(v)) != nil {
		return
	}
	var got []byte
	var rerr error
	reached := false
	overwrite := func() bool {
		perr := c.Put(ctx, cache.CAS, h, int64(len(v)), bytes.NewReader(v))
		return perr == nil && lib.WaitEvictionsDrained(c, 10*time.Second)
	}
	switch via {
	case "bytestream":
		res := lib.ResBlobs(h, int64(len(v)))
		if s.rng.IntN(2) == 0 {
			res = lib.ResZstd(h, int64(len(v)))
		}
		st, err := srv.BS.Read(ctx, &bspb.ReadRequest{ResourceName: res})
		if err != nil {
			return
		}
		m, err := st.Recv()
		if err != nil {
			s.viol("read-error", "ByteStream.Read of a stored blob failed at once: "+err.Error(), s.detail(nil))
			s.finish(c, false)
			return
		}
		got = append(got, m.Data...)
		reached = overwrite()
		for {
			m, err := st.Recv()
			if err == io.EOF {
				break
			}
			if err != nil {
				rerr = err
				break
			}
			got = append(got, m.Data...)
		}
		if rerr == nil && strings.HasPrefix(res, "compressed-blobs") {
			got, rerr = lib.ZstdDecodeKP(got)
		}
	default:
		resp, err := srv.HTTPClient.Get(srv.HTTPURL + "/cas/" + h)
		if err != nil {
			return
		}
		first := make([]byte, 1000)
		n, _ := io.ReadFull(resp.Body, first)
		got = append(got, first[:n]...)
		reached = overwrite() && resp.StatusCode == 200
		rest, err := io.ReadAll(resp.Body)
		_ = resp.Body.Close()
		got, rerr = append(got, rest...), err
	}
	s.log = append(s.log, fmt.Sprintf("via %s: re-upload done and old file unlinked=%v; %d bytes received in total (err=%v)", via, reached, len(got), rerr))
	if reached {
		switch {
		case rerr != nil:
			s.viol("read-error", fmt.Sprintf("a download that was already streaming failed after the blob was uploaded again: %v", rerr), s.detail(nil))
		case !bytes.Equal(got, v):
			s.viol("torn-read", fmt.Sprintf("a download that was already streaming when the blob was uploaded again delivered %d bytes that are not the blob (%d bytes)", len(got), len(v)), s.detail(nil))
		}
	}
	s.finish(c, reached)
}

// failingUploadsDoNotExhaust: one long-lived instance takes several thousand FAILING uploads and fetches (wrong bytes,
// reader error, surplus bytes, larger than the cache, failing backend stream); whatever per-request resource the
// implementation holds (the disk-wait semaphore admits 5000) must have been given back: ordinary requests still complete.
func (s *c07Scn) failingUploadsDoNotExhaust(storage string, nFail int) {
	s.name = "failing-uploads-then-ordinary-requests"
	s.backend = true
	dir := s.pool.Get()
	defer s.pool.Put(dir)
	px := lib.NewFakeProxy(storage == "zstd")
	c, _, err := lib.NewCache(lib.ServerOpts{Dir: dir, MaxSize: 8 * lib.MiB, Storage: storage, Proxy: px})
	if err != nil {
		return
	}
	ctx := context.Background()
	var wg sync.WaitGroup
	var failed, unexpectedOK atomic.Int64
	workers := 4
	for g := 0; g < workers; g++ {
		wg.Add(1)
		rng := rand.New(rand.NewPCG(s.rng.Uint64(), uint64(g)))
		go func(g int) {
			defer wg.Done()
			for i := 0; i < nFail/workers; i++ {
				b := lib.GenBlob(rng, 64+rng.IntN(200), "random", fmt.Sprintf("%s-%d-%d", s.name, g, i))
				h := lib.Sha256Hex(b)
				var err error
				switch i % 5 {
				case 0: // bytes do not match the digest
					bad := append([]byte(nil), b...)
					bad[0] ^= 1
					err = c.Put(ctx, cache.CAS, h, int64(len(b)), bytes.NewReader(bad))
				case 1: // the client's stream fails part-way
					err = c.Put(ctx, cache.CAS, h, int64(len(b)), &c07ErrAfterReader{data: b[:len(b)/2]})
				case 2: // more bytes than declared
					err = c.Put(ctx, cache.RAW, h, int64(len(b)), bytes.NewReader(append(append([]byte(nil), b...), 1, 2, 3)))
				case 3: // larger than the cache
					err = c.Put(ctx, cache.AC, h, 9*lib.MiB, bytes.NewReader(b))
				default: // backend stream fails part-way
					px.SetBlob(cache.CAS, h, b)
					px.SetPlan(cache.CAS, h, lib.ProxyPlan{ErrAt: 8})
					var rc io.ReadCloser
					rc, _, err = c.Get(ctx, cache.CAS, h, int64(len(b)), 0)
					if rc != nil {
						if _, cerr := io.Copy(io.Discard, rc); cerr != nil {
							err = cerr
						}
						_ = rc.Close()
					} else if err == nil {
						err = io.EOF // a miss: the fetch failed
					}
					px.Delete(cache.CAS, h)
					px.ClearPlan(cache.CAS, h)
				}
				if err != nil {
					failed.Add(1)
				} else {
					unexpectedOK.Add(1)
				}
			}
		}(g)
	}
	wg.Wait()
	s.r.CountN("scenario."+s.name+".failing-requests", failed.Load())
	s.r.CountN("scenario."+s.name+".unexpectedly-accepted", unexpectedOK.Load())
	// ordinary traffic afterwards
	done := make(chan string, 1)
	go func() {
		for i := 0; i < 8; i++ {
			b := lib.GenBlob(s.rng, 3000+i, "random", fmt.Sprintf("%s-ok%d", s.name, i))
			h := lib.Sha256Hex(b)
			if err := c.Put(ctx, cache.CAS, h, int64(len(b)), bytes.NewReader(b)); err != nil {
				done <- "upload failed: " + err.Error()
				return
			}
			got, hit, err := readAllOf(c, cache.CAS, h, int64(len(b)))
			if err != nil || !hit || !bytes.Equal(got, b) {
				done <- fmt.Sprintf("read back hit=%v err=%v", hit, err)
				return
			}
			b2 := lib.GenBlob(s.rng, 2000+i, "random", fmt.Sprintf("%s-px%d", s.name, i))
			h2 := lib.Sha256Hex(b2)
			px.SetBlob(cache.CAS, h2, b2)
			got, hit, err = readAllOf(c, cache.CAS, h2, int64(len(b2)))
			if err != nil || !hit || !bytes.Equal(got, b2) {
				done <- fmt.Sprintf("fetch through the backend hit=%v err=%v", hit, err)
				return
			}
		}
		done <- ""
	}()
	select {
	case msg := <-done:
		s.log = append(s.log, fmt.Sprintf("%d failing requests, then ordinary traffic: %q", failed.Load(), msg))
		if msg != "" {
			s.viol("ordinary-request-failed", fmt.Sprintf("after %d failing uploads / fetches on one instance an ordinary request failed: %s", failed.Load(), msg), s.detail(nil))
		}
		s.finish(c, true)
	case <-time.After(120 * time.Second):
		// persistent-state hang oracle: parked identically in two dumps 10 s apart, nothing runnable, nothing finished
		stuck, active, dump := lib.SelfStuckVerdict(10*time.Second, c07ParkedByDesign, []string{"failingUploadsDoNotExhaust"})
		select {
		case <-done:
			s.r.Inconclusive("scenario " + s.name + ": ordinary traffic needed more than 120 s (slow machine)")
		default:
			if len(stuck) > 0 && len(active) == 0 {
				s.viol("operation-never-returned", fmt.Sprintf("after %d failing uploads / fetches on one instance ordinary requests never return: the same goroutines are parked at the same places in bazel-remote code in two dumps 10 s apart and nothing is runnable: %s", failed.Load(), lib.SigString(stuck)),
					s.detail(map[string]any{"parked": lib.SigString(stuck), "goroutines": lib.SigString(lib.GoroutineSignatures(dump))}))
			} else {
				s.r.Inconclusive("scenario " + s.name + ": ordinary traffic did not finish in 130 s but is not provably dead-locked")
			}
		}
		s.r.Eval()
		s.r.Distinct("scenario", s.name, false)
	}
}

// indexHas reports whether the index holds key, without touching recency.
func indexHas(c disk.Cache, key string) bool {
	for _, e := range lib.Snapshot(c).Entries {
		if e.Key == key {
			return true
		}
	}
	return false
}

// openPopulated opens dir under storage mode `storage`; when pop names the OTHER storage mode the directory is first
// opened under pop, populate(c0) stores the entries the scenario starts from, and only then reopened: the schedule then
// runs on entries written in the other on-disk format.
func openPopulated(dir, storage, pop string, max int64, proxy cache.Proxy, populate func(c disk.Cache)) (disk.Cache, error) {
	if pop != "" && pop != storage {
		c0, _, err := lib.NewCache(lib.ServerOpts{Dir: dir, MaxSize: max, Storage: pop})
		if err != nil {
			return nil, err
		}
		populate(c0)
		lib.WaitEvictionsDrained(c0, 5*time.Second)
		c, _, err := lib.NewCache(lib.ServerOpts{Dir: dir, MaxSize: max, Storage: storage, Proxy: proxy})
		return c, err
	}
	c, _, err := lib.NewCache(lib.ServerOpts{Dir: dir, MaxSize: max, Storage: storage, Proxy: proxy})
	if err == nil {
		populate(c)
	}
	return c, err
}

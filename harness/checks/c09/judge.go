package c09

import (
	"fmt"
	"path/filepath"
	"sort"

	"verif/harness/lib"

	"github.com/buchgr/bazel-remote/v2/cache/disk"
)

// keyInfo summarises all files the population holds for one key, relative to
// a max_size. A key with several files (duplicates) has an access-time
// *interval*: the statement does not say which of the files represents the
// key, so order comparisons involving such a key are only judged when they
// hold for every choice.
type keyInfo struct {
	key      string
	files    []*fileRec
	fit      []*fileRec // files whose rounded size is <= max_size
	oldest   int64      // over fit
	youngest int64      // over fit
	sumFit   int64      // sum of rounded sizes over fit
}

func (k *keyInfo) dup() bool { return len(k.files) > 1 }

func buildKeys(files []*fileRec, max int64) (map[string]*keyInfo, []string) {
	m := map[string]*keyInfo{}
	var order []string
	for _, f := range files {
		k := m[f.Key()]
		if k == nil {
			k = &keyInfo{key: f.Key()}
			m[f.Key()] = k
			order = append(order, f.Key())
		}
		k.files = append(k.files, f)
		if f.cost() <= max {
			if len(k.fit) == 0 || f.Atime < k.oldest {
				k.oldest = f.Atime
			}
			if len(k.fit) == 0 || f.Atime > k.youngest {
				k.youngest = f.Atime
			}
			k.fit = append(k.fit, f)
			k.sumFit += f.cost()
		}
	}
	return m, order
}

// survivor is one file found in the directory after a start-up.
type survivor struct {
	rec  *fileRec
	rel  string
	size int64
}

type afterStart struct {
	keys     map[string]*keyInfo
	surv     map[string]*survivor // key -> the surviving file
	survKeys []string             // sorted by (youngest) access time, oldest first
	evicted  []string
	ok       bool
}

func shortKey(k string) string {
	if len(k) > 14 {
		return k[:14] + ".."
	}
	return k
}

// judgeStartup applies the restart oracle to the state right after disk.New
// returned without error. files is what the directory held (with the stamps
// the harness remembers); nothing is read here except directory listings,
// stat and the hooked index snapshot.
func (cs *caseState) judgeStartup(ph string, files []*fileRec, max int64, c disk.Cache) *afterStart {
	r := cs.r
	r.Eval()
	res := &afterStart{surv: map[string]*survivor{}}
	keys, _ := buildKeys(files, max)
	res.keys = keys

	snap := lib.Snapshot(c)
	listing, err := lib.ListFiles(snap.Dir)
	if err != nil {
		r.Inconclusive(fmt.Sprintf("case %d %s: cannot list %s: %v", cs.idx, ph, snap.Dir, err))
		return res
	}
	byAtime := map[int64]*fileRec{}
	for _, f := range files {
		byAtime[f.Atime] = f
	}

	perKey := map[string][]*survivor{}
	var rels []string
	for rel := range listing {
		rels = append(rels, rel)
	}
	sort.Strings(rels)
	for _, rel := range rels {
		size := listing[rel]
		pn, err := lib.ParseCacheFileName(rel)
		if err != nil {
			continue // M-dir reports files that are not cache entries
		}
		ki := keys[pn.Key()]
		if ki == nil {
			cs.violation(ph, "foreign-file", fmt.Sprintf("after start-up the directory holds %s for a key the population never contained", rel), nil)
			continue
		}
		at, _, err := statAtime(filepath.Join(snap.Dir, rel))
		var rec *fileRec
		if err == nil {
			if cand := byAtime[at]; cand != nil && cand.Key() == pn.Key() {
				rec = cand
			}
		}
		if rec == nil {
			r.Count(ph + ".survivor.atime-not-as-stamped")
			for _, f := range ki.files {
				if f.DiskLen == size {
					rec = f
					break
				}
			}
		}
		if rec == nil || rec.DiskLen != size {
			cs.violation(ph, "entry-size-changed", fmt.Sprintf("file %s (%d bytes) matches no file of key %s with that length", rel, size, shortKey(pn.Key())), nil)
			continue
		}
		if rec.Kind == "cas" && !pn.Legacy && pn.LogicalSize != int64(len(rec.Content)) {
			cs.violation(ph, "entry-size-changed", fmt.Sprintf("file %s states logical size %d, entry has %d", rel, pn.LogicalSize, len(rec.Content)), nil)
		}
		perKey[pn.Key()] = append(perKey[pn.Key()], &survivor{rec: rec, rel: rel, size: size})
	}

	// Per key: oversized files removed; at most one file per key.
	var fitTotal int64
	for key, ss := range perKey {
		for _, s := range ss {
			if lib.RoundUp4k(s.size) > max {
				cs.violation(ph, "oversized-entry-kept", fmt.Sprintf("%s occupies %d > max_size %d but is still in the directory", s.rel, lib.RoundUp4k(s.size), max), nil)
			}
			fitTotal += lib.RoundUp4k(s.size)
		}
		if len(ss) > 1 {
			cs.violation(ph, "duplicate-key-both-kept", fmt.Sprintf("key %s still has %d files: %s, %s", shortKey(key), len(ss), ss[0].rel, ss[1].rel), nil)
		}
		res.surv[key] = ss[len(ss)-1]
	}
	// fit
	if fitTotal > max {
		cs.violation(ph, "over-max_size", fmt.Sprintf("surviving files occupy %d > max_size %d", fitTotal, max), nil)
	}
	// evicted = keys that could have been kept but are gone
	var evicted, kept []*keyInfo
	nOversizedKeys := 0
	for _, ki := range keys {
		if len(ki.fit) == 0 {
			nOversizedKeys++
			continue
		}
		if res.surv[ki.key] != nil {
			kept = append(kept, ki)
		} else {
			evicted = append(evicted, ki)
		}
	}
	sort.Slice(kept, func(i, j int) bool { return kept[i].youngest < kept[j].youngest })
	sort.Slice(evicted, func(i, j int) bool { return evicted[i].youngest < evicted[j].youngest })
	for _, k := range kept {
		res.survKeys = append(res.survKeys, k.key)
	}
	for _, k := range evicted {
		res.evicted = append(res.evicted, k.key)
	}
	// prefix: no evicted key may be (certainly) younger than a kept one.
	if len(evicted) > 0 && len(kept) > 0 {
		// the evicted key with the largest "oldest" stamp against the kept key with the smallest "youngest"
		worstE := evicted[0]
		for _, e := range evicted {
			if e.oldest > worstE.oldest {
				worstE = e
			}
		}
		bestK := kept[0]
		if worstE.oldest > bestK.youngest {
			cs.violation(ph, "eviction-not-oldest-first",
				fmt.Sprintf("evicted %s (atime %s) although %s with the older atime %s was kept",
					shortKey(worstE.key), fmtNs(worstE.oldest), shortKey(bestK.key), fmtNs(bestK.youngest)), nil)
		}
	}
	// necessity: the youngest evicted key would not have fitted.
	if len(evicted) > 0 {
		var upper int64
		for _, k := range kept {
			upper += k.sumFit
		}
		y := evicted[len(evicted)-1]
		if upper+y.sumFit <= max {
			cs.violation(ph, "fitting-entry-evicted",
				fmt.Sprintf("%s (%d bytes rounded) was evicted although survivors (at most %d) + it <= max_size %d",
					shortKey(y.key), y.sumFit, upper, max), nil)
		}
	}
	r.CountN(ph+".evicted-keys", int64(len(evicted)))
	r.CountN(ph+".oversized-keys-removed", int64(nOversizedKeys))
	r.CountN(ph+".surviving-keys", int64(len(kept)))

	// Index against the model: same key set, logical sizes, LRU order by atime.
	idx := map[string]disk.VerifEntry{}
	for _, e := range snap.Entries {
		idx[e.Key] = e
	}
	for key, s := range res.surv {
		e, ok := idx[key]
		if !ok {
			continue // M-dir reports it (file without index entry)
		}
		want := s.rec.DiskLen
		if s.rec.Kind == "cas" {
			want = int64(len(s.rec.Content))
		}
		if e.Size != want || e.SizeOnDisk != s.size {
			cs.violation(ph, "index-size-wrong", fmt.Sprintf("index entry %s has size %d / on disk %d; the entry is %d / %d (%s)",
				shortKey(key), e.Size, e.SizeOnDisk, want, s.size, s.rel), nil)
		}
	}
	for i := 0; i+1 < len(snap.Entries); i++ {
		a, b := keys[snap.Entries[i].Key], keys[snap.Entries[i+1].Key] // a is nearer the front = must be younger
		if a == nil || b == nil || len(a.fit) == 0 || len(b.fit) == 0 {
			continue
		}
		if a.youngest < b.oldest {
			cs.violation(ph, "lru-order-not-by-atime",
				fmt.Sprintf("index order after start-up: %s (atime %s) is nearer the front than %s (atime %s)",
					shortKey(a.key), fmtNs(a.youngest), shortKey(b.key), fmtNs(b.oldest)), nil)
			break
		}
	}

	cs.monitors(ph, c, false)
	res.ok = true
	return res
}

// monitors runs M-acct and M-dir at a quiescent point.
func (cs *caseState) monitors(ph string, c disk.Cache, deep bool) {
	r := cs.r
	d, snap, verdict := lib.CheckDirQuiescent(c, deep)
	r.Count("monitor.M-dir." + verdict)
	switch verdict {
	case "violated":
		cs.violation(ph, "M-dir", "directory and index differ: "+d.String(), nil)
	case "inconclusive":
		r.Inconclusive(fmt.Sprintf("case %d %s: evictions still queued after the watchdog: %s", cs.idx, ph, d.String()))
	}
	bad := lib.CheckAcct(snap)
	if snap.ReservedSize != 0 {
		bad = append(bad, fmt.Sprintf("reservedSize %d at quiescence", snap.ReservedSize))
	}
	bad = append(bad, lib.CheckStatsAgree(c, snap)...)
	r.Count("monitor.M-acct.checked")
	if len(bad) > 0 {
		cs.violation(ph, "M-acct", fmt.Sprintf("accounting does not match the entries: %v", bad), nil)
	}
}

// Package c09 checks property C09: restart on any bazel-remote directory
// keeps what fits and evicts oldest-atime first.
//
// The harness generates directory populations (current v2 layout, legacy flat
// and two-level layouts, both CAS storage encodings, duplicates, lost+found,
// .DS_Store), stamps distinct access times, opens the directory with the real
// disk.New at a chosen max_size / storage mode and judges the outcome against
// a model built from what it wrote (never from the loader's code).
package c09

import (
	"bytes"
	"context"
	"encoding/json"
	"errors"
	"fmt"
	"io"
	"math/rand/v2"
	"os"
	"path/filepath"
	"regexp"
	"runtime"
	"sort"
	"strconv"
	"strings"
	"sync"
	"time"

	"verif/harness/lib"

	"github.com/buchgr/bazel-remote/v2/cache"
	"github.com/buchgr/bazel-remote/v2/cache/disk"
)

func init() { lib.Register("C09", run) }

// hook dispatch: lru.removed events are routed to the case owning the key
// (every key embeds its case tag, so keys of concurrent cases never collide).
var hookKeys sync.Map // key -> *caseState

func hook(point, key string, n int64) {
	if point != "lru.removed" {
		return
	}
	if v, ok := hookKeys.Load(key); ok {
		cs := v.(*caseState)
		cs.evMu.Lock()
		cs.events = append(cs.events, key)
		cs.evMu.Unlock()
	}
}

type caseState struct {
	r      *lib.Run
	pool   *lib.DirPool
	idx    int
	worker int
	rng    *rand.Rand
	tag    string
	pop    *population

	maxClass string
	max      int64
	storage  string
	impl     string
	freshDir bool
	dir      string

	evMu   sync.Mutex
	events []string

	fresh    map[string]*fileRec // uploads done through the cache API, by key
	freshSeq []*fileRec
	log      []string
	nViol    int
}

// timed adds the wall time of a phase to the evidence (ms, summed over workers).
func (cs *caseState) timed(name string) func() {
	t0 := time.Now()
	return func() { cs.r.CountN("time_ms."+name, time.Since(t0).Milliseconds()) }
}

func (cs *caseState) takeEvents() []string {
	cs.evMu.Lock()
	ev := cs.events
	cs.events = nil
	cs.evMu.Unlock()
	return ev
}

func (cs *caseState) logf(format string, a ...any) {
	if len(cs.log) < 300 {
		cs.log = append(cs.log, fmt.Sprintf(format, a...))
	}
}

func (cs *caseState) describe() map[string]any {
	var files []string
	for _, f := range cs.pop.Files {
		files = append(files, f.String())
	}
	var junk []string
	for _, j := range cs.pop.Junk {
		junk = append(junk, j.Rel)
	}
	return map[string]any{
		"case": cs.idx, "only": fmt.Sprintf("VERIF_C09_ONLY=%d", cs.idx),
		"profile": cs.pop.Profile, "prev_mode": cs.pop.PrevMode, "prev_impl": cs.pop.PrevImpl, "prev_run_used": cs.pop.UsePrev,
		"stamps": cs.pop.Stamps, "max_class": cs.maxClass, "max_size": cs.max, "storage_after_restart": cs.storage, "zstd_impl": cs.impl,
		"fresh_dir": cs.freshDir, "files": files, "junk": junk, "history": cs.log,
	}
}

func (cs *caseState) violation(ph, what, msg string, extra map[string]any) {
	cs.nViol++
	d := cs.describe()
	for k, v := range extra {
		d[k] = v
	}
	d["phase"] = ph
	cs.r.Violation("C09:"+ph+":"+what, fmt.Sprintf("case %d (%s, max_size %d [%s], %s): %s", cs.idx, cs.pop.Profile, cs.max, cs.maxClass, cs.storage, msg), d)
}

// ---------------------------------------------------------------------------

func run(r *lib.Run) {
	r.SetRule("distinct tuple = (population profile, #files bucket, has duplicates, has legacy layout, derived max_size class, storage mode after restart, previous storage mode, phase); " +
		"non-trivial = disk.New ran on the generated directory and the post-start-up listing/snapshot probes ran")
	ok, err := probeNs()
	if err != nil {
		r.Inconclusive("cannot probe access-time resolution of the scratch file system: " + err.Error())
		return
	}
	nsResolution = ok
	r.Extra("atime_ns_resolution", ok)
	if !ok {
		r.Assume("scratch file system does not keep ns access times; stamps are spaced by >= 2 s")
	}
	r.Assume("file sizes are accounted rounded up to 4 KiB blocks (an entry 'fits' when its rounded size <= max_size)")
	r.Assume("for a key with duplicate files the statement does not say which file represents the key: order/necessity are judged only where they hold for every choice")

	disk.VerifSetHook(hook)
	defer disk.VerifSetHook(nil)

	n := r.N(60, 1500)
	only := -1
	if v := os.Getenv("VERIF_C09_ONLY"); v != "" {
		only, _ = strconv.Atoi(v)
	}
	pool := lib.NewDirPool("c09")
	defer pool.Close()

	workers := runtime.NumCPU() / 2
	if workers > 8 {
		workers = 8
	}
	if workers < 2 {
		workers = 2
	}
	jobs := make(chan int)
	var wg sync.WaitGroup
	for w := 0; w < workers; w++ {
		wg.Add(1)
		go func(w int) {
			defer wg.Done()
			for i := range jobs {
				runCase(r, pool, i, w)
			}
		}(w)
	}
	for i := 0; i < n; i++ {
		if only >= 0 && i != only {
			continue
		}
		jobs <- i
	}
	close(jobs)
	wg.Wait()

	if r.Counter("startup.ok") == 0 {
		r.Inconclusive("no start-up succeeded; nothing after start-up was observed")
	}
}

func bucket(n int) string {
	switch {
	case n == 0:
		return "0"
	case n <= 2:
		return "1-2"
	case n <= 12:
		return "3-12"
	case n <= 40:
		return "13-40"
	}
	return "41-80"
}

// pickMax chooses max_size for a class from the rounded sizes of the files.
func pickMax(rng *rand.Rand, class string, files []*fileRec) int64 {
	var total, largest, second int64
	for _, f := range files {
		c := f.cost()
		total += c
		if c > largest {
			largest, second = c, largest
		} else if c > second {
			second = c
		}
	}
	if total == 0 {
		return []int64{lib.Block, 64 * lib.KiB, 1 << 30}[rng.IntN(3)]
	}
	// what the index would hold if nothing had to go (youngest file per key)
	keys, _ := buildKeys(files, 1<<62)
	var final int64
	for _, k := range keys {
		y := k.files[0]
		for _, f := range k.files {
			if f.Atime > y.Atime {
				y = f
			}
		}
		final += y.cost()
	}
	switch class {
	case "larger":
		switch rng.IntN(10) {
		case 0:
			return 1 << 30
		case 1, 2:
			return total + 1
		default:
			return total + lib.Block*int64(1+rng.IntN(48))
		}
	case "equal":
		if final < total && rng.IntN(2) == 0 {
			return final
		}
		return total
	case "smaller":
		lo := largest
		if lo >= total {
			lo = lib.Block
		}
		if total-lo <= lib.Block {
			return max64(lib.Block, total-1)
		}
		switch rng.IntN(6) {
		case 0:
			return total - 1
		case 1:
			return total - lib.Block
		case 2:
			return max64(lo, total/2)
		case 3:
			return lo
		case 4:
			return lo + rng.Int64N(total-lo) // unaligned
		default:
			return lo + lib.Block*rng.Int64N((total-lo)/lib.Block)
		}
	case "below-largest":
		if largest <= lib.Block {
			return lib.Block
		}
		switch rng.IntN(6) {
		case 0:
			return largest - 1
		case 5:
			// inside the rounding window of one file: its byte length fits, its rounded size does not
			f := files[rng.IntN(len(files))]
			if f.cost() > lib.Block && f.DiskLen < f.cost() {
				return f.DiskLen + rng.Int64N(f.cost()-f.DiskLen)
			}
			return largest - 1
		case 1:
			return largest - lib.Block
		case 2:
			if second >= lib.Block && second < largest {
				return second
			}
			return largest - lib.Block
		case 3:
			return lib.Block + rng.Int64N(largest-lib.Block)
		default:
			return lib.Block * (1 + rng.Int64N(largest/lib.Block-1))
		}
	}
	return lib.Block // one-block
}

func max64(a, b int64) int64 {
	if a > b {
		return a
	}
	return b
}

// derivedClass names what the chosen max_size means for this population.
func derivedClass(files []*fileRec, max int64) string {
	var total int64
	over := false
	for _, f := range files {
		total += f.cost()
		over = over || f.cost() > max
	}
	switch {
	case len(files) == 0:
		return "empty"
	case over && max == lib.Block:
		return "one-block+oversized"
	case over:
		return "surplus+oversized"
	case total > max:
		return "surplus"
	case total == max:
		return "exact"
	}
	return "all-fit"
}

// open runs disk.New on dir. The case is journalled first, so that a crash of
// server code inside the checker leaves a replayable witness behind.
func (cs *caseState) open(dir string, max int64, storage, impl string) (disk.Cache, error) {
	jp := filepath.Join(lib.VerifRoot(), "replays", fmt.Sprintf("C09-inflight-w%d.json", cs.worker))
	_ = os.MkdirAll(filepath.Dir(jp), 0o755)
	d := cs.describe()
	d["note"] = "disk.New was running on this directory population when the check process died"
	d["open_max_size"], d["open_storage"] = max, storage
	b, _ := json.Marshal(d)
	_ = os.WriteFile(jp, b, 0o644)
	type res struct {
		c   disk.Cache
		err error
	}
	ch := make(chan res, 1)
	go func() {
		c, _, err := lib.NewCache(lib.ServerOpts{Dir: dir, MaxSize: max, Storage: storage, ZstdImpl: impl})
		ch <- res{c, err}
	}()
	select {
	case x := <-ch:
		_ = os.Remove(jp)
		return x.c, x.err
	case <-time.After(5 * time.Minute):
		// a watchdog, not a verdict
		cs.r.Inconclusive(fmt.Sprintf("case %d: disk.New did not return within 5 minutes (witness: %s)", cs.idx, jp))
		return nil, errHung
	}
}

var errHung = errors.New("disk.New did not return (watchdog)")

func runCase(r *lib.Run, pool *lib.DirPool, idx, worker int) {
	rng := r.Rng(fmt.Sprintf("case-%d", idx))
	cs := &caseState{r: r, pool: pool, idx: idx, worker: worker, rng: rng, fresh: map[string]*fileRec{}}
	cs.tag = fmt.Sprintf("c09-s%d-%s-%d", r.Seed, r.Tier, idx)
	tm := cs.timed("generate")
	cs.pop = genPopulation(rng, cs.tag)
	tm()
	cs.maxClass = weighted(rng, "larger", 20, "equal", 15, "smaller", 35, "below-largest", 20, "one-block", 10)
	cs.storage = lib.Pick(rng, []string{"zstd", "uncompressed"})
	cs.impl = lib.Pick(rng, []string{"go", "cgo"})
	cs.freshDir = rng.IntN(100) < 30
	planUploads := weighted(rng, "none", 20, "some", 45, "all", 35)
	planRestart2 := rng.IntN(100) < 35
	rng2 := r.Rng(fmt.Sprintf("case-%d-phase2", idx)) // later phases: independent of how much the first consumed

	r.Count("case.total")
	newDir := func(fresh bool) (string, func()) {
		if fresh {
			d := lib.MkTemp("c09")
			return d, func() { _ = os.RemoveAll(d) }
		}
		d := pool.Get()
		return d, func() { pool.Put(d) }
	}
	dir, release := newDir(cs.freshDir)
	cs.dir = dir
	defer func() { defer cs.timed("cleanup")(); release() }()
	for _, f := range cs.pop.Files {
		if prev, loaded := hookKeys.Swap(f.Key(), cs); loaded && prev.(*caseState) != cs {
			r.Count("harness.key-shared-by-two-running-cases") // must stay 0: events would be misrouted
		}
	}
	defer func() {
		for _, f := range cs.pop.Files {
			hookKeys.Delete(f.Key())
		}
		for k := range cs.fresh {
			hookKeys.Delete(k)
		}
	}()

	tm = cs.timed("materialize")
	err := materialize(dir, cs.pop, nil)
	tm()
	if err != nil {
		r.Inconclusive(fmt.Sprintf("case %d: cannot build the directory: %v", idx, err))
		return
	}
	files := cs.pop.Files
	cs.max = pickMax(rng, cs.maxClass, files)
	dclass := derivedClass(files, cs.max)

	// Observation matrix of what was generated.
	hasDup, hasLegacy := false, false
	for _, f := range files {
		r.Count("gen.file." + f.Kind + "." + f.Layout + "." + f.Enc + "." + f.Writer)
		if f.DupIdx > 0 {
			hasDup = true
			r.Count("gen.dup-file." + f.Kind + "." + f.Layout + "." + f.Enc)
		}
		hasLegacy = hasLegacy || f.Layout != "v2"
		if f.cost() > cs.max {
			r.Count("gen.oversized-file." + f.Kind)
			if f.DiskLen <= cs.max {
				r.Count("gen.oversized-file.only-by-4k-rounding")
			}
		}
		if f.Kind == "cas" && f.Layout == "v2" {
			onDisk := "compressed"
			if f.Enc == "v1" || f.Enc == "ident-hdr" {
				onDisk = "uncompressed"
			}
			r.Count("gen.cas-v2." + onDisk + "-file-opened-in-" + cs.storage + "-mode")
		}
	}
	for _, j := range cs.pop.Junk {
		if j.IsDir || !strings.Contains(j.Tag, "lost+found") {
			r.Count("gen.junk." + j.Tag)
		}
	}
	r.Count("gen.profile." + cs.pop.Profile)
	r.Count("gen.stamps." + cs.pop.Stamps)
	r.Count("class." + dclass + "." + cs.storage)
	r.Count("class.requested." + cs.maxClass)
	cs.logf("start-up #1: max_size=%d (%s -> %s) storage=%s impl=%s files=%d", cs.max, cs.maxClass, dclass, cs.storage, cs.impl, len(files))

	// ---- start-up under test -------------------------------------------------
	tm = cs.timed("disk.New")
	c, err := cs.open(dir, cs.max, cs.storage, cs.impl)
	tm()
	loadEvents := cs.takeEvents()
	r.CountN("events.lru.removed.during-load", int64(len(loadEvents)))
	if err == errHung {
		return
	}
	if err != nil {
		r.Eval()
		r.Count("startup.error")
		r.Distinct(cs.pop.Profile, bucket(len(files)), hasDup, hasLegacy, dclass, cs.storage, cs.pop.PrevMode, "startup-error")
		tm = cs.timed("isolate")
		feature, how := cs.classify(err)
		tm()
		cs.violation("startup-error", feature,
			fmt.Sprintf("disk.New failed on a legal directory: %v (isolated feature: %s)", err, feature),
			map[string]any{"error": err.Error(), "isolated_feature": feature, "isolated_by": how})
		return
	}
	r.Count("startup.ok")
	r.Count("startup.ok." + dclass)
	r.Distinct(cs.pop.Profile, bucket(len(files)), hasDup, hasLegacy, dclass, cs.storage, cs.pop.PrevMode, "startup")
	cs.removeJunk(dir)
	tm = cs.timed("judge")
	st := cs.judgeStartup("startup", files, cs.max, c)
	tm()
	if idx < 40 {
		r.Sample(map[string]any{"case": idx, "profile": cs.pop.Profile, "files": len(files), "dup": hasDup, "legacy": hasLegacy,
			"max_size": cs.max, "class": dclass, "storage": cs.storage, "kept": len(st.survKeys), "evicted": len(st.evicted),
			"lru_removed_events_during_load": len(loadEvents), "junk": len(cs.pop.Junk)})
	}
	if !st.ok {
		return
	}
	if planUploads != "none" {
		cs.uploads(rng2, "uploads", c, st, planUploads, cs.storage)
		r.Distinct(cs.pop.Profile, bucket(len(files)), hasDup, hasLegacy, dclass, cs.storage, cs.pop.PrevMode, "uploads-"+planUploads)
	}

	// ---- optional second restart on what the first one (and the uploads) left --
	cur, curMax, curStorage := c, cs.max, cs.storage
	if planRestart2 {
		files2, ok := cs.currentFiles(rng2, cur)
		if ok {
			class2 := weighted(rng2, "larger", 20, "equal", 15, "smaller", 35, "below-largest", 20, "one-block", 10)
			max2 := pickMax(rng2, class2, files2)
			storage2 := lib.Pick(rng2, []string{"zstd", "uncompressed"})
			d2 := derivedClass(files2, max2)
			cs.logf("start-up #2: max_size=%d (%s -> %s) storage=%s files=%d", max2, class2, d2, storage2, len(files2))
			r.Count("restart2.class." + d2 + "." + storage2)
			prevMax, prevClass, prevStorage := cs.max, cs.maxClass, cs.storage
			cs.max, cs.maxClass, cs.storage = max2, class2+"(second restart)", storage2
			c2, err := cs.open(dir, max2, storage2, cs.impl)
			_ = cs.takeEvents()
			if err == errHung {
				return
			}
			if err != nil {
				r.Eval()
				r.Count("restart2.error")
				over := false
				for _, f := range files2 {
					over = over || f.cost() > max2
				}
				feature := "second-restart"
				if over && cs.retryInPlace(dir) {
					feature = "oversized-file"
				}
				cs.violation("startup-error", feature, fmt.Sprintf("second disk.New on the directory left by the first run failed: %v", err),
					map[string]any{"error": err.Error(), "first_max_size": prevMax, "first_class": prevClass, "first_storage": prevStorage})
				return
			}
			r.Count("restart2.ok")
			r.Distinct(cs.pop.Profile, bucket(len(files2)), hasDup, hasLegacy, d2, storage2, prevStorage, "restart2")
			st2 := cs.judgeStartup("restart2", files2, max2, c2)
			if !st2.ok {
				return
			}
			if weighted(rng2, "none", 30, "some", 40, "all", 30) != "none" {
				cs.uploads(rng2, "uploads2", c2, st2, "some", storage2)
			}
			st, cur, curMax, curStorage = st2, c2, max2, storage2
		}
	}
	_ = curMax

	// ---- content reads, only now --------------------------------------------
	tm = cs.timed("reads")
	cs.reads(rng2, cur, st, curStorage)
	cs.monitors("final", cur, true)
	tm()
}

// removeJunk deletes the non-entry files the harness planted (they are not
// part of the directory == index comparison) and records what the loader did
// with them.
func (cs *caseState) removeJunk(dir string) {
	for _, j := range cs.pop.Junk {
		full := filepath.Join(dir, j.Rel)
		if j.IsDir {
			if _, err := os.Lstat(full); err == nil {
				cs.r.Count("junk.after-startup.dir-still-there." + j.Tag)
			}
			continue
		}
		if err := os.Remove(full); err == nil {
			cs.r.Count("junk.after-startup.file-still-there." + j.Tag)
		} else {
			cs.r.Count("junk.after-startup.file-gone." + j.Tag)
		}
	}
}

// classify names the input class a start-up error belongs to. The first
// errors of each message pattern are isolated by experiment (isolate); once
// three experiments agreed on the feature, later errors with the same pattern
// on a population that has that feature are attributed to it without
// re-running the experiment.
var (
	isoMu   sync.Mutex
	isoMemo = map[string]*isoEntry{}
	reHash  = regexp.MustCompile(`[0-9a-f]{64}`)
	rePath  = regexp.MustCompile(`/[^ :]*/((?:cas|ac|raw)(?:\.v2)?/)`)
	reSub   = regexp.MustCompile(`/[0-9a-f]{2}/`)
	isoRuns int
)

type isoEntry struct {
	feature string
	agree   int
	mixed   bool
}

func (cs *caseState) hasFeature(ft string) bool {
	if ft == "oversized-file" {
		for _, f := range cs.pop.Files {
			if f.cost() > cs.max {
				return true
			}
		}
		return false
	}
	for _, t := range cs.pop.features() {
		if t == ft {
			return true
		}
	}
	return false
}

func (cs *caseState) classify(err error) (string, string) {
	pat := rePath.ReplaceAllString(reHash.ReplaceAllString(err.Error(), "<hash>"), "<dir>/$1")
	pat = reSub.ReplaceAllString(pat, "/xx/")
	isoMu.Lock()
	m := isoMemo[pat]
	if m != nil && m.agree >= 3 && !m.mixed && cs.hasFeature(m.feature) {
		ft := m.feature
		isoMu.Unlock()
		cs.r.Count("startup-error.classified.by-memo")
		return ft, "three agreeing isolation experiments for the error pattern " + pat
	}
	isoRuns++
	over := isoRuns > 40
	isoMu.Unlock()
	if over {
		// a tree that fails this often is broken anyway; do not spend the run on experiments
		cs.r.Count("startup-error.not-isolated.budget")
		return "not-isolated", "the budget of 40 isolation experiments per run is spent"
	}
	ft := cs.isolate()
	cs.r.Count("startup-error.classified.by-experiment")
	isoMu.Lock()
	if m = isoMemo[pat]; m == nil {
		isoMemo[pat] = &isoEntry{feature: ft, agree: 1}
	} else if m.feature == ft {
		m.agree++
	} else {
		m.mixed = true
	}
	isoMu.Unlock()
	return ft, "experiment: the population rebuilt without the feature (or with unlimited max_size) starts"
}

// isolate names the generator feature a start-up error depends on: the same
// population is rebuilt in another directory without one feature at a time
// (or with an unlimited max_size) and disk.New is tried again.
func (cs *caseState) isolate() string {
	try := func(skip map[string]bool, max int64) bool {
		d := cs.pool.Get()
		defer cs.pool.Put(d)
		if err := materialize(d, cs.pop, skip); err != nil {
			return false
		}
		c, err := cs.open(d, max, cs.storage, cs.impl)
		if err == nil {
			lib.WaitEvictionsDrained(c, 5*time.Second)
		} else {
			waitStable(d)
		}
		return err == nil
	}
	if cs.hasFeature("oversized-file") && try(nil, 1<<40) {
		return "oversized-file"
	}
	for _, ft := range cs.pop.features() {
		if try(map[string]bool{ft: true}, cs.max) {
			return ft
		}
	}
	if try(nil, 1<<40) {
		return "max_size=" + cs.maxClass
	}
	// two causes at once (e.g. an oversized file and another feature)
	for _, ft := range cs.pop.features() {
		if try(map[string]bool{ft: true}, 1<<40) {
			return ft
		}
	}
	return "unclassified"
}

// waitStable waits until two listings 100 ms apart agree (a failed start-up
// may have left a background remover working through its queue).
func waitStable(dir string) {
	prev := ""
	for i := 0; i < 50; i++ {
		l, _ := lib.ListFiles(dir)
		var names []string
		for k := range l {
			names = append(names, k)
		}
		sort.Strings(names)
		s := strings.Join(names, "\n")
		if i > 0 && s == prev {
			return
		}
		prev = s
		time.Sleep(100 * time.Millisecond)
	}
}

func (cs *caseState) retryInPlace(dir string) bool {
	waitStable(dir)
	c, err := cs.open(dir, 1<<40, cs.storage, cs.impl)
	if err == nil {
		lib.WaitEvictionsDrained(c, 5*time.Second)
	}
	return err == nil
}

// uploads stores fresh blobs through the cache API until the planned share
// of the remembered survivors has been evicted, and judges the order of the
// lru.removed events against the remembered access times.
func (cs *caseState) uploads(rng *rand.Rand, ph string, c disk.Cache, st *afterStart, plan, storage string) {
	r := cs.r
	defer cs.timed("uploads")()
	snap := lib.Snapshot(c)
	headroom := snap.MaxSize - snap.CurrentSize
	if headroom > 6*lib.MiB {
		r.Count(ph + ".skipped.too-much-headroom")
		return
	}
	r.Eval()
	old := map[string]bool{}
	for _, k := range st.survKeys {
		old[k] = true
	}
	target := len(st.survKeys)
	extraFresh := 0
	if plan == "some" && target > 0 {
		target = 1 + rng.IntN(target)
	} else {
		extraFresh = 2
	}
	limit := snap.MaxSize / 2
	if limit > 3*lib.MiB {
		limit = 3 * lib.MiB
	}
	var sizes []int
	for _, s := range []int{9, 700, 2000, 4096, 5000, 20000, 70000} {
		if int64(s) <= limit {
			sizes = append(sizes, s)
		}
	}
	var seq []string // eviction events, in order
	gone := map[string]bool{}
	oldGone, freshGone := 0, 0
	_ = cs.takeEvents()
	for n := 0; n < 14; n++ {
		if oldGone >= target && freshGone >= extraFresh {
			break
		}
		// Bytes that still have to be pushed in to reach the target (every Put
		// has an fsync, so a few large uploads do most of the work; the hook
		// still reports each eviction in order).
		total, _, _, _ := c.Stats()
		need := snap.MaxSize - total
		for i := 0; i < target && i < len(st.survKeys); i++ {
			if k := st.survKeys[i]; !gone[k] {
				need += lib.RoundUp4k(st.surv[k].size)
			}
		}
		sz := lib.Pick(rng, sizes)
		if (n >= 2 && rng.IntN(4) > 0) || need > lib.MiB {
			big := need - rng.Int64N(lib.Block)
			if big > limit {
				big = limit
			}
			if big > int64(sz) {
				sz = int(big)
			}
		}
		ck := weighted(rng, "random", 60, "text", 20, "zero", 20)
		b := uniqueBlob(rng, sz, ck, fmt.Sprintf("%s-%s-%d", cs.tag, ph, n))
		sz = len(b)
		f := &fileRec{ID: 1000 + len(cs.freshSeq), Kind: "cas", Hash: lib.Sha256Hex(b), Content: b, Writer: "upload", Layout: "v2", Enc: "put-" + storage}
		hookKeys.Store(f.Key(), cs)
		cs.fresh[f.Key()] = f
		cs.freshSeq = append(cs.freshSeq, f)
		err := c.Put(context.Background(), cache.CAS, f.Hash, int64(sz), bytes.NewReader(b))
		if err != nil {
			r.Count(ph + ".put.err")
			cs.logf("%s: put %d bytes: %v", ph, sz, err)
		} else {
			r.Count(ph + ".put.ok")
		}
		ev := cs.takeEvents()
		cs.logf("%s: put #%d %s %d bytes (%s) -> evicted %d", ph, n, shortKey(f.Key()), sz, ck, len(ev))
		for _, k := range ev {
			seq = append(seq, k)
			gone[k] = true
			if old[k] {
				oldGone++
			} else if cs.fresh[k] != nil {
				freshGone++
			}
		}
	}
	r.CountN(ph+".evicted.remembered-survivors", int64(oldGone))
	r.CountN(ph+".evicted.fresh-uploads", int64(freshGone))
	if oldGone == 0 {
		r.Count(ph + ".no-eviction-forced")
	}

	// Judge the order.
	remaining := map[string]bool{}
	for k := range old {
		remaining[k] = true
	}
	var prev *keyInfo
	reported := false
	for i, k := range seq {
		if old[k] {
			ki := st.keys[k]
			if !remaining[k] {
				cs.violation(ph, "survivor-evicted-twice", fmt.Sprintf("%s evicted twice", shortKey(k)), map[string]any{"eviction_sequence": seq})
				continue
			}
			delete(remaining, k)
			if prev != nil && prev.oldest > ki.youngest && !reported {
				reported = true
				cs.violation(ph, "later-eviction-not-in-atime-order",
					fmt.Sprintf("eviction #%d removed %s (atime %s) after %s (atime %s)", i, shortKey(k), fmtNs(ki.youngest), shortKey(prev.key), fmtNs(prev.oldest)),
					map[string]any{"eviction_sequence": shortAll(seq)})
			}
			prev = ki
			// nothing older may remain
			if !reported {
				for rk := range remaining {
					o := st.keys[rk]
					if o.youngest < ki.oldest {
						reported = true
						cs.violation(ph, "later-eviction-not-in-atime-order",
							fmt.Sprintf("eviction #%d removed %s (atime %s) while the older survivor %s (atime %s) was still cached", i, shortKey(k), fmtNs(ki.oldest), shortKey(rk), fmtNs(o.youngest)),
							map[string]any{"eviction_sequence": shortAll(seq)})
						break
					}
				}
			}
		} else if cs.fresh[k] != nil && len(remaining) > 0 && !reported {
			reported = true
			cs.violation(ph, "fresh-upload-evicted-before-older-survivor",
				fmt.Sprintf("eviction #%d removed the fresh upload %s while %d entries remembered from before the restart were still cached", i, shortKey(k), len(remaining)),
				map[string]any{"eviction_sequence": shortAll(seq)})
		}
	}
	cs.monitors(ph, c, false)
}

func shortAll(keys []string) []string {
	out := make([]string, len(keys))
	for i, k := range keys {
		out[i] = shortKey(k)
	}
	return out
}

// currentFiles lists what the directory holds now (survivors of the first
// start-up with their remembered stamps, plus the uploads, which get fresh
// distinct stamps in random order) as the population of a second restart.
func (cs *caseState) currentFiles(rng *rand.Rand, c disk.Cache) ([]*fileRec, bool) {
	if !lib.WaitEvictionsDrained(c, 10*time.Second) {
		cs.r.Inconclusive(fmt.Sprintf("case %d: eviction backlog did not drain before the second restart", cs.idx))
		return nil, false
	}
	snap := lib.Snapshot(c)
	listing, err := lib.ListFiles(snap.Dir)
	if err != nil {
		return nil, false
	}
	byAtime := map[int64]*fileRec{}
	used := map[int64]bool{}
	for _, f := range cs.pop.Files {
		byAtime[f.Atime] = f
		used[f.Atime] = true
	}
	var out, freshFiles []*fileRec
	var rels []string
	for rel := range listing {
		rels = append(rels, rel)
	}
	sort.Strings(rels)
	for _, rel := range rels {
		pn, err := lib.ParseCacheFileName(rel)
		if err != nil {
			cs.r.Count("restart2.skipped.unparsable-file")
			return nil, false
		}
		if f := cs.fresh[pn.Key()]; f != nil {
			f.Rel, f.DiskLen = rel, listing[rel]
			freshFiles = append(freshFiles, f)
			out = append(out, f)
			continue
		}
		at, _, err := statAtime(filepath.Join(snap.Dir, rel))
		f := byAtime[at]
		if err != nil || f == nil || f.Key() != pn.Key() || f.DiskLen != listing[rel] {
			cs.r.Count("restart2.skipped.unidentified-file")
			return nil, false
		}
		g := *f // the file as it is now: v2 layout, single file of its key
		g.Rel, g.Layout, g.DupIdx = rel, "v2", 0
		out = append(out, &g)
	}
	stamps := genStamps(rng, len(freshFiles), "mixed", used)
	for i, f := range freshFiles {
		f.Atime, f.Mtime = stamps[i], stamps[i]-1
		if err := stamp(filepath.Join(snap.Dir, f.Rel), f); err != nil {
			cs.r.Inconclusive(fmt.Sprintf("case %d: %v", cs.idx, err))
			return nil, false
		}
	}
	return out, true
}

// reads fetches every key the harness knows through the cache API: survivors
// must deliver the remembered content and size, everything else must miss.
func (cs *caseState) reads(rng *rand.Rand, c disk.Cache, st *afterStart, storage string) {
	r := cs.r
	r.Eval()
	ctx := context.Background()
	snap := lib.Snapshot(c)
	indexed := map[string]bool{}
	for _, e := range snap.Entries {
		indexed[e.Key] = true
	}
	keys := make([]string, 0, len(st.keys))
	for k := range st.keys {
		keys = append(keys, k)
	}
	sort.Strings(keys)
	rng.Shuffle(len(keys), func(i, j int) { keys[i], keys[j] = keys[j], keys[i] })
	for _, k := range keys {
		ki := st.keys[k]
		f0 := ki.files[0]
		kind := entryKind(f0.Kind)
		if !indexed[k] {
			// evicted at start-up, oversized, or evicted by the uploads: must not be served
			if ok, _ := c.Contains(ctx, kind, f0.Hash, -1); ok {
				cs.violation("reads", "removed-entry-still-reported", fmt.Sprintf("%s is not indexed but Contains says present", shortKey(k)), nil)
			}
			r.Count("reads.absent-key.miss-checked")
			continue
		}
		// acceptable contents: the surviving file's (any of the duplicates' for AC/RAW, identical for CAS)
		var accept [][]byte
		for _, f := range ki.files {
			accept = append(accept, f.Content)
		}
		sizeArg := int64(-1)
		if len(accept) == 1 && rng.IntN(2) == 0 {
			sizeArg = int64(len(accept[0]))
		}
		rc, sz, err := c.Get(ctx, kind, f0.Hash, sizeArg, 0)
		var got []byte
		if err == nil && rc != nil {
			got, err = io.ReadAll(rc)
			_ = rc.Close()
		}
		enc := f0.Enc
		if s := st.surv[k]; s != nil {
			enc = s.rec.Enc
		}
		path := fmt.Sprintf("reads.get.%s.%s-in-%s-mode", f0.Kind, enc, storage)
		match := -1
		for i, a := range accept {
			if rc != nil && err == nil && bytes.Equal(a, got) {
				match = i
			}
		}
		switch {
		case err != nil || rc == nil:
			r.Count(path + ".FAILED")
			cs.violation("reads", "survivor-unreadable", fmt.Sprintf("Get(%s, size %d) of an indexed survivor failed: rc=%v err=%v", shortKey(k), sizeArg, rc != nil, err), nil)
			continue
		case match < 0:
			r.Count(path + ".WRONG")
			cs.violation("reads", "survivor-content-changed", fmt.Sprintf("Get(%s) returned %d bytes that are not the stored content (%d bytes)", shortKey(k), len(got), len(accept[0])), nil)
			continue
		case sz != int64(len(got)):
			r.Count(path + ".WRONGSIZE")
			cs.violation("reads", "survivor-size-changed", fmt.Sprintf("Get(%s) reported size %d but delivered %d bytes", shortKey(k), sz, len(got)), nil)
			continue
		}
		r.Count(path + ".ok")
		if s := st.surv[k]; s != nil && !bytes.Equal(s.rec.Content, got) {
			r.Count("reads.dup.content-of-the-other-file")
		}
		if ok, csz := c.Contains(ctx, kind, f0.Hash, int64(len(got))); !ok || csz != int64(len(got)) {
			cs.violation("reads", "survivor-size-changed", fmt.Sprintf("Contains(%s, %d) = %v, %d", shortKey(k), len(got), ok, csz), nil)
		}
		if f0.Kind == "cas" && rng.IntN(2) == 0 {
			zrc, zsz, err := c.GetZstd(ctx, f0.Hash, int64(len(got)), 0)
			if err != nil || zrc == nil {
				cs.violation("reads", "survivor-unreadable", fmt.Sprintf("GetZstd(%s) failed: %v", shortKey(k), err), nil)
				continue
			}
			zb, err := io.ReadAll(zrc)
			_ = zrc.Close()
			var dec []byte
			if err == nil {
				dec, err = lib.ZstdDecodeBoth(zb)
			}
			if err != nil || !bytes.Equal(dec, got) || zsz != int64(len(got)) {
				r.Count("reads.getzstd." + enc + "-in-" + storage + "-mode.WRONG")
				cs.violation("reads", "survivor-content-changed", fmt.Sprintf("GetZstd(%s): err=%v size=%d decoded=%d want %d", shortKey(k), err, zsz, len(dec), len(got)), nil)
				continue
			}
			r.Count("reads.getzstd." + enc + "-in-" + storage + "-mode.ok")
		}
	}
	// fresh uploads that are still indexed must read back too
	for _, f := range cs.freshSeq {
		if !indexed[f.Key()] {
			continue
		}
		rc, _, err := c.Get(ctx, cache.CAS, f.Hash, int64(len(f.Content)), 0)
		if err != nil || rc == nil {
			cs.violation("reads", "upload-unreadable", fmt.Sprintf("Get of the indexed upload %s failed: %v", shortKey(f.Key()), err), nil)
			continue
		}
		got, _ := io.ReadAll(rc)
		_ = rc.Close()
		if !bytes.Equal(got, f.Content) {
			cs.violation("reads", "upload-content-changed", fmt.Sprintf("upload %s reads back differently", shortKey(f.Key())), nil)
		}
		r.Count("reads.get.fresh-upload.ok")
	}
}

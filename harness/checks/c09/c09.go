// Package c09 checks property C09: restart on any bazel-remote directory
// keeps what fits and evicts oldest-atime first.
//
// The harness generates directory populations (current v2 layout, legacy flat
// and two-level layouts, both CAS storage encodings, duplicates, lost+found,
// .DS_Store), stamps distinct access times, opens the directory with the real
// disk.New at a chosen max_size / storage mode and judges the outcome against
// a model built from what it wrote (never from the loader's code).
package c09

import (
	"bytes"
	"context"
	"encoding/json"
	"errors"
	"fmt"
	"io"
	"math/rand/v2"
	"os"
	"path/filepath"
	"regexp"
	"runtime"
	"sort"
	"strconv"
	"strings"
	"sync"
	"time"

	"verif/harness/lib"

	"github.com/buchgr/bazel-remote/v2/cache"
	"github.com/buchgr/bazel-remote/v2/cache/disk"
)

func init() { lib.Register("C09", run) }

// hook dispatch: lru.removed events are routed to the case owning the key
// (every key embeds its case tag, so keys of concurrent cases never collide).
var hookKeys sync.Map // key -> *caseState

func hook(point, key string, n int64) {
	if point != "lru.removed" {
		return
	}
	if v, ok := hookKeys.Load(key); ok {
		cs := v.(*caseState)
		cs.evMu.Lock()
		cs.events = append(cs.events, key)
		cs.evMu.Unlock()
	}
}

type caseState struct {
	r      *lib.Run
	pool   *lib.DirPool
	idx    int
	worker int
	rng    *rand.Rand
	tag    string
	pop    *population

	maxClass string
	max      int64
	storage  string
	impl     string
	freshDir bool
	dir      string

	evMu   sync.Mutex
	events []string

	fresh    map[string]*fileRec // uploads done through the cache API, by key
	freshSeq []*fileRec
	log      []string
	nViol    int
}

// timed adds the wall time of a phase to the evidence (ms, summed over workers).
func (cs *caseState) timed(name string) func() {
	t0 := time.Now()
	return func() { cs.r.CountN("time_ms."+name, time.Since(t0).Milliseconds()) }
}

func (cs *caseState) takeEvents() []string {
	cs.evMu.Lock()
	ev := cs.events
	cs.events = nil
	cs.evMu.Unlock()
	return ev
}

func (cs *caseState) logf(format string, a ...any) {
	if len(cs.log) < 300 {
		cs.log = append(cs.log, fmt.Sprintf(format, a...))
	}
}

func (cs *caseState) describe() map[string]any {
	var files []string
	for _, f := range cs.pop.Files {
		files = append(files, f.String())
	}
	var junk []string
	for _, j := range cs.pop.Junk {
		junk = append(junk, j.Rel)
	}
	return map[string]any{
		"case": cs.idx, "only": fmt.Sprintf("VERIF_C09_ONLY=%d", cs.idx),
		"profile": cs.pop.Profile, "prev_mode": cs.pop.PrevMode, "prev_impl": cs.pop.PrevImpl, "prev_run_used": cs.pop.UsePrev,
		"stamps": cs.pop.Stamps, "max_class": cs.maxClass, "max_size": cs.max, "storage_after_restart": cs.storage, "zstd_impl": cs.impl,
		"fresh_dir": cs.freshDir, "files": files, "junk": junk, "history": cs.log,
	}
}

func (cs *caseState) violation(ph, what, msg string, extra map[string]any) {
	cs.nViol++
	d := cs.describe()
	for k, v := range extra {
		d[k] = v
	}
	d["phase"] = ph
	cs.r.Violation("C09:"+ph+":"+what, fmt.Sprintf("case %d (%s, max_size %d [%s], %s): %s", cs.idx, cs.pop.Profile, cs.max, cs.maxClass, cs.storage, msg), d)
}

// ---------------------------------------------------------------------------

func run(r *lib.Run) {
	r.SetRule("distinct tuple = (population profile, #files bucket, has duplicates, has legacy layout, derived max_size class, storage mode after restart, previous storage mode, phase); " +
		"non-trivial = disk.New ran on the generated directory and the post-start-up listing/snapshot probes ran")
	ok, err := probeNs()
	if err != nil {
		r.Inconclusive("cannot probe access-time resolution of the scratch file system: " + err.Error())
		return
	}
	nsResolution = ok
	r.Extra("atime_ns_resolution", ok)
	if !ok {
		r.Assume("scratch file system does not keep ns access times; stamps are spaced by >= 2 s")
	}
	r.Assume("file sizes are accounted rounded up to 4 KiB blocks (an entry 'fits' when its rounded size <= max_size)")
	r.Assume("for a key with duplicate files the statement does not say which file represents the key: order/necessity are judged only where they hold for every choice")
	r.Assume("start-up does not re-encode entries: a surviving file is identified with a generated one by key, stamped access time and byte length (a loader that converted legacy / other-mode files on start-up would need another identification)")
	r.Assume(".DS_Store files are not among the statement's legal directory contents (nor documented): they are still planted, but a start-up error that the isolation experiment attributes to one is recorded (startup-error.not-judged.ds_store@*), not judged")

	disk.VerifSetHook(hook)
	defer disk.VerifSetHook(nil)

	n := r.N(60, 1500)
	only := -1
	if v := os.Getenv("VERIF_C09_ONLY"); v != "" {
		only, _ = strconv.Atoi(v)
	}
	pool := lib.NewDirPool("c09")
	defer pool.Close()

	workers := runtime.NumCPU() / 2
	if workers > 8 {
		workers = 8
	}
	if workers < 2 {
		workers = 2
	}
	jobs := make(chan int)
	var wg sync.WaitGroup
	for w := 0; w < workers; w++ {
		wg.Add(1)
		go func(w int) {
			defer wg.Done()
			for i := range jobs {
				runCase(r, pool, i, w)
			}
		}(w)
	}
	for i := 0; i < n; i++ {
		if only >= 0 && i != only {
			continue
		}
		jobs <- i
	}
	close(jobs)
	wg.Wait()

	if r.Counter("startup.ok") == 0 {
		r.Inconclusive("no start-up succeeded; nothing after start-up was observed")
	}
	// Required observations: a run that never read a survivor of some on-disk
	// format under some storage mode, never met duplicates / oversized files /
	// evictions / a second restart, or never used a loaded entry again observed
	// too little to say "held".
	if only < 0 && r.Violations() == 0 {
		var need []string
		for _, mode := range []string{"zstd", "uncompressed"} {
			if n < 16 {
				break // fewer than one keep-everything case per storage mode
			}
			for _, enc := range []string{"zstd-kp", "zstd-c", "v1", "ident-hdr", "legacy-raw"} {
				need = append(need, "reads.get.cas."+enc+"-in-"+mode+"-mode.ok", "reads.getzstd."+enc+"-in-"+mode+"-mode.ok",
					"reads.get-offset.cas."+enc+"-in-"+mode+"-mode.ok", "reads.getzstd-offset."+enc+"-in-"+mode+"-mode.ok")
			}
			need = append(need, "reads.get.ac.raw-in-"+mode+"-mode.ok", "reads.get.raw.raw-in-"+mode+"-mode.ok")
		}
		need = append(need, "gen.dup-file.any", "startup.oversized-keys-removed", "startup.evicted-keys", "uploads.evicted.remembered-survivors",
			"restart2.ok", "reads.full.cases", "reads.get.size-known", "reads.get.size-unknown",
			"uploads.touch.reput-cas.ok", "uploads.touch.overwrite-ac.ok", "uploads.touch.overwrite-raw.ok", "uploads.touch.contains.ok",
			"uploads.touched-key-evicted-later", "reads.get.touched-survivor.ok")
		sort.Strings(need)
		for _, k := range need {
			if r.Counter(k) == 0 {
				r.Inconclusive("required observation never made: " + k)
			}
		}
	}
}

func bucket(n int) string {
	switch {
	case n == 0:
		return "0"
	case n <= 2:
		return "1-2"
	case n <= 12:
		return "3-12"
	case n <= 40:
		return "13-40"
	}
	return "41-80"
}

// pickMax chooses max_size for a class from the rounded sizes of the files.
func pickMax(rng *rand.Rand, class string, files []*fileRec) int64 {
	var total, largest, second int64
	for _, f := range files {
		c := f.cost()
		total += c
		if c > largest {
			largest, second = c, largest
		} else if c > second {
			second = c
		}
	}
	if total == 0 {
		return []int64{lib.Block, 64 * lib.KiB, 1 << 30}[rng.IntN(3)]
	}
	// what the index would hold if nothing had to go (youngest file per key)
	keys, _ := buildKeys(files, 1<<62)
	var final int64
	for _, k := range keys {
		y := k.files[0]
		for _, f := range k.files {
			if f.Atime > y.Atime {
				y = f
			}
		}
		final += y.cost()
	}
	switch class {
	case "larger":
		switch rng.IntN(10) {
		case 0:
			return 1 << 30
		case 1, 2:
			return total + 1
		default:
			return total + lib.Block*int64(1+rng.IntN(48))
		}
	case "equal":
		if final < total && rng.IntN(2) == 0 {
			return final
		}
		return total
	case "smaller":
		lo := largest
		if lo >= total {
			lo = lib.Block
		}
		if total-lo <= lib.Block {
			return max64(lib.Block, total-1)
		}
		switch rng.IntN(6) {
		case 0:
			return total - 1
		case 1:
			return total - lib.Block
		case 2:
			return max64(lo, total/2)
		case 3:
			return lo
		case 4:
			return lo + rng.Int64N(total-lo) // unaligned
		default:
			return lo + lib.Block*rng.Int64N((total-lo)/lib.Block)
		}
	case "below-largest":
		if largest <= lib.Block {
			return lib.Block
		}
		switch rng.IntN(6) {
		case 0:
			return largest - 1
		case 5:
			// inside the rounding window of one file: its byte length fits, its rounded size does not
			f := files[rng.IntN(len(files))]
			if f.cost() > lib.Block && f.DiskLen < f.cost() {
				return f.DiskLen + rng.Int64N(f.cost()-f.DiskLen)
			}
			return largest - 1
		case 1:
			return largest - lib.Block
		case 2:
			if second >= lib.Block && second < largest {
				return second
			}
			return largest - lib.Block
		case 3:
			return lib.Block + rng.Int64N(largest-lib.Block)
		default:
			return lib.Block * (1 + rng.Int64N(largest/lib.Block-1))
		}
	}
	return lib.Block // one-block
}

func max64(a, b int64) int64 {
	if a > b {
		return a
	}
	return b
}

// derivedClass names what the chosen max_size means for this population.
func derivedClass(files []*fileRec, max int64) string {
	var total int64
	over := false
	for _, f := range files {
		total += f.cost()
		over = over || f.cost() > max
	}
	switch {
	case len(files) == 0:
		return "empty"
	case over && max == lib.Block:
		return "one-block+oversized"
	case over:
		return "surplus+oversized"
	case total > max:
		return "surplus"
	case total == max:
		return "exact"
	}
	return "all-fit"
}

// open runs disk.New on dir. The case is journalled first, so that a crash of
// server code inside the checker leaves a replayable witness behind.
func (cs *caseState) open(dir string, max int64, storage, impl string) (disk.Cache, error) {
	jp := filepath.Join(lib.VerifRoot(), "replays", fmt.Sprintf("C09-inflight-w%d.json", cs.worker))
	_ = os.MkdirAll(filepath.Dir(jp), 0o755)
	d := cs.describe()
	d["note"] = "disk.New was running on this directory population when the check process died"
	d["open_max_size"], d["open_storage"] = max, storage
	b, _ := json.Marshal(d)
	_ = os.WriteFile(jp, b, 0o644)
	type res struct {
		c   disk.Cache
		err error
	}
	ch := make(chan res, 1)
	go func() {
		c, _, err := lib.NewCache(lib.ServerOpts{Dir: dir, MaxSize: max, Storage: storage, ZstdImpl: impl})
		ch <- res{c, err}
	}()
	select {
	case x := <-ch:
		_ = os.Remove(jp)
		return x.c, x.err
	case <-time.After(5 * time.Minute):
		// a watchdog, not a verdict
		cs.r.Inconclusive(fmt.Sprintf("case %d: disk.New did not return within 5 minutes (witness: %s)", cs.idx, jp))
		return nil, errHung
	}
}

var errHung = errors.New("disk.New did not return (watchdog)")

func runCase(r *lib.Run, pool *lib.DirPool, idx, worker int) {
	rng := r.Rng(fmt.Sprintf("case-%d", idx))
	cs := &caseState{r: r, pool: pool, idx: idx, worker: worker, rng: rng, fresh: map[string]*fileRec{}}
	cs.tag = fmt.Sprintf("c09-s%d-%s-%d", r.Seed, r.Tier, idx)
	tm := cs.timed("generate")
	// every eighth case keeps everything (max_size larger than the total), holds
	// every on-disk format and has no upload phase: all formats are read in
	// full, alternately under the two storage modes
	keepAll := idx%8 == 0
	cs.pop = genPopulation(rng, cs.tag, keepAll)
	tm()
	cs.maxClass = weighted(rng, "larger", 20, "equal", 15, "smaller", 35, "below-largest", 20, "one-block", 10)
	cs.storage = lib.Pick(rng, []string{"zstd", "uncompressed"})
	if keepAll {
		cs.maxClass = "larger"
		cs.storage = []string{"zstd", "uncompressed"}[(idx/8)%2]
	}
	cs.impl = lib.Pick(rng, []string{"go", "cgo"})
	cs.freshDir = rng.IntN(100) < 30
	planUploads := weighted(rng, "none", 20, "some", 45, "all", 35)
	planRestart2 := rng.IntN(100) < 35
	// A fixed quarter of the cases has no upload phase: there every survivor of
	// the start-up is still cached when the contents are read (Get with known
	// and unknown size, GetZstd, reads at an offset).
	if idx%4 == 0 {
		planUploads = "none"
	} else if planUploads == "none" {
		planUploads = "some"
	}
	if keepAll {
		planRestart2 = false
	}
	rng2 := r.Rng(fmt.Sprintf("case-%d-phase2", idx)) // later phases: independent of how much the first consumed

	r.Count("case.total")
	newDir := func(fresh bool) (string, func()) {
		if fresh {
			d := lib.MkTemp("c09")
			return d, func() { _ = os.RemoveAll(d) }
		}
		d := pool.Get()
		return d, func() { pool.Put(d) }
	}
	dir, release := newDir(cs.freshDir)
	cs.dir = dir
	defer func() { defer cs.timed("cleanup")(); release() }()
	for _, f := range cs.pop.Files {
		if prev, loaded := hookKeys.Swap(f.Key(), cs); loaded && prev.(*caseState) != cs {
			r.Count("harness.key-shared-by-two-running-cases") // must stay 0: events would be misrouted
		}
	}
	defer func() {
		for _, f := range cs.pop.Files {
			hookKeys.Delete(f.Key())
		}
		for k := range cs.fresh {
			hookKeys.Delete(k)
		}
	}()

	tm = cs.timed("materialize")
	err := materialize(dir, cs.pop, nil)
	tm()
	if err != nil {
		r.Inconclusive(fmt.Sprintf("case %d: cannot build the directory: %v", idx, err))
		return
	}
	files := cs.pop.Files
	cs.max = pickMax(rng, cs.maxClass, files)
	dclass := derivedClass(files, cs.max)

	// Observation matrix of what was generated.
	hasDup, hasLegacy := false, false
	for _, f := range files {
		r.Count("gen.file." + f.Kind + "." + f.Layout + "." + f.Enc + "." + f.Writer)
		if f.DupIdx > 0 {
			hasDup = true
			r.Count("gen.dup-file." + f.Kind + "." + f.Layout + "." + f.Enc)
			r.Count("gen.dup-file.any")
		}
		hasLegacy = hasLegacy || f.Layout != "v2"
		if f.cost() > cs.max {
			r.Count("gen.oversized-file." + f.Kind)
			if f.DiskLen <= cs.max {
				r.Count("gen.oversized-file.only-by-4k-rounding")
			}
		}
		if f.Kind == "cas" && f.Layout == "v2" {
			onDisk := "compressed"
			if f.Enc == "v1" || f.Enc == "ident-hdr" {
				onDisk = "uncompressed"
			}
			r.Count("gen.cas-v2." + onDisk + "-file-opened-in-" + cs.storage + "-mode")
		}
	}
	for _, j := range cs.pop.Junk {
		if j.IsDir || !strings.Contains(j.Tag, "lost+found") {
			r.Count("gen.junk." + j.Tag)
		}
	}
	r.Count("gen.profile." + cs.pop.Profile)
	r.Count("gen.stamps." + cs.pop.Stamps)
	r.Count("class." + dclass + "." + cs.storage)
	r.Count("class.requested." + cs.maxClass)
	cs.logf("start-up #1: max_size=%d (%s -> %s) storage=%s impl=%s files=%d", cs.max, cs.maxClass, dclass, cs.storage, cs.impl, len(files))

	// ---- start-up under test -------------------------------------------------
	tm = cs.timed("disk.New")
	c, err := cs.open(dir, cs.max, cs.storage, cs.impl)
	tm()
	loadEvents := cs.takeEvents()
	r.CountN("events.lru.removed.during-load", int64(len(loadEvents)))
	if err == errHung {
		return
	}
	if err != nil {
		r.Eval()
		r.Count("startup.error")
		r.Distinct(cs.pop.Profile, bucket(len(files)), hasDup, hasLegacy, dclass, cs.storage, cs.pop.PrevMode, "startup-error")
		tm = cs.timed("isolate")
		feature, how := cs.classify(err)
		tm()
		if strings.HasPrefix(feature, "ds_store@") {
			// not a directory content the statement (or the documentation) promises to tolerate
			r.Count("startup-error.not-judged." + feature)
			cs.logf("start-up error attributed to %s: %v", feature, err)
			return
		}
		cs.violation("startup-error", feature,
			fmt.Sprintf("disk.New failed on a legal directory: %v (isolated feature: %s)", err, feature),
			map[string]any{"error": err.Error(), "isolated_feature": feature, "isolated_by": how})
		return
	}
	r.Count("startup.ok")
	r.Count("startup.ok." + dclass)
	r.Distinct(cs.pop.Profile, bucket(len(files)), hasDup, hasLegacy, dclass, cs.storage, cs.pop.PrevMode, "startup")
	cs.removeJunk(dir)
	tm = cs.timed("judge")
	st := cs.judgeStartup("startup", files, cs.max, c)
	tm()
	if idx < 40 {
		r.Sample(map[string]any{"case": idx, "profile": cs.pop.Profile, "files": len(files), "dup": hasDup, "legacy": hasLegacy,
			"max_size": cs.max, "class": dclass, "storage": cs.storage, "kept": len(st.survKeys), "evicted": len(st.evicted),
			"lru_removed_events_during_load": len(loadEvents), "junk": len(cs.pop.Junk)})
	}
	if !st.ok {
		return
	}
	if planUploads != "none" {
		cs.uploads(rng2, "uploads", c, st, planUploads, cs.storage)
		r.Distinct(cs.pop.Profile, bucket(len(files)), hasDup, hasLegacy, dclass, cs.storage, cs.pop.PrevMode, "uploads-"+planUploads)
	}

	// ---- optional second restart on what the first one (and the uploads) left --
	cur, curMax, curStorage := c, cs.max, cs.storage
	if planRestart2 {
		files2, ok := cs.currentFiles(rng2, cur)
		if ok {
			class2 := weighted(rng2, "larger", 20, "equal", 15, "smaller", 35, "below-largest", 20, "one-block", 10)
			max2 := pickMax(rng2, class2, files2)
			storage2 := lib.Pick(rng2, []string{"zstd", "uncompressed"})
			d2 := derivedClass(files2, max2)
			cs.logf("start-up #2: max_size=%d (%s -> %s) storage=%s files=%d", max2, class2, d2, storage2, len(files2))
			r.Count("restart2.class." + d2 + "." + storage2)
			prevMax, prevClass, prevStorage := cs.max, cs.maxClass, cs.storage
			cs.max, cs.maxClass, cs.storage = max2, class2+"(second restart)", storage2
			c2, err := cs.open(dir, max2, storage2, cs.impl)
			_ = cs.takeEvents()
			if err == errHung {
				return
			}
			if err != nil {
				r.Eval()
				r.Count("restart2.error")
				over := false
				for _, f := range files2 {
					over = over || f.cost() > max2
				}
				feature := "second-restart"
				if over && cs.retryInPlace(dir) {
					feature = "oversized-file"
				}
				cs.violation("startup-error", feature, fmt.Sprintf("second disk.New on the directory left by the first run failed: %v", err),
					map[string]any{"error": err.Error(), "first_max_size": prevMax, "first_class": prevClass, "first_storage": prevStorage})
				return
			}
			r.Count("restart2.ok")
			r.Distinct(cs.pop.Profile, bucket(len(files2)), hasDup, hasLegacy, d2, storage2, prevStorage, "restart2")
			st2 := cs.judgeStartup("restart2", files2, max2, c2)
			if !st2.ok {
				return
			}
			if weighted(rng2, "none", 30, "some", 40, "all", 30) != "none" {
				cs.uploads(rng2, "uploads2", c2, st2, "some", storage2)
			}
			st, cur, curMax, curStorage = st2, c2, max2, storage2
		}
	}
	_ = curMax

	// ---- content reads, only now --------------------------------------------
	tm = cs.timed("reads")
	cs.reads(rng2, cur, st, curStorage, planUploads == "none")
	cs.monitors("final", cur, true)
	tm()
}

// removeJunk deletes the non-entry files the harness planted (they are not
// part of the directory == index comparison) and records what the loader did
// with them.
func (cs *caseState) removeJunk(dir string) {
	for _, j := range cs.pop.Junk {
		full := filepath.Join(dir, j.Rel)
		if j.IsDir {
			if _, err := os.Lstat(full); err == nil {
				cs.r.Count("junk.after-startup.dir-still-there." + j.Tag)
			}
			continue
		}
		if err := os.Remove(full); err == nil {
			cs.r.Count("junk.after-startup.file-still-there." + j.Tag)
		} else {
			cs.r.Count("junk.after-startup.file-gone." + j.Tag)
		}
	}
}

// classify names the input class a start-up error belongs to. The first
// errors of each message pattern are isolated by experiment (isolate); once
// three experiments agreed on the feature, later errors with the same pattern
// on a population that has that feature are attributed to it without
// re-running the experiment.
var (
	isoMu   sync.Mutex
	isoMemo = map[string]*isoEntry{}
	reHash  = regexp.MustCompile(`[0-9a-f]{64}`)
	rePath  = regexp.MustCompile(`/[^ :]*/((?:cas|ac|raw)(?:\.v2)?/)`)
	reSub   = regexp.MustCompile(`/[0-9a-f]{2}/`)
	isoRuns int
)

type isoEntry struct {
	feature string
	agree   int
	mixed   bool
}

func (cs *caseState) hasFeature(ft string) bool {
	if ft == "oversized-file" {
		for _, f := range cs.pop.Files {
			if f.cost() > cs.max {
				return true
			}
		}
		return false
	}
	for _, t := range cs.pop.features() {
		if t == ft {
			return true
		}
	}
	return false
}

func (cs *caseState) classify(err error) (string, string) {
	pat := rePath.ReplaceAllString(reHash.ReplaceAllString(err.Error(), "<hash>"), "<dir>/$1")
	pat = reSub.ReplaceAllString(pat, "/xx/")
	isoMu.Lock()
	m := isoMemo[pat]
	if m != nil && m.agree >= 3 && !m.mixed && cs.hasFeature(m.feature) {
		ft := m.feature
		isoMu.Unlock()
		cs.r.Count("startup-error.classified.by-memo")
		return ft, "three agreeing isolation experiments for the error pattern " + pat
	}
	isoRuns++
	over := isoRuns > 40
	isoMu.Unlock()
	if over {
		// a tree that fails this often is broken anyway; do not spend the run on experiments
		cs.r.Count("startup-error.not-isolated.budget")
		return "not-isolated", "the budget of 40 isolation experiments per run is spent"
	}
	ft := cs.isolate()
	cs.r.Count("startup-error.classified.by-experiment")
	isoMu.Lock()
	if m = isoMemo[pat]; m == nil {
		isoMemo[pat] = &isoEntry{feature: ft, agree: 1}
	} else if m.feature == ft {
		m.agree++
	} else {
		m.mixed = true
	}
	isoMu.Unlock()
	return ft, "experiment: the population rebuilt without the feature (or with unlimited max_size) starts"
}

// isolate names the generator feature a start-up error depends on: the same
// population is rebuilt in another directory without one feature at a time
// (or with an unlimited max_size) and disk.New is tried again.
func (cs *caseState) isolate() string {
	try := func(skip map[string]bool, max int64) bool {
		d := cs.pool.Get()
		defer cs.pool.Put(d)
		if err := materialize(d, cs.pop, skip); err != nil {
			return false
		}
		c, err := cs.open(d, max, cs.storage, cs.impl)
		if err == nil {
			lib.WaitEvictionsDrained(c, 5*time.Second)
		} else {
			waitStable(d)
		}
		return err == nil
	}
	if cs.hasFeature("oversized-file") && try(nil, 1<<40) {
		return "oversized-file"
	}
	for _, ft := range cs.pop.features() {
		if try(map[string]bool{ft: true}, cs.max) {
			return ft
		}
	}
	if try(nil, 1<<40) {
		return "max_size=" + cs.maxClass
	}
	// two causes at once (e.g. an oversized file and another feature)
	for _, ft := range cs.pop.features() {
		if try(map[string]bool{ft: true}, 1<<40) {
			return ft
		}
	}
	return "unclassified"
}

// waitStable waits until two listings 100 ms apart agree (a failed start-up
// may have left a background remover working through its queue).
func waitStable(dir string) {
	prev := ""
	for i := 0; i < 50; i++ {
		l, _ := lib.ListFiles(dir)
		var names []string
		for k := range l {
			names = append(names, k)
		}
		sort.Strings(names)
		s := strings.Join(names, "\n")
		if i > 0 && s == prev {
			return
		}
		prev = s
		time.Sleep(100 * time.Millisecond)
	}
}

func (cs *caseState) retryInPlace(dir string) bool {
	waitStable(dir)
	c, err := cs.open(dir, 1<<40, cs.storage, cs.impl)
	if err == nil {
		lib.WaitEvictionsDrained(c, 5*time.Second)
	}
	return err == nil
}

// uploads first uses some of the entries the start-up loaded (re-Put of a CAS
// survivor with the same content, overwrite of an AC / RAW survivor with new
// bytes, index-only Contains), which makes them the youngest entries, then
// stores fresh blobs through the cache API until the planned share of the
// remembered survivors has been evicted, and judges the order of the
// lru.removed events against the remembered access times: untouched survivors
// go in atime order, and nothing used or stored after the start-up goes while
// an untouched survivor is still cached.
func (cs *caseState) uploads(rng *rand.Rand, ph string, c disk.Cache, st *afterStart, plan, storage string) {
	r := cs.r
	defer cs.timed("uploads")()
	snap := lib.Snapshot(c)
	headroom := snap.MaxSize - snap.CurrentSize
	if headroom > 6*lib.MiB {
		r.Count(ph + ".skipped.too-much-headroom")
		return
	}
	r.Eval()
	ctx := context.Background()
	orig := st.keys // the judge below needs the access times remembered from before the start-up
	nk := make(map[string]*keyInfo, len(orig))
	for k, v := range orig {
		nk[k] = v
	}
	st.keys = nk
	old := map[string]bool{}
	for _, k := range st.survKeys {
		old[k] = true
	}
	limit := snap.MaxSize / 2
	if limit > 3*lib.MiB {
		limit = 3 * lib.MiB
	}
	var seq []string // eviction events and "touch:<key>" markers, in order
	gone := map[string]bool{}
	touched := map[string]bool{}
	oldGone, freshGone := 0, 0
	_ = cs.takeEvents()
	collect := func() int {
		ev := cs.takeEvents()
		for _, k := range ev {
			seq = append(seq, k)
			gone[k] = true
			switch {
			case touched[k]:
				freshGone++
				delete(touched, k)
				r.Count("uploads.touched-key-evicted-later")
			case old[k]:
				oldGone++
			case cs.fresh[k] != nil:
				freshGone++
			}
		}
		return len(ev)
	}

	// ---- use of loaded entries ------------------------------------------------
	if len(st.survKeys) >= 2 && rng.IntN(10) < 7 {
		nTouch := 1 + len(st.survKeys)/5
		if nTouch > 6 {
			nTouch = 6
		}
		perm := rng.Perm(len(st.survKeys))
		for _, pi := range perm[:nTouch] {
			k := st.survKeys[pi]
			if gone[k] || touched[k] {
				continue
			}
			ki := orig[k]
			f0 := ki.files[0]
			kind := entryKind(f0.Kind)
			op := "contains"
			if rng.IntN(4) > 0 {
				op = "reput-cas"
				if f0.Kind != "cas" {
					op = "overwrite-" + f0.Kind
				}
			}
			if op == "contains" {
				ok, _ := c.Contains(ctx, kind, f0.Hash, -1)
				n := collect()
				cs.logf("%s: Contains(%s) = %v -> evicted %d", ph, shortKey(k), ok, n)
				if !ok {
					// the index snapshot taken at start-up said it is cached: M-dir / the reads report real losses
					r.Count(ph + ".touch.contains.not-found")
					continue
				}
				r.Count("uploads.touch.contains.ok")
				touched[k] = true
				seq = append(seq, "touch:"+k)
				continue
			}
			content := f0.Content
			if f0.Kind != "cas" {
				sz := pickSize(rng, f0.Kind)
				if int64(sz) > limit {
					sz = int(limit)
				}
				content = lib.GenBlob(rng, sz, weighted(rng, "random", 60, "text", 20, "zero", 20), fmt.Sprintf("%s-%s-ow-%s", cs.tag, ph, f0.Hash[:8]))
			}
			if lib.RoundUp4k(int64(len(content)))+lib.Block > snap.MaxSize {
				continue // might not fit once stored in the mode of this run
			}
			err := c.Put(ctx, kind, f0.Hash, int64(len(content)), bytes.NewReader(content))
			n := collect()
			cs.logf("%s: %s %s %d bytes -> err=%v evicted %d", ph, op, shortKey(k), len(content), err, n)
			if err != nil {
				r.Count(ph + ".touch." + op + ".err")
				continue
			}
			r.Count("uploads.touch." + op + ".ok")
			// from now on the key is an entry written by this run
			enc := "raw"
			if f0.Kind == "cas" {
				enc = "put-" + storage
			}
			nf := &fileRec{ID: 2000 + len(cs.freshSeq), Kind: f0.Kind, Hash: f0.Hash, Content: content, Writer: "upload", Layout: "v2", Enc: enc, DiskLen: int64(len(content))}
			cs.fresh[k] = nf
			cs.freshSeq = append(cs.freshSeq, nf)
			st.keys[k] = &keyInfo{key: k, files: []*fileRec{nf}, fit: []*fileRec{nf}}
			st.surv[k] = &survivor{rec: nf, size: int64(len(content))}
			touched[k] = true
			seq = append(seq, "touch:"+k)
		}
	}
	var untouched []string
	for _, k := range st.survKeys {
		if !touched[k] && !gone[k] {
			untouched = append(untouched, k)
		}
	}

	// ---- fresh uploads -----------------------------------------------------------
	target := len(untouched)
	extraFresh := 0
	if plan == "some" && target > 0 {
		target = 1 + rng.IntN(target)
	} else {
		extraFresh = 2
	}
	target += oldGone
	var sizes []int
	for _, s := range []int{9, 700, 2000, 4096, 5000, 20000, 70000} {
		if int64(s) <= limit {
			sizes = append(sizes, s)
		}
	}
	for n := 0; n < 14; n++ {
		if oldGone >= target && freshGone >= extraFresh {
			break
		}
		// Bytes that still have to be pushed in to reach the target (every Put
		// has an fsync, so a few large uploads do most of the work; the hook
		// still reports each eviction in order).
		total, _, _, _ := c.Stats()
		need := snap.MaxSize - total
		for i := 0; i < target-oldGone && i < len(untouched); i++ {
			if k := untouched[i]; !gone[k] {
				need += lib.RoundUp4k(st.surv[k].size)
			}
		}
		sz := lib.Pick(rng, sizes)
		if (n >= 2 && rng.IntN(4) > 0) || need > lib.MiB {
			big := need - rng.Int64N(lib.Block)
			if big > limit {
				big = limit
			}
			if big > int64(sz) {
				sz = int(big)
			}
		}
		ck := weighted(rng, "random", 60, "text", 20, "zero", 20)
		b := uniqueBlob(rng, sz, ck, fmt.Sprintf("%s-%s-%d", cs.tag, ph, n))
		sz = len(b)
		f := &fileRec{ID: 1000 + len(cs.freshSeq), Kind: "cas", Hash: lib.Sha256Hex(b), Content: b, Writer: "upload", Layout: "v2", Enc: "put-" + storage}
		hookKeys.Store(f.Key(), cs)
		cs.fresh[f.Key()] = f
		cs.freshSeq = append(cs.freshSeq, f)
		err := c.Put(ctx, cache.CAS, f.Hash, int64(sz), bytes.NewReader(b))
		if err != nil {
			r.Count(ph + ".put.err")
			cs.logf("%s: put %d bytes: %v", ph, sz, err)
		} else {
			r.Count(ph + ".put.ok")
		}
		nEv := collect()
		cs.logf("%s: put #%d %s %d bytes (%s) -> evicted %d", ph, n, shortKey(f.Key()), sz, ck, nEv)
	}
	r.CountN(ph+".evicted.remembered-survivors", int64(oldGone))
	r.CountN(ph+".evicted.fresh-uploads", int64(freshGone))
	if oldGone == 0 {
		r.Count(ph + ".no-eviction-forced")
	}

	// Judge the order.
	remaining := map[string]bool{}
	for k := range old {
		remaining[k] = true
	}
	young := map[string]bool{} // used again after the start-up (and still cached as far as the events say)
	var prev *keyInfo
	reported := false
	for i, k := range seq {
		if strings.HasPrefix(k, "touch:") {
			k = k[len("touch:"):]
			delete(remaining, k)
			young[k] = true
			continue
		}
		switch {
		case young[k]:
			delete(young, k)
			if len(remaining) > 0 && !reported {
				reported = true
				cs.violation(ph, "used-survivor-evicted-before-older-survivor",
					fmt.Sprintf("eviction #%d removed %s, which was used (re-stored or looked up) after the start-up, while %d entries remembered from before the restart and not used since were still cached", i, shortKey(k), len(remaining)),
					map[string]any{"eviction_sequence": shortAll(seq)})
			}
		case old[k]:
			ki := orig[k]
			if !remaining[k] {
				cs.violation(ph, "survivor-evicted-twice", fmt.Sprintf("%s evicted twice", shortKey(k)), map[string]any{"eviction_sequence": seq})
				continue
			}
			delete(remaining, k)
			if prev != nil && prev.oldest > ki.youngest && !reported {
				reported = true
				cs.violation(ph, "later-eviction-not-in-atime-order",
					fmt.Sprintf("eviction #%d removed %s (atime %s) after %s (atime %s)", i, shortKey(k), fmtNs(ki.youngest), shortKey(prev.key), fmtNs(prev.oldest)),
					map[string]any{"eviction_sequence": shortAll(seq)})
			}
			prev = ki
			// nothing older may remain
			if !reported {
				for rk := range remaining {
					o := orig[rk]
					if o.youngest < ki.oldest {
						reported = true
						cs.violation(ph, "later-eviction-not-in-atime-order",
							fmt.Sprintf("eviction #%d removed %s (atime %s) while the older survivor %s (atime %s) was still cached", i, shortKey(k), fmtNs(ki.oldest), shortKey(rk), fmtNs(o.youngest)),
							map[string]any{"eviction_sequence": shortAll(seq)})
						break
					}
				}
			}
		case cs.fresh[k] != nil && len(remaining) > 0 && !reported:
			reported = true
			cs.violation(ph, "fresh-upload-evicted-before-older-survivor",
				fmt.Sprintf("eviction #%d removed the fresh upload %s while %d entries remembered from before the restart were still cached", i, shortKey(k), len(remaining)),
				map[string]any{"eviction_sequence": shortAll(seq)})
		}
	}
	cs.monitors(ph, c, false)
}

func shortAll(keys []string) []string {
	out := make([]string, len(keys))
	for i, k := range keys {
		out[i] = shortKey(k)
	}
	return out
}

// currentFiles lists what the directory holds now (survivors of the first
// start-up with their remembered stamps, plus the uploads, which get fresh
// distinct stamps in random order) as the population of a second restart.
func (cs *caseState) currentFiles(rng *rand.Rand, c disk.Cache) ([]*fileRec, bool) {
	if !lib.WaitEvictionsDrained(c, 10*time.Second) {
		cs.r.Inconclusive(fmt.Sprintf("case %d: eviction backlog did not drain before the second restart", cs.idx))
		return nil, false
	}
	snap := lib.Snapshot(c)
	listing, err := lib.ListFiles(snap.Dir)
	if err != nil {
		return nil, false
	}
	byAtime := map[int64]*fileRec{}
	used := map[int64]bool{}
	for _, f := range cs.pop.Files {
		byAtime[f.Atime] = f
		used[f.Atime] = true
	}
	var out, freshFiles []*fileRec
	var rels []string
	for rel := range listing {
		rels = append(rels, rel)
	}
	sort.Strings(rels)
	for _, rel := range rels {
		pn, err := lib.ParseCacheFileName(rel)
		if err != nil {
			cs.r.Count("restart2.skipped.unparsable-file")
			return nil, false
		}
		if f := cs.fresh[pn.Key()]; f != nil {
			f.Rel, f.DiskLen = rel, listing[rel]
			freshFiles = append(freshFiles, f)
			out = append(out, f)
			continue
		}
		at, _, err := statAtime(filepath.Join(snap.Dir, rel))
		f := byAtime[at]
		if err != nil || f == nil || f.Key() != pn.Key() || f.DiskLen != listing[rel] {
			cs.r.Count("restart2.skipped.unidentified-file")
			return nil, false
		}
		g := *f // the file as it is now: v2 layout, single file of its key
		g.Rel, g.Layout, g.DupIdx = rel, "v2", 0
		out = append(out, &g)
	}
	stamps := genStamps(rng, len(freshFiles), "mixed", used)
	for i, f := range freshFiles {
		f.Atime, f.Mtime = stamps[i], stamps[i]-1
		if err := stamp(filepath.Join(snap.Dir, f.Rel), f); err != nil {
			cs.r.Inconclusive(fmt.Sprintf("case %d: %v", cs.idx, err))
			return nil, false
		}
	}
	return out, true
}

// reads fetches every key the harness knows through the cache API: survivors
// must deliver the remembered content and size, everything else must miss.
// full (cases without an upload phase): every survivor is read with the size
// known and unknown and, for CAS, through GetZstd; otherwise one of the two Get
// forms and GetZstd for half of the CAS survivors. CAS survivors of more than
// one byte are also read from a random offset (Get and GetZstd): the rest of
// the content must come back.
func (cs *caseState) reads(rng *rand.Rand, c disk.Cache, st *afterStart, storage string, full bool) {
	r := cs.r
	r.Eval()
	if full {
		r.Count("reads.full.cases")
	}
	ctx := context.Background()
	snap := lib.Snapshot(c)
	indexed := map[string]bool{}
	for _, e := range snap.Entries {
		indexed[e.Key] = true
	}
	keys := make([]string, 0, len(st.keys))
	for k := range st.keys {
		keys = append(keys, k)
	}
	sort.Strings(keys)
	rng.Shuffle(len(keys), func(i, j int) { keys[i], keys[j] = keys[j], keys[i] })
	for _, k := range keys {
		ki := st.keys[k]
		f0 := ki.files[0]
		kind := entryKind(f0.Kind)
		if !indexed[k] {
			// evicted at start-up, oversized, or evicted by the uploads: must not be served
			if ok, _ := c.Contains(ctx, kind, f0.Hash, -1); ok {
				cs.violation("reads", "removed-entry-still-reported", fmt.Sprintf("%s is not indexed but Contains says present", shortKey(k)), nil)
			}
			r.Count("reads.absent-key.miss-checked")
			continue
		}
		// acceptable contents: the surviving file's (any of the duplicates' for AC/RAW, identical for CAS)
		var accept [][]byte
		for _, f := range ki.files {
			accept = append(accept, f.Content)
		}
		enc := f0.Enc
		if s := st.surv[k]; s != nil {
			enc = s.rec.Enc
		}
		path := fmt.Sprintf("reads.get.%s.%s-in-%s-mode", f0.Kind, enc, storage)
		sizeArgs := []int64{-1}
		if len(accept) == 1 {
			switch {
			case full:
				sizeArgs = []int64{int64(len(accept[0])), -1}
				if rng.IntN(2) == 0 {
					sizeArgs[0], sizeArgs[1] = sizeArgs[1], sizeArgs[0]
				}
			case rng.IntN(2) == 0:
				sizeArgs = []int64{int64(len(accept[0]))}
			}
		}
		var got []byte
		failed := false
		for _, sizeArg := range sizeArgs {
			rc, sz, err := c.Get(ctx, kind, f0.Hash, sizeArg, 0)
			got = nil
			if err == nil && rc != nil {
				got, err = io.ReadAll(rc)
				_ = rc.Close()
			}
			match := -1
			for i, a := range accept {
				if rc != nil && err == nil && bytes.Equal(a, got) {
					match = i
				}
			}
			switch {
			case err != nil || rc == nil:
				r.Count(path + ".FAILED")
				cs.violation("reads", "survivor-unreadable", fmt.Sprintf("Get(%s, size %d) of an indexed survivor failed: rc=%v err=%v", shortKey(k), sizeArg, rc != nil, err), nil)
				failed = true
			case match < 0:
				r.Count(path + ".WRONG")
				cs.violation("reads", "survivor-content-changed", fmt.Sprintf("Get(%s, size %d) returned %d bytes that are not the stored content (%d bytes)", shortKey(k), sizeArg, len(got), len(accept[0])), nil)
				failed = true
			case sz != int64(len(got)):
				r.Count(path + ".WRONGSIZE")
				cs.violation("reads", "survivor-size-changed", fmt.Sprintf("Get(%s, size %d) reported size %d but delivered %d bytes", shortKey(k), sizeArg, sz, len(got)), nil)
				failed = true
			}
			if failed {
				break
			}
			if sizeArg < 0 {
				r.Count("reads.get.size-unknown")
			} else {
				r.Count("reads.get.size-known")
			}
		}
		if failed {
			continue
		}
		r.Count(path + ".ok")
		if s := st.surv[k]; s != nil && s.rec.Writer == "upload" {
			r.Count("reads.get.touched-survivor.ok")
		}
		if s := st.surv[k]; s != nil && !bytes.Equal(s.rec.Content, got) {
			r.Count("reads.dup.content-of-the-other-file")
		}
		if ok, csz := c.Contains(ctx, kind, f0.Hash, int64(len(got))); !ok || csz != int64(len(got)) {
			cs.violation("reads", "survivor-size-changed", fmt.Sprintf("Contains(%s, %d) = %v, %d", shortKey(k), len(got), ok, csz), nil)
		}
		if f0.Kind != "cas" {
			continue
		}
		// reads from an offset: the rest of the content
		off := int64(0)
		if len(got) > 1 && (full || rng.IntN(2) == 0) {
			off = 1 + rng.Int64N(int64(len(got))-1)
			if rng.IntN(4) == 0 {
				off = int64(len(got)) - 1
			}
			rc, _, err := c.Get(ctx, kind, f0.Hash, int64(len(got)), off)
			var part []byte
			if err == nil && rc != nil {
				part, err = io.ReadAll(rc)
				_ = rc.Close()
			}
			switch {
			case err != nil || rc == nil:
				r.Count("reads.get-offset.cas." + enc + "-in-" + storage + "-mode.FAILED")
				cs.violation("reads", "survivor-unreadable-at-offset", fmt.Sprintf("Get(%s, size %d, offset %d) of an indexed survivor failed: rc=%v err=%v", shortKey(k), len(got), off, rc != nil, err), nil)
				continue
			case !bytes.Equal(part, got[off:]):
				r.Count("reads.get-offset.cas." + enc + "-in-" + storage + "-mode.WRONG")
				cs.violation("reads", "survivor-content-changed-at-offset", fmt.Sprintf("Get(%s, size %d, offset %d) returned %d bytes that are not the last %d bytes of the content", shortKey(k), len(got), off, len(part), int64(len(got))-off), nil)
				continue
			}
			r.Count("reads.get-offset.cas." + enc + "-in-" + storage + "-mode.ok")
		}
		if full || rng.IntN(2) == 0 {
			offs := []int64{0}
			if off > 0 {
				offs = append(offs, off)
			}
			for _, o := range offs {
				name := "reads.getzstd."
				if o > 0 {
					name = "reads.getzstd-offset."
				}
				zrc, zsz, err := c.GetZstd(ctx, f0.Hash, int64(len(got)), o)
				if err != nil || zrc == nil {
					cs.violation("reads", "survivor-unreadable", fmt.Sprintf("GetZstd(%s, offset %d) failed: %v", shortKey(k), o, err), nil)
					break
				}
				zb, err := io.ReadAll(zrc)
				_ = zrc.Close()
				var dec []byte
				if err == nil {
					dec, err = lib.ZstdDecodeBoth(zb)
				}
				if err != nil || !bytes.Equal(dec, got[o:]) || (o == 0 && zsz != int64(len(got))) {
					r.Count(name + enc + "-in-" + storage + "-mode.WRONG")
					cs.violation("reads", "survivor-content-changed", fmt.Sprintf("GetZstd(%s, offset %d): err=%v size=%d decoded=%d want %d", shortKey(k), o, err, zsz, len(dec), int64(len(got))-o), nil)
					break
				}
				r.Count(name + enc + "-in-" + storage + "-mode.ok")
			}
		}
	}
	// fresh uploads that are still indexed must read back too
	for _, f := range cs.freshSeq {
		if !indexed[f.Key()] || cs.fresh[f.Key()] != f {
			continue
		}
		rc, _, err := c.Get(ctx, entryKind(f.Kind), f.Hash, int64(len(f.Content)), 0)
		if err != nil || rc == nil {
			cs.violation("reads", "upload-unreadable", fmt.Sprintf("Get of the indexed upload %s failed: %v", shortKey(f.Key()), err), nil)
			continue
		}
		got, _ := io.ReadAll(rc)
		_ = rc.Close()
		if !bytes.Equal(got, f.Content) {
			cs.violation("reads", "upload-content-changed", fmt.Sprintf("upload %s reads back differently", shortKey(f.Key())), nil)
		}
		r.Count("reads.get.fresh-upload.ok")
	}
}

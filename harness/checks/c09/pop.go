package c09

import (
	"bytes"
	"context"
	"fmt"
	"math/rand/v2"
	"os"
	"path/filepath"
	"sort"
	"strings"
	"sync"
	"syscall"
	"time"

	"verif/harness/lib"

	"github.com/buchgr/bazel-remote/v2/cache"
	"github.com/klauspost/compress/zstd"
)

// fileRec is one cache file the harness knows about: where it was put, what
// it holds, and the access time it was stamped with.
type fileRec struct {
	ID      int
	Kind    string // cas | ac | raw
	Hash    string
	Layout  string // v2 | flat | two   (layout it was written in)
	Enc     string // zstd-kp | zstd-c | ident-hdr | v1 | legacy-raw | raw (ac/raw values)
	Writer  string // harness | prevrun (a real disk.Cache of the previous storage mode) | upload
	Rel     string // path relative to the cache dir (before the start-up under test)
	Content []byte // logical content
	Disk    []byte // bytes on disk when written by the harness
	DiskLen int64
	Atime   int64 // stamped access time, ns since epoch
	Mtime   int64
	Tags    []string // generator features this file stands for (used to isolate a failing feature)
	DupIdx  int      // 0 = first file generated for its key
	Level   int      // zstd level used by the harness writer
}

func (f *fileRec) Key() string { return f.Kind + "/" + f.Hash }
func (f *fileRec) cost() int64 { return lib.RoundUp4k(f.DiskLen) }

func (f *fileRec) String() string {
	return fmt.Sprintf("#%d %s/%s.. %s/%s by %s rel=%s logical=%d disk=%d cost=%d atime=%s",
		f.ID, f.Kind, f.Hash[:8], f.Layout, f.Enc, f.Writer, f.Rel, len(f.Content), f.DiskLen, f.cost(), fmtNs(f.Atime))
}

func fmtNs(ns int64) string {
	return time.Unix(0, ns).UTC().Format("2006-01-02T15:04:05.000000000Z")
}

func entryKind(k string) cache.EntryKind {
	switch k {
	case "cas":
		return cache.CAS
	case "ac":
		return cache.AC
	}
	return cache.RAW
}

// junk is a non-entry item a legal directory may contain.
type junk struct {
	Rel   string
	IsDir bool
	Tag   string // lost+found@root | lost+found@kind | lost+found@sub | ds_store@root | ds_store@kind | ds_store@legacy-two | ds_store@legacy-flat
}

type population struct {
	Profile  string // mixed | v2 | v0 | v1
	PrevMode string // storage mode of the "previous release run" that wrote part of the v2 files
	PrevImpl string
	UsePrev  bool
	Stamps   string // access-time spacing profile
	Files    []*fileRec
	Junk     []junk
}

func (p *population) features() []string {
	set := map[string]bool{}
	for _, f := range p.Files {
		for _, t := range f.Tags {
			set[t] = true
		}
	}
	for _, j := range p.Junk {
		set[j.Tag] = true
	}
	var out []string
	for t := range set {
		out = append(out, t)
	}
	sort.Strings(out)
	return out
}

func weighted(rng *rand.Rand, items ...any) string {
	// items: name, weight, name, weight, ...
	total := 0
	for i := 1; i < len(items); i += 2 {
		total += items[i].(int)
	}
	x := rng.IntN(total)
	for i := 0; i < len(items); i += 2 {
		x -= items[i+1].(int)
		if x < 0 {
			return items[i].(string)
		}
	}
	return items[0].(string)
}

func pickCount(rng *rand.Rand) int {
	switch x := rng.IntN(100); {
	case x < 5:
		return 0
	case x < 10:
		return 1
	case x < 15:
		return 2
	case x < 45:
		return 3 + rng.IntN(10)
	case x < 78:
		return 13 + rng.IntN(28)
	default:
		return 41 + rng.IntN(40)
	}
}

func pickSize(rng *rand.Rand, kind string) int {
	if kind != "cas" {
		switch x := rng.IntN(100); {
		case x < 30:
			return 1 + rng.IntN(200)
		case x < 60:
			return 200 + rng.IntN(4000)
		case x < 70:
			return []int{4095, 4096, 4097, 8192}[rng.IntN(4)]
		case x < 95:
			return 4098 + rng.IntN(40000)
		default:
			return 40000 + rng.IntN(100000)
		}
	}
	switch x := rng.IntN(100); {
	case x < 12:
		return minCasSize + rng.IntN(100)
	case x < 25:
		return 100 + rng.IntN(3900)
	case x < 40:
		return []int{4095, 4096, 4097, 8191, 8192, 8193, 12288}[rng.IntN(7)]
	case x < 70:
		return 4098 + rng.IntN(60000)
	case x < 78:
		return []int{64*lib.KiB - 1, 64 * lib.KiB, 64*lib.KiB + 1}[rng.IntN(3)]
	case x < 97:
		return 65538 + rng.IntN(300000)
	case x < 99:
		return lib.MiB + 1 + rng.IntN(200000) // two chunks
	default:
		return 2*lib.MiB + 4097
	}
}

// CAS keys are content hashes, and lru.removed events are routed to cases by
// key, so every CAS blob of a run must be unique across all (concurrent)
// cases. Blobs of a few bytes cannot carry the case tag; they are not used.
const minCasSize = 8

var runKeys sync.Map // "cas/<hash>" -> true, all CAS blobs generated in this process

// uniqueBlob generates content whose CAS key no other blob of this run has.
func uniqueBlob(rng *rand.Rand, size int, kind, tag string) []byte {
	if size < minCasSize {
		size = minCasSize
	}
	for i := 0; ; i++ {
		b := lib.GenBlob(rng, size, kind, fmt.Sprintf("%s.%d", tag, i))
		if _, dup := runKeys.LoadOrStore("cas/"+lib.Sha256Hex(b), true); !dup {
			return b
		}
	}
}

var reservedSuffixes = map[string]bool{"222444666": true, "556677": true, "112233": true}

func pickSuffix(rng *rand.Rand) (string, bool) {
	for {
		var s string
		alnum := false
		switch x := rng.IntN(100); {
		case x < 70:
			s = fmt.Sprintf("%09d", rng.IntN(1_000_000_000))
		case x < 85:
			n := 1 + rng.IntN(12)
			b := make([]byte, n)
			for i := range b {
				b[i] = byte('0' + rng.IntN(10))
			}
			s = string(b)
		default:
			const al = "0123456789abcdefghijklmnopqrstuvwxyzABCDEFGHIJKLMNOPQRSTUVWXYZ"
			n := 4 + rng.IntN(10)
			b := make([]byte, n)
			for i := range b {
				b[i] = al[rng.IntN(len(al))]
			}
			s = string(b)
			alnum = true
		}
		if !reservedSuffixes[s] {
			return s, alnum
		}
	}
}

// klauspost encoders are expensive to create and safe for concurrent
// EncodeAll, so one per level is shared.
var (
	kpOnce [4]sync.Once
	kpEnc  [4]*zstd.Encoder
)

func kpEncode(b []byte, level int) []byte {
	if level < 1 || level > 3 {
		level = 2
	}
	kpOnce[level].Do(func() {
		kpEnc[level], _ = zstd.NewWriter(nil, zstd.WithEncoderLevel(zstd.EncoderLevel(level)), zstd.WithEncoderConcurrency(1))
	})
	return kpEnc[level].EncodeAll(b, nil)
}

func encodeCas(data []byte, enc string, level int) []byte {
	switch enc {
	case "zstd-kp":
		return lib.CasWrite(data, lib.MiB, 1, func(c []byte) []byte { return kpEncode(c, level) })
	case "zstd-c":
		return lib.CasWrite(data, lib.MiB, 1, func(c []byte) []byte { return lib.ZstdEncodeC(c, level) })
	case "ident-hdr":
		return lib.CasWrite(data, lib.MiB, 0, nil)
	}
	return data
}

// place computes Rel/Disk/Tags of a harness-written record from (Kind, Hash, Layout, Enc).
func place(rng *rand.Rand, f *fileRec) {
	f.Tags = nil
	switch f.Layout {
	case "flat":
		f.Rel = filepath.Join(f.Kind, f.Hash)
		f.Disk = f.Content
		f.Tags = append(f.Tags, "legacy-flat")
	case "two":
		f.Rel = filepath.Join(f.Kind, f.Hash[:2], f.Hash)
		f.Disk = f.Content
		f.Tags = append(f.Tags, "legacy-two")
	default:
		suffix, alnum := pickSuffix(rng)
		if alnum {
			f.Tags = append(f.Tags, "alnum-suffix")
		}
		switch {
		case f.Kind != "cas":
			f.Rel = lib.CacheFileName(f.Kind, f.Hash, -1, false, suffix)
			f.Disk = f.Content
		case f.Enc == "v1":
			f.Rel = lib.CacheFileName("cas", f.Hash, -1, true, suffix)
			f.Disk = f.Content
			f.Tags = append(f.Tags, "v1-file")
		default:
			f.Rel = lib.CacheFileName("cas", f.Hash, int64(len(f.Content)), false, suffix)
			f.Disk = encodeCas(f.Content, f.Enc, f.Level)
			if f.Enc == "ident-hdr" {
				f.Tags = append(f.Tags, "ident-hdr")
			}
		}
	}
	f.DiskLen = int64(len(f.Disk))
	if f.DupIdx > 0 {
		f.Tags = append(f.Tags, "dup")
	}
}

func pickLevel(rng *rand.Rand, enc string) int {
	if enc == "zstd-c" {
		return []int{1, 3, 7}[rng.IntN(3)]
	}
	return 1 + rng.IntN(3)
}

// genPopulation builds (in memory) a directory population. Pure function of rng.
//
// ensureAll: a mixed population that holds at least one harness-written CAS
// file of every on-disk format (both compressed writers, identity with header,
// .v1, legacy flat and two-level) and an AC and a RAW entry, so that the cases
// which keep and read everything cover every format by construction.
func genPopulation(rng *rand.Rand, tag string, ensureAll bool) *population {
	p := &population{
		Profile:  weighted(rng, "mixed", 55, "v2", 20, "v0", 10, "v1", 15),
		PrevMode: lib.Pick(rng, []string{"zstd", "uncompressed"}),
		PrevImpl: lib.Pick(rng, []string{"go", "cgo"}),
	}
	if ensureAll {
		p.Profile = "mixed"
	}
	p.UsePrev = (p.Profile == "mixed" || p.Profile == "v2") && rng.IntN(2) == 0
	n := pickCount(rng)
	byKey := map[string][]*fileRec{}
	prevKeys := map[string]bool{}

	newLayout := func() string {
		switch p.Profile {
		case "v0":
			return "flat"
		case "v1":
			return "two"
		case "v2":
			return "v2"
		}
		return weighted(rng, "v2", 55, "flat", 20, "two", 25)
	}
	casEnc := func(layout string) string {
		if layout != "v2" {
			return "legacy-raw"
		}
		if p.Profile == "v2" && rng.IntN(100) < 80 {
			if p.PrevMode == "uncompressed" {
				return "v1"
			}
			return lib.Pick(rng, []string{"zstd-kp", "zstd-c"})
		}
		return weighted(rng, "zstd-kp", 30, "zstd-c", 26, "v1", 30, "ident-hdr", 14)
	}

	for len(p.Files) < n {
		id := len(p.Files)
		// A duplicate file for an existing key?
		if p.Profile == "mixed" && len(p.Files) > 0 && rng.IntN(100) < 14 {
			base := p.Files[rng.IntN(len(p.Files))]
			sibs := byKey[base.Key()]
			if len(sibs) < 3 {
				d := &fileRec{ID: id, Kind: base.Kind, Hash: base.Hash, Writer: "harness", DupIdx: len(sibs)}
				hasFlat, hasTwo := false, false
				for _, s := range sibs {
					hasFlat = hasFlat || s.Layout == "flat"
					hasTwo = hasTwo || s.Layout == "two"
				}
				opts := []string{"v2", "v2"}
				if !hasFlat {
					opts = append(opts, "flat")
				}
				if !hasTwo {
					opts = append(opts, "two")
				}
				d.Layout = lib.Pick(rng, opts)
				if d.Kind == "cas" {
					d.Content = base.Content
					d.Enc = casEnc(d.Layout)
				} else {
					sz := len(base.Content)
					if rng.IntN(5) > 0 {
						sz = pickSize(rng, d.Kind)
					}
					d.Content = lib.GenBlob(rng, sz, lib.Pick(rng, lib.ContentKinds), fmt.Sprintf("%s-d%d", tag, id))
					d.Enc = "raw"
				}
				d.Level = pickLevel(rng, d.Enc)
				place(rng, d)
				p.Files = append(p.Files, d)
				byKey[d.Key()] = append(sibs, d)
				continue
			}
		}
		f := &fileRec{ID: id, Writer: "harness"}
		f.Kind = weighted(rng, "cas", 60, "ac", 25, "raw", 15)
		f.Layout = newLayout()
		ck := weighted(rng, "random", 40, "text", 25, "repetitive", 20, "zero", 15)
		if f.Kind == "cas" {
			f.Content = uniqueBlob(rng, pickSize(rng, f.Kind), ck, fmt.Sprintf("%s-f%d", tag, id))
		} else {
			f.Content = lib.GenBlob(rng, pickSize(rng, f.Kind), ck, fmt.Sprintf("%s-f%d", tag, id))
		}
		if f.Kind == "cas" {
			f.Hash = lib.Sha256Hex(f.Content)
			f.Enc = casEnc(f.Layout)
		} else {
			f.Hash = lib.RandHash(rng)
			f.Enc = "raw"
		}
		f.Level = pickLevel(rng, f.Enc)
		place(rng, f)
		// Written by a real cache instance of the previous storage mode?
		if p.UsePrev && f.Layout == "v2" && rng.IntN(100) < 60 && !prevKeys[f.Key()] {
			ok := f.Kind != "cas" ||
				(p.PrevMode == "zstd" && (f.Enc == "zstd-kp" || f.Enc == "zstd-c")) ||
				(p.PrevMode == "uncompressed" && f.Enc == "v1")
			if ok {
				f.Writer = "prevrun"
				f.Rel, f.Disk, f.DiskLen = "", nil, 0
				f.Tags = []string{"prevrun"}
				if f.Enc == "v1" {
					f.Tags = append(f.Tags, "v1-file")
				}
				prevKeys[f.Key()] = true
			}
		}
		p.Files = append(p.Files, f)
		byKey[f.Key()] = append(byKey[f.Key()], f)
	}

	if ensureAll {
		type want struct{ kind, layout, enc string }
		for _, w := range []want{{"cas", "v2", "zstd-kp"}, {"cas", "v2", "zstd-c"}, {"cas", "v2", "v1"}, {"cas", "v2", "ident-hdr"},
			{"cas", "flat", "legacy-raw"}, {"cas", "two", "legacy-raw"}, {"ac", "v2", "raw"}, {"raw", "v2", "raw"}} {
			have := false
			for _, f := range p.Files {
				have = have || (f.Writer == "harness" && f.DupIdx == 0 && f.Kind == w.kind && f.Layout == w.layout && f.Enc == w.enc)
			}
			if have {
				continue
			}
			id := len(p.Files)
			f := &fileRec{ID: id, Writer: "harness", Kind: w.kind, Layout: w.layout, Enc: w.enc}
			ck := weighted(rng, "random", 40, "text", 25, "repetitive", 20, "zero", 15)
			if f.Kind == "cas" {
				f.Content = uniqueBlob(rng, pickSize(rng, f.Kind), ck, fmt.Sprintf("%s-f%d", tag, id))
				f.Hash = lib.Sha256Hex(f.Content)
			} else {
				f.Content = lib.GenBlob(rng, pickSize(rng, f.Kind), ck, fmt.Sprintf("%s-f%d", tag, id))
				f.Hash = lib.RandHash(rng)
			}
			f.Level = pickLevel(rng, f.Enc)
			place(rng, f)
			p.Files = append(p.Files, f)
			byKey[f.Key()] = append(byKey[f.Key()], f)
		}
	}

	// Non-entry items.
	lf := func(rel, tag string) {
		p.Junk = append(p.Junk, junk{Rel: rel, IsDir: true, Tag: tag})
		if rng.IntN(5) == 0 {
			p.Junk = append(p.Junk, junk{Rel: filepath.Join(rel, fmt.Sprintf("#%d", 100000+rng.IntN(900000))), Tag: tag})
		}
	}
	if rng.IntN(100) < 40 {
		lf("lost+found", "lost+found@root")
	}
	kinds := []string{"ac", "cas", "raw"}
	if p.Profile == "mixed" || p.Profile == "v2" {
		for _, k := range kinds {
			if rng.IntN(100) < 25 {
				lf(filepath.Join(k+".v2", "lost+found"), "lost+found@kind")
			}
		}
		if rng.IntN(100) < 40 {
			for i, m := 0, 1+rng.IntN(3); i < m; i++ {
				sub := fmt.Sprintf("%02x", rng.IntN(256))
				if len(p.Files) > 0 && rng.IntN(2) == 0 {
					sub = p.Files[rng.IntN(len(p.Files))].Hash[:2] // next to real entries
				}
				rel := filepath.Join(lib.Pick(rng, kinds)+".v2", sub, "lost+found")
				dup := false
				for _, j := range p.Junk {
					dup = dup || j.Rel == rel
				}
				if !dup {
					lf(rel, "lost+found@sub")
				}
			}
		}
	}
	dsName := func() string {
		if rng.IntN(10) == 0 {
			return ".ds_store"
		}
		return ".DS_Store"
	}
	if rng.IntN(100) < 20 {
		p.Junk = append(p.Junk, junk{Rel: dsName(), Tag: "ds_store@root"})
	}
	if p.Profile == "mixed" || p.Profile == "v2" {
		for _, k := range kinds {
			if rng.IntN(100) < 10 {
				p.Junk = append(p.Junk, junk{Rel: filepath.Join(k+".v2", dsName()), Tag: "ds_store@kind"})
			}
		}
	}
	seen := map[string]bool{}
	for _, f := range p.Files {
		if f.Layout == "two" && rng.IntN(100) < 12 {
			rel := filepath.Join(f.Kind, f.Hash[:2], dsName())
			if !seen[strings.ToLower(rel)] {
				seen[strings.ToLower(rel)] = true
				p.Junk = append(p.Junk, junk{Rel: rel, Tag: "ds_store@legacy-two"})
			}
		}
		if f.Layout == "flat" && rng.IntN(100) < 6 {
			rel := filepath.Join(f.Kind, dsName())
			if !seen[strings.ToLower(rel)] {
				seen[strings.ToLower(rel)] = true
				p.Junk = append(p.Junk, junk{Rel: rel, Tag: "ds_store@legacy-flat"})
			}
		}
	}

	// Distinct access times (and unrelated modification times).
	p.Stamps = weighted(rng, "tight", 25, "samesec", 15, "wide", 25, "sec", 10, "mixed", 25)
	used := map[int64]bool{}
	at := genStamps(rng, len(p.Files), p.Stamps, used)
	mt := genStamps(rng, len(p.Files), "wide", map[int64]bool{})
	for i, f := range p.Files {
		f.Atime, f.Mtime = at[i], mt[i]
	}
	return p
}

var nsResolution = true // cleared by the probe when the scratch file system only keeps coarse stamps

var stampBase = time.Date(2021, 3, 4, 5, 6, 7, 0, time.UTC).UnixNano()

// genStamps returns n distinct time stamps (ns) in random order.
func genStamps(rng *rand.Rand, n int, mode string, used map[int64]bool) []int64 {
	out := make([]int64, 0, n)
	cur := stampBase + rng.Int64N(1_000_000_000)
	if !nsResolution {
		mode = "coarse"
		cur = stampBase
	}
	for len(out) < n {
		m := mode
		if m == "mixed" {
			m = []string{"tight", "samesec", "wide", "sec"}[rng.IntN(4)]
		}
		var v int64
		switch m {
		case "tight":
			cur += 1 + rng.Int64N(3)
			v = cur
		case "samesec":
			v = stampBase + rng.Int64N(1_000_000_000)
		case "sec":
			v = stampBase + rng.Int64N(400*86400)*1_000_000_000
		case "coarse":
			cur += 2_000_000_000 * (1 + rng.Int64N(1000))
			v = cur
		default:
			v = stampBase + rng.Int64N(400*86400*1_000_000_000)
		}
		if used[v] {
			continue
		}
		used[v] = true
		out = append(out, v)
	}
	rng.Shuffle(len(out), func(i, j int) { out[i], out[j] = out[j], out[i] })
	return out
}

func statAtime(path string) (int64, int64, error) {
	fi, err := os.Lstat(path)
	if err != nil {
		return 0, 0, err
	}
	st, ok := fi.Sys().(*syscall.Stat_t)
	if !ok {
		return 0, 0, fmt.Errorf("no stat_t")
	}
	return st.Atim.Sec*1_000_000_000 + st.Atim.Nsec, fi.Size(), nil
}

// probeNs checks that the scratch file system keeps ns-distinct access times
// set with os.Chtimes.
func probeNs() (bool, error) {
	d := lib.MkTemp("c09probe")
	defer os.RemoveAll(d)
	a, b := filepath.Join(d, "a"), filepath.Join(d, "b")
	for _, p := range []string{a, b} {
		if err := os.WriteFile(p, []byte("x"), 0o644); err != nil {
			return false, err
		}
	}
	t1, t2 := stampBase+123456789, stampBase+123456790
	if err := os.Chtimes(a, time.Unix(0, t1), time.Unix(0, 5)); err != nil {
		return false, err
	}
	if err := os.Chtimes(b, time.Unix(0, t2), time.Unix(0, 7)); err != nil {
		return false, err
	}
	g1, _, err1 := statAtime(a)
	g2, _, err2 := statAtime(b)
	if err1 != nil || err2 != nil {
		return false, fmt.Errorf("%v %v", err1, err2)
	}
	return g1 == t1 && g2 == t2, nil
}

// materialize writes the population into dir, leaving out every item tagged
// with a feature in skip, and stamps the access times last. Nothing is read
// after stamping.
func materialize(dir string, p *population, skip map[string]bool) error {
	skipped := func(tags []string) bool {
		for _, t := range tags {
			if skip[t] {
				return true
			}
		}
		return false
	}
	// 1. entries written by a real cache of the previous storage mode.
	var prev []*fileRec
	for _, f := range p.Files {
		if f.Writer == "prevrun" && !skipped(f.Tags) {
			prev = append(prev, f)
		}
	}
	if len(prev) > 0 {
		c, _, err := lib.NewCache(lib.ServerOpts{Dir: dir, MaxSize: 1 << 40, Storage: p.PrevMode, ZstdImpl: p.PrevImpl})
		if err != nil {
			return fmt.Errorf("previous-run cache: %w", err)
		}
		for _, f := range prev {
			if err := c.Put(context.Background(), entryKind(f.Kind), f.Hash, int64(len(f.Content)), bytes.NewReader(f.Content)); err != nil {
				return fmt.Errorf("previous-run put: %w", err)
			}
			m, _ := filepath.Glob(filepath.Join(dir, f.Kind+".v2", f.Hash[:2], f.Hash+"-*"))
			if len(m) != 1 {
				return fmt.Errorf("previous-run put of %s left %d files", f.Key(), len(m))
			}
			f.Rel, _ = filepath.Rel(dir, m[0])
			fi, err := os.Lstat(m[0])
			if err != nil {
				return err
			}
			f.DiskLen = fi.Size()
		}
	}
	// 2. harness-written entries.
	for _, f := range p.Files {
		if f.Writer != "harness" || skipped(f.Tags) {
			continue
		}
		full := filepath.Join(dir, f.Rel)
		if err := os.MkdirAll(filepath.Dir(full), 0o755); err != nil {
			return err
		}
		if err := os.WriteFile(full, f.Disk, 0o644); err != nil {
			return err
		}
	}
	// 3. non-entry items.
	for _, j := range p.Junk {
		if skip[j.Tag] {
			continue
		}
		full := filepath.Join(dir, j.Rel)
		if j.IsDir {
			if err := os.MkdirAll(full, 0o755); err != nil {
				return err
			}
			continue
		}
		if err := os.MkdirAll(filepath.Dir(full), 0o755); err != nil {
			return err
		}
		if err := os.WriteFile(full, []byte("junk"), 0o644); err != nil {
			return err
		}
	}
	// 4. stamp, then verify by stat only.
	for _, f := range p.Files {
		if skipped(f.Tags) {
			continue
		}
		if err := stamp(filepath.Join(dir, f.Rel), f); err != nil {
			return err
		}
	}
	return nil
}

func stamp(full string, f *fileRec) error {
	if err := os.Chtimes(full, time.Unix(0, f.Atime), time.Unix(0, f.Mtime)); err != nil {
		return err
	}
	got, _, err := statAtime(full)
	if err != nil {
		return err
	}
	if got != f.Atime {
		return fmt.Errorf("stamped atime %d of %s reads back as %d", f.Atime, full, got)
	}
	return nil
}

func present(p *population, skip map[string]bool) []*fileRec {
	var out []*fileRec
	for _, f := range p.Files {
		drop := false
		for _, t := range f.Tags {
			drop = drop || skip[t]
		}
		if !drop {
			out = append(out, f)
		}
	}
	return out
}

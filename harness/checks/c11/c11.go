package c11

import (
	"bytes"
	"encoding/json"
	"fmt"
	"math/rand/v2"
	"os"
	"path/filepath"
	"sort"
	"strconv"
	"strings"
	"sync"

	"verif/harness/lib"

	"github.com/buchgr/bazel-remote/v2/cache"
	pb "github.com/buchgr/bazel-remote/v2/genproto/build/bazel/remote/execution/v2"

	"google.golang.org/grpc"
	"google.golang.org/grpc/codes"
	"google.golang.org/grpc/credentials/insecure"
	"google.golang.org/protobuf/encoding/protojson"
	"google.golang.org/protobuf/encoding/prototext"
	"google.golang.org/protobuf/proto"
	"google.golang.org/protobuf/reflect/protoreflect"
)

func init() { lib.Register("C11", run) }

const (
	// The inlining budget of GetActionResult ("a little less than gRPC's
	// default 4M message limit": 3 MiB) and the default gRPC message limit a
	// reply has to fit in.
	inlineBudget = 3 * lib.MiB
	workers      = 8
)

type encoding int

const (
	encGRPC encoding = iota
	encPB
	encJSON
	encPBZstd
	encJSONZstd
	numEncodings
)

func (e encoding) String() string {
	return [...]string{"grpc", "http-pb", "http-json", "http-pb-zstd", "http-json-zstd"}[e]
}
func (e encoding) isJSON() bool { return e == encJSON || e == encJSONZstd }
func (e encoding) isZstd() bool { return e == encPBZstd || e == encJSONZstd }

// world is one in-process server (validated HTTP handler, RAW HTTP handler, gRPC).
type world struct {
	r      *lib.Run
	srv    *lib.Server
	cfg    string
	rdConn *grpc.ClientConn
	rd     pb.ActionCacheClient // client with gRPC's DEFAULT message limits (4 MiB)
}

func newWorld(r *lib.Run, storage, impl string) (*world, error) {
	srv, err := lib.StartServer(lib.ServerOpts{MaxSize: 64 << 30, Storage: storage, ZstdImpl: impl, RawHTTP: true})
	if err != nil {
		return nil, err
	}
	conn, err := grpc.NewClient(srv.GRPCAddr, grpc.WithTransportCredentials(insecure.NewCredentials()))
	if err != nil {
		srv.Close()
		return nil, err
	}
	return &world{r: r, srv: srv, cfg: storage + "/" + impl, rdConn: conn, rd: pb.NewActionCacheClient(conn)}, nil
}

func (w *world) close() {
	_ = w.rdConn.Close()
	w.srv.Close()
}

// ---------------------------------------------------------------------------
// Case descriptions (pure functions of seed and tier).

type step struct {
	info      *msgInfo
	enc       encoding
	parseFail string // non-empty: the body is made unparsable (HTTP only)
}

type seqCase struct {
	id    string
	key   string
	steps []step
	rng   *rand.Rand
}

func trunc(s string, n int) string {
	if len(s) > n {
		return s[:n] + "…"
	}
	return s
}

// ---------------------------------------------------------------------------
// Encoding of an upload.

type wire struct {
	body   []byte
	hdr    map[string]string
	ref    *pb.ActionResult // what the server is expected to have understood
	descr  string
	jsonOK bool
}

func jsonWithNil(m *pb.ActionResult, opts protojson.MarshalOptions) ([]byte, error) {
	// protojson cannot emit a null list element; build the text by hand:
	// marshal the message without the absent element and put `null` in its place.
	c := proto.Clone(m).(*pb.ActionResult)
	type fix struct {
		field string
		idx   int
	}
	var fixes []fix
	fds := c.ProtoReflect().Descriptor().Fields()
	name := func(pn string) string {
		fd := fds.ByName(protoreflect.Name(pn))
		if opts.UseProtoNames {
			return string(fd.Name())
		}
		return fd.JSONName()
	}
	for i, e := range m.OutputFiles {
		if e == nil {
			fixes = append(fixes, fix{name("output_files"), i})
		}
	}
	for i, e := range m.OutputDirectories {
		if e == nil {
			fixes = append(fixes, fix{name("output_directories"), i})
		}
	}
	//nolint:staticcheck // deprecated fields are part of the message
	for i, e := range m.OutputFileSymlinks {
		if e == nil {
			fixes = append(fixes, fix{name("output_file_symlinks"), i})
		}
	}
	//nolint:staticcheck // deprecated fields are part of the message
	for i, e := range m.OutputDirectorySymlinks {
		if e == nil {
			fixes = append(fixes, fix{name("output_directory_symlinks"), i})
		}
	}
	for i, e := range m.OutputSymlinks {
		if e == nil {
			fixes = append(fixes, fix{name("output_symlinks"), i})
		}
	}
	c.OutputFiles = dropNil(c.OutputFiles)
	c.OutputDirectories = dropNil(c.OutputDirectories)
	//nolint:staticcheck // deprecated fields are part of the message
	c.OutputFileSymlinks = dropNil(c.OutputFileSymlinks)
	//nolint:staticcheck // deprecated fields are part of the message
	c.OutputDirectorySymlinks = dropNil(c.OutputDirectorySymlinks)
	c.OutputSymlinks = dropNil(c.OutputSymlinks)
	b, err := opts.Marshal(c)
	if err != nil || len(fixes) == 0 {
		return b, err
	}
	dec := json.NewDecoder(bytes.NewReader(b))
	dec.UseNumber()
	var top map[string]any
	if err := dec.Decode(&top); err != nil {
		return nil, err
	}
	for _, f := range fixes {
		l, _ := top[f.field].([]any)
		if f.idx > len(l) {
			f.idx = len(l)
		}
		l = append(l[:f.idx:f.idx], append([]any{nil}, l[f.idx:]...)...)
		top[f.field] = l
	}
	return json.Marshal(top)
}

func dropNil[T any](l []*T) []*T {
	var out []*T
	for _, e := range l {
		if e != nil {
			out = append(out, e)
		}
	}
	return out
}

// encode renders the upload on the wire.
func encode(rng *rand.Rand, st step) (wire, error) {
	info, enc := st.info, st.enc
	w := wire{hdr: map[string]string{}, descr: enc.String()}
	var plain []byte
	var err error
	if enc.isJSON() {
		opts := protojson.MarshalOptions{UseProtoNames: rng.IntN(2) == 0, EmitUnpopulated: rng.IntN(4) == 0}
		if rng.IntN(3) == 0 {
			opts.Multiline = true
		}
		plain, err = jsonWithNil(info.m, opts)
		if err != nil {
			return w, fmt.Errorf("protojson.Marshal: %w", err)
		}
		w.hdr["Content-Type"] = "application/json"
		ref := proto.Clone(info.m).(*pb.ActionResult)
		stripUnknown(ref.ProtoReflect())
		w.ref = ref
		w.descr += fmt.Sprintf("(protoNames=%v,unpopulated=%v)", opts.UseProtoNames, opts.EmitUnpopulated)
	} else {
		plain, err = proto.MarshalOptions{Deterministic: rng.IntN(2) == 0}.Marshal(info.m)
		if err != nil {
			return w, fmt.Errorf("proto.Marshal: %w", err)
		}
		if enc != encGRPC && rng.IntN(2) == 0 {
			w.hdr["Content-Type"] = "application/octet-stream"
		}
		w.ref = info.m
	}
	switch st.parseFail {
	case "":
	case "pb-truncated":
		// a length-delimited field (stdout_raw) announcing 100 bytes, 3 present
		plain = append(append([]byte(nil), plain...), 0x2a, 100, 1, 2, 3)
	case "json-syntax":
		plain = bytes.TrimRight(plain, " \n\t")
		plain = plain[:len(plain)-1] // drop the closing brace
	case "zstd-garbage":
	default:
		panic(st.parseFail)
	}
	w.body = plain
	if enc.isZstd() {
		if rng.IntN(2) == 0 {
			w.body = zstdKP(plain, 1+rng.IntN(2))
		} else {
			w.body = lib.ZstdEncodeC(plain, 1+rng.IntN(6))
		}
		if st.parseFail == "zstd-garbage" {
			w.body = append([]byte("not a zstd frame "), plain...)
		}
		w.hdr["Content-Encoding"] = "zstd"
		w.hdr["X-Digest-SizeBytes"] = strconv.Itoa(len(plain))
	}
	return w, nil
}

// ---------------------------------------------------------------------------
// Uploading.

type upOutcome struct {
	accepted bool
	status   string
	infra    string // non-empty: harness/transport trouble (inconclusive, not a verdict)
	env      bool   // refused with a status that blames the server's environment (5xx, Internal, ResourceExhausted, storage text)
}

func (w *world) casPut(b []byte) error {
	d := lib.DigestOf(b)
	ctx, cancel := lib.Ctx()
	defer cancel()
	return w.srv.Cache.Put(ctx, cache.CAS, d.Hash, d.SizeBytes, bytes.NewReader(b))
}

// preUpload stores the blobs a hit depends on (C06), so that a miss can only
// have C11 reasons. Inlined contents are left to the server wherever the
// property says the server has to store them itself.
func (w *world) preUpload(info *msgInfo, enc encoding) error {
	for _, b := range info.blobs {
		if err := w.casPut(b); err != nil {
			return err
		}
	}
	for _, s := range info.slots {
		need := false
		switch s.form {
		case formDigest:
			need = len(s.content) > 0
		case formRawDigest:
			// stdout/stderr digests are dependencies even when the bytes are
			// inlined; gRPC uploads store inlined bytes in the CAS themselves.
			need = s.fileIdx < 0 && enc != encGRPC
		}
		if need {
			if err := w.casPut(s.content); err != nil {
				return err
			}
		}
	}
	return nil
}

func (w *world) upload(key string, st step, wr wire) upOutcome {
	if st.enc == encGRPC {
		ctx, cancel := lib.Ctx()
		defer cancel()
		req := &pb.UpdateActionResultRequest{
			ActionDigest: &pb.Digest{Hash: key, SizeBytes: 42},
			ActionResult: st.info.m, // serialised by the client, never mutated
		}
		_, err := w.srv.AC.UpdateActionResult(ctx, req)
		c := lib.Code(err)
		if c == codes.DeadlineExceeded || c == codes.Unavailable || c == codes.Canceled {
			return upOutcome{infra: "UpdateActionResult: " + err.Error()}
		}
		o := upOutcome{accepted: err == nil, status: c.String()}
		if err != nil {
			o.status += " " + trunc(err.Error(), 120)
			// a refusal that speaks about storage, not about the message
			o.env = c == codes.Internal || c == codes.ResourceExhausted || c == codes.Aborted || (c == codes.Unknown && storageText(err.Error()))
		}
		return o
	}
	res := w.srv.HTTPPut("/ac/"+key, wr.body, wr.hdr)
	if res.Err != nil {
		return upOutcome{infra: "HTTP PUT: " + res.Err.Error()}
	}
	return upOutcome{accepted: res.Status >= 200 && res.Status < 300, env: res.Status >= 500,
		status: fmt.Sprintf("%d %s", res.Status, trunc(strings.TrimSpace(string(res.Body)), 120))}
}

// storageText: an error text that names the storage layer (disk full, file
// size limit, overload) rather than the uploaded message.
func storageText(s string) bool {
	s = strings.ToLower(s)
	for _, w := range []string{"no space", "file too large", "too many open files", "disk", "overload", "reserve", "input/output error", "read-only file system", "tempfile", "temp file", "quota"} {
		if strings.Contains(s, w) {
			return true
		}
	}
	return false
}

// envCode: a gRPC read answered with a code that servers use for their own
// trouble (storage, internal errors), not for "this key has no valid entry".
func envCode(c codes.Code, err error) bool {
	switch c {
	case codes.Internal, codes.Unknown, codes.Aborted, codes.DataLoss:
		return true
	case codes.ResourceExhausted:
		// the client's own message limit is a property of the reply (judged); the server's ResourceExhausted is storage
		return err == nil || !strings.Contains(err.Error(), "received message larger than max")
	}
	return false
}

// ---------------------------------------------------------------------------
// Oracles.

func (w *world) acFiles(key string) []string {
	ents, err := os.ReadDir(filepath.Join(w.srv.Dir, "ac.v2", key[:2]))
	if err != nil {
		return nil
	}
	var out []string
	for _, e := range ents {
		if strings.Contains(e.Name(), key) {
			out = append(out, e.Name())
		}
	}
	return out
}

type vctx struct {
	caseID  string
	key     string
	history []string
}

func (v *vctx) detail(extra map[string]any) map[string]any {
	d := map[string]any{"case": v.caseID, "action_key": v.key, "history": v.history}
	for k, x := range extra {
		d[k] = x
	}
	return d
}

// checkAbsent: a key with no accepted upload must be absent on every read path.
func (w *world) checkAbsent(v *vctx, why string, keyPart string) {
	r := w.r
	probe := func(name string, present bool, what string) {
		r.Eval()
		r.Count("absent-probe." + name)
		if present {
			r.Violation("C11:"+keyPart+":rejected-upload-left-key-present:"+name,
				fmt.Sprintf("after %s the fresh action key answers on %s: %s", why, name, what), v.detail(nil))
		}
	}
	g := w.srv.HTTPGet("/ac/"+v.key, nil)
	probe("http-get", g.Status == 200, fmt.Sprintf("status %d, %d bytes", g.Status, len(g.Body)))
	gj := w.srv.HTTPGet("/ac/"+v.key, map[string]string{"Accept": "application/json"})
	probe("http-get-json", gj.Status == 200, fmt.Sprintf("status %d, %d bytes", gj.Status, len(gj.Body)))
	h := w.srv.HTTPHead("/ac/" + v.key)
	probe("http-head", h.Status == 200, fmt.Sprintf("status %d", h.Status))
	ctx, cancel := lib.Ctx()
	_, err := w.rd.GetActionResult(ctx, &pb.GetActionResultRequest{ActionDigest: &pb.Digest{Hash: v.key, SizeBytes: 42}, InlineStdout: true})
	cancel()
	probe("grpc-get", err == nil, "status OK")
	if err != nil {
		r.Count("absent-probe.grpc-code." + lib.Code(err).String())
	}
	files := w.acFiles(v.key)
	probe("ac.v2-file", len(files) > 0, strings.Join(files, ","))
}

type want int

const (
	wantEither want = iota
	wantInline
	wantDigest
)

type casCheck struct {
	slot    string
	d       *pb.Digest
	content []byte
}

func slotFields(m *pb.ActionResult, s *slot) (raw *[]byte, dg **pb.Digest) {
	switch {
	case s.fileIdx >= 0:
		f := m.OutputFiles[s.fileIdx]
		return &f.Contents, &f.Digest
	case s.name == "stdout":
		return &m.StdoutRaw, &m.StdoutDigest
	default:
		return &m.StderrRaw, &m.StderrDigest
	}
}

// compareHit judges a returned message against the uploaded one after
// normalising exactly the documented differences. It returns the problems,
// the CAS obligations of de-inlined slots, the observed form per slot and
// the number of inlined bytes.
func compareHit(info *msgInfo, ref, got *pb.ActionResult, wants []want) (problems []string, cas []casCheck, forms []string, inlined int, workerFilled bool) {
	a := proto.Clone(ref).(*pb.ActionResult)
	b := proto.Clone(got).(*pb.ActionResult)

	// (a) worker name filled in when absent
	if a.GetExecutionMetadata().GetWorker() == "" && b.GetExecutionMetadata().GetWorker() != "" {
		workerFilled = true
		b.ExecutionMetadata.Worker = ""
		if a.ExecutionMetadata == nil && proto.Size(b.ExecutionMetadata) == 0 {
			b.ExecutionMetadata = nil
		}
	}

	// (b) stdout, stderr, output file contents
	if len(b.OutputFiles) != len(a.OutputFiles) {
		problems = append(problems, fmt.Sprintf("output_files: %d uploaded, %d returned", len(a.OutputFiles), len(b.OutputFiles)))
		return
	}
	for i, s := range info.slots {
		name := s.name
		if s.fileIdx >= 0 {
			name = fmt.Sprintf("output_files[%d]", s.fileIdx)
			if b.OutputFiles[s.fileIdx] == nil {
				problems = append(problems, name+" absent in the reply")
				return
			}
		}
		araw, adg := slotFields(a, s)
		braw, bdg := slotFields(b, s)
		wnt := wantEither
		if i < len(wants) {
			wnt = wants[i]
		}
		C := s.content
		switch {
		case len(C) == 0:
			forms = append(forms, "empty")
			if len(*braw) != 0 {
				problems = append(problems, fmt.Sprintf("%s: %d inlined bytes returned for empty content", name, len(*braw)))
			}
			if !proto.Equal(*adg, *bdg) {
				problems = append(problems, fmt.Sprintf("%s: digest changed from %v to %v", name, *adg, *bdg))
			}
		case len(*braw) > 0:
			forms = append(forms, "inline")
			inlined += len(*braw)
			if !bytes.Equal(*braw, C) {
				problems = append(problems, fmt.Sprintf("%s: inlined bytes differ from the uploaded content (%d vs %d bytes)", name, len(*braw), len(C)))
			}
			if !proto.Equal(*adg, *bdg) {
				problems = append(problems, fmt.Sprintf("%s: digest changed from %v to %v while inlined", name, *adg, *bdg))
			}
			if wnt == wantDigest {
				problems = append(problems, fmt.Sprintf("%s: returned inline although inlining was not requested", name))
			}
		default:
			forms = append(forms, "digest")
			td := lib.DigestOf(C)
			if *bdg == nil {
				problems = append(problems, fmt.Sprintf("%s: content of %d bytes lost (neither inlined nor a digest)", name, len(C)))
			} else if !proto.Equal(*bdg, td) {
				problems = append(problems, fmt.Sprintf("%s: de-inlined digest %v is not the true digest %v", name, *bdg, td))
			} else {
				cas = append(cas, casCheck{name, td, C})
			}
			if wnt == wantInline {
				problems = append(problems, fmt.Sprintf("%s: inlining requested and within budget, but a digest was returned", name))
			}
		}
		*araw, *adg, *braw, *bdg = nil, nil, nil, nil
	}

	// (c) everything else must survive, including unknown fields
	if !proto.Equal(a, b) {
		problems = append(problems, "message differs beyond the documented changes: "+firstDiff(a, b))
	}
	return
}

// firstDiff names the first top-level field (or "unknown fields") that differs.
func firstDiff(a, b *pb.ActionResult) string {
	fds := a.ProtoReflect().Descriptor().Fields()
	for i := 0; i < fds.Len(); i++ {
		fd := fds.Get(i)
		x := proto.Clone(a).(*pb.ActionResult)
		y := proto.Clone(b).(*pb.ActionResult)
		// compare with only this field kept
		for j := 0; j < fds.Len(); j++ {
			if j != i {
				x.ProtoReflect().Clear(fds.Get(j))
				y.ProtoReflect().Clear(fds.Get(j))
			}
		}
		x.ProtoReflect().SetUnknown(nil)
		y.ProtoReflect().SetUnknown(nil)
		if !proto.Equal(x, y) {
			return fmt.Sprintf("field %s: uploaded {%s} returned {%s}", fd.Name(),
				trunc(prototext.MarshalOptions{}.Format(x), 400), trunc(prototext.MarshalOptions{}.Format(y), 400))
		}
	}
	return fmt.Sprintf("top-level unknown fields: uploaded %x returned %x", a.ProtoReflect().GetUnknown(), b.ProtoReflect().GetUnknown())
}

type accepted struct {
	info *msgInfo
	ref  *pb.ActionResult
	enc  encoding
	// verified de-inlined digests (avoid re-reading big blobs)
	casOK map[string]bool
}

func (w *world) checkCAS(v *vctx, acc *accepted, path string, checks []casCheck) {
	r := w.r
	for _, c := range checks {
		if acc.casOK[c.d.Hash] {
			continue
		}
		r.Eval()
		r.Count("cas-check.deinlined")
		g := w.srv.HTTPGet("/cas/"+c.d.Hash, nil)
		ctx, cancel := lib.Ctx()
		miss, err := w.srv.FindMissing(ctx, c.d)
		cancel()
		switch {
		case g.Err != nil || err != nil:
			r.Inconclusive(fmt.Sprintf("CAS probe failed: %v %v", g.Err, err))
		case g.Status != 200 || len(miss) != 0:
			r.Violation("C11:"+path+":deinlined-blob-missing-from-cas:"+slotClass(c.slot),
				fmt.Sprintf("%s returned as digest %s/%d but the CAS does not hold it (GET %d, FindMissing missing=%d)", c.slot, c.d.Hash, c.d.SizeBytes, g.Status, len(miss)),
				v.detail(map[string]any{"upload_encoding": acc.enc.String(), "message": acc.info.id}))
		case !bytes.Equal(g.Body, c.content):
			r.Violation("C11:"+path+":deinlined-blob-wrong-bytes:"+slotClass(c.slot),
				fmt.Sprintf("%s: CAS blob %s holds %d bytes differing from the uploaded %d bytes", c.slot, c.d.Hash, len(g.Body), len(c.content)),
				v.detail(map[string]any{"upload_encoding": acc.enc.String(), "message": acc.info.id}))
		default:
			acc.casOK[c.d.Hash] = true
		}
	}
}

func slotName(s *slot) string {
	if s.fileIdx >= 0 {
		return fmt.Sprintf("output_files[%d]", s.fileIdx)
	}
	return s.name
}

func slotClass(s string) string {
	if strings.HasPrefix(s, "output_files") {
		return "output_file"
	}
	return s
}

func formSig(info *msgInfo) string {
	var parts []string
	nf := map[slotForm]int{}
	for _, s := range info.slots {
		if s.fileIdx < 0 {
			parts = append(parts, s.name+"="+s.form.String())
		} else {
			nf[s.form]++
		}
	}
	parts = append(parts, fmt.Sprintf("files=%dd+%dr", min(nf[formDigest], 2), min(nf[formRawDigest], 2)))
	return strings.Join(parts, ",")
}

// judgeHit handles one successful read of a key whose latest accepted upload is acc.
func (w *world) judgeHit(v *vctx, acc *accepted, path string, got *pb.ActionResult, wants []want, reqDescr string) {
	r := w.r
	problems, cas, forms, inlined, wf := compareHit(acc.info, acc.ref, got, wants)
	r.Count("hit." + path)
	if wf {
		r.Count("worker-filled." + acc.enc.String())
	}
	for i, f := range forms {
		cls := "file"
		if i < 2 {
			cls = acc.info.slots[i].name
		}
		r.Count("slot." + path + "." + cls + "." + acc.info.slots[i].form.String() + "->" + f)
	}
	if strings.HasPrefix(path, "grpc") && inlined > inlineBudget {
		problems = append(problems, fmt.Sprintf("%d bytes inlined, more than the inlining budget of %d", inlined, inlineBudget))
	}
	if len(problems) > 0 {
		// "returned inline although not requested" is what a server does when it
		// could not store the bytes in the CAS (it then keeps them inline on
		// purpose). Ask the storage directly: if the harness's own Put of the
		// same bytes fails as well, the environment is the cause and nothing is judged.
		for _, p := range problems {
			if !strings.Contains(p, "not requested") {
				continue
			}
			for _, s := range acc.info.slots {
				if len(s.content) > 0 && strings.HasPrefix(p, slotName(s)+":") {
					if err := w.casPut(s.content); err != nil {
						r.Inconclusive(fmt.Sprintf("%s on %s kept inline and the CAS refuses the same bytes (%v): storage trouble, not judged", slotName(s), path, err))
						return
					}
				}
			}
		}
		cls := "message-differs"
		for _, p := range problems {
			switch {
			case strings.Contains(p, "budget of"):
				cls = "inline-budget-exceeded"
			case strings.Contains(p, "within budget") || strings.Contains(p, "not requested"):
				cls = "inline-request-not-honoured"
			case strings.Contains(p, "true digest"):
				cls = "deinlined-under-wrong-digest"
			}
		}
		r.Violation("C11:"+path+":"+cls+":uploaded-via-"+acc.enc.String(),
			fmt.Sprintf("hit on %s (%s) is not the latest accepted upload %s: %s", path, reqDescr, acc.info.id, strings.Join(problems, "; ")),
			v.detail(map[string]any{"upload_encoding": acc.enc.String(), "message": acc.info.id, "request": reqDescr, "problems": problems,
				"uploaded": trunc(prototext.Format(acc.ref), 3000), "returned": trunc(prototext.Format(got), 3000)}))
	}
	w.checkCAS(v, acc, path, cas)
}

func (w *world) miss(v *vctx, acc *accepted, path, what string) {
	w.r.Violation("C11:"+path+":miss-after-accepted-upload:uploaded-via-"+acc.enc.String(),
		fmt.Sprintf("key with accepted upload %s (all referenced blobs present) is not served on %s: %s", acc.info.id, path, what),
		v.detail(map[string]any{"upload_encoding": acc.enc.String(), "message": acc.info.id, "uploaded": trunc(prototext.Format(acc.ref), 3000)}))
}

type inlineReq struct {
	stdout, stderr bool
	files          string // "none" | "all" | "some"
}

func (q inlineReq) String() string {
	return fmt.Sprintf("inline_stdout=%v,inline_stderr=%v,inline_output_files=%s", q.stdout, q.stderr, q.files)
}

// checkPresent reads the key on every path and judges the hits.
func (w *world) checkPresent(v *vctx, acc *accepted, rng *rand.Rand, full bool) {
	r := w.r
	info := acc.info
	sig := formSig(info)

	// HTTP GET protobuf
	var pbView *pb.ActionResult
	g := w.srv.HTTPGet("/ac/"+v.key, nil)
	r.Eval()
	r.Distinct("read", w.cfg, acc.enc, "http-get", sig)
	switch {
	case g.Err != nil || g.BodyErr != nil:
		r.Inconclusive(fmt.Sprintf("HTTP GET failed: %v %v", g.Err, g.BodyErr))
	case g.Status >= 500:
		r.Inconclusive(fmt.Sprintf("HTTP GET answered %d %s: server-side trouble, not judged", g.Status, trunc(string(g.Body), 100)))
	case g.Status != 200:
		w.miss(v, acc, "http-get", fmt.Sprintf("status %d %s", g.Status, trunc(string(g.Body), 100)))
	default:
		m := &pb.ActionResult{}
		if err := proto.Unmarshal(g.Body, m); err != nil {
			r.Violation("C11:http-get:body-does-not-parse:uploaded-via-"+acc.enc.String(), "HTTP GET body is not an ActionResult: "+err.Error(), v.detail(nil))
		} else {
			pbView = m
			if why := wellFormed(m); why != "" {
				r.Violation("C11:http-get:served-ill-formed:uploaded-via-"+acc.enc.String(), "served message is ill formed: "+why, v.detail(nil))
			}
			w.judgeHit(v, acc, "http-get", m, nil, "GET /ac")
		}
	}

	// What is stored under the key (ac.v2 holds the serialised message as is)
	// must itself parse, validate and equal the upload.
	if files := w.acFiles(v.key); len(files) == 1 {
		r.Eval()
		b, err := os.ReadFile(filepath.Join(w.srv.Dir, "ac.v2", v.key[:2], files[0]))
		m := &pb.ActionResult{}
		switch {
		case err != nil:
			r.Count("disk-view.unreadable")
		case proto.Unmarshal(b, m) != nil:
			r.Violation("C11:disk:stored-entry-does-not-parse:uploaded-via-"+acc.enc.String(), "the file stored under the action key is not an ActionResult", v.detail(map[string]any{"file": files[0]}))
		case wellFormed(m) != "":
			r.Violation("C11:disk:stored-entry-ill-formed:uploaded-via-"+acc.enc.String(), "the stored entry is ill formed: "+wellFormed(m), v.detail(map[string]any{"file": files[0]}))
		default:
			w.judgeHit(v, acc, "disk", m, nil, "file "+files[0])
		}
	} else {
		r.Count(fmt.Sprintf("disk-view.files-%d", len(files)))
	}

	// HTTP HEAD
	h := w.srv.HTTPHead("/ac/" + v.key)
	r.Eval()
	switch {
	case h.Err != nil:
		r.Count("http-head.transport-error")
	case h.Status >= 500:
		r.Inconclusive(fmt.Sprintf("HTTP HEAD answered %d: server-side trouble, not judged", h.Status))
	case h.Status != 200:
		w.miss(v, acc, "http-head", fmt.Sprintf("status %d", h.Status))
	default:
		r.Count("hit.http-head")
	}

	// HTTP GET JSON: must agree with the protobuf view
	gj := w.srv.HTTPGet("/ac/"+v.key, map[string]string{"Accept": "application/json"})
	r.Eval()
	r.Distinct("read", w.cfg, acc.enc, "http-get-json", sig, info.jsonable)
	switch {
	case gj.Err != nil || gj.BodyErr != nil:
		r.Inconclusive(fmt.Sprintf("HTTP GET json failed: %v %v", gj.Err, gj.BodyErr))
	case !info.jsonable:
		// Values without a proto3-JSON representation (out-of-range timestamps,
		// unresolvable Any): no JSON view can exist; observation only.
		r.Count(fmt.Sprintf("json-get.unrepresentable.status-%d.body-%v", gj.Status, len(gj.Body) > 0))
		if gj.Status == 200 && len(gj.Body) > 0 && pbView != nil {
			jm := &pb.ActionResult{}
			if err := protojson.Unmarshal(gj.Body, jm); err == nil {
				want := proto.Clone(pbView).(*pb.ActionResult)
				stripUnknown(want.ProtoReflect())
				if proto.Equal(jm, want) {
					r.Count("json-get.unrepresentable.agrees-anyway")
				}
			}
		}
	case gj.Status >= 500:
		r.Inconclusive(fmt.Sprintf("HTTP GET json answered %d %s: server-side trouble, not judged", gj.Status, trunc(string(gj.Body), 100)))
	case gj.Status != 200:
		w.miss(v, acc, "http-get-json", fmt.Sprintf("status %d %s", gj.Status, trunc(string(gj.Body), 100)))
	default:
		jm := &pb.ActionResult{}
		if err := protojson.Unmarshal(gj.Body, jm); err != nil {
			r.Violation("C11:http-get-json:body-does-not-parse:uploaded-via-"+acc.enc.String(),
				fmt.Sprintf("JSON view (%d bytes, Content-Type %q) does not parse: %v", len(gj.Body), gj.Header.Get("Content-Type"), err),
				v.detail(map[string]any{"body": trunc(string(gj.Body), 2000), "message": info.id}))
		} else if pbView != nil {
			want := proto.Clone(pbView).(*pb.ActionResult)
			stripUnknown(want.ProtoReflect()) // proto3 JSON cannot carry unknown fields
			r.Count("hit.http-get-json")
			if !proto.Equal(jm, want) {
				r.Violation("C11:http-get-json:json-view-differs-from-protobuf-view:uploaded-via-"+acc.enc.String(),
					"JSON and protobuf views of the same key differ: "+firstDiff(want, jm),
					v.detail(map[string]any{"json": trunc(string(gj.Body), 3000), "protobuf": trunc(prototext.Format(pbView), 3000), "message": info.id}))
			}
			if ct := gj.Header.Get("Content-Type"); ct != "application/json" {
				r.Count("json-get.content-type-other")
			}
		}
	}

	// gRPC GetActionResult with inline-request combinations
	var reqs []inlineReq
	for _, so := range []bool{false, true} {
		for _, se := range []bool{false, true} {
			for _, f := range []string{"none", "all"} {
				reqs = append(reqs, inlineReq{so, se, f})
			}
		}
	}
	reqs = append(reqs, inlineReq{rng.IntN(2) == 0, rng.IntN(2) == 0, "some"}, inlineReq{rng.IntN(2) == 0, rng.IntN(2) == 0, "some"})
	switch {
	case info.big:
		// large messages: everything / nothing requested, the three pairs, one random subset
		reqs = []inlineReq{{true, true, "all"}, {false, false, "none"}, {true, false, "all"}, {false, true, "all"}, {true, true, "none"}, reqs[8]}
	case !full:
		rng.Shuffle(len(reqs), func(i, j int) { reqs[i], reqs[j] = reqs[j], reqs[i] })
		reqs = reqs[:2]
	}
	for _, q := range reqs {
		w.grpcRead(v, acc, rng, q, sig)
	}
}

func (w *world) grpcRead(v *vctx, acc *accepted, rng *rand.Rand, q inlineReq, sig string) {
	r := w.r
	info := acc.info
	req := &pb.GetActionResultRequest{ActionDigest: &pb.Digest{Hash: v.key, SizeBytes: int64(1 + rng.IntN(5000))}, InlineStdout: q.stdout, InlineStderr: q.stderr}
	requested := make([]bool, len(info.slots))
	for i, s := range info.slots {
		switch {
		case s.name == "stdout":
			requested[i] = q.stdout
		case s.name == "stderr":
			requested[i] = q.stderr
		default:
			requested[i] = q.files == "all" || (q.files == "some" && rng.IntN(2) == 0)
			if requested[i] {
				req.InlineOutputFiles = append(req.InlineOutputFiles, s.path)
			}
		}
	}
	if q.files != "none" && rng.IntN(2) == 0 {
		req.InlineOutputFiles = append(req.InlineOutputFiles, "no/such/output") // a path the result does not have
	}
	rng.Shuffle(len(req.InlineOutputFiles), func(i, j int) {
		req.InlineOutputFiles[i], req.InlineOutputFiles[j] = req.InlineOutputFiles[j], req.InlineOutputFiles[i]
	})
	sum := 0
	for i, s := range info.slots {
		if requested[i] {
			sum += len(s.content)
		}
	}
	wants := make([]want, len(info.slots))
	for i := range info.slots {
		switch {
		case !requested[i]:
			wants[i] = wantDigest
		case sum <= inlineBudget:
			wants[i] = wantInline
		default:
			wants[i] = wantEither
		}
	}
	budgetClass := "within-budget"
	if sum > inlineBudget {
		budgetClass = "over-budget"
	}
	r.Eval()
	r.Distinct("read", w.cfg, acc.enc, "grpc-get", q.String(), sig, budgetClass)
	r.Count("grpc-get." + budgetClass)
	ctx, cancel := lib.Ctx()
	got, err := w.rd.GetActionResult(ctx, req)
	cancel()
	descr := fmt.Sprintf("GetActionResult{%s paths=%q requested-bytes=%d}", q, req.InlineOutputFiles, sum)
	switch c := lib.Code(err); c {
	case codes.OK:
		if why := wellFormed(got); why != "" {
			r.Violation("C11:grpc-get:served-ill-formed:uploaded-via-"+acc.enc.String(), "served message is ill formed: "+why, v.detail(nil))
		}
		w.judgeHit(v, acc, "grpc-get", got, wants, descr)
	case codes.DeadlineExceeded, codes.Unavailable, codes.Canceled:
		r.Inconclusive("GetActionResult: " + err.Error())
	default:
		if envCode(c, err) {
			r.Inconclusive(fmt.Sprintf("GetActionResult answered %v for a key with an accepted upload: server-side trouble, not judged", err))
			return
		}
		cls := "miss-after-accepted-upload"
		if c == codes.ResourceExhausted {
			cls = "reply-exceeds-grpc-message-limit"
		}
		r.Violation("C11:grpc-get:"+cls+":uploaded-via-"+acc.enc.String(),
			fmt.Sprintf("key with accepted upload %s (all referenced blobs present) is not served by %s: %v", info.id, descr, err),
			v.detail(map[string]any{"upload_encoding": acc.enc.String(), "message": info.id, "request": descr, "slots": slotSummary(info)}))
	}
}

func slotSummary(info *msgInfo) []string {
	var out []string
	for _, s := range info.slots {
		n := s.name
		if s.fileIdx >= 0 {
			n = fmt.Sprintf("file[%d] %q", s.fileIdx, s.path)
		}
		out = append(out, fmt.Sprintf("%s form=%s bytes=%d", n, s.form, len(s.content)))
	}
	return out
}

// ---------------------------------------------------------------------------
// Sequences of uploads to one key.

func (w *world) runSeq(c *seqCase) {
	r := w.r
	v := &vctx{caseID: c.id, key: c.key}
	var cur *accepted
	for i, st := range c.steps {
		info := st.info
		kind := "well-formed"
		if info.ill != "" {
			kind = info.ill
		}
		if st.parseFail != "" {
			kind = "unparsable:" + st.parseFail
		}
		expectAccept := info.ill == "" && st.parseFail == ""
		wr, err := encode(c.rng, st)
		if err != nil {
			r.Inconclusive(fmt.Sprintf("cannot encode %s as %s: %v", info.id, st.enc, err))
			return
		}
		if expectAccept {
			if err := w.preUpload(info, st.enc); err != nil {
				r.Inconclusive("CAS pre-upload failed: " + err.Error())
				return
			}
		}
		prev := "fresh"
		if cur != nil {
			prev = "after-accepted"
		} else if i > 0 {
			prev = "after-rejected"
		}
		out := w.upload(c.key, st, wr)
		v.history = append(v.history, fmt.Sprintf("#%d upload %s [%s] via %s -> accepted=%v %s", i, info.id, kind, wr.descr, out.accepted, out.status))
		if out.infra != "" {
			r.Inconclusive(out.infra)
			return
		}
		r.Eval()
		r.Distinct("upload", w.cfg, st.enc, kind, prev, info.jsonable, info.unknown)
		res := "rejected"
		if out.accepted {
			res = "accepted"
		}
		switch {
		case info.ill != "":
			r.Count("ill." + info.ill + "." + res)
			r.Count("upload." + st.enc.String() + ".ill-formed." + res)
		case st.parseFail != "":
			r.Count("upload." + st.enc.String() + ".unparsable-" + st.parseFail + "." + res)
		default:
			r.Count("upload." + st.enc.String() + ".well-formed." + res)
		}
		r.Sample(map[string]any{"case": c.id, "step": i, "message": info.id, "kind": kind, "encoding": wr.descr, "status": out.status, "config": w.cfg, "slots": slotSummary(info)})

		if !out.accepted && expectAccept && out.env {
			// 5xx / Internal / ResourceExhausted / storage text: the server blames its environment (disk full, file size
			// limit), not the message; the statement does not oblige a server to accept under those conditions
			r.Count("upload." + st.enc.String() + ".well-formed.refused-by-environment")
			r.Inconclusive(fmt.Sprintf("upload via %s of a well-formed message was refused with %s: server-side trouble, not judged", wr.descr, out.status))
			return
		}
		if out.accepted != expectAccept {
			if out.accepted {
				r.Violation("C11:"+st.enc.String()+":"+kind+":ill-formed-upload-accepted",
					fmt.Sprintf("upload via %s of a message whose only defect is [%s] was accepted (%s)", wr.descr, kind, out.status),
					v.detail(map[string]any{"message": trunc(prototext.Format(info.m), 3000), "body_hex_prefix": fmt.Sprintf("%x", wr.body[:min(len(wr.body), 256)]), "config": w.cfg}))
			} else {
				r.Violation("C11:"+st.enc.String()+":well-formed-upload-rejected",
					fmt.Sprintf("upload via %s of a well-formed message was rejected (%s)", wr.descr, out.status),
					v.detail(map[string]any{"message": trunc(prototext.Format(info.m), 3000), "config": w.cfg}))
			}
			return // the state of the key is no longer defined by the reference map
		}
		if out.accepted {
			cur = &accepted{info: info, ref: wr.ref, enc: st.enc, casOK: map[string]bool{}}
		}
		last := i == len(c.steps)-1
		if cur == nil {
			r.Count("post-state.rejected." + prev)
			w.checkAbsent(v, fmt.Sprintf("the rejected upload [%s] via %s", kind, st.enc), st.enc.String()+":"+kind)
		} else {
			if !out.accepted {
				r.Count("post-state.rejected.previous-must-survive")
			} else if prev == "after-accepted" {
				r.Count("post-state.accepted.overwrites-previous")
			}
			w.checkPresent(v, cur, c.rng, last || c.rng.IntN(3) == 0)
		}
	}
}

// ---------------------------------------------------------------------------
// Inlined contents contradicting their digest (observation; only the C01
// obligation "error => claimed digest absent" is enforced).

func (w *world) runContra(c *seqCase) {
	r := w.r
	st := c.steps[0]
	info := st.info
	v := &vctx{caseID: c.id, key: c.key}
	wr, err := encode(c.rng, st)
	if err != nil {
		r.Inconclusive("encode: " + err.Error())
		return
	}
	// every consistent dependency is present
	for _, b := range info.blobs {
		if err := w.casPut(b); err != nil {
			r.Inconclusive("CAS pre-upload failed: " + err.Error())
			return
		}
	}
	for _, s := range info.slots {
		if s.form == formDigest && len(s.content) > 0 {
			_ = w.casPut(s.content)
		}
	}
	out := w.upload(c.key, st, wr)
	if out.infra != "" {
		r.Inconclusive(out.infra)
		return
	}
	res := "rejected"
	if out.accepted {
		res = "accepted"
	}
	r.Eval()
	r.Distinct("contradiction", w.cfg, st.enc, info.contra)
	r.Count("contradiction." + st.enc.String() + "." + res)
	v.history = append(v.history, fmt.Sprintf("upload %s [inlined contents contradict digest: %s] via %s -> %s", info.id, info.contra, wr.descr, out.status))
	ctx, cancel := lib.Ctx()
	miss, ferr := w.srv.FindMissing(ctx, info.contraD)
	cancel()
	if ferr != nil {
		r.Inconclusive("FindMissingBlobs: " + ferr.Error())
		return
	}
	present := len(miss) == 0
	if strings.HasPrefix(info.contra, "fresh-hash") {
		h := w.srv.HTTPHead("/cas/" + info.contraD.Hash)
		present = present || h.Status == 200
	}
	if !out.accepted && present {
		r.Violation("C11:"+st.enc.String()+":contradicting-inline:error-but-claimed-digest-present",
			fmt.Sprintf("upload answered with an error (%s) yet the CAS now holds the claimed digest %s/%d whose bytes were never supplied", out.status, info.contraD.Hash, info.contraD.SizeBytes),
			v.detail(nil))
	}
	if present {
		r.Count("contradiction." + st.enc.String() + "." + res + ".claimed-digest-present")
	}
	// observation: does the action key answer afterwards?
	g := w.srv.HTTPGet("/ac/"+c.key, nil)
	r.Count(fmt.Sprintf("contradiction.%s.%s.ac-get-%d", st.enc, res, g.Status))
}

// ---------------------------------------------------------------------------
// RAW key space (validation disabled): byte-identical echo.

type rawCase struct {
	id    string
	key   string
	rng   *rand.Rand
	steps []rawStep
}
type rawStep struct {
	kind string
	data []byte
	zstd bool
}

func (w *world) rawDo(method, key string, body []byte, hdr map[string]string) lib.HTTPResult {
	return w.srv.HTTPDo(method, w.srv.RawURL+"/ac/"+key, body, hdr)
}

func (w *world) runRaw(c *rawCase) {
	r := w.r
	v := &vctx{caseID: c.id, key: c.key}
	var cur []byte
	for i, st := range c.steps {
		hdr := map[string]string{}
		body := st.data
		if st.zstd {
			body = zstdKP(st.data, 1+c.rng.IntN(2))
			hdr["Content-Encoding"] = "zstd"
			hdr["X-Digest-SizeBytes"] = strconv.Itoa(len(st.data))
		}
		if c.rng.IntN(3) == 0 {
			hdr["Content-Type"] = "application/json"
		}
		p := w.rawDo("PUT", c.key, body, hdr)
		if p.Err != nil {
			r.Inconclusive("RAW PUT: " + p.Err.Error())
			return
		}
		ok := p.Status >= 200 && p.Status < 300
		enc := "identity"
		if st.zstd {
			enc = "zstd"
		}
		v.history = append(v.history, fmt.Sprintf("#%d RAW PUT %s %d bytes (%s) -> %d", i, st.kind, len(st.data), enc, p.Status))
		r.Eval()
		r.Distinct("raw", w.cfg, st.kind, enc, i > 0)
		r.Count(fmt.Sprintf("raw.put.%s.%s.%d", st.kind, enc, p.Status))
		if len(st.data) == 0 {
			// An empty value is a boundary the statement does not speak about: only
			// "accepted => echoed" is judged.
			if !ok {
				continue
			}
		} else if !ok {
			// the statement does not say that every RAW upload has to be accepted: observation (raw.put.<kind>.<enc>.<status>)
			r.Count("raw.put-refused." + enc)
			return
		}
		cur = st.data
		hdrG := map[string]string{}
		if c.rng.IntN(2) == 0 {
			hdrG["Accept"] = "application/json"
		}
		g := w.rawDo("GET", c.key, nil, hdrG)
		r.Eval()
		switch {
		case g.Err != nil || g.BodyErr != nil:
			r.Inconclusive(fmt.Sprintf("RAW GET: %v %v", g.Err, g.BodyErr))
		case len(cur) == 0 && g.Status == 404:
			r.Count("raw.get.empty-value-404")
		case g.Status >= 500:
			r.Inconclusive(fmt.Sprintf("RAW GET answered %d: server-side trouble, not judged", g.Status))
		case g.Status != 200:
			r.Violation("C11:raw:"+enc+":miss-after-put", fmt.Sprintf("validation disabled: GET after accepted PUT answers %d", g.Status), v.detail(nil))
		case !bytes.Equal(g.Body, cur):
			r.Violation("C11:raw:"+enc+":echo-differs", fmt.Sprintf("validation disabled: GET returns %d bytes differing from the %d bytes of the latest PUT (%s)", len(g.Body), len(cur), st.kind), v.detail(nil))
		default:
			r.Count("raw.get.identical")
		}
		h := w.rawDo("HEAD", c.key, nil, nil)
		r.Eval()
		switch {
		case h.Err != nil:
		case len(cur) == 0 && h.Status == 404:
		// HEAD and its Content-Length are not mentioned by the statement: observations
		case h.Status != 200:
			r.Count(fmt.Sprintf("raw.head.status-%d-after-put", h.Status))
		case h.Header.Get("Content-Length") != strconv.Itoa(len(cur)):
			r.Count("raw.head.content-length-differs")
		default:
			r.Count("raw.head.ok")
		}
	}
}

// ---------------------------------------------------------------------------
// Case list.

type plan struct {
	seqs   []*seqCase
	bigs   []*seqCase
	contra []*seqCase
	raws   []*rawCase
	stats  map[string]int
}

func freshKey(rng *rand.Rand) string { return lib.RandHash(rng) }

func buildPlan(r *lib.Run) *plan {
	p := &plan{stats: map[string]int{}}
	rng := r.Rng("plan")
	nMsgs := r.N(520, 10000)

	// --- message specs: ill-formed kinds x encodings (stratified), parse failures, well-formed
	type spec struct {
		ill       *illKind
		parseFail string
		enc       encoding
	}
	var specs []spec
	ills := allIllKinds()
	for rep := 0; len(specs) < nMsgs*45/100; rep++ {
		for i := range ills {
			for e := encoding(0); e < numEncodings; e++ {
				specs = append(specs, spec{ill: &ills[i], enc: e})
			}
		}
	}
	for rep := 0; rep < r.N(2, 20); rep++ {
		specs = append(specs,
			spec{parseFail: "pb-truncated", enc: encPB}, spec{parseFail: "pb-truncated", enc: encPBZstd},
			spec{parseFail: "json-syntax", enc: encJSON}, spec{parseFail: "json-syntax", enc: encJSONZstd},
			spec{parseFail: "zstd-garbage", enc: encPBZstd}, spec{parseFail: "zstd-garbage", enc: encJSONZstd})
	}
	for i := 0; len(specs) < nMsgs; i++ {
		specs = append(specs, spec{enc: encoding(i % int(numEncodings))})
	}
	rng.Shuffle(len(specs), func(i, j int) { specs[i], specs[j] = specs[j], specs[i] })

	kindsSeen := map[string]int{}
	nFields, nUnknown := 0, 0
	mk := func(id string, sp spec, crng *rand.Rand) step {
		o := genOpts{jsonable: sp.enc.isJSON() || crng.IntN(2) == 0, unknown: crng.IntN(2) == 0}
		if sp.ill != nil {
			o = optsFor(*sp.ill, o)
		}
		info, g := genMessage(crng, id, o)
		for k, n := range g.kinds {
			kindsSeen[k] += n
		}
		nFields += g.nFields
		nUnknown += g.nUnknown
		if sp.ill != nil {
			applyIll(crng, info, *sp.ill)
		}
		return step{info: info, enc: sp.enc, parseFail: sp.parseFail}
	}
	for i, n := 0, 0; i < len(specs); n++ {
		crng := r.Rng(fmt.Sprintf("seq/%d", n))
		l := 1 + crng.IntN(5)
		if i+l > len(specs) {
			l = len(specs) - i
		}
		c := &seqCase{id: fmt.Sprintf("seq%d", n), key: freshKey(crng), rng: crng}
		for j := 0; j < l; j++ {
			c.steps = append(c.steps, mk(fmt.Sprintf("seq%d.m%d", n, j), specs[i+j], crng))
		}
		i += l
		p.seqs = append(p.seqs, c)
	}

	// --- inlining-budget cases
	M := lib.MiB
	bigSizes := [][]int{
		// stdout, stderr, files...
		{2 * M, 0, 2 * M},                     // already-inlined + requested blob exceed the budget
		{M, 0, 2 * M},                         // exactly the budget
		{M, 1, 2 * M},                         // one byte over
		{2*M + 200000, 2*M + 200000},          // two large inlined streams
		{0, 2 * M, 700000, 700000},            // files after stderr
		{3*M + 1, 10},                         // a single content over the budget
		{3 * M, 0},                            // a single content of exactly the budget
		{1200000, 1200000, 1200000},           // three that fit pairwise only
		{100, 100, 1600000, 1600000, 1600000}, // many files
		{1500000, 1500000, 100, 100000},
	}
	nBig := r.N(20, 300)
	for n := 0; n < nBig; n++ {
		crng := r.Rng(fmt.Sprintf("big/%d", n))
		sizes := append([]int(nil), bigSizes[n%len(bigSizes)]...)
		if n >= len(bigSizes) && crng.IntN(2) == 0 {
			// random variation around the boundaries
			for i := range sizes {
				if sizes[i] > 1000 {
					sizes[i] += crng.IntN(200001) - 100000
				}
			}
		}
		for len(sizes) < 2 {
			sizes = append(sizes, 0)
		}
		forms := make([]slotForm, len(sizes))
		for i := range forms {
			if i < 2 {
				forms[i] = []slotForm{formRawOnly, formDigest, formRawDigest}[crng.IntN(3)]
				if sizes[i] == 0 {
					forms[i] = formNone
				}
			} else {
				forms[i] = []slotForm{formDigest, formRawDigest}[crng.IntN(2)]
			}
		}
		if n < len(bigSizes) {
			// first round: the stored message already carries the first content inline
			// and references the others by digest
			for i := range forms {
				switch {
				case sizes[i] == 0:
				case i == 0:
					forms[i] = formRawOnly
				case i == 1 && n == 3:
					forms[i] = formRawDigest
				default:
					forms[i] = formDigest
				}
			}
		}
		info, _ := genMessage(crng, fmt.Sprintf("big%d", n), genOpts{jsonable: true, sizes: sizes, forms: forms, fewFields: crng.IntN(2) == 0})
		info.big = true
		enc := []encoding{encGRPC, encPB, encPBZstd, encGRPC, encJSON}[n%5]
		p.bigs = append(p.bigs, &seqCase{id: fmt.Sprintf("big%d", n), key: freshKey(crng), rng: crng, steps: []step{{info: info, enc: enc}}})
	}

	// --- contradiction observations
	nContra := r.N(30, 300)
	for n := 0; n < nContra; n++ {
		crng := r.Rng(fmt.Sprintf("contra/%d", n))
		forms := []slotForm{formNone, formNone, formDigest}
		where := n % 3
		forms[where] = formRawDigest
		info, _ := genMessage(crng, fmt.Sprintf("contra%d", n), genOpts{jsonable: true, unknown: false, forms: forms, needFile: true,
			sizes: []int{50 + crng.IntN(100), 50 + crng.IntN(100), 50 + crng.IntN(100)}})
		s := info.slots[where]
		_, dg := slotFields(info.m, s)
		if (n/3)%2 == 0 {
			*dg = &pb.Digest{Hash: lib.RandHash(crng), SizeBytes: int64(len(s.content))}
			info.contra = "fresh-hash:" + s.name
		} else {
			*dg = &pb.Digest{Hash: (*dg).Hash, SizeBytes: int64(len(s.content)) + 1}
			info.contra = "wrong-size:" + s.name
		}
		info.contraD = *dg
		p.contra = append(p.contra, &seqCase{id: fmt.Sprintf("contra%d", n), key: freshKey(crng), rng: crng,
			steps: []step{{info: info, enc: encoding((n / 6) % int(numEncodings))}}})
	}

	// --- RAW echo
	nRaw := r.N(60, 1000)
	rawKinds := []string{"random", "random-large", "valid-actionresult", "ill-formed-actionresult", "json-text", "one-byte", "empty", "zstd-looking"}
	for n := 0; n < nRaw; n++ {
		crng := r.Rng(fmt.Sprintf("raw/%d", n))
		c := &rawCase{id: fmt.Sprintf("raw%d", n), key: freshKey(crng), rng: crng}
		for j := 1 + crng.IntN(3); j > 0; j-- {
			kind := rawKinds[(n+j)%len(rawKinds)]
			var data []byte
			switch kind {
			case "random":
				data = lib.GenBlob(crng, 1+crng.IntN(5000), "random", c.id)
			case "random-large":
				data = lib.GenBlob(crng, 40000+crng.IntN(100000), lib.Pick(crng, lib.ContentKinds), c.id)
			case "valid-actionresult":
				info, _ := genMessage(crng, c.id, genOpts{unknown: true})
				data, _ = proto.Marshal(info.m)
			case "ill-formed-actionresult":
				k := ills[crng.IntN(len(ills))]
				info, _ := genMessage(crng, c.id, optsFor(k, genOpts{}))
				applyIll(crng, info, k)
				data, _ = proto.Marshal(info.m)
			case "json-text":
				info, _ := genMessage(crng, c.id, genOpts{jsonable: true})
				data, _ = protojson.Marshal(info.m)
			case "one-byte":
				data = []byte{byte(crng.Uint32())}
			case "empty":
				data = []byte{}
			case "zstd-looking":
				data = zstdKP(lib.GenBlob(crng, 300, "text", c.id), 2) // stored as is when sent with identity encoding
			}
			c.steps = append(c.steps, rawStep{kind: kind, data: data, zstd: crng.IntN(3) == 0})
		}
		p.raws = append(p.raws, c)
	}

	r.Extra("generic_population", map[string]any{"fields_set": nFields, "unknown_fields_added": nUnknown, "kinds": kindsSeen})
	r.Extra("plan", map[string]any{"upload_messages": len(specs), "sequences": len(p.seqs), "ill_formed_kinds": len(ills), "encodings": int(numEncodings),
		"budget_cases": len(p.bigs), "contradiction_cases": len(p.contra), "raw_cases": len(p.raws)})
	return p
}

// ---------------------------------------------------------------------------

func parallel(n int, f func(i int)) {
	var wg sync.WaitGroup
	ch := make(chan int)
	for k := 0; k < workers; k++ {
		wg.Add(1)
		go func() {
			defer wg.Done()
			for i := range ch {
				f(i)
			}
		}()
	}
	for i := 0; i < n; i++ {
		ch <- i
	}
	close(ch)
	wg.Wait()
}

func run(r *lib.Run) {
	r.SetRule("upload tuple = (server config, encoding, well-formed | the single ill-formed field kind | unparsable kind, state of the key before, jsonable, unknown fields); " +
		"read tuple = (server config, upload encoding, read path, inline-request combination, forms of stdout/stderr/output files in the stored message, budget class); " +
		"raw tuple = (config, payload kind, content encoding, overwrite)")
	r.Assume("the inlining budget of GetActionResult is 3 MiB (documented next to maxInlineSize) and a reply must fit gRPC's default 4 MiB message limit: reads use a client with default limits")
	r.Assume("every blob a hit depends on (C06) is stored beforehand, so a miss after an accepted upload has no C06 excuse")
	r.Assume("zstd-wrapped HTTP uploads carry X-Digest-SizeBytes = uncompressed length (the documented protocol for compressed PUTs)")
	r.Assume("the disk view reads ac.v2/<xx>/<key>-* as the bare serialised ActionResult (the current on-disk encoding of action-cache entries); a release that changed that encoding would need another reader here")
	r.Assume("'validation enabled/disabled' in the quantifier is the HTTP switch --disable_http_ac_validation (RAW part); gRPC with --disable_grpc_ac_deps_check (the stored message returned verbatim, no inlining / de-inlining / budget) is outside this check")
	r.Assume("refusals and failed reads that blame the server's environment (HTTP 5xx, gRPC Internal / Unknown / ResourceExhausted other than the client's message limit) are inconclusive, never verdicts; bytes kept inline although not requested are judged only when the harness's own CAS Put of the same bytes succeeds")

	p := buildPlan(r)

	configs := [][2]string{{"zstd", "go"}, {"uncompressed", "cgo"}}
	// Fresh servers per batch bound the disk footprint; nothing is ever evicted.
	type job struct {
		f func(w *world)
	}
	var jobs []job
	for _, c := range p.seqs {
		c := c
		jobs = append(jobs, job{func(w *world) { w.runSeq(c) }})
	}
	for _, c := range p.contra {
		c := c
		jobs = append(jobs, job{func(w *world) { w.runContra(c) }})
	}
	for _, c := range p.raws {
		c := c
		jobs = append(jobs, job{func(w *world) { w.runRaw(c) }})
	}
	var bigJobs []job
	for _, c := range p.bigs {
		c := c
		bigJobs = append(bigJobs, job{func(w *world) { w.runSeq(c) }})
	}

	runBatch := func(js []job, batch int) bool {
		for start := 0; start < len(js); start += batch {
			end := min(start+batch, len(js))
			var ws []*world
			for _, cf := range configs {
				w, err := newWorld(r, cf[0], cf[1])
				if err != nil {
					r.Inconclusive("cannot start in-process server: " + err.Error())
					for _, x := range ws {
						x.close()
					}
					return false
				}
				ws = append(ws, w)
			}
			parallel(end-start, func(i int) {
				js[start+i].f(ws[(start+i)%len(ws)])
			})
			for _, w := range ws {
				for _, l := range w.srv.HTTPErrLog.Lines() {
					if strings.Contains(l, "panic") {
						r.Violation("C11:http:handler-panic", "HTTP handler panicked: "+trunc(l, 300), nil)
						break
					}
				}
				w.close()
			}
		}
		return true
	}
	if !runBatch(jobs, 1500) {
		return
	}
	runBatch(bigJobs, 40)

	// Required observations: a run that never saw these paths proves nothing.
	need := []string{"hit.http-get", "hit.http-get-json", "hit.grpc-get", "hit.http-head", "raw.get.identical", "cas-check.deinlined",
		"grpc-get.over-budget", "grpc-get.within-budget", "absent-probe.ac.v2-file"}
	if r.Violations() == 0 {
		for e := encoding(0); e < numEncodings; e++ {
			need = append(need, "upload."+e.String()+".well-formed.accepted", "upload."+e.String()+".ill-formed.rejected")
		}
	}
	sort.Strings(need)
	for _, k := range need {
		if r.Counter(k) == 0 {
			r.Inconclusive("required observation never made: " + k)
		}
	}
}

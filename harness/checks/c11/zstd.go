package c11

import (
	"sync"

	"github.com/klauspost/compress/zstd"
)

// Cached klauspost encoders (creating one per call dominates the run time).
var (
	kpMu   sync.Mutex
	kpEncs = map[int]*zstd.Encoder{}
)

func zstdKP(b []byte, level int) []byte {
	lv := zstd.EncoderLevel(level)
	if lv < zstd.SpeedFastest || lv > zstd.SpeedBestCompression {
		lv = zstd.SpeedDefault
	}
	kpMu.Lock()
	enc := kpEncs[int(lv)]
	if enc == nil {
		enc, _ = zstd.NewWriter(nil, zstd.WithEncoderLevel(lv), zstd.WithEncoderConcurrency(4))
		kpEncs[int(lv)] = enc
	}
	kpMu.Unlock()
	return enc.EncodeAll(b, nil)
}

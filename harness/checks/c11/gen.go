// Package c11 is the runtime-monitoring check for property C11: the action
// cache stores and serves only valid ActionResults, unchanged.
//
// gen.go: message generation. ActionResult messages are populated generically
// through protoreflect over the whole descriptor (every scalar / message /
// repeated field, timestamps, Any metadata, node properties, unknown fields),
// then the fields the statement speaks about (paths, digests, inlined
// contents) are repaired so that the message is well formed and references
// only blobs the harness knows, and optionally exactly one field is made ill
// formed.
package c11

import (
	"fmt"
	"math"
	"math/rand/v2"
	"strings"

	"verif/harness/lib"

	pb "github.com/buchgr/bazel-remote/v2/genproto/build/bazel/remote/execution/v2"

	"google.golang.org/protobuf/encoding/protowire"
	"google.golang.org/protobuf/proto"
	"google.golang.org/protobuf/reflect/protoreflect"
	"google.golang.org/protobuf/types/known/anypb"
	"google.golang.org/protobuf/types/known/durationpb"
	"google.golang.org/protobuf/types/known/timestamppb"
	"google.golang.org/protobuf/types/known/wrapperspb"
)

// ---------------------------------------------------------------------------
// Well-formedness predicate, written from the statement / REAPI text
// (DESIGN §3 C11 oracle (1)); deliberately not calling the server's validator.

func digestWellFormed(d *pb.Digest) bool {
	if d == nil {
		return false
	}
	if d.SizeBytes < 0 || len(d.Hash) != 64 {
		return false
	}
	for i := 0; i < len(d.Hash); i++ {
		c := d.Hash[i]
		if !(c >= '0' && c <= '9') && !(c >= 'a' && c <= 'f') {
			return false
		}
	}
	return true
}

func isAbs(p string) bool { return strings.HasPrefix(p, "/") }

// wellFormed returns "" when the message is well formed, else the first reason.
func wellFormed(m *pb.ActionResult) string {
	if m == nil {
		return "nil message"
	}
	for i, f := range m.OutputFiles {
		switch {
		case f == nil:
			return fmt.Sprintf("output_files[%d] absent", i)
		case f.Path == "":
			return fmt.Sprintf("output_files[%d].path empty", i)
		case isAbs(f.Path):
			return fmt.Sprintf("output_files[%d].path absolute", i)
		case f.Digest == nil:
			return fmt.Sprintf("output_files[%d].digest missing", i)
		case !digestWellFormed(f.Digest):
			return fmt.Sprintf("output_files[%d].digest malformed", i)
		}
	}
	for i, d := range m.OutputDirectories {
		switch {
		case d == nil:
			return fmt.Sprintf("output_directories[%d] absent", i)
		case isAbs(d.Path):
			return fmt.Sprintf("output_directories[%d].path absolute", i)
		case d.TreeDigest == nil:
			return fmt.Sprintf("output_directories[%d].tree_digest missing", i)
		case !digestWellFormed(d.TreeDigest):
			return fmt.Sprintf("output_directories[%d].tree_digest malformed", i)
		}
	}
	//nolint:staticcheck // deprecated fields are part of the message
	lists := []struct {
		name string
		l    []*pb.OutputSymlink
	}{{"output_file_symlinks", m.OutputFileSymlinks}, {"output_directory_symlinks", m.OutputDirectorySymlinks}, {"output_symlinks", m.OutputSymlinks}}
	for _, sl := range lists {
		for i, s := range sl.l {
			switch {
			case s == nil:
				return fmt.Sprintf("%s[%d] absent", sl.name, i)
			case s.Path == "":
				return fmt.Sprintf("%s[%d].path empty", sl.name, i)
			case isAbs(s.Path):
				return fmt.Sprintf("%s[%d].path absolute", sl.name, i)
			case s.Target == "":
				return fmt.Sprintf("%s[%d].target empty", sl.name, i)
			}
		}
	}
	if m.StdoutDigest != nil && !digestWellFormed(m.StdoutDigest) {
		return "stdout_digest malformed"
	}
	if m.StderrDigest != nil && !digestWellFormed(m.StderrDigest) {
		return "stderr_digest malformed"
	}
	return ""
}

// ---------------------------------------------------------------------------
// Generic population.

type gen struct {
	rng      *rand.Rand
	jsonable bool // only values that have a proto3-JSON representation
	unknown  bool // sprinkle unknown fields
	nUnknown int
	nFields  int
	kinds    map[string]int // protoreflect kinds / well-known types populated
}

var runes = []rune("abcdefghijklmnopqrstuvwxyzABCXYZ0123456789/._- \"\\\n\t<>&'{}[]:,éü日本\U0001F600\u0001")

func (g *gen) str(max int) string {
	n := g.rng.IntN(max + 1)
	var sb strings.Builder
	for i := 0; i < n; i++ {
		sb.WriteRune(runes[g.rng.IntN(len(runes))])
	}
	return sb.String()
}

func (g *gen) bytes(max int) []byte {
	n := g.rng.IntN(max + 1)
	b := make([]byte, n)
	for i := range b {
		b[i] = byte(g.rng.Uint32())
	}
	return b
}

func (g *gen) int64() int64 {
	switch g.rng.IntN(6) {
	case 0:
		return 0
	case 1:
		return math.MaxInt64
	case 2:
		return math.MinInt64
	case 3:
		return -int64(g.rng.IntN(1000)) - 1
	default:
		return int64(g.rng.Uint64() >> uint(g.rng.IntN(63)))
	}
}

func (g *gen) timestamp() *timestamppb.Timestamp {
	if g.jsonable || g.rng.IntN(3) > 0 {
		// valid range 0001-01-01 .. 9999-12-31
		const lo, hi = -62135596800, 253402300799
		secs := lo + g.rng.Int64N(hi-lo+1)
		nanos := []int32{0, 1, 1000, 123000000, 999999999, int32(g.rng.IntN(1000000000))}[g.rng.IntN(6)]
		return &timestamppb.Timestamp{Seconds: secs, Nanos: nanos}
	}
	return &timestamppb.Timestamp{Seconds: g.int64(), Nanos: int32(g.rng.Uint32())}
}

func (g *gen) duration() *durationpb.Duration {
	if g.jsonable || g.rng.IntN(3) > 0 {
		secs := g.rng.Int64N(315576000000)
		nanos := int32(g.rng.IntN(1000000000))
		if g.rng.IntN(2) == 0 {
			secs, nanos = -secs, -nanos
		}
		if g.rng.IntN(4) == 0 {
			nanos = 0
		}
		return &durationpb.Duration{Seconds: secs, Nanos: nanos}
	}
	return &durationpb.Duration{Seconds: g.int64(), Nanos: int32(g.rng.Uint32())}
}

func (g *gen) digest() *pb.Digest {
	return &pb.Digest{Hash: lib.RandHash(g.rng), SizeBytes: int64(g.rng.IntN(1 << 20))}
}

func (g *gen) any() *anypb.Any {
	if !g.jsonable && g.rng.IntN(2) == 0 {
		// unresolvable type: survives only as (type_url, bytes)
		return &anypb.Any{TypeUrl: "example.com/verif." + g.str(8), Value: g.bytes(40)}
	}
	var m proto.Message
	switch g.rng.IntN(5) {
	case 0:
		sub := *g
		sub.jsonable = true
		m = sub.timestamp()
	case 1:
		sub := *g
		sub.jsonable = true
		m = sub.duration()
	case 2:
		m = g.digest()
	case 3:
		m = &pb.NodeProperty{Name: g.str(10), Value: g.str(10)}
	default:
		m = wrapperspb.String(g.str(20))
	}
	b, err := proto.Marshal(m)
	if err != nil {
		panic(err)
	}
	return &anypb.Any{TypeUrl: "type.googleapis.com/" + string(m.ProtoReflect().Descriptor().FullName()), Value: b}
}

func (g *gen) scalar(fd protoreflect.FieldDescriptor) protoreflect.Value {
	g.kinds[fd.Kind().String()]++
	switch fd.Kind() {
	case protoreflect.BoolKind:
		return protoreflect.ValueOfBool(g.rng.IntN(2) == 0)
	case protoreflect.Int32Kind, protoreflect.Sint32Kind, protoreflect.Sfixed32Kind:
		return protoreflect.ValueOfInt32(int32(g.int64()))
	case protoreflect.Int64Kind, protoreflect.Sint64Kind, protoreflect.Sfixed64Kind:
		return protoreflect.ValueOfInt64(g.int64())
	case protoreflect.Uint32Kind, protoreflect.Fixed32Kind:
		return protoreflect.ValueOfUint32(uint32(g.int64()))
	case protoreflect.Uint64Kind, protoreflect.Fixed64Kind:
		return protoreflect.ValueOfUint64(uint64(g.int64()))
	case protoreflect.FloatKind:
		return protoreflect.ValueOfFloat32(float32(g.rng.NormFloat64()))
	case protoreflect.DoubleKind:
		return protoreflect.ValueOfFloat64(g.rng.NormFloat64())
	case protoreflect.StringKind:
		return protoreflect.ValueOfString(g.str(24))
	case protoreflect.BytesKind:
		return protoreflect.ValueOfBytes(g.bytes(48))
	case protoreflect.EnumKind:
		vals := fd.Enum().Values()
		return protoreflect.ValueOfEnum(vals.Get(g.rng.IntN(vals.Len())).Number())
	}
	panic("unhandled kind " + fd.Kind().String())
}

// message builds a value for a message-typed field.
func (g *gen) message(md protoreflect.MessageDescriptor, newMsg func() protoreflect.Message, depth int) protoreflect.Message {
	switch md.FullName() {
	case "google.protobuf.Timestamp":
		g.kinds["Timestamp"]++
		return g.timestamp().ProtoReflect()
	case "google.protobuf.Duration":
		g.kinds["Duration"]++
		return g.duration().ProtoReflect()
	case "google.protobuf.Any":
		g.kinds["Any"]++
		return g.any().ProtoReflect()
	case "build.bazel.remote.execution.v2.Digest":
		g.kinds["Digest"]++
		return g.digest().ProtoReflect()
	}
	m := newMsg()
	g.populate(m, depth+1)
	return m
}

// populate fills every field of m with probability 3/4 (repeated: 0..3 elements).
func (g *gen) populate(m protoreflect.Message, depth int) {
	md := m.Descriptor()
	if depth > 6 {
		return
	}
	fds := md.Fields()
	for i := 0; i < fds.Len(); i++ {
		fd := fds.Get(i)
		if g.rng.IntN(4) == 0 {
			continue
		}
		g.nFields++
		switch {
		case fd.IsMap():
			mp := m.Mutable(fd).Map()
			for n := g.rng.IntN(3); n > 0; n-- {
				k := g.scalar(fd.MapKey()).MapKey()
				if fd.MapValue().Message() != nil {
					mp.Set(k, protoreflect.ValueOfMessage(g.message(fd.MapValue().Message(), func() protoreflect.Message { return mp.NewValue().Message() }, depth)))
				} else {
					mp.Set(k, g.scalar(fd.MapValue()))
				}
			}
		case fd.IsList():
			l := m.Mutable(fd).List()
			for n := g.rng.IntN(4); n > 0; n-- {
				if fd.Message() != nil {
					l.Append(protoreflect.ValueOfMessage(g.message(fd.Message(), func() protoreflect.Message { return l.NewElement().Message() }, depth)))
				} else {
					l.Append(g.scalar(fd))
				}
			}
		case fd.Message() != nil:
			m.Set(fd, protoreflect.ValueOfMessage(g.message(fd.Message(), func() protoreflect.Message { return m.NewField(fd).Message() }, depth)))
		default:
			m.Set(fd, g.scalar(fd))
		}
	}
	if g.unknown && !strings.HasPrefix(string(md.FullName()), "google.protobuf.") && g.rng.IntN(3) == 0 {
		m.SetUnknown(g.unknownFields(md))
	}
}

// unknownFields makes 1..3 fields with numbers the descriptor does not define.
func (g *gen) unknownFields(md protoreflect.MessageDescriptor) protoreflect.RawFields {
	var b []byte
	for n := 1 + g.rng.IntN(3); n > 0; n-- {
		var num protowire.Number
		for {
			num = protowire.Number([]int{100 + g.rng.IntN(900), 1000 + g.rng.IntN(10000), 536870911, 20 + g.rng.IntN(60)}[g.rng.IntN(4)])
			if md.Fields().ByNumber(num) == nil && (num < 19000 || num > 19999) {
				break
			}
		}
		switch g.rng.IntN(4) {
		case 0:
			b = protowire.AppendTag(b, num, protowire.VarintType)
			b = protowire.AppendVarint(b, g.rng.Uint64())
		case 1:
			b = protowire.AppendTag(b, num, protowire.Fixed32Type)
			b = protowire.AppendFixed32(b, g.rng.Uint32())
		case 2:
			b = protowire.AppendTag(b, num, protowire.Fixed64Type)
			b = protowire.AppendFixed64(b, g.rng.Uint64())
		default:
			b = protowire.AppendTag(b, num, protowire.BytesType)
			b = protowire.AppendBytes(b, g.bytes(30))
		}
		g.nUnknown++
	}
	return b
}

// stripUnknown removes unknown fields recursively (what proto3 JSON can carry).
func stripUnknown(m protoreflect.Message) {
	if !m.IsValid() {
		return
	}
	if len(m.GetUnknown()) > 0 {
		m.SetUnknown(nil)
	}
	m.Range(func(fd protoreflect.FieldDescriptor, v protoreflect.Value) bool {
		switch {
		case fd.IsMap():
			if fd.MapValue().Message() != nil {
				v.Map().Range(func(_ protoreflect.MapKey, mv protoreflect.Value) bool {
					stripUnknown(mv.Message())
					return true
				})
			}
		case fd.IsList():
			if fd.Message() != nil {
				l := v.List()
				for i := 0; i < l.Len(); i++ {
					stripUnknown(l.Get(i).Message())
				}
			}
		case fd.Message() != nil:
			stripUnknown(v.Message())
		}
		return true
	})
}

func hasUnknown(m protoreflect.Message) bool {
	if !m.IsValid() {
		return false
	}
	if len(m.GetUnknown()) > 0 {
		return true
	}
	found := false
	m.Range(func(fd protoreflect.FieldDescriptor, v protoreflect.Value) bool {
		switch {
		case fd.IsList() && fd.Message() != nil:
			l := v.List()
			for i := 0; i < l.Len() && !found; i++ {
				found = hasUnknown(l.Get(i).Message())
			}
		case !fd.IsList() && !fd.IsMap() && fd.Message() != nil:
			found = hasUnknown(v.Message())
		}
		return !found
	})
	return found
}

// ---------------------------------------------------------------------------
// Slots: the three places whose contents the server may inline / de-inline.

type slotForm int

const (
	formNone      slotForm = iota // neither raw nor digest (stdout/stderr only)
	formRawOnly                   // raw bytes, no digest (stdout/stderr only)
	formDigest                    // digest only; the blob is in the CAS
	formRawDigest                 // raw bytes and the consistent digest
)

func (f slotForm) String() string {
	return [...]string{"none", "raw", "digest", "raw+digest"}[f]
}

type slot struct {
	name    string // "stdout" | "stderr" | "file"
	fileIdx int    // index in output_files, -1 for stdout/stderr
	path    string // output file path
	content []byte // logical content C
	form    slotForm
}

// msgInfo is one generated upload.
type msgInfo struct {
	id       string
	m        *pb.ActionResult // the uploaded message (reference for equality)
	slots    []*slot          // stdout, stderr, files in order
	blobs    [][]byte         // blobs that must be in the CAS for a hit (trees, tree files)
	jsonable bool
	unknown  bool
	ill      string // "" = well formed; else the kind of the single ill-formed field
	big      bool   // inlining-budget case
	contra   string // non-empty: inlined contents contradict the digest (observation only)
	contraD  *pb.Digest
}

type genOpts struct {
	jsonable  bool
	unknown   bool
	needFile  bool // ensure >= 1 element in the list (site for an ill-formed field)
	needDir   bool
	needSym   [3]bool
	sizes     []int // explicit content sizes for stdout, stderr, files... (budget cases); nil = small random
	forms     []slotForm
	fewFields bool
}

func relPath(g *gen, tag string, i int) string {
	p := strings.TrimLeft(g.str(12), "/")
	return fmt.Sprintf("%s%s-%d", p, tag, i) // unique per message, non-empty, relative
}

func contentSize(rng *rand.Rand) int {
	switch rng.IntN(12) {
	case 0:
		return 0
	case 1:
		return 1
	case 2:
		return 5000 + rng.IntN(100)
	case 3:
		return 70000 + rng.IntN(100)
	default:
		return 2 + rng.IntN(300)
	}
}

// genMessage builds a well-formed message whose referenced blobs are known.
func genMessage(rng *rand.Rand, id string, o genOpts) (*msgInfo, *gen) {
	g := &gen{rng: rng, jsonable: o.jsonable, unknown: o.unknown, kinds: map[string]int{}}
	m := &pb.ActionResult{}
	if !o.fewFields {
		g.populate(m.ProtoReflect(), 0)
	}
	info := &msgInfo{id: id, m: m, jsonable: o.jsonable}
	sizeAt := func(i int) int {
		if i < len(o.sizes) {
			return o.sizes[i]
		}
		return contentSize(rng)
	}
	formAt := func(i int, choices []slotForm) slotForm {
		if i < len(o.forms) {
			return o.forms[i]
		}
		return choices[rng.IntN(len(choices))]
	}

	// stdout / stderr
	for i, name := range []string{"stdout", "stderr"} {
		s := &slot{name: name, fileIdx: -1}
		s.form = formAt(i, []slotForm{formNone, formRawOnly, formDigest, formRawDigest})
		if s.form != formNone {
			s.content = lib.GenBlob(rng, sizeAt(i), lib.Pick(rng, lib.ContentKinds), id+"/"+name)
			if len(s.content) == 0 && s.form != formDigest {
				s.form = formNone
			}
		}
		var raw []byte
		var dg *pb.Digest
		if s.form == formRawOnly || s.form == formRawDigest {
			raw = s.content
		}
		if s.form == formDigest || s.form == formRawDigest {
			dg = lib.DigestOf(s.content)
		}
		if i == 0 {
			m.StdoutRaw, m.StdoutDigest = raw, dg
		} else {
			m.StderrRaw, m.StderrDigest = raw, dg
		}
		info.slots = append(info.slots, s)
	}

	// output files
	if o.sizes != nil {
		n := len(o.sizes) - 2
		for len(m.OutputFiles) < n {
			m.OutputFiles = append(m.OutputFiles, &pb.OutputFile{})
		}
		m.OutputFiles = m.OutputFiles[:max(n, 0)]
	}
	if o.needFile && len(m.OutputFiles) == 0 {
		m.OutputFiles = append(m.OutputFiles, &pb.OutputFile{IsExecutable: true})
	}
	for i, f := range m.OutputFiles {
		f.Path = relPath(g, "f", i)
		s := &slot{name: "file", fileIdx: i, path: f.Path}
		s.form = formAt(2+i, []slotForm{formDigest, formDigest, formRawDigest})
		s.content = lib.GenBlob(rng, sizeAt(2+i), lib.Pick(rng, lib.ContentKinds), fmt.Sprintf("%s/file%d", id, i))
		if len(s.content) == 0 {
			s.form = formDigest
		}
		f.Digest = lib.DigestOf(s.content)
		f.Contents = nil
		if s.form == formRawDigest {
			f.Contents = s.content
		}
		info.slots = append(info.slots, s)
	}

	// output directories: tree digests of Tree blobs the harness uploads
	if o.needDir && len(m.OutputDirectories) == 0 {
		m.OutputDirectories = append(m.OutputDirectories, &pb.OutputDirectory{})
	}
	for i, d := range m.OutputDirectories {
		if rng.IntN(4) == 0 {
			d.Path = "" // an empty path is legal for an output directory (the working directory)
		} else {
			d.Path = relPath(g, "d", i)
		}
		tree := &pb.Tree{Root: &pb.Directory{}}
		for j := rng.IntN(3); j > 0; j-- {
			b := lib.GenBlob(rng, 1+rng.IntN(100), "random", fmt.Sprintf("%s/tree%d/%d", id, i, j))
			info.blobs = append(info.blobs, b)
			tree.Root.Files = append(tree.Root.Files, &pb.FileNode{Name: fmt.Sprintf("t%d", j), Digest: lib.DigestOf(b)})
		}
		if rng.IntN(2) == 0 {
			b := lib.GenBlob(rng, 1+rng.IntN(100), "text", fmt.Sprintf("%s/tree%d/child", id, i))
			info.blobs = append(info.blobs, b)
			child := &pb.Directory{Files: []*pb.FileNode{{Name: "c", Digest: lib.DigestOf(b)}}}
			cb, _ := proto.Marshal(child)
			tree.Children = append(tree.Children, child)
			tree.Root.Directories = append(tree.Root.Directories, &pb.DirectoryNode{Name: "sub", Digest: lib.DigestOf(cb)})
		}
		tb, err := proto.Marshal(tree)
		if err != nil {
			panic(err)
		}
		info.blobs = append(info.blobs, tb)
		d.TreeDigest = lib.DigestOf(tb)
	}

	// symlinks
	//nolint:staticcheck // deprecated fields are part of the message
	syms := []*[]*pb.OutputSymlink{&m.OutputFileSymlinks, &m.OutputDirectorySymlinks, &m.OutputSymlinks}
	for k, lp := range syms {
		if o.needSym[k] && len(*lp) == 0 {
			*lp = append(*lp, &pb.OutputSymlink{})
		}
		for i, s := range *lp {
			s.Path = relPath(g, fmt.Sprintf("s%d", k), i)
			if s.Target == "" {
				s.Target = "t" + g.str(10) // may be absolute or relative: both legal
			}
		}
	}
	info.unknown = hasUnknown(m.ProtoReflect())
	if why := wellFormed(m); why != "" {
		panic("generator produced an ill-formed message: " + why)
	}
	return info, g
}

// ---------------------------------------------------------------------------
// Exactly one ill-formed field.

type illKind struct {
	site string // which field
	kind string // what is wrong with it
}

func (k illKind) String() string { return k.site + ":" + k.kind }

var digestIlls = []string{"neg-size", "short-hash", "long-hash", "upper-hash", "nonhex-hash", "empty-hash"}

func allIllKinds() []illKind {
	var out []illKind
	for _, site := range []string{"output_files.digest", "output_directories.tree_digest", "stdout_digest", "stderr_digest"} {
		for _, k := range digestIlls {
			out = append(out, illKind{site, k})
		}
	}
	out = append(out, illKind{"output_files.digest", "missing"}, illKind{"output_directories.tree_digest", "missing"})
	out = append(out, illKind{"output_files.path", "empty"}, illKind{"output_files.path", "absolute"}, illKind{"output_directories.path", "absolute"})
	for _, l := range []string{"output_file_symlinks", "output_directory_symlinks", "output_symlinks"} {
		out = append(out, illKind{l + ".path", "empty"}, illKind{l + ".path", "absolute"}, illKind{l + ".target", "empty"})
	}
	for _, l := range []string{"output_files", "output_directories", "output_file_symlinks", "output_directory_symlinks", "output_symlinks"} {
		out = append(out, illKind{l, "nil-element"}, illKind{l, "empty-element"})
	}
	return out
}

func optsFor(k illKind, o genOpts) genOpts {
	switch {
	case strings.HasPrefix(k.site, "output_files"):
		o.needFile = true
	case strings.HasPrefix(k.site, "output_directories"):
		o.needDir = true
	case strings.HasPrefix(k.site, "output_file_symlinks"):
		o.needSym[0] = true
	case strings.HasPrefix(k.site, "output_directory_symlinks"):
		o.needSym[1] = true
	case strings.HasPrefix(k.site, "output_symlinks"):
		o.needSym[2] = true
	}
	return o
}

func badDigest(rng *rand.Rand, d *pb.Digest, kind string) *pb.Digest {
	if d == nil {
		d = &pb.Digest{Hash: lib.RandHash(rng), SizeBytes: int64(1 + rng.IntN(1000))}
	}
	h, n := d.Hash, d.SizeBytes
	switch kind {
	case "neg-size":
		n = []int64{-1, -n - 1, math.MinInt64}[rng.IntN(3)]
	case "short-hash":
		h = h[:[]int{63, 32, 1}[rng.IntN(3)]]
	case "long-hash":
		h += []string{"0", "a", h}[rng.IntN(3)]
	case "upper-hash":
		h = strings.ToUpper(h)
		if h == d.Hash { // no letter in the hash (practically impossible)
			h = "A" + h[1:]
		}
	case "nonhex-hash":
		i := rng.IntN(64)
		h = h[:i] + []string{"g", "z", " ", "-", "G", "\n"}[rng.IntN(6)] + h[i+1:]
	case "empty-hash":
		h = ""
	default:
		panic(kind)
	}
	return &pb.Digest{Hash: h, SizeBytes: n}
}

func inlineBytes(rng *rand.Rand) []byte {
	b := make([]byte, 1+rng.IntN(2000))
	for i := range b {
		b[i] = byte('a' + rng.IntN(26))
	}
	return b
}

// applyIll makes exactly one field of the (well-formed) message ill formed.
func applyIll(rng *rand.Rand, info *msgInfo, k illKind) {
	m := info.m
	//nolint:staticcheck // deprecated fields are part of the message
	symList := func(site string) *[]*pb.OutputSymlink {
		switch {
		case strings.HasPrefix(site, "output_file_symlinks"):
			return &m.OutputFileSymlinks
		case strings.HasPrefix(site, "output_directory_symlinks"):
			return &m.OutputDirectorySymlinks
		}
		return &m.OutputSymlinks
	}
	insertAt := func(n int) int { return rng.IntN(n + 1) }
	switch {
	case k.kind == "nil-element" || k.kind == "empty-element":
		switch k.site {
		case "output_files":
			var e *pb.OutputFile
			if k.kind == "empty-element" {
				e = &pb.OutputFile{}
			}
			i := insertAt(len(m.OutputFiles))
			m.OutputFiles = append(m.OutputFiles[:i:i], append([]*pb.OutputFile{e}, m.OutputFiles[i:]...)...)
		case "output_directories":
			var e *pb.OutputDirectory
			if k.kind == "empty-element" {
				e = &pb.OutputDirectory{}
			}
			i := insertAt(len(m.OutputDirectories))
			m.OutputDirectories = append(m.OutputDirectories[:i:i], append([]*pb.OutputDirectory{e}, m.OutputDirectories[i:]...)...)
		default:
			lp := symList(k.site)
			var e *pb.OutputSymlink
			if k.kind == "empty-element" {
				e = &pb.OutputSymlink{}
			}
			i := insertAt(len(*lp))
			*lp = append((*lp)[:i:i], append([]*pb.OutputSymlink{e}, (*lp)[i:]...)...)
		}
	case k.site == "output_files.digest":
		f := m.OutputFiles[rng.IntN(len(m.OutputFiles))]
		f.Contents = nil
		if k.kind == "missing" {
			f.Digest = nil
		} else {
			f.Digest = badDigest(rng, f.Digest, k.kind)
			if k.kind != "neg-size" && rng.IntN(2) == 0 {
				// the file's bytes are carried inline and the (malformed) digest states their length: the digest is
				// ill formed all the same
				f.Contents = inlineBytes(rng)
				f.Digest.SizeBytes = int64(len(f.Contents))
			}
		}
	case k.site == "output_directories.tree_digest":
		d := m.OutputDirectories[rng.IntN(len(m.OutputDirectories))]
		if k.kind == "missing" {
			d.TreeDigest = nil
		} else {
			d.TreeDigest = badDigest(rng, d.TreeDigest, k.kind)
		}
	case k.site == "stdout_digest":
		m.StdoutDigest = badDigest(rng, m.StdoutDigest, k.kind)
		m.StdoutRaw = nil
		if k.kind != "neg-size" && rng.IntN(2) == 0 {
			m.StdoutRaw = inlineBytes(rng)
			m.StdoutDigest.SizeBytes = int64(len(m.StdoutRaw))
		}
	case k.site == "stderr_digest":
		m.StderrDigest = badDigest(rng, m.StderrDigest, k.kind)
		m.StderrRaw = nil
		if k.kind != "neg-size" && rng.IntN(2) == 0 {
			m.StderrRaw = inlineBytes(rng)
			m.StderrDigest.SizeBytes = int64(len(m.StderrRaw))
		}
	case k.site == "output_files.path":
		f := m.OutputFiles[rng.IntN(len(m.OutputFiles))]
		if k.kind == "empty" {
			f.Path = ""
		} else {
			f.Path = "/" + f.Path
		}
	case k.site == "output_directories.path":
		d := m.OutputDirectories[rng.IntN(len(m.OutputDirectories))]
		d.Path = "/" + d.Path
	case strings.HasSuffix(k.site, ".path"):
		l := *symList(k.site)
		s := l[rng.IntN(len(l))]
		if k.kind == "empty" {
			s.Path = ""
		} else {
			s.Path = "/" + s.Path
		}
	case strings.HasSuffix(k.site, ".target"):
		l := *symList(k.site)
		l[rng.IntN(len(l))].Target = ""
	default:
		panic("unknown ill kind " + k.String())
	}
	info.ill = k.String()
	info.slots = nil
	if wellFormed(m) == "" {
		panic("applyIll left the message well formed: " + k.String())
	}
}

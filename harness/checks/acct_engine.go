// Package checks holds one check per property (C01..C20).
package checks

import (
	"bytes"
	"context"
	"errors"
	"fmt"
	"io"
	"math/rand/v2"
	"net"
	"os/signal"
	"sync"
	"sync/atomic"
	"syscall"
	"time"

	"verif/harness/lib"

	"github.com/buchgr/bazel-remote/v2/cache"
	"github.com/buchgr/bazel-remote/v2/cache/disk"
	pb "github.com/buchgr/bazel-remote/v2/genproto/build/bazel/remote/execution/v2"
	bspb "google.golang.org/genproto/googleapis/bytestream"
	"google.golang.org/protobuf/proto"
)

// Shared executions for C03 (accounting) and C04 (directory == index):
// random histories over a few overlapping keys on tiny caches, run first
// sequentially (monitors after every step) and then concurrently (M-acct from
// a sampler at arbitrary instants, both monitors at quiescence).

type acctItem struct {
	kind    cache.EntryKind
	hash    string
	content []byte // for AC/RAW: current candidate values are generated per put
}

type acctWorld struct {
	r         *lib.Run
	which     string // "C03" or "C04"
	rng       *rand.Rand
	c         disk.Cache
	srv       *lib.Server // nil for pure disk-API histories
	px        *lib.FakeProxy
	max       int64
	storage   string
	cas       []acctItem // pool of CAS blobs (content fixed by hash)
	acKeys    []string   // pool of AC/RAW hashes
	hist      []string   // op log for the replay file
	histMu    sync.Mutex
	caseID    string
	ownDir    string
	dirChecks int
	lastStep  bool
	opts      lib.ServerOpts // how w.c was opened (for restarts)
	restarts  int

	// conservative bounds for in-flight reservations (see DESIGN C03)
	started, finished atomic.Int64

	configuredMax int64 // the max_size the instance was configured with (== max; kept apart from what the cache reports)
	holding       bool  // uploads/fetches are being held open by the harness: no restart, no nested hold phase
	held          []*heldOp
	gates         sync.Map // proxy key -> *readGate (fetches held open inside the backend's stream)
	hookCount     func(point string) int64

	// AC/RAW values: content hashes a key may legitimately hold (the last accepted upload or the backend's value;
	// in a concurrent phase every value accepted during that phase)
	accMu      sync.Mutex
	accepted   map[string]map[string]bool
	backendVal map[string]string // AC/RAW value (hash) the backend currently holds for a key
	concurrent bool

	phaseOverride string // finding-key phase of the next quiescent check (e.g. "repair" after a damaged file was read)
}

func (w *acctWorld) log(format string, a ...any) {
	w.histMu.Lock()
	if len(w.hist) < 400 {
		w.hist = append(w.hist, fmt.Sprintf(format, a...))
	}
	w.histMu.Unlock()
}

type errAfterReader struct {
	data []byte
	pos  int
	fail int // fail when pos reaches this
}

var errInjectedRead = errors.New("injected reader error")

func (r *errAfterReader) Read(p []byte) (int, error) {
	if r.pos >= r.fail {
		return 0, errInjectedRead
	}
	n := copy(p, r.data[r.pos:min(r.fail, len(r.data))])
	r.pos += n
	if n == 0 {
		return 0, errInjectedRead
	}
	return n, nil
}

func makeAR(rng *rand.Rand, cas []acctItem, tag string) []byte {
	ar := &pb.ActionResult{ExitCode: int32(rng.IntN(5)), ExecutionMetadata: &pb.ExecutedActionMetadata{Worker: tag}}
	n := rng.IntN(3)
	for i := 0; i < n && len(cas) > 0; i++ {
		it := cas[rng.IntN(len(cas))]
		ar.OutputFiles = append(ar.OutputFiles, &pb.OutputFile{Path: fmt.Sprintf("out/%d", i), Digest: &pb.Digest{Hash: it.hash, SizeBytes: int64(len(it.content))}})
	}
	if rng.IntN(2) == 0 {
		// padding to vary the size (incl. > 32 KiB values)
		ar.StdoutRaw = bytes.Repeat([]byte{byte('a' + rng.IntN(26))}, []int{0, 10, 5000, 40000}[rng.IntN(4)])
	}
	b, _ := proto.Marshal(ar)
	return b
}

// opKinds for evidence.
var acctOps = []string{"put", "put", "put", "put", "put-ac", "put-raw", "get", "get-unknown", "getzstd", "put", "put-badhash", "put-short", "put-long", "put-readerr", "put-toolarge", "put-ac", "put-raw",
	"get", "get-unknown", "get-partial", "getzstd", "contains", "findmissing", "getvalidated", "proxyfetch-ok", "proxyfetch-fail", "put-zero",
	"proxyfetch-ac", "proxyfetch-raw", "restart", "overwrite-tail", "overwrite-tail", "put-zero", "put-writeerr", "put-writeerr", "proxyfetch-writeerr", "overwrite-tail", "put-zero",
	"proxyfetch-wrongsize", "proxyfetch-wrongsize", "get-wrongsize", "hold", "hold", "damage-header", "unlink-file", "put-nofile", "proxyfetch-nofile"}

func (w *acctWorld) step(rng *rand.Rand, concurrent bool) {
	ctx := context.Background()
	op := acctOps[rng.IntN(len(acctOps))]
	it := w.cas[rng.IntN(len(w.cas))]
	size := int64(len(it.content))
	outcome := "ok"
	if w.srv != nil && w.srv.BS != nil && rng.IntN(2) == 0 {
		w.serverStep(rng, it)
		return
	}
	track := func(sz int64, f func()) {
		w.started.Add(sz)
		f()
		w.finished.Add(sz)
	}
	switch op {
	case "put":
		var err error
		track(size, func() { err = w.c.Put(ctx, cache.CAS, it.hash, size, bytes.NewReader(it.content)) })
		if err != nil {
			outcome = "err"
		}
	case "put-badhash":
		bad := append([]byte(nil), it.content...)
		bad[rng.IntN(len(bad))] ^= 0x40
		var err error
		track(size, func() { err = w.c.Put(ctx, cache.CAS, it.hash, size, bytes.NewReader(bad)) })
		if err == nil {
			outcome = "ok?!"
		} else {
			outcome = "err"
		}
	case "put-short", "put-long", "put-readerr":
		// the stream ends early / carries surplus bytes / fails part-way - for CAS blobs and for AC/RAW values
		kind, key, val := cache.CAS, it.hash, it.content
		if rng.IntN(3) == 0 {
			kind, key, val = []cache.EntryKind{cache.AC, cache.RAW}[rng.IntN(2)], w.acKeys[rng.IntN(len(w.acKeys))], makeAR(rng, w.cas, w.caseID)
			outcome = kind.String() + "."
		} else {
			outcome = ""
		}
		var rd io.Reader
		switch op {
		case "put-short":
			rd = bytes.NewReader(val[:rng.IntN(len(val))])
		case "put-long":
			rd = bytes.NewReader(append(append([]byte(nil), val...), 1, 2, 3))
		default:
			fail := rng.IntN(len(val) + 1)
			if kind != cache.CAS {
				fail = rng.IntN(len(val)) // (an AC/RAW value delivered completely before the error would be a complete upload)
			}
			rd = &errAfterReader{data: val, fail: fail}
		}
		var err error
		track(int64(len(val)), func() { err = w.c.Put(ctx, kind, key, int64(len(val)), rd) })
		if err != nil {
			outcome += "err"
		} else {
			// (an acknowledged broken AC/RAW upload records no acceptable value: the deep pass of M-dir then finds an
			// entry whose bytes are not a value that was accepted)
			outcome += "ok"
		}
	case "put-writeerr":
		// the file system refuses the write part-way: the process's file size limit (RLIMIT_FSIZE, soft) is lowered
		// below what the upload needs for the duration of this one call, so write(2) fails with EFBIG at that offset.
		// Process-wide, therefore only in sequential disk-API histories.
		if concurrent || w.srv != nil || size < 2 {
			return
		}
		kind, key, val := cache.CAS, it.hash, it.content
		if rng.IntN(3) == 0 {
			kind, key, val = []cache.EntryKind{cache.AC, cache.RAW}[rng.IntN(2)], w.acKeys[rng.IntN(len(w.acKeys))], makeAR(rng, w.cas, w.caseID)
			if len(val) < 2 {
				return
			}
		}
		limit := uint64(1 + rng.IntN(len(val)-1))
		var err error
		restore, ok := lowerFileSizeLimit(limit)
		if !ok {
			return
		}
		track(int64(len(val)), func() { err = w.c.Put(ctx, kind, key, int64(len(val)), bytes.NewReader(val)) })
		restore()
		if err != nil {
			outcome = "err"
		} else {
			w.accept(kind, key, val)
		}
	case "put-toolarge":
		big := w.max + int64(1+rng.IntN(8192))
		var err error
		err = w.c.Put(ctx, cache.CAS, lib.RandHash(rng), big, bytes.NewReader(nil))
		if err != nil {
			outcome = "err"
		}
	case "put-zero":
		kind := []cache.EntryKind{cache.RAW, cache.AC}[rng.IntN(2)]
		zk := w.acKeys[rng.IntN(len(w.acKeys))]
		err := w.c.Put(ctx, kind, zk, 0, bytes.NewReader(nil))
		if err != nil {
			outcome = "err"
		} else {
			w.accept(kind, zk, nil)
		}
	case "overwrite-tail":
		// overwrite the least recently used entry (the next eviction victim) with a value of another size
		snap := lib.Snapshot(w.c)
		if len(snap.Entries) == 0 {
			return
		}
		tail := snap.Entries[len(snap.Entries)-1]
		kind, hash := splitKey(tail.Key)
		var err error
		if kind == cache.CAS {
			var content []byte
			for _, c := range w.cas {
				if c.hash == hash {
					content = c.content
				}
			}
			if content == nil {
				return
			}
			track(int64(len(content)), func() { err = w.c.Put(ctx, kind, hash, int64(len(content)), bytes.NewReader(content)) })
		} else {
			val := makeAR(rng, w.cas, w.caseID)
			if rng.IntN(3) == 0 {
				val = bytes.Repeat([]byte{'v'}, []int{1, 4000, 4096, 4097, 5000, 9000}[rng.IntN(6)]) // raw key space / disk API: any bytes
			}
			track(int64(len(val)), func() { err = w.c.Put(ctx, kind, hash, int64(len(val)), bytes.NewReader(val)) })
			outcome = fmt.Sprintf("%dblocks-over-%dblocks.", (len(val)+4095)/4096, (tail.SizeOnDisk+4095)/4096)
			if err == nil {
				w.accept(kind, hash, val)
			}
		}
		if err != nil {
			outcome += "err"
		} else {
			outcome += "ok"
		}
	case "put-ac", "put-raw":
		kind := cache.AC
		if op == "put-raw" {
			kind = cache.RAW
		}
		k := w.acKeys[rng.IntN(len(w.acKeys))]
		val := makeAR(rng, w.cas, w.caseID)
		var err error
		track(int64(len(val)), func() { err = w.c.Put(ctx, kind, k, int64(len(val)), bytes.NewReader(val)) })
		if err != nil {
			outcome = "err"
		} else {
			w.accept(kind, k, val)
		}
	case "get", "get-unknown", "get-partial", "getzstd":
		sz := size
		if op == "get-unknown" {
			sz = -1
		}
		var rc io.ReadCloser
		var err error
		off := int64(0)
		if op == "get-partial" && size > 1 {
			off = rng.Int64N(size)
		}
		track(size, func() {
			if op == "getzstd" {
				rc, _, err = w.c.GetZstd(ctx, it.hash, sz, off)
			} else {
				rc, _, err = w.c.Get(ctx, cache.CAS, it.hash, sz, off)
			}
		})
		if err != nil {
			outcome = "err"
		} else if rc == nil {
			outcome = "miss"
		} else {
			if op == "get-partial" {
				_, _ = io.CopyN(io.Discard, rc, 100)
			} else {
				_, _ = io.Copy(io.Discard, rc)
			}
			_ = rc.Close()
		}
	case "contains":
		kind := []cache.EntryKind{cache.CAS, cache.AC, cache.RAW}[rng.IntN(3)]
		h, sz := it.hash, size
		if kind != cache.CAS {
			h, sz = w.acKeys[rng.IntN(len(w.acKeys))], -1
		} else if rng.IntN(4) == 0 {
			sz = size + 1 // size-mismatched lookup
		}
		ok, _ := w.c.Contains(ctx, kind, h, sz)
		if !ok {
			outcome = "miss"
		}
	case "findmissing":
		var ds []*pb.Digest
		for i := 0; i < 1+rng.IntN(25); i++ {
			x := w.cas[rng.IntN(len(w.cas))]
			ds = append(ds, &pb.Digest{Hash: x.hash, SizeBytes: int64(len(x.content))})
		}
		_, err := w.c.FindMissingCasBlobs(ctx, ds)
		if err != nil {
			outcome = "err"
		}
	case "getvalidated":
		k := w.acKeys[rng.IntN(len(w.acKeys))]
		ar, _, err := w.c.GetValidatedActionResult(ctx, k)
		if err != nil {
			outcome = "err"
		} else if ar == nil {
			outcome = "miss"
		}
	case "restart":
		// (an instance with a backend starts 512 lookup workers that never stop: at most one restart there)
		if concurrent || w.holding || w.srv != nil || w.restarts >= 3 || (w.px != nil && w.restarts >= 1) {
			return
		}
		outcome = w.restart(rng)
	case "proxyfetch-ac", "proxyfetch-raw":
		// AC / RAW entries pulled from the backend (size unknown to the caller), healthy or failing part-way
		if w.px == nil {
			return
		}
		kind := cache.AC
		if op == "proxyfetch-raw" {
			kind = cache.RAW
		}
		k := w.acKeys[rng.IntN(len(w.acKeys))]
		if rng.IntN(2) == 0 {
			k = lib.RandHash(rng) // certainly not held locally
		}
		val := makeAR(rng, w.cas, w.caseID)
		w.px.SetBlob(kind, k, val)
		w.acceptAlso(kind, k, val) // (stored only if the key is not held and the fetch completes: either value is legitimate)
		if rng.IntN(3) == 0 {
			pl := lib.ProxyPlan{Once: true}
			switch rng.IntN(4) {
			case 0:
				pl.GetErr = errors.New("backend down")
			case 1:
				pl.ErrAt = 1 + rng.IntN(len(val))
			case 2:
				pl.CutAt = 1 + rng.IntN(len(val))
			case 3:
				pl.ExtraBytes = 1 + rng.IntN(100)
			}
			w.px.SetPlan(kind, k, pl)
			outcome = "faulty-"
		} else {
			outcome = ""
		}
		var rc io.ReadCloser
		var err error
		track(int64(len(val)), func() {
			if kind == cache.AC && rng.IntN(2) == 0 {
				var ar *pb.ActionResult
				ar, _, err = w.c.GetValidatedActionResult(ctx, k)
				_ = ar
			} else {
				rc, _, err = w.c.Get(ctx, kind, k, -1, 0)
			}
		})
		switch {
		case err != nil:
			outcome += "err"
		case rc == nil:
			outcome += "done"
		default:
			_, _ = io.Copy(io.Discard, rc)
			_ = rc.Close()
			outcome += "hit"
		}
		w.px.ClearPlan(kind, k)
		if rng.IntN(2) == 0 {
			w.px.Delete(kind, k)
			w.backendDropped(kind, k)
		}
	case "proxyfetch-writeerr":
		// a backend fetch whose local file write fails part-way (see put-writeerr)
		if w.px == nil || concurrent || w.srv != nil || size < 2 {
			return
		}
		w.px.SetBlob(cache.CAS, it.hash, it.content)
		sz := size
		if rng.IntN(2) == 0 {
			sz = -1
		}
		restore, ok := lowerFileSizeLimit(uint64(1 + rng.IntN(int(size)-1)))
		if !ok {
			return
		}
		var rc io.ReadCloser
		var err error
		track(size, func() { rc, _, err = w.c.Get(ctx, cache.CAS, it.hash, sz, 0) })
		restore()
		switch {
		case err != nil:
			outcome = "err"
		case rc == nil:
			outcome = "miss"
		default:
			_, _ = io.Copy(io.Discard, rc)
			_ = rc.Close()
		}
		w.px.Delete(cache.CAS, it.hash)
	case "hold":
		if concurrent || w.holding || w.srv != nil {
			return
		}
		w.holdPhase(rng)
		return
	case "damage-header", "unlink-file":
		if w.srv != nil || (concurrent && w.which == "C04") {
			return
		}
		outcome = w.damageAndRead(rng, op, concurrent)
		if outcome == "" {
			return
		}
	case "put-nofile", "proxyfetch-nofile":
		if concurrent || w.holding || w.srv != nil {
			return
		}
		outcome = w.noFileStep(rng, op, it)
		if outcome == "" {
			return
		}
	case "proxyfetch-wrongsize":
		// the backend announces a logical size that is not the blob's (one more, one less, unknown), to requests that
		// state the size and to requests that do not
		if w.px == nil {
			return
		}
		w.px.SetBlob(cache.CAS, it.hash, it.content)
		rep := []int64{size + 1, size - 1, -1}[rng.IntN(3)]
		if rep == 0 {
			rep = 2
		}
		w.px.SetPlan(cache.CAS, it.hash, lib.ProxyPlan{ReportSize: rep, Once: true})
		sz := size
		if rng.IntN(2) == 0 {
			sz = -1
		}
		var rc io.ReadCloser
		var err error
		track(size, func() {
			if rng.IntN(3) == 0 {
				rc, _, err = w.c.GetZstd(ctx, it.hash, sz, 0)
			} else {
				rc, _, err = w.c.Get(ctx, cache.CAS, it.hash, sz, 0)
			}
		})
		outcome = fmt.Sprintf("announced%+d.", rep-size)
		if rep == -1 {
			outcome = "announced-unknown."
		}
		outcome += map[bool]string{true: "sized.", false: "unsized."}[sz >= 0]
		switch {
		case err != nil:
			outcome += "err"
		case rc == nil:
			outcome += "miss"
		default:
			_, _ = io.Copy(io.Discard, rc)
			_ = rc.Close()
			outcome += "served"
		}
		w.px.ClearPlan(cache.CAS, it.hash)
		w.px.Delete(cache.CAS, it.hash)
	case "get-wrongsize":
		// a read that states a size the entry does not have; with a backend this is a local miss for which space is
		// reserved and the backend is asked
		wrong := size + int64(1+rng.IntN(3))
		if rng.IntN(2) == 0 && size > 1 {
			wrong = size - 1
		}
		if w.px != nil && rng.IntN(2) == 0 {
			w.px.SetBlob(cache.CAS, it.hash, it.content)
		}
		var rc io.ReadCloser
		var err error
		track(wrong, func() { rc, _, err = w.c.Get(ctx, cache.CAS, it.hash, wrong, 0) })
		outcome = map[bool]string{true: "backend.", false: "local."}[w.px != nil]
		switch {
		case err != nil:
			outcome += "err"
		case rc == nil:
			outcome += "miss"
		default:
			_, _ = io.Copy(io.Discard, rc)
			_ = rc.Close()
			outcome += "served"
		}
		if w.px != nil {
			w.px.Delete(cache.CAS, it.hash)
		}
	case "proxyfetch-ok", "proxyfetch-fail":
		if w.px == nil {
			return
		}
		// make the backend hold the blob, drop nothing locally: fetch happens only if absent locally
		w.px.SetBlob(cache.CAS, it.hash, it.content)
		if op == "proxyfetch-fail" {
			pl := lib.ProxyPlan{Once: true}
			switch rng.IntN(4) {
			case 0:
				pl.GetErr = errors.New("backend down")
			case 1:
				pl.ErrAt = 1 + rng.IntN(len(it.content))
			case 2:
				pl.CutAt = 1 + rng.IntN(len(it.content))
			case 3:
				pl.ExtraBytes = 1 + rng.IntN(100)
			}
			w.px.SetPlan(cache.CAS, it.hash, pl)
		}
		sz := size
		if rng.IntN(3) == 0 {
			sz = -1
		}
		var rc io.ReadCloser
		var err error
		track(size, func() { rc, _, err = w.c.Get(ctx, cache.CAS, it.hash, sz, 0) })
		if err != nil {
			outcome = "err"
		} else if rc == nil {
			outcome = "miss"
		} else {
			_, _ = io.Copy(io.Discard, rc)
			_ = rc.Close()
		}
		w.px.ClearPlan(cache.CAS, it.hash)
		if rng.IntN(2) == 0 {
			w.px.Delete(cache.CAS, it.hash)
		}
	}
	w.r.Count("op." + op + "." + outcome)
	w.log("%s %s size=%d -> %s", op, it.hash[:8], size, outcome)
}

// restart re-opens the cache directory with a new instance (the old one is quiescent and is never used again):
// the other storage mode half of the time, and a max_size that is the same, larger or smaller. Entries written
// under the previous mode keep their on-disk format; the monitors must hold for the new instance as well, and
// for everything it later evicts, overwrites or fetches.
func (w *acctWorld) restart(rng *rand.Rand) string {
	lib.WaitEvictionsDrained(w.c, 2*time.Second)
	o := w.opts
	if rng.IntN(2) == 0 {
		o.Storage = map[string]string{"zstd": "uncompressed", "uncompressed": "zstd"}[w.storage]
	}
	switch rng.IntN(4) {
	case 0:
		o.MaxSize = max(w.max/2/4096*4096, 8*lib.KiB)
	case 1:
		o.MaxSize = w.max * 2
	}
	o.ZstdImpl = []string{"go", "cgo"}[rng.IntN(2)]
	if w.px != nil {
		w.px = lib.NewFakeProxy(o.Storage == "zstd")
		w.px.ReadHook = w.proxyReadHook
		o.Proxy = w.px
		w.accMu.Lock()
		w.backendVal = nil // (a new, empty backend)
		w.accMu.Unlock()
	}
	c, _, err := lib.NewCache(o)
	if err != nil {
		w.r.Violation(w.which+":restart:startup-failed", "a new instance refuses to start on the directory the previous one left behind: "+err.Error(), w.detail(nil))
		return "startup-failed"
	}
	w.log("restart storage %s->%s max %d->%d", w.storage, o.Storage, w.max, o.MaxSize)
	res := "ok." + map[bool]string{true: "same-mode", false: "other-mode"}[o.Storage == w.storage]
	w.c, w.opts, w.storage, w.max, w.configuredMax = c, o, o.Storage, o.MaxSize, o.MaxSize
	w.restarts++
	return res
}

var ignoreXFSZ sync.Once

// lowerFileSizeLimit sets the soft RLIMIT_FSIZE of this process to limit bytes and returns the function that restores
// it. SIGXFSZ (sent along with the EFBIG error) is ignored for the lifetime of the process.
func lowerFileSizeLimit(limit uint64) (func(), bool) {
	ignoreXFSZ.Do(func() { signal.Ignore(syscall.SIGXFSZ) })
	var old syscall.Rlimit
	if err := syscall.Getrlimit(syscall.RLIMIT_FSIZE, &old); err != nil {
		return nil, false
	}
	if err := syscall.Setrlimit(syscall.RLIMIT_FSIZE, &syscall.Rlimit{Cur: limit, Max: old.Max}); err != nil {
		return nil, false
	}
	return func() { _ = syscall.Setrlimit(syscall.RLIMIT_FSIZE, &old) }, true
}

// serverStep drives the same cache through the HTTP and gRPC front ends,
// including uploads aborted part-way by the client.
func (w *acctWorld) serverStep(rng *rand.Rand, it acctItem) {
	size := int64(len(it.content))
	ops := append([]string{"bs-ok", "bs-abort", "bs-toomuch", "bs-rename", "bs-zstd-garbage", "http-put", "http-put-badhash", "http-put-abort", "batch-update"}, frontEndExtraOps...)
	op := ops[rng.IntN(len(ops))]
	outcome := "ok"
	uuid := fmt.Sprintf("%08x-0000-4000-8000-%012x", rng.Uint32(), rng.Uint64()&0xffffffffffff)
	w.started.Add(size)
	aborted := false
	defer func() {
		if !aborted { // an aborted call may still hold its reservation server-side after the client returned
			w.finished.Add(size)
		}
	}()
	switch op {
	case "bs-ok":
		ctx, cancel := lib.Ctx()
		_, err := w.srv.BSWrite(ctx, lib.ResUpload(uuid, it.hash, size), it.content, 1+rng.IntN(64*lib.KiB))
		cancel()
		if err != nil {
			outcome = "err"
		}
	case "bs-abort":
		// send part of the payload, then cancel the call
		aborted = true
		ctx, cancel := context.WithCancel(context.Background())
		before := w.srv.GRPCStarted.Load()
		st, err := w.srv.BS.Write(ctx)
		if err == nil {
			cut := rng.IntN(len(it.content) + 1)
			_ = st.Send(&bspb.WriteRequest{ResourceName: lib.ResUpload(uuid, it.hash, size), Data: it.content[:cut]})
			lib.WaitCounterAbove(&w.srv.GRPCStarted, before, 5*time.Second)
			if rng.IntN(2) == 0 {
				time.Sleep(time.Duration(rng.IntN(2000)) * time.Microsecond)
			}
		}
		cancel()
		outcome = "aborted"
	case "bs-toomuch":
		ctx, cancel := lib.Ctx()
		long := append(append([]byte(nil), it.content...), 9, 9, 9)
		_, err := w.srv.BSWrite(ctx, lib.ResUpload(uuid, it.hash, size), long, 1+rng.IntN(64*lib.KiB))
		cancel()
		if err != nil {
			outcome = "err"
		}
	case "bs-rename":
		ctx, cancel := lib.Ctx()
		half := len(it.content) / 2
		_, err := w.srv.BSWriteMsgs(ctx, []*bspb.WriteRequest{
			{ResourceName: lib.ResUpload(uuid, it.hash, size), Data: it.content[:half]},
			{ResourceName: lib.ResUpload(uuid, lib.RandHash(rng), size), Data: it.content[half:], FinishWrite: true},
		})
		cancel()
		if err != nil {
			outcome = "err"
		}
	case "bs-zstd-garbage":
		ctx, cancel := lib.Ctx()
		garbage := make([]byte, 1+rng.IntN(20000))
		for i := range garbage {
			garbage[i] = byte(rng.Uint32())
		}
		_, err := w.srv.BSWrite(ctx, lib.ResUploadZstd(uuid, it.hash, size), garbage, 8192)
		cancel()
		if err != nil {
			outcome = "err"
		}
	case "http-put", "http-put-badhash":
		body := it.content
		if op == "http-put-badhash" {
			body = append([]byte(nil), body...)
			body[rng.IntN(len(body))] ^= 1
		}
		res := w.srv.HTTPPut("/cas/"+it.hash, body, nil)
		if res.Status != 200 {
			outcome = fmt.Sprint(res.Status)
		}
	case "http-put-abort":
		// raw socket: announce Content-Length, send part of the body, close
		aborted = true
		if conn, err := net.Dial("tcp", w.srv.HTTPURL[len("http://"):]); err == nil {
			before := w.srv.HTTPStarted.Load()
			cut := rng.IntN(len(it.content))
			fmt.Fprintf(conn, "PUT /cas/%s HTTP/1.1\r\nHost: x\r\nContent-Length: %d\r\n\r\n", it.hash, size)
			_, _ = conn.Write(it.content[:cut])
			lib.WaitCounterAbove(&w.srv.HTTPStarted, before, 5*time.Second)
			_ = conn.Close()
		}
		outcome = "aborted"
	case "bs-zstd-ok", "bs-zstd-abort", "bs-zstd-cut", "http-put-zstd", "http-put-zstd-abort", "http-ac-put-abort":
		outcome, aborted = w.frontEndExtra(rng, op, it, uuid)
		if outcome == "" {
			return
		}
	case "batch-update":
		ctx, cancel := lib.Ctx()
		_, err := w.srv.CAS.BatchUpdateBlobs(ctx, &pb.BatchUpdateBlobsRequest{Requests: []*pb.BatchUpdateBlobsRequest_Request{{Digest: &pb.Digest{Hash: it.hash, SizeBytes: size}, Data: it.content}}})
		cancel()
		if err != nil {
			outcome = "err"
		}
	}
	w.r.Count("op." + op + "." + outcome)
	w.log("%s %s size=%d -> %s", op, it.hash[:8], size, outcome)
}

// settle waits (bounded, persistent-state oracle) until the server has
// finished handlers whose clients already gave up: reservations must return
// to zero. Returns false when they never do.
func (w *acctWorld) settle() string {
	if w.srv == nil {
		return "ok"
	}
	return w.srv.Settle(20 * time.Second)
}

func (w *acctWorld) detail(extra any) map[string]any {
	w.histMu.Lock()
	defer w.histMu.Unlock()
	return map[string]any{"case": w.caseID, "max_size": w.max, "storage": w.storage, "history": append([]string(nil), w.hist...), "observed": extra}
}

// quiescentAcct evaluates M-acct (plus the external views) on a fresh snapshot.
func (w *acctWorld) quiescentAcct() (disk.VerifSnap, []string, []string) {
	snap := lib.Snapshot(w.c)
	instant := lib.CheckAcct(snap) // holds at every instant, whatever may still be running
	if snap.MaxSize != w.configuredMax {
		instant = append(instant, fmt.Sprintf("MaxSize %d reported, %d configured", snap.MaxSize, w.configuredMax))
	}
	var atRest []string // holds once nothing runs any more
	if snap.ReservedSize != 0 {
		atRest = append(atRest, fmt.Sprintf("reservedSize=%d with no request in flight", snap.ReservedSize))
	}
	atRest = append(atRest, lib.CheckStatsAgree(w.c, snap)...)
	if w.srv != nil {
		atRest = append(atRest, w.srv.CheckStatusPage(snap)...)
	}
	return snap, instant, atRest
}

// checkQuiescent evaluates both monitors at a quiescent point.
func (w *acctWorld) checkQuiescent(phase string) {
	if w.phaseOverride != "" {
		phase, w.phaseOverride = w.phaseOverride, ""
	}
	switch w.settle() {
	case "reserved":
		if w.which == "C03" {
			_, reserved, _, _ := w.c.Stats()
			w.r.Violation("C03:"+phase+":reserved-never-released", fmt.Sprintf("reserved bytes stay at %d although no handler is running (20 s after every client call returned or was cancelled)", reserved), w.detail(nil))
		}
		return
	case "busy":
		w.r.Violation(w.which+":"+phase+":handler-never-returned", "a server handler is still running 20 s after every client call returned or was cancelled", w.detail(nil))
		return
	}
	w.r.Count("snapshots")
	if w.which == "C03" {
		snap, instant, atRest := w.quiescentAcct()
		w.r.Distinct(w.storage, len(snap.Entries), snap.CurrentSize, snap.ReservedSize)
		if len(instant) == 0 && len(atRest) > 0 && w.srv != nil {
			// A handler may return before the upload goroutine it started has come to its end (ByteStream.Write returns on
			// a receive error without waiting for the Put it fed): that goroutine may reserve, write and release AFTER
			// every handler is gone. What must hold at rest is therefore a persistent-state verdict: the discrepancy has
			// to show in every evaluation of a generous period.
			deadline := time.Now().Add(20 * time.Second)
			pause := time.Millisecond
			for len(instant) == 0 && len(atRest) > 0 && time.Now().Before(deadline) {
				time.Sleep(pause)
				if pause < 200*time.Millisecond {
					pause *= 2
				}
				w.r.Count("quiescence.re-polled")
				snap, instant, atRest = w.quiescentAcct()
			}
		}
		bad := append(instant, atRest...)
		if len(bad) > 0 {
			w.r.Violation("C03:"+phase+":"+classify(bad[0]), fmt.Sprintf("accounting invariant broken (%s): %v", phase, bad), w.detail(bad))
		}
		return
	}
	// listing + name/size comparison at every quiescent point; the deep parse of every compressed blob (two decoders +
	// content hash) at every 4th and at the end of each history (phase "concurrent-quiescence" / last step)
	w.dirChecks++
	deep := w.dirChecks%4 == 0 || phase != "sequential" || w.lastStep
	// (with front ends, goroutines of handlers whose client gave up may still create and remove their temporary file)
	d, snap, verdict := lib.CheckDirQuiescentOpts(w.c, lib.DirQuiescence{Deep: deep, LingeringWriters: w.srv != nil})
	w.r.Distinct(w.storage, len(snap.Entries), snap.CurrentSize, snap.ReservedSize)
	if deep {
		w.r.Count("dir.deep_checks")
	}
	switch verdict {
	case "violated":
		w.r.Violation("C04:"+phase+":"+dirClass(d), fmt.Sprintf("directory != index at quiescence (%s): %s", phase, d.String()), w.detail(d))
	case "inconclusive":
		w.r.Inconclusive("deletion backlog did not drain within the watchdog")
	case "ok":
		if deep {
			// AC/RAW entries carry no digest: complete == the bytes of a value that was accepted for the key
			// (AC/RAW values are written through the disk API only, i.e. by no lingering writer; an entry evicted since the
			// snapshot has no file any more and is skipped)
			if bad := w.checkAcceptedValues(snap); len(bad) > 0 {
				w.r.Violation("C04:"+phase+":ac-raw-entry-not-an-accepted-value", fmt.Sprintf("AC/RAW entries whose bytes are not a value accepted for their key (%s): %v", phase, bad), w.detail(bad))
			}
		}
		if w.px == nil { // (with a backend an existence check may be answered by it)
			if lost := lib.CheckEntriesFound(w.c, snap); len(lost) > 0 {
				w.r.Violation("C04:"+phase+":file-of-entry-not-found-by-lookups", fmt.Sprintf("files on disk whose index entries no lookup finds (%s): %v", phase, lost), w.detail(lost))
			}
		}
	}
	w.r.CountN("files_listed", int64(len(snap.Entries)))
}

func classify(s string) string {
	for _, k := range []string{"currentSize", "uncompressedSize", "reservedSize", "index map", "Stats()", "/status", "duplicate", "MaxSize"} {
		if len(s) >= len(k) && (bytes.Contains([]byte(s), []byte(k))) {
			return k
		}
	}
	return "other"
}

func dirClass(d lib.DirDiscrepancy) string {
	switch {
	case len(d.Missing) > 0:
		return "entry-without-file"
	case len(d.BadSize) > 0:
		return "size-mismatch"
	case len(d.BadBlob) > 0:
		return "malformed-blob"
	default:
		return "surplus-file"
	}
}

func runAcctEngine(r *lib.Run, which string) {
	r.SetRule("random histories over 3-12 overlapping keys (CAS/AC/RAW) on tiny caches: put/overwrite/get/contains/find-missing/validated-AC/failing uploads/proxy fetches; " +
		"sequential (monitor after every step) then 2-8 concurrent clients with hook-injected delays (sampler + quiescence). " +
		"distinct = (storage mode, #entries, accounted size, reserved) states observed at monitor points")
	r.Assume("snapshot hook disk.VerifSnapshot copies the index under the cache's own mutex")
	nSeq := r.N(250, 2000)
	nConc := r.N(60, 500)
	if which == "C04" {
		nSeq, nConc = r.N(150, 1500), r.N(50, 400) // every step walks the directory tree
	}
	maxOps := r.N(40, 120)
	rng := r.Rng("acct")

	var hookDelay atomic.Bool
	hookRng := rand.New(rand.NewPCG(uint64(r.Seed), 99))
	var hookMu sync.Mutex
	var hookHits sync.Map
	disk.VerifSetHook(func(point, key string, n int64) {
		c, _ := hookHits.LoadOrStore(point, new(atomic.Int64))
		c.(*atomic.Int64).Add(1)
		if point == "lru.removed" || !hookDelay.Load() {
			return
		}
		hookMu.Lock()
		d, us := hookRng.IntN(4), 200+hookRng.IntN(800)
		hookMu.Unlock()
		if d == 0 {
			time.Sleep(time.Duration(us) * time.Microsecond)
		}
	})
	defer disk.VerifSetHook(nil)
	hookCount := func(point string) int64 {
		if c, ok := hookHits.Load(point); ok {
			return c.(*atomic.Int64).Load()
		}
		return 0
	}

	pool := lib.NewDirPool("acct")
	defer pool.Close()
	for i := 0; i < nSeq+nConc; i++ {
		concurrent := i >= nSeq
		storage := []string{"zstd", "uncompressed"}[rng.IntN(2)]
		withProxy := rng.IntN(5) == 0
		viaServer := rng.IntN(5) == 0
		// (max_size need not be a multiple of the 4 KiB accounting block)
		maxes := []int64{8 * lib.KiB, 12 * lib.KiB, 16 * lib.KiB, 40 * lib.KiB, 100 * lib.KiB, 256 * lib.KiB, lib.MiB, 4 * lib.MiB, 10000, 20479, 50001, 100*lib.KiB + 123, lib.MiB + 4095}
		max := maxes[rng.IntN(len(maxes))]
		w := &acctWorld{r: r, which: which, rng: rng, max: max, configuredMax: max, storage: storage, caseID: fmt.Sprintf("%s-s%d-h%d", which, r.Seed, i), hookCount: hookCount}
		w.ownDir = pool.Get()
		opts := lib.ServerOpts{Dir: w.ownDir, MaxSize: max, Storage: storage, ZstdImpl: []string{"go", "cgo"}[rng.IntN(2)], NoGRPC: !viaServer}
		if withProxy {
			w.px = lib.NewFakeProxy(storage == "zstd")
			w.px.ReadHook = w.proxyReadHook
			opts.Proxy = w.px
		}
		if viaServer {
			srv, err := lib.StartServer(opts)
			if err != nil {
				r.Inconclusive("server start: " + err.Error())
				return
			}
			w.srv, w.c = srv, srv.Cache
		} else {
			c, dir, err := lib.NewCache(opts)
			if err != nil {
				r.Inconclusive("cache start: " + err.Error())
				return
			}
			w.c = c
			_ = dir
		}
		w.opts = opts
		// key pools: sizes relative to max (sub-block, block edges, fits, exactly fills, exceeds)
		nk := 3 + rng.IntN(10)
		sizes := []int64{1, 100, 4095, 4096, 4097, max / 8, max / 8, max / 4, max / 4, max / 3, max / 2, max - 8192, max - 4096, max - 100, max, max + 1}
		for k := 0; k < nk; k++ {
			sz := sizes[rng.IntN(len(sizes))]
			if sz < 1 {
				sz = 1
			}
			if sz > max+4096 {
				sz = max + 4096
			}
			b := lib.GenBlob(rng, int(sz), lib.Pick(rng, lib.ContentKinds), fmt.Sprintf("%s-k%d", w.caseID, k))
			w.cas = append(w.cas, acctItem{kind: cache.CAS, hash: lib.Sha256Hex(b), content: b})
		}
		for k := 0; k < 2+rng.IntN(3); k++ {
			w.acKeys = append(w.acKeys, lib.RandHash(rng))
		}
		nops := 5 + rng.IntN(maxOps)
		if !concurrent {
			for s := 0; s < nops; s++ {
				w.step(rng, false)
				w.lastStep = s == nops-1
				w.checkQuiescent("sequential")
				r.Eval()
			}
			r.Count("histories.sequential")
		} else {
			if w.srv == nil && rng.IntN(3) == 0 {
				// populate under one configuration, restart under another, then run the concurrent phase on the mixed directory
				for s := 0; s < nops/3+2; s++ {
					w.step(rng, true)
				}
				r.Count("op.restart-before-concurrent." + w.restart(rng))
			}
			hookDelay.Store(true)
			w.concurrent = true
			workers := 2 + rng.IntN(7)
			// in about a third of the histories the workers stop at barriers (everything pauses, both monitors at
			// quiescence, everything resumes) instead of being checked only once at the very end
			phases := 1
			if rng.IntN(3) == 0 {
				phases = 2 + rng.IntN(2)
				r.Count("histories.concurrent.with-barriers")
			}
			perPhase := (nops/2 + 1 + phases - 1) / phases
			for ph := 0; ph < phases; ph++ {
				var wg sync.WaitGroup
				stop := make(chan struct{})
				// sampler: M-acct at arbitrary instants
				var samplerWG sync.WaitGroup
				if which == "C03" {
					samplerWG.Add(1)
					go func() {
						defer samplerWG.Done()
						for {
							select {
							case <-stop:
								return
							default:
							}
							f := w.finished.Load()
							snap := lib.Snapshot(w.c)
							total, reserved, _, _ := w.c.Stats()
							s := w.started.Load()
							r.Count("sampler.snapshots")
							r.Distinct(w.storage, len(snap.Entries), snap.CurrentSize, snap.ReservedSize)
							if snap.ReservedSize > 0 {
								r.Count("sampler.snapshots_with_reservation")
							}
							bad := lib.CheckAcct(snap)
							if snap.MaxSize != w.configuredMax {
								bad = append(bad, fmt.Sprintf("MaxSize %d reported, %d configured", snap.MaxSize, w.configuredMax))
							}
							// what Stats() reports at an arbitrary instant, judged on its own (between two snapshots anything may
							// have happened): 0 <= reserved <= total <= the configured max_size
							if reserved < 0 || reserved > total || total > w.configuredMax {
								bad = append(bad, fmt.Sprintf("Stats() at an arbitrary instant: total %d, reserved %d, configured max_size %d", total, reserved, w.configuredMax))
							}
							// (only for synchronous disk-API histories: a server handler may legitimately outlive its client call for a moment)
							if w.srv == nil && snap.ReservedSize > s-f {
								bad = append(bad, fmt.Sprintf("reservedSize %d exceeds the declared sizes of all operations open at that instant (<= %d)", snap.ReservedSize, s-f))
							}
							if w.srv == nil && reserved > s-f {
								bad = append(bad, fmt.Sprintf("Stats() reports reservedSize %d, more than the declared sizes of all operations open at that instant (<= %d)", reserved, s-f))
							}
							if len(bad) > 0 {
								r.Violation("C03:concurrent-sample:"+classify(bad[0]), fmt.Sprintf("accounting invariant broken at an arbitrary instant: %v", bad), w.detail(bad))
								return
							}
							time.Sleep(50 * time.Microsecond)
						}
					}()
				}
				for wk := 0; wk < workers; wk++ {
					wg.Add(1)
					wrng := rand.New(rand.NewPCG(uint64(r.Seed)*1000+uint64(i), uint64(wk*8+ph)))
					go func() {
						defer wg.Done()
						for s := 0; s < perPhase; s++ {
							w.step(wrng, true)
							r.Eval()
						}
					}()
				}
				wg.Wait()
				close(stop)
				samplerWG.Wait()
				if ph < phases-1 {
					r.Count("concurrent.barrier-checks")
					w.checkQuiescent("concurrent-barrier")
				}
			}
			hookDelay.Store(false)
			w.checkQuiescent("concurrent-quiescence")
			r.Count("histories.concurrent")
			r.CountN("concurrency.max_workers", 0)
		}
		if i < 3 {
			r.Sample(w.detail(nil))
		}
		if w.srv != nil {
			w.srv.Close()
		}
		if w.ownDir != "" {
			lib.WaitEvictionsDrained(w.c, 2*time.Second)
			pool.Put(w.ownDir)
		}
		if r.Violations() > 5 {
			break
		}
	}
	if r.Violations() == 0 {
		// the forced schedules of C07 (readers of corrupt entries vs eviction / re-upload, refused commits, fetch vs
		// upload ...) judged here for the accounting invariant only (C03) / for directory == index only (C04)
		hc := lib.NewHookCtl(uint64(r.Seed))
		hc.Install()
		runGateScenarios(r, hc, pool, rng, r.N(3, 30), map[string]string{"C03": "acct", "C04": "dir"}[which])
		hc.Remove()
	}
	hookHits.Range(func(k, v any) bool {
		r.CountN("hook."+k.(string), v.(*atomic.Int64).Load())
		return true
	})
}

func init() {
	lib.Register("C03", func(r *lib.Run) { runAcctEngine(r, "C03") })
	lib.Register("C04", func(r *lib.Run) { runAcctEngine(r, "C04") })
}

// Package c16 checks property C16: ByteStream.Write and QueryWriteStatus
// follow the upload protocol (DESIGN.md §3 C16).
//
// Runtime monitoring against the in-process server: every generated call is
// classified from the property statement alone (must succeed / must fail and
// store nothing / left open) and compared with the status, committed_size and
// the state afterwards (FindMissingBlobs, QueryWriteStatus, read-back).
package c16

import (
	"bytes"
	"context"
	"errors"
	"fmt"
	"io"
	"runtime"
	"strings"
	"sync"
	"time"

	"verif/harness/lib"

	pb "github.com/buchgr/bazel-remote/v2/genproto/build/bazel/remote/execution/v2"
	bs "google.golang.org/genproto/googleapis/bytestream"
	"google.golang.org/grpc/codes"
)

func init() { lib.Register("C16", run) }

// expectation classes derived from the statement
const (
	mustSucceedNew   = "succeed"       // absent blob, well-formed upload: OK, committed = bytes sent, present
	mustSucceedEarly = "succeed-early" // blob present: OK, committed = size | -1, still present
	mustFail         = "fail"          // absent blob: call fails, nothing stored
	open             = "open"          // statement silent: success => committed size and presence right
)

type world struct {
	r   *lib.Run
	srv map[string]*lib.Server // by storage mode (no backend) or proxy world name
	pws map[string]*proxyWorld // by proxy world name

	// quiesce: cases run under RLock; the persistent-state probe for a call
	// that got no answer takes the write lock so that every other handler has
	// drained and the remaining in-flight handler is its own.
	quiesce sync.RWMutex
	parked  map[string]int64 // handlers already attributed as parked, by mode (guarded by quiesce write lock)

	deadlineScale time.Duration

	usedMu sync.Mutex
	used   map[string]bool // mode/hash of blobs already used in this batch (tiny blobs collide)
}

func run(r *lib.Run) {
	r.SetRule("distinct tuple = (storage mode, kind, class, fault/malformed variant, blob present before (how), first offset, " +
		"instance class, metadata class, uuid case, chunking, empty-message positions, finish_write placement, size class, extent)")
	n := r.N(500, 12000)
	if raceEnabled {
		// The race detector makes every call an order of magnitude dearer (shadow
		// memory for multi-MiB buffers); the -race build explores a fixed smaller
		// number of calls, still a pure function of seed and tier.
		n = r.N(250, 2000)
	}
	specs := genSpecs(r, n)
	r.Extra("calls_generated", len(specs))

	w := &world{r: r, parked: map[string]int64{}, deadlineScale: 1}
	if raceEnabled {
		w.deadlineScale = 8
	}
	workers := runtime.GOMAXPROCS(0) / 2
	if workers < 2 {
		workers = 2
	}
	if workers > 8 {
		workers = 8
	}
	r.Extra("workers", workers)
	r.Extra("race_build", raceEnabled)

	const batch = 1500
	for start := 0; start < len(specs); start += batch {
		end := min(start+batch, len(specs))
		if !w.startServers() {
			return
		}
		ch := make(chan *spec)
		var wg sync.WaitGroup
		for i := 0; i < workers; i++ {
			wg.Add(1)
			go func() {
				defer wg.Done()
				for s := range ch {
					w.runCase(s)
				}
			}()
		}
		for i := start; i < end; i++ {
			ch <- &specs[i]
		}
		close(ch)
		wg.Wait()
		w.stopServers()
	}

	// ---- worlds with a proxy backend (one set of servers for the whole phase:
	// every proxied cache starts 512 lookup workers that never stop)
	np := r.N(120, 2400)
	if raceEnabled {
		np = r.N(60, 400)
	}
	pspecs := genProxySpecs(r, np, len(specs))
	r.Extra("proxy_world_calls_generated", len(pspecs))
	if !w.startProxyWorlds() {
		return
	}
	ch := make(chan *spec)
	var wg sync.WaitGroup
	for i := 0; i < workers; i++ {
		wg.Add(1)
		go func() {
			defer wg.Done()
			for s := range ch {
				w.runCase(s)
			}
		}()
	}
	for i := range pspecs {
		ch <- &pspecs[i]
	}
	close(ch)
	wg.Wait()
	w.stopServers()
}

func (w *world) startProxyWorlds() bool {
	w.srv = map[string]*lib.Server{}
	w.pws = map[string]*proxyWorld{}
	w.parked = map[string]int64{}
	w.usedMu.Lock()
	w.used = map[string]bool{}
	w.usedMu.Unlock()
	for _, name := range proxyWorldNames {
		pw, px, err := newProxyWorld(name)
		if err == nil {
			var s *lib.Server
			s, err = lib.StartServer(lib.ServerOpts{MaxSize: 64 << 30, Storage: pw.mode, Proxy: px})
			if err == nil {
				w.srv[name], w.pws[name] = s, pw
				continue
			}
			pw.close()
		}
		w.r.Inconclusive("cannot start proxy world " + name + ": " + err.Error())
		w.stopServers()
		return false
	}
	return true
}

func (w *world) startServers() bool {
	w.srv = map[string]*lib.Server{}
	w.parked = map[string]int64{}
	w.usedMu.Lock()
	w.used = map[string]bool{}
	w.usedMu.Unlock()
	for _, mode := range []string{"zstd", "uncompressed"} {
		s, err := lib.StartServer(lib.ServerOpts{MaxSize: 64 << 30, Storage: mode})
		if err != nil {
			w.r.Inconclusive("cannot start in-process server (" + mode + "): " + err.Error())
			w.stopServers()
			return false
		}
		w.srv[mode] = s
	}
	return true
}

func (w *world) stopServers() {
	for mode, s := range w.srv {
		// Every client call has returned.  Handlers attributed to calls without
		// answer stay parked; any other handler still in flight after a generous
		// wait cannot be explained by the workload.
		deadline := time.Now().Add(20 * time.Second * w.deadlineScale)
		for {
			extra := s.Inflight() - w.parked[mode]
			if extra == 0 {
				break
			}
			if time.Now().After(deadline) {
				w.r.Inconclusive(fmt.Sprintf("server (%s) did not settle at the end of a batch: %d unexplained in-flight handlers", mode, extra))
				break
			}
			time.Sleep(2 * time.Millisecond)
		}
		s.Close()
	}
	w.srv = nil
	for _, pw := range w.pws {
		pw.close()
	}
	w.pws = nil
}

// ---------------------------------------------------------------------------

type callResult struct {
	resp      *bs.WriteResponse
	err       error
	sentMsgs  int   // messages accepted by Send
	sendErr   error // first Send error (io.EOF = the server had already ended the call)
	noAnswer  bool  // the harness watchdog fired: neither success nor failure from the server
	elapsedMs int64
}

// doWrite drives one ByteStream.Write call with an explicit message sequence.
func doWrite(ctx context.Context, srv *lib.Server, msgs []msg, noClose bool) (cr callResult) {
	t0 := time.Now()
	defer func() { cr.elapsedMs = time.Since(t0).Milliseconds() }()
	st, err := srv.BS.Write(ctx)
	if err != nil {
		cr.err = err
		return cr
	}
	for _, m := range msgs {
		err := st.Send(&bs.WriteRequest{ResourceName: m.Name, WriteOffset: m.Off, Data: m.Data, FinishWrite: m.Finish})
		if err != nil {
			cr.sendErr = err // the call has ended on the server side; the status comes from Recv
			break
		}
		cr.sentMsgs++
	}
	if noClose {
		// "without requiring the rest of the stream": wait for the answer without half-closing
		resp := new(bs.WriteResponse)
		if err := st.RecvMsg(resp); err != nil {
			cr.err = err
		} else {
			cr.resp = resp
			if err := st.RecvMsg(new(bs.WriteResponse)); err != io.EOF {
				if err == nil {
					err = errors.New("second response on a client-streaming call")
				}
				cr.err, cr.resp = err, nil
			}
		}
	} else {
		cr.resp, cr.err = st.CloseAndRecv()
	}
	// The only deadline in play is the harness watchdog (the transport's timer
	// may report it a moment before ctx.Err() does, so the code decides).
	if c := lib.Code(cr.err); cr.err != nil && (c == codes.DeadlineExceeded || c == codes.Canceled) {
		cr.noAnswer = true
	}
	return cr
}

// probe is the state of a digest as the server reports it.
type probe struct {
	fmPresent   bool
	qwsErr      error
	qwsComplete bool
	qwsSize     int64
	errs        []string
}

func (w *world) probeState(srv *lib.Server, hash string, size int64, qwsName string) probe {
	var p probe
	ctx, cancel := w.probeCtx()
	defer cancel()
	miss, err := srv.FindMissing(ctx, &pb.Digest{Hash: hash, SizeBytes: size})
	if err != nil {
		p.errs = append(p.errs, "FindMissingBlobs: "+err.Error())
	} else {
		p.fmPresent = len(miss) == 0
	}
	resp, err := srv.BS.QueryWriteStatus(ctx, &bs.QueryWriteStatusRequest{ResourceName: qwsName})
	p.qwsErr = err
	if err == nil {
		p.qwsComplete, p.qwsSize = resp.Complete, resp.CommittedSize
	}
	return p
}

func msgSummary(ms []msg) []string {
	var out []string
	for i, m := range ms {
		if i >= 10 && i < len(ms)-4 {
			if i == 10 {
				out = append(out, fmt.Sprintf("... %d more messages ...", len(ms)-14))
			}
			continue
		}
		s := fmt.Sprintf("#%d off=%d len=%d", i, m.Off, len(m.Data))
		if m.Name != "" {
			s += " name=" + m.Name
		}
		if m.Finish {
			s += " finish_write"
		}
		out = append(out, s)
	}
	return out
}

func errStr(err error) string {
	if err == nil {
		return "OK"
	}
	s := fmt.Sprintf("%s: %v", lib.Code(err), err)
	if len(s) > 300 {
		s = s[:300]
	}
	return s
}

// classify derives the obligation from the statement and the generated call only.
func classify(s *spec, b *built) (string, string) {
	if len(b.msgs) == 0 {
		// no message, hence no resource name that could be parsed
		return mustFail, "no-message"
	}
	if !b.nameOK {
		if s.Present != "" {
			return open, "present-malformed"
		}
		return mustFail, "malformed:" + s.Malformed
	}
	if len(b.blob) == 0 {
		return open, "empty-blob" // whether the empty blob "already exists" is not said
	}
	if s.Present != "" {
		c := "present"
		if strings.HasPrefix(s.Present, "backend") {
			c = "present-" + s.Present // present in the proxy backend only
		}
		if b.firstOff != 0 {
			c += "-offset"
		}
		if strings.HasPrefix(s.Present, "backend") {
			// "Already exists" is not said to include a blob that only the proxy backend
			// holds: a front end that returns early only for locally present blobs and
			// otherwise performs the upload it is given satisfies the statement too. Only
			// the conditional obligation is judged (success => committed size is the early
			// value or the bytes sent, blob present); what happened is counted.
			return open, c
		}
		return mustSucceedEarly, c
	}
	if b.firstOff != 0 {
		return mustFail, "offset:" + s.FirstOff
	}
	if b.renameIdx > 0 && (b.finishIdx < 0 || b.renameIdx <= b.finishIdx) {
		return mustFail, "rename:" + s.Rename
	}
	if !b.lengthOK {
		return mustFail, "length:" + s.LenFault
	}
	if b.finishIdx < 0 {
		return open, "no-finish"
	}
	if b.finishIdx != len(b.msgs)-1 {
		return open, "after-finish:" + s.After
	}
	if b.laterOffBad {
		return open, "later-offsets"
	}
	return mustSucceedNew, "wellformed"
}

// probeCtx is the watchdog for the state probes (expiry = inconclusive).
func (w *world) probeCtx() (context.Context, context.CancelFunc) {
	return context.WithTimeout(context.Background(), 120*time.Second*w.deadlineScale)
}

// key names the server the case runs against.
func (s *spec) key() string {
	if s.World != "" {
		return s.World
	}
	return s.Mode
}

func (w *world) deadlineFor(payload int64) time.Duration {
	d := 20*time.Second + time.Duration(payload>>20)*5*time.Second
	return d * w.deadlineScale
}

func (w *world) runCase(s *spec) {
	r := w.r
	w.quiesce.RLock()
	locked := true
	defer func() {
		if locked {
			w.quiesce.RUnlock()
		}
	}()

	srv := w.srv[s.key()]
	b := w.buildFresh(s)
	if b == nil {
		r.Count("skipped.no-unused-content-of-this-size")
		return
	}
	exp, class := classify(s, b)
	size := int64(len(b.blob))
	tag := func(sym string) string { return fmt.Sprintf("C16:write:%s:%s:%s", s.Kind, class, sym) }

	hist := []string{}
	logf := func(f string, a ...any) { hist = append(hist, fmt.Sprintf(f, a...)) }
	var cr callResult
	detail := func(extra map[string]any) map[string]any {
		d := map[string]any{
			"spec": s, "expectation": exp, "class": class,
			"first_resource_name": b.name, "digest": fmt.Sprintf("%s/%d", b.hash, size),
			"messages": msgSummary(b.msgs), "recv_without_close": b.noClose,
			"payload_bytes_to_finish": b.sentToFinish, "payload_bytes_total": b.sentAll,
			"status": errStr(cr.err), "history": hist,
			"replay": fmt.Sprintf("VERIF_SEED=%d check C16 %s (case id %d)", r.Seed, r.Tier, s.ID),
		}
		if cr.resp != nil {
			d["committed_size"] = cr.resp.CommittedSize
		}
		for k, v := range extra {
			d[k] = v
		}
		return d
	}

	r.Count("mode." + s.Mode)
	r.Count("kind." + s.Kind)
	r.Count("expect." + exp)

	// ---- the call without any message (no digest involved)
	if len(b.msgs) == 0 {
		ctx, cancel := context.WithTimeout(context.Background(), w.deadlineFor(0))
		cr = doWrite(ctx, srv, nil, false)
		cancel()
		logf("Write: open stream, CloseSend without any message -> %s (%d ms)", errStr(cr.err), cr.elapsedMs)
		r.Eval()
		r.Distinct(s.Mode, "no-message")
		switch {
		case cr.noAnswer:
			locked = false
			w.quiesce.RUnlock()
			w.noAnswer(s, srv, "C16:write:no-message", detail)
		case cr.err == nil:
			r.Count("write.no-message.ok")
			r.Violation("C16:write:no-message:succeeded", "ByteStream.Write without any message (no resource name) ended successfully", detail(nil))
		default:
			r.Count("write.no-message.failed." + lib.Code(cr.err).String())
		}
		return
	}

	// ---- pre-state
	ctx, cancel := w.probeCtx()
	defer cancel()
	switch s.Present {
	case "http":
		res := srv.HTTPPut("/cas/"+b.hash, b.blob, nil)
		logf("pre: HTTP PUT /cas/%s (%d bytes) -> %d %v", b.hash, size, res.Status, res.Err)
		if res.Err != nil || res.Status != 200 {
			r.Inconclusive(fmt.Sprintf("case %d: could not pre-store the blob over HTTP: %d %v", s.ID, res.Status, res.Err))
			return
		}
	case "backend-unknown", "backend-exact":
		w.pws[s.World].setBackend(b.hash, b.blob, s.Present)
		logf("pre: blob placed in the %s backend only (%s)", s.World, s.Present)
	case "bs-identity", "bs-zstd":
		var err error
		if s.Present == "bs-identity" {
			_, err = srv.BSWrite(ctx, lib.ResUpload(genUUID(r.Rng(fmt.Sprint("pre", s.ID)), false), b.hash, size), b.blob, 64*lib.KiB)
		} else {
			_, err = srv.BSWrite(ctx, lib.ResUploadZstd(genUUID(r.Rng(fmt.Sprint("pre", s.ID)), false), b.hash, size), lib.ZstdEncodeKPCached(b.blob, 2), 64*lib.KiB)
		}
		logf("pre: plain ByteStream.Write (%s) -> %s", s.Present, errStr(err))
		if err != nil {
			r.Violation("C16:write:"+strings.TrimPrefix(s.Present, "bs-")+":wellformed:preput-failed",
				"a plain well-formed ByteStream upload (used to pre-store a blob) failed", detail(nil))
			return
		}
	}
	qname := b.goodName
	before := w.probeState(srv, b.hash, size, qname)
	logf("pre: FindMissing present=%v; QueryWriteStatus(%s) -> %s complete=%v committed=%d", before.fmPresent, qname, errStr(before.qwsErr), before.qwsComplete, before.qwsSize)
	wantBefore := s.Present != ""
	if len(before.errs) > 0 {
		r.Inconclusive(fmt.Sprintf("case %d: pre-state probe failed: %v", s.ID, before.errs))
		return
	}
	backendOnly := strings.HasPrefix(s.Present, "backend")
	if size > 0 && before.fmPresent != wantBefore {
		if !backendOnly {
			r.Inconclusive(fmt.Sprintf("case %d: pre-state not as arranged (present=%v, wanted %v)", s.ID, before.fmPresent, wantBefore))
			return
		}
		// the harness put the blob into the backend itself: the model is the authority
		r.Count("findmissing.disagrees-with-backend-model")
	}
	if backendOnly {
		before.fmPresent = true
	}
	w.judgeQWS(s, "before", before, size, detail)

	if s.Class == "concurrent" {
		w.runConcurrent(s, b, srv, detail, logf)
		return
	}

	// ---- the call
	cctx, ccancel := context.WithTimeout(context.Background(), w.deadlineFor(b.sentAll))
	cr = doWrite(cctx, srv, b.msgs, b.noClose)
	ccancel()
	logf("Write: %d of %d messages accepted by Send (send error: %v) -> %s (%d ms)", cr.sentMsgs, len(b.msgs), cr.sendErr, errStr(cr.err), cr.elapsedMs)

	if cr.noAnswer {
		locked = false
		w.quiesce.RUnlock()
		w.noAnswer(s, srv, fmt.Sprintf("C16:write:%s:%s", s.Kind, class), detail)
		return
	}
	if c := lib.Code(cr.err); cr.err != nil && (c == codes.Unavailable || c == codes.Canceled || c == codes.DeadlineExceeded) {
		r.Inconclusive(fmt.Sprintf("case %d: transport-level outcome %s", s.ID, errStr(cr.err)))
		return
	}

	// ---- post-state
	after := w.probeState(srv, b.hash, size, qname)
	logf("post: FindMissing present=%v; QueryWriteStatus -> %s complete=%v committed=%d", after.fmPresent, errStr(after.qwsErr), after.qwsComplete, after.qwsSize)
	if len(after.errs) > 0 {
		r.Inconclusive(fmt.Sprintf("case %d: post-state probe failed: %v", s.ID, after.errs))
		return
	}
	if !b.nameOK && s.Present == "" {
		// QueryWriteStatus with the malformed name itself: whatever it answers,
		// it must not claim a complete upload for a blob that is not there.
		resp, err := srv.BS.QueryWriteStatus(ctx, &bs.QueryWriteStatusRequest{ResourceName: b.name})
		r.Eval()
		r.Count("qws.malformed-name." + lib.Code(err).String())
		if err == nil && resp.Complete && !after.fmPresent {
			r.Violation("C16:qws:"+s.Kind+":malformed:"+s.Malformed+":complete-but-absent",
				"QueryWriteStatus with an unparsable name reports a complete upload for an absent blob", detail(nil))
		}
	}
	rkind := "identity"
	if s.Kind == "zstd" && s.ID%4 == 0 {
		rkind = "zstd"
	}
	rname := readName(s.Inst, rkind, b.hash, size)
	got, rerr := readBack(ctx, srv, rname, len(b.blob))
	readOK := rerr == nil
	readEqual := false
	if readOK {
		if rkind == "zstd" {
			dec, derr := lib.ZstdDecodeKP(got)
			readEqual = derr == nil && bytes.Equal(dec, b.blob)
		} else {
			readEqual = bytes.Equal(got, b.blob)
		}
	}
	logf("post: ByteStream.Read(%s) -> %s, %d bytes, equal=%v", rname, errStr(rerr), len(got), readEqual)
	if c := lib.Code(rerr); rerr != nil && c != codes.NotFound {
		if c == codes.InvalidArgument {
			r.Violation(fmt.Sprintf("C16:read:%s:inst=%s:name-rejected", rkind, s.InstClass),
				"ByteStream.Read rejected a conformant resource name", detail(map[string]any{"read_name": rname}))
		} else if size > 0 {
			r.Inconclusive(fmt.Sprintf("case %d: read-back ended with %s", s.ID, errStr(rerr)))
			return
		}
	}

	r.Eval()
	r.Distinct(s.key(), s.Kind, class, s.Present, s.FirstOff, s.InstClass, s.MetaClass, s.UUIDCase, s.Chunking, s.Empties, s.Finish,
		lib.SizeClassName(s.Size), s.Extent, s.RepeatName)
	okStr := "failed." + lib.Code(cr.err).String()
	if cr.err == nil {
		okStr = "ok"
	}
	r.Count(fmt.Sprintf("write.%s.%s.%s", strings.SplitN(class, ":", 2)[0], s.Kind, okStr))
	if strings.Contains(class, ":") {
		r.Count("variant." + class + "." + okStr)
	}
	if s.World != "" {
		loc := s.Present
		if loc == "" {
			loc = "absent"
		} else if loc == "http" {
			loc = "local"
		}
		r.Count(fmt.Sprintf("world.%s.%s.%s.%s", s.World, loc, s.Kind, okStr))
	}
	r.Count("inst." + s.InstClass)
	r.Count("meta." + s.MetaClass)
	r.Count("uuid." + s.UUIDCase)
	r.Count("chunking." + s.Chunking)
	if s.Empties != "" {
		r.Count("empties." + s.Empties)
	}
	r.Count("finish." + s.Finish)
	r.Count("size." + lib.SizeClassName(s.Size))
	r.Count(fmt.Sprintf("messages.%s", msgCountClass(len(b.msgs))))
	if s.Present != "" {
		r.Count("present-by." + s.Present)
		r.Count("extent." + s.Extent)
		if b.firstOff != 0 {
			r.Count("present.first-offset-nonzero")
		}
	}
	if cr.sendErr != nil {
		r.Count("client.send-ended-early")
	}
	r.Sample(map[string]any{"id": s.ID, "class": class, "expect": exp, "kind": s.Kind, "mode": s.Mode, "name": b.name,
		"messages": len(b.msgs), "bytes": b.sentAll, "status": errStr(cr.err), "present_after": after.fmPresent})

	presentAfter := after.fmPresent
	stored := after.fmPresent || (after.qwsErr == nil && after.qwsComplete) || readOK

	wantCommitted := func() (int64, int64) {
		// second value: an alternative that is equally covered by the statement (or the same)
		switch {
		case strings.HasPrefix(s.Present, "backend") && s.Kind == "identity":
			return size, b.sentToFinish
		case strings.HasPrefix(s.Present, "backend"):
			return -1, b.sentToFinish
		case s.Present != "" && s.Kind == "identity":
			return size, size
		case s.Present != "":
			return -1, -1
		case class == "empty-blob" && s.Kind == "zstd":
			return -1, b.sentToFinish
		case strings.HasPrefix(class, "after-finish") && s.Kind == "zstd":
			return b.sentToFinish, b.sentAll
		}
		return b.sentToFinish, b.sentToFinish
	}

	successObligations := func() {
		w1, w2 := wantCommitted()
		if cr.resp == nil {
			r.Violation(tag("no-response"), "successful Write without a WriteResponse", detail(nil))
		} else if cs := cr.resp.CommittedSize; cs != w1 && cs != w2 {
			r.Violation(tag("committed-size"),
				fmt.Sprintf("successful Write reported committed_size %d, the statement requires %d", cs, w1),
				detail(map[string]any{"want_committed_size": w1, "chunking": s.Chunking, "finish": s.Finish}))
		} else {
			r.Count("committed-size.right")
		}
		if !presentAfter {
			r.Violation(tag("absent-after-success"), "blob reported missing by FindMissingBlobs after a successful Write", detail(nil))
		}
		if size > 0 || readOK {
			if !readOK {
				r.Violation(tag("unreadable-after-success"), "blob cannot be read back after a successful Write: "+errStr(rerr), detail(map[string]any{"read_name": rname}))
			} else if !readEqual {
				r.Violation(tag("readback-differs"), "blob read back after a successful Write differs from the uploaded content", detail(map[string]any{"read_name": rname, "read_len": len(got)}))
			} else {
				r.Count("readback." + rkind + ".equal")
			}
		}
	}

	switch exp {
	case mustSucceedNew, mustSucceedEarly:
		if cr.err != nil {
			sym := "failed"
			if lib.Code(cr.err) == codes.InvalidArgument && exp == mustSucceedNew {
				// most likely a name-shape problem: name the shape in the key
				sym = fmt.Sprintf("failed:inst=%s:meta=%s", s.InstClass, s.MetaClass)
			}
			what := "a well-formed upload of an absent blob failed: "
			if exp == mustSucceedEarly {
				what = "Write for a blob that already exists did not return early with success: "
			}
			r.Violation(tag(sym), what+errStr(cr.err), detail(nil))
			if exp == mustSucceedEarly && !presentAfter {
				r.Violation(tag("present-blob-lost"), "a blob present before the call is missing afterwards", detail(nil))
			}
		} else {
			successObligations()
		}
	case mustFail:
		if cr.err == nil {
			r.Violation(tag("succeeded"), "a call the statement requires to fail ended successfully", detail(nil))
		}
		if stored {
			r.Violation(tag("stored"), "a call the statement requires to fail and store nothing left the blob present",
				detail(map[string]any{"findmissing_present": after.fmPresent, "qws_complete": after.qwsComplete, "read_ok": readOK}))
		} else {
			r.Count("nothing-stored")
		}
	case open:
		if backendOnly {
			switch {
			case cr.err != nil:
				r.Count("backend-only." + s.Present + "." + s.Kind + ".failed")
			case cr.resp != nil && cr.resp.CommittedSize == map[bool]int64{true: size, false: -1}[s.Kind == "identity"]:
				r.Count("backend-only." + s.Present + "." + s.Kind + ".early-return-value")
			default:
				r.Count("backend-only." + s.Present + "." + s.Kind + ".other-committed-size")
			}
		}
		if cr.err == nil {
			r.Count("open.success")
			successObligations()
		} else {
			r.Count("open.failure")
			if s.Present != "" && !presentAfter {
				r.Violation(tag("present-blob-lost"), "a blob present before the call is missing afterwards", detail(nil))
			}
		}
	}
	w.judgeQWS(s, "after", after, size, detail)
}

// runConcurrent: the same absent blob uploaded by three well-formed calls at
// once (different uuid, chunking, kind).  Whether a call finds the blob already
// there is not determined, so each call must succeed with either the number
// of bytes it sent or the early-return value; afterwards the blob is present.
func (w *world) runConcurrent(s *spec, b *built, srv *lib.Server, detail func(map[string]any) map[string]any, logf func(string, ...any)) {
	r := w.r
	size := int64(len(b.blob))
	type one struct {
		sp spec
		b  *built
		cr callResult
	}
	calls := make([]*one, 3)
	for i := range calls {
		sp := *s
		if i > 0 {
			sp.Chunking = chunkings[(s.ID+3*i)%len(chunkings)]
			if sp.Chunking == "1B" && sp.Size > 4097 {
				sp.Chunking = "1K"
			}
			if i == 2 {
				if sp.Kind == "zstd" {
					sp.Kind, sp.Encoder = "identity", ""
				} else {
					sp.Kind, sp.Encoder = "zstd", "kp1"
				}
			}
			sp.UUIDCase = []string{"lower", "upper"}[i%2]
			sp.Finish = finishes[i%2]
		}
		bb := build(&sp) // same seed, id, size, content kind: same blob
		if bb.hash != b.hash {
			r.Inconclusive(fmt.Sprintf("case %d: concurrent variants produced different content", s.ID))
			return
		}
		calls[i] = &one{sp: sp, b: bb}
	}
	var wg sync.WaitGroup
	for _, c := range calls {
		wg.Add(1)
		go func() {
			defer wg.Done()
			ctx, cancel := context.WithTimeout(context.Background(), w.deadlineFor(c.b.sentAll)*2)
			defer cancel()
			c.cr = doWrite(ctx, srv, c.b.msgs, false)
		}()
	}
	wg.Wait()
	for i, c := range calls {
		cs := int64(-999)
		if c.cr.resp != nil {
			cs = c.cr.resp.CommittedSize
		}
		logf("concurrent Write #%d (%s, chunking %s, %d messages, %d bytes) -> %s committed=%d", i, c.sp.Kind, c.sp.Chunking, len(c.b.msgs), c.b.sentAll, errStr(c.cr.err), cs)
	}
	for _, c := range calls {
		if c.cr.noAnswer || lib.Code(c.cr.err) == codes.Unavailable {
			r.Inconclusive(fmt.Sprintf("case %d: a concurrent upload got no answer before the watchdog: %s", s.ID, errStr(c.cr.err)))
			return
		}
	}
	ctx, cancel := w.probeCtx()
	defer cancel()
	after := w.probeState(srv, b.hash, size, b.goodName)
	got, rerr := readBack(ctx, srv, readName(s.Inst, "identity", b.hash, size), len(b.blob))
	logf("post: FindMissing present=%v; QueryWriteStatus -> %s complete=%v committed=%d; read -> %s equal=%v", after.fmPresent, errStr(after.qwsErr), after.qwsComplete, after.qwsSize, errStr(rerr), bytes.Equal(got, b.blob))
	r.Eval()
	r.Distinct(s.Mode, "concurrent", s.InstClass, s.MetaClass, s.Chunking, lib.SizeClassName(s.Size))
	r.Count("size." + lib.SizeClassName(s.Size))
	for _, c := range calls {
		early := size
		if c.sp.Kind == "zstd" {
			early = -1
		}
		key := func(sym string) string { return fmt.Sprintf("C16:write:%s:concurrent-same-blob:%s", c.sp.Kind, sym) }
		switch {
		case c.cr.err != nil:
			r.Count("write.concurrent." + c.sp.Kind + ".failed." + lib.Code(c.cr.err).String())
			r.Violation(key("failed"), "one of three concurrent well-formed uploads of the same absent blob failed: "+errStr(c.cr.err), detail(nil))
		case c.cr.resp == nil || (c.cr.resp.CommittedSize != c.b.sentToFinish && c.cr.resp.CommittedSize != early):
			r.Violation(key("committed-size"), fmt.Sprintf("concurrent upload reported committed_size %v, neither the %d bytes sent nor the early-return value %d", c.cr.resp, c.b.sentToFinish, early), detail(nil))
		default:
			if c.cr.resp.CommittedSize == c.b.sentToFinish {
				r.Count("write.concurrent." + c.sp.Kind + ".ok.full")
			} else {
				r.Count("write.concurrent." + c.sp.Kind + ".ok.early")
			}
		}
	}
	anyOK := false
	for _, c := range calls {
		anyOK = anyOK || c.cr.err == nil
	}
	if anyOK {
		if !after.fmPresent {
			r.Violation("C16:write:"+s.Kind+":concurrent-same-blob:absent-after-success", "blob missing after successful concurrent uploads", detail(nil))
		} else if rerr != nil || !bytes.Equal(got, b.blob) {
			r.Violation("C16:write:"+s.Kind+":concurrent-same-blob:readback-differs", "blob unreadable or different after successful concurrent uploads: "+errStr(rerr), detail(nil))
		}
	}
	w.judgeQWS(s, "after", after, size, detail)
}

// buildFresh materialises the case with content no other case of this batch
// uses on the same server (blobs of 1 or 2 bytes collide; outcomes of
// different cases must not alias).
func (w *world) buildFresh(s *spec) *built {
	for try := 0; try < 3000; try++ {
		b := build(s)
		if len(b.blob) == 0 {
			return b
		}
		k := s.key() + "/" + b.hash
		w.usedMu.Lock()
		taken := w.used[k]
		if !taken {
			w.used[k] = true
		}
		w.usedMu.Unlock()
		if !taken {
			return b
		}
		s.Seed++
	}
	return nil
}

// readBack reads a resource completely (buffer sized for the expected length).
func readBack(ctx context.Context, srv *lib.Server, name string, hint int) ([]byte, error) {
	st, err := srv.BS.Read(ctx, &bs.ReadRequest{ResourceName: name})
	if err != nil {
		return nil, err
	}
	buf := make([]byte, 0, hint+64)
	for {
		m, err := st.Recv()
		if err == io.EOF {
			return buf, nil
		}
		if err != nil {
			return buf, err
		}
		buf = append(buf, m.Data...)
	}
}

func msgCountClass(n int) string {
	switch {
	case n == 1:
		return "1"
	case n <= 4:
		return "2-4"
	case n <= 64:
		return "5-64"
	case n <= 1024:
		return "65-1024"
	}
	return ">1024"
}

// judgeQWS: QueryWriteStatus reports complete with the full size exactly when
// the blob is present (presence as FindMissingBlobs reports it at the same
// quiescent point); a conformant name must be understood.
func (w *world) judgeQWS(s *spec, when string, p probe, size int64, detail func(map[string]any) map[string]any) {
	r := w.r
	r.Eval()
	kind := s.Kind
	if strings.HasPrefix(s.Present, "backend") {
		kind += ":" + s.Present // blob present in the proxy backend only
		r.Count("qws." + when + "." + s.World + "." + s.Present)
	}
	if p.qwsErr != nil {
		r.Count("qws." + when + ".error." + lib.Code(p.qwsErr).String())
		r.Violation(fmt.Sprintf("C16:qws:%s:inst=%s:meta=%s:name-rejected", s.Kind, s.InstClass, s.MetaClass),
			"QueryWriteStatus rejected a conformant resource name: "+errStr(p.qwsErr), detail(map[string]any{"when": when}))
		return
	}
	if size == 0 {
		r.Count("qws." + when + ".empty-blob")
		if p.qwsComplete && p.qwsSize != 0 {
			r.Violation("C16:qws:"+kind+":complete-size-wrong", fmt.Sprintf("QueryWriteStatus complete with committed_size %d for a blob of size 0", p.qwsSize), detail(map[string]any{"when": when}))
		}
		return
	}
	switch {
	case p.qwsComplete && p.fmPresent:
		r.Count("qws." + when + ".complete")
		if p.qwsSize != size {
			r.Violation("C16:qws:"+kind+":complete-size-wrong",
				fmt.Sprintf("QueryWriteStatus complete with committed_size %d for a present blob of size %d", p.qwsSize, size), detail(map[string]any{"when": when}))
		}
	case !p.qwsComplete && !p.fmPresent:
		r.Count("qws." + when + ".incomplete")
	case p.qwsComplete && !p.fmPresent:
		r.Violation("C16:qws:"+kind+":complete-but-absent", "QueryWriteStatus reports complete for a blob FindMissingBlobs reports missing", detail(map[string]any{"when": when}))
	default:
		r.Violation("C16:qws:"+kind+":incomplete-but-present", "QueryWriteStatus reports incomplete for a blob FindMissingBlobs reports present", detail(map[string]any{"when": when}))
	}
}

// noAnswer handles a call that neither succeeded nor failed before the
// (generous) client deadline.  The verdict is a persistent state, not the
// latency: after the client has cancelled, after a settle period, and with
// every other call drained, is a Write handler still in flight and parked?
// The caller has released its read lock.
func (w *world) noAnswer(s *spec, srv *lib.Server, keyPrefix string, detail func(map[string]any) map[string]any) {
	r := w.r
	r.Count("write.no-answer-before-deadline")
	// non-exclusive settle first (the client context is already cancelled)
	time.Sleep(3 * time.Second * w.deadlineScale)
	w.quiesce.Lock()
	defer w.quiesce.Unlock()
	// exclusive: every other client call has returned; their handlers end within moments
	deadline := time.Now().Add(2 * time.Second * w.deadlineScale)
	wait := time.Millisecond
	for srv.Inflight()-w.parked[s.key()] > 0 && time.Now().Before(deadline) {
		time.Sleep(wait)
		if wait < 500*time.Millisecond {
			wait *= 2
		}
	}
	extra := srv.Inflight() - w.parked[s.key()]
	if extra > 0 {
		// The handler count alone is a reading at one instant after a wall-clock settle
		// budget: on an overloaded machine a handler that is merely slow to unwind (its Put
		// goroutine in fsync, waiting for a disk semaphore, encoding) is still counted.
		// The verdict needs the persistent state itself: in three dumps, spaced apart, the
		// same handler blocked on a channel/condition with the same stack, and nothing of
		// the server working on its behalf in any of them.
		var views []dumpView
		for i := 0; i < 3; i++ {
			if i > 0 {
				time.Sleep(time.Second * w.deadlineScale)
			}
			views = append(views, viewDump(lib.SelfGoroutineDump()))
		}
		ids, why := stablyParked(views)
		if now := srv.Inflight() - w.parked[s.key()]; now != extra {
			ids, why = nil, fmt.Sprintf("the number of in-flight handlers moved from %d to %d while looking", extra, now)
		}
		// the dump is process-wide: handlers attributed to earlier calls (any server) are in it too
		var earlier int64
		for _, n := range w.parked {
			earlier += n
		}
		if why == "" && int64(len(ids)) <= earlier {
			why = "every stably blocked Write handler is already attributed to an earlier call"
		}
		if why != "" {
			r.Count("write.no-answer.handler-not-stably-parked")
			r.Inconclusive(fmt.Sprintf("case %d (%s): no answer before the client deadline and %d handler(s) still in flight, but not demonstrably parked (%s); latency is not a verdict", s.ID, keyPrefix, extra, why))
			return
		}
	}
	dump := lib.SelfGoroutineDump()
	sigs := lib.GoroutineSignatures(dump)
	parkedSigs := map[string]int{}
	for k, v := range sigs {
		if strings.HasPrefix(k, "server.(*grpcServer).Write") {
			parkedSigs[k] = v
		}
	}
	if extra <= 0 {
		r.Inconclusive(fmt.Sprintf("case %d (%s): no answer before the client deadline, but the handler ended after cancellation; latency is not a verdict", s.ID, keyPrefix))
		return
	}
	w.parked[s.key()]++
	r.Count("write.handler-parked")
	r.Violation(keyPrefix+":handler-parked",
		"ByteStream.Write neither succeeded nor failed: the client got only its own deadline and the server handler is still parked after cancellation and settle period ("+lib.SigString(parkedSigs)+")",
		detail(map[string]any{"inflight_handlers_unexplained": extra, "parked_write_goroutines": parkedSigs, "stack_excerpt": writeStack(dump)}))
}

// writeStack extracts the first goroutine block of the dump that is inside the Write handler itself.
func writeStack(dump string) string {
	for _, blk := range strings.Split(dump, "\n\n") {
		if strings.Contains(blk, "server.(*grpcServer).Write(") {
			if len(blk) > 1500 {
				blk = blk[:1500]
			}
			return blk
		}
	}
	return ""
}

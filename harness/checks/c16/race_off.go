//go:build !race

package c16

const raceEnabled = false

package c16

import (
	"fmt"
	"io"
	"net"
	"net/http"
	"net/url"
	"strconv"
	"sync"

	"verif/harness/lib"

	"github.com/buchgr/bazel-remote/v2/cache"
	"github.com/buchgr/bazel-remote/v2/cache/httpproxy"
)

// Worlds with a proxy backend.  "The blob is present" includes "present only
// in the backend": QueryWriteStatus must report it complete with the size
// from the resource name, and ByteStream.Write must return early with the
// blob size (blobs/) or -1 (compressed-blobs/).  A size-blind backend (the
// real httpproxy in zstd mode answers existence checks with size -1; the fake
// with ProxyPlan{UnknownSize:true}) must not leak its -1 into the answers.
//
// The content of every backend is scripted by the harness only: uploads that
// the front end writes through are discarded (FakeProxy.StorePuts=false, the
// object store drops PUT bodies), so "local", "backend-only" and "absent" stay
// exactly what the case arranged.

var proxyWorldNames = []string{"fake-zstd", "fake-uncompressed", "http-zstd", "http-uncompressed"}

type proxyWorld struct {
	name  string
	mode  string // storage mode of the front end
	fake  *lib.FakeProxy
	store *objStore
}

func worldMode(name string) string {
	if name == "fake-zstd" || name == "http-zstd" {
		return "zstd"
	}
	return "uncompressed"
}

// newProxyWorld creates the backend and returns the cache.Proxy for the front end.
func newProxyWorld(name string) (*proxyWorld, cache.Proxy, error) {
	pw := &proxyWorld{name: name, mode: worldMode(name)}
	switch name {
	case "fake-zstd", "fake-uncompressed":
		pw.fake = lib.NewFakeProxy(pw.mode == "zstd")
		return pw, pw.fake, nil
	case "http-zstd", "http-uncompressed":
		st, err := newObjStore()
		if err != nil {
			return nil, nil, err
		}
		pw.store = st
		u, err := url.Parse(st.URL)
		if err != nil {
			return nil, nil, err
		}
		// A bounded connection pool keeps the goroutine count low enough for -race builds.
		hc := &http.Client{Transport: &http.Transport{MaxIdleConnsPerHost: 32, MaxConnsPerHost: 32, DisableCompression: true}}
		p, err := httpproxy.New(u, pw.mode, hc, lib.DiscardLogger, lib.DiscardLogger, 2, 64)
		if err != nil {
			st.close()
			return nil, nil, err
		}
		return pw, p, nil
	}
	return nil, nil, fmt.Errorf("unknown proxy world %q", name)
}

// setBackend makes the blob present in the backend only.  loc is
// "backend-unknown" (existence answered without a size) or "backend-exact".
// The real HTTP backend is size-blind exactly in zstd mode; the generator
// labels its cases accordingly.
func (pw *proxyWorld) setBackend(hash string, blob []byte, loc string) {
	if pw.fake != nil {
		pw.fake.SetBlob(cache.CAS, hash, blob)
		if loc == "backend-unknown" {
			pw.fake.SetPlan(cache.CAS, hash, lib.ProxyPlan{UnknownSize: true})
		}
		return
	}
	if pw.mode == "zstd" {
		raw := lib.CasWrite(blob, lib.MiB, 1, func(c []byte) []byte { return lib.ZstdEncodeKPCached(c, 2) })
		pw.store.set("/cas.v2/"+hash, raw)
		return
	}
	pw.store.set("/cas/"+hash, blob)
}

func (pw *proxyWorld) close() {
	if pw.store != nil {
		pw.store.close()
	}
}

// objStore is the harness HTTP back end: an object store by request path
// (same shape as the one of the C10 check).  HEAD/GET answer 200 +
// Content-Length or 404; uploads are read and discarded.
type objStore struct {
	mu   sync.RWMutex
	objs map[string][]byte
	srv  *http.Server
	URL  string
}

func newObjStore() (*objStore, error) {
	s := &objStore{objs: map[string][]byte{}}
	ln, err := net.Listen("tcp", "127.0.0.1:0")
	if err != nil {
		return nil, err
	}
	s.srv = &http.Server{Handler: s}
	s.URL = "http://" + ln.Addr().String()
	go func() { _ = s.srv.Serve(ln) }()
	return s, nil
}

func (s *objStore) set(path string, body []byte) {
	s.mu.Lock()
	s.objs[path] = body
	s.mu.Unlock()
}

func (s *objStore) close() { _ = s.srv.Close() }

func (s *objStore) ServeHTTP(w http.ResponseWriter, r *http.Request) {
	switch r.Method {
	case http.MethodGet, http.MethodHead:
		s.mu.RLock()
		body, ok := s.objs[r.URL.Path]
		s.mu.RUnlock()
		if !ok {
			w.WriteHeader(http.StatusNotFound)
			return
		}
		w.Header().Set("Content-Length", strconv.Itoa(len(body)))
		w.Header().Set("Content-Type", "application/octet-stream")
		w.WriteHeader(http.StatusOK)
		if r.Method == http.MethodGet {
			_, _ = w.Write(body)
		}
	case http.MethodPut:
		_, _ = io.Copy(io.Discard, r.Body)
		w.WriteHeader(http.StatusOK)
	default:
		w.WriteHeader(http.StatusMethodNotAllowed)
	}
}

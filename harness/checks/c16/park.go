package c16

import (
	"regexp"
	"sort"
	"strings"
)

// Persistent-state reading of a goroutine dump (runtime.Stack, all goroutines)
// for the "handler parked" verdict.  A handler counts as parked only if it is
// blocked on a synchronisation primitive (not running, runnable or in a system
// call) with the same stack in several consecutive dumps, and if nothing that
// works on its behalf (a goroutine of the system under test inside the cache's
// write path or a closure of the Write handler) is running, runnable, or in a
// system call / network wait in any of these dumps.  Anything else is a handler
// that is still unwinding: latency, never a verdict.

const brPkg = "github.com/buchgr/bazel-remote/v2/"

var reHdr = regexp.MustCompile(`^goroutine (\d+) \[([^\],]+)`)

// wait reasons of a goroutine that cannot proceed on its own
var blockedStates = map[string]bool{
	"chan receive": true, "chan send": true, "select": true, "select (no cases)": true,
	"sync.Cond.Wait": true, "sync.WaitGroup.Wait": true, "semacquire": true,
	"sync.Mutex.Lock": true, "sync.RWMutex.Lock": true, "sync.RWMutex.RLock": true,
	"chan receive (nil chan)": true, "chan send (nil chan)": true,
}

type dumpView struct {
	handlers map[string]string // goroutine id of a Write handler -> "state|frames"
	blocked  map[string]bool   // goroutine id -> state is a blocked one
	busy     []string          // bazel-remote goroutines that are making (or may make) progress
}

func frames(block string) string {
	var fs []string
	for _, line := range strings.Split(block, "\n")[1:] {
		if strings.HasPrefix(line, "\t") || strings.HasPrefix(line, "created by") {
			continue
		}
		if i := strings.LastIndex(line, "("); i > 0 {
			line = line[:i]
		}
		fs = append(fs, line)
	}
	return strings.Join(fs, " < ")
}

// worksForWrite: the goroutine is inside a closure of the Write handler or inside the
// cache / codec packages (listeners in Accept, idle connection readers and the like are
// not work on behalf of a call; every other client call has drained by now).
func worksForWrite(blk string) bool {
	for _, p := range []string{"server.(*grpcServer).Write", "cache/disk.", "cache/disk/", "utils/", "cache/httpproxy", "cache/grpcproxy"} {
		if strings.Contains(blk, brPkg+p) {
			return true
		}
	}
	return false
}

func viewDump(dump string) dumpView {
	v := dumpView{handlers: map[string]string{}, blocked: map[string]bool{}}
	for _, blk := range strings.Split(dump, "\n\n") {
		m := reHdr.FindStringSubmatch(blk)
		if m == nil || !strings.Contains(blk, brPkg) {
			continue
		}
		id, state := m[1], m[2]
		if strings.Contains(blk, brPkg+"server.(*grpcServer).Write(") {
			v.handlers[id] = state + "|" + frames(blk)
			v.blocked[id] = blockedStates[state]
			continue
		}
		if !blockedStates[state] && worksForWrite(blk) {
			// running / runnable / syscall / IO wait / sleep / GC ...: may still move
			fr := frames(blk)
			if i := strings.Index(fr, brPkg); i >= 0 {
				fr = fr[i:]
			}
			if len(fr) > 160 {
				fr = fr[:160]
			}
			v.busy = append(v.busy, state+": "+fr)
		}
	}
	sort.Strings(v.busy)
	return v
}

// stablyParked: ids of Write handlers that are blocked with an identical stack in every
// view, provided no view shows a busy goroutine of the system under test.
func stablyParked(views []dumpView) (ids []string, why string) {
	if len(views) == 0 {
		return nil, "no dump"
	}
	for i, v := range views {
		if len(v.busy) > 0 {
			return nil, "dump " + string(rune('1'+i)) + ": goroutines of the server still working: " + strings.Join(v.busy, "; ")
		}
	}
	for id, sig := range views[0].handlers {
		ok := views[0].blocked[id]
		for _, v := range views[1:] {
			if v.handlers[id] != sig || !v.blocked[id] {
				ok = false
			}
		}
		if ok {
			ids = append(ids, id)
		}
	}
	sort.Strings(ids)
	if len(ids) == 0 {
		return nil, "no Write handler is blocked with the same stack in all dumps"
	}
	return ids, ""
}

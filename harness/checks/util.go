package checks

import "os"

func removeAll(d string) error { return os.RemoveAll(d) }

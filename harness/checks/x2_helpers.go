package checks

import (
	"bytes"
	"context"
	"fmt"
	"io"
	"math/rand/v2"
	"net"
	"os"
	"path/filepath"
	"strings"
	"sync"
	"sync/atomic"
	"syscall"
	"time"

	"verif/harness/lib"

	"github.com/buchgr/bazel-remote/v2/cache"
	"github.com/buchgr/bazel-remote/v2/cache/disk"
	bspb "google.golang.org/genproto/googleapis/bytestream"
)

// Helpers of the C03/C04 engine (acct_engine.go): values an AC/RAW key may hold, uploads and fetches held open by the
// harness (exact reservation levels), damaged / unlinked files that reads have to repair, calls during which no file
// can be opened, and the compressed / aborted upload variants of the front ends.

// ---------------------------------------------------------------------------------------------------------------
// AC/RAW values: "complete and of the recorded size" is observable for entries whose file carries no digest only by
// comparing the bytes with what was accepted.

func valueKey(kind cache.EntryKind, key string) string { return cache.LookupKey(kind, key) }

// accept records the value of an acknowledged AC/RAW upload. In a sequential history it is THE value of the key from
// now on; in a concurrent phase any value acknowledged during the phase may be the one that stays.
func (w *acctWorld) accept(kind cache.EntryKind, key string, val []byte) {
	if kind == cache.CAS {
		return
	}
	w.accMu.Lock()
	defer w.accMu.Unlock()
	if w.accepted == nil {
		w.accepted = map[string]map[string]bool{}
	}
	k := valueKey(kind, key)
	if !w.concurrent || w.accepted[k] == nil {
		w.accepted[k] = map[string]bool{}
		if h, ok := w.backendVal[k]; ok {
			w.accepted[k][h] = true // (the backend still holds its value: a later local miss brings it back)
		}
	}
	w.accepted[k][lib.Sha256Hex(val)] = true
}

// backendDropped: the backend no longer holds a value for the key.
func (w *acctWorld) backendDropped(kind cache.EntryKind, key string) {
	w.accMu.Lock()
	delete(w.backendVal, valueKey(kind, key))
	w.accMu.Unlock()
}

// acceptAlso adds a value the key may hold as well (a value offered by the backend: stored only if the key was not
// held locally and the fetch completed).
func (w *acctWorld) acceptAlso(kind cache.EntryKind, key string, val []byte) {
	if kind == cache.CAS {
		return
	}
	w.accMu.Lock()
	defer w.accMu.Unlock()
	if w.accepted == nil {
		w.accepted = map[string]map[string]bool{}
	}
	k := valueKey(kind, key)
	if w.accepted[k] == nil {
		w.accepted[k] = map[string]bool{}
	}
	w.accepted[k][lib.Sha256Hex(val)] = true
	if w.backendVal == nil {
		w.backendVal = map[string]string{}
	}
	w.backendVal[k] = lib.Sha256Hex(val)
}

// checkAcceptedValues reads the file of every AC/RAW entry: its bytes have to be a value that was accepted for the key.
func (w *acctWorld) checkAcceptedValues(snap disk.VerifSnap) []string {
	var bad []string
	w.accMu.Lock()
	defer w.accMu.Unlock()
	for _, e := range snap.Entries {
		if strings.HasPrefix(e.Key, "cas/") {
			continue
		}
		b, err := os.ReadFile(filepath.Join(snap.Dir, lib.IndependentEntryPath(e)))
		if err != nil {
			continue // (entry without file: M-dir's business)
		}
		w.r.Count("dir.ac_raw_values_compared")
		if !w.accepted[e.Key][lib.Sha256Hex(b)] {
			bad = append(bad, fmt.Sprintf("%s: the file holds %d bytes (sha256 %s...) which is none of the %d value(s) accepted for this key", e.Key, len(b), lib.Sha256Hex(b)[:12], len(w.accepted[e.Key])))
		}
	}
	return bad
}

// ---------------------------------------------------------------------------------------------------------------
// Operations held open by the harness.

type readGate struct {
	first   atomic.Bool
	relOnce sync.Once
	reached chan struct{}
	release chan struct{}
}

func (g *readGate) letGo() { g.relOnce.Do(func() { close(g.release) }) }

func newReadGate() *readGate {
	return &readGate{reached: make(chan struct{}), release: make(chan struct{})}
}

// pass blocks the first caller until the gate is released; every other caller passes at once (also while the first
// one is still waiting).
func (g *readGate) pass() {
	if g.first.CompareAndSwap(false, true) {
		close(g.reached)
		<-g.release
	}
}

// gatedReader is the body of an upload: its first Read (which comes after the space was reserved) blocks until the
// harness lets go; then it delivers the data or fails.
type gatedReader struct {
	g    *readGate
	data []byte
	pos  int
	fail atomic.Bool
}

func (r *gatedReader) Read(p []byte) (int, error) {
	r.g.pass()
	if r.fail.Load() {
		return 0, errInjectedRead
	}
	if r.pos >= len(r.data) {
		return 0, io.EOF
	}
	n := copy(p, r.data[r.pos:])
	r.pos += n
	return n, nil
}

type heldOp struct {
	desc   string
	kind   cache.EntryKind
	key    string
	val    []byte
	size   int64 // bytes this operation has reserved while it is open
	g      *readGate
	rd     *gatedReader // nil for a fetch
	done   chan error
	pkey   string // fetch: key of the read hook
	isPut  bool
	failed bool // decided at start for a fetch
}

// proxyReadHook is installed as FakeProxy.ReadHook for the lifetime of the world.
func (w *acctWorld) proxyReadHook(kind cache.EntryKind, hash string, delivered int) {
	if f, ok := w.gates.Load(kind.String() + "/" + hash); ok {
		f.(func(int))(delivered)
	}
}

const heldWatchdog = 30 * time.Second

// startHeld starts one upload or sized backend fetch and parks it inside its reader. It returns false when the watchdog
// expired.
func (w *acctWorld) startHeld(rng *rand.Rand) bool {
	ctx := context.Background()
	snap := lib.Snapshot(w.c)
	present := map[string]bool{}
	for _, e := range snap.Entries {
		present[e.Key] = true
	}
	h := &heldOp{g: newReadGate(), done: make(chan error, 1)}
	choice := rng.IntN(3)
	var absent []acctItem
	if w.px != nil {
		for _, c := range w.cas {
			if !present["cas/"+c.hash] {
				absent = append(absent, c)
			}
		}
	}
	if choice == 2 && len(absent) == 0 {
		choice = rng.IntN(2)
	}
	before := w.hookCount("put.afterReserve")
	switch choice {
	case 0, 1:
		h.isPut = true
		if choice == 0 {
			it := w.cas[rng.IntN(len(w.cas))]
			h.kind, h.key, h.val = cache.CAS, it.hash, it.content
		} else {
			h.kind, h.key, h.val = []cache.EntryKind{cache.AC, cache.RAW}[rng.IntN(2)], w.acKeys[rng.IntN(len(w.acKeys))], makeAR(rng, w.cas, w.caseID)
		}
		h.size = int64(len(h.val))
		h.rd = &gatedReader{g: h.g, data: h.val}
		h.desc = fmt.Sprintf("put %s/%s size=%d", h.kind, h.key[:8], h.size)
		go func() { h.done <- w.c.Put(ctx, h.kind, h.key, h.size, h.rd) }()
	default:
		it := absent[rng.IntN(len(absent))]
		h.kind, h.key, h.val, h.size = cache.CAS, it.hash, it.content, int64(len(it.content))
		h.pkey = "cas/" + it.hash
		h.failed = rng.IntN(3) == 0
		w.px.SetBlob(cache.CAS, it.hash, it.content)
		if h.failed {
			w.px.SetPlan(cache.CAS, it.hash, lib.ProxyPlan{ErrAt: 1 + rng.IntN(min(len(it.content), 40)), Once: true})
		}
		w.gates.Store(h.pkey, func(int) { h.g.pass() })
		h.desc = fmt.Sprintf("fetch cas/%s size=%d fail=%v", h.key[:8], h.size, h.failed)
		zstd := rng.IntN(3) == 0
		go func() {
			var rc io.ReadCloser
			var err error
			if zstd {
				rc, _, err = w.c.GetZstd(ctx, it.hash, h.size, 0)
			} else {
				rc, _, err = w.c.Get(ctx, cache.CAS, it.hash, h.size, 0)
			}
			if rc != nil {
				_, _ = io.Copy(io.Discard, rc)
				_ = rc.Close()
			}
			h.done <- err
		}()
	}
	select {
	case <-h.g.reached:
	case err := <-h.done:
		// ended without reading anything (refused)
		w.endHeldBookkeeping(h)
		w.r.Count("held.start.ended-before-reading")
		w.log("hold: %s -> ended before reading: %v", h.desc, err)
		return true
	case <-time.After(heldWatchdog):
		w.r.Inconclusive("a held operation neither read nor returned within the watchdog")
		return false
	}
	if h.isPut && w.hookCount("put.afterReserve") == before {
		// the reader is being drained by an upload that was refused before it reserved anything
		h.g.letGo()
		select {
		case <-h.done:
		case <-time.After(heldWatchdog):
			w.r.Inconclusive("a refused upload did not return within the watchdog")
			return false
		}
		w.r.Count("held.start.refused")
		w.log("hold: %s -> refused", h.desc)
		return true
	}
	w.held = append(w.held, h)
	w.r.Count("held.start." + map[bool]string{true: "upload", false: "fetch"}[h.isPut])
	w.log("hold: %s -> open", h.desc)
	return true
}

func (w *acctWorld) endHeldBookkeeping(h *heldOp) {
	if h.pkey != "" {
		w.gates.Delete(h.pkey)
		w.px.ClearPlan(cache.CAS, h.key)
		w.px.Delete(cache.CAS, h.key)
	}
}

// releaseHeld lets one held operation run to its end (completing or failing).
func (w *acctWorld) releaseHeld(i int, rng *rand.Rand) bool {
	h := w.held[i]
	outcome := "completes"
	if h.isPut && rng.IntN(3) == 0 {
		h.rd.fail.Store(true)
		outcome = "reader-fails"
	} else if h.failed {
		outcome = "stream-fails"
	}
	h.g.letGo()
	var err error
	select {
	case err = <-h.done:
	case <-time.After(heldWatchdog):
		w.r.Inconclusive("a released operation did not return within the watchdog")
		return false
	}
	w.held = append(w.held[:i], w.held[i+1:]...)
	w.endHeldBookkeeping(h)
	if err == nil && h.isPut && outcome == "completes" {
		w.accept(h.kind, h.key, h.val)
	}
	res := "ok"
	if err != nil {
		res = "err"
	}
	w.r.Count("held.release." + outcome + "." + res)
	w.log("release: %s -> %s %s", h.desc, outcome, res)
	return true
}

// checkHeld: with k operations parked inside their readers and nothing else running, the reserved bytes are exactly
// the declared sizes of those k operations - whatever was accepted, refused or failed at that level in between.
func (w *acctWorld) checkHeld(where string) {
	if w.which != "C03" {
		return
	}
	snap := lib.Snapshot(w.c)
	var want int64
	var open []string
	for _, h := range w.held {
		want += h.size
		open = append(open, h.desc)
	}
	w.r.Count("held.checks")
	w.r.Count(fmt.Sprintf("held.level.%d-open", len(w.held)))
	if want > 0 && snap.CurrentSize-snap.ReservedSize > 0 {
		w.r.Count("held.checks.entries-next-to-reservations")
	}
	w.r.Distinct(w.storage, len(snap.Entries), snap.CurrentSize, snap.ReservedSize)
	bad := lib.CheckAcct(snap)
	if snap.ReservedSize != want {
		bad = append(bad, fmt.Sprintf("reservedSize %d != %d, the declared sizes of the %d operation(s) the harness holds open %v", snap.ReservedSize, want, len(w.held), open))
	}
	if snap.MaxSize != w.configuredMax {
		bad = append(bad, fmt.Sprintf("MaxSize %d reported, %d configured", snap.MaxSize, w.configuredMax))
	}
	bad = append(bad, lib.CheckStatsAgree(w.c, snap)...)
	if len(bad) > 0 {
		w.r.Violation("C03:held-reservations:"+where+":"+classify(bad[0]), fmt.Sprintf("accounting invariant broken while the harness holds %d operation(s) open (%s): %v", len(w.held), where, bad), w.detail(bad))
	}
}

// holdPhase: park 1-3 uploads / fetches, run ordinary operations at that reservation level (refusals for lack of
// room, commits refused because of the reservations, overwrites, evictions), then let the parked ones go one by one.
func (w *acctWorld) holdPhase(rng *rand.Rand) {
	w.holding = true
	defer func() { w.holding = false }()
	w.r.Count("op.hold")
	n := 1 + rng.IntN(3)
	for i := 0; i < n; i++ {
		if !w.startHeld(rng) {
			break
		}
		w.checkHeld("after-start")
	}
	m := 1 + rng.IntN(5)
	for j := 0; j < m && len(w.held) > 0; j++ {
		w.step(rng, false)
		w.checkHeld("after-step")
		w.r.Eval()
	}
	for len(w.held) > 0 {
		if !w.releaseHeld(rng.IntN(len(w.held)), rng) {
			// watchdog: let everything go and stop judging
			for _, h := range w.held {
				h.g.letGo()
			}
			w.held = nil
			return
		}
		w.checkHeld("after-release")
	}
}

// ---------------------------------------------------------------------------------------------------------------
// Files damaged or removed behind the cache's back: the next read has to un-index the entry, and the monitors have to
// hold afterwards (phase "repair" in the finding keys).

func (w *acctWorld) damageAndRead(rng *rand.Rand, op string, concurrent bool) string {
	ctx := context.Background()
	snap := lib.Snapshot(w.c)
	var cands []disk.VerifEntry
	for _, e := range snap.Entries {
		if op == "damage-header" && (!strings.HasPrefix(e.Key, "cas/") || e.Legacy) {
			continue // only a compressed CAS file has a header whose damage a read notices
		}
		cands = append(cands, e)
	}
	if len(cands) == 0 {
		return ""
	}
	e := cands[rng.IntN(len(cands))]
	path := filepath.Join(snap.Dir, lib.IndependentEntryPath(e))
	if op == "unlink-file" {
		if os.Remove(path) != nil {
			return "gone-already"
		}
	} else {
		f, err := os.OpenFile(path, os.O_WRONLY, 0)
		if err != nil {
			return "gone-already"
		}
		_, _ = f.WriteAt([]byte{0xff, 0xff, 0xff, 0xff}, 0)
		_ = f.Close()
	}
	kind, hash := splitKey(e.Key)
	readers := 1 + rng.IntN(3)
	w.started.Add(int64(readers) * e.Size) // (with a backend a failed local read reserves the stated size)
	defer w.finished.Add(int64(readers) * e.Size)
	var wg sync.WaitGroup
	var served atomic.Int64
	for i := 0; i < readers; i++ {
		how := rng.IntN(3)
		if i == 0 {
			how = rng.IntN(2) // at least one read that opens the file
		}
		wg.Add(1)
		go func() {
			defer wg.Done()
			var rc io.ReadCloser
			var err error
			switch {
			case how == 2:
				_, _ = w.c.Contains(ctx, kind, hash, -1)
				return
			case how == 1 && kind == cache.CAS:
				rc, _, err = w.c.GetZstd(ctx, hash, e.Size, 0)
			case how == 0 && kind == cache.CAS:
				rc, _, err = w.c.Get(ctx, kind, hash, e.Size, 0)
			default:
				rc, _, err = w.c.Get(ctx, kind, hash, -1, 0)
			}
			if err == nil && rc != nil {
				_, _ = io.Copy(io.Discard, rc)
				_ = rc.Close()
				served.Add(1)
			}
		}()
	}
	wg.Wait()
	if !concurrent {
		w.phaseOverride = "repair"
	}
	w.r.Count(fmt.Sprintf("repair.%s.%s.readers-%d", op, strings.SplitN(e.Key, "/", 2)[0], readers))
	if !concurrent {
		still := false
		for _, x := range lib.Snapshot(w.c).Entries {
			if x.Key == e.Key && x.Random == e.Random {
				still = true
			}
		}
		if still {
			return "still-indexed"
		}
		return "unindexed"
	}
	return "done"
}

// ---------------------------------------------------------------------------------------------------------------
// Calls during which no file can be created / opened: the soft RLIMIT_NOFILE of the process is lowered to zero for
// the duration of one call (descriptors that are open stay usable). Process-wide, therefore only in sequential
// disk-API histories. For a backend fetch the limit is lowered either before the call (the local file cannot be
// created) or from inside the backend's stream (the file is being written: re-opening it for the reader fails).

func lowerOpenFileLimit() (func(), bool) {
	var old syscall.Rlimit
	if err := syscall.Getrlimit(syscall.RLIMIT_NOFILE, &old); err != nil {
		return nil, false
	}
	if err := syscall.Setrlimit(syscall.RLIMIT_NOFILE, &syscall.Rlimit{Cur: 0, Max: old.Max}); err != nil {
		return nil, false
	}
	return func() { _ = syscall.Setrlimit(syscall.RLIMIT_NOFILE, &old) }, true
}

func (w *acctWorld) noFileStep(rng *rand.Rand, op string, it acctItem) string {
	ctx := context.Background()
	size := int64(len(it.content))
	if op == "put-nofile" {
		kind, key, val := cache.CAS, it.hash, it.content
		if rng.IntN(3) == 0 {
			kind, key, val = []cache.EntryKind{cache.AC, cache.RAW}[rng.IntN(2)], w.acKeys[rng.IntN(len(w.acKeys))], makeAR(rng, w.cas, w.caseID)
		}
		restore, ok := lowerOpenFileLimit()
		if !ok {
			return ""
		}
		err := w.c.Put(ctx, kind, key, int64(len(val)), bytes.NewReader(val))
		restore()
		if err != nil {
			return "err"
		}
		w.accept(kind, key, val)
		return "ok"
	}
	if w.px == nil {
		return ""
	}
	for _, e := range lib.Snapshot(w.c).Entries {
		if e.Key == "cas/"+it.hash {
			return "" // held locally: nothing would be fetched
		}
	}
	w.px.SetBlob(cache.CAS, it.hash, it.content)
	sz := size
	if rng.IntN(2) == 0 {
		sz = -1
	}
	var restore func()
	stage := "create"
	if rng.IntN(2) == 0 {
		stage = "reopen"
		var once sync.Once
		w.gates.Store("cas/"+it.hash, func(int) {
			once.Do(func() { restore, _ = lowerOpenFileLimit() })
		})
	} else {
		var ok bool
		if restore, ok = lowerOpenFileLimit(); !ok {
			return ""
		}
	}
	rc, _, err := w.c.Get(ctx, cache.CAS, it.hash, sz, 0)
	if restore != nil {
		restore()
	}
	w.gates.Delete("cas/" + it.hash)
	res := stage + "."
	switch {
	case err != nil:
		res += "err"
	case rc == nil:
		res += "miss"
	default:
		_, _ = io.Copy(io.Discard, rc)
		_ = rc.Close()
		res += "served"
	}
	w.px.Delete(cache.CAS, it.hash)
	return res
}

// ---------------------------------------------------------------------------------------------------------------
// Front ends: compressed uploads (complete, aborted, cut) and aborted action-cache uploads.

var frontEndExtraOps = []string{"bs-zstd-ok", "bs-zstd-abort", "bs-zstd-cut", "http-put-zstd", "http-put-zstd-abort", "http-ac-put-abort"}

// frontEndExtra runs one of frontEndExtraOps; it returns the outcome and whether the client gave up while the server
// may still be working on the request.
func (w *acctWorld) frontEndExtra(rng *rand.Rand, op string, it acctItem, uuid string) (string, bool) {
	size := int64(len(it.content))
	z := lib.ZstdEncodeKP(it.content, 1+rng.IntN(3))
	rawAbort := func(head string, body []byte) {
		// raw socket: announce the whole body, send part of it, close
		if conn, err := net.Dial("tcp", w.srv.HTTPURL[len("http://"):]); err == nil {
			before := w.srv.HTTPStarted.Load()
			fmt.Fprint(conn, head)
			_, _ = conn.Write(body[:rng.IntN(len(body))])
			lib.WaitCounterAbove(&w.srv.HTTPStarted, before, 5*time.Second)
			_ = conn.Close()
		}
	}
	switch op {
	case "bs-zstd-ok":
		ctx, cancel := lib.Ctx()
		defer cancel()
		if _, err := w.srv.BSWrite(ctx, lib.ResUploadZstd(uuid, it.hash, size), z, 1+rng.IntN(64*lib.KiB)); err != nil {
			return "err", false
		}
		return "ok", false
	case "bs-zstd-cut":
		// a valid frame that stops early, then finish_write
		ctx, cancel := lib.Ctx()
		defer cancel()
		if _, err := w.srv.BSWrite(ctx, lib.ResUploadZstd(uuid, it.hash, size), z[:rng.IntN(len(z))], 1+rng.IntN(64*lib.KiB)); err != nil {
			return "err", false
		}
		return "ok", false
	case "bs-zstd-abort":
		ctx, cancel := context.WithCancel(context.Background())
		before := w.srv.GRPCStarted.Load()
		st, err := w.srv.BS.Write(ctx)
		if err == nil {
			_ = st.Send(&bspb.WriteRequest{ResourceName: lib.ResUploadZstd(uuid, it.hash, size), Data: z[:rng.IntN(len(z)+1)]})
			lib.WaitCounterAbove(&w.srv.GRPCStarted, before, 5*time.Second)
			if rng.IntN(2) == 0 {
				time.Sleep(time.Duration(rng.IntN(2000)) * time.Microsecond)
			}
		}
		cancel()
		return "aborted", true
	case "http-put-zstd":
		res := w.srv.HTTPPut("/cas/"+it.hash, z, map[string]string{"Content-Encoding": "zstd", "X-Digest-SizeBytes": fmt.Sprint(size)})
		if res.Status != 200 {
			return fmt.Sprint(res.Status), false
		}
		return "ok", false
	case "http-put-zstd-abort":
		rawAbort(fmt.Sprintf("PUT /cas/%s HTTP/1.1\r\nHost: x\r\nContent-Encoding: zstd\r\nX-Digest-SizeBytes: %d\r\nContent-Length: %d\r\n\r\n", it.hash, size, len(z)), z)
		return "aborted", true
	case "http-ac-put-abort":
		key := w.acKeys[rng.IntN(len(w.acKeys))]
		val := makeAR(rng, w.cas, w.caseID)
		if len(val) == 0 {
			return "", false
		}
		rawAbort(fmt.Sprintf("PUT /ac/%s HTTP/1.1\r\nHost: x\r\nContent-Length: %d\r\n\r\n", key, len(val)), val)
		return "aborted", true
	}
	return "", false
}

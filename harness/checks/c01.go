package checks

import (
	"bytes"
	"context"
	"encoding/base64"
	"encoding/hex"
	"fmt"
	"math/rand/v2"
	"net"
	"net/http"
	"net/http/httptest"
	"strings"
	"sync"
	"time"

	"verif/harness/lib"

	"github.com/buchgr/bazel-remote/v2/cache"
	asset "github.com/buchgr/bazel-remote/v2/genproto/build/bazel/remote/asset/v1"
	pb "github.com/buchgr/bazel-remote/v2/genproto/build/bazel/remote/execution/v2"
	bspb "google.golang.org/genproto/googleapis/bytestream"
	"google.golang.org/grpc/codes"
)

// C01 — CAS uploads are acknowledged only if the bytes match the digest, on
// every write path. Client-boundary oracle: the harness knows the true bytes,
// the declared digest and the wire encoding it produced itself.

var c01Paths = []string{"http-put", "http-put-zstd", "batch", "batch-zstd", "bs-blobs", "bs-zstd", "splice", "splice-nodigest", "ac-inline-stdout", "ac-inline-stderr", "ac-inline-file", "ac-inline-nodigest", "fetchblob", "fetchblob-nolen", "fetchblob-nosri"}

// corruption kinds; which apply where is decided in c01Applicable.
var c01Corruptions = []string{"none", "flip", "trunc1", "trunchalf", "trunc0", "ext1", "extbig", "size+1", "size-1", "size0", "sizehuge",
	"hashother", "hash-short", "hash-upper", "hash-nonhex",
	"z-wrongmagic", "z-trunc1", "z-trunchalf", "z-corrupt", "z-badchecksum", "z-garbage-after", "z-second-frame", "z-multiframe", "z-empty-frame-after", "z-skippable-before",
	"bad-compressor", "abort-cancel", "abort-noFinish", "abort-tcpclose",
	"splice-missing-chunk", "splice-reordered", "splice-sizes-not-summing",
	// the claimed HASH is already stored (with its true size n) when the bad upload arrives; the claim states another size
	"pre:size+1", "pre:size-1", "pre:ext1+size", "pre:trunc1+size",
	// the claimed DIGEST (h,n) is already stored when an upload naming exactly (h,n) arrives with other bytes
	"pre:flip", "pre:other-chunks", "pre:missing-chunk",
	// Remote Asset origins: several URIs of which only the last is good; origin closing the connection mid-body; non-2xx origin
	"origin-badfirst", "origin-midclose", "origin-500",
	// zstd PUT whose only stated length is the Content-Length of the compressed body (weak rule)
	"no-xsize"}

// c01Shapes: spellings of one and the same upload request on a path ("" = the path has only one).
func c01Shapes(path string) []string {
	switch path {
	case "http-put":
		return []string{"bare", "instance", "chunked", "xsize", "ce-identity"}
	case "http-put-zstd":
		return []string{"bare", "instance", "chunked"}
	case "bs-blobs", "bs-zstd":
		return []string{"bare", "instance", "metadata", "instance+metadata"}
	}
	return nil
}

// c01ShortcutPath: paths on which an upload naming an already stored digest may be answered OK without its
// bytes being looked at (ByteStream.Write: REAPI / property C16; SpliceBlob and FetchBlob: cache hit). On these the
// pre:flip family carries only the weak acknowledgement rule; the stored blob must stay untouched everywhere.
func c01ShortcutPath(p string) bool {
	return strings.HasPrefix(p, "bs-") || strings.HasPrefix(p, "splice") || strings.HasPrefix(p, "fetchblob")
}

func c01IsZstdPath(p string) bool { return strings.HasSuffix(p, "zstd") }

func c01Applicable(path, corr string) bool {
	z := c01IsZstdPath(path)
	switch {
	case strings.HasPrefix(corr, "z-"):
		return z
	case corr == "no-xsize":
		return path == "http-put-zstd"
	case corr == "bad-compressor":
		return path == "http-put-zstd" || path == "batch-zstd" || path == "bs-zstd"
	case corr == "abort-cancel" || corr == "abort-noFinish":
		return strings.HasPrefix(path, "bs-")
	case corr == "abort-tcpclose":
		return strings.HasPrefix(path, "http-put")
	case strings.HasPrefix(corr, "splice-"):
		return path == "splice" || path == "splice-nodigest" && corr == "splice-missing-chunk"
	case strings.HasPrefix(corr, "origin-"):
		if path == "fetchblob-nosri" {
			return corr != "origin-500" // without a checksum there is no claim a non-2xx body could contradict
		}
		return strings.HasPrefix(path, "fetchblob")
	case corr == "pre:other-chunks" || corr == "pre:missing-chunk":
		return path == "splice"
	case corr == "pre:flip":
		switch path {
		case "splice", "splice-nodigest", "fetchblob-nosri", "ac-inline-nodigest":
			return false // no caller-supplied digest next to caller-supplied bytes
		}
		return true
	case strings.HasPrefix(corr, "pre:"):
		switch path {
		case "fetchblob", "fetchblob-nolen", "fetchblob-nosri", "splice-nodigest", "ac-inline-nodigest":
			return false // no declared size on these paths
		case "splice":
			return corr == "pre:size+1" || corr == "pre:size-1"
		}
		return true
	}
	switch path {
	case "splice":
		return corr == "none" || corr == "size+1" || corr == "size-1" || corr == "hashother" || strings.HasPrefix(corr, "hash-") || corr == "sizehuge"
	case "splice-nodigest", "ac-inline-nodigest", "fetchblob-nosri":
		return corr == "none" // the server computes the digest: there is no claim to corrupt
	case "ac-inline-stdout", "ac-inline-stderr", "ac-inline-file":
		return corr == "none" || corr == "flip" || corr == "trunc1" || corr == "ext1" || corr == "size+1" || corr == "size-1" || corr == "hashother"
	case "fetchblob", "fetchblob-nolen":
		return corr == "none" || corr == "flip" || corr == "trunc1" || corr == "ext1" || corr == "hashother"
	case "http-put":
		// identity PUT declares its size through Content-Length (= body length) unless X-Digest-SizeBytes is given
		return true
	}
	return true
}

type c01Case struct {
	ID      int
	Path    string
	Corr    string
	Storage string
	Impl    string
	Size    int
	Content string
	Shape   string `json:",omitempty"` // request spelling; "" = rotated over c01Shapes(Path) by ID and seed
}

type c01Result struct {
	acked  bool
	status string
	skip   bool // case not expressible (e.g. trunc on a 1-byte blob)
	// what was claimed
	hash string
	size int64
	// expectation
	valid bool
	weak  bool // only "ack => stored correctly" is enforced
	// for paths where the server computes the digest: the digest it answered
	answeredHash string
	answeredSize int64
	noProbe      bool   // malformed hash: probes are not expressible
	pre          bool   // the claimed hash was stored beforehand with its true size
	preSame      bool   // pre:flip family: the claim names exactly the stored digest (h,n)
	probeHash    string // digest to probe when it differs from the claimed spelling (hash-upper)
	shape        string // request shape used (instance prefix, trailing metadata, chunked, ...)
	inconclusive string // the harness's own watchdog fired: no verdict
}

type c01Env struct {
	r      *lib.Run
	srv    *lib.Server
	origin *httptest.Server
	omu    sync.Mutex
	obody  map[string]originEntry
	tiny   map[string]bool // digests of tiny blobs already used by a case on this server
	after  []c01After      // what to probe again after a restart on the same directory
}

type originEntry struct {
	body     []byte
	nolen    bool
	status   int  // 0 = 200
	midclose bool // announce the full body, deliver a part of it, then drop the connection
}

func (e *c01Env) originHandler(w http.ResponseWriter, r *http.Request) {
	e.omu.Lock()
	ent, ok := e.obody[r.URL.Path]
	e.omu.Unlock()
	if !ok {
		http.NotFound(w, r)
		return
	}
	status := ent.status
	if status == 0 {
		status = 200
	}
	if ent.midclose {
		w.Header().Set("Content-Type", "application/octet-stream")
		if !ent.nolen {
			w.Header().Set("Content-Length", fmt.Sprint(len(ent.body)))
		}
		w.WriteHeader(status)
		_, _ = w.Write(ent.body[:len(ent.body)/2])
		if f, ok := w.(http.Flusher); ok {
			f.Flush()
		}
		panic(http.ErrAbortHandler) // net/http drops the connection without finishing the body / the chunked framing
	}
	if ent.nolen {
		// chunked transfer: no Content-Length
		w.Header().Set("Content-Type", "application/octet-stream")
		w.WriteHeader(status)
		if f, ok := w.(http.Flusher); ok {
			f.Flush()
		}
		_, _ = w.Write(ent.body)
		return
	}
	w.Header().Set("Content-Length", fmt.Sprint(len(ent.body)))
	w.WriteHeader(status)
	_, _ = w.Write(ent.body)
}

func uuidOf(rng *rand.Rand) string {
	return fmt.Sprintf("%08x-%04x-4%03x-8%03x-%012x", rng.Uint32(), rng.Uint32()&0xffff, rng.Uint32()&0xfff, rng.Uint32()&0xfff, rng.Uint64()&0xffffffffffff)
}

// corruptData applies a logical data corruption; returns (payload, ok).
func corruptData(rng *rand.Rand, B []byte, corr string) ([]byte, bool) {
	switch corr {
	case "flip":
		c := append([]byte(nil), B...)
		c[rng.IntN(len(c))] ^= 1 << rng.IntN(8)
		return c, true
	case "trunc1":
		if len(B) < 2 {
			return nil, false
		}
		return B[:len(B)-1], true
	case "trunchalf":
		if len(B) < 2 {
			return nil, false
		}
		return B[:len(B)/2], true
	case "trunc0":
		return []byte{}, true
	case "ext1":
		return append(append([]byte(nil), B...), byte(rng.Uint32())), true
	case "extbig":
		ext := make([]byte, lib.MiB+rng.IntN(1000))
		return append(append([]byte(nil), B...), ext...), true
	}
	return B, true
}

func zstdEncodeRand(rng *rand.Rand, b []byte) []byte {
	if rng.IntN(2) == 0 {
		return lib.ZstdEncodeKP(b, 1+rng.IntN(4))
	}
	return lib.ZstdEncodeC(b, 1+rng.IntN(12))
}

// refDecodes reports whether both reference decoders decode stream to exactly want.
// second result: the decoders disagree with each other (=> weak).
func refDecodes(stream, want []byte) (bool, bool) {
	a, ea := lib.ZstdDecodeKP(stream)
	c, ec := lib.ZstdDecodeC(stream)
	okA := ea == nil && bytes.Equal(a, want)
	okC := ec == nil && bytes.Equal(c, want)
	return okA && okC, okA != okC
}

func (e *c01Env) runCase(cs c01Case) c01Result {
	rng := rand.New(rand.NewPCG(uint64(e.r.Seed)*7919+uint64(cs.ID), 0xC01))
	tag := fmt.Sprintf("C01-s%d-c%d", e.r.Seed, cs.ID)
	B := lib.GenBlob(rng, cs.Size, cs.Content, tag)
	res := c01Result{hash: lib.Sha256Hex(B), size: int64(len(B)), valid: true}
	if cs.Size < 16 {
		// tiny contents collide between cases (only 256 one-byte blobs exist): every case needs a digest of its own
		e.omu.Lock()
		dup := e.tiny[res.hash]
		e.tiny[res.hash] = true
		e.omu.Unlock()
		if dup {
			return c01Result{skip: true}
		}
	}
	srv := e.srv
	ctx, cancel := lib.Ctx()
	defer cancel()

	if strings.HasPrefix(cs.Corr, "pre:") {
		if cs.Size < 32 {
			return c01Result{skip: true}
		}
		if err := srv.Cache.Put(ctx, cache.CAS, res.hash, res.size, bytes.NewReader(B)); err != nil {
			return c01Result{skip: true}
		}
		res.pre = true
		switch cs.Corr {
		case "pre:flip", "pre:other-chunks", "pre:missing-chunk":
			res.preSame = true
		}
	}
	var opErr error // last gRPC error of the upload itself (watchdog detection)
	// 1. declared digest corruptions
	switch cs.Corr {
	case "pre:ext1+size":
		res.size++
		res.valid = false
	case "pre:trunc1+size":
		res.size--
		res.valid = false
	case "size+1", "pre:size+1":
		res.size++
		res.valid = false
	case "pre:size-1":
		res.size--
		res.valid = false
	case "size-1":
		if res.size < 2 {
			return c01Result{skip: true}
		}
		res.size--
		res.valid = false
	case "size0":
		res.size = 0
		res.valid = false
	case "sizehuge":
		res.size = 1 << 40
		res.valid = false
	case "hashother":
		res.hash = lib.Sha256Hex(append([]byte("other"), B...))
		res.valid = false
	case "hash-short":
		res.hash = res.hash[:63]
		res.valid, res.noProbe = false, true
	case "hash-upper":
		// The statement demands a refusal for a WRONG hash; an upper-case spelling of the right hash is at most
		// unusual. A build that normalises it and stores the blob correctly is within the statement: weak rule only
		// (ack => stored correctly under the digest), probed under the canonical spelling.
		res.probeHash = res.hash
		res.hash = strings.ToUpper(res.hash)
		res.valid, res.weak = false, true
		if res.hash == strings.ToLower(res.hash) {
			return c01Result{skip: true}
		}
	case "hash-nonhex":
		res.hash = "g" + res.hash[1:]
		res.valid, res.noProbe = false, true
	}
	// 2. logical data corruptions
	data := B
	switch cs.Corr {
	case "pre:ext1+size":
		data, _ = corruptData(rng, B, "ext1")
	case "pre:trunc1+size":
		data, _ = corruptData(rng, B, "trunc1")
	case "pre:flip":
		data, _ = corruptData(rng, B, "flip")
		res.valid = false
		res.weak = c01ShortcutPath(cs.Path)
	case "pre:other-chunks", "pre:missing-chunk":
		res.valid = false
		res.weak = true
	}
	switch cs.Corr {
	case "flip", "trunc1", "trunchalf", "trunc0", "ext1", "extbig":
		var ok bool
		data, ok = corruptData(rng, B, cs.Corr)
		if !ok {
			return c01Result{skip: true}
		}
		res.valid = false
	}
	// 3. wire encoding
	payload := data
	z := c01IsZstdPath(cs.Path)
	if z {
		payload = zstdEncodeRand(rng, data)
		switch cs.Corr {
		case "z-wrongmagic":
			payload = append([]byte(nil), payload...)
			payload[rng.IntN(4)] ^= 0x55
		case "z-trunc1":
			payload = payload[:len(payload)-1]
		case "z-trunchalf":
			payload = payload[:len(payload)/2]
		case "z-corrupt":
			payload = append([]byte(nil), payload...)
			payload[4+rng.IntN(len(payload)-4)] ^= 1 << rng.IntN(8)
		case "z-badchecksum":
			// a frame that carries a content checksum (the klauspost encoder writes one), with the checksum damaged:
			// the data blocks are intact, a conforming decoder still has to refuse the frame
			payload = append([]byte(nil), lib.ZstdEncodeKP(data, 1+rng.IntN(4))...)
			payload[len(payload)-1-rng.IntN(4)] ^= 1 << rng.IntN(8)
		case "z-garbage-after":
			g := make([]byte, 1+rng.IntN(64))
			for i := range g {
				g[i] = byte(rng.Uint32())
			}
			payload = append(append([]byte(nil), payload...), g...)
		case "z-second-frame":
			payload = append(append([]byte(nil), payload...), zstdEncodeRand(rng, []byte("second frame payload"))...)
		case "z-multiframe":
			if len(data) < 2 {
				return c01Result{skip: true}
			}
			cut := 1 + rng.IntN(len(data)-1)
			payload = append(zstdEncodeRand(rng, data[:cut]), zstdEncodeRand(rng, data[cut:])...)
			res.weak = true
		case "z-empty-frame-after":
			payload = append(append([]byte(nil), payload...), lib.ZstdEncodeKP(nil, 1)...)
			res.weak = true
		case "z-skippable-before":
			skip := []byte{0x50, 0x2A, 0x4D, 0x18, 4, 0, 0, 0, 1, 2, 3, 4}
			payload = append(skip, payload...)
			res.weak = true
		}
		if strings.HasPrefix(cs.Corr, "z-") && !res.weak {
			// validity is decided by the two reference decoders, not assumed
			ok, disagree := refDecodes(payload, B)
			res.valid = ok
			if disagree {
				res.weak = true
			}
		}
	}

	hash, size := res.hash, res.size
	switch cs.Path {
	case "http-put", "http-put-zstd":
		hdr := map[string]string{}
		if z {
			hdr["Content-Encoding"] = "zstd"
			hdr["X-Digest-SizeBytes"] = fmt.Sprint(size)
		} else if size != int64(len(payload)) {
			hdr["X-Digest-SizeBytes"] = fmt.Sprint(size)
		}
		// request shapes: the same upload spelled differently carries the same obligation
		url := "/cas/" + hash
		shapes := c01Shapes(cs.Path)
		res.shape = cs.Shape
		if res.shape == "" {
			res.shape = shapes[(cs.ID+int(e.r.Seed&0xffff))%len(shapes)]
		}
		if cs.Corr == "abort-tcpclose" {
			res.shape = "bare"
		}
		switch res.shape {
		case "instance":
			url = "/" + x1Instances[cs.ID/len(shapes)%len(x1Instances)] + url
		case "chunked", "xsize":
			hdr["X-Digest-SizeBytes"] = fmt.Sprint(size)
		case "ce-identity":
			hdr["Content-Encoding"] = "identity"
		}
		if cs.Corr == "no-xsize" {
			// zstd body whose only stated length is the Content-Length of the compressed stream: whether that is a
			// well-formed declaration is open; weak rule only
			delete(hdr, "X-Digest-SizeBytes")
			res.shape = "bare"
			res.weak = true
		}
		if cs.Corr == "bad-compressor" {
			hdr["Content-Encoding"] = "gzip"
			res.valid = false
		}
		if cs.Corr == "abort-tcpclose" {
			if len(payload) < 2 {
				return c01Result{skip: true}
			}
			res.valid = false
			conn, err := net.Dial("tcp", srv.HTTPURL[len("http://"):])
			if err != nil {
				return c01Result{skip: true}
			}
			before := srv.HTTPStarted.Load()
			extra := ""
			if z {
				extra = fmt.Sprintf("Content-Encoding: zstd\r\nX-Digest-SizeBytes: %d\r\n", size)
			}
			fmt.Fprintf(conn, "PUT /cas/%s HTTP/1.1\r\nHost: x\r\nContent-Length: %d\r\n%s\r\n", hash, len(payload), extra)
			_, _ = conn.Write(payload[:1+rng.IntN(len(payload)-1)])
			lib.WaitCounterAbove(&srv.HTTPStarted, before, 5*time.Second)
			_ = conn.Close()
			res.status = "aborted"
			srv.Settle(20 * time.Second)
			return res
		}
		var h lib.HTTPResult
		if res.shape == "chunked" {
			h = x1HTTPPutChunked(srv, url, payload, hdr)
		} else {
			h = srv.HTTPPut(url, payload, hdr)
		}
		opErr = h.Err
		res.acked = h.Err == nil && h.Status == 200
		res.status = fmt.Sprintf("http %d %v", h.Status, h.Err)
	case "batch", "batch-zstd":
		req := &pb.BatchUpdateBlobsRequest_Request{Digest: &pb.Digest{Hash: hash, SizeBytes: size}, Data: payload}
		if z {
			req.Compressor = pb.Compressor_ZSTD
		}
		if cs.Corr == "bad-compressor" {
			req.Compressor = pb.Compressor_DEFLATE
			res.valid = false
		}
		resp, err := srv.CAS.BatchUpdateBlobs(ctx, &pb.BatchUpdateBlobsRequest{Requests: []*pb.BatchUpdateBlobsRequest_Request{req}, InstanceName: []string{"", x1Instances[cs.ID%len(x1Instances)]}[cs.ID%2]})
		opErr = err
		if err != nil {
			res.status = "rpc " + lib.Code(err).String()
		} else if len(resp.Responses) != 1 {
			res.status = fmt.Sprintf("%d responses", len(resp.Responses))
		} else {
			c := codes.Code(resp.Responses[0].GetStatus().GetCode())
			res.acked = c == codes.OK
			res.status = "blob " + c.String()
		}
	case "bs-blobs", "bs-zstd":
		name := lib.ResUpload(uuidOf(rng), hash, size)
		if z {
			name = lib.ResUploadZstd(uuidOf(rng), hash, size)
		}
		if cs.Corr == "bad-compressor" {
			name = strings.Replace(name, "/zstd/", "/gzip/", 1)
			res.valid = false
		}
		// request shapes: [{instance}/]uploads/{uuid}/blobs/{hash}/{size}[/{optional metadata}]
		bsShapes := c01Shapes(cs.Path)
		res.shape = cs.Shape
		if res.shape == "" {
			res.shape = bsShapes[(cs.ID+int(e.r.Seed&0xffff))%len(bsShapes)]
		}
		if strings.Contains(res.shape, "instance") {
			name = x1Instances[cs.ID/len(bsShapes)%len(x1Instances)] + "/" + name
		}
		if strings.Contains(res.shape, "metadata") {
			name += []string{"/foo.txt", "/some/deeper/path", "/0"}[cs.ID/len(bsShapes)%3]
		}
		chunk := []int{0, 1 + rng.IntN(4096), 64 * lib.KiB, lib.MiB}[rng.IntN(4)]
		parts := lib.Chunk(payload, chunk)
		switch cs.Corr {
		case "abort-cancel":
			res.valid = false
			cctx, ccancel := context.WithCancel(context.Background())
			before := srv.GRPCStarted.Load()
			st, err := srv.BS.Write(cctx)
			if err == nil {
				_ = st.Send(&bspb.WriteRequest{ResourceName: name, Data: parts[0][:len(parts[0])/2]})
				lib.WaitCounterAbove(&srv.GRPCStarted, before, 5*time.Second)
			}
			ccancel()
			res.status = "cancelled"
			srv.Settle(20 * time.Second)
			return res
		case "abort-noFinish":
			// stream closed without finish_write after only part of the payload
			if len(payload) < 2 {
				return c01Result{skip: true}
			}
			res.valid = false
			part := payload[:1+rng.IntN(len(payload)-1)]
			_, err := srv.BSWriteMsgs(ctx, []*bspb.WriteRequest{{ResourceName: name, Data: part}})
			opErr = err
			res.acked = err == nil
			res.status = "bs " + lib.Code(err).String()
		default:
			_, err := srv.BSWrite(ctx, name, payload, chunk)
			opErr = err
			res.acked = err == nil
			res.status = "bs " + lib.Code(err).String()
		}
	case "splice", "splice-nodigest":
		// chunks are uploaded first through the disk API (valid), then spliced
		// at least two chunks, so that the spliced blob itself is never stored as one of its chunks
		// every chunk is at least 16 bytes long: tiny chunk blobs would collide with the tiny blobs of other cases
		nchunks := 2 + rng.IntN(3)
		if len(B) < 32 {
			return c01Result{skip: true}
		}
		if len(B) < 16*nchunks {
			nchunks = 2
		}
		src := B
		if cs.Corr == "pre:other-chunks" {
			// chunks of another content of the same length, all of them stored, under the digest of the stored blob B
			src = lib.GenBlob(rng, len(B), "random", tag+"-other")
		}
		var chunks [][]byte
		cuts := []int{0}
		for i := 1; i < nchunks; i++ {
			cuts = append(cuts, 16+rng.IntN(len(B)-31))
		}
		cuts = append(cuts, len(B))
		sortInts(cuts)
		for i := 0; i+1 < len(cuts); i++ {
			if cuts[i+1]-cuts[i] >= 16 || i+2 == len(cuts) {
				chunks = append(chunks, src[cuts[i]:cuts[i+1]])
			} else {
				cuts[i+1] = cuts[i] // merge a too-short piece into the next one
			}
		}
		if n := len(chunks); n > 0 && len(chunks[n-1]) < 16 {
			return c01Result{skip: true}
		}
		if len(chunks) < 2 {
			return c01Result{skip: true}
		}
		var cds []*pb.Digest
		for i, c := range chunks {
			d := lib.DigestOf(c)
			cds = append(cds, d)
			if (cs.Corr == "splice-missing-chunk" || cs.Corr == "pre:missing-chunk") && i == len(chunks)-1 {
				continue
			}
			if err := srv.Cache.Put(ctx, cache.CAS, d.Hash, d.SizeBytes, bytes.NewReader(c)); err != nil {
				return c01Result{skip: true}
			}
		}
		switch cs.Corr {
		case "splice-missing-chunk":
			res.valid = false
		case "splice-reordered":
			if len(cds) < 2 || bytes.Equal(chunks[0], chunks[len(chunks)-1]) {
				return c01Result{skip: true}
			}
			cds[0], cds[len(cds)-1] = cds[len(cds)-1], cds[0]
			res.valid = false
		case "splice-sizes-not-summing":
			cds = append(cds, cds[0])
			res.valid = false
		}
		req := &pb.SpliceBlobRequest{ChunkDigests: cds}
		if cs.Path == "splice" {
			req.BlobDigest = &pb.Digest{Hash: hash, SizeBytes: size}
		}
		resp, err := srv.CAS.SpliceBlob(ctx, req)
		opErr = err
		res.acked = err == nil
		res.status = "splice " + lib.Code(err).String()
		if err == nil && resp.GetBlobDigest() != nil {
			res.answeredHash, res.answeredSize = resp.BlobDigest.Hash, resp.BlobDigest.SizeBytes
		}
	case "ac-inline-stdout", "ac-inline-stderr", "ac-inline-file", "ac-inline-nodigest":
		ar := &pb.ActionResult{ExitCode: 0}
		d := &pb.Digest{Hash: hash, SizeBytes: size}
		switch cs.Path {
		case "ac-inline-nodigest":
			// inline bytes without a digest: the server computes it; an OK answer makes sha256(bytes) present
			if cs.ID%2 == 0 {
				ar.StdoutRaw = payload
			} else {
				ar.StderrRaw = payload
			}
		case "ac-inline-stdout":
			ar.StdoutRaw, ar.StdoutDigest = payload, d
		case "ac-inline-stderr":
			ar.StderrRaw, ar.StderrDigest = payload, d
		default:
			ar.OutputFiles = []*pb.OutputFile{{Path: "out/f", Digest: d, Contents: payload}}
		}
		if len(payload) == 0 {
			return c01Result{skip: true}
		}
		_, err := srv.AC.UpdateActionResult(ctx, &pb.UpdateActionResultRequest{ActionDigest: &pb.Digest{Hash: lib.RandHash(rng), SizeBytes: 42}, ActionResult: ar})
		opErr = err
		res.acked = err == nil
		res.status = "update-ar " + lib.Code(err).String()
	case "fetchblob", "fetchblob-nolen", "fetchblob-nosri":
		p := "/blob/" + tag
		nolen := cs.Path == "fetchblob-nolen" || cs.Path == "fetchblob-nosri" && cs.ID%2 == 0
		ent := originEntry{body: payload, nolen: nolen}
		uris := []string{e.origin.URL + p}
		var extra []string
		switch cs.Corr {
		case "origin-midclose":
			// the origin announces the whole body, delivers half of it and drops the connection: a stream aborted part-way
			if len(payload) < 2 {
				return c01Result{skip: true}
			}
			ent.midclose = true
			res.valid = false
		case "origin-500":
			// a non-2xx answer whose body is not the blob named by the checksum
			ent.status = 500
			ent.body = append([]byte("internal error of the origin "), payload[:min(len(payload), 64)]...)
			res.valid = false
		case "origin-badfirst":
			// several URIs: a missing one, (with a checksum) one serving other bytes, then the good one
			bad := []string{e.origin.URL + "/missing/" + tag}
			if cs.Path != "fetchblob-nosri" {
				wp := p + "-wrong"
				wrong, _ := corruptData(rng, payload, "flip")
				e.omu.Lock()
				e.obody[wp] = originEntry{body: wrong, nolen: nolen}
				e.omu.Unlock()
				extra = append(extra, wp)
				bad = append(bad, e.origin.URL+wp)
			}
			uris = append(bad, uris...)
		}
		e.omu.Lock()
		e.obody[p] = ent
		e.omu.Unlock()
		req := &asset.FetchBlobRequest{Uris: uris}
		if cs.Path != "fetchblob-nosri" {
			raw, _ := hex.DecodeString(hash)
			req.Qualifiers = []*asset.Qualifier{{Name: "checksum.sri", Value: "sha256-" + base64.StdEncoding.EncodeToString(raw)}}
		}
		resp, err := srv.Asset.FetchBlob(ctx, req)
		opErr = err
		if err != nil {
			res.status = "fetch rpc " + lib.Code(err).String()
		} else {
			c := codes.Code(resp.GetStatus().GetCode())
			res.acked = c == codes.OK
			res.status = "fetch " + c.String()
			if res.acked && resp.BlobDigest != nil {
				res.answeredHash, res.answeredSize = resp.BlobDigest.Hash, resp.BlobDigest.SizeBytes
			}
			if res.acked && resp.BlobDigest == nil && cs.Path == "fetchblob-nosri" {
				res.answeredHash = "(no digest in the answer)"
			}
		}
		// the declared size for this path is the true length of what the origin serves
		if cs.Corr == "trunc1" || cs.Corr == "ext1" || cs.Corr == "flip" {
			res.size = int64(len(payload))
		}
		e.omu.Lock()
		delete(e.obody, p)
		for _, x := range extra {
			delete(e.obody, x)
		}
		e.omu.Unlock()
	}
	if x1IsWatchdog(ctx, opErr) {
		res.inconclusive = fmt.Sprintf("watchdog context expired during the upload itself (%s)", res.status)
	}
	_ = B
	return res
}

func sortInts(a []int) {
	for i := 1; i < len(a); i++ {
		for j := i; j > 0 && a[j-1] > a[j]; j-- {
			a[j-1], a[j] = a[j], a[j-1]
		}
	}
}

type c01After struct {
	cs    c01Case
	hash  string
	size  int64
	acked bool
	B     []byte
}

func (e *c01Env) judge(cs c01Case, res c01Result, B []byte) {
	r := e.r
	if res.inconclusive != "" {
		r.Count("inconclusive.watchdog")
		r.Inconclusive(fmt.Sprintf("C01 case %d (%s/%s/%s): %s", cs.ID, cs.Path, cs.Storage, cs.Corr, res.inconclusive))
		return
	}
	inconclusive := func(where string) {
		r.Count("inconclusive.watchdog")
		r.Inconclusive(fmt.Sprintf("C01 case %d (%s/%s/%s): watchdog context expired during %s", cs.ID, cs.Path, cs.Storage, cs.Corr, where))
	}
	ph := res.hash // spelling under which the digest is probed
	if res.probeHash != "" {
		ph = res.probeHash
	}
	if res.shape != "" {
		r.Count("shape." + cs.Path + "." + res.shape)
	}
	if res.preSame && cs.Size >= 16 {
		// the blob stored before the bad upload must also survive the re-opens
		e.omu.Lock()
		e.after = append(e.after, c01After{cs: cs, hash: lib.Sha256Hex(B), size: int64(len(B)), acked: true, B: B})
		e.omu.Unlock()
	}
	if !res.noProbe && cs.Size >= 16 && !res.weak && !res.pre {
		e.omu.Lock()
		if len(e.after) < 4000 {
			keep := B
			if len(keep) > 256*lib.KiB && !res.acked {
				keep = nil
			}
			e.after = append(e.after, c01After{cs: cs, hash: res.hash, size: res.size, acked: res.acked && res.valid, B: keep})
		}
		e.omu.Unlock()
	}
	key := fmt.Sprintf("C01:%s:%s:%s", cs.Path, cs.Storage, cs.Corr)
	detail := map[string]any{"case": cs, "declared_hash": res.hash, "declared_size": res.size, "status": res.status, "valid": res.valid, "weak": res.weak, "shape": res.shape,
		"replay_note": "content = lib.GenBlob(PCG(seed*7919+case.ID, 0xC01), Size, Content, tag)"}
	r.Eval()
	r.Distinct(cs.Path, cs.Storage, cs.Impl, cs.Corr, lib.SizeClassName(cs.Size))
	r.Count(fmt.Sprintf("%s.%s.%s", cs.Path, cs.Corr, map[bool]string{true: "ack", false: "refused"}[res.acked]))
	r.Count("config." + cs.Storage + "." + cs.Impl)
	if res.acked && !res.valid && !res.weak {
		r.Violation(key+":acked-invalid", fmt.Sprintf("upload that does not match its declared digest was acknowledged (%s): path=%s corruption=%s storage=%s size=%d declared=(%s,%d)",
			res.status, cs.Path, cs.Corr, cs.Storage, cs.Size, res.hash, res.size), detail)
	}
	if !res.acked && res.valid && !res.weak {
		r.Violation(key+":refused-valid", fmt.Sprintf("well-formed upload was refused (%s): path=%s storage=%s impl=%s size=%d", res.status, cs.Path, cs.Storage, cs.Impl, cs.Size), detail)
	}
	if res.acked && res.answeredHash != "" && (res.answeredHash != lib.Sha256Hex(B) || res.answeredSize != int64(len(B))) && res.valid {
		r.Violation(key+":answered-digest-wrong", fmt.Sprintf("server answered digest (%s,%d) for content with digest (%s,%d)", res.answeredHash, res.answeredSize, lib.Sha256Hex(B), len(B)), detail)
	}
	if res.noProbe {
		return
	}
	if res.preSame {
		// The upload named exactly the stored digest (h,n) but carried other bytes (or other / missing chunks).
		// Whatever the answer was, the blob stored under (h,n) must be untouched - also once pending file
		// deletions have been carried out.
		lib.WaitEvictionsDrained(e.srv.Cache, 5*time.Second)
		time.Sleep(time.Millisecond)
		ctx, cancel := lib.Ctx()
		defer cancel()
		p := e.srv.ProbeCAS(res.hash, res.size)
		got, rerr := e.srv.BSRead(ctx, lib.ResBlobs(res.hash, res.size), 0, 0)
		if x1ProbeWatchdog(p.Errs) || x1IsWatchdog(ctx, rerr) {
			inconclusive("the probe of the stored blob")
			return
		}
		r.Count("pre." + cs.Path + "." + cs.Corr + "." + map[bool]string{true: "ack", false: "refused"}[res.acked])
		detail["probe"] = map[string]any{"findmissing_present": p.FindMissingPresent, "head": p.HeadStatus, "get": p.GetStatus, "get_len": len(p.GetBody), "bsread_err": fmt.Sprint(rerr), "bsread_len": len(got), "errs": p.Errs}
		if !(p.FindMissingPresent && p.HeadStatus == 200 && p.GetStatus == 200 && bytes.Equal(p.GetBody, B) && rerr == nil && bytes.Equal(got, B)) {
			r.Violation(key+":stored-blob-damaged", fmt.Sprintf("upload (%s) of other bytes under the already stored digest (%s,%d) damaged the stored blob: findmissing=%v head=%d get=%d (%d bytes, equal=%v) bytestream=%v (%d bytes)",
				res.status, res.hash, res.size, p.FindMissingPresent, p.HeadStatus, p.GetStatus, len(p.GetBody), bytes.Equal(p.GetBody, B), rerr, len(got)), detail)
		}
		return
	}
	if res.pre {
		// the claimed digest (h, declared size) must not have become present, and the blob stored before under
		// (h, n) must be untouched. HEAD/GET of /cas/h carry no size and answer for the stored blob, so the claim
		// is probed through the size-stating paths only.
		lib.WaitEvictionsDrained(e.srv.Cache, 5*time.Second)
		ctx, cancel := lib.Ctx()
		defer cancel()
		miss, err := e.srv.FindMissing(ctx, &pb.Digest{Hash: res.hash, SizeBytes: res.size}, lib.DigestOf(B))
		_, rerr := e.srv.BSRead(ctx, lib.ResBlobs(res.hash, res.size), 0, 0)
		get := e.srv.HTTPGet("/cas/"+res.hash, nil)
		if x1IsWatchdog(ctx, err) || x1IsWatchdog(ctx, rerr) || x1IsWatchdog(nil, get.Err) {
			inconclusive("the probe of the claimed digest")
			return
		}
		detail["probe"] = map[string]any{"findmissing": fmt.Sprint(miss), "findmissing_err": fmt.Sprint(err), "bsread_claimed_err": fmt.Sprint(rerr), "get": get.Status}
		claimedMissing, trueMissing := false, false
		for _, d := range miss {
			if d.GetHash() == res.hash && d.GetSizeBytes() == res.size {
				claimedMissing = true
			}
			if d.GetHash() == res.hash && d.GetSizeBytes() == int64(len(B)) {
				trueMissing = true
			}
		}
		r.Count("pre." + cs.Path + "." + cs.Corr)
		if err == nil && !claimedMissing {
			r.Violation(key+":claimed-digest-present", fmt.Sprintf("bad upload (%s) claiming (%s,%d) while (%s,%d) is stored: FindMissingBlobs now reports the claimed digest present", res.status, res.hash, res.size, res.hash, len(B)), detail)
		}
		if rerr == nil {
			r.Violation(key+":claimed-digest-readable", fmt.Sprintf("bad upload (%s) claiming (%s,%d): ByteStream.Read of the claimed digest succeeds", res.status, res.hash, res.size), detail)
		}
		if err == nil && trueMissing || get.Status != 200 || !bytes.Equal(get.Body, B) {
			r.Violation(key+":stored-blob-damaged", fmt.Sprintf("bad upload (%s) claiming (%s,%d) damaged the blob stored under (%s,%d): findmissing=%v get=%d (%d bytes)", res.status, res.hash, res.size, res.hash, len(B), trueMissing, get.Status, len(get.Body)), detail)
		}
		return
	}
	// post-state probe of the claimed digest through three independent read paths
	p := e.srv.ProbeCAS(ph, res.size)
	if x1ProbeWatchdog(p.Errs) {
		inconclusive("the presence probe")
		return
	}
	present := p.FindMissingPresent || p.HeadStatus == 200 || p.GetStatus == 200
	allPresent := p.FindMissingPresent && p.HeadStatus == 200 && p.GetStatus == 200
	detail["probe"] = map[string]any{"findmissing_present": p.FindMissingPresent, "head": p.HeadStatus, "get": p.GetStatus, "errs": p.Errs}
	if res.acked {
		if res.valid || res.weak {
			if !allPresent {
				r.Violation(key+":acked-not-present", fmt.Sprintf("acknowledged blob (%s,%d) not reported present/readable on every path: findmissing=%v head=%d get=%d", res.hash, res.size, p.FindMissingPresent, p.HeadStatus, p.GetStatus), detail)
			} else if !bytes.Equal(p.GetBody, B) {
				r.Violation(key+":acked-stored-wrong", fmt.Sprintf("acknowledged blob (%s,%d) reads back as %d bytes with digest %s", res.hash, res.size, len(p.GetBody), lib.Sha256Hex(p.GetBody)), detail)
			} else if res.valid {
				// "thereafter reported present and readable until evicted": upload the same digest again through a
				// path without an already-exists shortcut, let pending deletions drain, and read once more.
				var again bool
				if cs.ID%2 == 0 {
					h := e.srv.HTTPPut("/cas/"+res.hash, B, nil)
					if x1IsWatchdog(nil, h.Err) {
						inconclusive("the second upload")
						return
					}
					again = h.Status == 200
				} else {
					ctx, cancel := lib.Ctx()
					resp, err := e.srv.CAS.BatchUpdateBlobs(ctx, &pb.BatchUpdateBlobsRequest{Requests: []*pb.BatchUpdateBlobsRequest_Request{{Digest: lib.DigestOf(B), Data: B}}})
					wd := x1IsWatchdog(ctx, err)
					cancel()
					if wd {
						inconclusive("the second upload")
						return
					}
					again = err == nil && len(resp.Responses) == 1 && resp.Responses[0].GetStatus().GetCode() == 0
				}
				lib.WaitEvictionsDrained(e.srv.Cache, 5*time.Second)
				time.Sleep(time.Millisecond)
				p2 := e.srv.ProbeCAS(res.hash, res.size)
				if x1ProbeWatchdog(p2.Errs) {
					inconclusive("the probe after the second upload")
					return
				}
				r.Count("reupload." + map[bool]string{true: "ack", false: "refused"}[again])
				if !again {
					r.Violation(key+":reupload-refused", "re-upload of an already stored valid blob was refused", detail)
				} else if !(p2.FindMissingPresent && p2.HeadStatus == 200 && p2.GetStatus == 200 && bytes.Equal(p2.GetBody, B)) {
					r.Violation(key+":lost-after-reupload", fmt.Sprintf("blob (%s,%d) acknowledged twice is no longer present/readable after the second upload: findmissing=%v head=%d get=%d (%d bytes)",
						res.hash, res.size, p2.FindMissingPresent, p2.HeadStatus, p2.GetStatus, len(p2.GetBody)), detail)
				}
			}
		}
	} else if present && cs.Size >= 16 { // (digests of tiny contents may legitimately be present: e.g. as a chunk of a spliced blob)
		r.Violation(key+":refused-but-present", fmt.Sprintf("refused upload (%s) left the claimed digest (%s,%d) present: findmissing=%v head=%d get=%d", res.status, res.hash, res.size, p.FindMissingPresent, p.HeadStatus, p.GetStatus), detail)
	}
}

// probeAfter probes every remembered digest on a re-opened instance: a refused upload must not have become
// present, an acknowledged blob must still be present and readable with its bytes.
func (e *c01Env) probeAfter(srv *lib.Server, what string) {
	r := e.r
	for _, a := range e.after {
		p := srv.ProbeCAS(a.hash, a.size)
		if x1ProbeWatchdog(p.Errs) {
			r.Count("inconclusive.watchdog")
			r.Inconclusive("C01 probe after " + what + ": watchdog context expired")
			continue
		}
		present := p.FindMissingPresent || p.HeadStatus == 200 || p.GetStatus == 200
		r.Eval()
		key := fmt.Sprintf("C01:%s:%s:%s", a.cs.Path, a.cs.Storage, a.cs.Corr)
		det := map[string]any{"case": a.cs, "declared_hash": a.hash, "declared_size": a.size, "reopened_as": srv.Opts.Storage, "probe_after_" + what: map[string]any{"findmissing_present": p.FindMissingPresent, "head": p.HeadStatus, "get": p.GetStatus, "get_len": len(p.GetBody)}}
		if !a.acked && present {
			r.Violation(key+":refused-but-present-after-"+what, fmt.Sprintf("upload that was refused left something behind: after a %s the claimed digest (%s,%d) is reported present (findmissing=%v head=%d get=%d)", what, a.hash, a.size, p.FindMissingPresent, p.HeadStatus, p.GetStatus), det)
		}
		if a.acked && (!(p.FindMissingPresent && p.HeadStatus == 200 && p.GetStatus == 200) || (a.B != nil && !bytes.Equal(p.GetBody, a.B))) {
			r.Violation(key+":acked-lost-after-"+what, fmt.Sprintf("acknowledged blob (%s,%d) is not present/readable with its bytes after a %s (findmissing=%v head=%d get=%d, %d bytes)", a.hash, a.size, what, p.FindMissingPresent, p.HeadStatus, p.GetStatus, len(p.GetBody)), det)
		}
		r.Count(what + "-probe." + map[bool]string{true: "acked", false: "refused"}[a.acked])
	}
}

// lateSplice asks the instance that re-opened the directory under the other storage mode to splice chunks which
// were written before the re-open (so they are stored in the other on-disk format).
func (e *c01Env) lateSplice(srv *lib.Server, chunks [][]byte, storage, impl string, ci int) {
	r := e.r
	var whole []byte
	var cds []*pb.Digest
	for _, c := range chunks {
		whole = append(whole, c...)
		cds = append(cds, lib.DigestOf(c))
	}
	req := &pb.SpliceBlobRequest{ChunkDigests: cds}
	path := "splice-nodigest"
	if (ci+int(r.Seed))%2 == 0 {
		req.BlobDigest = lib.DigestOf(whole)
		path = "splice"
	}
	cs := c01Case{ID: -1 - ci, Path: path, Corr: "chunks-from-other-mode", Storage: storage, Impl: impl, Size: len(whole), Content: "mixed"}
	key := fmt.Sprintf("C01:%s:%s:%s", cs.Path, cs.Storage, cs.Corr)
	ctx, cancel := lib.Ctx()
	defer cancel()
	resp, err := srv.CAS.SpliceBlob(ctx, req)
	if x1IsWatchdog(ctx, err) {
		r.Count("inconclusive.watchdog")
		r.Inconclusive("C01 splice after the re-open: watchdog context expired")
		return
	}
	r.Eval()
	r.Distinct(cs.Path, cs.Storage, cs.Impl, cs.Corr, lib.SizeClassName(cs.Size))
	r.Count(fmt.Sprintf("%s.%s.%s", cs.Path, cs.Corr, map[bool]string{true: "ack", false: "refused"}[err == nil]))
	det := map[string]any{"case": cs, "chunk_sizes": []int{len(chunks[0]), len(chunks[1]), len(chunks[2])}, "instance_storage": srv.Opts.Storage, "status": lib.Code(err).String(),
		"replay_note": "chunks are written through the disk API by the first instance (storage = case.Storage), the directory is re-opened in the other storage mode, then SpliceBlob"}
	if err != nil {
		r.Violation(key+":refused-valid", fmt.Sprintf("well-formed SpliceBlob of chunks written under the other storage mode was refused: %v", err), det)
		return
	}
	d := lib.DigestOf(whole)
	if resp.GetBlobDigest().GetHash() != d.Hash || resp.GetBlobDigest().GetSizeBytes() != d.SizeBytes {
		r.Violation(key+":answered-digest-wrong", fmt.Sprintf("SpliceBlob answered digest (%s,%d) for content with digest (%s,%d)", resp.GetBlobDigest().GetHash(), resp.GetBlobDigest().GetSizeBytes(), d.Hash, d.SizeBytes), det)
	}
	p := srv.ProbeCAS(d.Hash, d.SizeBytes)
	if x1ProbeWatchdog(p.Errs) {
		r.Count("inconclusive.watchdog")
		r.Inconclusive("C01 probe of the spliced blob: watchdog context expired")
		return
	}
	if !(p.FindMissingPresent && p.HeadStatus == 200 && p.GetStatus == 200) {
		r.Violation(key+":acked-not-present", fmt.Sprintf("spliced blob (%s,%d) not reported present/readable on every path: findmissing=%v head=%d get=%d", d.Hash, d.SizeBytes, p.FindMissingPresent, p.HeadStatus, p.GetStatus), det)
	} else if !bytes.Equal(p.GetBody, whole) {
		r.Violation(key+":acked-stored-wrong", fmt.Sprintf("spliced blob (%s,%d) reads back as %d bytes with digest %s", d.Hash, d.SizeBytes, len(p.GetBody), lib.Sha256Hex(p.GetBody)), det)
	}
	e.after = append(e.after, c01After{cs: cs, hash: d.Hash, size: d.SizeBytes, acked: true, B: whole})
}

// c01Item is one blob of a request that carries several.
type c01Item struct {
	Kind  string // what was done to it
	Field string // multi-AR: stdout | stderr | file
	B     []byte // true content
	hash  string // claimed
	size  int64
	valid bool
	acked bool
	stat  string
}

// judgeItem applies the per-blob oracle: valid => acknowledged, present and readable with its bytes;
// otherwise not acknowledged and the claimed digest absent. ackKnown=false: the request as a whole was refused
// because of ANOTHER item, so nothing is demanded of a valid item.
func (e *c01Env) judgeItem(path, storage, impl string, it *c01Item, demandAck bool, detail map[string]any) {
	r := e.r
	key := fmt.Sprintf("C01:%s:%s:%s", path, storage, it.Kind)
	if it.Field != "" {
		key = fmt.Sprintf("C01:%s:%s:%s:%s", path, storage, it.Field, it.Kind)
	}
	r.Eval()
	r.Distinct(path, storage, impl, it.Field, it.Kind, lib.SizeClassName(len(it.B)))
	r.Count(fmt.Sprintf("%s.%s.%s", path, it.Kind, map[bool]string{true: "ack", false: "refused"}[it.acked]))
	det := map[string]any{"item_kind": it.Kind, "field": it.Field, "claimed_hash": it.hash, "claimed_size": it.size, "true_hash": lib.Sha256Hex(it.B), "true_size": len(it.B), "item_status": it.stat}
	for k, v := range detail {
		det[k] = v
	}
	if it.acked && !it.valid {
		r.Violation(key+":acked-invalid", fmt.Sprintf("%s: item that does not match its declared digest was acknowledged (%s): kind=%s declared=(%s,%d) true=(%s,%d)", path, it.stat, it.Kind, it.hash, it.size, lib.Sha256Hex(it.B), len(it.B)), det)
	}
	if !it.acked && it.valid && demandAck {
		r.Violation(key+":refused-valid", fmt.Sprintf("%s: well-formed item was refused (%s) in a request without any malformed item of its own", path, it.stat), det)
	}
	p := e.srv.ProbeCAS(it.hash, it.size)
	if x1ProbeWatchdog(p.Errs) {
		r.Count("inconclusive.watchdog")
		r.Inconclusive("C01 " + path + ": watchdog context expired during the presence probe")
		return
	}
	det["probe"] = map[string]any{"findmissing_present": p.FindMissingPresent, "head": p.HeadStatus, "get": p.GetStatus, "get_len": len(p.GetBody)}
	present := p.FindMissingPresent || p.HeadStatus == 200 || p.GetStatus == 200
	switch {
	case it.acked && it.valid:
		if !(p.FindMissingPresent && p.HeadStatus == 200 && p.GetStatus == 200) {
			r.Violation(key+":acked-not-present", fmt.Sprintf("%s: acknowledged item (%s,%d) not reported present/readable on every path: findmissing=%v head=%d get=%d", path, it.hash, it.size, p.FindMissingPresent, p.HeadStatus, p.GetStatus), det)
		} else if !bytes.Equal(p.GetBody, it.B) {
			r.Violation(key+":acked-stored-wrong", fmt.Sprintf("%s: acknowledged item (%s,%d) reads back as %d bytes with digest %s", path, it.hash, it.size, len(p.GetBody), lib.Sha256Hex(p.GetBody)), det)
		}
	case !it.valid && present:
		r.Violation(key+":refused-but-present", fmt.Sprintf("%s: item that does not match its digest (%s) left the claimed digest (%s,%d) present: findmissing=%v head=%d get=%d", path, it.stat, it.hash, it.size, p.FindMissingPresent, p.HeadStatus, p.GetStatus), det)
	}
	if it.valid && !it.acked {
		return // nothing was promised about it, nothing to re-probe later
	}
	e.omu.Lock()
	e.after = append(e.after, c01After{cs: c01Case{Path: path, Corr: strings.TrimPrefix(it.Field+":"+it.Kind, ":"), Storage: storage, Impl: impl, Size: len(it.B)}, hash: it.hash, size: it.size, acked: it.acked && it.valid, B: it.B})
	e.omu.Unlock()
}

func c01ItemSize(rng *rand.Rand) int {
	switch rng.IntN(10) {
	case 0:
		return 64*lib.KiB + 1
	case 1:
		return 4096
	case 2:
		return 4097
	}
	return 17 + rng.IntN(5000)
}

// multiBatch: BatchUpdateBlobs requests of 3-6 blobs mixing well-formed and malformed items, identity and zstd;
// every item is judged by its own status and by the presence probe of its own digest.
func (e *c01Env) multiBatch(rng *rand.Rand, storage, impl string, n, ci int) {
	r := e.r
	valids := []string{"valid-identity", "valid-zstd"}
	bads := []string{"flip", "flip-zstd", "size+1", "size-1", "size+1-zstd", "bad-compressor", "z-garbage-after", "hashother", "trunc1-zstd", "ext1"}
	for b := 0; b < n; b++ {
		k := 3 + rng.IntN(4)
		kinds := make([]string, k)
		for i := range kinds {
			if rng.IntN(2) == 0 {
				kinds[i] = lib.Pick(rng, valids)
			} else {
				kinds[i] = lib.Pick(rng, bads)
			}
		}
		// at least one of each, at random positions; batch b exercises bad kind b in turn
		pv := rng.IntN(k)
		pb2 := (pv + 1 + rng.IntN(k-1)) % k
		kinds[pv] = valids[b%2]
		kinds[pb2] = bads[(b+ci*n)%len(bads)]
		items := make([]*c01Item, k)
		req := &pb.BatchUpdateBlobsRequest{}
		for i, kind := range kinds {
			B := lib.GenBlob(rng, c01ItemSize(rng), lib.Pick(rng, lib.ContentKinds), fmt.Sprintf("C01-s%d-%s-%s-mb%d-%d", r.Seed, storage, impl, b, i))
			it := &c01Item{Kind: kind, B: B, hash: lib.Sha256Hex(B), size: int64(len(B)), valid: kind == "valid-identity" || kind == "valid-zstd"}
			data := B
			z := strings.HasSuffix(kind, "-zstd") || kind == "z-garbage-after"
			switch strings.TrimSuffix(kind, "-zstd") {
			case "flip":
				data, _ = corruptData(rng, B, "flip")
			case "trunc1":
				data, _ = corruptData(rng, B, "trunc1")
			case "ext1":
				data, _ = corruptData(rng, B, "ext1")
			case "size+1":
				it.size++
			case "size-1":
				it.size--
			case "hashother":
				it.hash = lib.Sha256Hex(append([]byte("other"), B...))
			}
			q := &pb.BatchUpdateBlobsRequest_Request{Digest: &pb.Digest{Hash: it.hash, SizeBytes: it.size}, Data: data}
			if z {
				q.Data, q.Compressor = zstdEncodeRand(rng, data), pb.Compressor_ZSTD
				if kind == "z-garbage-after" {
					q.Data = append(append([]byte(nil), q.Data...), 0xde, 0xad, 0xbe, 0xef, byte(rng.Uint32()))
					ok, disagree := refDecodes(q.Data, B)
					if ok {
						it.valid = true // (both reference decoders accept it: then it is a well-formed upload)
					}
					if disagree {
						it.Kind, q.Data, it.valid = "valid-zstd", zstdEncodeRand(rng, B), true // no agreed verdict on that stream: send a plain frame instead
					}
				}
			}
			if kind == "bad-compressor" {
				q.Compressor = pb.Compressor_DEFLATE
			}
			items[i] = it
			req.Requests = append(req.Requests, q)
		}
		ctx, cancel := lib.Ctx()
		resp, err := e.srv.CAS.BatchUpdateBlobs(ctx, req)
		wd := x1IsWatchdog(ctx, err)
		cancel()
		if wd {
			r.Count("inconclusive.watchdog")
			r.Inconclusive("C01 batch-multi: watchdog context expired during BatchUpdateBlobs")
			continue
		}
		r.Count(fmt.Sprintf("batch-multi.requests.%d-items", k))
		byDigest := map[string]codes.Code{}
		if err == nil {
			for _, rr := range resp.Responses {
				byDigest[fmt.Sprintf("%s/%d", rr.GetDigest().GetHash(), rr.GetDigest().GetSizeBytes())] = codes.Code(rr.GetStatus().GetCode())
			}
		}
		var shape []string
		for _, it := range items {
			shape = append(shape, fmt.Sprintf("%s(%d)", it.Kind, len(it.B)))
		}
		for i, it := range items {
			c, ok := byDigest[fmt.Sprintf("%s/%d", it.hash, it.size)]
			switch {
			case err != nil:
				it.stat = "rpc " + lib.Code(err).String()
			case !ok:
				it.stat = "no response for this digest"
			default:
				it.acked = c == codes.OK
				it.stat = "blob " + c.String()
			}
			e.judgeItem("batch-multi", storage, impl, it, true, map[string]any{"batch": shape, "position": i, "seed_note": fmt.Sprintf("batch %d of config %s/%s; contents = lib.GenBlob(PCG(seed*104729+config index, 0xC01B) stream)", b, storage, impl)})
		}
	}
}

// multiAR: UpdateActionResult with stdout, stderr and 2-3 output files inlined in ONE request, some fields without a
// digest (the server computes it), at most one field malformed. A request with a malformed field has to fail and
// must not make that field's claimed digest present; a request with only well-formed fields has to succeed and
// makes every inlined blob present.
func (e *c01Env) multiAR(rng *rand.Rand, storage, impl string, n, ci int) {
	r := e.r
	bads := []string{"flip", "size+1", "size-1", "hashother", "ext1", "trunc1"}
	for a := 0; a < n; a++ {
		nf := 2 + rng.IntN(2)
		fields := []string{"stdout", "stderr"}
		for i := 0; i < nf; i++ {
			fields = append(fields, "file")
		}
		bad := -1
		if a%2 == 1 {
			bad = rng.IntN(len(fields))
		}
		ar := &pb.ActionResult{ExitCode: int32(a)}
		var items []*c01Item
		for i, f := range fields {
			B := lib.GenBlob(rng, c01ItemSize(rng), lib.Pick(rng, lib.ContentKinds), fmt.Sprintf("C01-s%d-%s-%s-mar%d-%d", r.Seed, storage, impl, a, i))
			it := &c01Item{Kind: "valid", Field: f, B: B, hash: lib.Sha256Hex(B), size: int64(len(B)), valid: true}
			data := B
			nodigest := f != "file" && i != bad && rng.IntN(3) == 0
			if nodigest {
				it.Kind = "valid-nodigest"
			}
			if i == bad {
				it.Kind, it.valid = bads[(a/2+ci*(n/2))%len(bads)], false
				switch it.Kind {
				case "flip", "ext1", "trunc1":
					data, _ = corruptData(rng, B, it.Kind)
				case "size+1":
					it.size++
				case "size-1":
					it.size--
				case "hashother":
					it.hash = lib.Sha256Hex(append([]byte("other"), B...))
				}
			}
			d := &pb.Digest{Hash: it.hash, SizeBytes: it.size}
			if nodigest {
				d = nil
			}
			switch f {
			case "stdout":
				ar.StdoutRaw, ar.StdoutDigest = data, d
			case "stderr":
				ar.StderrRaw, ar.StderrDigest = data, d
			default:
				ar.OutputFiles = append(ar.OutputFiles, &pb.OutputFile{Path: fmt.Sprintf("out/f%d", i), Digest: d, Contents: data, IsExecutable: rng.IntN(2) == 0})
			}
			items = append(items, it)
		}
		ctx, cancel := lib.Ctx()
		ad := &pb.Digest{Hash: lib.RandHash(rng), SizeBytes: 42}
		_, err := e.srv.AC.UpdateActionResult(ctx, &pb.UpdateActionResultRequest{ActionDigest: ad, ActionResult: ar})
		wd := x1IsWatchdog(ctx, err)
		cancel()
		if wd {
			r.Count("inconclusive.watchdog")
			r.Inconclusive("C01 ac-inline-multi: watchdog context expired during UpdateActionResult")
			continue
		}
		r.Count(fmt.Sprintf("ac-inline-multi.requests.%d-fields.%s", len(fields), map[bool]string{true: "all-valid", false: "one-malformed"}[bad < 0]))
		var shape []string
		for _, it := range items {
			shape = append(shape, fmt.Sprintf("%s:%s(%d)", it.Field, it.Kind, len(it.B)))
		}
		for i, it := range items {
			// the answer covers the request as a whole
			it.acked = err == nil
			it.stat = "update-ar " + lib.Code(err).String()
			e.judgeItem("ac-inline-multi", storage, impl, it, bad < 0, map[string]any{"fields": shape, "position": i, "malformed_position": bad, "action_digest": ad.Hash})
		}
	}
}

// emptyDigest: uploads naming the digest of the empty blob. The empty blob is present by definition, so an upload
// naming it is an upload of an already present blob: a well-formed one (no bytes / an empty zstd frame) must be
// accepted; for one that carries bytes only the weak rule holds. After each of them the empty blob must still be
// readable as zero bytes on every path.
func (e *c01Env) emptyDigest(storage, impl string) {
	r, srv := e.r, e.srv
	emptyFrame := []byte{0x28, 0xb5, 0x2f, 0xfd, 0x20, 0x00, 0x01, 0x00, 0x00}
	if ok, _ := refDecodes(emptyFrame, []byte{}); !ok {
		r.Count("empty-digest.skipped-no-reference-frame")
		return
	}
	h := lib.EmptySha256
	one := []byte("x")
	zone := lib.ZstdEncodeC(one, 3)
	zgarb := append(append([]byte(nil), emptyFrame...), 0xde, 0xad, 0xbe, 0xef, 0x01)
	type up struct {
		path, kind string
		do         func(ctx context.Context) (bool, string, error)
	}
	httpPut := func(body []byte, hdr map[string]string) func(context.Context) (bool, string, error) {
		return func(context.Context) (bool, string, error) {
			g := srv.HTTPPut("/cas/"+h, body, hdr)
			return g.Err == nil && g.Status == 200, fmt.Sprintf("http %d %v", g.Status, g.Err), g.Err
		}
	}
	batch := func(data []byte, c pb.Compressor_Value) func(context.Context) (bool, string, error) {
		return func(ctx context.Context) (bool, string, error) {
			resp, err := srv.CAS.BatchUpdateBlobs(ctx, &pb.BatchUpdateBlobsRequest{Requests: []*pb.BatchUpdateBlobsRequest_Request{{Digest: &pb.Digest{Hash: h}, Data: data, Compressor: c}}})
			if err != nil || len(resp.Responses) != 1 {
				return false, "rpc " + lib.Code(err).String(), err
			}
			c := codes.Code(resp.Responses[0].GetStatus().GetCode())
			return c == codes.OK, "blob " + c.String(), nil
		}
	}
	nth := 0
	bs := func(z bool, data []byte) func(context.Context) (bool, string, error) {
		return func(ctx context.Context) (bool, string, error) {
			nth++
			name := lib.ResUpload(fmt.Sprintf("00000000-0000-4000-8000-%012d", nth), h, 0)
			if z {
				name = lib.ResUploadZstd(fmt.Sprintf("00000000-0000-4000-8000-%012d", nth), h, 0)
			}
			_, err := srv.BSWriteMsgs(ctx, []*bspb.WriteRequest{{ResourceName: name, Data: data, FinishWrite: true}})
			return err == nil, "bs " + lib.Code(err).String(), err
		}
	}
	ac := func(field string) func(context.Context) (bool, string, error) {
		return func(ctx context.Context) (bool, string, error) {
			nth++
			ar := &pb.ActionResult{ExitCode: 3}
			switch field {
			case "stdout":
				ar.StdoutRaw, ar.StdoutDigest = one, &pb.Digest{Hash: h}
			default:
				ar.OutputFiles = []*pb.OutputFile{{Path: "o", Contents: one, Digest: &pb.Digest{Hash: h}}}
			}
			_, err := srv.AC.UpdateActionResult(ctx, &pb.UpdateActionResultRequest{ActionDigest: &pb.Digest{Hash: lib.Sha256Hex([]byte(fmt.Sprintf("empty-digest-ar-%s-%s-%d", storage, impl, nth))), SizeBytes: 11}, ActionResult: ar})
			return err == nil, "update-ar " + lib.Code(err).String(), err
		}
	}
	fetch := func(ctx context.Context) (bool, string, error) {
		p := "/blob/empty-" + storage + "-" + impl
		e.omu.Lock()
		e.obody[p] = originEntry{body: []byte{}}
		e.omu.Unlock()
		defer func() { e.omu.Lock(); delete(e.obody, p); e.omu.Unlock() }()
		raw, _ := hex.DecodeString(h)
		resp, err := srv.Asset.FetchBlob(ctx, &asset.FetchBlobRequest{Uris: []string{e.origin.URL + p}, Qualifiers: []*asset.Qualifier{{Name: "checksum.sri", Value: "sha256-" + base64.StdEncoding.EncodeToString(raw)}}})
		if err != nil {
			return false, "fetch rpc " + lib.Code(err).String(), err
		}
		c := codes.Code(resp.GetStatus().GetCode())
		if c == codes.OK && (resp.GetBlobDigest().GetHash() != h || resp.GetBlobDigest().GetSizeBytes() != 0) {
			return true, fmt.Sprintf("fetch OK with digest (%s,%d)", resp.GetBlobDigest().GetHash(), resp.GetBlobDigest().GetSizeBytes()), nil
		}
		return c == codes.OK, "fetch " + c.String(), nil
	}
	zhdr := func() map[string]string {
		return map[string]string{"Content-Encoding": "zstd", "X-Digest-SizeBytes": "0"}
	}
	ups := []up{
		{"http-put", "none", httpPut([]byte{}, nil)},
		{"http-put", "none-xsize", httpPut([]byte{}, map[string]string{"X-Digest-SizeBytes": "0"})},
		{"http-put", "ext1", httpPut(one, map[string]string{"X-Digest-SizeBytes": "0"})},
		{"http-put-zstd", "none", httpPut(emptyFrame, zhdr())},
		{"http-put-zstd", "ext1", httpPut(zone, zhdr())},
		{"http-put-zstd", "z-garbage-after", httpPut(zgarb, zhdr())},
		{"batch", "none", batch([]byte{}, pb.Compressor_IDENTITY)},
		{"batch", "ext1", batch(one, pb.Compressor_IDENTITY)},
		{"batch-zstd", "none", batch(emptyFrame, pb.Compressor_ZSTD)},
		{"batch-zstd", "ext1", batch(zone, pb.Compressor_ZSTD)},
		{"batch-zstd", "z-garbage-after", batch(zgarb, pb.Compressor_ZSTD)},
		{"bs-blobs", "none", bs(false, nil)},
		{"bs-blobs", "ext1", bs(false, one)},
		{"bs-zstd", "none", bs(true, emptyFrame)},
		{"bs-zstd", "ext1", bs(true, zone)},
		{"bs-zstd", "z-garbage-after", bs(true, zgarb)},
		{"ac-inline-stdout", "ext1", ac("stdout")},
		{"ac-inline-file", "ext1", ac("file")},
		{"fetchblob", "none", fetch},
	}
	for _, u := range ups {
		ctx, cancel := lib.Ctx()
		acked, stat, err := u.do(ctx)
		wd := x1IsWatchdog(ctx, err)
		cancel()
		if wd {
			r.Count("inconclusive.watchdog")
			r.Inconclusive("C01 empty-digest: watchdog context expired during the upload")
			continue
		}
		key := fmt.Sprintf("C01:%s:%s:empty-digest:%s", u.path, storage, u.kind)
		det := map[string]any{"path": u.path, "kind": u.kind, "storage": storage, "impl": impl, "status": stat, "digest": h + "/0",
			"replay_note": "none = no bytes / the 9-byte empty zstd frame; ext1 = the byte 'x' (zstd: its frame) under the digest of the empty blob; z-garbage-after = empty frame + de ad be ef 01"}
		r.Eval()
		r.Distinct(u.path, storage, impl, "empty-digest", u.kind)
		r.Count(fmt.Sprintf("empty-digest.%s.%s.%s", u.path, u.kind, map[bool]string{true: "ack", false: "refused"}[acked]))
		if strings.HasPrefix(u.kind, "none") && !acked {
			r.Violation(key+":refused-valid", fmt.Sprintf("well-formed upload of the empty blob was refused (%s): path=%s storage=%s", stat, u.path, storage), det)
		}
		if strings.HasPrefix(stat, "fetch OK with digest") {
			r.Violation(key+":answered-digest-wrong", "FetchBlob of an empty origin body with the checksum of the empty blob: "+stat, det)
		}
		// whatever the answer: the empty blob stays readable as zero bytes on every path
		if what := e.emptyUnreadable(); what == "watchdog" {
			r.Count("inconclusive.watchdog")
			r.Inconclusive("C01 empty-digest: watchdog context expired during the read-back")
		} else if what != "" {
			det["read_back"] = what
			r.Violation(key+":empty-blob-unreadable", fmt.Sprintf("after an upload naming the empty digest (%s, %s) the empty blob is not readable as zero bytes: %s", u.kind, stat, what), det)
		}
	}
}

// emptyUnreadable reads the empty blob through every read path; "" = zero bytes everywhere.
func (e *c01Env) emptyUnreadable() string {
	srv := e.srv
	ctx, cancel := lib.Ctx()
	defer cancel()
	h := lib.EmptySha256
	var bad []string
	p := srv.ProbeCAS(h, 0)
	if x1ProbeWatchdog(p.Errs) {
		return "watchdog"
	}
	if !p.FindMissingPresent || p.HeadStatus != 200 || p.GetStatus != 200 || len(p.GetBody) != 0 {
		bad = append(bad, fmt.Sprintf("findmissing_present=%v head=%d get=%d (%d bytes)", p.FindMissingPresent, p.HeadStatus, p.GetStatus, len(p.GetBody)))
	}
	got, err := srv.BSRead(ctx, lib.ResBlobs(h, 0), 0, 0)
	if x1IsWatchdog(ctx, err) {
		return "watchdog"
	}
	if err != nil || len(got) != 0 {
		bad = append(bad, fmt.Sprintf("bytestream read: %d bytes, %v", len(got), err))
	}
	resp, err := srv.CAS.BatchReadBlobs(ctx, &pb.BatchReadBlobsRequest{Digests: []*pb.Digest{{Hash: h}}})
	if x1IsWatchdog(ctx, err) {
		return "watchdog"
	}
	if err != nil || len(resp.Responses) != 1 || resp.Responses[0].GetStatus().GetCode() != 0 || len(resp.Responses[0].Data) != 0 {
		bad = append(bad, fmt.Sprintf("batchread: err=%v resp=%v", err, resp))
	}
	return strings.Join(bad, "; ")
}

func runC01(r *lib.Run) {
	r.SetRule("cases = write path x storage mode x zstd impl x corruption kind x size class x content kind, each with a fresh digest; quick: every (path x storage x corruption) at least once, sizes <= 1 MiB+1 plus a few multi-chunk; " +
		"thorough: repeated over all size classes and both impls. distinct = (path, storage, impl, corruption, size class). expectation: valid => acknowledged and present+readable on 3 paths; otherwise error and claimed digest absent. " +
		"request spellings (instance prefix, trailing metadata, chunked PUT, explicit X-Digest-SizeBytes / Content-Encoding: identity) rotate over the cases, the well-formed upload runs once per spelling. " +
		"per configuration additionally: BatchUpdateBlobs requests of 3-6 mixed items and ActionResults with 4-5 inlined fields (per-item oracle), uploads naming the empty digest, " +
		"a re-open of the directory under the other storage mode (every remembered digest probed, one splice of chunks written before it) and a restart under the original mode")
	r.Assume("validity of corrupted zstd streams is decided by two reference decoders (klauspost, libzstd); multi-frame / trailing-empty-frame / skippable-prefix streams carry only the weak obligation (ack => stored correctly)")
	r.Assume("weak obligation only (ack => stored correctly / stored blob untouched): upper-case spelling of the right hash; zstd PUT without X-Digest-SizeBytes; uploads carrying bytes under the digest of the empty blob; " +
		"uploads naming an already stored digest with other bytes on paths that may answer early for an existing blob (ByteStream.Write, SpliceBlob, FetchBlob)")
	reps := r.N(1, 14)
	rng := r.Rng("c01")
	type cfg struct{ storage, impl string }
	cfgs := []cfg{{"zstd", "go"}, {"uncompressed", "go"}, {"zstd", "cgo"}, {"uncompressed", "cgo"}}
	id := 0
	phases := map[string]map[string]float64{}
	for ci, cf := range cfgs {
		t0 := time.Now()
		e := &c01Env{r: r, obody: map[string]originEntry{}, tiny: map[string]bool{}}
		e.origin = httptest.NewServer(http.HandlerFunc(e.originHandler))
		srv, err := lib.StartServer(lib.ServerOpts{Dir: lib.MkTemp("c01"), MaxSize: 64 << 30, Storage: cf.storage, ZstdImpl: cf.impl, AssetAPI: true})
		if err != nil {
			r.Inconclusive("server start: " + err.Error())
			return
		}
		e.srv = srv
		var cases []c01Case
		for rep := 0; rep < reps; rep++ {
			for _, p := range c01Paths {
				for _, c := range c01Corruptions {
					if !c01Applicable(p, c) {
						continue
					}
					// quick: impl alternates by path/corruption so that both impls see every path
					if r.Quick && (ci >= 2) != ((len(p)+len(c))%2 == 1) {
						continue
					}
					sizes := lib.SmallSizeClasses
					if !r.Quick {
						sizes = lib.SizeClasses
					}
					sz := sizes[rng.IntN(len(sizes))]
					if r.Quick && rng.IntN(12) == 0 {
						sz = lib.SizeClasses[11+rng.IntN(4)] // a few multi-chunk blobs
					}
					if (c == "extbig" || c == "sizehuge") && r.Quick && sz > 64*lib.KiB {
						sz = 4097
					}
					if strings.HasPrefix(p, "ac-inline") && sz > 2*lib.MiB {
						sz = lib.MiB + 1
					}
					if sz < 32 && (strings.HasPrefix(c, "pre:") || strings.HasPrefix(p, "splice")) {
						sz = 4095 + rng.IntN(3) // not expressible on tiny blobs (chunks / stored twin need >= 32 bytes)
					}
					id++
					cases = append(cases, c01Case{ID: id, Path: p, Corr: c, Storage: cf.storage, Impl: cf.impl, Size: sz, Content: lib.Pick(rng, lib.ContentKinds)})
					if c == "none" {
						// the well-formed upload once in every spelling of the request
						for _, sh := range c01Shapes(p) {
							id++
							cases = append(cases, c01Case{ID: id, Path: p, Corr: c, Storage: cf.storage, Impl: cf.impl, Size: sizes[rng.IntN(8)], Content: lib.Pick(rng, lib.ContentKinds), Shape: sh}) // (<= 64 KiB+1: the spelling, not the size, is the point)
						}
					}
				}
			}
		}
		var wg sync.WaitGroup
		ch := make(chan c01Case)
		for w := 0; w < 8; w++ {
			wg.Add(1)
			go func() {
				defer wg.Done()
				for cs := range ch {
					res := e.runCase(cs)
					if res.skip {
						r.Count("skipped." + cs.Corr)
						continue
					}
					crng := rand.New(rand.NewPCG(uint64(r.Seed)*7919+uint64(cs.ID), 0xC01))
					B := lib.GenBlob(crng, cs.Size, cs.Content, fmt.Sprintf("C01-s%d-c%d", r.Seed, cs.ID))
					e.judge(cs, res, B)
					if cs.ID%97 == 0 {
						r.Sample(map[string]any{"case": cs, "status": res.status, "acked": res.acked, "valid": res.valid})
					}
				}
			}()
		}
		var serial []c01Case
		for _, cs := range cases {
			if strings.HasPrefix(cs.Corr, "abort-") {
				serial = append(serial, cs) // need server quiescence (Settle) to be judged: run alone afterwards
				continue
			}
			ch <- cs
		}
		close(ch)
		wg.Wait()
		for _, cs := range serial {
			res := e.runCase(cs)
			if res.skip {
				r.Count("skipped." + cs.Corr)
				continue
			}
			crng := rand.New(rand.NewPCG(uint64(r.Seed)*7919+uint64(cs.ID), 0xC01))
			B := lib.GenBlob(crng, cs.Size, cs.Content, fmt.Sprintf("C01-s%d-c%d", r.Seed, cs.ID))
			e.judge(cs, res, B)
		}
		// The slices that send several items in one request, and the empty digest.
		srng := rand.New(rand.NewPCG(uint64(r.Seed)*104729+uint64(ci), 0xC01B))
		t1 := time.Now()
		e.multiBatch(srng, cf.storage, cf.impl, r.N(4, 60), ci)
		e.multiAR(srng, cf.storage, cf.impl, r.N(4, 60), ci)
		e.emptyDigest(cf.storage, cf.impl)
		t2 := time.Now()
		// chunks for a splice that will be requested after the directory has been re-opened in the other storage mode
		var lateChunks [][]byte
		for i := 0; i < 3; i++ {
			c := lib.GenBlob(srng, []int{300, 70000, lib.MiB + 5}[i], lib.Pick(srng, lib.ContentKinds), fmt.Sprintf("C01-s%d-cfg%d-late%d", r.Seed, ci, i))
			ctx, cancel := lib.Ctx()
			err := srv.Cache.Put(ctx, cache.CAS, lib.Sha256Hex(c), int64(len(c)), bytes.NewReader(c))
			cancel()
			if err != nil {
				lateChunks = nil
				break
			}
			lateChunks = append(lateChunks, c)
		}
		// Re-open the directory once under the OTHER storage mode: what was acknowledged must be readable by an
		// instance that stores differently, what was refused must not appear; then restart under the original mode.
		// "does not make the claimed digest present" / "thereafter reported present and readable until evicted".
		dir := srv.Dir
		srv.Close()
		other := map[string]string{"zstd": "uncompressed", "uncompressed": "zstd"}[cf.storage]
		for pass, mode := range []string{other, cf.storage} {
			what := []string{"reopen-other-mode", "restart"}[pass]
			srv2, err := lib.StartServer(lib.ServerOpts{Dir: dir, MaxSize: 64 << 30, Storage: mode, ZstdImpl: cf.impl, AssetAPI: true})
			if err != nil {
				r.Violation("C01:"+what+"-failed:"+cf.storage, what+" on the directory after the upload cases failed: "+err.Error(), nil)
				break
			}
			e.srv = srv2
			e.probeAfter(srv2, what)
			if pass == 0 && lateChunks != nil {
				e.lateSplice(srv2, lateChunks, cf.storage, cf.impl, ci)
			}
			srv2.Close()
		}
		_ = removeAll(dir)
		e.origin.Close()
		phases[cf.storage+"/"+cf.impl] = map[string]float64{"cases": t1.Sub(t0).Seconds(), "multi-item+empty-digest": t2.Sub(t1).Seconds(), "reopen+restart": time.Since(t2).Seconds()}
		r.Extra("phase_wall_s", phases)
	}
}

func init() { lib.Register("C01", runC01) }

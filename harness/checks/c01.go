package checks

import (
	"bytes"
	"context"
	"encoding/base64"
	"encoding/hex"
	"fmt"
	"math/rand/v2"
	"net"
	"net/http"
	"net/http/httptest"
	"strings"
	"sync"
	"time"

	"verif/harness/lib"

	"github.com/buchgr/bazel-remote/v2/cache"
	asset "github.com/buchgr/bazel-remote/v2/genproto/build/bazel/remote/asset/v1"
	pb "github.com/buchgr/bazel-remote/v2/genproto/build/bazel/remote/execution/v2"
	bspb "google.golang.org/genproto/googleapis/bytestream"
	"google.golang.org/grpc/codes"
)

// C01 — CAS uploads are acknowledged only if the bytes match the digest, on
// every write path. Client-boundary oracle: the harness knows the true bytes,
// the declared digest and the wire encoding it produced itself.

var c01Paths = []string{"http-put", "http-put-zstd", "batch", "batch-zstd", "bs-blobs", "bs-zstd", "splice", "splice-nodigest", "ac-inline-stdout", "ac-inline-stderr", "ac-inline-file", "fetchblob", "fetchblob-nolen"}

// corruption kinds; which apply where is decided in c01Applicable.
var c01Corruptions = []string{"none", "flip", "trunc1", "trunchalf", "trunc0", "ext1", "extbig", "size+1", "size-1", "size0", "sizehuge",
	"hashother", "hash-short", "hash-upper", "hash-nonhex",
	"z-wrongmagic", "z-trunc1", "z-trunchalf", "z-corrupt", "z-badchecksum", "z-garbage-after", "z-second-frame", "z-multiframe", "z-empty-frame-after", "z-skippable-before",
	"bad-compressor", "abort-cancel", "abort-noFinish", "abort-tcpclose",
	"splice-missing-chunk", "splice-reordered", "splice-sizes-not-summing",
	// the claimed HASH is already stored (with its true size n) when the bad upload arrives; the claim states another size
	"pre:size+1", "pre:size-1", "pre:ext1+size", "pre:trunc1+size"}

func c01IsZstdPath(p string) bool { return strings.HasSuffix(p, "zstd") }

func c01Applicable(path, corr string) bool {
	z := c01IsZstdPath(path)
	switch {
	case strings.HasPrefix(corr, "z-"):
		return z
	case corr == "bad-compressor":
		return path == "http-put-zstd" || path == "batch-zstd" || path == "bs-zstd"
	case corr == "abort-cancel" || corr == "abort-noFinish":
		return strings.HasPrefix(path, "bs-")
	case corr == "abort-tcpclose":
		return strings.HasPrefix(path, "http-put")
	case strings.HasPrefix(corr, "splice-"):
		return path == "splice" || path == "splice-nodigest" && corr == "splice-missing-chunk"
	case strings.HasPrefix(corr, "pre:"):
		switch path {
		case "fetchblob", "fetchblob-nolen", "splice-nodigest":
			return false // no declared size on these paths
		case "splice":
			return corr == "pre:size+1" || corr == "pre:size-1"
		}
		return true
	}
	switch path {
	case "splice":
		return corr == "none" || corr == "size+1" || corr == "size-1" || corr == "hashother" || strings.HasPrefix(corr, "hash-") || corr == "sizehuge"
	case "splice-nodigest":
		return corr == "none"
	case "ac-inline-stdout", "ac-inline-stderr", "ac-inline-file":
		return corr == "none" || corr == "flip" || corr == "trunc1" || corr == "ext1" || corr == "size+1" || corr == "size-1" || corr == "hashother"
	case "fetchblob", "fetchblob-nolen":
		return corr == "none" || corr == "flip" || corr == "trunc1" || corr == "ext1" || corr == "hashother"
	case "http-put":
		// identity PUT declares its size through Content-Length (= body length) unless X-Digest-SizeBytes is given
		return true
	}
	return true
}

type c01Case struct {
	ID      int
	Path    string
	Corr    string
	Storage string
	Impl    string
	Size    int
	Content string
}

type c01Result struct {
	acked  bool
	status string
	skip   bool // case not expressible (e.g. trunc on a 1-byte blob)
	// what was claimed
	hash string
	size int64
	// expectation
	valid bool
	weak  bool // only "ack => stored correctly" is enforced
	// for paths where the server computes the digest: the digest it answered
	answeredHash string
	answeredSize int64
	noProbe      bool // malformed hash: probes are not expressible
	pre          bool // the claimed hash was stored beforehand with its true size
}

type c01Env struct {
	r      *lib.Run
	srv    *lib.Server
	origin *httptest.Server
	omu    sync.Mutex
	obody  map[string]originEntry
	tiny   map[string]bool // digests of tiny blobs already used by a case on this server
	after  []c01After      // what to probe again after a restart on the same directory
}

type originEntry struct {
	body  []byte
	nolen bool
}

func (e *c01Env) originHandler(w http.ResponseWriter, r *http.Request) {
	e.omu.Lock()
	ent, ok := e.obody[r.URL.Path]
	e.omu.Unlock()
	if !ok {
		http.NotFound(w, r)
		return
	}
	if ent.nolen {
		// chunked transfer: no Content-Length
		w.Header().Set("Content-Type", "application/octet-stream")
		w.WriteHeader(200)
		if f, ok := w.(http.Flusher); ok {
			f.Flush()
		}
		_, _ = w.Write(ent.body)
		return
	}
	w.Header().Set("Content-Length", fmt.Sprint(len(ent.body)))
	_, _ = w.Write(ent.body)
}

func uuidOf(rng *rand.Rand) string {
	return fmt.Sprintf("%08x-%04x-4%03x-8%03x-%012x", rng.Uint32(), rng.Uint32()&0xffff, rng.Uint32()&0xfff, rng.Uint32()&0xfff, rng.Uint64()&0xffffffffffff)
}

// corruptData applies a logical data corruption; returns (payload, ok).
func corruptData(rng *rand.Rand, B []byte, corr string) ([]byte, bool) {
	switch corr {
	case "flip":
		c := append([]byte(nil), B...)
		c[rng.IntN(len(c))] ^= 1 << rng.IntN(8)
		return c, true
	case "trunc1":
		if len(B) < 2 {
			return nil, false
		}
		return B[:len(B)-1], true
	case "trunchalf":
		if len(B) < 2 {
			return nil, false
		}
		return B[:len(B)/2], true
	case "trunc0":
		return []byte{}, true
	case "ext1":
		return append(append([]byte(nil), B...), byte(rng.Uint32())), true
	case "extbig":
		ext := make([]byte, lib.MiB+rng.IntN(1000))
		return append(append([]byte(nil), B...), ext...), true
	}
	return B, true
}

func zstdEncodeRand(rng *rand.Rand, b []byte) []byte {
	if rng.IntN(2) == 0 {
		return lib.ZstdEncodeKP(b, 1+rng.IntN(4))
	}
	return lib.ZstdEncodeC(b, 1+rng.IntN(12))
}

// refDecodes reports whether both reference decoders decode stream to exactly want.
// second result: the decoders disagree with each other (=> weak).
func refDecodes(stream, want []byte) (bool, bool) {
	a, ea := lib.ZstdDecodeKP(stream)
	c, ec := lib.ZstdDecodeC(stream)
	okA := ea == nil && bytes.Equal(a, want)
	okC := ec == nil && bytes.Equal(c, want)
	return okA && okC, okA != okC
}

func (e *c01Env) runCase(cs c01Case) c01Result {
	rng := rand.New(rand.NewPCG(uint64(e.r.Seed)*7919+uint64(cs.ID), 0xC01))
	tag := fmt.Sprintf("C01-s%d-c%d", e.r.Seed, cs.ID)
	B := lib.GenBlob(rng, cs.Size, cs.Content, tag)
	res := c01Result{hash: lib.Sha256Hex(B), size: int64(len(B)), valid: true}
	if cs.Size < 16 {
		// tiny contents collide between cases (only 256 one-byte blobs exist): every case needs a digest of its own
		e.omu.Lock()
		dup := e.tiny[res.hash]
		e.tiny[res.hash] = true
		e.omu.Unlock()
		if dup {
			return c01Result{skip: true}
		}
	}
	srv := e.srv
	ctx, cancel := lib.Ctx()
	defer cancel()

	if strings.HasPrefix(cs.Corr, "pre:") {
		if cs.Size < 32 {
			return c01Result{skip: true}
		}
		if err := srv.Cache.Put(ctx, cache.CAS, res.hash, res.size, bytes.NewReader(B)); err != nil {
			return c01Result{skip: true}
		}
		res.pre = true
	}
	// 1. declared digest corruptions
	switch cs.Corr {
	case "pre:ext1+size":
		res.size++
		res.valid = false
	case "pre:trunc1+size":
		res.size--
		res.valid = false
	case "size+1", "pre:size+1":
		res.size++
		res.valid = false
	case "pre:size-1":
		res.size--
		res.valid = false
	case "size-1":
		if res.size < 2 {
			return c01Result{skip: true}
		}
		res.size--
		res.valid = false
	case "size0":
		res.size = 0
		res.valid = false
	case "sizehuge":
		res.size = 1 << 40
		res.valid = false
	case "hashother":
		res.hash = lib.Sha256Hex(append([]byte("other"), B...))
		res.valid = false
	case "hash-short":
		res.hash = res.hash[:63]
		res.valid, res.noProbe = false, true
	case "hash-upper":
		res.hash = strings.ToUpper(res.hash)
		res.valid, res.noProbe = false, true
		if res.hash == strings.ToLower(res.hash) {
			return c01Result{skip: true}
		}
	case "hash-nonhex":
		res.hash = "g" + res.hash[1:]
		res.valid, res.noProbe = false, true
	}
	// 2. logical data corruptions
	data := B
	switch cs.Corr {
	case "pre:ext1+size":
		data, _ = corruptData(rng, B, "ext1")
	case "pre:trunc1+size":
		data, _ = corruptData(rng, B, "trunc1")
	}
	switch cs.Corr {
	case "flip", "trunc1", "trunchalf", "trunc0", "ext1", "extbig":
		var ok bool
		data, ok = corruptData(rng, B, cs.Corr)
		if !ok {
			return c01Result{skip: true}
		}
		res.valid = false
	}
	// 3. wire encoding
	payload := data
	z := c01IsZstdPath(cs.Path)
	if z {
		payload = zstdEncodeRand(rng, data)
		switch cs.Corr {
		case "z-wrongmagic":
			payload = append([]byte(nil), payload...)
			payload[rng.IntN(4)] ^= 0x55
		case "z-trunc1":
			payload = payload[:len(payload)-1]
		case "z-trunchalf":
			payload = payload[:len(payload)/2]
		case "z-corrupt":
			payload = append([]byte(nil), payload...)
			payload[4+rng.IntN(len(payload)-4)] ^= 1 << rng.IntN(8)
		case "z-badchecksum":
			// a frame that carries a content checksum (the klauspost encoder writes one), with the checksum damaged:
			// the data blocks are intact, a conforming decoder still has to refuse the frame
			payload = append([]byte(nil), lib.ZstdEncodeKP(data, 1+rng.IntN(4))...)
			payload[len(payload)-1-rng.IntN(4)] ^= 1 << rng.IntN(8)
		case "z-garbage-after":
			g := make([]byte, 1+rng.IntN(64))
			for i := range g {
				g[i] = byte(rng.Uint32())
			}
			payload = append(append([]byte(nil), payload...), g...)
		case "z-second-frame":
			payload = append(append([]byte(nil), payload...), zstdEncodeRand(rng, []byte("second frame payload"))...)
		case "z-multiframe":
			if len(data) < 2 {
				return c01Result{skip: true}
			}
			cut := 1 + rng.IntN(len(data)-1)
			payload = append(zstdEncodeRand(rng, data[:cut]), zstdEncodeRand(rng, data[cut:])...)
			res.weak = true
		case "z-empty-frame-after":
			payload = append(append([]byte(nil), payload...), lib.ZstdEncodeKP(nil, 1)...)
			res.weak = true
		case "z-skippable-before":
			skip := []byte{0x50, 0x2A, 0x4D, 0x18, 4, 0, 0, 0, 1, 2, 3, 4}
			payload = append(skip, payload...)
			res.weak = true
		}
		if strings.HasPrefix(cs.Corr, "z-") && !res.weak {
			// validity is decided by the two reference decoders, not assumed
			ok, disagree := refDecodes(payload, B)
			res.valid = ok
			if disagree {
				res.weak = true
			}
		}
	}

	hash, size := res.hash, res.size
	switch cs.Path {
	case "http-put", "http-put-zstd":
		hdr := map[string]string{}
		if z {
			hdr["Content-Encoding"] = "zstd"
			hdr["X-Digest-SizeBytes"] = fmt.Sprint(size)
		} else if size != int64(len(payload)) {
			hdr["X-Digest-SizeBytes"] = fmt.Sprint(size)
		}
		if cs.Corr == "bad-compressor" {
			hdr["Content-Encoding"] = "gzip"
			res.valid = false
		}
		if cs.Corr == "abort-tcpclose" {
			if len(payload) < 2 {
				return c01Result{skip: true}
			}
			res.valid = false
			conn, err := net.Dial("tcp", srv.HTTPURL[len("http://"):])
			if err != nil {
				return c01Result{skip: true}
			}
			before := srv.HTTPStarted.Load()
			extra := ""
			if z {
				extra = fmt.Sprintf("Content-Encoding: zstd\r\nX-Digest-SizeBytes: %d\r\n", size)
			}
			fmt.Fprintf(conn, "PUT /cas/%s HTTP/1.1\r\nHost: x\r\nContent-Length: %d\r\n%s\r\n", hash, len(payload), extra)
			_, _ = conn.Write(payload[:1+rng.IntN(len(payload)-1)])
			lib.WaitCounterAbove(&srv.HTTPStarted, before, 5*time.Second)
			_ = conn.Close()
			res.status = "aborted"
			srv.Settle(20 * time.Second)
			return res
		}
		h := srv.HTTPPut("/cas/"+hash, payload, hdr)
		res.acked = h.Err == nil && h.Status == 200
		res.status = fmt.Sprintf("http %d %v", h.Status, h.Err)
	case "batch", "batch-zstd":
		req := &pb.BatchUpdateBlobsRequest_Request{Digest: &pb.Digest{Hash: hash, SizeBytes: size}, Data: payload}
		if z {
			req.Compressor = pb.Compressor_ZSTD
		}
		if cs.Corr == "bad-compressor" {
			req.Compressor = pb.Compressor_DEFLATE
			res.valid = false
		}
		resp, err := srv.CAS.BatchUpdateBlobs(ctx, &pb.BatchUpdateBlobsRequest{Requests: []*pb.BatchUpdateBlobsRequest_Request{req}})
		if err != nil {
			res.status = "rpc " + lib.Code(err).String()
		} else if len(resp.Responses) != 1 {
			res.status = fmt.Sprintf("%d responses", len(resp.Responses))
		} else {
			c := codes.Code(resp.Responses[0].GetStatus().GetCode())
			res.acked = c == codes.OK
			res.status = "blob " + c.String()
		}
	case "bs-blobs", "bs-zstd":
		name := lib.ResUpload(uuidOf(rng), hash, size)
		if z {
			name = lib.ResUploadZstd(uuidOf(rng), hash, size)
		}
		if cs.Corr == "bad-compressor" {
			name = strings.Replace(name, "/zstd/", "/gzip/", 1)
			res.valid = false
		}
		chunk := []int{0, 1 + rng.IntN(4096), 64 * lib.KiB, lib.MiB}[rng.IntN(4)]
		parts := lib.Chunk(payload, chunk)
		switch cs.Corr {
		case "abort-cancel":
			res.valid = false
			cctx, ccancel := context.WithCancel(context.Background())
			before := srv.GRPCStarted.Load()
			st, err := srv.BS.Write(cctx)
			if err == nil {
				_ = st.Send(&bspb.WriteRequest{ResourceName: name, Data: parts[0][:len(parts[0])/2]})
				lib.WaitCounterAbove(&srv.GRPCStarted, before, 5*time.Second)
			}
			ccancel()
			res.status = "cancelled"
			srv.Settle(20 * time.Second)
			return res
		case "abort-noFinish":
			// stream closed without finish_write after only part of the payload
			if len(payload) < 2 {
				return c01Result{skip: true}
			}
			res.valid = false
			part := payload[:1+rng.IntN(len(payload)-1)]
			_, err := srv.BSWriteMsgs(ctx, []*bspb.WriteRequest{{ResourceName: name, Data: part}})
			res.acked = err == nil
			res.status = "bs " + lib.Code(err).String()
		default:
			_, err := srv.BSWrite(ctx, name, payload, chunk)
			res.acked = err == nil
			res.status = "bs " + lib.Code(err).String()
		}
	case "splice", "splice-nodigest":
		// chunks are uploaded first through the disk API (valid), then spliced
		// at least two chunks, so that the spliced blob itself is never stored as one of its chunks
		// every chunk is at least 16 bytes long: tiny chunk blobs would collide with the tiny blobs of other cases
		nchunks := 2 + rng.IntN(3)
		if len(B) < 32 {
			return c01Result{skip: true}
		}
		if len(B) < 16*nchunks {
			nchunks = 2
		}
		var chunks [][]byte
		cuts := []int{0}
		for i := 1; i < nchunks; i++ {
			cuts = append(cuts, 16+rng.IntN(len(B)-31))
		}
		cuts = append(cuts, len(B))
		sortInts(cuts)
		for i := 0; i+1 < len(cuts); i++ {
			if cuts[i+1]-cuts[i] >= 16 || i+2 == len(cuts) {
				chunks = append(chunks, B[cuts[i]:cuts[i+1]])
			} else {
				cuts[i+1] = cuts[i] // merge a too-short piece into the next one
			}
		}
		if n := len(chunks); n > 0 && len(chunks[n-1]) < 16 {
			return c01Result{skip: true}
		}
		if len(chunks) < 2 {
			return c01Result{skip: true}
		}
		var cds []*pb.Digest
		for i, c := range chunks {
			d := lib.DigestOf(c)
			cds = append(cds, d)
			if cs.Corr == "splice-missing-chunk" && i == len(chunks)-1 {
				continue
			}
			if err := srv.Cache.Put(ctx, cache.CAS, d.Hash, d.SizeBytes, bytes.NewReader(c)); err != nil {
				return c01Result{skip: true}
			}
		}
		switch cs.Corr {
		case "splice-missing-chunk":
			res.valid = false
		case "splice-reordered":
			if len(cds) < 2 || bytes.Equal(chunks[0], chunks[len(chunks)-1]) {
				return c01Result{skip: true}
			}
			cds[0], cds[len(cds)-1] = cds[len(cds)-1], cds[0]
			res.valid = false
		case "splice-sizes-not-summing":
			cds = append(cds, cds[0])
			res.valid = false
		}
		req := &pb.SpliceBlobRequest{ChunkDigests: cds}
		if cs.Path == "splice" {
			req.BlobDigest = &pb.Digest{Hash: hash, SizeBytes: size}
		}
		resp, err := srv.CAS.SpliceBlob(ctx, req)
		res.acked = err == nil
		res.status = "splice " + lib.Code(err).String()
		if err == nil && resp.GetBlobDigest() != nil {
			res.answeredHash, res.answeredSize = resp.BlobDigest.Hash, resp.BlobDigest.SizeBytes
		}
	case "ac-inline-stdout", "ac-inline-stderr", "ac-inline-file":
		ar := &pb.ActionResult{ExitCode: 0}
		d := &pb.Digest{Hash: hash, SizeBytes: size}
		switch cs.Path {
		case "ac-inline-stdout":
			ar.StdoutRaw, ar.StdoutDigest = payload, d
		case "ac-inline-stderr":
			ar.StderrRaw, ar.StderrDigest = payload, d
		default:
			ar.OutputFiles = []*pb.OutputFile{{Path: "out/f", Digest: d, Contents: payload}}
		}
		if len(payload) == 0 {
			return c01Result{skip: true}
		}
		_, err := srv.AC.UpdateActionResult(ctx, &pb.UpdateActionResultRequest{ActionDigest: &pb.Digest{Hash: lib.RandHash(rng), SizeBytes: 42}, ActionResult: ar})
		res.acked = err == nil
		res.status = "update-ar " + lib.Code(err).String()
	case "fetchblob", "fetchblob-nolen":
		p := "/blob/" + tag
		e.omu.Lock()
		e.obody[p] = originEntry{body: payload, nolen: cs.Path == "fetchblob-nolen"}
		e.omu.Unlock()
		raw, _ := hex.DecodeString(hash)
		req := &asset.FetchBlobRequest{Uris: []string{e.origin.URL + p}, Qualifiers: []*asset.Qualifier{{Name: "checksum.sri", Value: "sha256-" + base64.StdEncoding.EncodeToString(raw)}}}
		resp, err := srv.Asset.FetchBlob(ctx, req)
		if err != nil {
			res.status = "fetch rpc " + lib.Code(err).String()
		} else {
			c := codes.Code(resp.GetStatus().GetCode())
			res.acked = c == codes.OK
			res.status = "fetch " + c.String()
			if res.acked && resp.BlobDigest != nil {
				res.answeredHash, res.answeredSize = resp.BlobDigest.Hash, resp.BlobDigest.SizeBytes
			}
		}
		// the declared size for this path is the true length of what the origin serves
		if cs.Corr == "trunc1" || cs.Corr == "ext1" || cs.Corr == "flip" {
			res.size = int64(len(payload))
		}
		e.omu.Lock()
		delete(e.obody, p)
		e.omu.Unlock()
	}
	_ = B
	return res
}

func sortInts(a []int) {
	for i := 1; i < len(a); i++ {
		for j := i; j > 0 && a[j-1] > a[j]; j-- {
			a[j-1], a[j] = a[j], a[j-1]
		}
	}
}

type c01After struct {
	cs    c01Case
	hash  string
	size  int64
	acked bool
	B     []byte
}

func (e *c01Env) judge(cs c01Case, res c01Result, B []byte) {
	r := e.r
	if !res.noProbe && cs.Size >= 16 && !res.weak && !res.pre {
		e.omu.Lock()
		if len(e.after) < 4000 {
			keep := B
			if len(keep) > 256*lib.KiB && !res.acked {
				keep = nil
			}
			e.after = append(e.after, c01After{cs: cs, hash: res.hash, size: res.size, acked: res.acked && res.valid, B: keep})
		}
		e.omu.Unlock()
	}
	key := fmt.Sprintf("C01:%s:%s:%s", cs.Path, cs.Storage, cs.Corr)
	detail := map[string]any{"case": cs, "declared_hash": res.hash, "declared_size": res.size, "status": res.status, "valid": res.valid, "weak": res.weak,
		"replay_note": "content = lib.GenBlob(PCG(seed*7919+case.ID, 0xC01), Size, Content, tag)"}
	r.Eval()
	r.Distinct(cs.Path, cs.Storage, cs.Impl, cs.Corr, lib.SizeClassName(cs.Size))
	r.Count(fmt.Sprintf("%s.%s.%s", cs.Path, cs.Corr, map[bool]string{true: "ack", false: "refused"}[res.acked]))
	r.Count("config." + cs.Storage + "." + cs.Impl)
	if res.acked && !res.valid && !res.weak {
		r.Violation(key+":acked-invalid", fmt.Sprintf("upload that does not match its declared digest was acknowledged (%s): path=%s corruption=%s storage=%s size=%d declared=(%s,%d)",
			res.status, cs.Path, cs.Corr, cs.Storage, cs.Size, res.hash, res.size), detail)
	}
	if !res.acked && res.valid && !res.weak {
		r.Violation(key+":refused-valid", fmt.Sprintf("well-formed upload was refused (%s): path=%s storage=%s impl=%s size=%d", res.status, cs.Path, cs.Storage, cs.Impl, cs.Size), detail)
	}
	if res.acked && res.answeredHash != "" && (res.answeredHash != lib.Sha256Hex(B) || res.answeredSize != int64(len(B))) && res.valid {
		r.Violation(key+":answered-digest-wrong", fmt.Sprintf("server answered digest (%s,%d) for content with digest (%s,%d)", res.answeredHash, res.answeredSize, lib.Sha256Hex(B), len(B)), detail)
	}
	if res.noProbe {
		return
	}
	if res.pre {
		// the claimed digest (h, declared size) must not have become present, and the blob stored before under
		// (h, n) must be untouched. HEAD/GET of /cas/h carry no size and answer for the stored blob, so the claim
		// is probed through the size-stating paths only.
		ctx, cancel := lib.Ctx()
		defer cancel()
		miss, err := e.srv.FindMissing(ctx, &pb.Digest{Hash: res.hash, SizeBytes: res.size}, lib.DigestOf(B))
		_, rerr := e.srv.BSRead(ctx, lib.ResBlobs(res.hash, res.size), 0, 0)
		get := e.srv.HTTPGet("/cas/"+res.hash, nil)
		detail["probe"] = map[string]any{"findmissing": fmt.Sprint(miss), "findmissing_err": fmt.Sprint(err), "bsread_claimed_err": fmt.Sprint(rerr), "get": get.Status}
		claimedMissing, trueMissing := false, false
		for _, d := range miss {
			if d.GetHash() == res.hash && d.GetSizeBytes() == res.size {
				claimedMissing = true
			}
			if d.GetHash() == res.hash && d.GetSizeBytes() == int64(len(B)) {
				trueMissing = true
			}
		}
		r.Count("pre." + cs.Path + "." + cs.Corr)
		if err == nil && !claimedMissing {
			r.Violation(key+":claimed-digest-present", fmt.Sprintf("bad upload (%s) claiming (%s,%d) while (%s,%d) is stored: FindMissingBlobs now reports the claimed digest present", res.status, res.hash, res.size, res.hash, len(B)), detail)
		}
		if rerr == nil {
			r.Violation(key+":claimed-digest-readable", fmt.Sprintf("bad upload (%s) claiming (%s,%d): ByteStream.Read of the claimed digest succeeds", res.status, res.hash, res.size), detail)
		}
		if err == nil && trueMissing || get.Status != 200 || !bytes.Equal(get.Body, B) {
			r.Violation(key+":stored-blob-damaged", fmt.Sprintf("bad upload (%s) claiming (%s,%d) damaged the blob stored under (%s,%d): findmissing=%v get=%d (%d bytes)", res.status, res.hash, res.size, res.hash, len(B), trueMissing, get.Status, len(get.Body)), detail)
		}
		return
	}
	// post-state probe of the claimed digest through three independent read paths
	p := e.srv.ProbeCAS(res.hash, res.size)
	present := p.FindMissingPresent || p.HeadStatus == 200 || p.GetStatus == 200
	allPresent := p.FindMissingPresent && p.HeadStatus == 200 && p.GetStatus == 200
	detail["probe"] = map[string]any{"findmissing_present": p.FindMissingPresent, "head": p.HeadStatus, "get": p.GetStatus, "errs": p.Errs}
	if res.acked {
		if res.valid || res.weak {
			if !allPresent {
				r.Violation(key+":acked-not-present", fmt.Sprintf("acknowledged blob (%s,%d) not reported present/readable on every path: findmissing=%v head=%d get=%d", res.hash, res.size, p.FindMissingPresent, p.HeadStatus, p.GetStatus), detail)
			} else if !bytes.Equal(p.GetBody, B) {
				r.Violation(key+":acked-stored-wrong", fmt.Sprintf("acknowledged blob (%s,%d) reads back as %d bytes with digest %s", res.hash, res.size, len(p.GetBody), lib.Sha256Hex(p.GetBody)), detail)
			} else if res.valid {
				// "thereafter reported present and readable until evicted": upload the same digest again through a
				// path without an already-exists shortcut, let pending deletions drain, and read once more.
				var again bool
				if cs.ID%2 == 0 {
					again = e.srv.HTTPPut("/cas/"+res.hash, B, nil).Status == 200
				} else {
					ctx, cancel := lib.Ctx()
					resp, err := e.srv.CAS.BatchUpdateBlobs(ctx, &pb.BatchUpdateBlobsRequest{Requests: []*pb.BatchUpdateBlobsRequest_Request{{Digest: lib.DigestOf(B), Data: B}}})
					cancel()
					again = err == nil && len(resp.Responses) == 1 && resp.Responses[0].GetStatus().GetCode() == 0
				}
				lib.WaitEvictionsDrained(e.srv.Cache, 5*time.Second)
				time.Sleep(time.Millisecond)
				p2 := e.srv.ProbeCAS(res.hash, res.size)
				r.Count("reupload." + map[bool]string{true: "ack", false: "refused"}[again])
				if !again {
					r.Violation(key+":reupload-refused", "re-upload of an already stored valid blob was refused", detail)
				} else if !(p2.FindMissingPresent && p2.HeadStatus == 200 && p2.GetStatus == 200 && bytes.Equal(p2.GetBody, B)) {
					r.Violation(key+":lost-after-reupload", fmt.Sprintf("blob (%s,%d) acknowledged twice is no longer present/readable after the second upload: findmissing=%v head=%d get=%d (%d bytes)",
						res.hash, res.size, p2.FindMissingPresent, p2.HeadStatus, p2.GetStatus, len(p2.GetBody)), detail)
				}
			}
		}
	} else if present && cs.Size >= 16 { // (digests of tiny contents may legitimately be present: e.g. as a chunk of a spliced blob)
		r.Violation(key+":refused-but-present", fmt.Sprintf("refused upload (%s) left the claimed digest (%s,%d) present: findmissing=%v head=%d get=%d", res.status, res.hash, res.size, p.FindMissingPresent, p.HeadStatus, p.GetStatus), detail)
	}
}

func runC01(r *lib.Run) {
	r.SetRule("cases = write path x storage mode x zstd impl x corruption kind x size class x content kind, each with a fresh digest; quick: every (path x storage x corruption) at least once, sizes <= 1 MiB+1 plus a few multi-chunk; " +
		"thorough: repeated over all size classes and both impls. distinct = (path, storage, impl, corruption, size class). expectation: valid => acknowledged and present+readable on 3 paths; otherwise error and claimed digest absent")
	r.Assume("validity of corrupted zstd streams is decided by two reference decoders (klauspost, libzstd); multi-frame / trailing-empty-frame / skippable-prefix streams carry only the weak obligation (ack => stored correctly)")
	reps := r.N(1, 14)
	rng := r.Rng("c01")
	type cfg struct{ storage, impl string }
	cfgs := []cfg{{"zstd", "go"}, {"uncompressed", "go"}, {"zstd", "cgo"}, {"uncompressed", "cgo"}}
	id := 0
	for ci, cf := range cfgs {
		e := &c01Env{r: r, obody: map[string]originEntry{}, tiny: map[string]bool{}}
		e.origin = httptest.NewServer(http.HandlerFunc(e.originHandler))
		srv, err := lib.StartServer(lib.ServerOpts{Dir: lib.MkTemp("c01"), MaxSize: 64 << 30, Storage: cf.storage, ZstdImpl: cf.impl, AssetAPI: true})
		if err != nil {
			r.Inconclusive("server start: " + err.Error())
			return
		}
		e.srv = srv
		var cases []c01Case
		for rep := 0; rep < reps; rep++ {
			for _, p := range c01Paths {
				for _, c := range c01Corruptions {
					if !c01Applicable(p, c) {
						continue
					}
					// quick: impl alternates by path/corruption so that both impls see every path
					if r.Quick && (ci >= 2) != ((len(p)+len(c))%2 == 1) {
						continue
					}
					sizes := lib.SmallSizeClasses
					if !r.Quick {
						sizes = lib.SizeClasses
					}
					sz := sizes[rng.IntN(len(sizes))]
					if r.Quick && rng.IntN(12) == 0 {
						sz = lib.SizeClasses[11+rng.IntN(4)] // a few multi-chunk blobs
					}
					if (c == "extbig" || c == "sizehuge") && r.Quick && sz > 64*lib.KiB {
						sz = 4097
					}
					if strings.HasPrefix(p, "ac-inline") && sz > 2*lib.MiB {
						sz = lib.MiB + 1
					}
					id++
					cases = append(cases, c01Case{ID: id, Path: p, Corr: c, Storage: cf.storage, Impl: cf.impl, Size: sz, Content: lib.Pick(rng, lib.ContentKinds)})
				}
			}
		}
		var wg sync.WaitGroup
		ch := make(chan c01Case)
		for w := 0; w < 8; w++ {
			wg.Add(1)
			go func() {
				defer wg.Done()
				for cs := range ch {
					res := e.runCase(cs)
					if res.skip {
						r.Count("skipped." + cs.Corr)
						continue
					}
					crng := rand.New(rand.NewPCG(uint64(r.Seed)*7919+uint64(cs.ID), 0xC01))
					B := lib.GenBlob(crng, cs.Size, cs.Content, fmt.Sprintf("C01-s%d-c%d", r.Seed, cs.ID))
					e.judge(cs, res, B)
					if cs.ID%97 == 0 {
						r.Sample(map[string]any{"case": cs, "status": res.status, "acked": res.acked, "valid": res.valid})
					}
				}
			}()
		}
		var serial []c01Case
		for _, cs := range cases {
			if strings.HasPrefix(cs.Corr, "abort-") {
				serial = append(serial, cs) // need server quiescence (Settle) to be judged: run alone afterwards
				continue
			}
			ch <- cs
		}
		close(ch)
		wg.Wait()
		for _, cs := range serial {
			res := e.runCase(cs)
			if res.skip {
				r.Count("skipped." + cs.Corr)
				continue
			}
			crng := rand.New(rand.NewPCG(uint64(r.Seed)*7919+uint64(cs.ID), 0xC01))
			B := lib.GenBlob(crng, cs.Size, cs.Content, fmt.Sprintf("C01-s%d-c%d", r.Seed, cs.ID))
			e.judge(cs, res, B)
		}
		// Restart on the same directory: a refused upload must not become present later either ("does not make the
		// claimed digest present"), and every acknowledged blob must still be there and readable.
		dir := srv.Dir
		srv.Close()
		srv2, err := lib.StartServer(lib.ServerOpts{Dir: dir, MaxSize: 64 << 30, Storage: cf.storage, ZstdImpl: cf.impl, AssetAPI: true})
		if err != nil {
			r.Violation("C01:restart-failed:"+cf.storage, "restart on the directory after the upload cases failed: "+err.Error(), nil)
		} else {
			e.srv = srv2
			for _, a := range e.after {
				p := srv2.ProbeCAS(a.hash, a.size)
				present := p.FindMissingPresent || p.HeadStatus == 200 || p.GetStatus == 200
				r.Eval()
				key := fmt.Sprintf("C01:%s:%s:%s", a.cs.Path, a.cs.Storage, a.cs.Corr)
				det := map[string]any{"case": a.cs, "declared_hash": a.hash, "declared_size": a.size, "probe_after_restart": map[string]any{"findmissing_present": p.FindMissingPresent, "head": p.HeadStatus, "get": p.GetStatus}}
				if !a.acked && present {
					r.Violation(key+":refused-but-present-after-restart", fmt.Sprintf("upload that was refused left something behind: after a restart the claimed digest (%s,%d) is reported present (findmissing=%v head=%d get=%d)", a.hash, a.size, p.FindMissingPresent, p.HeadStatus, p.GetStatus), det)
				}
				if a.acked && (!(p.FindMissingPresent && p.HeadStatus == 200 && p.GetStatus == 200) || (a.B != nil && !bytes.Equal(p.GetBody, a.B))) {
					r.Violation(key+":acked-lost-after-restart", fmt.Sprintf("acknowledged blob (%s,%d) is not present/readable after a restart (findmissing=%v head=%d get=%d)", a.hash, a.size, p.FindMissingPresent, p.HeadStatus, p.GetStatus), det)
				}
				r.Count("restart-probe." + map[bool]string{true: "acked", false: "refused"}[a.acked])
			}
			srv2.Close()
		}
		_ = removeAll(dir)
		e.origin.Close()
	}
}

func init() { lib.Register("C01", runC01) }

package c13

import (
	"context"
	"fmt"
	"io"

	asset "github.com/buchgr/bazel-remote/v2/genproto/build/bazel/remote/asset/v1"
	pb "github.com/buchgr/bazel-remote/v2/genproto/build/bazel/remote/execution/v2"

	bs "google.golang.org/genproto/googleapis/bytestream"
	"google.golang.org/grpc/codes"

	"verif/harness/lib"
)

const (
	mGetActionResult    = "/build.bazel.remote.execution.v2.ActionCache/GetActionResult"
	mUpdateActionResult = "/build.bazel.remote.execution.v2.ActionCache/UpdateActionResult"
	mFindMissing        = "/build.bazel.remote.execution.v2.ContentAddressableStorage/FindMissingBlobs"
	mBatchRead          = "/build.bazel.remote.execution.v2.ContentAddressableStorage/BatchReadBlobs"
	mBatchUpdate        = "/build.bazel.remote.execution.v2.ContentAddressableStorage/BatchUpdateBlobs"
	mGetTree            = "/build.bazel.remote.execution.v2.ContentAddressableStorage/GetTree"
	mSpliceBlob         = "/build.bazel.remote.execution.v2.ContentAddressableStorage/SpliceBlob"
	mGetCapabilities    = "/build.bazel.remote.execution.v2.Capabilities/GetCapabilities"
	mBSRead             = "/google.bytestream.ByteStream/Read"
	mBSWrite            = "/google.bytestream.ByteStream/Write"
	mFetchBlob          = "/build.bazel.remote.asset.v1.Fetch/FetchBlob"
)

func (s *session) inUniverse(full string) bool {
	for _, m := range s.universe {
		if m.Full == full {
			return true
		}
	}
	return false
}

// judgeRPC applies the access table to one observed call.
// disclosed says what a served real read gave away (for the report).
func (s *session) judgeRPC(phase string, c *client, full, kind string, o rpcOutcome, disclosed string) (served bool) {
	cfg := s.cfg
	cs := c.cred
	authOn := cfg.Auth != "none"
	s.probes++
	s.eval()
	s.distinct(cfg.String(), "grpc", full, kind, cs.Name, phase)
	if s.probes%397 == 1 {
		s.r.Sample(map[string]any{"configuration": cfg.String(), "protocol": "grpc", "method": full, "request": kind, "credential": cs.Name, "phase": phase, "code": o.Code.String()})
	}
	s.note("gRPC %s [%s] cred=%s phase=%s -> %s", full, kind, cs.Name, phase, o)
	cnt := func(outcome string) {
		s.count(fmt.Sprintf("grpc.%s.%s.%s", cfg.authName(), credClass(cs), outcome))
		if s.life != nil {
			s.count(fmt.Sprintf("life.%s.grpc.%s.%s", phase, cs.Name, outcome))
		}
	}
	tuple := fmt.Sprintf("grpc|%s|%s|%s", full, kind, cs.Name)
	det := func() map[string]any {
		return s.detail(map[string]any{"protocol": "grpc", "method": full, "request": kind, "credential": cs.Name, "phase": phase,
			"code": o.Code.String(), "message": o.Msg, "disclosed": disclosed})
	}
	key := func(failure string) string {
		if phase == "after-valid-login" && s.refusedBefore[tuple] {
			failure += "-after-valid-login"
		}
		failure += phaseSuffix(phase)
		return fmt.Sprintf("C13:grpc:%s:%s:%s", full, cfg.authName(), failure)
	}

	if o.Code == codes.DeadlineExceeded || o.Code == codes.Canceled {
		cnt("timeout")
		s.inconclusive(fmt.Sprintf("gRPC %s on %s (%s): %s", full, cfg, cs.Name, o))
		return false
	}
	if o.Transport {
		switch {
		case cs.BadCert:
			cnt("refused-handshake")
			if phase == "before-valid-login" {
				s.refusedBefore[tuple] = true
			}
		case !s.alive():
			s.dead = true
			s.inconclusive(fmt.Sprintf("server %s went away at gRPC %s: %.300s", cfg, full, s.child.LogTail(300)))
		case cs.Valid && cfg.TLS:
			cnt("transport-error")
			s.violate(key("valid-refused"), "call with valid credentials failed below gRPC (TLS) while the server is up", det())
		default:
			cnt("transport-error")
			s.inconclusive(fmt.Sprintf("gRPC %s on %s (%s): %s", full, cfg, cs.Name, o))
		}
		return false
	}
	refused := o.Code == codes.Unauthenticated || o.Code == codes.PermissionDenied
	mustServe := func(failure, what string) {
		if refused {
			cnt("refused")
			s.violate(key(failure), fmt.Sprintf("%s: %s answered %s", what, full, o.Code), det())
		} else {
			cnt("served")
		}
	}
	switch {
	case full == healthCheckMethod:
		mustServe("health-refused", "the health check must always be open (credential state "+cs.Name+")")
	case !authOn:
		mustServe("noauth-refused", "authentication disabled")
	case cs.Valid:
		mustServe("valid-refused", "valid credentials ("+cs.Name+") refused")
	case isOtherHealth(full):
		cnt("unspecified")
	case cfg.Reads && mayBeOpenToReaders[full]:
		mustServe("open-read-refused", "allow_unauthenticated_reads is on but a read-only method was refused without credentials")
	case cfg.Reads && readOnlyUnspecified[full]:
		cnt("unspecified")
	default:
		if refused {
			cnt("refused")
			if phase == "before-valid-login" {
				s.refusedBefore[tuple] = true
			}
		} else {
			cnt("SERVED-WITHOUT-CREDENTIALS")
			s.violate(key("unauthenticated"), fmt.Sprintf("%s without valid credentials (%s) answered %s instead of Unauthenticated", full, cs.Name, o.Code), det())
		}
	}
	return !refused
}

func (s *session) probeGRPC(parent context.Context, phase string, c *client) {
	ctx := c.ctx(parent)
	authOn := s.cfg.Auth != "none"
	cs := c.cred

	// 1. every registered method with an empty request.
	for _, m := range s.universe {
		if s.dead {
			return
		}
		o := invokeEmpty(ctx, c.conn, m)
		s.judgeRPC(phase, c, m.Full, "empty", o, "")
	}

	// 2. real requests: reads of prepared entries ...
	ac := pb.NewActionCacheClient(c.conn)
	cas := pb.NewContentAddressableStorageClient(c.conn)
	caps := pb.NewCapabilitiesClient(c.conn)
	bsc := bs.NewByteStreamClient(c.conn)
	fetch := asset.NewFetchClient(c.conn)

	call := func(full string, fn func(ctx context.Context) (string, error)) (bool, rpcOutcome) {
		if s.dead || !s.inUniverse(full) {
			return false, rpcOutcome{}
		}
		cctx, cancel := callCtx(ctx)
		defer cancel()
		disclosed, err := fn(cctx)
		o := outcomeOf(err, err == nil)
		return s.judgeRPC(phase, c, full, "real", o, disclosed), o
	}

	call(mGetActionResult, func(ctx context.Context) (string, error) {
		res, err := ac.GetActionResult(ctx, &pb.GetActionResultRequest{ActionDigest: &pb.Digest{Hash: s.acPresentHash, SizeBytes: 1}, InlineStdout: true})
		if err != nil {
			return "", err
		}
		return fmt.Sprintf("action result with %d bytes of stdout", len(res.StdoutRaw)), nil
	})
	call(mFindMissing, func(ctx context.Context) (string, error) {
		res, err := cas.FindMissingBlobs(ctx, &pb.FindMissingBlobsRequest{BlobDigests: []*pb.Digest{s.casPresent.digest()}})
		if err != nil {
			return "", err
		}
		return fmt.Sprintf("missing=%d of 1", len(res.MissingBlobDigests)), nil
	})
	call(mBatchRead, func(ctx context.Context) (string, error) {
		res, err := cas.BatchReadBlobs(ctx, &pb.BatchReadBlobsRequest{Digests: []*pb.Digest{s.casPresent.digest()}})
		if err != nil {
			return "", err
		}
		n := 0
		for _, x := range res.Responses {
			n += len(x.Data)
		}
		return fmt.Sprintf("%d bytes of blob data", n), nil
	})
	call(mGetTree, func(ctx context.Context) (string, error) {
		st, err := cas.GetTree(ctx, &pb.GetTreeRequest{RootDigest: s.dirPresent.digest()})
		if err != nil {
			return "", err
		}
		n := 0
		for {
			m, err := st.Recv()
			if err == io.EOF {
				return fmt.Sprintf("%d directories", n), nil
			}
			if err != nil {
				return "", err
			}
			n += len(m.Directories)
		}
	})
	call(mBSRead, func(ctx context.Context) (string, error) {
		st, err := bsc.Read(ctx, &bs.ReadRequest{ResourceName: lib.ResBlobs(s.casPresent.Hash, int64(len(s.casPresent.Data)))})
		if err != nil {
			return "", err
		}
		n := 0
		for {
			m, err := st.Recv()
			if err == io.EOF {
				return fmt.Sprintf("%d bytes of blob data", n), nil
			}
			if err != nil {
				return "", err
			}
			n += len(m.Data)
		}
	})
	call(mGetCapabilities, func(ctx context.Context) (string, error) {
		_, err := caps.GetCapabilities(ctx, &pb.GetCapabilitiesRequest{})
		return "capabilities", err
	})

	// ... and writes of new entries that must not exist afterwards unless the
	// credentials were valid.
	write := func(full, kind, hash, originID string, fn func(ctx context.Context) error) {
		served, o := call(full, func(ctx context.Context) (string, error) { return "", fn(ctx) })
		if s.dead || !s.inUniverse(full) {
			return
		}
		if authOn && !cs.Valid {
			s.pending = append(s.pending, pendingWrite{Kind: kind, Hash: hash, Proto: "grpc", Target: full, Cred: cs.Name, Phase: phase, Origin: originID, Answer: o.String()})
			return
		}
		// Positive control with valid credentials: the request really stores.
		if !served {
			return // refused: already reported by judgeRPC
		}
		path := "/cas/" + hash
		if kind == "ac" {
			path = "/ac/" + hash
		}
		if h := s.setup.do("HEAD", path, nil); h.Status == 200 {
			s.count("control.grpc-write-stored")
		} else {
			s.count("control.grpc-write-NOT-stored")
			s.inconclusive(fmt.Sprintf("control: %s with valid credentials answered %s but lookup %s says %d on %s", full, o, path, h.Status, s.cfg))
		}
	}

	{
		key := lib.Sha256Hex(s.fresh("grpc-ac-key"))
		ar := &pb.ActionResult{StdoutRaw: s.fresh("grpc-ac"), ExitCode: 1}
		write(mUpdateActionResult, "ac", key, "", func(ctx context.Context) error {
			_, err := ac.UpdateActionResult(ctx, &pb.UpdateActionResultRequest{ActionDigest: &pb.Digest{Hash: key, SizeBytes: 1}, ActionResult: ar})
			return err
		})
	}
	{
		b := mkBlob(s.fresh("batch-update"))
		write(mBatchUpdate, "cas", b.Hash, "", func(ctx context.Context) error {
			res, err := cas.BatchUpdateBlobs(ctx, &pb.BatchUpdateBlobsRequest{Requests: []*pb.BatchUpdateBlobsRequest_Request{{Digest: b.digest(), Data: b.Data}}})
			if err == nil {
				for _, x := range res.Responses {
					if x.Status != nil && x.Status.Code != 0 {
						return fmt.Errorf("per-blob status %d: %s", x.Status.Code, x.Status.Message)
					}
				}
			}
			return err
		})
	}
	{
		b := mkBlob(s.fresh("bytestream-write"))
		write(mBSWrite, "cas", b.Hash, "", func(ctx context.Context) error {
			st, err := bsc.Write(ctx)
			if err != nil {
				return err
			}
			res := lib.ResUpload(fmt.Sprintf("00000000-0000-4000-8000-%012d", s.seq), b.Hash, int64(len(b.Data)))
			_ = st.Send(&bs.WriteRequest{ResourceName: res, Data: b.Data, FinishWrite: true})
			_, err = st.CloseAndRecv()
			return err
		})
	}
	{
		// SpliceBlob needs its chunks in the CAS: one fresh chunk is stored with the
		// preparation credentials, then the probed client asks for the concatenation.
		chunk := mkBlob(s.fresh("splice-chunk"))
		whole := mkBlob(append(append([]byte{}, chunk.Data...), s.spliceCommon.Data...))
		if s.inUniverse(mSpliceBlob) && !s.dead {
			if p := s.setup.do("PUT", "/cas/"+chunk.Hash, chunk.Data); p.Status != 200 {
				s.inconclusive(fmt.Sprintf("could not store a splice chunk on %s: %d %v", s.cfg, p.Status, p.Err))
			} else {
				write(mSpliceBlob, "cas", whole.Hash, "", func(ctx context.Context) error {
					_, err := cas.SpliceBlob(ctx, &pb.SpliceBlobRequest{BlobDigest: whole.digest(), ChunkDigests: []*pb.Digest{chunk.digest(), s.spliceCommon.digest()}})
					return err
				})
			}
		}
	}
	{
		s.seq++
		id := fmt.Sprintf("obj-%d", s.seq)
		b := mkBlob(s.origin.content(id))
		write(mFetchBlob, "cas", b.Hash, id, func(ctx context.Context) error {
			res, err := fetch.FetchBlob(ctx, &asset.FetchBlobRequest{Uris: []string{s.origin.url(id)}})
			if err == nil && res.Status != nil && res.Status.Code != 0 {
				return fmt.Errorf("fetch status %d: %s", res.Status.Code, res.Status.Message)
			}
			return err
		})
	}
}

// Package c13 is the runtime check for property C13 (authentication): with
// htpasswd or mutual-TLS authentication on, nothing that can change cache
// content is served without valid credentials, reads/status/metrics are served
// without credentials only when allow_unauthenticated_reads is set, valid
// credentials are accepted and the gRPC health check is always open.
//
// The real bazel-remote executable is started once per configuration (the HTTP
// wrappers and gRPC interceptor chains are assembled in package main); the
// htpasswd file, the CA and every certificate are generated here at run time;
// the gRPC method universe is what server.ServeGRPC registers.
package c13

import (
	"fmt"
	"os"
	"path/filepath"
	"sort"
	"strings"
	"sync"

	"verif/harness/lib"
)

func init() { lib.Register("C13", run) }

// serverCfg is one server configuration of the matrix.
type serverCfg struct {
	Auth    string // "none" | "htpasswd" | "mtls"
	TLS     bool   // server certificate configured (always with mtls)
	Reads   bool   // allow_unauthenticated_reads
	Metrics bool   // enable_endpoint_metrics
	Idle    bool   // idle_timeout set (one more wrapper / interceptor in the chains)
	Round   int    // payload variation round (thorough)
	Life    bool   // credential-lifecycle session: private htpasswd file rewritten while the server runs
}

func onoff(b bool) string {
	if b {
		return "on"
	}
	return "off"
}

func (c serverCfg) authName() string {
	if c.Auth != "mtls" && c.TLS {
		return c.Auth + "+tls"
	}
	return c.Auth
}

func (c serverCfg) String() string {
	s := fmt.Sprintf("%s/reads-%s/metrics-%s", c.authName(), onoff(c.Reads), onoff(c.Metrics))
	if c.Idle {
		s += "/idle"
	}
	if c.Life {
		s += "/lifecycle"
	}
	return s
}

func (c serverCfg) args(m *material) []string {
	a := []string{"--experimental_remote_asset_api"}
	switch c.Auth {
	case "htpasswd":
		a = append(a, "--htpasswd_file="+m.htpasswdFile)
	case "mtls":
		a = append(a, "--tls_ca_file="+m.caFile)
	}
	if c.TLS {
		a = append(a, "--tls_cert_file="+m.serverCertFile, "--tls_key_file="+m.serverKeyFile)
	}
	if c.Reads {
		a = append(a, "--allow_unauthenticated_reads")
	}
	if c.Metrics {
		a = append(a, "--enable_endpoint_metrics")
	}
	if c.Idle {
		a = append(a, "--idle_timeout=3600s")
	}
	return a
}

func configs(r *lib.Run) []serverCfg {
	var out []serverCfg
	rounds := r.N(1, 3)
	for round := 0; round < rounds; round++ {
		for _, metrics := range []bool{false, true} {
			out = append(out, serverCfg{Auth: "none", Metrics: metrics, Round: round})
		}
		for _, auth := range []string{"htpasswd", "mtls"} {
			for _, reads := range []bool{false, true} {
				for _, metrics := range []bool{false, true} {
					out = append(out, serverCfg{Auth: auth, TLS: auth == "mtls", Reads: reads, Metrics: metrics, Round: round})
				}
			}
		}
		// One more wrapper in both chains.
		out = append(out,
			serverCfg{Auth: "htpasswd", Reads: false, Metrics: true, Idle: true, Round: round},
			serverCfg{Auth: "mtls", TLS: true, Reads: true, Metrics: false, Idle: true, Round: round})
		if !r.Quick {
			// TLS combinations: basic authentication over TLS, no authentication over TLS,
			// and the idle wrapper with the remaining option values.
			for _, reads := range []bool{false, true} {
				for _, metrics := range []bool{false, true} {
					out = append(out, serverCfg{Auth: "htpasswd", TLS: true, Reads: reads, Metrics: metrics, Round: round})
				}
			}
			out = append(out,
				serverCfg{Auth: "none", TLS: true, Metrics: false, Round: round},
				serverCfg{Auth: "none", TLS: true, Metrics: true, Round: round},
				serverCfg{Auth: "htpasswd", Reads: true, Metrics: false, Idle: true, Round: round},
				serverCfg{Auth: "htpasswd", Reads: true, Metrics: true, Idle: true, Round: round},
				serverCfg{Auth: "mtls", TLS: true, Reads: false, Metrics: true, Idle: true, Round: round},
				serverCfg{Auth: "mtls", TLS: true, Reads: false, Metrics: false, Idle: true, Round: round})
		}
		// Credential lifecycle (lifecycle.go): the htpasswd file changes while the
		// server runs. Both HTTP wrappers (everything authenticated / only writes
		// authenticated) in quick; the remaining option values in thorough.
		out = append(out,
			serverCfg{Auth: "htpasswd", Reads: false, Metrics: false, Life: true, Round: round},
			serverCfg{Auth: "htpasswd", Reads: true, Metrics: true, Life: true, Round: round})
		if !r.Quick {
			out = append(out,
				serverCfg{Auth: "htpasswd", Reads: false, Metrics: true, Idle: true, Life: true, Round: round},
				serverCfg{Auth: "htpasswd", Reads: true, Metrics: false, Idle: true, Life: true, Round: round},
				serverCfg{Auth: "htpasswd", TLS: true, Reads: false, Metrics: true, Life: true, Round: round},
				serverCfg{Auth: "htpasswd", TLS: true, Reads: true, Metrics: false, Life: true, Round: round})
		}
	}
	return out
}

func run(r *lib.Run) {
	r.SetRule("distinct = (server configuration {auth, tls, allow_unauthenticated_reads, endpoint metrics, idle wrapper}, " +
		"protocol, HTTP method x path class x key state | gRPC full method x request kind {empty,real}, credential state, " +
		"phase {before, with, after a valid login; credential lifecycle: htpasswd generation 0, login sequences on one / on fresh connections, " +
		"after the first and after the second change of the htpasswd file}); non-trivial = the request reached the real server binary " +
		"(an answer or a TLS-level refusal was observed) and, for write attempts, the post-state lookup ran")
	r.SetExhaustive(true)
	r.Assume("LDAP authentication is not exercised (no LDAP server in the sandbox); its wrappers share the selection code with htpasswd")
	r.Assume("the gRPC method universe is what server.ServeGRPC registers in-process with the asset API on; main.go registers nothing else on the grpc.Server")

	if _, err := os.Stat(lib.BinPath("bazel-remote")); err != nil {
		r.Inconclusive("real server binary missing: " + lib.BinPath("bazel-remote"))
		return
	}
	universe, err := discoverUniverse()
	if err != nil {
		r.Inconclusive("gRPC method discovery failed: " + err.Error())
		return
	}
	var names []string
	svcs := map[string]bool{}
	for _, m := range universe {
		names = append(names, m.Full)
		svcs[m.Service] = true
	}
	r.Extra("grpc_universe", names)
	r.CountN("universe.grpc.methods", int64(len(universe)))
	r.CountN("universe.grpc.services", int64(len(svcs)))
	// The harness table must not talk about methods that do not exist (a renamed
	// method would silently fall into "mutating" which is safe, but say so).
	for full := range mayBeOpenToReaders {
		found := false
		for _, m := range universe {
			if m.Full == full {
				found = true
			}
		}
		if !found {
			r.Count("universe.table-entry-not-registered")
		}
	}

	// One set of certificates, users and passwords per payload round.
	matDir := lib.MkTemp("c13-pki")
	defer func() { _ = os.RemoveAll(matDir) }()
	cfgs := configs(r)
	mats := map[int]*material{}
	for _, cfg := range cfgs {
		if mats[cfg.Round] != nil {
			continue
		}
		d := filepath.Join(matDir, fmt.Sprintf("round%d", cfg.Round))
		if err := os.MkdirAll(d, 0o700); err != nil {
			r.Inconclusive("scratch: " + err.Error())
			return
		}
		m, err := newMaterial(r.Rng(fmt.Sprintf("material-%d", cfg.Round)), d)
		if err != nil {
			r.Inconclusive("could not generate certificates/htpasswd: " + err.Error())
			return
		}
		mats[cfg.Round] = m
	}
	r.CountN("configs", int64(len(cfgs)))
	lifeWanted := 0
	for _, cfg := range cfgs {
		if cfg.Life {
			lifeWanted++
		}
	}
	r.CountN("life.sessions.planned", int64(lifeWanted))
	sem := make(chan struct{}, 5)
	var wg sync.WaitGroup
	var mu sync.Mutex
	perCfg := map[string]int{}
	// The longest sessions (htpasswd: most credential states) are started first;
	// the index (part of the random stream name) stays the position in cfgs.
	var order []int
	for _, pass := range []func(serverCfg) bool{
		func(c serverCfg) bool { return c.Life },
		func(c serverCfg) bool { return !c.Life && c.Auth == "htpasswd" },
		func(c serverCfg) bool { return !c.Life && c.Auth != "htpasswd" },
	} {
		for i, cfg := range cfgs {
			if pass(cfg) {
				order = append(order, i)
			}
		}
	}
	for _, i := range order {
		cfg := cfgs[i]
		wg.Add(1)
		sem <- struct{}{}
		go func(i int, cfg serverCfg) {
			defer wg.Done()
			defer func() { <-sem }()
			s := &session{r: r, cfg: cfg, mat: mats[cfg.Round], universe: universe, idx: i,
				rng: r.Rng(fmt.Sprintf("cfg-%d-%s", i, cfg)), refusedBefore: map[string]bool{}}
			if cfg.Life {
				// Its own htpasswd file: the sessions of one round share the rest.
				life, err := newLifecycle(s.rng, mats[cfg.Round], filepath.Join(matDir, fmt.Sprintf("life-%d", i)))
				if err != nil {
					r.Inconclusive(fmt.Sprintf("credential-lifecycle slice %s could not be set up: %v", cfg, err))
					return
				}
				s.life, s.mat = life, life.mat
			}
			s.run()
			mu.Lock()
			perCfg[fmt.Sprintf("%s#%d", cfg, cfg.Round)] = s.probes
			mu.Unlock()
		}(i, cfg)
	}
	wg.Wait()
	if done := r.Counter("life.sessions.completed"); done != int64(lifeWanted) {
		r.Inconclusive(fmt.Sprintf("credential-lifecycle slice: %d of %d sessions ran to the end", done, lifeWanted))
	}
	keys := make([]string, 0, len(perCfg))
	for k := range perCfg {
		keys = append(keys, k)
	}
	sort.Strings(keys)
	var lines []string
	for _, k := range keys {
		lines = append(lines, fmt.Sprintf("%s=%d", k, perCfg[k]))
	}
	r.Extra("probes_per_configuration", strings.Join(lines, " "))
}

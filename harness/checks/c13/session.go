package c13

import (
	"context"
	"fmt"
	"math/rand/v2"
	"net"
	"net/http"
	"net/http/httptest"
	"os"
	"path/filepath"
	"strings"
	"sync"
	"time"

	pb "github.com/buchgr/bazel-remote/v2/genproto/build/bazel/remote/execution/v2"

	"google.golang.org/grpc/codes"
	"google.golang.org/protobuf/proto"

	"verif/harness/lib"
)

type blob struct {
	Hash string
	Data []byte
}

func mkBlob(data []byte) blob { return blob{Hash: lib.Sha256Hex(data), Data: data} }

func (b blob) digest() *pb.Digest { return &pb.Digest{Hash: b.Hash, SizeBytes: int64(len(b.Data))} }

// pendingWrite is a write attempt made without valid credentials whose target
// must be absent afterwards.
type pendingWrite struct {
	Kind   string // "cas" | "ac"
	Hash   string
	Proto  string // "http" | "grpc"
	Target string // path class or gRPC full method
	Cred   string
	Phase  string
	Origin string // FetchBlob: origin object id
	Answer string
}

// origin is the harness HTTP server that FetchBlob is pointed at.
type origin struct {
	srv  *httptest.Server
	mu   sync.Mutex
	hits map[string]int
	tag  string
}

func newOrigin(tag string) *origin {
	o := &origin{hits: map[string]int{}, tag: tag}
	o.srv = httptest.NewServer(http.HandlerFunc(func(w http.ResponseWriter, req *http.Request) {
		id := strings.TrimPrefix(req.URL.Path, "/o/")
		o.mu.Lock()
		o.hits[id]++
		o.mu.Unlock()
		_, _ = w.Write(o.content(id))
	}))
	return o
}

func (o *origin) content(id string) []byte { return []byte("origin object " + id + " of " + o.tag) }
func (o *origin) url(id string) string     { return o.srv.URL + "/o/" + id }
func (o *origin) hitCount(id string) int   { o.mu.Lock(); defer o.mu.Unlock(); return o.hits[id] }

// session drives one server configuration.
type session struct {
	r        *lib.Run
	cfg      serverCfg
	mat      *material
	universe []rpcMethod
	idx      int
	rng      *rand.Rand

	child  *lib.Child
	setup  *client
	origin *origin
	tag    string
	seq    int
	probes int

	casPresent, dirPresent, spliceCommon blob
	acPresentHash                        string
	acPresentBody                        []byte

	pending       []pendingWrite
	refusedBefore map[string]bool // (target, credential) refused in the phase before any valid login
	findings      []finding
	undecided     []string
	evals         int
	counts        map[string]int64
	distincts     []string
	history       []string
	dead          bool

	life *lifecycle // credential-lifecycle session (cfg.Life)
}

func (s *session) note(format string, a ...any) {
	s.history = append(s.history, fmt.Sprintf(format, a...))
	if len(s.history) > 40 {
		s.history = s.history[len(s.history)-40:]
	}
}

func (s *session) recent() []string {
	h := s.history
	if len(h) > 12 {
		h = h[len(h)-12:]
	}
	return append([]string(nil), h...)
}

func (s *session) fresh(label string) []byte {
	s.seq++
	n := 40 + s.rng.IntN(200)
	pad := make([]byte, n)
	for i := range pad {
		pad[i] = byte('a' + s.rng.IntN(26))
	}
	return []byte(fmt.Sprintf("c13 %s %s #%d %s", s.tag, label, s.seq, pad))
}

func (s *session) actionResult(label string) []byte {
	ar := &pb.ActionResult{StdoutRaw: s.fresh("ac-" + label), ExitCode: int32(s.rng.IntN(3))}
	b, err := proto.Marshal(ar)
	if err != nil {
		panic(err)
	}
	return b
}

func (s *session) alive() bool {
	if s.child.Exited() {
		return false
	}
	c, err := net.DialTimeout("tcp", s.child.HTTPAddr, 5*time.Second)
	if err != nil {
		return false
	}
	_ = c.Close()
	return true
}

func (s *session) detail(extra map[string]any) map[string]any {
	d := map[string]any{
		"configuration": s.cfg.String(),
		"server_args":   s.cfg.args(s.mat),
		"round":         s.cfg.Round,
		"recent_ops":    s.recent(),
	}
	if s.life != nil {
		d["htpasswd_generation_in_place"] = s.life.gen
		d["htpasswd_generations"] = s.life.describe()
	}
	for k, v := range extra {
		d[k] = v
	}
	return d
}

func (s *session) validCred() credState {
	switch s.cfg.Auth {
	case "htpasswd":
		return credState{Name: "setup-valid", Valid: true, User: "setup", Header: basicHeader("setup", s.mat.users["setup"])}
	case "mtls":
		return credState{Name: "setup-valid-cert", Valid: true, Cert: &s.mat.certValid}
	}
	return credState{Name: "none", Valid: true}
}

// phases returns the credential states in the order they are used:
// "before" (no probed user has logged in yet), "valid", "after".
func (s *session) phases() (before, valid, after []credState) {
	u := s.mat.users
	switch s.cfg.Auth {
	case "htpasswd":
		wrong := func(p string) string { // same length, last character changed
			b := []byte(p)
			if b[len(b)-1] == 'x' {
				b[len(b)-1] = 'y'
			} else {
				b[len(b)-1] = 'x'
			}
			return string(b)
		}
		none := credState{Name: "none"}
		unknown := credState{Name: "unknown-user", User: "mallory", Header: basicHeader("mallory", u["alice"])}
		wrongA := credState{Name: "wrong-password", User: "alice", Header: basicHeader("alice", wrong(u["alice"]))}
		longerA := credState{Name: "wrong-password-extended", User: "alice", Header: basicHeader("alice", u["alice"]+"x")}
		crossA := credState{Name: "other-users-password", User: "alice", Header: basicHeader("alice", u["bob"])}
		emptyA := credState{Name: "empty-password", User: "alice", Header: basicHeader("alice", "")}
		wrongB := credState{Name: "wrong-password-bcrypt", User: "bob", Header: basicHeader("bob", wrong(u["bob"]))}
		wrongAuthority := credState{Name: "wrong-password-authority", User: "alice", Authority: "alice:" + wrong(u["alice"])}
		unknownAuthority := credState{Name: "unknown-user-authority", User: "mallory", Authority: "mallory:" + u["alice"]}
		before = []credState{
			none,
			{Name: "malformed-not-base64", Header: "Basic !!!not*base64!!!"},
			{Name: "malformed-no-colon", Header: "Basic " + b64("alice"+u["alice"])},
			{Name: "malformed-empty-user", Header: basicHeader("", u["alice"])},
			{Name: "malformed-empty-value", Header: "Basic "},
			{Name: "other-scheme-bearer", Header: "Bearer " + b64("alice:"+u["alice"])},
			{Name: "other-scheme-digest", Header: "Digest username=\"alice\", response=\"" + b64("alice:"+u["alice"]) + "\""},
			unknown, wrongA, longerA, crossA, emptyA, wrongB, wrongAuthority, unknownAuthority,
		}
		valid = []credState{
			{Name: "valid", Valid: true, User: "alice", Header: basicHeader("alice", u["alice"])},
			{Name: "valid-bcrypt", Valid: true, User: "bob", Header: basicHeader("bob", u["bob"])},
			{Name: "valid-authority", Valid: true, User: "alice", Authority: "alice:" + u["alice"]},
		}
		after = []credState{wrongA, longerA, crossA, emptyA, wrongB, wrongAuthority, unknown, none}
	case "mtls":
		noCert := credState{Name: "no-cert"}
		foreign := credState{Name: "cert-foreign-ca", Cert: &s.mat.certForeign, BadCert: true}
		before = []credState{
			noCert, foreign,
			{Name: "cert-self-signed", Cert: &s.mat.certSelfSigned, BadCert: true},
			{Name: "cert-expired", Cert: &s.mat.certExpired, BadCert: true},
		}
		valid = []credState{{Name: "valid-cert", Valid: true, Cert: &s.mat.certValid}}
		after = []credState{noCert, foreign}
	default:
		valid = []credState{
			{Name: "none", Valid: true},
			{Name: "unsolicited-basic", Valid: true, Header: basicHeader("alice", "whatever")},
		}
	}
	return
}

// Findings are buffered per attempt: they only count when the server process
// was still running at the end of the attempt. A server that could not bind
// one of its ports exits right away (main.go log.Fatal); the ports come from
// lib.FreePort and can be taken by another process in between, in which case
// connections would reach somebody else's listener. "Still running at the end"
// implies our process held all of its listeners during the whole attempt.
type finding struct {
	key, what string
	detail    any
}

func (s *session) violate(key, what string, detail any) {
	s.findings = append(s.findings, finding{key, what, detail})
}

// Counters are buffered the same way, so that the evidence only counts probes
// of server processes that survived.
func (s *session) eval()                 { s.evals++ }
func (s *session) count(k string)        { s.counts[k]++ }
func (s *session) distinct(parts ...any) { s.distincts = append(s.distincts, fmt.Sprint(parts...)) }

func (s *session) inconclusive(why string) {
	if len(s.undecided) < 8 {
		s.undecided = append(s.undecided, why)
	}
}

func (s *session) run() {
	r := s.r
	const attempts = 5
	for a := 1; a <= attempts; a++ {
		s.findings, s.undecided, s.pending, s.history, s.dead = nil, nil, nil, nil, false
		s.refusedBefore = map[string]bool{}
		s.evals, s.probes, s.counts, s.distincts = 0, 0, map[string]int64{}, nil
		retry := s.attempt(a)
		if !retry {
			r.EvalN(s.evals)
			for k, v := range s.counts {
				r.CountN(k, v)
			}
			for _, d := range s.distincts {
				r.Distinct(d)
			}
			for _, f := range s.findings {
				r.Violation(f.key, f.what, f.detail)
			}
			for _, w := range s.undecided {
				r.Inconclusive(w)
			}
			return
		}
		r.Count("fixture.server-restarted-after-port-clash-or-early-exit")
	}
	r.Inconclusive(fmt.Sprintf("server for %s could not be kept running in %d attempts: %v", s.cfg, attempts, s.undecided))
}

// attempt runs the whole matrix against one server process; it returns true
// when the process did not survive (nothing observed in it is used).
func (s *session) attempt(n int) (retry bool) {
	r := s.r
	s.tag = fmt.Sprintf("seed%d-cfg%d-round%d-try%d-%08x", r.Seed, s.idx, s.cfg.Round, n, s.rng.Uint32())
	dir := lib.MkTemp("c13-cache")
	defer func() { _ = os.RemoveAll(dir) }()
	if s.life != nil {
		if err := s.life.install(0); err != nil {
			s.inconclusive(fmt.Sprintf("credential-lifecycle slice %s: htpasswd generation 0 could not be written: %v", s.cfg, err))
			return false
		}
	}
	child, err := lib.StartBinary(lib.BinaryOpts{Dir: dir, Args: s.cfg.args(s.mat), TLS: s.cfg.TLS,
		Env: []string{"SSL_CERT_FILE=" + s.mat.hostTrustFile, "SSL_CERT_DIR=" + filepath.Join(s.mat.dir, "no-such-cert-dir")}})
	if err != nil {
		s.inconclusive(fmt.Sprintf("server did not start for %s: %v", s.cfg, err))
		if child != nil && child.Cmd != nil && child.Cmd.Process != nil {
			child.Stop()
		} else if child != nil && child.LogPath != "" {
			_ = os.Remove(child.LogPath)
		}
		return true
	}
	s.child = child
	defer child.Stop()
	s.origin = newOrigin(s.tag)
	defer s.origin.srv.Close()

	s.setup, err = newClient(s.cfg, s.mat, child.HTTPAddr, child.GRPCAddr, s.validCred())
	if err != nil {
		s.inconclusive("client: " + err.Error())
		return false
	}
	defer s.setup.close()
	if !s.prepare() {
		// A process that lost the race for a port is on its way out.
		return child.WaitExit(3 * time.Second)
	}

	if s.life != nil {
		s.lifecyclePhases()
	} else {
		before, valid, after := s.phases()
		for _, ph := range []struct {
			name   string
			states []credState
		}{{"before-valid-login", before}, {"valid", valid}, {"after-valid-login", after}} {
			for _, cs := range ph.states {
				if s.dead || child.Exited() {
					break
				}
				s.probeState(ph.name, cs)
			}
			s.postCheck(ph.name)
		}
		if s.cfg.Auth == "htpasswd" && !s.dead && !child.Exited() {
			s.reusedConnection()
		}
	}
	if s.dead {
		child.WaitExit(3 * time.Second) // let the supervisor see the exit
	}
	if child.Exited() {
		if p, what := child.Panicked(); p {
			// Not an authentication verdict (C14's domain); the matrix is incomplete.
			s.findings = nil
			s.undecided = []string{fmt.Sprintf("server %s panicked during the probes: %.300s", s.cfg, what)}
			return false
		}
		s.inconclusive(fmt.Sprintf("server %s exited during the probes: %.300s", s.cfg, child.LogTail(300)))
		return true
	}
	s.count("cfg." + s.cfg.String())
	if s.life != nil && s.life.finished {
		s.count("life.sessions.completed")
	}
	return false
}

// reusedConnection: a valid login and then a wrong password for the same user
// on the very same HTTP keep-alive connection / gRPC channel.
func (s *session) reusedConnection() {
	u := s.mat.users
	valid := credState{Name: "valid", Valid: true, User: "alice", Header: basicHeader("alice", u["alice"])}
	c, err := newClient(s.cfg, s.mat, s.child.HTTPAddr, s.child.GRPCAddr, valid)
	if err != nil {
		s.inconclusive("client: " + err.Error())
		return
	}
	defer c.close()
	phase := "after-valid-login"
	warm := c.do("GET", "/cas/"+s.casPresent.Hash, nil)
	ctx, cancel := callCtx(c.ctx(context.Background()))
	o := invokeEmpty(ctx, c.conn, rpcMethod{Full: mGetCapabilities, Name: "GetCapabilities"})
	cancel()
	s.note("reused connection warm-up with valid credentials: HTTP %d %v, gRPC %s", warm.Status, warm.Err, o)
	if warm.Status != 200 || o.Code != codes.OK {
		s.inconclusive(fmt.Sprintf("reused-connection warm-up with valid credentials failed on %s: HTTP %d %v, gRPC %s", s.cfg, warm.Status, warm.Err, o))
		return
	}
	bad := []byte(u["alice"])
	bad[0] ^= 1
	c.cred = credState{Name: "wrong-password-reused-connection", User: "alice", Header: basicHeader("alice", string(bad))}
	s.probeHTTP(phase, c)
	s.probeGRPC(context.Background(), phase, c)
	s.postCheck(phase + "-reused-connection")
}

// prepare stores the entries that read probes and destructive-method probes aim at.
func (s *session) prepare() bool {
	s.casPresent = mkBlob(s.fresh("present-cas"))
	s.spliceCommon = mkBlob(s.fresh("splice-common"))
	dirMsg := &pb.Directory{Files: []*pb.FileNode{{Name: "f-" + s.tag, Digest: s.casPresent.digest()}}}
	db, _ := proto.Marshal(dirMsg)
	s.dirPresent = mkBlob(db)
	s.acPresentBody = s.actionResult("present")
	s.acPresentHash = lib.Sha256Hex(s.fresh("present-ac-key"))
	puts := []struct {
		path string
		body []byte
	}{
		{"/cas/" + s.casPresent.Hash, s.casPresent.Data},
		{"/cas/" + s.spliceCommon.Hash, s.spliceCommon.Data},
		{"/cas/" + s.dirPresent.Hash, s.dirPresent.Data},
		{"/ac/" + s.acPresentHash, s.acPresentBody},
	}
	for _, p := range puts {
		res := s.setup.do("PUT", p.path, p.body)
		if res.Err != nil || res.Status != 200 {
			if res.Status == 401 || res.Status == 403 {
				s.violate(fmt.Sprintf("C13:http:%s:metrics-%s:valid-refused", classOf(p.path), onoff(s.cfg.Metrics)),
					"preparation write with valid credentials was refused",
					s.detail(map[string]any{"method": "PUT", "path": p.path, "status": res.Status, "credential": s.setup.cred.Name}))
			}
			s.inconclusive(fmt.Sprintf("preparation PUT %s on %s failed: status=%d err=%v log=%.300s", p.path, s.cfg, res.Status, res.Err, s.child.LogTail(300)))
			return false
		}
	}
	if !s.presentIntact() {
		s.inconclusive("prepared entries not readable with valid credentials on " + s.cfg.String())
		return false
	}
	return true
}

// presentIntact looks at the prepared entries with valid credentials.
func (s *session) presentIntact() bool {
	g := s.setup.do("GET", "/cas/"+s.casPresent.Hash, nil)
	if g.Err != nil || g.Status != 200 || string(g.Body) != string(s.casPresent.Data) {
		s.note("present CAS lookup: status=%d err=%v", g.Status, g.Err)
		return false
	}
	a := s.setup.do("GET", "/ac/"+s.acPresentHash, nil)
	if a.Err != nil || a.Status != 200 || len(a.Body) == 0 {
		s.note("present AC lookup: status=%d err=%v", a.Status, a.Err)
		return false
	}
	return true
}

// postCheck: everything written without valid credentials must be absent, and
// the prepared entries must be unchanged.
func (s *session) postCheck(phase string) {
	if s.dead {
		return
	}
	for _, p := range s.pending {
		path := "/cas/" + p.Hash
		if p.Kind == "ac" {
			path = "/ac/" + p.Hash
		}
		res := s.setup.do("HEAD", path, nil)
		s.eval()
		s.count("poststate.lookups")
		switch {
		case res.Err != nil:
			s.inconclusive(fmt.Sprintf("post-state lookup %s failed on %s: %v", path, s.cfg, res.Err))
		case res.Status == 404:
			s.count("poststate.absent")
		case res.Status == 200:
			key := ""
			if p.Proto == "http" {
				key = fmt.Sprintf("C13:http:%s:metrics-%s:unauthenticated-write-stored", p.Target, onoff(s.cfg.Metrics))
			} else {
				key = fmt.Sprintf("C13:grpc:%s:%s:unauthenticated-write-stored", p.Target, s.cfg.authName())
			}
			key += phaseSuffix(p.Phase)
			s.violate(key, fmt.Sprintf("entry written without valid credentials (%s) is stored: %s", p.Cred, path),
				s.detail(map[string]any{"write": p, "lookup": path, "lookup_status": res.Status}))
		default:
			s.inconclusive(fmt.Sprintf("post-state lookup %s on %s: unexpected status %d", path, s.cfg, res.Status))
		}
		if p.Origin != "" && s.origin.hitCount(p.Origin) > 0 {
			s.count("poststate.origin-contacted")
		}
	}
	s.pending = s.pending[:0]
	s.eval()
	if s.presentIntact() {
		s.count("poststate.prepared-entries-intact")
	} else if !s.alive() {
		s.dead = true
		s.inconclusive(fmt.Sprintf("server %s went away during phase %s: %.300s", s.cfg, phase, s.child.LogTail(300)))
	} else {
		s.violate(fmt.Sprintf("C13:state:%s:prepared-entry-changed", s.cfg.authName()),
			"an entry stored with valid credentials changed or disappeared during requests without valid credentials",
			s.detail(map[string]any{"phase": phase}))
	}
}

func (s *session) probeState(phase string, cs credState) {
	c, err := newClient(s.cfg, s.mat, s.child.HTTPAddr, s.child.GRPCAddr, cs)
	if err != nil {
		s.inconclusive("client: " + err.Error())
		return
	}
	defer c.close()
	if cs.Authority == "" {
		s.probeHTTP(phase, c)
	}
	s.probeGRPC(context.Background(), phase, c)
}

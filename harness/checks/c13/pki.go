package c13

import (
	"crypto/ecdsa"
	"crypto/elliptic"
	crand "crypto/rand"
	"crypto/sha1" //nolint:gosec // htpasswd {SHA} scheme
	"crypto/tls"
	"crypto/x509"
	"crypto/x509/pkix"
	"encoding/base64"
	"encoding/pem"
	"fmt"
	"math/big"
	"math/rand/v2"
	"net"
	"os"
	"path/filepath"
	"strings"
	"time"

	"golang.org/x/crypto/bcrypt"
)

// material is everything the harness generates at run time: a CA, a server
// certificate, client certificates in several states, and an htpasswd file.
type material struct {
	dir string

	caFile, serverCertFile, serverKeyFile string
	hostTrustFile                         string // SSL_CERT_FILE of the server process
	htpasswdFile                          string

	caPool *x509.CertPool // what clients trust (the harness CA)

	certValid      tls.Certificate // signed by the harness CA, ClientAuth
	certForeign    tls.Certificate // signed by another CA
	certSelfSigned tls.Certificate // self-signed leaf
	certExpired    tls.Certificate // signed by the harness CA, expired yesterday

	// htpasswd users. setup: used only for preparation and post-state lookups;
	// alice ({SHA}) and bob (bcrypt): the users whose credentials are probed.
	users map[string]string // user -> password
}

type signer struct {
	cert *x509.Certificate
	key  *ecdsa.PrivateKey
}

var serialCounter int64 = 1000

func newKey() *ecdsa.PrivateKey {
	k, err := ecdsa.GenerateKey(elliptic.P256(), crand.Reader)
	if err != nil {
		panic(err)
	}
	return k
}

func newCA(cn string) signer {
	k := newKey()
	serialCounter++
	t := &x509.Certificate{
		SerialNumber:          big.NewInt(serialCounter),
		Subject:               pkix.Name{CommonName: cn, Organization: []string{"verif"}},
		NotBefore:             time.Now().Add(-time.Hour),
		NotAfter:              time.Now().Add(48 * time.Hour),
		IsCA:                  true,
		BasicConstraintsValid: true,
		KeyUsage:              x509.KeyUsageCertSign | x509.KeyUsageCRLSign | x509.KeyUsageDigitalSignature,
	}
	der, err := x509.CreateCertificate(crand.Reader, t, t, &k.PublicKey, k)
	if err != nil {
		panic(err)
	}
	c, err := x509.ParseCertificate(der)
	if err != nil {
		panic(err)
	}
	return signer{cert: c, key: k}
}

// leaf creates a leaf certificate. parent == nil means self-signed.
func leaf(cn string, parent *signer, server bool, notBefore, notAfter time.Time) (tls.Certificate, []byte, []byte) {
	k := newKey()
	serialCounter++
	t := &x509.Certificate{
		SerialNumber: big.NewInt(serialCounter),
		Subject:      pkix.Name{CommonName: cn, Organization: []string{"verif"}},
		NotBefore:    notBefore,
		NotAfter:     notAfter,
		KeyUsage:     x509.KeyUsageDigitalSignature,
	}
	if server {
		t.ExtKeyUsage = []x509.ExtKeyUsage{x509.ExtKeyUsageServerAuth}
		t.DNSNames = []string{"localhost"}
		t.IPAddresses = []net.IP{net.ParseIP("127.0.0.1")}
	} else {
		t.ExtKeyUsage = []x509.ExtKeyUsage{x509.ExtKeyUsageClientAuth}
	}
	signCert, signKey := t, k
	if parent != nil {
		signCert, signKey = parent.cert, parent.key
	}
	der, err := x509.CreateCertificate(crand.Reader, t, signCert, &k.PublicKey, signKey)
	if err != nil {
		panic(err)
	}
	kb, err := x509.MarshalECPrivateKey(k)
	if err != nil {
		panic(err)
	}
	certPEM := pem.EncodeToMemory(&pem.Block{Type: "CERTIFICATE", Bytes: der})
	keyPEM := pem.EncodeToMemory(&pem.Block{Type: "EC PRIVATE KEY", Bytes: kb})
	tc, err := tls.X509KeyPair(certPEM, keyPEM)
	if err != nil {
		panic(err)
	}
	return tc, certPEM, keyPEM
}

func randPassword(rng *rand.Rand, n int) string {
	const alpha = "abcdefghijklmnopqrstuvwxyzABCDEFGHIJKLMNOPQRSTUVWXYZ0123456789-_.+"
	var sb strings.Builder
	for i := 0; i < n; i++ {
		sb.WriteByte(alpha[rng.IntN(len(alpha))])
	}
	return sb.String()
}

func shaEntry(pw string) string {
	d := sha1.Sum([]byte(pw)) //nolint:gosec
	return "{SHA}" + base64.StdEncoding.EncodeToString(d[:])
}

func newMaterial(rng *rand.Rand, dir string) (*material, error) {
	m := &material{dir: dir, users: map[string]string{}}
	ca := newCA("verif-c13-ca")
	foreign := newCA("verif-c13-foreign-ca")
	now := time.Now()

	_, srvCert, srvKey := leaf("localhost", &ca, true, now.Add(-time.Hour), now.Add(24*time.Hour))
	m.certValid, _, _ = leaf("client-valid", &ca, false, now.Add(-time.Hour), now.Add(24*time.Hour))
	m.certForeign, _, _ = leaf("client-foreign", &foreign, false, now.Add(-time.Hour), now.Add(24*time.Hour))
	m.certSelfSigned, _, _ = leaf("client-selfsigned", nil, false, now.Add(-time.Hour), now.Add(24*time.Hour))
	m.certExpired, _, _ = leaf("client-expired", &ca, false, now.Add(-48*time.Hour), now.Add(-24*time.Hour))

	m.caPool = x509.NewCertPool()
	m.caPool.AddCert(ca.cert)

	m.caFile = filepath.Join(dir, "ca.pem")
	m.serverCertFile = filepath.Join(dir, "server.pem")
	m.serverKeyFile = filepath.Join(dir, "server.key")
	m.htpasswdFile = filepath.Join(dir, "htpasswd")
	caPEM := pem.EncodeToMemory(&pem.Block{Type: "CERTIFICATE", Bytes: ca.cert.Raw})
	// The host's trust store, as the server process sees it (SSL_CERT_FILE), holds the *foreign* CA: like every real
	// host it trusts authorities other than the one configured for client certificates, and that must not matter.
	m.hostTrustFile = filepath.Join(dir, "host-trust-store.pem")
	foreignPEM := pem.EncodeToMemory(&pem.Block{Type: "CERTIFICATE", Bytes: foreign.cert.Raw})
	for p, b := range map[string][]byte{m.caFile: caPEM, m.serverCertFile: srvCert, m.serverKeyFile: srvKey, m.hostTrustFile: foreignPEM} {
		if err := os.WriteFile(p, b, 0o600); err != nil {
			return nil, err
		}
	}

	// htpasswd: two schemes the go-http-auth library accepts.
	m.users["setup"] = "S" + randPassword(rng, 14)
	m.users["alice"] = "A" + randPassword(rng, 10+rng.IntN(8))
	m.users["bob"] = "B" + randPassword(rng, 10+rng.IntN(8))
	bh, err := bcrypt.GenerateFromPassword([]byte(m.users["bob"]), bcrypt.MinCost)
	if err != nil {
		return nil, err
	}
	ht := fmt.Sprintf("setup:%s\nalice:%s\nbob:%s\n", shaEntry(m.users["setup"]), shaEntry(m.users["alice"]), string(bh))
	if err := os.WriteFile(m.htpasswdFile, []byte(ht), 0o600); err != nil {
		return nil, err
	}
	return m, nil
}

func basicHeader(user, pw string) string {
	return "Basic " + base64.StdEncoding.EncodeToString([]byte(user+":"+pw))
}

func b64(s string) string { return base64.StdEncoding.EncodeToString([]byte(s)) }

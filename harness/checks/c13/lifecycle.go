package c13

// Credential lifecycle: the htpasswd file changes while the server runs, and
// the same user presents wrong and valid passwords in sequences.
//
// In the statement's terms the valid credentials are the ones the htpasswd
// file holds now: after a rotation the superseded password is a wrong password,
// a removed user is an unknown user (both refused on every HTTP method/endpoint
// and every gRPC method, nothing they write is stored), the new password and
// an added user are valid credentials (accepted).
//
// What makes the server look at the file again (read from the code under test,
// go-http-auth users.go: File.ReloadIfNeeded): every secret lookup stats the
// path and reloads the file when its modification time differs from the one
// remembered. So a change is driven by replacing the file with one whose mtime
// differs (rename of a complete temp file, mtime set explicitly with Chtimes
// and checked with Stat afterwards), at a moment when this session has no
// request in flight; the very next request sees the new file. No waiting is
// involved and none is used as a verdict.

import (
	"context"
	"fmt"
	"math/rand/v2"
	"os"
	"path/filepath"
	"strings"
	"time"

	"golang.org/x/crypto/bcrypt"
)

// lifecycle is the private htpasswd file of one credential-lifecycle session.
type lifecycle struct {
	mat  *material // the round's material with htpasswdFile pointing at the private file
	path string

	pw     map[string]string // password name -> password
	scheme map[string]string // password name -> "sha" | "bcrypt"
	line   map[string]string // password name -> htpasswd secret (kept identical across generations)

	gens     [3][][2]string // generation -> lines {user, password name}
	gen      int
	mtime    time.Time
	rewrites int
	finished bool
}

const setupPwName = "setup"

func newLifecycle(rng *rand.Rand, base *material, dir string) (*lifecycle, error) {
	if err := os.MkdirAll(dir, 0o700); err != nil {
		return nil, err
	}
	m := *base
	m.htpasswdFile = filepath.Join(dir, "htpasswd")
	l := &lifecycle{mat: &m, path: m.htpasswdFile, pw: map[string]string{}, scheme: map[string]string{}, line: map[string]string{}}
	flip := rng.IntN(2)
	add := func(i int, name, pw string) error {
		l.pw[name] = pw
		if (i+flip)%2 == 0 {
			l.scheme[name], l.line[name] = "sha", shaEntry(pw)
			return nil
		}
		h, err := bcrypt.GenerateFromPassword([]byte(pw), bcrypt.MinCost)
		l.scheme[name], l.line[name] = "bcrypt", string(h)
		return err
	}
	// u1a/u1b and u2a/u2b get different schemes (a rotation may change the scheme too).
	for i, n := range []string{"u1a", "u1b", "u2a", "u2b", "u3", "u4", "s1", "s2"} {
		if err := add(i, n, strings.ToUpper(n[:1])+n[1:]+"-"+randPassword(rng, 9+rng.IntN(8))); err != nil {
			return nil, err
		}
	}
	l.pw[setupPwName], l.scheme[setupPwName], l.line[setupPwName] = base.users["setup"], "sha", shaEntry(base.users["setup"])
	l.gens = [3][][2]string{
		// generation 0: what the server starts with.
		{{"setup", setupPwName}, {"u1", "u1a"}, {"u2", "u2a"}, {"u3", "u3"}, {"s1", "s1"}, {"s2", "s2"}},
		// generation 1: u1 rotated, u2 removed, u3 untouched, u4 added.
		{{"u4", "u4"}, {"setup", setupPwName}, {"u1", "u1b"}, {"u3", "u3"}, {"s1", "s1"}, {"s2", "s2"}},
		// generation 2: u1 rotated back to its first password, u2 back with a new
		// password, u4 removed, u3 untouched.
		{{"setup", setupPwName}, {"u2", "u2b"}, {"u3", "u3"}, {"u1", "u1a"}, {"s1", "s1"}, {"s2", "s2"}},
	}
	return l, nil
}

// install replaces the htpasswd file by generation g: complete temp file,
// explicit modification time different from the current file's, rename.
func (l *lifecycle) install(g int) error {
	var sb strings.Builder
	for _, e := range l.gens[g] {
		fmt.Fprintf(&sb, "%s:%s\n", e[0], l.line[e[1]])
	}
	want := time.Now().Truncate(time.Second).Add(-time.Hour)
	var prev time.Time
	havePrev := false
	if g == 0 {
		l.finished, l.rewrites = false, 0
	} else {
		st, err := os.Stat(l.path)
		if err != nil {
			return err
		}
		prev, havePrev = st.ModTime(), true
		want = prev.Truncate(time.Second).Add(17 * time.Second)
	}
	tmp := fmt.Sprintf("%s.gen%d.tmp", l.path, g)
	if err := os.WriteFile(tmp, []byte(sb.String()), 0o600); err != nil {
		return err
	}
	if err := os.Chtimes(tmp, want, want); err != nil {
		return err
	}
	if err := os.Rename(tmp, l.path); err != nil {
		return err
	}
	st, err := os.Stat(l.path)
	if err != nil {
		return err
	}
	if havePrev && st.ModTime().Equal(prev) {
		return fmt.Errorf("modification time of %s did not change (%s)", l.path, prev)
	}
	b, err := os.ReadFile(l.path)
	if err != nil || string(b) != sb.String() {
		return fmt.Errorf("htpasswd generation %d not in place: %v", g, err)
	}
	l.gen, l.mtime = g, st.ModTime()
	if g > 0 {
		l.rewrites++
	}
	return nil
}

// describe lists every generation (for the replay detail of a finding).
func (l *lifecycle) describe() []string {
	var out []string
	for g, lines := range l.gens {
		var parts []string
		for _, e := range lines {
			parts = append(parts, fmt.Sprintf("%s:%s(%s)", e[0], l.pw[e[1]], l.scheme[e[1]]))
		}
		out = append(out, fmt.Sprintf("generation %d: %s", g, strings.Join(parts, " ")))
	}
	return out
}

// Phases of a lifecycle session (also part of the finding keys).
const (
	phaseSeqOne    = "seq-one-connection"
	phaseSeqFresh  = "seq-fresh-connections"
	phaseGen0      = "htpasswd-gen0"
	phaseChanged   = "after-htpasswd-change"
	phaseRechanged = "after-second-htpasswd-change"
)

// phaseSuffix is appended to the failure class of a finding key.
func phaseSuffix(phase string) string {
	switch phase {
	case phaseSeqOne:
		return "-in-login-sequence-one-connection"
	case phaseSeqFresh:
		return "-in-login-sequence-fresh-connections"
	case phaseChanged:
		return "-after-htpasswd-change"
	case phaseRechanged:
		return "-after-second-htpasswd-change"
	}
	return ""
}

func wrongLast(p string) string { // same length, last character changed
	b := []byte(p)
	if b[len(b)-1] == 'x' {
		b[len(b)-1] = 'y'
	} else {
		b[len(b)-1] = 'x'
	}
	return string(b)
}

func wrongFirst(p string) string { // same length, first character changed
	b := []byte(p)
	b[0] ^= 1
	return string(b)
}

func (s *session) lifecyclePhases() {
	l := s.life
	hdr := func(name string, valid bool, user, pw string) credState {
		return credState{Name: name, Valid: valid, User: user, Header: basicHeader(user, pw)}
	}
	viaAuthority := func(name string, valid bool, user, pw string) credState {
		return credState{Name: name, Valid: valid, User: user, Authority: user + ":" + pw}
	}
	gone := func() bool { return s.dead || s.child.Exited() }
	open := func(cs credState, everyRequestOnNewConnection bool) *client {
		c, err := newClient(s.cfg, s.mat, s.child.HTTPAddr, s.child.GRPCAddr, cs)
		if err != nil {
			s.inconclusive("client: " + err.Error())
			return nil
		}
		if everyRequestOnNewConnection {
			c.tr.DisableKeepAlives = true
		}
		return c
	}
	// probe runs the whole matrix in credential state cs on client c (whatever
	// connections c holds are kept).
	probe := func(phase string, c *client, cs credState) {
		if c == nil || gone() {
			return
		}
		c.cred = cs
		if cs.Authority == "" {
			s.probeHTTP(phase, c)
		}
		s.probeGRPC(context.Background(), phase, c)
		s.count("life." + phase + ".states")
	}
	fresh := func(phase string, cs credState) {
		c := open(cs, false)
		if c == nil {
			return
		}
		defer c.close()
		probe(phase, c, cs)
	}
	connStats := func(label string, c *client) (reused int64) {
		reused = c.reusedConn.Load()
		s.counts["life."+label+".http-requests-on-reused-connection"] += reused
		s.counts["life."+label+".http-requests-on-new-connection"] += c.newConn.Load()
		return reused
	}

	// 1. Sequences for one user: wrong, valid, wrong, valid — on one HTTP
	// keep-alive connection / gRPC channel (s1), and with a new connection for
	// every HTTP request / a new channel for every state (s2). The first wrong
	// password is the server's first contact with that user name.
	seq := func(user string) []credState {
		p := l.pw[user]
		out := []credState{
			hdr("wrong-password-first-contact", false, user, wrongLast(p)),
			hdr("valid-after-wrong-password", true, user, p),
			hdr("wrong-password-after-valid", false, user, wrongFirst(p)),
			hdr("valid-again", true, user, p),
		}
		if !s.r.Quick {
			out = append(out, hdr("wrong-password-extended-after-valid", false, user, p+"x"),
				hdr("valid-a-third-time", true, user, p))
		}
		return out
	}
	if c := open(credState{}, false); c != nil {
		for _, cs := range seq("s1") {
			probe(phaseSeqOne, c, cs)
		}
		if connStats(phaseSeqOne, c) == 0 && !gone() {
			s.inconclusive(fmt.Sprintf("one-connection login sequence on %s: no HTTP request went out on a reused connection", s.cfg))
		}
		c.close()
	}
	for _, cs := range seq("s2") {
		if c := open(cs, true); c != nil {
			probe(phaseSeqFresh, c, cs)
			connStats(phaseSeqFresh, c)
			c.close()
		}
	}
	s.postCheck("login sequences")

	// 2. Generation 0: credentials that will become valid are not valid yet; u1, u2
	// and u3 log in on connections that stay open across the change.
	fresh(phaseGen0, hdr("unknown-user-not-yet-added", false, "u4", l.pw["u4"]))
	fresh(phaseGen0, hdr("wrong-password-not-yet-valid", false, "u1", l.pw["u1b"]))
	k1 := open(credState{}, false)
	k2 := open(credState{}, false)
	k3 := open(credState{}, false)
	for _, c := range []*client{k1, k2, k3} {
		if c != nil {
			defer c.close()
		}
	}
	probe(phaseGen0, k1, hdr("valid-before-rotation", true, "u1", l.pw["u1a"]))
	probe(phaseGen0, k2, hdr("valid-before-removal", true, "u2", l.pw["u2a"]))
	probe(phaseGen0, k3, hdr("valid-unchanged-user", true, "u3", l.pw["u3"]))
	fresh(phaseGen0, viaAuthority("valid-before-rotation-authority", true, "u1", l.pw["u1a"]))
	fresh(phaseGen0, viaAuthority("valid-before-removal-authority", true, "u2", l.pw["u2a"]))
	s.postCheck(phaseGen0)
	if gone() || k1 == nil || k2 == nil || k3 == nil {
		return
	}

	// 3. First change of the file.
	if err := l.install(1); err != nil {
		s.inconclusive(fmt.Sprintf("credential-lifecycle slice %s: htpasswd could not be rewritten: %v", s.cfg, err))
		return
	}
	s.count("life.htpasswd-rewrites")
	s.note("htpasswd rewritten (generation 1, mtime %s): u1 rotated, u2 removed, u3 untouched, u4 added", l.mtime.Format(time.RFC3339))
	// The superseded credentials first, on the connections they were accepted on.
	n1, n2 := k1.newConn.Load(), k2.newConn.Load()
	probe(phaseChanged, k1, hdr("wrong-password-superseded", false, "u1", l.pw["u1a"]))
	probe(phaseChanged, k2, hdr("unknown-user-removed", false, "u2", l.pw["u2a"]))
	if k1.newConn.Load() == n1 {
		s.count("life." + phaseChanged + ".superseded-password-only-on-the-kept-http-connection")
	}
	if k2.newConn.Load() == n2 {
		s.count("life." + phaseChanged + ".removed-user-only-on-the-kept-http-connection")
	}
	fresh(phaseChanged, viaAuthority("wrong-password-superseded-authority", false, "u1", l.pw["u1a"]))
	fresh(phaseChanged, viaAuthority("unknown-user-removed-authority", false, "u2", l.pw["u2a"]))
	fresh(phaseChanged, hdr("valid-rotated-password", true, "u1", l.pw["u1b"]))
	fresh(phaseChanged, viaAuthority("valid-rotated-password-authority", true, "u1", l.pw["u1b"]))
	probe(phaseChanged, k3, hdr("valid-unchanged-user", true, "u3", l.pw["u3"]))
	fresh(phaseChanged, hdr("valid-added-user", true, "u4", l.pw["u4"]))
	// ... and again after the new password has been accepted, on new connections.
	fresh(phaseChanged, hdr("wrong-password-superseded-after-new-login", false, "u1", l.pw["u1a"]))
	fresh(phaseChanged, hdr("unknown-user-removed-fresh-connection", false, "u2", l.pw["u2a"]))
	s.postCheck(phaseChanged)
	if gone() {
		return
	}

	// 4. Second change: a password that was superseded is valid again, a removed
	// user is back with another password, the added user is removed.
	if err := l.install(2); err != nil {
		s.inconclusive(fmt.Sprintf("credential-lifecycle slice %s: htpasswd could not be rewritten a second time: %v", s.cfg, err))
		return
	}
	s.count("life.htpasswd-rewrites")
	s.note("htpasswd rewritten (generation 2, mtime %s): u1 back to its first password, u2 back with a new password, u4 removed", l.mtime.Format(time.RFC3339))
	fresh(phaseRechanged, hdr("wrong-password-rotated-away", false, "u1", l.pw["u1b"]))
	fresh(phaseRechanged, hdr("unknown-user-removed-again", false, "u4", l.pw["u4"]))
	probe(phaseRechanged, k2, hdr("wrong-password-of-earlier-account", false, "u2", l.pw["u2a"]))
	probe(phaseRechanged, k1, hdr("valid-restored-password", true, "u1", l.pw["u1a"]))
	fresh(phaseRechanged, hdr("valid-readded-user", true, "u2", l.pw["u2b"]))
	probe(phaseRechanged, k3, hdr("valid-unchanged-user", true, "u3", l.pw["u3"]))
	s.postCheck(phaseRechanged)
	kept := connStats("kept-connections", k1) + connStats("kept-connections", k2) + connStats("kept-connections", k3)
	if kept == 0 && !gone() {
		s.inconclusive(fmt.Sprintf("credential-lifecycle slice %s: no HTTP request went out on a kept connection", s.cfg))
	}
	if !gone() && l.rewrites == 2 {
		l.finished = true
	}
}

package c13

import (
	"bytes"
	"context"
	"crypto/tls"
	"crypto/x509"
	"errors"
	"io"
	"net/http"
	"net/http/httptrace"
	"sync/atomic"
	"time"

	"google.golang.org/grpc"
	"google.golang.org/grpc/credentials"
	"google.golang.org/grpc/credentials/insecure"
	"google.golang.org/grpc/metadata"
)

// credState is one way a client presents (or does not present) credentials.
type credState struct {
	Name  string
	Valid bool

	// basic authentication
	Header    string // value of the Authorization header / authorization metadata ("" = none)
	Authority string // "user:pass" placed in the gRPC :authority (gRPC only)
	User      string // whose credentials these claim to be

	// mutual TLS
	Cert    *tls.Certificate // nil = no client certificate
	BadCert bool             // a certificate that cannot verify: a refused handshake is a refusal
}

// client talks to one server in one credential state.
type client struct {
	cred credState
	hc   *http.Client
	tr   *http.Transport
	conn *grpc.ClientConn
	base string

	// HTTP requests that went out on a connection that had carried an earlier
	// request / on a new one (evidence for the one-connection sequences).
	reusedConn, newConn atomic.Int64
}

func newClient(cfg serverCfg, mat *material, httpAddr, grpcAddr string, cs credState) (*client, error) {
	c := &client{cred: cs}
	var tlsCfg *tls.Config
	if cfg.TLS {
		tlsCfg = &tls.Config{RootCAs: mat.caPool, ServerName: "localhost", MinVersion: tls.VersionTLS12}
		if cs.Cert != nil {
			cert := cs.Cert
			// Present the certificate even when it does not match the CA names the
			// server announces (the default client logic would silently send none).
			tlsCfg.GetClientCertificate = func(*tls.CertificateRequestInfo) (*tls.Certificate, error) {
				return cert, nil
			}
		}
		c.base = "https://" + httpAddr
	} else {
		c.base = "http://" + httpAddr
	}
	c.tr = &http.Transport{
		MaxIdleConnsPerHost: 4,
		IdleConnTimeout:     30 * time.Second,
		TLSClientConfig:     tlsCfg,
	}
	c.hc = &http.Client{
		Transport:     c.tr,
		Timeout:       60 * time.Second,
		CheckRedirect: func(*http.Request, []*http.Request) error { return http.ErrUseLastResponse },
	}
	var opts []grpc.DialOption
	if cfg.TLS {
		gcfg := tlsCfg.Clone()
		if cs.Authority != "" {
			// The gRPC client insists that a configured TLS server name equals the
			// :authority. Leave the name empty and verify the server certificate
			// (chain to the harness CA, name "localhost") by hand instead.
			gcfg.ServerName = ""
			gcfg.InsecureSkipVerify = true //nolint:gosec // verified in VerifyConnection
			pool := mat.caPool
			gcfg.VerifyConnection = func(st tls.ConnectionState) error {
				if len(st.PeerCertificates) == 0 {
					return errors.New("no server certificate")
				}
				vo := x509.VerifyOptions{Roots: pool, DNSName: "localhost", Intermediates: x509.NewCertPool()}
				for _, ic := range st.PeerCertificates[1:] {
					vo.Intermediates.AddCert(ic)
				}
				_, err := st.PeerCertificates[0].Verify(vo)
				return err
			}
		}
		opts = append(opts, grpc.WithTransportCredentials(credentials.NewTLS(gcfg)))
	} else {
		opts = append(opts, grpc.WithTransportCredentials(insecure.NewCredentials()))
	}
	if cs.Authority != "" {
		opts = append(opts, grpc.WithAuthority(cs.Authority+"@"+grpcAddr))
	}
	conn, err := grpc.NewClient("passthrough:///"+grpcAddr, opts...)
	if err != nil {
		return nil, err
	}
	c.conn = conn
	return c, nil
}

func (c *client) close() {
	if c.conn != nil {
		_ = c.conn.Close()
	}
	if c.tr != nil {
		c.tr.CloseIdleConnections()
	}
}

// ctx decorates an outgoing gRPC context with the authorization metadata of
// the credential state.
func (c *client) ctx(parent context.Context) context.Context {
	if c.cred.Header != "" {
		return metadata.AppendToOutgoingContext(parent, "authorization", c.cred.Header)
	}
	return parent
}

type httpRes struct {
	Status int
	Body   []byte
	Err    error
}

func (c *client) do(method, path string, body []byte) httpRes {
	var rd io.Reader
	if body != nil {
		rd = bytes.NewReader(body)
	}
	req, err := http.NewRequest(method, c.base+path, rd)
	if err != nil {
		return httpRes{Err: err}
	}
	if c.cred.Header != "" {
		req.Header.Set("Authorization", c.cred.Header)
	}
	req = req.WithContext(httptrace.WithClientTrace(req.Context(), &httptrace.ClientTrace{
		GotConn: func(i httptrace.GotConnInfo) {
			if i.Reused {
				c.reusedConn.Add(1)
			} else {
				c.newConn.Add(1)
			}
		},
	}))
	resp, err := c.hc.Do(req)
	if err != nil {
		return httpRes{Err: err}
	}
	defer func() { _ = resp.Body.Close() }()
	b, _ := io.ReadAll(io.LimitReader(resp.Body, 1<<20))
	return httpRes{Status: resp.StatusCode, Body: b}
}

package c13

import (
	"context"
	"errors"
	"fmt"
	"io"
	"net"
	"sort"
	"time"

	"github.com/buchgr/bazel-remote/v2/server"

	"google.golang.org/grpc"
	"google.golang.org/grpc/codes"
	"google.golang.org/grpc/status"
	"google.golang.org/protobuf/types/known/emptypb"

	"verif/harness/lib"
)

// rpcMethod is one method of one registered gRPC service.
type rpcMethod struct {
	Full         string // "/pkg.Service/Method"
	Service      string
	Name         string
	ClientStream bool
	ServerStream bool
}

// discoverUniverse asks the real registration code (server.ServeGRPC, the
// function main.go ends up in) which services and methods it registers, with
// the remote asset API on. The listener is already closed, so ServeGRPC returns
// right after registration and nothing is served in-process.
func discoverUniverse() ([]rpcMethod, error) {
	ln, err := net.Listen("tcp", "127.0.0.1:0")
	if err != nil {
		return nil, err
	}
	_ = ln.Close()
	srv := grpc.NewServer()
	done := make(chan error, 1)
	go func() {
		done <- server.ServeGRPC(ln, srv, true, false, true, 0, nil, lib.DiscardLogger, lib.DiscardLogger)
	}()
	select {
	case <-done: // the expected "use of closed network connection"
	case <-time.After(30 * time.Second):
		srv.Stop()
		<-done
	}
	srv.Stop()
	var out []rpcMethod
	for svc, info := range srv.GetServiceInfo() {
		for _, m := range info.Methods {
			out = append(out, rpcMethod{
				Full: "/" + svc + "/" + m.Name, Service: svc, Name: m.Name,
				ClientStream: m.IsClientStream, ServerStream: m.IsServerStream,
			})
		}
	}
	sort.Slice(out, func(i, j int) bool { return out[i].Full < out[j].Full })
	if len(out) == 0 {
		return nil, errors.New("no gRPC service registered by server.ServeGRPC")
	}
	return out, nil
}

// The harness's own access table, written from the property statement (not
// read from server/grpc.go:readOnlyMethods).
const healthCheckMethod = "/grpc.health.v1.Health/Check"

// mayBeOpenToReaders: refused without credentials unless
// allow_unauthenticated_reads is set, in which case they must be served.
var mayBeOpenToReaders = map[string]bool{
	"/build.bazel.remote.execution.v2.ActionCache/GetActionResult":                true,
	"/build.bazel.remote.execution.v2.ContentAddressableStorage/FindMissingBlobs": true,
	"/build.bazel.remote.execution.v2.ContentAddressableStorage/BatchReadBlobs":   true,
	"/build.bazel.remote.execution.v2.ContentAddressableStorage/GetTree":          true,
	"/build.bazel.remote.execution.v2.Capabilities/GetCapabilities":               true,
	"/google.bytestream.ByteStream/Read":                                          true,
}

// readOnlyUnspecified: methods that change nothing and for which the statement
// does not say whether allow_unauthenticated_reads opens them (either answer is
// accepted with the option on; with the option off they need credentials),
// plus the rest of the health service (only Check is promised to be open; the
// statement does not forbid the other health methods from being open).
var readOnlyUnspecified = map[string]bool{
	"/google.bytestream.ByteStream/QueryWriteStatus":                       true,
	"/build.bazel.remote.execution.v2.ContentAddressableStorage/SplitBlob": true,
}

func isOtherHealth(full string) bool {
	return len(full) > len("/grpc.health.v1.Health/") && full[:len("/grpc.health.v1.Health/")] == "/grpc.health.v1.Health/" && full != healthCheckMethod
}

// rpcOutcome is what one generic invocation showed.
type rpcOutcome struct {
	Code      codes.Code
	Msg       string
	Transport bool // the call failed below the RPC layer (handshake / connection)
	GotReply  bool
}

func callCtx(parent context.Context) (context.Context, context.CancelFunc) {
	return context.WithTimeout(parent, 40*time.Second)
}

// invokeEmpty calls the method with one empty request message (an empty
// message is a valid encoding of every protobuf request type) and reports the
// status of the first answer.
func invokeEmpty(ctx context.Context, conn *grpc.ClientConn, m rpcMethod) rpcOutcome {
	ctx, cancel := callCtx(ctx)
	defer cancel()
	if !m.ClientStream && !m.ServerStream {
		err := conn.Invoke(ctx, m.Full, &emptypb.Empty{}, &emptypb.Empty{})
		return outcomeOf(err, err == nil)
	}
	desc := &grpc.StreamDesc{StreamName: m.Name, ClientStreams: m.ClientStream, ServerStreams: m.ServerStream}
	cs, err := conn.NewStream(ctx, desc, m.Full)
	if err != nil {
		return outcomeOf(err, false)
	}
	// Send errors are reported by RecvMsg (io.EOF from SendMsg means "status available").
	_ = cs.SendMsg(&emptypb.Empty{})
	_ = cs.CloseSend()
	err = cs.RecvMsg(&emptypb.Empty{})
	if err == io.EOF {
		return rpcOutcome{Code: codes.OK}
	}
	return outcomeOf(err, err == nil)
}

func outcomeOf(err error, reply bool) rpcOutcome {
	if err == nil {
		return rpcOutcome{Code: codes.OK, GotReply: reply}
	}
	st, _ := status.FromError(err)
	o := rpcOutcome{Code: st.Code(), Msg: st.Message()}
	if len(o.Msg) > 300 {
		o.Msg = o.Msg[:300]
	}
	// Unavailable is produced by the client library when no transport could be
	// established or the connection broke (TLS alert, reset).
	if o.Code == codes.Unavailable {
		o.Transport = true
	}
	return o
}

func (o rpcOutcome) String() string {
	if o.Msg == "" {
		return o.Code.String()
	}
	return fmt.Sprintf("%s (%s)", o.Code, o.Msg)
}

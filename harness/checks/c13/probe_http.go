package c13

import (
	"errors"
	"fmt"
	"strings"

	"verif/harness/lib"
)

var httpMethods = []string{"GET", "HEAD", "PUT", "POST", "DELETE", "PATCH", "OPTIONS"}

// cache path families: prefix, entry kind.
var families = []struct{ class, kind string }{
	{"/cas", "cas"}, {"/ac", "ac"}, {"/inst/cas", "cas"}, {"/inst/x/ac", "ac"},
}

func classOf(path string) string {
	switch {
	case path == "/status" || path == "/metrics" || path == "/":
		return path
	}
	for _, f := range []string{"/inst/x/ac", "/inst/cas", "/cas", "/ac"} {
		if strings.HasPrefix(path, f+"/") {
			return f
		}
	}
	return path
}

func refusalStatus(st int) bool { return st == 401 || st == 403 }

// httpProbe is one request of the matrix.
type httpProbe struct {
	Method  string
	Class   string // path class
	Variant string // present | absent | fresh | fixed
	Path    string
	Body    []byte
	Write   *pendingWrite // set when success would store something
}

func (s *session) httpMatrix() []httpProbe {
	var out []httpProbe
	for _, f := range families {
		presentHash := s.casPresent.Hash
		if f.kind == "ac" {
			presentHash = s.acPresentHash
		}
		present := f.class + "/" + presentHash
		absent := f.class + "/" + lib.Sha256Hex(s.fresh("absent-"+f.class))
		for _, m := range []string{"GET", "HEAD"} {
			out = append(out, httpProbe{Method: m, Class: f.class, Variant: "present", Path: present})
			out = append(out, httpProbe{Method: m, Class: f.class, Variant: "absent", Path: absent})
		}
		// PUT of a new entry that would be stored if the request were let through.
		var body []byte
		var hash string
		if f.kind == "cas" {
			body = s.fresh("put-" + f.class)
			hash = lib.Sha256Hex(body)
		} else {
			body = s.actionResult("put-" + f.class)
			hash = lib.Sha256Hex(s.fresh("ac-key-" + f.class))
		}
		out = append(out, httpProbe{Method: "PUT", Class: f.class, Variant: "fresh", Path: f.class + "/" + hash, Body: body,
			Write: &pendingWrite{Kind: f.kind, Hash: hash, Proto: "http", Target: f.class}})
		for _, m := range []string{"POST", "PATCH", "OPTIONS", "DELETE"} {
			var b []byte
			if m != "DELETE" && m != "OPTIONS" {
				b = s.fresh("body-" + m)
			}
			out = append(out, httpProbe{Method: m, Class: f.class, Variant: "present", Path: present, Body: b})
		}
	}
	for _, p := range []string{"/status", "/metrics", "/"} {
		for _, m := range httpMethods {
			var b []byte
			if m == "PUT" || m == "POST" || m == "PATCH" {
				b = s.fresh("body-" + m)
			}
			out = append(out, httpProbe{Method: m, Class: p, Variant: "fixed", Path: p, Body: b})
		}
	}
	return out
}

// isTimeout: the client gave up waiting (never a verdict).
func isTimeout(err error) bool {
	var t interface{ Timeout() bool }
	return errors.As(err, &t) && t.Timeout()
}

func isCacheClass(c string) bool { return c != "/status" && c != "/metrics" && c != "/" }

func (s *session) probeHTTP(phase string, c *client) {
	cfg := s.cfg
	cs := c.cred
	authOn := cfg.Auth != "none"
	for _, p := range s.httpMatrix() {
		res := c.do(p.Method, p.Path, p.Body)
		s.probes++
		s.eval()
		s.distinct(cfg.String(), "http", p.Method, p.Class, p.Variant, cs.Name, phase)
		if s.probes%397 == 1 {
			s.r.Sample(map[string]any{"configuration": cfg.String(), "protocol": "http", "method": p.Method, "path": p.Path, "credential": cs.Name, "phase": phase, "status": res.Status})
		}
		s.note("HTTP %s %s [%s] cred=%s phase=%s -> %d %v", p.Method, p.Path, p.Variant, cs.Name, phase, res.Status, res.Err)
		cnt := func(outcome string) {
			s.count(fmt.Sprintf("http.%s.%s.%s", cfg.authName(), credClass(cs), outcome))
			if s.life != nil {
				s.count(fmt.Sprintf("life.%s.http.%s.%s", phase, cs.Name, outcome))
			}
		}
		tuple := fmt.Sprintf("http|%s|%s|%s|%s", p.Method, p.Class, p.Variant, cs.Name)

		det := func() map[string]any {
			body := string(res.Body)
			if len(body) > 200 {
				body = body[:200]
			}
			d := map[string]any{"protocol": "http", "method": p.Method, "path": p.Path, "path_class": p.Class, "key_state": p.Variant,
				"credential": cs.Name, "phase": phase, "status": res.Status, "response_body": body}
			if res.Err != nil {
				d["transport_error"] = res.Err.Error()
			}
			return s.detail(d)
		}
		key := func(failure string) string {
			if phase == "after-valid-login" && s.refusedBefore[tuple] {
				failure += "-after-valid-login"
			}
			failure += phaseSuffix(phase)
			return fmt.Sprintf("C13:http:%s:metrics-%s:%s", p.Class, onoff(cfg.Metrics), failure)
		}

		if res.Err != nil {
			switch {
			case cs.BadCert:
				cnt("refused-handshake")
				s.refusedBefore[tuple] = s.refusedBefore[tuple] || phase == "before-valid-login"
			case !s.alive():
				s.dead = true
				s.inconclusive(fmt.Sprintf("server %s went away at HTTP %s %s: %.300s", cfg, p.Method, p.Path, s.child.LogTail(300)))
				return
			case cs.Valid && cfg.TLS && !isTimeout(res.Err):
				cnt("transport-error")
				s.violate(key("valid-refused"), "request with valid credentials failed below HTTP (TLS) while the server is up", det())
			default:
				cnt("transport-error")
				s.inconclusive(fmt.Sprintf("HTTP %s %s on %s: transport error %v", p.Method, p.Path, cfg, res.Err))
			}
			continue
		}
		st := res.Status
		refused := refusalStatus(st)
		isRead := p.Method == "GET" || p.Method == "HEAD"
		switch {
		case !authOn:
			if refused {
				cnt("refused")
				s.violate(key("noauth-refused"), fmt.Sprintf("authentication disabled but %s %s answered %d", p.Method, p.Class, st), det())
			} else {
				cnt("served")
			}
		case cs.Valid:
			if refused {
				cnt("refused")
				s.violate(key("valid-refused"), fmt.Sprintf("valid credentials (%s) refused: %s %s answered %d", cs.Name, p.Method, p.Class, st), det())
			} else {
				cnt("served")
			}
		case cfg.Reads && isRead:
			if refused {
				cnt("refused")
				s.violate(key("open-read-refused"), fmt.Sprintf("allow_unauthenticated_reads is on but %s %s without valid credentials answered %d", p.Method, p.Class, st), det())
			} else {
				cnt("open-read-served")
			}
		case cfg.Reads && !isCacheClass(p.Class):
			// A non-read method on /status, /metrics or / while readers are allowed in:
			// nothing can be changed there and the statement does not say.
			cnt("unspecified")
		default:
			// Must be refused.
			strict := (isCacheClass(p.Class) && (isRead || p.Method == "PUT")) ||
				(p.Class == "/status" && isRead) || (p.Class == "/metrics" && cfg.Metrics && isRead)
			ok := refused || (!strict && st >= 400)
			if ok {
				if refused {
					cnt("refused")
				} else {
					cnt("not-served")
				}
				if phase == "before-valid-login" {
					s.refusedBefore[tuple] = true
				}
			} else {
				cnt("SERVED-WITHOUT-CREDENTIALS")
				failure := "unauthenticated"
				if p.Method == "PUT" && isCacheClass(p.Class) {
					failure = "unauthenticated-write"
				}
				s.violate(key(failure), fmt.Sprintf("%s %s without valid credentials (%s) answered %d instead of being refused", p.Method, p.Class, cs.Name, st), det())
			}
		}
		if p.Write != nil && authOn && !cs.Valid {
			w := *p.Write
			w.Cred, w.Phase, w.Answer = cs.Name, phase, fmt.Sprint(st)
			s.pending = append(s.pending, w)
		}
		if p.Write != nil && (cs.Valid || !authOn) && !refused {
			// Positive control: the same kind of request does store when let through.
			path := "/cas/" + p.Write.Hash
			if p.Write.Kind == "ac" {
				path = "/ac/" + p.Write.Hash
			}
			if h := s.setup.do("HEAD", path, nil); h.Status == 200 {
				s.count("control.http-write-stored")
			} else {
				s.count("control.http-write-NOT-stored")
				s.inconclusive(fmt.Sprintf("control: PUT %s with valid credentials answered %d but lookup says %d on %s", p.Path, st, h.Status, cfg))
			}
		}
	}
}

// credClass folds credential states into a few classes for the counters.
func credClass(cs credState) string {
	switch {
	case cs.Valid:
		return "valid"
	case cs.BadCert:
		return "bad-cert"
	case cs.Name == "none" || cs.Name == "no-cert":
		return "none"
	case strings.HasPrefix(cs.Name, "malformed") || strings.HasPrefix(cs.Name, "other-scheme"):
		return "malformed"
	case strings.HasPrefix(cs.Name, "unknown-user"):
		return "unknown-user"
	}
	return "wrong-password"
}

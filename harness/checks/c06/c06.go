package c06

// c06.go: worlds (in-process servers with and without a backend), blob
// placement, upload and query paths, the hit/miss oracle, and the driver of
// the presence part. The recency part lives in recency.go, the concurrent
// part in concurrent.go.
//
// Finding keys:
//
//	C06:hit-with-missing-blob:<what>@<class>[:beyond-first-20]:<backend|nobackend>
//	    what = absent | size-mismatch | evicted; class = file | tree-blob |
//	    tree-root-file | tree-child-file | stdout | stderr; also
//	    nothing-stored, random-subset, size-mismatch-held-by-backend[@tree-blob];
//	    over-proxy-limit@<class>: held by the backend only and larger than
//	    max_proxy_blob_size (worlds ".../proxy-limit-<n>")
//	    dup-size-mismatch@<class>: the hash is referenced twice, once with the
//	    right and once with a wrong stated size; absent-but-inlined-elsewhere@file:
//	    one output file carries the bytes inline, another refers to the same hash
//	    by digest only and the blob is nowhere
//	C06:hit-with-missing-blob:intermittent:backend   (the hit does not repeat)
//	C06:error-on-absence:<what>@<class>:<be>  C06:partial-result:<plan>:<be>
//	C06:hit-with-wrong-inlined-bytes:<plan>:<be>   (gRPC hit, bytes inlined on request are not the referenced blob)
//	C06:recency:<class>-not-refreshed-by-hit:<query path>:<be>
//
// Not judged (the statement is one-directional and silent about them), only
// counted: a miss / an error while everything is present (converse.*), entries
// evicted while a hit is served (recency.lookup-evicted-entries.*), lookups of
// an ActionResult that is itself no longer held (query.*.ac-entry-not-held.*).
// Transport errors, Unavailable / Canceled / DeadlineExceeded /
// ResourceExhausted are inconclusive, never verdicts.

import (
	"bytes"
	"fmt"
	"math/rand/v2"
	"os"
	"sort"
	"strconv"
	"strings"
	"sync"
	"time"

	"verif/harness/lib"

	"github.com/buchgr/bazel-remote/v2/cache"
	pb "github.com/buchgr/bazel-remote/v2/genproto/build/bazel/remote/execution/v2"

	"github.com/klauspost/compress/zstd"
	"google.golang.org/grpc/codes"
	"google.golang.org/protobuf/encoding/protojson"
	"google.golang.org/protobuf/proto"
)

func init() { lib.Register("C06", run) }

// ---------------------------------------------------------------------------
// Worlds.

type world struct {
	r       *lib.Run
	srv     *lib.Server
	fp      *lib.FakeProxy // nil: no backend
	storage string
	cfg     string // e.g. "zstd/go/backend"
	limit   int64  // max_proxy_blob_size (0: unlimited)

	mu      sync.Mutex
	backend map[string]int64 // CAS hash -> logical size the harness put into the backend
}

func (w *world) hasBackend() bool { return w.fp != nil }
func (w *world) beLabel() string {
	if w.fp != nil {
		return "backend"
	}
	return "nobackend"
}

func newWorld(r *lib.Run, storage, impl string, backend bool, maxSize int64, dir string) (*world, error) {
	return newLimitedWorld(r, storage, impl, backend, maxSize, dir, 0)
}

// newLimitedWorld: limit > 0 sets max_proxy_blob_size: larger blobs are
// neither fetched from nor looked up in (nor written through to) the backend.
func newLimitedWorld(r *lib.Run, storage, impl string, backend bool, maxSize int64, dir string, limit int64) (*world, error) {
	w := &world{r: r, storage: storage, backend: map[string]int64{}, limit: limit}
	o := lib.ServerOpts{MaxSize: maxSize, Storage: storage, ZstdImpl: impl, Dir: dir, MaxProxyBlobSize: limit}
	if backend {
		w.fp = lib.NewFakeProxy(storage == "zstd")
		o.Proxy = w.fp
	}
	srv, err := lib.StartServer(o)
	if err != nil {
		return nil, err
	}
	w.srv = srv
	w.cfg = storage + "/" + impl + "/" + w.beLabel()
	if limit > 0 {
		w.cfg += fmt.Sprintf("/proxy-limit-%d", limit)
	}
	return w, nil
}

func (w *world) close() {
	lib.WaitEvictionsDrained(w.srv.Cache, 2*time.Second)
	w.srv.Close()
}

// One shared encoder for the backend's cas.v2 objects (EncodeAll is safe for
// concurrent use; lib.ZstdEncodeKP builds a new encoder per call).
var beEncoder, _ = zstd.NewWriter(nil, zstd.WithEncoderLevel(zstd.SpeedFastest), zstd.WithEncoderConcurrency(4))

func (w *world) putBackend(hash string, content []byte) {
	if w.fp.V2 {
		raw := lib.CasWrite(content, lib.MiB, 1, func(c []byte) []byte { return beEncoder.EncodeAll(c, nil) })
		w.fp.SetRaw(cache.CAS, hash, raw, int64(len(content)))
	} else {
		w.fp.SetBlob(cache.CAS, hash, content)
	}
	w.mu.Lock()
	w.backend[hash] = int64(len(content))
	w.mu.Unlock()
}

// localSizes observes, through the index snapshot (which does not touch
// recency), the logical size of each of the given CAS hashes held locally.
func (w *world) localSizes(hashes map[string]bool) map[string]int64 {
	s := lib.Snapshot(w.srv.Cache)
	out := map[string]int64{}
	for _, e := range s.Entries {
		if strings.HasPrefix(e.Key, "cas/") {
			if h := e.Key[4:]; hashes[h] {
				out[h] = e.Size
			}
		}
	}
	return out
}

// ---------------------------------------------------------------------------
// Placement and upload.

const (
	plAbsent  = 0
	plLocal   = 1
	plBackend = 2
	plBoth    = 3
)

func plName(p int) string { return [...]string{"absent", "local", "backend", "local+backend"}[p] }

// uploadLocal stores blobs in the server under their REAL digests, via
// BatchUpdateBlobs or HTTP PUT. Returns an error text when an upload was
// refused (then the case cannot be judged).
func (w *world) uploadLocal(blobs [][]byte, how string) string {
	if len(blobs) == 0 {
		return ""
	}
	switch how {
	case "batch":
		req := &pb.BatchUpdateBlobsRequest{}
		for _, b := range blobs {
			req.Requests = append(req.Requests, &pb.BatchUpdateBlobsRequest_Request{Digest: lib.DigestOf(b), Data: b})
		}
		ctx, cancel := lib.Ctx()
		defer cancel()
		resp, err := w.srv.CAS.BatchUpdateBlobs(ctx, req)
		if err != nil {
			return "BatchUpdateBlobs: " + err.Error()
		}
		for _, rr := range resp.Responses {
			if rr.GetStatus().GetCode() != 0 {
				return fmt.Sprintf("BatchUpdateBlobs: blob %s status %d", rr.GetDigest().GetHash(), rr.GetStatus().GetCode())
			}
		}
	default:
		for _, b := range blobs {
			res := w.srv.HTTPPut("/cas/"+lib.Sha256Hex(b), b, nil)
			if res.Err != nil || res.Status != 200 {
				return fmt.Sprintf("PUT /cas: status %d err %v", res.Status, res.Err)
			}
		}
	}
	return ""
}

var uploadPaths = []string{"grpc", "http-pb", "http-json"}

// uploadAR stores the ActionResult under in.key via the given path.
func (w *world) uploadAR(in *instance, path string) string {
	switch path {
	case "grpc":
		ctx, cancel := lib.Ctx()
		defer cancel()
		_, err := w.srv.AC.UpdateActionResult(ctx, &pb.UpdateActionResultRequest{
			ActionDigest: &pb.Digest{Hash: in.key, SizeBytes: in.keySize},
			ActionResult: proto.Clone(in.ar).(*pb.ActionResult),
		})
		if err != nil {
			return "UpdateActionResult: " + err.Error()
		}
	case "http-pb":
		b, _ := proto.Marshal(in.ar)
		res := w.srv.HTTPPut("/ac/"+in.key, b, nil)
		if res.Err != nil || res.Status != 200 {
			return fmt.Sprintf("PUT /ac (protobuf): status %d err %v body %q", res.Status, res.Err, res.Body)
		}
	case "http-json":
		b, err := protojson.Marshal(in.ar)
		if err != nil {
			return "protojson: " + err.Error()
		}
		res := w.srv.HTTPPut("/ac/"+in.key, b, map[string]string{"Content-Type": "application/json"})
		if res.Err != nil || res.Status != 200 {
			return fmt.Sprintf("PUT /ac (json): status %d err %v body %q", res.Status, res.Err, res.Body)
		}
	case "backend-ac":
		// the ActionResult is held by the backend only
		b, _ := proto.Marshal(in.ar)
		w.fp.SetBlob(cache.AC, in.key, b)
	}
	return ""
}

// ---------------------------------------------------------------------------
// Queries and the oracle.

var queryPaths = []string{"grpc", "http-get", "http-head"}

type outcome struct {
	Kind   string `json:"kind"` // hit | miss | error
	Detail string `json:"detail"`
	ar     *pb.ActionResult
}

// inlineReq is what a gRPC GetActionResult asks to have inlined.
type inlineReq struct {
	on             bool // false: a request without any inline field (the plain lookup)
	stdout, stderr bool
	files          string // none | all | some | unknown-path
}

func (q inlineReq) String() string {
	if !q.on {
		return "plain"
	}
	return fmt.Sprintf("stdout=%v,stderr=%v,files=%s", q.stdout, q.stderr, q.files)
}

// inlineVariant rotates through the inline-request combinations: variant 0 is
// the plain request, then the 4 stdout/stderr combinations x inline_output_files
// in {none, all, some, a path the result does not have}.
func inlineVariant(v int) inlineReq {
	if v < 0 {
		return inlineReq{}
	}
	v %= 13
	if v == 0 {
		return inlineReq{}
	}
	v--
	return inlineReq{on: true, stdout: v&1 != 0, stderr: v&2 != 0, files: []string{"all", "some", "none"}[(v/4)%3]}
}

// transient names answers that say nothing about the property: the transport
// or the client's own context failed (port exhaustion, reset connection, a
// watchdog), not the dependency check.
func transientCode(c codes.Code) bool {
	switch c {
	case codes.DeadlineExceeded, codes.Unavailable, codes.Canceled, codes.ResourceExhausted:
		return true
	}
	return false
}

func (w *world) query(in *instance, path string, jsonAccept bool, inl inlineReq) outcome {
	switch path {
	case "grpc":
		ctx, cancel := lib.Ctx()
		defer cancel()
		req := &pb.GetActionResultRequest{ActionDigest: &pb.Digest{Hash: in.key, SizeBytes: in.keySize}}
		if inl.on {
			req.InlineStdout, req.InlineStderr = inl.stdout, inl.stderr
			for i, f := range in.ar.OutputFiles {
				if inl.files == "all" || (inl.files == "some" && i%2 == 0) {
					req.InlineOutputFiles = append(req.InlineOutputFiles, f.Path)
				}
			}
			if inl.files != "none" {
				req.InlineOutputFiles = append(req.InlineOutputFiles, "out/no-such-output")
			}
		}
		res, err := w.srv.AC.GetActionResult(ctx, req)
		c := lib.Code(err)
		switch {
		case c == codes.OK:
			return outcome{Kind: "hit", Detail: "OK", ar: res}
		case c == codes.NotFound:
			return outcome{Kind: "miss", Detail: "NotFound"}
		case transientCode(c):
			return outcome{Kind: "timeout", Detail: err.Error()}
		}
		return outcome{Kind: "error", Detail: err.Error()}
	case "http-get":
		var hdr map[string]string
		if jsonAccept {
			hdr = map[string]string{"Accept": "application/json"}
		}
		res := w.srv.HTTPGet("/ac/"+in.key, hdr)
		if res.Err != nil {
			return outcome{Kind: "timeout", Detail: "transport: " + res.Err.Error()}
		}
		switch res.Status {
		case 200:
			ar := &pb.ActionResult{}
			var err error
			if res.BodyErr != nil {
				// the connection broke while the body was read: nothing to judge
				return outcome{Kind: "timeout", Detail: "transport (body): " + res.BodyErr.Error()}
			} else if jsonAccept {
				err = protojson.Unmarshal(res.Body, ar)
			} else {
				err = proto.Unmarshal(res.Body, ar)
				if cl := res.Header.Get("Content-Length"); err == nil && cl != "" && cl != strconv.Itoa(len(res.Body)) {
					err = fmt.Errorf("Content-Length %s but %d body bytes", cl, len(res.Body))
				}
			}
			if err != nil {
				return outcome{Kind: "hit", Detail: "200 with an unreadable body: " + err.Error()}
			}
			return outcome{Kind: "hit", Detail: "200", ar: ar}
		case 404:
			return outcome{Kind: "miss", Detail: "404"}
		}
		return outcome{Kind: "error", Detail: fmt.Sprintf("status %d %q", res.Status, truncate(res.Body, 200))}
	default: // http-head
		res := w.srv.HTTPHead("/ac/" + in.key)
		if res.Err != nil {
			return outcome{Kind: "timeout", Detail: "transport: " + res.Err.Error()}
		}
		switch res.Status {
		case 200:
			return outcome{Kind: "hit", Detail: "200"}
		case 404:
			return outcome{Kind: "miss", Detail: "404"}
		}
		return outcome{Kind: "error", Detail: fmt.Sprintf("status %d", res.Status)}
	}
}

func truncate(b []byte, n int) string {
	if len(b) > n {
		return string(b[:n]) + "..."
	}
	return string(b)
}

// partial compares a served ActionResult with the stored one as far as the
// statement goes: nothing the stored result refers to may be left out.
// (Faithfulness of every other field is C11's business; the server may
// de-inline contents and add digests for raw stdout/stderr.)
func partial(stored, got *pb.ActionResult) string {
	if got == nil {
		return "no ActionResult in the answer"
	}
	if len(got.OutputFiles) != len(stored.OutputFiles) {
		return fmt.Sprintf("%d output files served, %d stored", len(got.OutputFiles), len(stored.OutputFiles))
	}
	for i, f := range stored.OutputFiles {
		g := got.OutputFiles[i]
		if g.GetPath() != f.Path || !proto.Equal(g.GetDigest(), f.Digest) {
			return fmt.Sprintf("output_files[%d] served as %v, stored %s %v", i, g, f.Path, f.Digest)
		}
		if len(g.Contents) != 0 && len(f.Contents) != 0 && !bytes.Equal(g.Contents, f.Contents) {
			return fmt.Sprintf("output_files[%d] served with other contents than the stored inline contents", i)
		}
	}
	if len(got.OutputDirectories) != len(stored.OutputDirectories) {
		return fmt.Sprintf("%d output directories served, %d stored", len(got.OutputDirectories), len(stored.OutputDirectories))
	}
	for i, d := range stored.OutputDirectories {
		g := got.OutputDirectories[i]
		if g.GetPath() != d.Path || !proto.Equal(g.GetTreeDigest(), d.TreeDigest) {
			return fmt.Sprintf("output_directories[%d] served as %v, stored %v", i, g, d)
		}
	}
	if stored.StdoutDigest != nil && !proto.Equal(got.StdoutDigest, stored.StdoutDigest) {
		return fmt.Sprintf("stdout_digest served as %v, stored %v", got.StdoutDigest, stored.StdoutDigest)
	}
	if stored.StderrDigest != nil && !proto.Equal(got.StderrDigest, stored.StderrDigest) {
		return fmt.Sprintf("stderr_digest served as %v, stored %v", got.StderrDigest, stored.StderrDigest)
	}
	if len(got.OutputSymlinks) != len(stored.OutputSymlinks) {
		return fmt.Sprintf("%d output symlinks served, %d stored", len(got.OutputSymlinks), len(stored.OutputSymlinks))
	}
	return ""
}

// inlined judges what a gRPC hit carries inline (only called when a hit was
// expected, i.e. every stated digest is truthful): bytes inlined for a slot
// whose stored form is a digest must be the content of that blob. Whether the
// server inlines at all is C11's business (counted, not judged).
func (in *instance) inlined(r *lib.Run, got *pb.ActionResult, inl inlineReq) string {
	byHash := map[string][]byte{}
	for _, x := range in.refs {
		byHash[x.Hash] = x.content
	}
	check := func(cls, where string, raw, storedRaw []byte, dg *pb.Digest, asked bool) string {
		if len(storedRaw) != 0 || dg == nil || dg.SizeBytes == 0 {
			return ""
		}
		want, known := byHash[dg.Hash]
		if !known {
			return ""
		}
		a := "not-asked"
		if asked {
			a = "asked"
		}
		if len(raw) == 0 {
			r.Count("inline." + a + "." + cls + ".served-as-digest")
			return ""
		}
		r.Count("inline." + a + "." + cls + ".served-inline")
		if !bytes.Equal(raw, want) {
			return fmt.Sprintf("%s: %d bytes served inline are not the content of the referenced blob %s/%d", where, len(raw), dg.Hash[:12], dg.SizeBytes)
		}
		return ""
	}
	asked := map[string]bool{}
	for i, f := range in.ar.OutputFiles {
		asked[f.Path] = inl.files == "all" || (inl.files == "some" && i%2 == 0)
	}
	for i, f := range in.ar.OutputFiles {
		if i >= len(got.OutputFiles) {
			break
		}
		if p := check(clsFile, fmt.Sprintf("output_files[%d]", i), got.OutputFiles[i].GetContents(), f.Contents, f.Digest, asked[f.Path]); p != "" {
			return p
		}
	}
	if p := check(clsStdout, "stdout_raw", got.StdoutRaw, in.ar.StdoutRaw, in.ar.StdoutDigest, inl.stdout); p != "" {
		return p
	}
	return check(clsStderr, "stderr_raw", got.StderrRaw, in.ar.StderrRaw, in.ar.StderrDigest, inl.stderr)
}

// absentee describes a referenced blob that is not present with the stated size.
type absentee struct {
	need
	LocalSize   *int64 `json:"local_size_of_hash,omitempty"`
	BackendSize *int64 `json:"backend_size_of_hash,omitempty"`
	OverLimit   bool   `json:"backend_only_and_over_max_proxy_blob_size,omitempty"`
}

// expectation evaluates the statement on the observed state: hit iff every
// member of R is present with the stated size locally or in the backend (the
// empty blob is always present).
func (w *world) expectation(in *instance) (hit bool, missing []absentee) {
	hit, missing, _ = w.expectationAC(in)
	return hit, missing
}

// expectationAC additionally observes whether the ActionResult itself is
// still held (index snapshot, or the backend): the statement speaks about
// answers for a STORED ActionResult; once the entry itself has been evicted a
// miss is the only possible answer and nothing is judged.
func (w *world) expectationAC(in *instance) (hit bool, missing []absentee, acHeld bool) {
	ns := in.needs()
	hashes := map[string]bool{}
	for _, n := range ns {
		hashes[n.Hash] = true
	}
	s := lib.Snapshot(w.srv.Cache)
	local := map[string]int64{}
	for _, e := range s.Entries {
		if strings.HasPrefix(e.Key, "cas/") {
			if h := e.Key[4:]; hashes[h] {
				local[h] = e.Size
			}
		} else if e.Key == "ac/"+in.key {
			acHeld = true
		}
	}
	if !acHeld && w.fp != nil && w.fp.Has(cache.AC, in.key) {
		acHeld = true
	}
	for _, n := range ns {
		if n.Hash == lib.EmptySha256 && n.Stated == 0 {
			continue
		}
		if sz, ok := local[n.Hash]; ok && sz == n.Stated {
			continue
		}
		a := absentee{need: n}
		if sz, ok := local[n.Hash]; ok {
			a.LocalSize = &sz
		}
		if w.fp != nil {
			w.mu.Lock()
			sz, ok := w.backend[n.Hash]
			w.mu.Unlock()
			if ok && !w.fp.Has(cache.CAS, n.Hash) {
				ok = false
			}
			if ok && sz == n.Stated && (w.limit <= 0 || n.Stated <= w.limit) {
				continue
			}
			if ok {
				a.BackendSize = &sz
				if sz == n.Stated {
					// held by the backend with the stated size, but larger than
					// max_proxy_blob_size: this server cannot obtain it there
					a.OverLimit = true
				}
			}
		}
		missing = append(missing, a)
	}
	return len(missing) == 0, missing, acHeld
}

type caseInfo struct {
	ID       string         `json:"case"`
	Cfg      string         `json:"config"`
	Shape    string         `json:"shape"`
	Plan     string         `json:"plan"`
	Target   string         `json:"target,omitempty"`
	Upload   string         `json:"ar_uploaded_via"`
	Blobs    string         `json:"blobs_uploaded_via,omitempty"`
	Key      string         `json:"action_key"`
	Refs     []ref          `json:"referenced"`
	Placed   map[string]int `json:"-"`
	PlacedAs []string       `json:"placement,omitempty"`
	History  []string       `json:"history,omitempty"`
	culprit  string
}

func (ci *caseInfo) detail(in *instance, q string, o outcome, missing []absentee) map[string]any {
	arJSON, _ := protojson.Marshal(in.ar)
	refs := ci.Refs
	if len(refs) > 80 {
		refs = refs[:80]
	}
	return map[string]any{"case": ci.ID, "config": ci.Cfg, "shape": ci.Shape, "plan": ci.Plan, "target": ci.Target,
		"ar_uploaded_via": ci.Upload, "blobs_uploaded_via": ci.Blobs, "action_key": ci.Key, "query": q, "answer": o,
		"not_present_with_stated_size": missing, "referenced": refs, "placement": ci.PlacedAs, "history": ci.History,
		"action_result": string(arJSON)}
}

// judge runs one query and compares it with the expectation observed right
// before it. Returns the outcome kind and whether a hit was expected. inl is
// the inline request of a gRPC query (ignored by the HTTP paths).
func (w *world) judge(in *instance, ci *caseInfo, q string, jsonAccept bool, inl inlineReq) (string, bool) {
	r := w.r
	expHit, missing, acHeld := w.expectationAC(in)
	o := w.query(in, q, jsonAccept, inl)
	qn := q
	if jsonAccept && q == "http-get" {
		qn = "http-get-json"
	}
	if o.Kind == "timeout" {
		r.Inconclusive(fmt.Sprintf("transport trouble / watchdog on %s for case %s: %s", qn, ci.ID, o.Detail))
		return o.Kind, expHit
	}
	be := w.beLabel()
	if !acHeld {
		// the ActionResult itself is gone (evicted by the history): not a subject of the statement any more
		r.Count(fmt.Sprintf("query.%s.%s.ac-entry-not-held.%s", be, qn, o.Kind))
		return o.Kind, false
	}
	r.Eval()
	exp := "miss"
	if expHit {
		exp = "hit"
	}
	r.Count(fmt.Sprintf("query.%s.%s.expected-%s.%s", be, qn, exp, o.Kind))
	if q == "grpc" {
		r.Count(fmt.Sprintf("query.grpc-inline.%s.expected-%s.%s", inl, exp, o.Kind))
	}
	culprit := ci.culprit
	if !expHit && culprit == "" {
		culprit = "absent@" + missing[0].Class
		if missing[0].OverLimit {
			culprit = "over-proxy-limit@" + missing[0].Class
		}
	}
	if !expHit {
		// which culprit classes were actually put before the dependency check (required observations)
		r.Count("judged." + be + "." + culprit)
		r.Count("judged.class." + strings.TrimSuffix(culprit, ":beyond-first-20"))
		if strings.HasSuffix(culprit, ":beyond-first-20") {
			r.Count("judged.beyond-first-20." + be)
		}
	}
	switch {
	case expHit && o.Kind == "hit":
		if q != "http-head" {
			if o.ar == nil {
				r.Violation(fmt.Sprintf("C06:partial-result:%s:%s", ci.Plan, be), fmt.Sprintf("%s answered a hit but %s", qn, o.Detail), ci.detail(in, qn, o, nil))
			} else if p := partial(in.ar, o.ar); p != "" {
				r.Violation(fmt.Sprintf("C06:partial-result:%s:%s", ci.Plan, be), fmt.Sprintf("%s answered a hit with a partial result: %s", qn, p), ci.detail(in, qn, o, nil))
			} else if q == "grpc" {
				if p := in.inlined(r, o.ar, inl); p != "" {
					d := ci.detail(in, qn, o, nil)
					d["inline_request"] = inl.String()
					r.Violation(fmt.Sprintf("C06:hit-with-wrong-inlined-bytes:%s:%s", ci.Plan, be), fmt.Sprintf("%s (%s) answered a hit whose inlined bytes are not the referenced blob: %s", qn, inl, p), d)
				}
			}
		}
	case expHit && (o.Kind == "miss" || o.Kind == "error"):
		// The statement is one-directional ("a hit only if ..."): a miss or a
		// failure while everything is present does not refute it (and may have
		// environmental causes). Recorded, not judged; the run is inconclusive
		// when a query path never produced an expected hit at all.
		r.Count(fmt.Sprintf("converse.%s-with-all-present.%s.%s", o.Kind, be, qn))
		r.Sample(map[string]any{"observation": o.Kind + " while every referenced blob is present", "case": ci.ID, "plan": ci.Plan, "query": qn, "answer": o.Detail})
	case !expHit && o.Kind == "hit":
		// Ask again: an answer that does not repeat is its own class of finding
		// (a race inside the dependency check), a repeatable one names the input.
		again, hitsAgain := 0, 0
		if w.hasBackend() {
			for again < 20 {
				again++
				if w.query(in, q, jsonAccept, inl).Kind == "hit" {
					hitsAgain++
				}
			}
		}
		if again > 0 && hitsAgain == 0 {
			r.Violation("C06:hit-with-missing-blob:intermittent:backend",
				fmt.Sprintf("%s answered a hit (%s) while %d referenced blob(s) are present neither locally nor in the backend (first: %s %s, %s); the same query repeated %d times answered a miss every time",
					qn, o.Detail, len(missing), missing[0].Class, missing[0].Where, missing[0].Hash[:12], again),
				ci.detail(in, qn, o, missing))
			break
		}
		d := ci.detail(in, qn, o, missing)
		d["inline_request"] = inl.String()
		r.Violation(fmt.Sprintf("C06:hit-with-missing-blob:%s:%s", culprit, be),
			fmt.Sprintf("%s answered a hit (%s) while %d referenced blob(s) are not present with the stated size, first: %s %s (%s, stated size %d); target %q; %d of %d repetitions hit again",
				qn, o.Detail, len(missing), missing[0].Class, missing[0].Where, missing[0].Hash[:12], missing[0].Stated, ci.Target, hitsAgain, again),
			d)
	case !expHit && o.Kind == "error":
		d := ci.detail(in, qn, o, missing)
		d["inline_request"] = inl.String()
		r.Violation(fmt.Sprintf("C06:error-on-absence:%s:%s", culprit, be),
			fmt.Sprintf("%s (%s) answered with an error (%s) instead of a miss; the only thing wrong is %d referenced blob(s) not present with the stated size, first: %s %s",
				qn, inl, o.Detail, len(missing), missing[0].Class, missing[0].Where),
			d)
	}
	return o.Kind, expHit
}

// ---------------------------------------------------------------------------
// Presence plans.

type plan struct {
	name   string // all-local | none | one-missing | one-mismatch | all-backend | mixed-present | mixed-one-missing | one-mismatch-backend | random | backend-ac-* | dup-mismatch | inline+digest-same-hash
	target int    // reference index (construction order), -1 none
	label  string // position label of the target
	sh     *shape // non-nil: the plan runs on this variant of the shape (a forced duplicate reference)
}

// dupPlans: one hash referenced twice. "dup-mismatch": the two references
// state DIFFERENT sizes (one right, one wrong: the first resp. the second
// occurrence), across output files / Tree files / stdout and across the
// batches of 20. "inline+digest-same-hash": one output file carries the bytes
// inline (no reference), another refers to the same hash by digest only, and
// the blob is nowhere.
func dupPlans(sh *shape, shapeI int, rng *rand.Rand) []plan {
	var ps []plan
	for vi, variant := range []string{"file+file", "file+tree-file", "file+stdout"} {
		v, _, ok := forceDup(sh, variant, rng)
		if !ok {
			continue
		}
		probe := build(v, "probe", rand.New(rand.NewPCG(3, uint64(shapeI))), -1, nil)
		// the occurrences of the shared hash, in construction order
		count := map[string][]int{}
		for i, x := range probe.refs {
			if !x.Empty {
				count[x.Hash] = append(count[x.Hash], i)
			}
		}
		var occ []int
		for i, x := range probe.refs {
			if o := count[x.Hash]; len(o) > 1 && o[0] == i {
				// the forced pair spans two classes unless the variant is file+file
				a, b := probe.refs[o[0]].Class, probe.refs[o[len(o)-1]].Class
				if (variant == "file+file") == (a == b) {
					occ = o
					break
				}
			}
		}
		if len(occ) < 2 {
			continue
		}
		which := (shapeI + vi) % 2
		t := occ[0]
		pos := "first"
		if which == 1 {
			t, pos = occ[len(occ)-1], "second"
		}
		ps = append(ps, plan{name: "dup-mismatch", target: t, label: variant + ":" + pos + "-occurrence-misstated:" + probe.refs[t].Class, sh: v})
	}
	if v, _, ok := forceInlineDup(sh, rng); ok {
		probe := build(v, "probe", rand.New(rand.NewPCG(4, uint64(shapeI))), -1, nil)
		for i, x := range probe.refs {
			if _, isInline := probe.inline[x.Hash]; isInline && x.Class == clsFile {
				ps = append(ps, plan{name: "inline+digest-same-hash", target: i, label: "file", sh: v})
				break
			}
		}
	}
	return ps
}

// targets lists the structural positions of a shape instance at which exactly
// one blob is taken away: first / last reference, the edges of the batches of
// 20 (positions among the non-tree-blob references), and per output
// directory the tree blob, a file of the tree root and a file of a child.
func targets(in *instance, rng *rand.Rand) []plan {
	var out []plan
	seen := map[int]bool{}
	add := func(i int, label string) {
		if i < 0 || i >= len(in.refs) || in.refs[i].Empty || seen[i] {
			return
		}
		seen[i] = true
		out = append(out, plan{name: "one-missing", target: i, label: label})
	}
	byPending := map[int]int{}
	lastPending := -1
	for i, r := range in.refs {
		if r.Pending >= 0 {
			byPending[r.Pending] = i
			if !r.Empty {
				lastPending = i
			}
		}
	}
	for _, p := range []int{0, 19, 20, 21, 39, 40, 41} {
		if i, ok := byPending[p]; ok {
			add(i, fmt.Sprintf("pos%d:%s", p, in.refs[i].Class))
		}
	}
	if lastPending >= 0 {
		add(lastPending, "last:"+in.refs[lastPending].Class)
	}
	// per directory and class: one random member
	type dc struct {
		d   int
		cls string
	}
	groups := map[dc][]int{}
	var order []dc
	for i, r := range in.refs {
		if r.Empty {
			continue
		}
		k := dc{r.Dir, r.Class}
		if r.Class == clsFile {
			continue
		}
		if _, ok := groups[k]; !ok {
			order = append(order, k)
		}
		groups[k] = append(groups[k], i)
	}
	for _, k := range order {
		g := groups[k]
		add(g[rng.IntN(len(g))], k.cls)
	}
	// one random output file as well
	var files []int
	for i, r := range in.refs {
		if r.Class == clsFile && !r.Empty {
			files = append(files, i)
		}
	}
	if len(files) > 0 {
		add(files[rng.IntN(len(files))], "random:"+clsFile)
	}
	return out
}

// plansFor enumerates the presence plans for one shape in one kind of world.
func plansFor(probe *instance, backend bool, rng *rand.Rand, quick bool) []plan {
	ps := []plan{{name: "all-local", target: -1}, {name: "none", target: -1}}
	ts := targets(probe, rng)
	ps = append(ps, ts...)
	// size mismatches: at one or two random references (incl. references to the empty blob)
	if len(probe.refs) > 0 {
		n := 1
		if len(probe.refs) > 3 {
			n = 2
		}
		for k := 0; k < n; k++ {
			i := rng.IntN(len(probe.refs))
			ps = append(ps, plan{name: "one-mismatch", target: i, label: probe.refs[i].Class})
		}
		// and always once at a tree blob when there is one
		for i, r := range probe.refs {
			if r.Class == clsTreeBlob {
				ps = append(ps, plan{name: "one-mismatch", target: i, label: r.Class})
				break
			}
		}
	}
	ps = append(ps, plan{name: "random", target: -1})
	if backend {
		ps = append(ps, plan{name: "all-backend", target: -1}, plan{name: "mixed-present", target: -1})
		for _, t := range ts {
			if quick && rng.IntN(2) == 0 {
				continue
			}
			ps = append(ps, plan{name: "mixed-one-missing", target: t.target, label: t.label})
		}
		if len(probe.refs) > 0 {
			i := rng.IntN(len(probe.refs))
			ps = append(ps, plan{name: "one-mismatch-backend", target: i, label: probe.refs[i].Class})
		}
		ps = append(ps, plan{name: "backend-ac-all-present", target: -1})
		if len(ts) > 0 {
			t := ts[rng.IntN(len(ts))]
			ps = append(ps, plan{name: "backend-ac-one-missing", target: t.target, label: t.label})
		}
	}
	return ps
}

// limitPlansFor enumerates the presence plans for one shape in a world with
// max_proxy_blob_size set: at every structural position a blob held by the
// backend only that is larger than the limit (not obtainable: miss); exactly
// at the limit (hit); larger than the limit but held locally (hit).
func limitPlansFor(probe *instance, rng *rand.Rand, quick bool) []plan {
	ps := []plan{{name: "all-local", target: -1}, {name: "mixed-present", target: -1}, {name: "all-backend", target: -1}}
	ts := targets(probe, rng)
	for _, t := range ts {
		ps = append(ps, plan{name: "over-limit-backend", target: t.target, label: t.label})
	}
	for k, t := range ts {
		if !quick || k%2 == rng.IntN(2) || probe.refs[t.target].Class != clsFile {
			ps = append(ps, plan{name: "at-limit-backend", target: t.target, label: t.label})
		}
		if !quick || rng.IntN(3) == 0 {
			ps = append(ps, plan{name: "over-limit-local", target: t.target, label: t.label})
		}
	}
	if len(ts) > 0 {
		t := ts[rng.IntN(len(ts))]
		ps = append(ps, plan{name: "over-limit-both", target: t.target, label: t.label})
		t = ts[rng.IntN(len(ts))]
		ps = append(ps, plan{name: "mixed-one-missing", target: t.target, label: t.label})
	}
	return ps
}

// place decides where each distinct blob goes.
func place(in *instance, p plan, backend bool, limit int64, rng *rand.Rand) map[string]int {
	pl := map[string]int{}
	var cur ref
	present := func() int {
		if !backend {
			return plLocal
		}
		v := []int{plLocal, plLocal, plBackend, plBackend, plBoth}[rng.IntN(5)]
		if limit > 0 && cur.Size > limit && v == plBackend {
			v = plLocal // "present" for this server means obtainable: over the proxy limit only local counts
		}
		return v
	}
	for i, r := range in.refs {
		cur = r
		if r.Empty {
			continue
		}
		if _, done := pl[r.Hash]; done && i != p.target {
			continue
		}
		v := plLocal
		switch p.name {
		case "all-local", "one-missing", "one-mismatch":
			v = plLocal
		case "dup-mismatch", "inline+digest-same-hash":
			v = plLocal
			if backend {
				v = present()
			}
		case "none":
			v = plAbsent
		case "all-backend":
			v = plBackend
		case "mixed-present", "mixed-one-missing", "backend-ac-all-present", "backend-ac-one-missing":
			v = present()
		case "over-limit-backend", "at-limit-backend", "over-limit-local", "over-limit-both":
			v = present()
			if i == p.target {
				v = map[string]int{"over-limit-backend": plBackend, "at-limit-backend": plBackend, "over-limit-local": plLocal, "over-limit-both": plBoth}[p.name]
			}
		case "one-mismatch-backend":
			v = present()
			if i == p.target {
				v = []int{plBackend, plBackend, plBoth}[rng.IntN(3)]
			}
		case "random":
			switch x := rng.IntN(20); {
			case x < 2:
				v = plAbsent
			default:
				v = present()
			}
		}
		pl[r.Hash] = v
	}
	if p.target >= 0 && (p.name == "one-missing" || p.name == "mixed-one-missing" || p.name == "backend-ac-one-missing" || p.name == "inline+digest-same-hash") {
		pl[in.refs[p.target].Hash] = plAbsent
	}
	return pl
}

// ---------------------------------------------------------------------------
// Driver of the presence part.

type job struct {
	idx    int
	shape  *shape
	shapeI int
	plan   plan
	seed   uint64
	cfg    int
}

func bucket(n int) string {
	switch {
	case n == 0:
		return "0"
	case n < 19:
		return "1-18"
	case n <= 21:
		return strconv.Itoa(n)
	case n < 39:
		return "22-38"
	case n <= 41:
		return strconv.Itoa(n)
	}
	return "42-60"
}

func (w *world) runJob(j job) {
	r := w.r
	rng := rand.New(rand.NewPCG(j.seed, uint64(j.idx)*2654435761+17))
	tag := fmt.Sprintf("C06-s%d-j%d", r.Seed, j.idx)
	mis := -1
	if j.plan.name == "one-mismatch" || j.plan.name == "one-mismatch-backend" || j.plan.name == "dup-mismatch" {
		mis = j.plan.target
	}
	// plans about max_proxy_blob_size fix the size of the target blob: one
	// byte (or more) over the limit, or exactly at it
	var ov map[int]int
	wantSize := int64(-1)
	switch j.plan.name {
	case "over-limit-backend", "over-limit-local", "over-limit-both":
		wantSize = w.limit + 1
		if rng.IntN(2) == 0 {
			wantSize += rng.Int64N(w.limit/2 + 1)
		}
	case "at-limit-backend":
		wantSize = w.limit
	}
	if wantSize >= 0 {
		ov = map[int]int{j.plan.target: int(wantSize)}
	}
	in := build(j.shape, tag, rng, mis, ov)
	if err := in.selfCheck(); err != nil {
		r.Inconclusive(err.Error())
		return
	}
	if wantSize >= 0 {
		got := in.refs[j.plan.target].Size
		if j.plan.name == "at-limit-backend" && got != wantSize {
			// a Tree blob that is naturally larger than the limit cannot be shrunk to it
			r.Count(fmt.Sprintf("limit.%d.skipped.at-limit-not-reachable.%s", w.limit, in.refs[j.plan.target].Class))
			return
		}
		if j.plan.name != "at-limit-backend" && got <= w.limit {
			r.Inconclusive(fmt.Sprintf("harness: blob of %d bytes built for plan %s with limit %d in %s", got, j.plan.name, w.limit, tag))
			return
		}
	}
	pl := place(in, j.plan, w.hasBackend(), w.limit, rng)
	ci := &caseInfo{ID: tag, Cfg: w.cfg, Shape: j.shape.label, Plan: j.plan.name, Target: j.plan.label, Key: in.key, Refs: in.refs, Placed: pl}
	// finding keys name the class of the culprit: what is wrong with it, its
	// structural class, and whether it lies beyond the first 20 references
	cls := ""
	if j.plan.target >= 0 {
		t := in.refs[j.plan.target]
		cls = t.Class
		if t.Pending >= 20 {
			cls += ":beyond-first-20"
		}
	}
	switch j.plan.name {
	case "one-missing", "mixed-one-missing", "backend-ac-one-missing":
		ci.culprit = "absent@" + cls
	case "one-mismatch":
		ci.culprit = "size-mismatch@" + cls
	case "dup-mismatch":
		// the same hash is also referenced with the right size elsewhere in the result
		ci.culprit = "dup-size-mismatch@" + cls
	case "inline+digest-same-hash":
		ci.culprit = "absent-but-inlined-elsewhere@" + cls
	case "one-mismatch-backend":
		// one key for the whole family: the blob exists in the backend under
		// this hash with another size (the Tree blob is read, not probed: own key)
		ci.culprit = "size-mismatch-held-by-backend"
		if in.refs[j.plan.target].Class == clsTreeBlob {
			ci.culprit = "size-mismatch-held-by-backend@tree-blob"
		}
	case "over-limit-backend":
		// held by the backend only and larger than max_proxy_blob_size: not obtainable
		ci.culprit = "over-proxy-limit@" + cls
	case "none":
		ci.culprit = "nothing-stored"
	case "random":
		ci.culprit = "random-subset"
	}
	// store the blobs
	var local [][]byte
	seen := map[string]bool{}
	for _, x := range in.refs {
		if x.Empty || seen[x.Hash] {
			continue
		}
		seen[x.Hash] = true
		p := pl[x.Hash]
		ci.PlacedAs = append(ci.PlacedAs, fmt.Sprintf("%s %s(%d bytes): %s", x.Where, x.Hash[:12], x.Size, plName(p)))
		if p == plLocal || p == plBoth {
			local = append(local, x.content)
		}
		if p == plBackend || p == plBoth {
			w.putBackend(x.Hash, x.content)
		}
	}
	rng.Shuffle(len(local), func(a, b int) { local[a], local[b] = local[b], local[a] })
	ci.Blobs = []string{"batch", "batch", "http-put"}[rng.IntN(3)]
	if e := w.uploadLocal(local, ci.Blobs); e != "" {
		r.Inconclusive("blob upload refused in case " + tag + ": " + e)
		return
	}
	ci.Upload = uploadPaths[j.idx%len(uploadPaths)]
	if strings.HasPrefix(j.plan.name, "backend-ac") {
		ci.Upload = "backend-ac"
	}
	// the ActionResult is uploaded before or after its blobs? Both orders are legal; after is the normal one.
	if e := w.uploadAR(in, ci.Upload); e != "" {
		r.Inconclusive("ActionResult upload refused in case " + tag + ": " + e)
		return
	}
	r.Count("upload." + ci.Upload)
	// queries, in rotating order; GET alternates between protobuf and JSON answers
	rot := (j.idx / 3) % 3
	anyHit, anyMiss := false, false
	for k := 0; k < 3; k++ {
		q := queryPaths[(k+rot)%3]
		// gRPC lookups rotate through the inline-request combinations (plain, stdout/stderr, all / some / no output files)
		// (every other case: inlining reads every blob, and stores the ones only the backend holds, one fsync each)
		inl := inlineReq{}
		if j.idx%2 == 0 {
			inl = inlineVariant(1 + (j.idx/2)%12)
		}
		kind, _ := w.judge(in, ci, q, q == "http-get" && j.idx%2 == 1, inl)
		anyHit = anyHit || kind == "hit"
		anyMiss = anyMiss || kind == "miss"
		r.Distinct(w.cfg, ci.Upload, q, j.plan.name, j.plan.label, bucket(len(j.shape.files)), len(j.shape.trees), kind)
	}
	nInline := 0
	for _, f := range j.shape.files {
		if f.inline {
			nInline++
		}
	}
	r.Count("plan." + w.beLabel() + "." + j.plan.name)
	if w.limit > 0 {
		ans := "mixed"
		if anyHit && !anyMiss {
			ans = "hit"
		} else if anyMiss && !anyHit {
			ans = "miss"
		}
		lc := "-"
		if j.plan.target >= 0 {
			lc = cls
		}
		r.Count(fmt.Sprintf("limit.%d.%s.%s.%s", w.limit, j.plan.name, lc, ans))
		r.Count(fmt.Sprintf("limit.answers.%s.%s", j.plan.name, ans))
	}
	if j.plan.label != "" {
		lab := j.plan.label
		if i := strings.Index(lab, ":"); i >= 0 && !strings.HasPrefix(lab, "pos") && !strings.HasPrefix(lab, "last") {
			lab = lab[i+1:]
		}
		r.Count("target." + j.plan.name + "." + lab)
	}
	r.Count("shape.files." + bucket(len(j.shape.files)))
	if nInline > 0 && ci.Upload != "grpc" && anyHit {
		r.Count("hit.with-inline-files-whose-blobs-are-absent")
	}
	for _, t := range j.shape.trees {
		r.Count("shape.tree." + t.kind)
	}
	if j.idx < 3 {
		r.Sample(map[string]any{"case": tag, "config": w.cfg, "shape": j.shape.label, "plan": j.plan.name, "target": j.plan.label,
			"upload": ci.Upload, "references": len(in.refs), "placement": ci.PlacedAs, "any_hit": anyHit, "any_miss": anyMiss})
	}
}

type cfgSpec struct {
	storage, impl string
	backend       bool
	limit         int64 // max_proxy_blob_size
}

// The first four configurations take the general shapes; the others (backend
// with max_proxy_blob_size, zstd / uncompressed in pairs) the limit shapes.
const generalCfgs = 4

var cfgs = []cfgSpec{
	{"zstd", "go", false, 0},
	{"uncompressed", "go", false, 0},
	{"zstd", "cgo", true, 0},
	{"uncompressed", "go", true, 0},
	{"zstd", "go", true, 1000},
	{"uncompressed", "go", true, 1000},
	{"zstd", "cgo", true, 5000},
	{"uncompressed", "go", true, 5000},
	{"zstd", "go", true, 100000},
	{"uncompressed", "go", true, 100000},
}

func run(r *lib.Run) {
	r.SetRule("presence part: (ActionResult shape, presence plan) pairs, each instantiated with fresh blobs, uploaded via gRPC / HTTP protobuf / HTTP JSON (/ held by the backend only) " +
		"and queried via gRPC GetActionResult, HTTP GET and HTTP HEAD; expected answer computed from the statement on the observed state (index snapshot + backend contents). " +
		"recency part: histories on small caches: referenced blobs older than other traffic, one AC hit, pressure uploads, judged by the harness's own use-time model. " +
		"distinct = (config, AR upload path, query path, plan, target position, #files bucket, #dirs, answer) resp. (config, query path, shape, step kind, evicted class)")
	r.Assume("presence observed via the tag-guarded index snapshot (does not perturb recency) and the harness's own backend (lib.FakeProxy, write-through not stored)")
	r.Assume("Tree blobs are always parsable (unparsable ones are C14's business)")
	r.Assume("with max_proxy_blob_size set, a blob larger than the limit counts as present only if held locally (the server neither fetches it from nor looks it up in the backend)")

	t0 := time.Now()
	nShapes := r.N(28, 320)
	part := os.Getenv("VERIF_C06_PART") // development aid: "presence" | "recency" | "concurrent"
	rng := r.Rng("shapes")
	var jobs []job
	for i := 0; i < nShapes; i++ {
		sh := genShape(rng, i)
		// every stratified file count meets a world with and one without backend;
		// shapes with many files go to the uncompressed worlds (a zstd-mode upload
		// costs a 1 MiB buffer per blob, and the storage mode only matters for
		// reading the Tree blobs)
		cfg := (i + i/len(fileCounts)*2) % generalCfgs
		if i >= 2*len(fileCounts) {
			cfg = rng.IntN(generalCfgs)
		}
		if len(sh.files) > 25 && cfgs[cfg].storage == "zstd" {
			cfg = (cfg + 1) % generalCfgs
		}
		probe := build(sh, "probe", rand.New(rand.NewPCG(1, uint64(i))), -1, nil)
		for _, p := range plansFor(probe, cfgs[cfg].backend, rng, r.Quick) {
			jobs = append(jobs, job{idx: len(jobs), shape: sh, shapeI: i, plan: p, seed: rng.Uint64(), cfg: cfg})
		}
	}
	// One hash referenced twice (own PRNG stream: the case list above does not depend on it).
	drng := r.Rng("dup-plans")
	for i := 0; i < nShapes; i++ {
		var sh *shape
		cfg := 0
		for _, j := range jobs {
			if j.shapeI == i {
				sh, cfg = j.shape, j.cfg
				break
			}
		}
		if sh == nil {
			continue
		}
		for _, p := range dupPlans(sh, i, drng) {
			jobs = append(jobs, job{idx: len(jobs), shape: p.sh, shapeI: i, plan: p, seed: drng.Uint64(), cfg: cfg})
		}
	}
	nGeneral := len(jobs)
	// Shapes for the worlds with max_proxy_blob_size (own PRNG stream, so the
	// general case list does not depend on them): file counts on both sides of
	// the batch of 20, mostly with an output directory, stdout and stderr.
	nLimit := r.N(12, 96)
	lrng := r.Rng("limit-shapes")
	limitCounts := []int{3, 7, 11, 4, 8, 12, 2, 6, 10, 5, 9, 13} // indexes into fileCounts: 3, 21, 41, 7, 25, 45, 2, 20, 40, 19, 39, 60 files
	for i := 0; i < nLimit; i++ {
		sh := genShape(lrng, len(fileCounts)+limitCounts[i%len(limitCounts)])
		if len(sh.trees) == 0 && lrng.IntN(10) < 7 {
			sh.trees = append(sh.trees, genTree(lrng, []string{"both", "children-only", "root-only"}[lrng.IntN(3)], len(sh.files)))
			sh.label += "+dir"
		}
		if i%2 == 0 {
			sh.stdout, sh.stderr, sh.stdoutRaw = 1, 1, false
		}
		cfg := generalCfgs + (i+i/len(limitCounts))%(len(cfgs)-generalCfgs)
		if len(sh.files) > 25 && cfgs[cfg].storage == "zstd" {
			cfg++ // the uncompressed world with the same limit
		}
		probe := build(sh, "probe", rand.New(rand.NewPCG(2, uint64(i))), -1, nil)
		for _, p := range limitPlansFor(probe, lrng, r.Quick) {
			jobs = append(jobs, job{idx: len(jobs), shape: sh, shapeI: nShapes + i, plan: p, seed: lrng.Uint64(), cfg: cfg})
		}
	}
	r.Extra("presence_pairs", len(jobs))
	r.Extra("presence_pairs_general", nGeneral)
	r.Extra("presence_pairs_proxy_limit", len(jobs)-nGeneral)
	r.Extra("shapes", nShapes)
	r.Extra("shapes_proxy_limit", nLimit)

	// One world per configuration at a time; worlds are rotated so that index
	// snapshots stay small.
	const jobsPerWorld = 400
	const workersPerWorld = 4
	var wg sync.WaitGroup
	for c := range cfgs {
		if part != "" && part != "presence" {
			break
		}
		var mine []job
		for _, j := range jobs {
			if j.cfg == c {
				mine = append(mine, j)
			}
		}
		wg.Add(1)
		go func(c int, mine []job) {
			defer wg.Done()
			for start := 0; start < len(mine); start += jobsPerWorld {
				end := min(start+jobsPerWorld, len(mine))
				w, err := newLimitedWorld(r, cfgs[c].storage, cfgs[c].impl, cfgs[c].backend, 8<<30, "", cfgs[c].limit)
				if err != nil {
					r.Inconclusive("server start: " + err.Error())
					return
				}
				ch := make(chan job)
				var wwg sync.WaitGroup
				for k := 0; k < workersPerWorld; k++ {
					wwg.Add(1)
					go func() {
						defer wwg.Done()
						for j := range ch {
							if r.Violations() > 60 {
								continue
							}
							w.runJob(j)
						}
					}()
				}
				for _, j := range mine[start:end] {
					ch <- j
				}
				close(ch)
				wwg.Wait()
				r.Count("worlds." + w.cfg)
				w.close()
			}
		}(c, mine)
	}
	wg.Wait()
	r.Extra("wall_presence_s", time.Since(t0).Seconds())

	t1 := time.Now()
	if part == "" || part == "recency" {
		runRecency(r)
	}
	r.Extra("wall_recency_s", time.Since(t1).Seconds())
	t2 := time.Now()
	if part == "" || part == "concurrent" {
		runConcurrent(r)
	}
	r.Extra("wall_concurrent_s", time.Since(t2).Seconds())

	// A run in which a whole class of answers never occurred observed too little.
	var need []string
	for _, be := range []string{"backend", "nobackend"} {
		for _, q := range []string{"grpc", "http-get", "http-get-json", "http-head"} {
			need = append(need, fmt.Sprintf("query.%s.%s.expected-hit.hit", be, q), fmt.Sprintf("query.%s.%s.expected-miss.miss", be, q))
		}
	}
	need = append(need, "limit.answers.over-limit-backend.miss", "limit.answers.at-limit-backend.hit", "limit.answers.over-limit-local.hit")
	if part == "" {
		// Every class of culprit the statement names must have been the thing
		// wrong in at least one judged lookup (with and without a backend), every
		// inline-request combination must have met an expected hit and an
		// expected miss, and the history / ordering parts must have run.
		for _, be := range []string{"backend", "nobackend"} {
			for _, c := range []string{clsFile, clsTreeBlob, clsTreeRoot, clsTreeChild, clsStdout, clsStderr} {
				need = append(need, "judged."+be+".absent@"+c)
			}
			need = append(need, "judged."+be+".size-mismatch@"+clsFile, "judged."+be+".size-mismatch@"+clsTreeBlob,
				"judged."+be+".dup-size-mismatch@"+clsFile, "judged."+be+".nothing-stored", "judged.beyond-first-20."+be,
				"plan."+be+".inline+digest-same-hash")
		}
		for _, c := range []string{clsFile, clsTreeRoot, clsTreeChild, clsStdout, clsStderr} {
			need = append(need, "judged.class.size-mismatch@"+c)
		}
		need = append(need, "judged.class.dup-size-mismatch@"+clsStdout, "judged.class.evicted@"+clsFile,
			"judged.backend.size-mismatch-held-by-backend", "plan.backend.backend-ac-all-present", "plan.backend.backend-ac-one-missing",
			"hit.with-inline-files-whose-blobs-are-absent", "recency.refresh-decisive.more-than-20-references", "recency.hit.backend",
			"concurrent.ordered.miss-first.expected-miss.miss", "concurrent.ordered.miss-last.expected-miss.miss", "concurrent.ordered.all-present-delayed.expected-hit.hit",
			"inline.asked.file.served-inline", "inline.asked.stdout.served-inline", "inline.asked.stderr.served-inline")
		for v := 1; v <= 12; v++ {
			need = append(need, fmt.Sprintf("query.grpc-inline.%s.expected-hit.hit", inlineVariant(v)), fmt.Sprintf("query.grpc-inline.%s.expected-miss.miss", inlineVariant(v)))
		}
	}
	if r.Violations() == 0 {
		sort.Strings(need)
		for _, k := range need {
			if r.Counter(k) == 0 {
				r.Inconclusive("required observation never made: " + k)
			}
		}
	}
}

package c06

// concurrent.go: the dependency check under concurrency. With a backend the
// check runs the backend probes on worker goroutines and stops early at the
// first blob nobody has; the answer must not depend on how those goroutines
// are scheduled. ActionResults with exactly one referenced blob absent (all
// others spread over local store and backend) and ActionResults with
// everything present are queried many times from many goroutines: every
// answer to the former must be a miss, to the latter a hit.

import (
	"fmt"
	"sync"

	"verif/harness/lib"
)

func runConcurrent(r *lib.Run) {
	nAR := r.N(6, 16)
	perG := r.N(120, 400)
	const G = 16
	rng := r.Rng("concurrent")
	for _, storage := range []string{"uncompressed", "zstd"} {
		w, err := newWorld(r, storage, "go", true, 8<<30, "")
		if err != nil {
			r.Inconclusive("server start: " + err.Error())
			return
		}
		for s := 0; s < nAR/2; s++ {
			sh := genShape(rng, 5+rng.IntN(9)) // 19..60 files
			probe := build(sh, "probe", rng, -1, nil)
			ts := targets(probe, rng)
			if len(ts) == 0 {
				continue
			}
			type subject struct {
				in      *instance
				ci      *caseInfo
				expHit  bool
				missing []absentee
				counts  map[string]int
			}
			var subs []*subject
			for k, pn := range []string{"mixed-one-missing", "mixed-present"} {
				p := ts[rng.IntN(len(ts))]
				p.name = pn
				tag := fmt.Sprintf("C06-s%d-c-%s-%d-%d", r.Seed, storage, s, k)
				in := build(sh, tag, rng, -1, nil)
				pl := place(in, p, true, 0, rng)
				ci := &caseInfo{ID: tag, Cfg: w.cfg, Shape: sh.label, Plan: "concurrent-" + pn, Target: p.label, Key: in.key, Refs: in.refs, Upload: uploadPaths[(s+k)%3], Blobs: "batch"}
				var local [][]byte
				seen := map[string]bool{}
				for _, x := range in.refs {
					if x.Empty || seen[x.Hash] {
						continue
					}
					seen[x.Hash] = true
					v := pl[x.Hash]
					ci.PlacedAs = append(ci.PlacedAs, fmt.Sprintf("%s %s(%d bytes): %s", x.Where, x.Hash[:12], x.Size, plName(v)))
					if v == plLocal || v == plBoth {
						local = append(local, x.content)
					}
					if v == plBackend || v == plBoth {
						w.putBackend(x.Hash, x.content)
					}
				}
				if e := w.uploadLocal(local, "batch"); e != "" {
					r.Inconclusive("blob upload refused in " + tag + ": " + e)
					continue
				}
				if e := w.uploadAR(in, ci.Upload); e != "" {
					r.Inconclusive("ActionResult upload refused in " + tag + ": " + e)
					continue
				}
				subs = append(subs, &subject{in: in, ci: ci, counts: map[string]int{}})
			}
			if len(subs) == 0 {
				continue
			}
			for _, sub := range subs {
				sub.expHit, sub.missing = w.expectation(sub.in)
			}
			var mu sync.Mutex
			var wg sync.WaitGroup
			for g := 0; g < G; g++ {
				wg.Add(1)
				go func(g int) {
					defer wg.Done()
					for k := 0; k < perG; k++ {
						sub := subs[(g+k)%len(subs)]
						q := queryPaths[(g/2+k)%3]
						o := w.query(sub.in, q, false)
						mu.Lock()
						sub.counts[q+"."+o.Kind]++
						sub.counts[o.Kind]++
						if o.Kind != "hit" && o.Kind != "miss" {
							sub.counts["detail:"+o.Detail]++
						}
						mu.Unlock()
					}
				}(g)
			}
			wg.Wait()
			for _, sub := range subs {
				total := sub.counts["hit"] + sub.counts["miss"] + sub.counts["error"]
				if sub.counts["timeout"] > 0 {
					r.Inconclusive("watchdog in concurrent part, case " + sub.ci.ID)
				}
				r.EvalN(total)
				exp := "miss"
				if sub.expHit {
					exp = "hit"
				}
				for _, k := range []string{"hit", "miss", "error"} {
					r.CountN("concurrent.expected-"+exp+"."+k, int64(sub.counts[k]))
				}
				r.Distinct(w.cfg, "concurrent", sub.ci.Plan, sub.ci.Shape, exp)
				d := func() map[string]any {
					m := sub.ci.detail(sub.in, "16 goroutines, all three query paths", outcome{}, sub.missing)
					m["answers"] = sub.counts
					return m
				}
				switch {
				case !sub.expHit && sub.counts["hit"] == total && total > 0:
					r.Violation("C06:hit-with-missing-blob:absent@"+sub.missing[0].Class+":backend", "every one of the concurrent queries answered a hit although a referenced blob is absent", d())
				case !sub.expHit && sub.counts["hit"] > 0:
					r.Violation("C06:hit-with-missing-blob:intermittent:backend",
						fmt.Sprintf("%d of %d concurrent queries answered a hit while the referenced %s %s (%s) is present neither locally nor in the backend; all other answers were misses",
							sub.counts["hit"], total, sub.missing[0].Class, sub.missing[0].Where, sub.missing[0].Hash[:12]), d())
				case sub.expHit && sub.counts["miss"] > 0:
					r.Violation("C06:miss-with-all-present:concurrent:backend",
						fmt.Sprintf("%d of %d concurrent queries answered a miss although every referenced blob is present with the stated size", sub.counts["miss"], total), d())
				}
				if sub.counts["error"] > 0 {
					key := "C06:error-on-absence:concurrent:backend"
					if sub.expHit {
						key = "C06:error-with-all-present:concurrent:backend"
					}
					r.Violation(key, fmt.Sprintf("%d of %d concurrent queries failed with an error (expected: %s)", sub.counts["error"], total, exp), d())
				}
			}
		}
		w.close()
	}
}

package c06

// concurrent.go: the dependency check under concurrency. With a backend the
// check runs the backend probes on worker goroutines and stops early at the
// first blob nobody has; the answer must not depend on how those goroutines
// are scheduled. ActionResults with exactly one referenced blob absent (all
// others spread over local store and backend) and ActionResults with
// everything present are queried many times from many goroutines: every
// answer to the former must be a miss, to the latter a hit.
//
// The "ordered" subjects additionally fix the order in which the backend's
// answers arrive (lib.ProxyPlan.Delay on the harness's own backend, no wall
// clock in the oracle): every referenced blob is held by the backend only, so
// that all batches of 20 are in flight at once, and either the one miss
// arrives first (while the present blobs' answers are still outstanding and
// later batches are still being queued) or it arrives last (after every other
// probe finished).

import (
	"fmt"
	"math/rand/v2"
	"sync"
	"time"

	"verif/harness/lib"

	"github.com/buchgr/bazel-remote/v2/cache"
)

type subject struct {
	in      *instance
	ci      *caseInfo
	expHit  bool
	missing []absentee
	counts  map[string]int
	order   string // "" | miss-first | miss-last | all-present-delayed
}

// prepare builds one subject: instance of sh, placed according to p, blobs
// and ActionResult stored. allBackend puts every present blob into the backend only.
func (w *world) prepare(sh *shape, p plan, tag string, upload string, rng *rand.Rand, allBackend bool) *subject {
	r := w.r
	in := build(sh, tag, rng, -1, nil)
	pl := place(in, p, true, 0, rng)
	if allBackend {
		for h, v := range pl {
			if v != plAbsent {
				pl[h] = plBackend
			}
		}
	}
	ci := &caseInfo{ID: tag, Cfg: w.cfg, Shape: sh.label, Plan: "concurrent-" + p.name, Target: p.label, Key: in.key, Refs: in.refs, Upload: upload, Blobs: "batch"}
	var local [][]byte
	seen := map[string]bool{}
	for _, x := range in.refs {
		if x.Empty || seen[x.Hash] {
			continue
		}
		seen[x.Hash] = true
		v := pl[x.Hash]
		ci.PlacedAs = append(ci.PlacedAs, fmt.Sprintf("%s %s(%d bytes): %s", x.Where, x.Hash[:12], x.Size, plName(v)))
		if v == plLocal || v == plBoth {
			local = append(local, x.content)
		}
		if v == plBackend || v == plBoth {
			w.putBackend(x.Hash, x.content)
		}
	}
	if e := w.uploadLocal(local, "batch"); e != "" {
		r.Inconclusive("blob upload refused in " + tag + ": " + e)
		return nil
	}
	if e := w.uploadAR(in, ci.Upload); e != "" {
		r.Inconclusive("ActionResult upload refused in " + tag + ": " + e)
		return nil
	}
	return &subject{in: in, ci: ci, counts: map[string]int{}}
}

// hammer queries the subjects from G goroutines, perG queries each, over all
// three query paths (gRPC with rotating inline requests when inline is set).
func (w *world) hammer(subs []*subject, G, perG int, inline bool) {
	var mu sync.Mutex
	var wg sync.WaitGroup
	for g := 0; g < G; g++ {
		wg.Add(1)
		go func(g int) {
			defer wg.Done()
			for k := 0; k < perG; k++ {
				sub := subs[(g+k)%len(subs)]
				q := queryPaths[(g/2+k)%3]
				inl := inlineReq{}
				if inline {
					inl = inlineVariant((g + k) / 3)
				}
				o := w.query(sub.in, q, false, inl)
				mu.Lock()
				sub.counts[q+"."+o.Kind]++
				sub.counts[o.Kind]++
				if o.Kind != "hit" && o.Kind != "miss" {
					sub.counts["detail:"+o.Detail]++
				}
				mu.Unlock()
			}
		}(g)
	}
	wg.Wait()
}

func (w *world) evaluate(subs []*subject, howMany string) {
	r := w.r
	for _, sub := range subs {
		total := sub.counts["hit"] + sub.counts["miss"] + sub.counts["error"]
		if sub.counts["timeout"] > 0 {
			r.Inconclusive("transport trouble / watchdog in concurrent part, case " + sub.ci.ID)
		}
		r.EvalN(total)
		exp := "miss"
		if sub.expHit {
			exp = "hit"
		}
		pre := "concurrent."
		if sub.order != "" {
			pre = "concurrent.ordered." + sub.order + "."
		}
		for _, k := range []string{"hit", "miss", "error"} {
			r.CountN(pre+"expected-"+exp+"."+k, int64(sub.counts[k]))
		}
		r.Distinct(w.cfg, "concurrent", sub.ci.Plan, sub.ci.Shape, exp, sub.order)
		d := func() map[string]any {
			m := sub.ci.detail(sub.in, howMany, outcome{}, sub.missing)
			m["answers"] = sub.counts
			if sub.order != "" {
				m["backend_answer_order"] = sub.order
			}
			return m
		}
		switch {
		case !sub.expHit && sub.counts["hit"] == total && total > 0:
			r.Violation("C06:hit-with-missing-blob:absent@"+sub.missing[0].Class+":backend", "every one of the concurrent queries answered a hit although a referenced blob is absent", d())
		case !sub.expHit && sub.counts["hit"] > 0:
			r.Violation("C06:hit-with-missing-blob:intermittent:backend",
				fmt.Sprintf("%d of %d concurrent queries answered a hit while the referenced %s %s (%s) is present neither locally nor in the backend; all other answers were misses",
					sub.counts["hit"], total, sub.missing[0].Class, sub.missing[0].Where, sub.missing[0].Hash[:12]), d())
		case sub.expHit && sub.counts["miss"] > 0:
			// one-directional statement: recorded, not judged
			r.CountN("converse.miss-with-all-present.concurrent", int64(sub.counts["miss"]))
		}
		if sub.counts["error"] > 0 {
			if sub.expHit {
				r.CountN("converse.error-with-all-present.concurrent", int64(sub.counts["error"]))
			} else {
				r.Violation("C06:error-on-absence:concurrent:backend", fmt.Sprintf("%d of %d concurrent queries failed with an error (expected: %s)", sub.counts["error"], total, exp), d())
			}
		}
	}
}

func runConcurrent(r *lib.Run) {
	nAR := r.N(6, 16)
	perG := r.N(120, 400)
	const G = 16
	rng := r.Rng("concurrent")
	orng := r.Rng("concurrent-ordered")
	for _, storage := range []string{"uncompressed", "zstd"} {
		w, err := newWorld(r, storage, "go", true, 8<<30, "")
		if err != nil {
			r.Inconclusive("server start: " + err.Error())
			return
		}
		for s := 0; s < nAR/2; s++ {
			sh := genShape(rng, 5+rng.IntN(9)) // 19..60 files
			probe := build(sh, "probe", rng, -1, nil)
			ts := targets(probe, rng)
			if len(ts) == 0 {
				continue
			}
			var subs []*subject
			for k, pn := range []string{"mixed-one-missing", "mixed-present"} {
				p := ts[rng.IntN(len(ts))]
				p.name = pn
				tag := fmt.Sprintf("C06-s%d-c-%s-%d-%d", r.Seed, storage, s, k)
				if sub := w.prepare(sh, p, tag, uploadPaths[(s+k)%3], rng, false); sub != nil {
					subs = append(subs, sub)
				}
			}
			if len(subs) == 0 {
				continue
			}
			for _, sub := range subs {
				sub.expHit, sub.missing = w.expectation(sub.in)
			}
			w.hammer(subs, G, perG, true)
			w.evaluate(subs, "16 goroutines, all three query paths")
		}
		w.runOrdered(orng, storage, r.N(4, 12))
		w.close()
	}
}

// runOrdered: see the file comment. n shapes per world, three subjects each.
func (w *world) runOrdered(rng *rand.Rand, storage string, n int) {
	r := w.r
	const delay = 3 * time.Millisecond
	for s := 0; s < n; s++ {
		// 41, 45 or 60 output files without inline contents: at least three batches of 20
		sh := genShape(rng, 11+s%3)
		for i := range sh.files {
			sh.files[i].inline = false
		}
		probe := build(sh, "probe", rng, -1, nil)
		ts := targets(probe, rng)
		if len(ts) == 0 {
			continue
		}
		var subs []*subject
		for k, order := range []string{"miss-first", "miss-last", "all-present-delayed"} {
			// the absent reference: a structural position (first, around the batch edges, last, tree files, stdout/stderr)
			p := ts[(s+k*3)%len(ts)]
			p.name = "mixed-one-missing"
			if order == "all-present-delayed" {
				p.name = "mixed-present"
			}
			tag := fmt.Sprintf("C06-s%d-o-%s-%d-%s", r.Seed, storage, s, order)
			sub := w.prepare(sh, p, tag, uploadPaths[(s+k)%3], rng, true)
			if sub == nil {
				continue
			}
			sub.order = order
			sub.ci.Plan = "concurrent-ordered-" + order
			absent := ""
			if p.name == "mixed-one-missing" {
				absent = sub.in.refs[p.target].Hash
			}
			for _, x := range sub.in.refs {
				if x.Empty || x.Class == clsTreeBlob {
					continue
				}
				switch {
				case order == "miss-last" && x.Hash == absent:
					// the miss is the slowest answer: it arrives when every other probe has finished
					w.fp.SetPlan(cache.CAS, x.Hash, lib.ProxyPlan{Delay: 2 * delay})
				case order == "miss-first" && x.Hash != absent:
					// every present blob answers late: the miss arrives while they are outstanding
					w.fp.SetPlan(cache.CAS, x.Hash, lib.ProxyPlan{Delay: delay})
				case order == "all-present-delayed" && rng.IntN(3) == 0:
					w.fp.SetPlan(cache.CAS, x.Hash, lib.ProxyPlan{Delay: delay})
				}
			}
			sub.expHit, sub.missing = w.expectation(sub.in)
			subs = append(subs, sub)
			r.Count("concurrent.ordered.subject." + order + "." + sub.in.refs[p.target].Class)
		}
		if len(subs) == 0 {
			continue
		}
		// plain lookups: inlining would fetch the backend-only blobs into the local store and end the all-in-flight situation
		w.hammer(subs, 6, r.N(12, 40), false)
		w.evaluate(subs, "6 goroutines, all three query paths, scripted backend answer order")
		for _, sub := range subs {
			for _, x := range sub.in.refs {
				w.fp.ClearPlan(cache.CAS, x.Hash)
			}
		}
	}
}

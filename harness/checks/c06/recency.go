package c06

// recency.go: "a hit also counts as a use, for eviction purposes, of each of
// those blobs that is held locally". Sequential histories on small caches:
// the referenced blobs are made older than other traffic, one AC hit is
// served through one query path, then single-block uploads press out the
// least recently used entries one at a time. The harness keeps its own
// use-time model (every accepted upload and every lookup that hit is a use;
// the AC hit is one simultaneous use of all referenced blobs held locally)
// and, after every pressure upload, compares the set of entries that
// disappeared (index snapshots, which do not perturb recency) with it: a
// referenced blob must not go while an entry used earlier than the hit
// survives. The same histories provide the "evicted by earlier traffic"
// presence state for the hit/miss oracle.

import (
	"fmt"
	"math/rand/v2"
	"sort"
	"sync"

	"verif/harness/lib"
)

type rsnap struct {
	keys  map[string]int64 // lookup key -> logical size
	total int64
}

type rhist struct {
	w     *world
	max   int64
	id    string
	rng   *rand.Rand
	clock int
	ts    map[string]int    // lookup key -> time of last use (model)
	cls   map[string]string // lookup key -> what it is
	hist  []string
	n     int // content counter
}

func (h *rhist) log(f string, a ...any) {
	if len(h.hist) < 400 {
		h.hist = append(h.hist, fmt.Sprintf(f, a...))
	}
}

func (h *rhist) snap() rsnap {
	s := lib.Snapshot(h.w.srv.Cache)
	out := rsnap{keys: map[string]int64{}, total: s.CurrentSize}
	for _, e := range s.Entries {
		out.keys[e.Key] = e.Size
	}
	return out
}

// putCAS uploads one blob; an accepted upload is a use.
func (h *rhist) putCAS(content []byte, class string) (string, bool) {
	hash := lib.Sha256Hex(content)
	how := "http-put"
	if h.rng.IntN(3) == 0 {
		how = "batch"
	}
	e := h.w.uploadLocal([][]byte{content}, how)
	key := "cas/" + hash
	if e != "" {
		h.log("upload %s %s (%s, %d bytes) REFUSED: %s", class, hash[:12], how, len(content), e)
		return key, false
	}
	h.clock++
	h.ts[key] = h.clock
	h.cls[key] = class
	h.log("t=%d upload %s %s (%s, %d bytes)", h.clock, class, hash[:12], how, len(content))
	return key, true
}

func (h *rhist) fresh(class string) []byte {
	h.n++
	// incompressible, one 4 KiB block on disk in both storage modes
	return lib.GenBlob(h.rng, 500+h.rng.IntN(2500), "random", fmt.Sprintf("%s/%s%d", h.id, class, h.n))
}

func disappeared(before, after rsnap, written string) []string {
	var e []string
	for k := range before.keys {
		if _, still := after.keys[k]; !still && k != written {
			e = append(e, k)
		}
	}
	sort.Strings(e)
	return e
}

func runRecency(r *lib.Run) {
	n := r.N(72, 600)
	nBackend := min(n/8, 24)
	pool := lib.NewDirPool("c06")
	defer pool.Close()
	seeds := r.Rng("recency")
	type hjob struct {
		i    int
		seed uint64
	}
	ch := make(chan hjob)
	var wg sync.WaitGroup
	for k := 0; k < 8; k++ {
		wg.Add(1)
		go func() {
			defer wg.Done()
			for j := range ch {
				if r.Violations() > 60 {
					continue
				}
				backend := j.i%8 == 5 && j.i/8 < nBackend
				recencyHistory(r, pool, j.i, j.seed, backend)
			}
		}()
	}
	for i := 0; i < n; i++ {
		ch <- hjob{i, seeds.Uint64()}
	}
	close(ch)
	wg.Wait()
	if r.Violations() == 0 {
		if r.Counter("recency.pressure-steps.judged") == 0 || r.Counter("recency.evicted.unreferenced") == 0 {
			r.Inconclusive("recency part: no pressure step evicted anything")
		}
		for _, c := range []string{clsFile, clsTreeBlob, clsTreeRoot, clsTreeChild, clsStdout, clsStderr} {
			if r.Counter("recency.refresh-decisive."+c) == 0 {
				r.Inconclusive("recency part: the refresh of class " + c + " never decided an eviction")
			}
		}
	}
}

func recencyHistory(r *lib.Run, pool *lib.DirPool, i int, seed uint64, backend bool) {
	rng := rand.New(rand.NewPCG(seed, uint64(i)+99))
	id := fmt.Sprintf("C06-s%d-h%d", r.Seed, i)
	sh := genRecencyShape(rng, i)
	in := build(sh, id, rng, -1, nil)
	if err := in.selfCheck(); err != nil {
		r.Inconclusive(err.Error())
		return
	}
	// mostly uncompressed: a zstd-mode upload costs a 1 MiB buffer per blob and the storage mode is immaterial here
	storage := []string{"zstd", "uncompressed", "uncompressed"}[rng.IntN(3)]
	impl := "go"
	if storage == "zstd" && rng.IntN(2) == 0 {
		impl = "cgo"
	}
	mode := "refresh"
	if i%4 == 3 {
		mode = "evicted"
	}

	// distinct referenced blobs; with a backend some output files are held by the backend only
	type item struct {
		ref     ref
		backend bool
	}
	var items []item
	seen := map[string]bool{}
	for _, x := range in.refs {
		if x.Empty || seen[x.Hash] {
			continue
		}
		seen[x.Hash] = true
		items = append(items, item{ref: x, backend: backend && x.Class == clsFile && rng.IntN(3) == 0})
	}
	nLocal := 0
	for _, it := range items {
		if !it.backend {
			nLocal++
		}
	}
	nOld := rng.IntN(3)
	nYoung := 2 + rng.IntN(4)
	arBlocks := 1 + (len(in.refs)*110)/4096
	max := int64(nOld+nLocal+nYoung+arBlocks+rng.IntN(3)) * lib.Block

	dir := pool.Get()
	w, err := newWorld(r, storage, impl, backend, max, dir)
	if err != nil {
		r.Inconclusive("server start: " + err.Error())
		pool.Put(dir)
		return
	}
	defer func() {
		w.close()
		pool.Put(dir)
	}()
	h := &rhist{w: w, max: max, id: id, rng: rng, ts: map[string]int{}, cls: map[string]string{}}
	q := queryPaths[(i/4)%3]
	jsonAccept := i%2 == 1
	ci := &caseInfo{ID: id, Cfg: w.cfg, Shape: sh.label, Plan: "recency-" + mode, Key: in.key, Refs: in.refs, Upload: uploadPaths[i%3]}
	detail := func(extra map[string]any) map[string]any {
		d := map[string]any{"case": id, "config": w.cfg, "max_size": max, "shape": sh.label, "mode": mode, "hit_served_via": q,
			"ar_uploaded_via": ci.Upload, "action_key": in.key, "history": append([]string(nil), h.hist...), "referenced": in.refs}
		for k, v := range extra {
			d[k] = v
		}
		return d
	}

	// 1. unreferenced entries older than everything
	var oldKeys []string
	for k := 0; k < nOld; k++ {
		key, ok := h.putCAS(h.fresh("old"), "unreferenced-old")
		if ok {
			oldKeys = append(oldKeys, key)
		}
	}
	// 2. the referenced blobs and the ActionResult, in random order
	order := rng.Perm(len(items) + 1)
	for _, oi := range order {
		if oi == len(items) {
			if e := w.uploadAR(in, ci.Upload); e != "" {
				r.Inconclusive("ActionResult upload refused in " + id + ": " + e)
				return
			}
			h.clock++
			h.ts["ac/"+in.key] = h.clock
			h.cls["ac/"+in.key] = "ac"
			h.log("t=%d upload ActionResult %s via %s", h.clock, in.key[:12], ci.Upload)
			continue
		}
		it := items[oi]
		if it.backend {
			w.putBackend(it.ref.Hash, it.ref.content)
			h.log("backend-only %s %s", it.ref.Class, it.ref.Hash[:12])
			continue
		}
		if _, ok := h.putCAS(it.ref.content, it.ref.Class); !ok {
			r.Inconclusive("blob upload refused in " + id + ": " + h.hist[len(h.hist)-1] + fmt.Sprintf(" (max_size %d, %s)", max, w.cfg))
			return
		}
	}
	// 3. other traffic, younger than the referenced blobs
	for k := 0; k < nYoung; k++ {
		h.putCAS(h.fresh("young"), "unreferenced")
	}
	// fill up without evicting
	for k := 0; k < 64; k++ {
		s := h.snap()
		if s.total+2*lib.Block > max {
			break
		}
		h.putCAS(h.fresh("filler"), "unreferenced")
	}
	// a lookup of an old entry is a use as well
	if len(oldKeys) > 0 && rng.IntN(3) == 0 {
		k := oldKeys[rng.IntN(len(oldKeys))]
		if _, present := h.snap().keys[k]; present {
			res := w.srv.HTTPGet("/"+k, nil)
			if res.Status == 200 {
				h.clock++
				h.ts[k] = h.clock
				h.log("t=%d GET /%s (use)", h.clock, k[:16])
			}
		}
	}

	pressure := func(tag string) (evicted []string, written string, ok bool) {
		before := h.snap()
		written, ok = h.putCAS(h.fresh("pressure"), "pressure")
		after := h.snap()
		evicted = disappeared(before, after, written)
		for _, k := range evicted {
			h.log("  %s: evicted %s %s (last use t=%d)", tag, h.cls[k], k[:16], h.ts[k])
		}
		return evicted, written, ok
	}

	if mode == "evicted" {
		// press until a referenced blob has been evicted, then every query path must answer a miss
		var gone string
		for k := 0; k < 200 && gone == ""; k++ {
			ev, _, ok := pressure("pre-query pressure")
			if !ok {
				break
			}
			for _, x := range ev {
				if c := h.cls[x]; c != "unreferenced" && c != "unreferenced-old" && c != "pressure" && c != "ac" {
					gone = c
				}
			}
		}
		if gone == "" {
			r.Count("recency.evicted-mode.nothing-referenced-evicted")
		} else {
			ci.culprit = "evicted@" + gone
			r.Count("evicted-state." + gone)
		}
		ci.History = h.hist
		for k := 0; k < 3; k++ {
			qq := queryPaths[(k+i)%3]
			kind, _ := w.judge(in, ci, qq, jsonAccept, inlineVariant(i/4+k))
			r.Distinct(w.cfg, "recency", qq, sh.label, "evicted:"+gone, kind)
		}
		return
	}

	// 4. the hit
	pre := h.snap()
	hitSet := map[string]bool{} // referenced blobs held locally (with the stated size) when the hit is served
	preTS := map[string]int{}
	for _, it := range items {
		k := "cas/" + it.ref.Hash
		if sz, ok := pre.keys[k]; ok && sz == it.ref.Stated {
			hitSet[k] = true
			preTS[k] = h.ts[k]
		}
	}
	ci.History = h.hist
	// (a plain lookup: inlining on request reads, and for backend-only files stores, blobs during the hit)
	kind, expHit := w.judge(in, ci, q, jsonAccept, inlineReq{})
	h.log("t=%d AC lookup via %s -> %s", h.clock+1, q, kind)
	if kind != "hit" || !expHit {
		// an earlier upload already evicted something referenced (or the answer was wrong and has been reported)
		r.Count("recency.no-hit." + kind)
		return
	}
	post := h.snap()
	if ev := disappeared(pre, post, ""); len(ev) > 0 {
		// A hit may legally store (de-inlining, a backend fetch) and thereby
		// evict: not forbidden by the statement. The use-time model does not
		// cover it, so the history ends here as an observation.
		r.Count("recency.lookup-evicted-entries." + w.beLabel())
		return
	}
	h.clock++
	tHit := h.clock
	for k := range hitSet {
		h.ts[k] = tHit
	}
	r.Count("recency.hit." + w.beLabel() + "." + q)
	r.Count("recency.hit." + w.beLabel())

	// 5. pressure: one block at a time; never more evictions than there are unreferenced entries older than the hit
	older := 0
	for k := range post.keys {
		if c := h.cls[k]; (c == "unreferenced" || c == "unreferenced-old") && h.ts[k] < tHit {
			older++
		}
	}
	if older == 0 {
		r.Count("recency.no-older-unreferenced")
		return
	}
	stillOld := 0
	for _, k := range oldKeys {
		if _, ok := post.keys[k]; ok {
			stillOld++
		}
	}
	target := older
	if older > stillOld+1 {
		target = stillOld + 1 + rng.IntN(older-stillOld)
	}
	total := 0
	maxEvictedTS := 0
	bad := false
	for step := 0; step < 3*older+3 && total < target; step++ {
		before := h.snap()
		ev, written, ok := pressure(fmt.Sprintf("pressure %d", step))
		if !ok {
			break
		}
		after := h.snap()
		r.Eval()
		r.Count("recency.pressure-steps.judged")
		total += len(ev)
		for _, x := range ev {
			if !hitSet[x] {
				if h.cls[x] == "ac" {
					r.Count("recency.evicted.ac")
					continue
				}
				r.Count("recency.evicted.unreferenced")
				if h.ts[x] > maxEvictedTS {
					maxEvictedTS = h.ts[x]
				}
				continue
			}
			// a referenced blob went: is there a survivor that was used before the hit?
			var olderSurvivors []string
			for y := range after.keys {
				if y == written || h.cls[y] == "ac" || hitSet[y] {
					continue
				}
				if t, known := h.ts[y]; known && t < h.ts[x] {
					olderSurvivors = append(olderSurvivors, fmt.Sprintf("%s %s (last use t=%d)", h.cls[y], y[:16], t))
				}
			}
			if len(olderSurvivors) > 0 {
				sort.Strings(olderSurvivors)
				bad = true
				r.Violation(fmt.Sprintf("C06:recency:%s-not-refreshed-by-hit:%s:%s", h.cls[x], q, w.beLabel()),
					fmt.Sprintf("after an AC hit served via %s (t=%d) the referenced %s blob %s (held locally, previous use t=%d) was evicted while %d entr(y/ies) last used before the hit survive, e.g. %s",
						q, tHit, h.cls[x], x[:16], preTS[x], len(olderSurvivors), olderSurvivors[0]),
					detail(map[string]any{"evicted": ev, "older_survivors": olderSurvivors, "t_hit": tHit, "accounted_before": before.total, "accounted_after": after.total}))
			} else {
				r.Count("recency.evicted.referenced-after-all-older-gone")
			}
		}
		r.Distinct(w.cfg, "recency", q, sh.label, "pressure", len(ev))
	}
	if bad {
		return
	}
	// evidence: for which classes the refresh decided the outcome (the blob was older than something that went, and survived)
	final := h.snap()
	decided := map[string]bool{}
	for k := range hitSet {
		if _, ok := final.keys[k]; ok && preTS[k] < maxEvictedTS {
			decided[h.cls[k]] = true
		}
	}
	for c := range decided {
		r.Count("recency.refresh-decisive." + c)
	}
	if len(in.refs) > 20 && len(decided) > 0 {
		r.Count("recency.refresh-decisive.more-than-20-references")
	}
	// 6. everything referenced survived: another path must still answer a hit
	ci.History = h.hist
	q2 := queryPaths[(i/4+1)%3]
	k2, _ := w.judge(in, ci, q2, !jsonAccept, inlineVariant(i/4))
	r.Distinct(w.cfg, "recency", q2, sh.label, "after-pressure", k2)
	if i < 2 {
		r.Sample(map[string]any{"case": id, "config": w.cfg, "max_size": max, "shape": sh.label, "hit_via": q, "history": h.hist})
	}
}

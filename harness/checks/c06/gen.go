// Package c06 is the runtime-monitoring check for property C06: an
// action-cache hit implies every referenced CAS blob is present (with the
// stated size, locally or in the backend); a miss is a plain miss; a hit
// counts as a use of each referenced blob that is held locally.
//
// gen.go: ActionResult shapes, their instantiation with fresh blobs, and the
// referenced-set enumeration R(AR) written from the statement.
package c06

import (
	"fmt"
	"math/rand/v2"
	"strings"

	"verif/harness/lib"

	pb "github.com/buchgr/bazel-remote/v2/genproto/build/bazel/remote/execution/v2"

	"google.golang.org/protobuf/proto"
)

// Classes of referenced blobs (structural positions named in the statement).
const (
	clsFile      = "file"
	clsTreeBlob  = "tree-blob"
	clsTreeRoot  = "tree-root-file"
	clsTreeChild = "tree-child-file"
	clsStdout    = "stdout"
	clsStderr    = "stderr"
)

// ---------------------------------------------------------------------------
// Shapes: the structure of an ActionResult without concrete contents. The
// same shape is instantiated once per presence plan with fresh (unique)
// blobs, because a blob once stored cannot be taken away again.

type fileSpec struct {
	size   int
	inline bool // contents carried inline: NOT part of R
	empty  bool // digest of the empty blob
	dupOf  int  // >=0: same content as that earlier output file
}

type treeFileSpec struct {
	size     int
	noDigest bool // FileNode without digest: NOT part of R
	empty    bool
	dupFile  int // >=0: same content as that output file
}

type dirSpec struct {
	files   []treeFileSpec
	subdirs []int // indexes into treeSpec.children
	depth   int
}

type treeSpec struct {
	kind     string // root-only | children-only | both | nil-root | nil-root-empty | empty-root | root-nodigest-only
	nilRoot  bool
	root     dirSpec
	children []dirSpec
}

type shape struct {
	files     []fileSpec
	trees     []treeSpec
	stdout    int // 0 absent, 1 digest, 2 empty-blob digest
	stderr    int
	stdoutRaw bool // stdout_raw without digest (nothing referenced)
	stdRawToo bool // stdout_raw / stderr_raw carried IN ADDITION to their digests (the digests are still references)
	symlinks  int
	smallStd  bool // stdout/stderr blobs below one block (recency histories on tiny caches)
	stdoutDup int  // k > 0: stdout has the same content as output file k-1 (one hash referenced from two classes)
	label     string
}

// clone copies a shape deeply enough for forceDup / forceInlineDup to edit it.
func (sh *shape) clone() *shape {
	c := *sh
	c.files = append([]fileSpec(nil), sh.files...)
	c.trees = make([]treeSpec, len(sh.trees))
	for i, t := range sh.trees {
		ct := t
		ct.root.files = append([]treeFileSpec(nil), t.root.files...)
		ct.root.subdirs = append([]int(nil), t.root.subdirs...)
		ct.children = make([]dirSpec, len(t.children))
		for k, d := range t.children {
			cd := d
			cd.files = append([]treeFileSpec(nil), d.files...)
			cd.subdirs = append([]int(nil), d.subdirs...)
			ct.children[k] = cd
		}
		c.trees[i] = ct
	}
	return &c
}

// forceDup returns a copy of the shape in which one blob is referenced twice:
// by two output files (the first and the last plain one, i.e. across the
// batches of 20 when there are enough files), by an output file and a Tree
// file, or by an output file and stdout. ok = false when the shape has no
// room for the variant. file is the index of the output file whose content is shared.
func forceDup(sh *shape, variant string, rng *rand.Rand) (out *shape, file int, ok bool) {
	c := sh.clone()
	var plain []int
	for i, f := range c.files {
		if !f.inline && !f.empty && f.dupOf < 0 {
			plain = append(plain, i)
		}
	}
	if len(plain) == 0 {
		return nil, 0, false
	}
	switch variant {
	case "file+file":
		if len(plain) < 2 {
			return nil, 0, false
		}
		i, j := plain[0], plain[len(plain)-1]
		if rng.IntN(3) == 0 {
			a, b := rng.IntN(len(plain)), rng.IntN(len(plain))
			if a > b {
				a, b = b, a
			}
			if a != b {
				i, j = plain[a], plain[b]
			}
		}
		c.files[j].dupOf = i
		c.label += " dup=file+file"
		return c, i, true
	case "file+tree-file":
		i := plain[rng.IntN(len(plain))]
		for ti := range c.trees {
			t := &c.trees[ti]
			// a child file when there is one (the traversal of children is the longer path), else a root file
			for ci := range t.children {
				for k := range t.children[ci].files {
					if f := &t.children[ci].files[k]; !f.noDigest && !f.empty {
						f.dupFile = i
						c.label += " dup=file+tree-child-file"
						return c, i, true
					}
				}
			}
			for k := range t.root.files {
				if f := &t.root.files[k]; !t.nilRoot && !f.noDigest && !f.empty {
					f.dupFile = i
					c.label += " dup=file+tree-root-file"
					return c, i, true
				}
			}
		}
		return nil, 0, false
	case "file+stdout":
		i := plain[rng.IntN(len(plain))]
		c.stdout, c.stdoutDup, c.stdoutRaw, c.stdRawToo = 1, i+1, false, false
		c.label += " dup=file+stdout"
		return c, i, true
	}
	return nil, 0, false
}

// forceInlineDup returns a copy of the shape in which one output file carries
// its contents inline (not a reference) and a later output file refers to the
// same content by digest only (a reference).
func forceInlineDup(sh *shape, rng *rand.Rand) (out *shape, file int, ok bool) {
	if len(sh.files) < 2 {
		return nil, 0, false
	}
	c := sh.clone()
	i := rng.IntN(len(c.files) - 1)
	j := i + 1 + rng.IntN(len(c.files)-i-1)
	c.files[i] = fileSpec{size: 9 + rng.IntN(120), inline: true, dupOf: -1}
	c.files[j] = fileSpec{size: c.files[i].size, dupOf: i}
	for k := range c.files {
		if k != j && c.files[k].dupOf == i {
			c.files[k].dupOf = -1
		}
	}
	c.label += " inline+digest-same-hash"
	return c, j, true
}

// >= 9 bytes: lib.GenBlob derives tiny blobs from a hash of the unique stamp, so
// contents of different cases cannot coincide.
var smallSizes = []int{9, 17, 33, 64, 100, 300, 700, 1000}

func pickSize(rng *rand.Rand) int {
	switch rng.IntN(40) {
	case 0:
		return 4097
	case 1:
		return 70000
	}
	return smallSizes[rng.IntN(len(smallSizes))]
}

var fileCounts = []int{0, 1, 2, 3, 7, 19, 20, 21, 25, 39, 40, 41, 45, 60}

func genTreeFiles(rng *rand.Rand, n int, nFiles int, noDigestP float64) []treeFileSpec {
	out := make([]treeFileSpec, 0, n)
	for i := 0; i < n; i++ {
		f := treeFileSpec{size: pickSize(rng), dupFile: -1}
		switch {
		case rng.Float64() < noDigestP:
			f.noDigest = true
		case rng.IntN(12) == 0:
			f.empty = true
		case nFiles > 0 && rng.IntN(15) == 0:
			f.dupFile = rng.IntN(nFiles)
		}
		out = append(out, f)
	}
	return out
}

var treeKinds = []string{"root-only", "children-only", "both", "both", "nil-root", "nil-root-empty", "empty-root", "root-nodigest-only"}

func genTree(rng *rand.Rand, kind string, nFiles int) treeSpec {
	t := treeSpec{kind: kind}
	withChildren := false
	switch kind {
	case "root-only":
		t.root.files = genTreeFiles(rng, 1+rng.IntN(4), nFiles, 0.2)
		ensureDigest(t.root.files)
	case "children-only":
		withChildren = true
	case "root-nodigest-only":
		// root lists files, none of which carries a digest; the files with digests live in children
		t.root.files = genTreeFiles(rng, 1+rng.IntN(2), nFiles, 1.0)
		withChildren = true
	case "both":
		t.root.files = genTreeFiles(rng, 1+rng.IntN(3), nFiles, 0.2)
		ensureDigest(t.root.files)
		withChildren = true
	case "nil-root":
		t.nilRoot = true
		withChildren = true
	case "nil-root-empty":
		t.nilRoot = true // Tree{} : the tree blob is the empty blob
	case "empty-root":
		// a root without files or sub-directories: a non-empty tree blob referring to nothing
	}
	if withChildren {
		// depth <= 3: root -> level 1 -> level 2 -> level 3
		var add func(parent *dirSpec, depth int)
		add = func(parent *dirSpec, depth int) {
			n := 1 + rng.IntN(2)
			if depth > 1 {
				n = rng.IntN(3)
			}
			for i := 0; i < n; i++ {
				idx := len(t.children)
				t.children = append(t.children, dirSpec{depth: depth, files: genTreeFiles(rng, rng.IntN(4), nFiles, 0.2)})
				parent.subdirs = append(parent.subdirs, idx)
				if depth < 3 && rng.IntN(2) == 0 {
					d := t.children[idx]
					add(&d, depth+1)
					t.children[idx] = d
				}
			}
		}
		add(&t.root, 1)
		// at least one child file that carries a digest and a real blob
		ok := false
		for _, c := range t.children {
			for _, f := range c.files {
				if !f.noDigest && !f.empty {
					ok = true
				}
			}
		}
		if !ok {
			last := &t.children[len(t.children)-1]
			last.files = append(last.files, treeFileSpec{size: pickSize(rng), dupFile: -1})
		}
	}
	return t
}

func ensureDigest(fs []treeFileSpec) {
	for _, f := range fs {
		if !f.noDigest && !f.empty {
			return
		}
	}
	fs[0].noDigest, fs[0].empty, fs[0].dupFile = false, false, -1
}

// genShape draws the i-th shape: the first passes are stratified over the
// file counts around the internal batch of 20, later ones random.
func genShape(rng *rand.Rand, i int) *shape {
	sh := &shape{}
	n := fileCounts[i%len(fileCounts)]
	if i >= 2*len(fileCounts) && rng.IntN(2) == 0 {
		n = rng.IntN(61)
	}
	inlineMode := []string{"none", "none", "some", "some", "all", "one"}[rng.IntN(6)]
	one := -1
	if n > 0 {
		one = rng.IntN(n)
	}
	for k := 0; k < n; k++ {
		f := fileSpec{size: pickSize(rng), dupOf: -1}
		switch inlineMode {
		case "some":
			f.inline = rng.IntN(3) == 0
		case "all":
			f.inline = true
		case "one":
			f.inline = k == one
		}
		if f.inline {
			f.size = 9 + rng.IntN(120)
		} else if rng.IntN(25) == 0 {
			f.empty = true
		} else if k > 0 && rng.IntN(25) == 0 {
			f.dupOf = rng.IntN(k)
		}
		sh.files = append(sh.files, f)
	}
	nd := []int{0, 0, 1, 1, 1, 2, 2, 3}[rng.IntN(8)]
	if i%len(fileCounts) == 0 && i < len(fileCounts) {
		nd = 0 // one shape with nothing at all
	}
	for d := 0; d < nd; d++ {
		// cycle through the kinds so that every kind shows up early
		kind := treeKinds[(i+d*3+rng.IntN(2))%len(treeKinds)]
		sh.trees = append(sh.trees, genTree(rng, kind, n))
	}
	sh.stdout = []int{0, 1, 1, 2}[rng.IntN(4)]
	sh.stderr = []int{0, 1, 1, 2}[rng.IntN(4)]
	if i == 0 {
		sh.stdout, sh.stderr = 0, 0
	}
	if sh.stdout == 0 && rng.IntN(4) == 0 {
		sh.stdoutRaw = true
	}
	if (sh.stdout == 1 || sh.stderr == 1) && rng.IntN(3) == 0 {
		sh.stdRawToo = true
	}
	sh.symlinks = rng.IntN(3)
	sh.label = fmt.Sprintf("files=%d/%s dirs=%d", n, inlineMode, nd)
	return sh
}

// genRecencyShape draws a shape for the recency part: no inline contents
// (de-inlining on read would store blobs during the hit), files crossing the
// batch of 20 in some histories, trees with files in root and children.
func genRecencyShape(rng *rand.Rand, i int) *shape {
	sh := &shape{}
	n := []int{1, 2, 3, 5, 19, 20, 21, 23}[i%8]
	for k := 0; k < n; k++ {
		sh.files = append(sh.files, fileSpec{size: 9 + rng.IntN(2500), dupOf: -1})
	}
	nd := []int{0, 1, 1, 2}[rng.IntN(4)]
	for d := 0; d < nd; d++ {
		kind := []string{"root-only", "children-only", "both", "both", "nil-root"}[rng.IntN(5)]
		t := genTree(rng, kind, 0)
		sh.trees = append(sh.trees, t)
	}
	for ti := range sh.trees {
		t := &sh.trees[ti]
		fix := func(fs []treeFileSpec) {
			for k := range fs {
				fs[k].size = 9 + rng.IntN(2500)
			}
		}
		fix(t.root.files)
		for c := range t.children {
			fix(t.children[c].files)
		}
	}
	sh.stdout = []int{0, 1, 1}[rng.IntN(3)]
	sh.stderr = []int{0, 1, 1}[rng.IntN(3)]
	sh.smallStd = true
	sh.label = fmt.Sprintf("files=%d dirs=%d", n, nd)
	return sh
}

// ---------------------------------------------------------------------------
// Instances.

// ref is one reference to a CAS blob made by the ActionResult (or by one of
// its Trees), in the harness's own construction order.
type ref struct {
	Class   string `json:"class"`
	Where   string `json:"where"`
	Dir     int    `json:"dir"`
	content []byte
	Hash    string `json:"hash"`        // real hash of the content
	Size    int64  `json:"actual_size"` // real size of the content
	Stated  int64  `json:"stated_size"` // size the ActionResult / Tree states
	Empty   bool   `json:"empty_blob,omitempty"`
	Pending int    `json:"-"` // index among the non-tree-blob references (-1 for tree blobs)
}

func (x ref) stated() *pb.Digest { return &pb.Digest{Hash: x.Hash, SizeBytes: x.Stated} }

type instance struct {
	tag       string
	key       string // action digest hash
	keySize   int64
	ar        *pb.ActionResult
	trees     []*pb.Tree
	treeBlobs [][]byte
	refs      []ref
	inline    map[string][]byte // hash -> inline contents (not referenced)
}

func mismatchedSize(rng *rand.Rand, size int64) int64 {
	switch rng.IntN(4) {
	case 0:
		if size > 1 {
			return size - 1
		}
		return size + 1
	case 1:
		if size > 0 {
			return 0
		}
		return 5
	case 2:
		return size*2 + 3
	}
	return size + 1
}

// build instantiates the shape with fresh contents. mis >= 0 makes the
// reference with that index (construction order) state another size than the
// blob really has. ov (may be nil) fixes the exact size of the blob behind a
// reference index: fresh content of that size for files / tree files /
// stdout / stderr; a Tree blob is padded (name of its marker node) up to the
// size, which must not be below its natural size - the caller verifies the
// size actually reached.
func build(sh *shape, tag string, rng *rand.Rand, mis int, ov map[int]int) *instance {
	in := &instance{tag: tag, key: lib.RandHash(rng), keySize: int64(1 + rng.IntN(500)), inline: map[string][]byte{}}
	pending := 0
	mk := func(class, where string, dir int, content []byte) int {
		r := ref{Class: class, Where: where, Dir: dir, content: content, Hash: lib.Sha256Hex(content), Size: int64(len(content)), Empty: len(content) == 0, Pending: -1}
		r.Stated = r.Size
		if class != clsTreeBlob {
			r.Pending = pending
			pending++
		}
		in.refs = append(in.refs, r)
		return len(in.refs) - 1
	}
	blob := func(size int, empty bool, where string) []byte {
		if want, ok := ov[len(in.refs)]; ok {
			// the reference about to be created gets a blob of exactly this size
			return lib.GenBlob(rng, want, "random", tag+"/"+where)
		}
		if empty {
			return []byte{}
		}
		return lib.GenBlob(rng, size, lib.Pick(rng, lib.ContentKinds), tag+"/"+where)
	}
	overridden := func() bool { _, ok := ov[len(in.refs)]; return ok }
	applyMis := func(i int) {
		if i == mis {
			in.refs[i].Stated = mismatchedSize(rng, in.refs[i].Size)
		}
	}

	ar := &pb.ActionResult{ExitCode: int32(rng.IntN(3)), ExecutionMetadata: &pb.ExecutedActionMetadata{Worker: tag}}
	fileContents := make([][]byte, len(sh.files))
	for i, f := range sh.files {
		where := fmt.Sprintf("output_files[%d]", i)
		var content []byte
		if f.dupOf >= 0 && (f.inline || !overridden()) {
			content = fileContents[f.dupOf]
		} else if f.inline {
			content = lib.GenBlob(rng, f.size, lib.Pick(rng, lib.ContentKinds), tag+"/"+where)
		} else {
			content = blob(f.size, f.empty, where)
		}
		fileContents[i] = content
		of := &pb.OutputFile{Path: fmt.Sprintf("out/f%d", i), IsExecutable: rng.IntN(4) == 0}
		if f.inline {
			of.Contents = content
			of.Digest = lib.DigestOf(content)
			in.inline[of.Digest.Hash] = content
		} else {
			ri := mk(clsFile, where, -1, content)
			applyMis(ri)
			of.Digest = in.refs[ri].stated()
		}
		ar.OutputFiles = append(ar.OutputFiles, of)
	}

	for d, t := range sh.trees {
		ti := mk(clsTreeBlob, fmt.Sprintf("output_directories[%d].tree_digest", d), d, nil)
		mkDir := func(spec dirSpec, class, where string, childDigests []*pb.Digest) *pb.Directory {
			dir := &pb.Directory{}
			for k, f := range spec.files {
				fn := &pb.FileNode{Name: fmt.Sprintf("f%d", k), IsExecutable: rng.IntN(5) == 0}
				if !f.noDigest {
					w := fmt.Sprintf("%s.files[%d]", where, k)
					var content []byte
					if f.dupFile >= 0 && f.dupFile < len(fileContents) && !overridden() {
						content = fileContents[f.dupFile]
					} else {
						content = blob(f.size, f.empty, w)
					}
					ri := mk(class, w, d, content)
					applyMis(ri)
					fn.Digest = in.refs[ri].stated()
				}
				dir.Files = append(dir.Files, fn)
			}
			for k, ci := range spec.subdirs {
				dir.Directories = append(dir.Directories, &pb.DirectoryNode{Name: fmt.Sprintf("d%d", k), Digest: childDigests[ci]})
			}
			return dir
		}
		tree := &pb.Tree{}
		// R order: root files first, then children files (the construction
		// order of references only matters for naming positions).
		childDigests := make([]*pb.Digest, len(t.children))
		for ci := range childDigests {
			childDigests[ci] = &pb.Digest{Hash: lib.EmptySha256} // placeholder, fixed below
		}
		var rootDir *pb.Directory
		if !t.nilRoot {
			rootDir = mkDir(t.root, clsTreeRoot, fmt.Sprintf("tree[%d].root", d), childDigests)
		}
		children := make([]*pb.Directory, len(t.children))
		for ci, c := range t.children {
			children[ci] = mkDir(c, clsTreeChild, fmt.Sprintf("tree[%d].children[%d]", d, ci), childDigests)
		}
		// Every Tree blob is unique to its case (a constant one, such as
		// Tree{Root: {}}, would be shared by cases running side by side): a
		// symlink node named after the case, in the root or the first child.
		mark := &pb.SymlinkNode{Name: "case-" + tag, Target: "f0"}
		if rootDir != nil {
			rootDir.Symlinks = append(rootDir.Symlinks, mark)
		} else if len(children) > 0 {
			children[0].Symlinks = append(children[0].Symlinks, mark)
		}
		tree.Root = rootDir
		tree.Children = children
		finish := func() []byte {
			// honest digests of the child Directory messages, deepest first
			// (children are appended parent-before-child, so walk backwards)
			for ci := len(children) - 1; ci >= 0; ci-- {
				b, _ := proto.Marshal(children[ci])
				dg := lib.DigestOf(b)
				childDigests[ci].Hash, childDigests[ci].SizeBytes = dg.Hash, dg.SizeBytes
			}
			b, err := proto.Marshal(tree)
			if err != nil {
				panic(err)
			}
			return b
		}
		tb := finish()
		if want, ok := ov[ti]; ok && (rootDir != nil || len(children) > 0) {
			// pad the marker's name until the Tree blob has exactly the wanted
			// size (length prefixes may grow by a byte: iterate)
			base := mark.Name
			pad := 0
			for it := 0; it < 8 && len(tb) != want; it++ {
				pad += want - len(tb)
				if pad < 0 {
					pad = 0
					mark.Name = base
					tb = finish()
					break
				}
				mark.Name = base + "-" + strings.Repeat("p", pad)
				tb = finish()
			}
		}
		in.trees = append(in.trees, tree)
		in.treeBlobs = append(in.treeBlobs, tb)
		r := &in.refs[ti]
		r.content, r.Hash, r.Size, r.Stated, r.Empty = tb, lib.Sha256Hex(tb), int64(len(tb)), int64(len(tb)), len(tb) == 0
		applyMis(ti)
		ar.OutputDirectories = append(ar.OutputDirectories, &pb.OutputDirectory{Path: fmt.Sprintf("out/dir%d", d), TreeDigest: in.refs[ti].stated()})
	}

	addStd := func(mode int, class string) *pb.Digest {
		if mode == 0 {
			return nil
		}
		size := pickSize(rng)
		if sh.smallStd {
			size = 9 + rng.IntN(2500)
		}
		var content []byte
		if k := sh.stdoutDup; class == clsStdout && k > 0 && k <= len(fileContents) && mode == 1 && !overridden() {
			content = fileContents[k-1]
		} else {
			content = blob(size, mode == 2, class)
		}
		ri := mk(class, class+"_digest", -1, content)
		applyMis(ri)
		return in.refs[ri].stated()
	}
	nrefs := len(in.refs)
	ar.StdoutDigest = addStd(sh.stdout, clsStdout)
	ar.StderrDigest = addStd(sh.stderr, clsStderr)
	if sh.stdoutRaw {
		ar.StdoutRaw = []byte("raw stdout of " + tag)
	}
	if sh.stdRawToo {
		// the stream is also carried inline, consistently with its digest (an upload path that stores inlined
		// streams in the CAS thereby makes the blob present: presence is observed, never assumed)
		for i := nrefs; i < len(in.refs); i++ {
			rf := in.refs[i]
			if rf.Stated != rf.Size || len(rf.content) == 0 || len(rf.content) > 200*1024 {
				continue
			}
			if rf.Class == clsStdout {
				ar.StdoutRaw = rf.content
			} else if rf.Class == clsStderr {
				ar.StderrRaw = rf.content
			}
		}
	}
	for s := 0; s < sh.symlinks; s++ {
		ar.OutputSymlinks = append(ar.OutputSymlinks, &pb.OutputSymlink{Path: fmt.Sprintf("out/l%d", s), Target: "f0"})
	}
	in.ar = ar
	return in
}

// ---------------------------------------------------------------------------
// R(AR), from the statement: each output file without inline contents; for
// each output directory the Tree blob and every file listed in the Tree's
// root and child directories (that carries a digest); the stdout and stderr
// digests. treeOf gives the Tree message behind a tree digest as the harness
// built it (the server has to read it from the CAS).

type need struct {
	Class  string `json:"class"`
	Where  string `json:"where"`
	Hash   string `json:"hash"`
	Stated int64  `json:"stated_size"`
}

func referenced(ar *pb.ActionResult, treeOf func(i int) *pb.Tree) []need {
	var out []need
	for i, f := range ar.GetOutputFiles() {
		if len(f.GetContents()) == 0 && f.GetDigest() != nil {
			out = append(out, need{clsFile, fmt.Sprintf("output_files[%d]", i), f.Digest.Hash, f.Digest.SizeBytes})
		}
	}
	for i, d := range ar.GetOutputDirectories() {
		if d.GetTreeDigest() == nil {
			continue
		}
		out = append(out, need{clsTreeBlob, fmt.Sprintf("output_directories[%d].tree_digest", i), d.TreeDigest.Hash, d.TreeDigest.SizeBytes})
		t := treeOf(i)
		if t == nil {
			continue
		}
		if t.Root != nil {
			for k, f := range t.Root.Files {
				if f.GetDigest() != nil {
					out = append(out, need{clsTreeRoot, fmt.Sprintf("tree[%d].root.files[%d]", i, k), f.Digest.Hash, f.Digest.SizeBytes})
				}
			}
		}
		for ci, c := range t.Children {
			for k, f := range c.GetFiles() {
				if f.GetDigest() != nil {
					out = append(out, need{clsTreeChild, fmt.Sprintf("tree[%d].children[%d].files[%d]", i, ci, k), f.Digest.Hash, f.Digest.SizeBytes})
				}
			}
		}
	}
	if d := ar.GetStdoutDigest(); d != nil {
		out = append(out, need{clsStdout, "stdout_digest", d.Hash, d.SizeBytes})
	}
	if d := ar.GetStderrDigest(); d != nil {
		out = append(out, need{clsStderr, "stderr_digest", d.Hash, d.SizeBytes})
	}
	return out
}

func (in *instance) needs() []need {
	return referenced(in.ar, func(i int) *pb.Tree {
		if i < len(in.trees) {
			return in.trees[i]
		}
		return nil
	})
}

// selfCheck cross-checks the construction bookkeeping (refs) against the
// statement-derived enumeration; a disagreement is a harness bug.
func (in *instance) selfCheck() error {
	ns := in.needs()
	if len(ns) != len(in.refs) {
		return fmt.Errorf("harness bug: %d needs vs %d refs", len(ns), len(in.refs))
	}
	have := map[string]int{}
	for _, r := range in.refs {
		have[fmt.Sprintf("%s/%s/%d", r.Class, r.Hash, r.Stated)]++
	}
	for _, n := range ns {
		k := fmt.Sprintf("%s/%s/%d", n.Class, n.Hash, n.Stated)
		if have[k] == 0 {
			return fmt.Errorf("harness bug: need %s (%s) has no ref", k, n.Where)
		}
		have[k]--
	}
	return nil
}

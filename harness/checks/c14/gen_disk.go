package c14

import (
	"context"
	"encoding/binary"
	"fmt"
	"math"
	"math/rand/v2"
	"os"
	"path/filepath"
	"strings"

	pb "github.com/buchgr/bazel-remote/v2/genproto/build/bazel/remote/execution/v2"

	"google.golang.org/protobuf/proto"

	"verif/harness/lib"
)

// On-disk corruption of stored files (launcher fixtures: the harness owns the
// cache directory). Header layout of cas.v2 files (published format):
//   [0:4] magic  [4:8] frame size  [8:16] logical size  [16] compression
//   [17:21] chunk size  [21:29] number of offsets  [29:] offsets

func isLauncher(p plan, _ quickness) bool     { return p.kind == "launcher" }
func isLauncherZstd(p plan, _ quickness) bool { return p.kind == "launcher" && p.storage == "zstd" }

func findCacheFile(dir, kind, hash string) (string, error) {
	m, err := filepath.Glob(filepath.Join(dir, kind+".v2", hash[:2], hash+"-*"))
	if err != nil {
		return "", err
	}
	if len(m) == 0 {
		return "", fmt.Errorf("no file for %s/%s", kind, hash)
	}
	return m[0], nil
}

type hdrMut struct {
	name      string
	coreReads string // read kinds scheduled in every run for this field (comma separated)
	f         func(rng *rand.Rand, file []byte, logical int64) []byte
}

func put32(b []byte, off int, v uint32) { binary.LittleEndian.PutUint32(b[off:], v) }
func put64(b []byte, off int, v uint64) { binary.LittleEndian.PutUint64(b[off:], v) }

var hdrMuts = []hdrMut{
	{"magic", "", func(rng *rand.Rand, f []byte, _ int64) []byte {
		put32(f, 0, lib.Pick(rng, []uint32{0, 0xFD2FB528, 0x184D2A51, 0xffffffff}))
		return f
	}},
	{"frame-size", "", func(rng *rand.Rand, f []byte, _ int64) []byte {
		cur := binary.LittleEndian.Uint32(f[4:])
		put32(f, 4, lib.Pick(rng, []uint32{0, cur + 8, cur - 8, 0xffffffff, 21}))
		return f
	}},
	{"logical-size", "", func(rng *rand.Rand, f []byte, n int64) []byte {
		put64(f, 8, uint64(lib.Pick(rng, []int64{0, -1, n + 1, n - 1, math.MaxInt64, math.MinInt64, 1})))
		return f
	}},
	{"compression-type", "", func(rng *rand.Rand, f []byte, _ int64) []byte {
		f[16] = lib.Pick(rng, []byte{0, 2, 255})
		return f
	}},
	{"chunk-size-zero", "bsread-5,http-get", func(rng *rand.Rand, f []byte, _ int64) []byte {
		put32(f, 17, 0)
		return f
	}},
	// A chunk size slightly off the real one keeps the chunk count plausible; the
	// chunk found through the offset arithmetic then decodes to fewer bytes than
	// the arithmetic expects (smaller: at the end of the blob; larger: just past
	// a chunk boundary).
	{"chunk-size-slightly-smaller", "bsread-last", func(rng *rand.Rand, f []byte, _ int64) []byte {
		put32(f, 17, binary.LittleEndian.Uint32(f[17:])-lib.Pick(rng, []uint32{1, 2, 3}))
		return f
	}},
	{"chunk-size-slightly-larger", "bszstd-chunk+1", func(rng *rand.Rand, f []byte, _ int64) []byte {
		put32(f, 17, binary.LittleEndian.Uint32(f[17:])+lib.Pick(rng, []uint32{1, 2, 7}))
		return f
	}},
	{"chunk-size-odd", "", func(rng *rand.Rand, f []byte, n int64) []byte {
		cur := binary.LittleEndian.Uint32(f[17:])
		put32(f, 17, lib.Pick(rng, []uint32{1, cur / 2, cur * 2, 0xffffffff, uint32(n)}))
		return f
	}},
	{"offset-count", "", func(rng *rand.Rand, f []byte, _ int64) []byte {
		cur := binary.LittleEndian.Uint64(f[21:])
		put64(f, 21, lib.Pick(rng, []uint64{0, 1, cur + 1, cur - 1, math.MaxUint64, math.MaxInt64, 1 << 40}))
		return f
	}},
	{"offset-count-with-consistent-frame-size", "", func(rng *rand.Rand, f []byte, _ int64) []byte {
		cur := binary.LittleEndian.Uint64(f[21:])
		n := lib.Pick(rng, []uint64{2, cur + 1, cur + 100, 1 << 20, 1 << 22}) // up to 32 MiB of offsets claimed by a 2 MiB file
		put64(f, 21, n)
		put32(f, 4, uint32(n*8+8+1+4+8))
		return f
	}},
	{"offsets", "", func(rng *rand.Rand, f []byte, _ int64) []byte {
		n := int(binary.LittleEndian.Uint64(f[21:]))
		if n < 2 || 29+8*n > len(f) {
			return f
		}
		i := rng.IntN(n)
		cur := binary.LittleEndian.Uint64(f[29+8*i:])
		switch rng.IntN(6) {
		case 0:
			put64(f, 29+8*i, 0)
		case 1:
			put64(f, 29+8*i, uint64(len(f))+1000)
		case 2:
			put64(f, 29+8*i, math.MaxUint64) // -1
		case 3:
			put64(f, 29+8*i, cur+1)
		case 4: // swap two entries
			j := rng.IntN(n)
			o := binary.LittleEndian.Uint64(f[29+8*j:])
			put64(f, 29+8*j, cur)
			put64(f, 29+8*i, o)
		default: // all offsets equal
			for k := 0; k < n; k++ {
				put64(f, 29+8*k, cur)
			}
		}
		return f
	}},
	{"offsets-shifted-but-consistent", "", func(rng *rand.Rand, f []byte, _ int64) []byte {
		// middle offsets moved inside the file: monotone, first and last unchanged
		n := int(binary.LittleEndian.Uint64(f[21:]))
		for k := 1; k+1 < n && 29+8*k+8 <= len(f); k++ {
			cur := binary.LittleEndian.Uint64(f[29+8*k:])
			put64(f, 29+8*k, cur-uint64(1+rng.IntN(50)))
		}
		return f
	}},
	{"truncated", "", func(rng *rand.Rand, f []byte, _ int64) []byte {
		return f[:lib.Pick(rng, []int{0, 1, 28, 29, 44, 45, 46, len(f) / 2, len(f) - 1})]
	}},
	{"appended-garbage", "", func(rng *rand.Rand, f []byte, _ int64) []byte {
		return append(f, lib.GenBlob(rng, 1+rng.IntN(5000), "random", "app")...)
	}},
	{"chunk-data-corrupt", "", func(rng *rand.Rand, f []byte, _ int64) []byte {
		n := int(binary.LittleEndian.Uint64(f[21:]))
		start := 29 + 8*n
		if start >= len(f) {
			return f
		}
		at := start + rng.IntN(len(f)-start)
		for i := at; i < at+32 && i < len(f); i++ {
			f[i] ^= 0x5c
		}
		return f
	}},
}

func init() {
	readKinds := []string{"bsread-0", "bsread-5", "bsread-chunk-1", "bsread-chunk", "bsread-chunk+1", "bsread-last", "bszstd-0", "bszstd-5", "bszstd-chunk+1", "bszstd-last", "http-get", "http-get-zstd", "batchread", "batchread-zstd", "splice-chunk"}
	const chunk = 1 << 20
	for _, hm := range hdrMuts {
		hm := hm
		for _, rk := range readKinds {
			rk := rk
			core := strings.Contains(","+hm.coreReads+",", ","+rk+",")
			register(variant{fam: "disk.header." + hm.name, name: rk, core: core, applies: isLauncherZstd, build: func(fx *fixture, rng *rand.Rand) []*op {
				b := mkBlob(lib.GenBlob(rng, chunk+1+rng.IntN(chunk+chunk/2), lib.Pick(rng, []string{"text", "repetitive", "random"}), fmt.Sprintf("disk/%s/%d", fx.p.name, fx.seq)), "victim")
				gen := "disk.header." + hm.name
				corrupt := &op{ep: "disk:cas.v2", gen: gen + "/corrupt", setup: true, desc: map[string]any{"blob": descDigest(b.digest()), "field": hm.name},
					run: func(ctx context.Context, fx *fixture) result {
						p, err := findCacheFile(fx.dir, "cas", b.hash)
						if err != nil {
							return result{status: "disk:no-file", note: err.Error()}
						}
						f, err := os.ReadFile(p)
						if err != nil || len(f) < 45 {
							return result{status: "disk:unreadable"}
						}
						nf := hm.f(rng, f, b.size)
						if err := os.WriteFile(p, nf, 0o644); err != nil {
							return result{status: "disk:write-failed", note: err.Error()}
						}
						return result{status: "disk:corrupted", success: true, note: fmt.Sprintf("%d -> %d bytes", len(f), len(nf))}
					}}
				var read *op
				bsr := func(name string, off int64) *op {
					return &op{ep: "grpc:ByteStream.Read", desc: map[string]any{"name": name, "offset": off, "corrupted_field": hm.name},
						run: func(ctx context.Context, fx *fixture) result {
							_, err := fx.srv.BSRead(ctx, name, off, 0)
							return grpcRes(err)
						}}
				}
				offs := map[string]int64{"0": 0, "5": 5, "chunk-1": chunk - 1, "chunk": chunk, "chunk+1": chunk + 1, "last": b.size - 1}
				switch {
				case len(rk) > 7 && rk[:7] == "bsread-":
					read = bsr(lib.ResBlobs(b.hash, b.size), offs[rk[7:]])
				case len(rk) > 7 && rk[:7] == "bszstd-":
					read = bsr(lib.ResZstd(b.hash, b.size), offs[rk[7:]])
				case rk == "http-get" || rk == "http-get-zstd":
					q := httpReq{method: "GET", path: "/cas/" + b.hash}
					if rk == "http-get-zstd" {
						q.hdr = map[string]string{"Accept-Encoding": "zstd"}
					}
					read = &op{ep: "http:GET:/cas", desc: map[string]any{"path": q.path, "headers": q.hdr, "corrupted_field": hm.name},
						run: func(ctx context.Context, fx *fixture) result { return fx.httpDo(ctx, q) }}
				case rk == "batchread" || rk == "batchread-zstd":
					read = &op{ep: "grpc:CAS.BatchReadBlobs", desc: map[string]any{"digest": descDigest(b.digest()), "zstd": rk == "batchread-zstd", "corrupted_field": hm.name},
						run: func(ctx context.Context, fx *fixture) result {
							q := &pb.BatchReadBlobsRequest{Digests: []*pb.Digest{b.digest()}}
							if rk == "batchread-zstd" {
								q.AcceptableCompressors = []pb.Compressor_Value{pb.Compressor_ZSTD}
							}
							_, err := fx.srv.CAS.BatchReadBlobs(ctx, q)
							return grpcRes(err)
						}}
				default:
					read = &op{ep: "grpc:CAS.SpliceBlob", desc: map[string]any{"chunk": descDigest(b.digest()), "corrupted_field": hm.name},
						run: func(ctx context.Context, fx *fixture) result {
							_, err := fx.srv.CAS.SpliceBlob(ctx, &pb.SpliceBlobRequest{ChunkDigests: []*pb.Digest{fx.pool.small[3].digest(), b.digest()}})
							return grpcRes(err)
						}}
				}
				read.class = gen // one key per corrupted field, whatever the read path and offset
				if strings.HasPrefix(hm.name, "chunk-size-slightly-") {
					read.class = "disk.header.chunk-size-slightly-off" // one root cause
				}
				store := ensureOp(b)
				store.gen = gen + "/store"
				return []*op{store, corrupt, read}
			}})
		}
	}

	// AC entries overwritten on disk with hostile ActionResult bytes, then read
	// through the validating paths (stored blob later interpreted as ActionResult).
	type acCase struct {
		name string
		f    func(fx *fixture, rng *rand.Rand) []byte
	}
	mar := func(ar *pb.ActionResult) []byte { b, _ := proto.Marshal(ar); return b }
	acCases := []acCase{
		{"garbage", func(fx *fixture, rng *rand.Rand) []byte { return lib.GenBlob(rng, 1+rng.IntN(3000), "random", "acg") }},
		{"truncated", func(fx *fixture, rng *rand.Rand) []byte { b := mar(validAR(fx)); return b[:1+rng.IntN(len(b)-1)] }},
		{"empty-file", func(fx *fixture, rng *rand.Rand) []byte { return nil }},
		{"output-file-without-digest", func(fx *fixture, rng *rand.Rand) []byte {
			return mar(&pb.ActionResult{OutputFiles: []*pb.OutputFile{{Path: "p"}, {}}})
		}},
		{"output-directory-without-tree-digest", func(fx *fixture, rng *rand.Rand) []byte {
			return mar(&pb.ActionResult{OutputDirectories: []*pb.OutputDirectory{{Path: "d"}, {}}})
		}},
		{"digests-negative-or-malformed", func(fx *fixture, rng *rand.Rand) []byte {
			return mar(&pb.ActionResult{StdoutDigest: &pb.Digest{Hash: fx.pool.small[1].hash, SizeBytes: -1}, StderrDigest: &pb.Digest{Hash: "zz", SizeBytes: 5},
				OutputFiles: []*pb.OutputFile{{Path: "p", Digest: &pb.Digest{Hash: mutHash(rng, lib.Pick(rng, hashMuts)), SizeBytes: math.MinInt64}}}})
		}},
		{"tree-digest-to-hostile-tree", func(fx *fixture, rng *rand.Rand) []byte {
			return mar(&pb.ActionResult{OutputDirectories: []*pb.OutputDirectory{{Path: "d", TreeDigest: fx.pool.wideDir.digest()}, {Path: "e", TreeDigest: &pb.Digest{Hash: fx.pool.tree.hash, SizeBytes: 0}}}})
		}},
		{"symlinks-with-empty-fields", func(fx *fixture, rng *rand.Rand) []byte {
			return mar(&pb.ActionResult{OutputSymlinks: []*pb.OutputSymlink{{}, {Path: "/abs", Target: ""}}})
		}},
	}
	for _, c := range acCases {
		c := c
		register(variant{fam: "disk.ac", name: c.name, applies: isLauncher, build: func(fx *fixture, rng *rand.Rand) []*op {
			key := freshKey(fx, rng)
			gen := "disk.ac." + c.name
			hostile := c.f(fx, rng)
			ops := []*op{
				{ep: "grpc:AC.UpdateActionResult", gen: gen + "/store-ac", setup: true, desc: map[string]any{"key": key.Hash},
					run: func(ctx context.Context, fx *fixture) result {
						_, err := fx.srv.AC.UpdateActionResult(ctx, &pb.UpdateActionResultRequest{ActionDigest: key, ActionResult: validAR(fx)})
						return grpcRes(err)
					}},
				{ep: "disk:ac.v2", gen: gen + "/overwrite", setup: true, desc: map[string]any{"key": key.Hash, "bytes": describeBytes(hostile)},
					run: func(ctx context.Context, fx *fixture) result {
						p, err := findCacheFile(fx.dir, "ac", key.Hash)
						if err != nil {
							return result{status: "disk:no-file", note: err.Error()}
						}
						if err := os.WriteFile(p, hostile, 0o644); err != nil {
							return result{status: "disk:write-failed"}
						}
						return result{status: "disk:overwritten", success: true}
					}},
				{ep: "grpc:AC.GetActionResult", desc: map[string]any{"key": key.Hash, "on_disk": c.name},
					run: func(ctx context.Context, fx *fixture) result {
						_, err := fx.srv.AC.GetActionResult(ctx, &pb.GetActionResultRequest{ActionDigest: key, InlineStdout: true, InlineOutputFiles: []string{"p"}})
						return grpcRes(err)
					}},
			}
			for _, m := range []string{"GET", "HEAD"} {
				m := m
				accept := lib.Pick(rng, []string{"application/json", "*/*"})
				ops = append(ops, &op{ep: "http:" + m + ":/ac", desc: map[string]any{"key": key.Hash, "on_disk": c.name, "accept": accept},
					run: func(ctx context.Context, fx *fixture) result {
						return fx.httpDo(ctx, httpReq{method: m, path: "/ac/" + key.Hash, hdr: map[string]string{"Accept": accept}})
					}})
			}
			// the three read paths in seeded order (a crash on one path must not always hide the others)
			reads := ops[2:]
			rng.Shuffle(len(reads), func(i, j int) { reads[i], reads[j] = reads[j], reads[i] })
			return ops
		}})
	}
}

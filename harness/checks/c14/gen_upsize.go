package c14

import (
	"context"
	"fmt"
	"math"
	"math/rand/v2"

	pb "github.com/buchgr/bazel-remote/v2/genproto/build/bazel/remote/execution/v2"

	bs "google.golang.org/genproto/googleapis/bytestream"
	"google.golang.org/grpc/codes"
	"google.golang.org/protobuf/proto"

	"verif/harness/lib"
)

// Declared upload size x encoding x upload endpoint.
//
// Every upload path is told a size by the client - digest.size_bytes
// (BatchUpdateBlobs), the size segment of the resource name (ByteStream.Write),
// X-Digest-SizeBytes (HTTP PUT /cas and /ac) - and receives the payload either
// as it is or zstd-compressed. The cross product: negative (-1, -2, ..., MinInt64),
// zero, off-by-one, the boundaries around 4 MiB and 2^31, huge (2^40, MaxInt64)
// declared sizes with identity and with zstd payloads on each endpoint. A
// negative declared size is unambiguously malformed (success is a violation);
// for the rest only the crash / handler-panic / hang / leak oracles judge.

type declSize struct {
	name string
	f    func(actual int64) int64
}

var declSizes = []declSize{
	{"-1", func(int64) int64 { return -1 }},
	{"-2", func(int64) int64 { return -2 }},
	{"-1000", func(int64) int64 { return -1000 }},
	{"minint", func(int64) int64 { return math.MinInt64 }},
	{"minint+1", func(int64) int64 { return math.MinInt64 + 1 }},
	{"0", func(int64) int64 { return 0 }},
	{"1", func(int64) int64 { return 1 }},
	{"actual-1", func(n int64) int64 { return n - 1 }},
	{"actual", func(n int64) int64 { return n }},
	{"actual+1", func(n int64) int64 { return n + 1 }},
	{"4MiB", func(int64) int64 { return 4 << 20 }},
	{"4MiB+1", func(int64) int64 { return 4<<20 + 1 }},
	{"2^31", func(int64) int64 { return 1 << 31 }},
	{"2^32+5", func(int64) int64 { return 1<<32 + 5 }},
	{"2^40", func(int64) int64 { return 1 << 40 }},
	{"maxint-1", func(int64) int64 { return math.MaxInt64 - 1 }},
	{"maxint", func(int64) int64 { return math.MaxInt64 }},
}

func declClass(v, actual int64) string {
	switch {
	case v < 0:
		return "negative-size"
	case v == 0:
		return "zero-size"
	case v == actual:
		return "actual-size"
	case v >= 4<<20:
		return "huge-size"
	}
	return "wrong-size"
}

type upEndpoint struct {
	name string
	ep   string
	send func(ctx context.Context, fx *fixture, hash string, declared int64, zstd bool, body []byte) result
	isAC bool
}

var upEndpoints = []upEndpoint{
	{name: "batchupdate", ep: "grpc:CAS.BatchUpdateBlobs", send: func(ctx context.Context, fx *fixture, hash string, declared int64, zstd bool, body []byte) result {
		q := &pb.BatchUpdateBlobsRequest_Request{Digest: &pb.Digest{Hash: hash, SizeBytes: declared}, Data: body}
		if zstd {
			q.Compressor = pb.Compressor_ZSTD
		}
		resp, err := fx.srv.CAS.BatchUpdateBlobs(ctx, &pb.BatchUpdateBlobsRequest{Requests: []*pb.BatchUpdateBlobsRequest_Request{q}})
		res := grpcRes(err)
		if err == nil {
			for _, r := range resp.Responses {
				if r.GetStatus().GetCode() != 0 {
					res.success = false
					res.status = "grpc:OK/blob:" + codes.Code(r.GetStatus().GetCode()).String()
				}
			}
		}
		return res
	}},
	{name: "bswrite", ep: "grpc:ByteStream.Write", send: func(ctx context.Context, fx *fixture, hash string, declared int64, zstd bool, body []byte) result {
		name := fmt.Sprintf("uploads/%s/blobs/%s/%d", "00000000-0000-4000-8000-0000000000c4", hash, declared)
		if zstd {
			name = fmt.Sprintf("uploads/%s/compressed-blobs/zstd/%s/%d", "00000000-0000-4000-8000-0000000000c4", hash, declared)
		}
		msgs := chunksOf(name, body, 16*lib.KiB, true)
		if len(msgs) == 0 {
			msgs = []*bs.WriteRequest{{ResourceName: name, FinishWrite: true}}
		}
		return writeSeq(ctx, fx, msgs, wCloseAndRecv, 0)
	}},
	{name: "http-cas", ep: "http:PUT:/cas", send: func(ctx context.Context, fx *fixture, hash string, declared int64, zstd bool, body []byte) result {
		h := map[string]string{"X-Digest-SizeBytes": fmt.Sprint(declared)}
		if zstd {
			h["Content-Encoding"] = "zstd"
		}
		return fx.httpDo(ctx, httpReq{method: "PUT", path: "/cas/" + hash, body: body, hdr: h})
	}},
	{name: "http-ac", ep: "http:PUT:/ac", isAC: true, send: func(ctx context.Context, fx *fixture, hash string, declared int64, zstd bool, body []byte) result {
		h := map[string]string{"X-Digest-SizeBytes": fmt.Sprint(declared)}
		if zstd {
			h["Content-Encoding"] = "zstd"
		}
		return fx.httpDo(ctx, httpReq{method: "PUT", path: "/ac/" + hash, body: body, hdr: h})
	}},
}

func buildUpsize(fx *fixture, rng *rand.Rand, e *upEndpoint, zstd bool, ds declSize, oddPayloads bool) *op {
	var data []byte
	hash := ""
	if e.isAC {
		ar := validAR(fx)
		ar.ExitCode = int32(rng.IntN(1 << 20))
		data, _ = proto.Marshal(ar)
		hash = lib.RandHash(rng)
	} else {
		n := lib.Pick(rng, []int{1, 100, 3000, 3000, 70000})
		data = lib.GenBlob(rng, n, lib.Pick(rng, lib.ContentKinds), fmt.Sprintf("upsize/%s/%d/%d", fx.p.name, fx.seq, rng.Uint32()))
		hash = lib.Sha256Hex(data)
	}
	actual := int64(len(data))
	declared := ds.f(actual)
	payload := "well-formed"
	body := data
	if zstd {
		body = lib.ZstdEncodeKP(data, 1)
	}
	if oddPayloads {
		switch rng.IntN(8) {
		case 0:
			payload, body = "empty", []byte{}
		case 1:
			payload, body = "garbage", lib.GenBlob(rng, 1+rng.IntN(5000), "random", "upsize-garbage")
		}
	}
	enc := "identity"
	if zstd {
		enc = "zstd"
	}
	cls := declClass(declared, actual)
	return &op{ep: e.ep, gen: "upsize." + e.name + "." + enc + "." + ds.name, class: "upsize." + enc + "." + cls, mustFail: declared < 0,
		desc: map[string]any{"hash": hash, "declared_size": declared, "actual_size": actual, "encoding": enc, "payload": payload, "body_bytes": len(body)},
		run: func(ctx context.Context, fx *fixture) result {
			res := e.send(ctx, fx, hash, declared, zstd, body)
			fx.r.Count("upsize." + e.name + "." + enc + "|" + cls + "|" + res.status)
			return res
		}}
}

func init() {
	for i := range upEndpoints {
		e := &upEndpoints[i]
		for _, zstd := range []bool{false, true} {
			zstd := zstd
			enc := "identity"
			if zstd {
				enc = "zstd"
			}
			for _, ds := range declSizes {
				ds := ds
				register(variant{fam: "upsize." + e.name + "." + enc, name: ds.name, applies: always,
					build: func(fx *fixture, rng *rand.Rand) []*op { return []*op{buildUpsize(fx, rng, e, zstd, ds, true)} }})
			}
		}
	}
	// In every run: each endpoint x encoding with the negative sizes, zero and the largest size.
	register(variant{fam: "upsize.sweep", name: "negative-zero-and-largest-on-every-endpoint-and-encoding", core: true, applies: always, build: func(fx *fixture, rng *rand.Rand) []*op {
		var ops []*op
		for i := range upEndpoints {
			for _, zstd := range []bool{false, true} {
				for _, ds := range declSizes {
					switch ds.name {
					case "-1", "-2", "minint", "0", "maxint":
						ops = append(ops, buildUpsize(fx, rng, &upEndpoints[i], zstd, ds, false))
					}
				}
			}
		}
		rng.Shuffle(len(ops), func(i, j int) { ops[i], ops[j] = ops[j], ops[i] })
		return ops
	}})
}

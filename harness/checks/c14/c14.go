// Package c14 checks property C14: no request can crash the server, hang a
// handler or leave resources behind.
//
// Structure-aware, seeded request fuzzing of every HTTP and gRPC endpoint of
// CHILD-PROCESS servers (the real binary and the launcher) with crash /
// handler-panic / wedge / malformed-accepted / leak oracles. Every request is
// appended to a journal file before it is sent.
package c14

import (
	"context"
	"encoding/json"
	"fmt"
	"math/rand/v2"
	"net/http"
	"os"
	"path/filepath"
	"sort"
	"strconv"
	"strings"
	"sync"
	"time"

	"verif/harness/lib"
)

func init() { lib.Register("C14", run) }

var devTimings = os.Getenv("C14_DEBUG") != ""
var devFDCheckAll = os.Getenv("C14_FDCHECK_ALL") != "" // developer aid: descriptor probe before every request

const (
	batchSize    = 100
	opTimeout    = 25 * time.Second // the client's own deadline ("gave up"); expiry alone is never a verdict
	statusWait   = 25 * time.Second // generous deadline for /status after a journalled request
	settleMax    = 30 * time.Second // generous settle period for persistent-state oracles
	maxRestarts  = 10
	leakEveryOps = 60 // fuzz requests between two leak checks (batches may end a little later)
)

// plan describes one child-process fixture.
type plan struct {
	name       string
	kind       string // "binary" | "launcher"
	storage    string // "zstd" | "uncompressed"
	zstdImpl   string // launcher only
	proxy      string // "", "http", "grpc" (binary only)
	validateAC bool   // HTTP AC validation enabled
	maxSize    int64  // launcher only (bytes)
	share      int    // share of the request budget (weights)
}

func plans() []plan {
	return []plan{
		{name: "bin-zstd", kind: "binary", storage: "zstd", validateAC: true, share: 5},
		{name: "bin-raw-httpproxy", kind: "binary", storage: "uncompressed", proxy: "http", validateAC: true, share: 5},
		{name: "bin-zstd-grpcproxy-noval", kind: "binary", storage: "zstd", proxy: "grpc", validateAC: false, share: 5},
		{name: "launch-zstd", kind: "launcher", storage: "zstd", zstdImpl: "go", validateAC: true, maxSize: 24 * lib.MiB, share: 5},
		{name: "launch-raw", kind: "launcher", storage: "uncompressed", zstdImpl: "cgo", validateAC: true, maxSize: 24 * lib.MiB, share: 4},
	}
}

func run(r *lib.Run) {
	r.SetRule("distinct tuple = (fixture, endpoint, generator family.variant, outcome status); non-trivial = the request was journalled, sent to a live child-process server and the liveness/log probe ran after it")
	r.Assume("a 'hang' or 'wedge' is decided by persistent state (handler goroutine still parked / /status not answering after a generous deadline and two goroutine dumps), never by latency")
	r.Assume("open-descriptor oracle: descriptors pointing into the cache directory at quiescence are violations; other descriptor growth needs the N vs 2N re-run test")
	total := r.N(1860, 42000)
	if v, err := strconv.Atoi(os.Getenv("C14_N")); err == nil && v > 0 { // developer aid
		total = v
	}
	ps := plans()
	if only := os.Getenv("C14_ONLY"); only != "" { // developer aid: restrict to some fixtures
		var keep []plan
		for _, p := range ps {
			if strings.Contains(","+only+",", ","+p.name+",") {
				keep = append(keep, p)
			}
		}
		ps = keep
	}
	shares := 0
	for _, p := range ps {
		shares += p.share
	}
	var wg sync.WaitGroup
	for _, p := range ps {
		n := total * p.share / shares
		wg.Add(1)
		go func(p plan, n int) {
			defer wg.Done()
			runFixture(r, p, n)
		}(p, n)
	}
	wg.Wait()
}

// ---------------------------------------------------------------------------

type op struct {
	ep       string // endpoint, e.g. "grpc:ByteStream.Read", "http:GET:/cas"
	gen      string // generator "family.variant"
	desc     any    // journalled description (enough to re-create the request with the seed)
	mustFail bool   // unambiguously malformed: success (2xx / OK) is a violation
	class    string // optional coarser input class used in finding keys (one root cause, one key)
	abortOp  bool   // client aborts a transfer of a large blob: run the descriptor probe right after
	setup    bool   // harness housekeeping (not counted as a fuzz case)
	noRetry  bool   // do not re-run to confirm an aborted connection
	run      func(ctx context.Context, fx *fixture) result
	after    func(fx *fixture, res result) // optional extra oracle for directed scenarios
}

// keyClass is the input class named in finding keys: the coarser class when
// the generator gave one (one root cause, one key), else family.variant.
func (o *op) keyClass() string {
	if o.class != "" {
		return o.class
	}
	return o.gen
}

type result struct {
	status    string // "grpc:InvalidArgument", "http:400", "transport:EOF", "timeout", "raw:closed"
	success   bool   // 2xx / gRPC OK with in-band OK
	transport bool   // connection-level failure not caused by the client itself
	timeout   bool   // the client's own deadline expired
	note      string
}

type journalEntry struct {
	Seq     int    `json:"seq"`
	Fixture string `json:"fixture"`
	Ep      string `json:"ep"`
	Gen     string `json:"gen"`
	Desc    any    `json:"desc,omitempty"`
}

type fixture struct {
	r   *lib.Run
	p   plan
	rng *rand.Rand

	child  *lib.Child
	srv    *lib.Server
	dir    string
	origin *origin
	hb     *httpMissBackend
	gb     *grpcMissBackend

	journal     *os.File
	journalPath string
	seq         int
	recent      []journalEntry
	logOff      int64

	statusClient       *http.Client
	base               baseline
	pool               *blobPool
	restarts           int
	dead               bool
	fuzzOps            int
	window             []*op
	windowKinds        map[string]int
	fdSeries           []map[string]any
	finalSigs          map[string]int
	lastOp             *op
	keepJournal        bool
	stallSeen          bool           // the FetchBlob stall finding has been established on this fixture
	deathSeen          bool           // the death of the current child process has been reported
	leakedFDs          map[string]int // descriptors on cache files already reported for the current child
	slack              int            // descriptor excess over the baseline explained by bounded pools (plateaus seen)
	leakedConns        map[string]int // connection-table trouble already reported for the current child
	baseConns          map[string]int // connection counts of the settled warm-up state
	deaths             map[string]int // server deaths per input class (an established crash is not repeated for ever)
	heldSeen           int            // quietOracle findings established on this fixture
	leakedReserved     int64          // reserved bytes / unaccounted files already reported by quietOracle for the current child
	leakedFiles        int
	portStolen         bool           // the child never came up: a port was taken by another process
	leakedBackendConns int            // backend connections already reported by connCensus for the current child
	pstats             map[string]int // proxy slices: scheduled / precondition met (see proxyEvidence)
}

func runFixture(r *lib.Run, p plan, n int) {
	fx := &fixture{r: r, p: p, rng: r.Rng("fx/" + p.name), windowKinds: map[string]int{}}
	fx.statusClient = &http.Client{Timeout: statusWait, Transport: &http.Transport{DisableKeepAlives: true}}
	if devTimings {
		defer func(t time.Time) { r.CountN("ms.fixture."+p.name, time.Since(t).Milliseconds()) }(time.Now())
	}
	jd := filepath.Join(lib.VerifRoot(), "replays")
	_ = os.MkdirAll(jd, 0o755)
	fx.journalPath = filepath.Join(jd, fmt.Sprintf("C14-seed%d-%s-%s.journal.jsonl", r.Seed, r.Tier, p.name))
	jf, err := os.Create(fx.journalPath)
	if err != nil {
		r.Inconclusive("cannot create journal: " + err.Error())
		return
	}
	fx.journal = jf
	defer func() {
		_ = jf.Close()
		fx.stopAll()
		if !fx.keepJournal {
			_ = os.Remove(fx.journalPath) // only journals that witness something are kept
		}
	}()

	if err := fx.startAux(); err != nil {
		r.Inconclusive(p.name + ": cannot start harness backends: " + err.Error())
		return
	}
	if err := fx.startChild(); err != nil {
		r.Inconclusive(p.name + ": cannot start child: " + err.Error())
		return
	}
	ok := fx.warmup()
	for tries := 0; !ok && fx.portStolen && tries < 3; tries++ {
		fx.portStolen = false
		fx.stopChild()
		if err := fx.startChild(); err != nil {
			r.Inconclusive(p.name + ": cannot start child: " + err.Error())
			return
		}
		ok = fx.warmup()
	}
	if !ok {
		if fx.portStolen {
			r.Inconclusive(p.name + ": the server could not bind its ports (taken by another process) in four attempts")
		}
		return
	}
	sched := newScheduler(fx)
	lastLeak := 0
	for fx.fuzzOps < n && !fx.dead {
		inBatch := 0
		for inBatch < batchSize && fx.fuzzOps < n && !fx.dead {
			o := sched.next()
			if o == nil {
				continue
			}
			fx.exec(o)
			inBatch++
			if fx.child.Exited() || fx.dead {
				break
			}
		}
		fx.livenessCheck("batch")
		if !fx.dead && !fx.child.Exited() && fx.fuzzOps-lastLeak >= leakEveryOps && fx.fuzzOps < n {
			lastLeak = fx.fuzzOps
			fx.leakCheck("periodic")
		}
		if fx.child.Exited() && !fx.dead {
			sched.queue = nil // the rest of an interrupted request sequence is dropped
			fx.recover()
		}
	}
	if !fx.dead && !fx.child.Exited() {
		fx.leakCheck("final")
		fx.r.Extra("goroutines."+p.name, map[string]any{"baseline": lib.SigString(fx.base.sigs), "final": lib.SigString(fx.finalSigs)})
		fx.r.Extra("fds."+p.name, fx.fdSeries)
	}
	fx.proxyEvidence()
}

// ---------------------------------------------------------------------------
// child management

func (fx *fixture) startAux() error {
	var err error
	if fx.origin, err = startOrigin(); err != nil {
		return err
	}
	switch fx.p.proxy {
	case "http":
		fx.hb, err = startHTTPMissBackend()
	case "grpc":
		fx.gb, err = startGRPCMissBackend()
	}
	return err
}

// startChild starts the fixture's server; a failed start is retried (the
// ports are picked before the child binds them, another job may grab one).
func (fx *fixture) startChild() error {
	var err error
	for attempt := 0; attempt < 3; attempt++ {
		if err = fx.startChildOnce(); err == nil {
			return nil
		}
		fx.r.Count("fixture." + fx.p.name + ".start-retries")
		time.Sleep(200 * time.Millisecond)
	}
	return err
}

func (fx *fixture) startChildOnce() error {
	if fx.dir == "" {
		fx.dir = lib.MkTemp("c14-" + fx.p.name)
	}
	var c *lib.Child
	var err error
	if fx.p.kind == "binary" {
		args := []string{"--experimental_remote_asset_api", "--storage_mode=" + fx.p.storage, "--access_log_level=all"}
		switch fx.p.proxy {
		case "http":
			args = append(args, "--http_proxy.url="+fx.hb.URL())
		case "grpc":
			args = append(args, "--grpc_proxy.url=grpc://"+fx.gb.Addr())
		}
		if !fx.p.validateAC {
			args = append(args, "--disable_http_ac_validation")
		}
		c, err = lib.StartBinary(lib.BinaryOpts{Dir: fx.dir, Args: args, WaitReady: 60 * time.Second})
	} else {
		args := []string{"-dir", fx.dir, "-max_size", fmt.Sprint(fx.p.maxSize), "-storage", fx.p.storage, "-zstd", fx.p.zstdImpl}
		if !fx.p.validateAC {
			args = append(args, "-no_http_validate")
		}
		c, err = lib.StartLauncher(args, nil)
	}
	if err != nil {
		if c != nil && c.Cmd != nil && c.Cmd.Process != nil {
			tail := c.LogTail(600)
			c.Stop()
			return fmt.Errorf("%v: %s", err, tail)
		}
		return err
	}
	fx.child = c
	fx.deathSeen = false
	fx.leakedFDs = map[string]int{}
	fx.leakedConns = map[string]int{}
	fx.leakedReserved, fx.leakedFiles, fx.leakedBackendConns = 0, 0, 0
	fx.logOff = 0
	fx.srv = lib.AttachServer(c.HTTPAddr, c.GRPCAddr)
	fx.srv.HTTPClient.Timeout = 0 // per-request contexts carry the deadline
	return nil
}

func (fx *fixture) stopChild() {
	if fx.srv != nil {
		fx.srv.CloseClient()
		fx.srv = nil
	}
	if fx.child != nil {
		if fx.child.Cmd != nil && fx.child.Cmd.Process != nil {
			fx.child.Stop()
		}
		fx.child = nil
	}
}

func (fx *fixture) stopAll() {
	fx.stopChild()
	if fx.origin != nil {
		fx.origin.Close()
	}
	if fx.hb != nil {
		fx.hb.Close()
	}
	if fx.gb != nil {
		fx.gb.Close()
	}
	if fx.dir != "" {
		_ = os.RemoveAll(fx.dir)
	}
}

// recover restarts a dead/wedged child on the same directory so that the
// exploration continues after a violation.
func (fx *fixture) recover() {
	fx.restarts++
	fx.r.Count("fixture." + fx.p.name + ".restarts")
	if fx.restarts > maxRestarts {
		fx.dead = true
		return
	}
	fx.stopChild()
	fx.origin.ReleaseStalls()
	if err := fx.startChild(); err != nil {
		fx.r.Inconclusive(fx.p.name + ": cannot restart child after a violation: " + err.Error())
		fx.dead = true
		return
	}
	fx.window = nil
	fx.windowKinds = map[string]int{}
	if !fx.warmup() {
		if fx.portStolen {
			fx.r.Inconclusive(fx.p.name + ": the restarted server could not bind its ports (taken by another process)")
		}
		fx.dead = true
	}
}

// ---------------------------------------------------------------------------
// journal + execution

func (fx *fixture) journalWrite(o *op) journalEntry {
	fx.seq++
	e := journalEntry{Seq: fx.seq, Fixture: fx.p.name, Ep: o.ep, Gen: o.gen, Desc: o.desc}
	b, err := json.Marshal(e)
	if err != nil {
		b, _ = json.Marshal(journalEntry{Seq: fx.seq, Fixture: fx.p.name, Ep: o.ep, Gen: o.gen, Desc: fmt.Sprint(o.desc)})
	}
	_, _ = fx.journal.Write(append(b, '\n'))
	fx.recent = append(fx.recent, e)
	if len(fx.recent) > 30 {
		fx.recent = fx.recent[len(fx.recent)-30:]
	}
	return e
}

func (fx *fixture) tail(n int) []journalEntry {
	if len(fx.recent) <= n {
		return append([]journalEntry(nil), fx.recent...)
	}
	return append([]journalEntry(nil), fx.recent[len(fx.recent)-n:]...)
}

func (fx *fixture) detail(extra map[string]any) map[string]any {
	d := map[string]any{
		"fixture":      fx.p.name,
		"config":       fmt.Sprintf("%+v", fx.p),
		"journal":      fx.journalPath,
		"last_entries": fx.tail(12),
		"how_to_replay": "re-run with the same VERIF_SEED and tier (the request list is a pure function of both); " +
			"the journal lists every request in the order sent, the last entries are the witness",
	}
	for k, v := range extra {
		d[k] = v
	}
	return d
}

func (fx *fixture) violation(key, what string, extra map[string]any) {
	fx.keepJournal = true
	fx.r.Violation(key, what, fx.detail(extra))
}

// reportDeath reports the end of the current child process once.
func (fx *fixture) reportDeath(ep, gen, what string, extra map[string]any) {
	if fx.deathSeen {
		return
	}
	fx.deathSeen = true
	if fx.deaths == nil {
		fx.deaths = map[string]int{}
	}
	fx.deaths[gen]++
	fx.child.WaitExit(5 * time.Second)
	if extra == nil {
		extra = map[string]any{}
	}
	if _, ok := extra["log"]; !ok {
		_, text := fx.child.Panicked()
		extra["log"] = text
	}
	extra["log_tail"] = fx.child.LogTail(1200)
	extra["exited"] = fx.child.Exited()
	extra["exit_code"] = fx.child.ExitCode()
	fx.violation("C14:death:"+ep+":"+gen, what, extra)
}

// scanLog looks at the child's log written since the last scan.
func (fx *fixture) scanLog() (string, string) {
	f, err := os.Open(fx.child.LogPath)
	if err != nil {
		return "", ""
	}
	defer func() { _ = f.Close() }()
	st, err := f.Stat()
	if err != nil || st.Size() <= fx.logOff {
		return "", ""
	}
	start := fx.logOff - 64 // overlap so that a marker split across scans is seen
	if start < 0 {
		start = 0
	}
	buf := make([]byte, st.Size()-start)
	n, _ := f.ReadAt(buf, start)
	s := string(buf[:n])
	fx.logOff = st.Size()
	for _, marker := range []string{"http: panic serving", "panic: ", "fatal error: ", "[signal SIG"} {
		if i := strings.Index(s, marker); i >= 0 {
			e := i + 1800
			if e > len(s) {
				e = len(s)
			}
			return marker, s[i:e]
		}
	}
	return "", ""
}

func (fx *fixture) exec(o *op) result {
	if !o.setup && fx.deaths[o.keyClass()] >= 3 {
		// this input class has killed the server three times in this run: established, keep exploring the rest
		fx.r.Count("skipped.crash-established." + o.keyClass())
		return result{status: "skipped"}
	}
	if o.abortOp || devFDCheckAll {
		fx.cacheFDsBefore() // descriptors an earlier request left behind are not this request's
	}
	fx.journalWrite(o)
	fx.lastOp = o
	ctx, cancel := context.WithTimeout(context.Background(), opTimeout)
	t0 := time.Now()
	res := o.run(ctx, fx)
	cancel()
	if devTimings { // developer aid: where does the time go
		fx.r.CountN("ms.run."+groupOf(o.gen), time.Since(t0).Milliseconds())
		if d := time.Since(t0); d > 700*time.Millisecond {
			fmt.Fprintf(os.Stderr, "SLOW %s %s %s %v -> %s %s\n", fx.p.name, o.ep, o.gen, d, res.status, res.note)
		}
		defer func(t time.Time) { fx.r.CountN("ms.judge."+groupOf(o.gen), time.Since(t).Milliseconds()) }(time.Now())
	}
	if o.setup {
		fx.r.Count("setup." + o.gen)
	} else {
		fx.fuzzOps++
		fx.window = append(fx.window, o)
		fx.windowKinds[o.gen]++
		fx.r.Eval()
		fx.r.Count("ep." + o.ep)
		fx.r.Count("gen." + o.gen)
		fx.r.Count("status." + o.ep + "|" + res.status)
		fx.r.Count("fixture." + fx.p.name + ".requests")
		fx.r.Distinct(fx.p.name, o.ep, o.gen, res.status)
		if fx.fuzzOps%97 == 1 {
			fx.r.Sample(map[string]any{"fixture": fx.p.name, "ep": o.ep, "gen": o.gen, "desc": o.desc, "status": res.status})
		}
	}
	fx.judge(o, res)
	return res
}

// judge applies the per-request oracles.
func (fx *fixture) judge(o *op, res result) {
	marker, text := fx.scanLog()
	if marker == "" && (o.abortOp || o.noRetry || strings.Contains(res.status, "(client-")) {
		// The client left before the server was done: give the server a moment
		// to trip over the request, so that a crash is attributed to this
		// request and not to the next one (attribution only, not a verdict).
		for i := 0; i < 10 && marker == "" && !fx.child.Exited(); i++ {
			time.Sleep(4 * time.Millisecond)
			marker, text = fx.scanLog()
		}
	}
	// (1)/(2) panic text in the child's log.
	if marker != "" {
		if marker == "http: panic serving" {
			fx.violation("C14:http-panic:"+o.ep+":"+o.keyClass(), "an HTTP handler panicked (recovered by net/http, logged by the server) while serving the journalled request",
				map[string]any{"log": text, "status": res.status})
		} else {
			fx.reportDeath(o.ep, o.keyClass(), fmt.Sprintf("the server process printed %q and died on the journalled request", strings.TrimSpace(marker)),
				map[string]any{"log": text, "status": res.status})
			return
		}
	}
	if res.transport || res.timeout {
		// Did the process die?
		if res.transport {
			fx.child.WaitExit(1500 * time.Millisecond)
		}
		if fx.child.Exited() {
			fx.reportDeath(o.ep, o.keyClass(), "the server process exited while serving the journalled request", map[string]any{"status": res.status})
			return
		}
		// Still able to answer at all?
		if !fx.livenessCheck("after " + res.status) {
			return
		}
		// The launcher keeps net/http's error log in memory: an aborted connection
		// (no response at all to a complete request, reproducibly, on a live server)
		// is the visible side of a recovered handler panic.
		if res.transport && strings.HasPrefix(o.ep, "http:") && !o.noRetry && !o.abortOp {
			ctx, cancel := context.WithTimeout(context.Background(), opTimeout)
			res2 := o.run(ctx, fx)
			cancel()
			fx.r.Count("abort-confirm." + res2.status)
			if marker, text := fx.scanLog(); marker != "" {
				fx.violation("C14:http-panic:"+o.ep+":"+o.keyClass(), "an HTTP handler panicked (recovered by net/http) while serving the journalled request",
					map[string]any{"log": text, "status": res2.status})
			} else if res2.transport && !fx.child.Exited() {
				if fx.livenessCheck("after repeated abort") {
					fx.violation("C14:http-abort:"+o.ep+":"+o.keyClass(), "the server reproducibly aborted the connection without any response to a complete request (the visible side of a recovered handler panic)",
						map[string]any{"first": res.status + " " + res.note, "second": res2.status + " " + res2.note})
				}
			}
		}
	}
	if fx.child.Exited() {
		fx.reportDeath(o.ep, o.keyClass(), "the server process exited while serving the journalled request", map[string]any{"status": res.status})
		return
	}
	// (3) malformed request answered with success.
	if o.mustFail && res.success {
		fx.violation("C14:malformed-accepted:"+o.ep+":"+o.keyClass(), "an unambiguously malformed request was answered with success ("+res.status+")",
			map[string]any{"status": res.status, "note": res.note, "generator": o.gen, "request": o.desc})
	}
	if o.after != nil && !fx.dead && !fx.child.Exited() {
		o.after(fx, res)
	}
	if o.abortOp && !fx.dead && !fx.child.Exited() {
		fx.cacheFDProbe(o)
	}
}

// ---------------------------------------------------------------------------
// M-live

// livenessCheck: process alive, no panic text, /status answering within a
// generous deadline. A server that stays silent is examined through the
// profiling port: handlers parked on the cache mutex in two dumps = wedged.
func (fx *fixture) livenessCheck(when string) bool {
	if fx.dead {
		return false
	}
	o := fx.lastOp
	ep, gen := "none", "none"
	if o != nil {
		ep, gen = o.ep, o.keyClass()
	}
	if fx.deathSeen {
		return false
	}
	if marker, text := fx.scanLog(); marker != "" && marker != "http: panic serving" {
		fx.reportDeath(ep, gen, "the server process printed a fatal error / panic", map[string]any{"log": text, "when": when})
		return false
	} else if marker != "" {
		fx.violation("C14:http-panic:"+ep+":"+gen, "an HTTP handler panicked (recovered by net/http)", map[string]any{"log": text, "when": when})
	}
	if fx.child.Exited() {
		fx.reportDeath(ep, gen, "the server process is gone", map[string]any{"when": when})
		return false
	}
	_, err := fx.statusPage()
	if err == nil {
		fx.r.Count("liveness.ok")
		return true
	}
	if fx.child.Exited() {
		fx.reportDeath(ep, gen, "the server process is gone", map[string]any{"when": when})
		return false
	}
	// /status did not answer within the generous deadline. Persistent state?
	d1, e1 := fx.child.GoroutineDump()
	time.Sleep(5 * time.Second)
	d2, e2 := fx.child.GoroutineDump()
	_, err2 := fx.statusPage()
	if err2 == nil {
		fx.r.Count("liveness.slow-but-alive")
		return true
	}
	if e1 != nil || e2 != nil {
		fx.r.Inconclusive(fmt.Sprintf("%s: /status silent (%v) and the profiling port gave no dump (%v / %v): cannot tell a wedged server from a stalled machine", fx.p.name, err, e1, e2))
		fx.dead = true
		return false
	}
	p1, p2 := parkedOnMutex(d1), parkedOnMutex(d2)
	if len(p1) == 0 || len(p2) == 0 {
		// silent, but no handler is parked on a lock below bazel-remote frames: not the persistent state we judge
		fx.r.Inconclusive(fmt.Sprintf("%s: /status silent after %s/%s (%v) but no handler goroutine is parked on a lock in the dumps", fx.p.name, ep, gen, err))
		fx.dead = true
		return false
	}
	fx.violation("C14:wedged:"+ep+":"+gen,
		fmt.Sprintf("after the journalled request /status no longer answers (two attempts of %v each); %d handler goroutines are parked on the cache mutex in two dumps 5 s apart: the server is wedged", statusWait, len(p2)),
		map[string]any{"when": when, "status_error": err.Error(), "parked_first_dump": p1, "parked_second_dump": p2, "signatures": lib.SigString(lib.GoroutineSignatures(d2))})
	// make the fixture usable again (the kill is ours, not a death of the server)
	fx.deathSeen = true
	fx.child.Kill()
	return false
}

func (fx *fixture) statusPage() (*lib.StatusPage, error) {
	resp, err := fx.statusClient.Get("http://" + fx.child.HTTPAddr + "/status")
	if err != nil {
		return nil, err
	}
	defer func() { _ = resp.Body.Close() }()
	var sp lib.StatusPage
	if resp.StatusCode != 200 {
		return nil, fmt.Errorf("/status answered %d", resp.StatusCode)
	}
	if err := json.NewDecoder(resp.Body).Decode(&sp); err != nil {
		return nil, err
	}
	return &sp, nil
}

// parkedOnMutex lists goroutines waiting for a sync.Mutex below a bazel-remote frame.
func parkedOnMutex(dump string) []string {
	var out []string
	for _, block := range strings.Split(dump, "\n\n") {
		if !strings.Contains(block, "sync.Mutex.Lock") && !strings.Contains(block, "sync.(*Mutex).Lock") && !strings.Contains(block, "semacquire") {
			continue
		}
		if !strings.Contains(block, "github.com/buchgr/bazel-remote/v2/") {
			continue
		}
		lines := strings.Split(block, "\n")
		var frames []string
		for _, l := range lines {
			if strings.HasPrefix(l, "github.com/buchgr/bazel-remote/v2/") {
				fn := l
				if i := strings.LastIndex(fn, "("); i > 0 {
					fn = fn[:i]
				}
				frames = append(frames, strings.TrimPrefix(fn, "github.com/buchgr/bazel-remote/v2/"))
			}
		}
		out = append(out, strings.Join(frames, " <- "))
	}
	sort.Strings(out)
	if len(out) > 12 {
		out = append(out[:12], fmt.Sprintf("... %d more", len(out)-12))
	}
	return out
}

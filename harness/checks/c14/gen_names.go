package c14

import (
	"context"
	"fmt"
	"math"
	"math/rand/v2"
	"strings"

	pb "github.com/buchgr/bazel-remote/v2/genproto/build/bazel/remote/execution/v2"

	bs "google.golang.org/genproto/googleapis/bytestream"

	"verif/harness/lib"
)

// ---------------------------------------------------------------------------
// hashes

var hashMuts = []string{"len63", "len65", "empty", "upper", "nonhex", "len128", "space", "unicode", "dotdot"}

func mutHash(rng *rand.Rand, kind string) string {
	h := lib.RandHash(rng)
	switch kind {
	case "len63":
		return h[:63]
	case "len65":
		return h + "a"
	case "empty":
		return ""
	case "upper":
		return strings.ToUpper(h[:20]) + "ABCDEF" + h[26:]
	case "nonhex":
		return h[:30] + "g" + h[31:]
	case "len128":
		return h + h
	case "space":
		return h[:32] + " " + h[33:]
	case "unicode":
		return h[:62] + "é" // 64 bytes, 63 characters
	case "dotdot":
		return "../" + h[:61]
	}
	return h
}

// ---------------------------------------------------------------------------
// resource-name grammar

type seg struct{ role, v string }

func nameSegs(write, compressed bool, inst, uuid, hash, size string, meta []string) []seg {
	var s []seg
	if inst != "" {
		for _, p := range strings.Split(inst, "/") {
			s = append(s, seg{"inst", p})
		}
	}
	if write {
		s = append(s, seg{"uploads", "uploads"}, seg{"uuid", uuid})
	}
	if compressed {
		s = append(s, seg{"kw", "compressed-blobs"}, seg{"comp", "zstd"})
	} else {
		s = append(s, seg{"kw", "blobs"})
	}
	s = append(s, seg{"hash", hash}, seg{"size", size})
	for _, m := range meta {
		s = append(s, seg{"meta", m})
	}
	return s
}

func joinSegs(s []seg) string {
	parts := make([]string, len(s))
	for i, x := range s {
		parts[i] = x.v
	}
	return strings.Join(parts, "/")
}

func dropRole(s []seg, role string) []seg {
	var out []seg
	done := false
	for _, x := range s {
		if x.role == role && !done {
			done = true
			continue
		}
		out = append(out, x)
	}
	return out
}

func dupRole(s []seg, role string) []seg {
	var out []seg
	for _, x := range s {
		out = append(out, x)
		if x.role == role {
			out = append(out, x)
		}
	}
	return out
}

func setRole(s []seg, role, v string) []seg {
	out := append([]seg(nil), s...)
	for i := range out {
		if out[i].role == role {
			out[i].v = v
		}
	}
	return out
}

type nameMut struct {
	name       string
	mustFail   bool
	writeOnly  bool
	compOnly   bool
	needsBlob  bool // keep the digest of a stored blob (the mutation is elsewhere)
	apply      func(rng *rand.Rand, s []seg) []seg
	wholeName  func(rng *rand.Rand) string // replaces the name entirely
	zeroSizeOK bool
}

func sizeMut(name, v string, mf bool) nameMut {
	return nameMut{name: "size-" + name, mustFail: mf, apply: func(_ *rand.Rand, s []seg) []seg { return setRole(s, "size", v) }}
}

var nameMuts = func() []nameMut {
	m := []nameMut{
		{name: "wellformed", needsBlob: true, apply: func(_ *rand.Rand, s []seg) []seg { return s }},
		{name: "wellformed-absent", apply: func(_ *rand.Rand, s []seg) []seg { return s }},
		{name: "drop-keyword", mustFail: true, apply: func(_ *rand.Rand, s []seg) []seg { return dropRole(s, "kw") }},
		{name: "drop-uploads", mustFail: true, writeOnly: true, apply: func(_ *rand.Rand, s []seg) []seg { return dropRole(s, "uploads") }},
		{name: "drop-uuid", mustFail: true, writeOnly: true, apply: func(_ *rand.Rand, s []seg) []seg { return dropRole(s, "uuid") }},
		{name: "drop-hash", mustFail: true, needsBlob: true, apply: func(_ *rand.Rand, s []seg) []seg { return dropRole(s, "hash") }},
		{name: "drop-size", mustFail: true, needsBlob: true, apply: func(_ *rand.Rand, s []seg) []seg { return dropRole(s, "size") }},
		{name: "drop-compressor", mustFail: true, compOnly: true, needsBlob: true, apply: func(_ *rand.Rand, s []seg) []seg { return dropRole(s, "comp") }},
		{name: "dup-hash", mustFail: true, needsBlob: true, apply: func(_ *rand.Rand, s []seg) []seg { return dupRole(s, "hash") }},
		{name: "dup-keyword", mustFail: true, needsBlob: true, apply: func(_ *rand.Rand, s []seg) []seg { return dupRole(s, "kw") }},
		{name: "dup-size", needsBlob: true, apply: func(_ *rand.Rand, s []seg) []seg { return dupRole(s, "size") }},
		{name: "trailing-metadata", needsBlob: true, apply: func(rng *rand.Rand, s []seg) []seg {
			for i := 0; i <= rng.IntN(4); i++ {
				s = append(s, seg{"meta", lib.Pick(rng, []string{"meta", "", "blobs", "uploads", "compressed-blobs", "1", "-1", strings.Repeat("m", 300), "é", "%2F"})})
			}
			return s
		}},
		sizeMut("nonnumeric", "abc", true), sizeMut("negative", "-1", true), sizeMut("minint", fmt.Sprint(int64(math.MinInt64)), true),
		sizeMut("overflow", "9223372036854775808", true), sizeMut("overflow-long", "99999999999999999999999999", true),
		sizeMut("space", " 5", true), sizeMut("hex", "0x10", true), sizeMut("empty", "", true), sizeMut("float", "5.0", true),
		sizeMut("exp", "1e3", true), sizeMut("plus", "+5", false), sizeMut("leading-zeros", "0005", false),
		sizeMut("zero-nonempty-hash", "0", true), sizeMut("maxint64", fmt.Sprint(int64(math.MaxInt64)), false),
		{name: "comp-unknown", mustFail: true, compOnly: true, needsBlob: true, apply: func(rng *rand.Rand, s []seg) []seg {
			return setRole(s, "comp", lib.Pick(rng, []string{"gzip", "deflate", "brotli", "identity", "zstd1", "zst", "snappy"}))
		}},
		{name: "comp-empty", mustFail: true, compOnly: true, needsBlob: true, apply: func(_ *rand.Rand, s []seg) []seg { return setRole(s, "comp", "") }},
		{name: "comp-upper", mustFail: true, compOnly: true, needsBlob: true, apply: func(_ *rand.Rand, s []seg) []seg { return setRole(s, "comp", "ZSTD") }},
		{name: "keywords-odd-places", needsBlob: true, apply: func(rng *rand.Rand, s []seg) []seg {
			for i := 0; i <= rng.IntN(3); i++ {
				at := rng.IntN(len(s) + 1)
				kw := seg{"extra", lib.Pick(rng, []string{"uploads", "blobs", "compressed-blobs", "zstd", "ac", "cas"})}
				s = append(s[:at], append([]seg{kw}, s[at:]...)...)
			}
			return s
		}},
		{name: "instance-odd", needsBlob: true, apply: func(rng *rand.Rand, s []seg) []seg {
			inst := lib.Pick(rng, []string{"a/b/c", "é", "a b", strings.Repeat("i", 5000), "", "..", "%00", "a//b", "instance\twith\ttabs"})
			var pre []seg
			for _, p := range strings.Split(inst, "/") {
				pre = append(pre, seg{"inst", p})
			}
			return append(pre, s...)
		}},
		{name: "leading-slash", needsBlob: true, apply: func(_ *rand.Rand, s []seg) []seg { return append([]seg{{"inst", ""}}, s...) }},
		{name: "empty-name", mustFail: true, wholeName: func(*rand.Rand) string { return "" }},
		{name: "only-slashes", mustFail: true, wholeName: func(rng *rand.Rand) string { return strings.Repeat("/", 1+rng.IntN(40)) }},
		{name: "huge-garbage", mustFail: true, wholeName: func(rng *rand.Rand) string {
			var sb strings.Builder
			for sb.Len() < 70000 {
				sb.WriteByte("abcdefghijklmnopqrstuvwxyz0123456789-_.~/"[rng.IntN(41)])
			}
			// no grammar keyword may appear by accident
			s := sb.String()
			for _, kw := range []string{"blobs", "uploads"} {
				s = strings.ReplaceAll(s, kw, "xxxxx")
			}
			return s
		}},
	}
	for _, k := range hashMuts {
		k := k
		m = append(m, nameMut{name: "hash-" + k, mustFail: true, apply: func(rng *rand.Rand, s []seg) []seg { return setRole(s, "hash", mutHash(rng, k)) }})
	}
	return m
}()

// buildName returns the (possibly mutated) resource name, the payload that
// would be a correct upload for the unmutated name, and a description.
func buildName(fx *fixture, rng *rand.Rand, m nameMut, write bool) (string, []byte, map[string]any) {
	compressed := m.compOnly || rng.IntN(3) == 0
	var hash string
	var size int64
	var payload []byte
	switch {
	case write:
		// fresh content so that the upload is not short-circuited by "already exists"
		payload = lib.GenBlob(rng, 1+rng.IntN(3000), "random", fmt.Sprintf("c14w/%s/%d", fx.p.name, fx.seq))
		hash, size = lib.Sha256Hex(payload), int64(len(payload))
		if m.needsBlob && rng.IntN(4) == 0 {
			b := lib.Pick(rng, fx.pool.small)
			payload, hash, size = b.data, b.hash, b.size
		}
	case m.needsBlob || rng.IntN(2) == 0:
		b := lib.Pick(rng, fx.pool.small)
		hash, size = b.hash, b.size
	default:
		hash, size = lib.RandHash(rng), int64(1+rng.IntN(100000))
	}
	if m.name == "wellformed-absent" {
		hash = lib.RandHash(rng)
	}
	inst := lib.Pick(rng, []string{"", "", "main", "a/b"})
	meta := []string(nil)
	if write && rng.IntN(4) == 0 {
		meta = []string{"some-metadata"}
	}
	name := ""
	if m.wholeName != nil {
		name = m.wholeName(rng)
	} else {
		s := nameSegs(write, compressed, inst, "c14-"+fmt.Sprint(rng.Uint32()), hash, fmt.Sprint(size), meta)
		name = joinSegs(m.apply(rng, s))
	}
	if compressed && write {
		payload = lib.ZstdEncodeKP(payload, 1)
	}
	return name, payload, map[string]any{"name": clip(name, 300), "name_len": len(name), "compressed": compressed}
}

func init() {
	always := func(plan, quickness) bool { return true }
	for _, m := range nameMuts {
		m := m
		if !m.writeOnly {
			register(variant{fam: "resname.read", name: m.name, applies: always, build: func(fx *fixture, rng *rand.Rand) []*op {
				name, _, d := buildName(fx, rng, m, false)
				return []*op{{ep: "grpc:ByteStream.Read", desc: d, mustFail: m.mustFail, run: func(ctx context.Context, fx *fixture) result {
					_, err := fx.srv.BSRead(ctx, name, 0, 0)
					return grpcRes(err)
				}}}
			}})
		}
		register(variant{fam: "resname.qws", name: m.name, applies: always, build: func(fx *fixture, rng *rand.Rand) []*op {
			name, _, d := buildName(fx, rng, m, true)
			return []*op{{ep: "grpc:ByteStream.QueryWriteStatus", desc: d, mustFail: m.mustFail, run: func(ctx context.Context, fx *fixture) result {
				_, err := fx.srv.BS.QueryWriteStatus(ctx, &bs.QueryWriteStatusRequest{ResourceName: name})
				return grpcRes(err)
			}}}
		}})
		register(variant{fam: "resname.write", name: m.name, applies: always, build: func(fx *fixture, rng *rand.Rand) []*op {
			name, payload, d := buildName(fx, rng, m, true)
			chunk := lib.Pick(rng, []int{0, 1000, 100})
			return []*op{{ep: "grpc:ByteStream.Write", desc: d, mustFail: m.mustFail, run: func(ctx context.Context, fx *fixture) result {
				_, err := fx.srv.BSWrite(ctx, name, payload, chunk)
				return grpcRes(err)
			}}}
		}})
	}

	// -----------------------------------------------------------------------
	// offsets / limits of ByteStream.Read
	type offCase struct {
		name     string
		mustFail bool
		f        func(size int64) (int64, int64)
	}
	offs := []offCase{
		{"offset-negative", true, func(int64) (int64, int64) { return -1, 0 }},
		{"offset-minint", true, func(int64) (int64, int64) { return math.MinInt64, 0 }},
		{"offset-eq-size", false, func(s int64) (int64, int64) { return s, 0 }},
		{"offset-gt-size", true, func(s int64) (int64, int64) { return s + 1, 0 }},
		{"offset-maxint", true, func(int64) (int64, int64) { return math.MaxInt64, 0 }},
		{"offset-last-byte", false, func(s int64) (int64, int64) { return s - 1, 0 }},
		{"limit-negative", true, func(int64) (int64, int64) { return 0, -1 }},
		{"limit-minint", true, func(int64) (int64, int64) { return 0, math.MinInt64 }},
		{"limit-one", false, func(int64) (int64, int64) { return 0, 1 }},
		{"limit-eq-size", false, func(s int64) (int64, int64) { return 0, s }},
		{"limit-maxint", false, func(int64) (int64, int64) { return 1, math.MaxInt64 }},
		{"offset-plus-limit-overflow", false, func(s int64) (int64, int64) { return s - 1, math.MaxInt64 }},
		{"both-negative", true, func(int64) (int64, int64) { return -5, -5 }},
	}
	for _, c := range offs {
		c := c
		for _, target := range []string{"stored", "stored-zstd", "large", "empty", "empty-zstd", "absent"} {
			target := target
			mf := c.mustFail
			if target == "absent" {
				mf = false // NotFound is as good as OutOfRange there; both are errors anyway
			}
			register(variant{fam: "offsets." + target, name: c.name, applies: always, build: func(fx *fixture, rng *rand.Rand) []*op {
				var hash string
				var size int64
				var pre []*op
				switch target {
				case "stored", "stored-zstd":
					b := lib.Pick(rng, fx.pool.small[3:])
					hash, size = b.hash, b.size
					pre = append(pre, ensureOp(b))
				case "large":
					b := lib.Pick(rng, fx.pool.large)
					hash, size = b.hash, b.size
					pre = append(pre, ensureOp(b))
				case "empty", "empty-zstd":
					hash, size = lib.EmptySha256, 0
				default:
					hash, size = lib.RandHash(rng), 12345
				}
				off, lim := c.f(size)
				name := lib.ResBlobs(hash, size)
				if strings.HasSuffix(target, "-zstd") || (target == "large" && rng.IntN(2) == 0) {
					name = lib.ResZstd(hash, size)
				}
				o := &op{ep: "grpc:ByteStream.Read", mustFail: mf, class: offClass(target),
					desc: map[string]any{"name": name, "read_offset": off, "read_limit": lim},
					run: func(ctx context.Context, fx *fixture) result {
						_, err := fx.srv.BSRead(ctx, name, off, lim)
						return grpcRes(err)
					}}
				return append(pre, o)
			}})
		}
	}
}

// ---------------------------------------------------------------------------
// digests

type digestMut struct {
	name     string
	mustFail bool
	f        func(rng *rand.Rand, present *blob) *pb.Digest
}

var digestMuts = func() []digestMut {
	m := []digestMut{
		{"nil", true, func(*rand.Rand, *blob) *pb.Digest { return nil }},
		{"zero-value", true, func(*rand.Rand, *blob) *pb.Digest { return &pb.Digest{} }},
		{"size0-nonempty-hash", true, func(_ *rand.Rand, b *blob) *pb.Digest { return &pb.Digest{Hash: b.hash, SizeBytes: 0} }},
		{"emptyhash-size5", false, func(*rand.Rand, *blob) *pb.Digest { return &pb.Digest{Hash: lib.EmptySha256, SizeBytes: 5} }},
		{"size-negative", true, func(_ *rand.Rand, b *blob) *pb.Digest { return &pb.Digest{Hash: b.hash, SizeBytes: -1} }},
		{"size-negative-absent", true, func(rng *rand.Rand, _ *blob) *pb.Digest {
			return &pb.Digest{Hash: lib.RandHash(rng), SizeBytes: -int64(1 + rng.IntN(1000))}
		}},
		{"size-minint", true, func(_ *rand.Rand, b *blob) *pb.Digest { return &pb.Digest{Hash: b.hash, SizeBytes: math.MinInt64} }},
		{"size-maxint", false, func(_ *rand.Rand, b *blob) *pb.Digest { return &pb.Digest{Hash: b.hash, SizeBytes: math.MaxInt64} }},
		{"size-off-by-one", false, func(_ *rand.Rand, b *blob) *pb.Digest { return &pb.Digest{Hash: b.hash, SizeBytes: b.size + 1} }},
		{"absent", false, func(rng *rand.Rand, _ *blob) *pb.Digest { return &pb.Digest{Hash: lib.RandHash(rng), SizeBytes: 77} }},
	}
	for _, k := range hashMuts {
		k := k
		m = append(m, digestMut{"hash-" + k, true, func(rng *rand.Rand, b *blob) *pb.Digest {
			return &pb.Digest{Hash: mutHash(rng, k), SizeBytes: b.size}
		}})
	}
	return m
}()

func descDigest(d *pb.Digest) any {
	if d == nil {
		return nil
	}
	return map[string]any{"hash": clip(d.Hash, 140), "size": d.SizeBytes}
}

// class collapses variants with one root cause into one finding key.
func (d digestMut) class() string {
	switch d.name {
	case "size-negative", "size-negative-absent", "size-minint":
		return "digest.negative-size"
	}
	return ""
}

func offClass(target string) string {
	if strings.HasPrefix(target, "empty") {
		return "offsets.empty-blob.invalid-offset-or-limit"
	}
	return ""
}

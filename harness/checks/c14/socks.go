package c14

import (
	"fmt"
	"os"
	"path/filepath"
	"strconv"
	"strings"
)

// Connection table of the child: /proc/<pid>/fd gives the socket inodes the
// process holds, /proc/<pid>/net/tcp{,6} the state and the two ends of every
// socket of the namespace.

type sockInfo struct {
	localPort, remotePort int
	state                 string // "ESTABLISHED", "CLOSE_WAIT", "LISTEN", ...
}

var tcpStates = map[string]string{"01": "ESTABLISHED", "02": "SYN_SENT", "03": "SYN_RECV", "04": "FIN_WAIT1", "05": "FIN_WAIT2",
	"06": "TIME_WAIT", "07": "CLOSE", "08": "CLOSE_WAIT", "09": "LAST_ACK", "0A": "LISTEN", "0B": "CLOSING"}

func childSockets(pid int) ([]sockInfo, error) {
	inodes := map[string]bool{}
	dir := fmt.Sprintf("/proc/%d/fd", pid)
	es, err := os.ReadDir(dir)
	if err != nil {
		return nil, err
	}
	for _, e := range es {
		t, err := os.Readlink(filepath.Join(dir, e.Name()))
		if err == nil && strings.HasPrefix(t, "socket:[") {
			inodes[strings.TrimSuffix(strings.TrimPrefix(t, "socket:["), "]")] = true
		}
	}
	var out []sockInfo
	for _, f := range []string{"tcp", "tcp6"} {
		b, err := os.ReadFile(fmt.Sprintf("/proc/%d/net/%s", pid, f))
		if err != nil {
			continue
		}
		for i, line := range strings.Split(string(b), "\n") {
			fs := strings.Fields(line)
			if i == 0 || len(fs) < 10 || !inodes[fs[9]] {
				continue
			}
			port := func(addr string) int {
				if j := strings.LastIndexByte(addr, ':'); j >= 0 {
					v, _ := strconv.ParseInt(addr[j+1:], 16, 32)
					return int(v)
				}
				return 0
			}
			st := tcpStates[fs[3]]
			if st == "" {
				st = fs[3]
			}
			out = append(out, sockInfo{localPort: port(fs[1]), remotePort: port(fs[2]), state: st})
		}
	}
	return out, nil
}

func portOf(addr string) int {
	if j := strings.LastIndexByte(addr, ':'); j >= 0 {
		v, _ := strconv.Atoi(addr[j+1:])
		return v
	}
	return 0
}

// connTrouble evaluates the table at quiescence:
//   - a socket in CLOSE_WAIT: the peer has gone, the server still holds its end;
//   - more connections to one outgoing peer (origin, proxy backend) than an idle
//     pool keeps (net/http keeps two per host; four are tolerated): requests
//     that ended still hold theirs;
//   - accepted connections still established although every client connection
//     of the harness but the one shared gRPC channel has been closed.
func (fx *fixture) connTrouble() (map[string]int, error) {
	socks, err := childSockets(fx.child.Pid())
	if err != nil {
		return nil, err
	}
	peers := map[int]string{portOf(fx.origin.ln.Addr().String()): "origin"}
	if fx.hb != nil {
		peers[portOf(fx.hb.ln.Addr().String())] = "http-backend"
	}
	if fx.gb != nil {
		peers[portOf(fx.gb.ln.Addr().String())] = "grpc-backend"
	}
	httpPort, grpcPort := portOf(fx.child.HTTPAddr), portOf(fx.child.GRPCAddr)
	out := map[string]int{}
	counts := map[string]int{}
	for _, s := range socks {
		switch {
		case s.state == "CLOSE_WAIT":
			out["close-wait"]++
		case s.state == "ESTABLISHED" && peers[s.remotePort] != "":
			counts["outgoing:"+peers[s.remotePort]]++
		case s.state == "ESTABLISHED" && s.localPort == httpPort:
			counts["accepted:http"]++
		case s.state == "ESTABLISHED" && s.localPort == grpcPort:
			counts["accepted:grpc"]++
		}
	}
	if fx.baseConns == nil {
		// first evaluation = warm-up baseline (the launcher, for example, keeps a
		// gRPC channel to itself; the harness keeps one shared channel)
		fx.baseConns = counts
		return out, nil
	}
	for k, v := range counts {
		switch {
		case strings.HasPrefix(k, "outgoing:") && v > 4 && v > fx.baseConns[k]:
			out[k] = v
		case strings.HasPrefix(k, "accepted:") && v > fx.baseConns[k]:
			out[k] = v
		}
	}
	return out, nil
}

package c14

import (
	"bytes"
	"context"
	"fmt"
	"math/rand/v2"
	"os"
	"strings"
	"sync"
	"time"

	asset "github.com/buchgr/bazel-remote/v2/genproto/build/bazel/remote/asset/v1"
	pb "github.com/buchgr/bazel-remote/v2/genproto/build/bazel/remote/execution/v2"

	bs "google.golang.org/genproto/googleapis/bytestream"
	"google.golang.org/grpc"
	"google.golang.org/grpc/codes"
	"google.golang.org/grpc/credentials/insecure"
	"google.golang.org/grpc/status"

	"verif/harness/lib"
)

// Backend-fault dimension: every handler that reads blobs through the cache,
// on the fixtures with a proxy backend, while the backend misbehaves for the
// keys of the request (backend.go: error statuses, connections lost, stalls
// until the client gives up, short / oversize / wrong payloads, backend-only
// hits). The verdicts are the persistent-state oracles: after the request has
// ended (answered, or given up by its client) the server is alive and holds
// nothing for it - judged right after the request (quietOracle) and again by
// the periodic leak check.

func hasProxy(p plan, _ quickness) bool { return p.proxy != "" }

func (fx *fixture) be() *faultTable {
	switch {
	case fx.hb != nil:
		return fx.hb.t
	case fx.gb != nil:
		return fx.gb.t
	}
	return nil
}

func newContentRng(data []byte) *rand.Rand {
	s := uint64(1469598103934665603)
	for i := 0; i < len(data) && i < 64; i++ {
		s = (s ^ uint64(data[i])) * 1099511628211
	}
	return rand.New(rand.NewPCG(s, uint64(len(data))))
}

var grpcFaultCodes = []codes.Code{codes.Unavailable, codes.Internal, codes.Unknown, codes.ResourceExhausted, codes.PermissionDenied,
	codes.DeadlineExceeded, codes.DataLoss, codes.Unauthenticated, codes.Aborted, codes.Canceled, codes.FailedPrecondition}

// allFaultKinds is the union over the backends; faultApplies selects.
var allFaultKinds = func() []string {
	ks := []string{"miss", "hit", "kill", "down", "stall", "trickle", "short", "short-cut", "oversize", "wrong-data", "empty",
		"status-400", "status-403", "status-429", "status-500", "status-502", "status-503", "status-504", "reset", "close-empty", "nocl", "huge-cl", "bad-cl", "redirect-loop"}
	for _, c := range grpcFaultCodes {
		ks = append(ks, "code-"+c.String())
	}
	ks = append(ks, "plain-zstd", "garbage")
	for _, hm := range hdrMuts {
		ks = append(ks, "hdr-"+hm.name)
	}
	return ks
}()

func faultApplies(p plan, kind string) bool {
	switch {
	case p.proxy == "":
		return false
	case strings.HasPrefix(kind, "status-"), kind == "reset", kind == "close-empty", kind == "nocl", kind == "huge-cl", kind == "bad-cl", kind == "redirect-loop":
		return p.proxy == "http"
	case strings.HasPrefix(kind, "code-"):
		return p.proxy == "grpc"
	case kind == "plain-zstd", kind == "garbage", strings.HasPrefix(kind, "hdr-"):
		return p.proxy == "grpc" && p.storage == "zstd"
	}
	return true
}

func faultKinds(p plan) []string {
	var ks []string
	for _, k := range allFaultKinds {
		if faultApplies(p, k) {
			ks = append(ks, k)
		}
	}
	return ks
}

// errorKinds: the lookup of the key fails with an error (not a miss, not a hit).
func errorKinds(p plan) []string {
	if p.proxy == "http" {
		return []string{"status-500", "status-503", "status-403", "reset", "kill", "down", "short-cut", "bad-cl"}
	}
	return []string{"code-Unavailable", "code-Internal", "code-ResourceExhausted", "code-PermissionDenied", "kill", "down", "short-cut"}
}

// faultClass is the coarser name used in finding keys.
func faultClass(kind string) string {
	switch {
	case kind == "miss", kind == "hit":
		return "backend-" + kind
	case strings.HasPrefix(kind, "status-"), strings.HasPrefix(kind, "code-"):
		return "backend-error-status"
	case kind == "kill", kind == "down", kind == "reset", kind == "close-empty":
		return "backend-connection-lost"
	case kind == "stall", kind == "trickle":
		return "backend-stalls.client-gives-up"
	case kind == "unreservable":
		return "size-cannot-be-reserved"
	}
	return "backend-bad-payload"
}

func stalls(kind string) bool { return kind == "stall" || kind == "trickle" }

// ---------------------------------------------------------------------------
// running one request against a scripted backend

type proxyCall func(ctx context.Context, fx *fixture) result

// runFaulted sends the request with the given rules installed. The client
// gives up (cancels) once the backend holds a lookup of the request (stalling
// kinds) or after a deadline of its own; what the server keeps after that is
// the business of the oracles, the expiry itself is never a verdict.
func (fx *fixture) runFaulted(ctx context.Context, rules map[string]*faultRule, down bool, waitStall bool, pause time.Duration, call proxyCall) result {
	t := fx.be()
	t.reset()
	kills := down
	for h, r := range rules {
		t.set(h, r)
		kills = kills || r.kind == "kill"
	}
	if kills {
		fx.connCensus("before the harness resets the backend's connections")
	}
	before, resetsBefore := t.lookups.Load(), t.ln.resets.Load()
	if down {
		t.ln.down.Store(true)
		t.ln.killAll()
	}
	cctx, cancel := context.WithCancel(ctx)
	defer cancel()
	done := make(chan result, 1)
	go func() { done <- call(cctx, fx) }()
	var res result
	gaveUp := ""
	giveUp := time.NewTimer(8 * time.Second)
	defer giveUp.Stop()
	tick := time.NewTicker(time.Millisecond)
	defer tick.Stop()
wait:
	for {
		select {
		case res = <-done:
			break wait
		case <-giveUp.C:
			gaveUp = "(client-gave-up)"
			t.forget()
			cancel()
			res = <-done
			break wait
		case <-tick.C:
			if waitStall && t.held.Load() > 0 {
				time.Sleep(pause)
				gaveUp = "(client-gave-up-while-backend-stalls)"
				fx.r.Count("proxy.stall.client-left-while-backend-held-the-lookup")
				t.forget()
				cancel()
				res = <-done
				break wait
			}
		}
	}
	t.forget()
	if down {
		t.ln.down.Store(false)
	}
	if gaveUp != "" {
		res = result{status: res.status + gaveUp, note: res.note}
	}
	if n, rst := t.lookups.Load()-before, t.ln.resets.Load()-resetsBefore; n > 0 || (down && rst > 0) {
		// (a backend that is down is reached when it has reset a connection attempt of the server)
		fx.r.Count("proxy.backend-reached")
		res.note = strings.TrimSpace(res.note + fmt.Sprintf(" [backend lookups: %d, connections reset: %d]", n, rst))
	} else {
		fx.r.Count("proxy.backend-not-reached")
	}
	return res
}

// connCensus counts, with the server settled (no handler, no background upload
// at work), the connections the server holds to its backend: an idle pool keeps
// a few (net/http two per host, a gRPC channel one; four are tolerated, as in
// the periodic check), requests that have ended must not hold theirs. The
// harness sees its own end of every connection, so the census is cheap; it is
// taken after every judged proxy request and, above all, before the harness
// itself resets the backend's connections (which would destroy the evidence).
func (fx *fixture) connCensus(when string) {
	t := fx.be()
	if t == nil || fx.dead || fx.child.Exited() {
		return
	}
	n := t.ln.open()
	if n <= 4 || n <= fx.leakedBackendConns {
		return
	}
	// more than an idle pool: settled? (uploads and late handlers close theirs)
	deadline := time.Now().Add(settleMax)
	if fx.leakedBackendConns > 0 {
		deadline = time.Now().Add(3 * time.Second)
	}
	sleep := 10 * time.Millisecond
	for {
		clean, err := fx.settleLight(time.Second)
		if err != nil {
			return
		}
		n = t.ln.open()
		if n <= 4 || n <= fx.leakedBackendConns {
			return
		}
		if clean && time.Now().After(deadline) {
			break
		}
		time.Sleep(sleep)
		if sleep < time.Second {
			sleep *= 2
		}
	}
	peer := "http-backend"
	if fx.gb != nil {
		peer = "grpc-backend"
	}
	fx.violation("C14:leak:conn:outgoing:"+peer,
		fmt.Sprintf("the server holds %d connections to its %s although no request, handler or background upload is at work (an idle pool keeps at most two): requests that ended still hold their backend connection", n, peer),
		map[string]any{"when": when, "count": n, "reported_before": fx.leakedBackendConns, "requests_since_last_clean_check": fx.windowSummary()})
	fx.leakedBackendConns = n
}

// backendUpOp: after the backend's connections were reset the server's gRPC
// channel to it reconnects with back-off; wait (bounded) until lookups arrive
// again, so that the next scenarios meet the backend and not the back-off.
func backendUpOp() *op {
	return &op{ep: "setup", gen: "setup.backend-up", setup: true, desc: "wait until the server reaches its backend again",
		run: func(ctx context.Context, fx *fixture) result {
			t := fx.be()
			t.reset()
			rng := rand.New(rand.NewPCG(uint64(fx.seq), 14))
			deadline := time.Now().Add(10 * time.Second)
			for {
				before := t.lookups.Load()
				_, _ = fx.srv.FindMissing(ctx, &pb.Digest{Hash: lib.RandHash(rng), SizeBytes: 7})
				if t.lookups.Load() > before {
					return result{status: "ok", success: true}
				}
				if time.Now().After(deadline) || ctx.Err() != nil {
					fx.r.Count("proxy.backend-still-unreachable-after-reset")
					return result{status: "backend-unreachable"}
				}
				time.Sleep(50 * time.Millisecond)
			}
		}}
}

// settleLight is the cheap part of the leak observation, polled with back-off:
// goroutine signatures against the baseline and /status ReservedSize. (The
// descriptor, directory and connection tables are the periodic check's job;
// they are read here only once something is already wrong.)
func (fx *fixture) settleLight(max time.Duration) (clean bool, err error) {
	deadline := time.Now().Add(max)
	hard := deadline.Add(120 * time.Second)
	sleep := 10 * time.Millisecond
	for {
		dump, err := fx.child.GoroutineDump()
		if err != nil {
			return false, err
		}
		diff := lib.SigDiff(fx.base.sigs, lib.GoroutineSignatures(dump))
		sp, err := fx.statusPage()
		if err != nil {
			return false, err
		}
		if len(diff) == 0 && sp.ReservedSize == fx.leakedReserved {
			return true, nil
		}
		if time.Now().After(deadline) {
			// a handler that is still working (not parked) belongs to a request that has not ended yet
			if len(liveSigs(diff)) == 0 || time.Now().After(hard) {
				return false, nil
			}
			fx.r.Count("slow-handler.waited-for")
		}
		time.Sleep(sleep)
		if sleep < 2*time.Second {
			sleep *= 2
		}
	}
}

// quietOracle runs right after a request of the proxy slices has ended (the
// client has its answer or has given up; the backend may still be holding the
// lookup): after a generous settle period the server must hold nothing that
// the warm-up baseline does not have - no parked goroutine in bazel-remote
// code, no reserved bytes (and, looked at once either of these is wrong: no
// temporary file, no descriptor on a cache file, no connection). Persistent
// state decides, never the time a request took.
func (fx *fixture) quietOracle(o *op) {
	if fx.dead || fx.child.Exited() {
		return
	}
	wait := settleMax
	if fx.heldSeen >= 2 {
		wait = 3 * time.Second // established twice with the generous period on this fixture; keep exploring
	}
	clean, err := fx.settleLight(wait)
	if err != nil {
		return // liveness is judged by the batch check
	}
	if clean {
		fx.r.Count("proxy.quiet-after-request")
		fx.connCensus("after the request")
		return
	}
	obs := fx.settle(2 * time.Second)
	if obs.err != nil {
		return // liveness is judged by the batch check
	}
	// what earlier requests left behind (reported then) is not this request's
	newReserved := obs.reserved != fx.leakedReserved
	newFiles := obs.dirFiles-obs.numFiles > fx.leakedFiles
	if len(obs.sigDiff) == 0 && !newReserved && !newFiles && len(obs.cacheFDs) == 0 && len(obs.conns) == 0 {
		fx.r.Count("proxy.quiet-after-request")
		return // gone in the meantime
	}
	if live := liveSigs(obs.sigDiff); len(live) > 0 {
		fx.r.Inconclusive(fmt.Sprintf("%s: handler goroutine(s) still working, not parked, long after the client of %s/%s left: %v", fx.p.name, o.ep, o.gen, live))
		return
	}
	fx.heldSeen++
	held := int64(0)
	if t := fx.be(); t != nil {
		held = t.held.Load()
	}
	prefix := "C14:held-after-end:" + o.ep + ":" + o.keyClass() + ":"
	common := map[string]any{"request": o.desc, "generator": o.gen, "backend_still_holding_lookups": held, "requests_since_last_clean_check": fx.windowSummary()}
	with := func(extra map[string]any) map[string]any {
		m := map[string]any{}
		for k, v := range common {
			m[k] = v
		}
		for k, v := range extra {
			m[k] = v
		}
		return m
	}
	for sig, n := range obs.sigDiff {
		fn := sigFunc(sig)
		fx.violation(prefix+"goroutine:"+fn,
			fmt.Sprintf("%d goroutine(s) %q not in the warm-up baseline are still parked %v after the request ended (answered or given up by its client)", n, sig, wait),
			with(map[string]any{"signature": sig, "count": n, "stacks": stacksFor(obs.dump, fn, 2)}))
	}
	if newReserved {
		fx.violation(prefix+"reserved-size", fmt.Sprintf("/status ReservedSize = %d (%d before this request) although the request has ended and nothing else is in flight", obs.reserved, fx.leakedReserved), with(nil))
		fx.leakedReserved = obs.reserved
	}
	if newFiles {
		fx.violation(prefix+"files-beyond-numfiles", fmt.Sprintf("%d files in the cache directory but /status NumFiles = %d after the request ended (temporary file left behind; %d unaccounted files before this request)", obs.dirFiles, obs.numFiles, fx.leakedFiles),
			with(map[string]any{"some_files": obs.extraFiles}))
		fx.leakedFiles = obs.dirFiles - obs.numFiles
	}
	if len(obs.cacheFDs) > 0 {
		fx.violation(prefix+"fd:cache-file", fmt.Sprintf("%d descriptor(s) on cache files still open after the request ended", len(obs.cacheFDs)),
			with(map[string]any{"open_cache_files": head(obs.cacheFDs, 8), "fdinfo": fx.fdInfo()}))
		fx.rememberCacheFDs(obs.cacheFDs)
	}
	for k, v := range obs.conns {
		fx.violation(prefix+"conn:"+k, fmt.Sprintf("%d connection(s) of kind %q still held after the request ended", v, k), with(nil))
		if fx.leakedConns == nil {
			fx.leakedConns = map[string]int{}
		}
		fx.leakedConns[k] = v
	}
	// reported here: the periodic check compares with the current level
	for k, v := range obs.sigs {
		if v > fx.base.sigs[k] {
			fx.base.sigs[k] = v
		}
	}
}

// ---------------------------------------------------------------------------
// readers: one per handler path that reads a blob (or asks for it) through the cache

type proxyReader struct {
	name    string
	ep      string
	applies func(p plan) bool // nil: every proxy fixture
	wantDir bool              // the target blob is a Directory message
	acKey   bool              // the target is an action-cache entry held by the backend only
	build   func(fx *fixture, rng *rand.Rand, tgt *blob) (desc map[string]any, setup []*op, call proxyCall)
}

func uniqTag(fx *fixture, rng *rand.Rand) string {
	return fmt.Sprintf("px-%s-%d-%d", fx.p.name, fx.seq, rng.Uint32())
}

func storeAROp(gen string, key *pb.Digest, ar *pb.ActionResult) *op {
	return &op{ep: "grpc:AC.UpdateActionResult", gen: gen + "/store-ac", setup: true, desc: map[string]any{"key": key.Hash, "output_files": len(ar.OutputFiles), "output_directories": len(ar.OutputDirectories)},
		run: func(ctx context.Context, fx *fixture) result {
			_, err := fx.srv.AC.UpdateActionResult(ctx, &pb.UpdateActionResultRequest{ActionDigest: key, ActionResult: ar})
			return grpcRes(err)
		}}
}

var proxyReaders = []proxyReader{
	{name: "bsread", ep: "grpc:ByteStream.Read", build: func(fx *fixture, rng *rand.Rand, tgt *blob) (map[string]any, []*op, proxyCall) {
		zs := rng.IntN(2) == 0
		name := lib.ResBlobs(tgt.hash, tgt.size)
		if zs {
			name = lib.ResZstd(tgt.hash, tgt.size)
		}
		off := int64(0)
		if rng.IntN(3) == 0 && tgt.size > 1 {
			off = rng.Int64N(tgt.size)
		}
		return map[string]any{"name": name, "offset": off}, nil, func(ctx context.Context, fx *fixture) result {
			_, err := fx.srv.BSRead(ctx, name, off, 0)
			return grpcRes(err)
		}
	}},
	{name: "batchread", ep: "grpc:CAS.BatchReadBlobs", build: func(fx *fixture, rng *rand.Rand, tgt *blob) (map[string]any, []*op, proxyCall) {
		zs := rng.IntN(2) == 0
		ds := []*pb.Digest{fx.pool.small[4].digest(), tgt.digest(), {Hash: lib.RandHash(rng), SizeBytes: 11}}
		rng.Shuffle(len(ds), func(i, j int) { ds[i], ds[j] = ds[j], ds[i] })
		return map[string]any{"digests": 3, "accept_zstd": zs}, nil, func(ctx context.Context, fx *fixture) result {
			q := &pb.BatchReadBlobsRequest{Digests: ds}
			if zs {
				q.AcceptableCompressors = []pb.Compressor_Value{pb.Compressor_ZSTD}
			}
			resp, err := fx.srv.CAS.BatchReadBlobs(ctx, q)
			res := grpcRes(err)
			if err == nil {
				for _, r := range resp.Responses {
					if r.GetDigest().GetHash() == tgt.hash && r.GetStatus().GetCode() != 0 {
						res.success = false
						res.status = "grpc:OK/blob:" + codes.Code(r.GetStatus().GetCode()).String()
					}
				}
			}
			return res
		}
	}},
	{name: "gettree-root", ep: "grpc:CAS.GetTree", wantDir: true, build: func(fx *fixture, rng *rand.Rand, tgt *blob) (map[string]any, []*op, proxyCall) {
		return map[string]any{"root": "the backend's blob"}, nil, func(ctx context.Context, fx *fixture) result {
			return grpcRes(drainTree(fx.srv.CAS.GetTree(ctx, &pb.GetTreeRequest{RootDigest: tgt.digest()})))
		}
	}},
	{name: "gettree-child", ep: "grpc:CAS.GetTree", wantDir: true, build: func(fx *fixture, rng *rand.Rand, tgt *blob) (map[string]any, []*op, proxyCall) {
		root := dirBlob(&pb.Directory{Directories: []*pb.DirectoryNode{{Name: "local", Digest: fx.pool.rootDir.digest()}, {Name: uniqTag(fx, rng), Digest: tgt.digest()}}})
		return map[string]any{"root": "stored locally", "child": "the backend's blob"}, []*op{storeOp("proxy.gettree-child", root)}, func(ctx context.Context, fx *fixture) result {
			return grpcRes(drainTree(fx.srv.CAS.GetTree(ctx, &pb.GetTreeRequest{RootDigest: root.digest()})))
		}
	}},
	{name: "getac-inline", ep: "grpc:AC.GetActionResult", build: func(fx *fixture, rng *rand.Rand, tgt *blob) (map[string]any, []*op, proxyCall) {
		ar := validAR(fx)
		where := lib.Pick(rng, []string{"stdout", "stderr", "output-file"})
		switch where {
		case "stdout":
			ar.StdoutDigest = tgt.digest()
		case "stderr":
			ar.StderrDigest = tgt.digest()
		default:
			ar.OutputFiles = append(ar.OutputFiles, &pb.OutputFile{Path: "out/px", Digest: tgt.digest()})
		}
		key := freshKey(fx, rng)
		inl := rng.IntN(4) != 0
		return map[string]any{"key": key.Hash, "backend_blob_is": where, "inline": inl}, []*op{storeAROp("proxy.getac-inline", key, ar)}, func(ctx context.Context, fx *fixture) result {
			_, err := fx.srv.AC.GetActionResult(ctx, &pb.GetActionResultRequest{ActionDigest: key, InlineStdout: inl, InlineStderr: inl, InlineOutputFiles: []string{"out/px", "out/a"}})
			return grpcRes(err)
		}
	}},
	{name: "getac-backend", ep: "grpc:AC.GetActionResult", acKey: true, build: func(fx *fixture, rng *rand.Rand, tgt *blob) (map[string]any, []*op, proxyCall) {
		inl := rng.IntN(2) == 0
		return map[string]any{"key": tgt.hash, "entry": "in the backend only", "inline": inl}, nil, func(ctx context.Context, fx *fixture) result {
			_, err := fx.srv.AC.GetActionResult(ctx, &pb.GetActionResultRequest{ActionDigest: &pb.Digest{Hash: tgt.hash, SizeBytes: 33}, InlineStdout: inl, InlineOutputFiles: []string{"out/a"}})
			return grpcRes(err)
		}
	}},
	{name: "http-ac-backend", ep: "http:GET:/ac", acKey: true, build: func(fx *fixture, rng *rand.Rand, tgt *blob) (map[string]any, []*op, proxyCall) {
		m := lib.Pick(rng, []string{"GET", "GET", "HEAD"})
		return map[string]any{"key": tgt.hash, "entry": "in the backend only", "method": m}, nil, func(ctx context.Context, fx *fixture) result {
			return fx.httpDo(ctx, httpReq{method: m, path: "/ac/" + tgt.hash})
		}
	}},
	{name: "http-ac-dependency", ep: "http:GET:/ac", applies: func(p plan) bool { return p.validateAC }, build: func(fx *fixture, rng *rand.Rand, tgt *blob) (map[string]any, []*op, proxyCall) {
		ar := validAR(fx)
		ar.OutputFiles = append(ar.OutputFiles, &pb.OutputFile{Path: "out/px", Digest: tgt.digest()})
		key := freshKey(fx, rng)
		m := lib.Pick(rng, []string{"GET", "HEAD"})
		return map[string]any{"key": key.Hash, "dependency": "the backend's blob", "method": m}, []*op{storeAROp("proxy.http-ac-dependency", key, ar)}, func(ctx context.Context, fx *fixture) result {
			return fx.httpDo(ctx, httpReq{method: m, path: "/ac/" + key.Hash})
		}
	}},
	{name: "findmissing", ep: "grpc:CAS.FindMissingBlobs", build: func(fx *fixture, rng *rand.Rand, tgt *blob) (map[string]any, []*op, proxyCall) {
		ds := []*pb.Digest{fx.pool.small[2].digest(), tgt.digest()}
		for i := rng.IntN(5); i > 0; i-- {
			ds = append(ds, &pb.Digest{Hash: lib.RandHash(rng), SizeBytes: int64(1 + rng.IntN(5000))})
		}
		rng.Shuffle(len(ds), func(i, j int) { ds[i], ds[j] = ds[j], ds[i] })
		return map[string]any{"digests": len(ds)}, nil, func(ctx context.Context, fx *fixture) result {
			_, err := fx.srv.CAS.FindMissingBlobs(ctx, &pb.FindMissingBlobsRequest{BlobDigests: ds})
			return grpcRes(err)
		}
	}},
	{name: "http-cas-get", ep: "http:GET:/cas", build: func(fx *fixture, rng *rand.Rand, tgt *blob) (map[string]any, []*op, proxyCall) {
		q := httpReq{method: "GET", path: "/cas/" + tgt.hash}
		if rng.IntN(2) == 0 {
			q.hdr = map[string]string{"Accept-Encoding": "zstd"}
		}
		return map[string]any{"path": q.path, "headers": q.hdr}, nil, func(ctx context.Context, fx *fixture) result { return fx.httpDo(ctx, q) }
	}},
	{name: "http-cas-head", ep: "http:HEAD:/cas", build: func(fx *fixture, rng *rand.Rand, tgt *blob) (map[string]any, []*op, proxyCall) {
		q := httpReq{method: "HEAD", path: "/cas/" + tgt.hash}
		return map[string]any{"path": q.path}, nil, func(ctx context.Context, fx *fixture) result { return fx.httpDo(ctx, q) }
	}},
	{name: "fetch-by-checksum", ep: "grpc:Fetch.FetchBlob", build: func(fx *fixture, rng *rand.Rand, tgt *blob) (map[string]any, []*op, proxyCall) {
		q := &asset.FetchBlobRequest{Qualifiers: []*asset.Qualifier{{Name: "checksum.sri", Value: sri(tgt.hash)}}}
		return map[string]any{"qualifiers": "checksum.sri of the backend's blob", "uris": 0}, nil, func(ctx context.Context, fx *fixture) result {
			return fetchRes(fx.srv.Asset.FetchBlob(ctx, q))
		}
	}},
	{name: "querywritestatus", ep: "grpc:ByteStream.QueryWriteStatus", build: func(fx *fixture, rng *rand.Rand, tgt *blob) (map[string]any, []*op, proxyCall) {
		name := lib.ResUpload("px", tgt.hash, tgt.size)
		return map[string]any{"name": name}, nil, func(ctx context.Context, fx *fixture) result {
			_, err := fx.srv.BS.QueryWriteStatus(ctx, &bs.QueryWriteStatusRequest{ResourceName: name})
			return grpcRes(err)
		}
	}},
	{name: "bswrite", ep: "grpc:ByteStream.Write", build: func(fx *fixture, rng *rand.Rand, tgt *blob) (map[string]any, []*op, proxyCall) {
		name := lib.ResUpload("px", tgt.hash, tgt.size)
		return map[string]any{"name": name, "note": "the server asks the backend whether the blob exists before it reads the upload"}, nil, func(ctx context.Context, fx *fixture) result {
			return grpcRes(fx.bsWrite(ctx, name, tgt.data, 64*lib.KiB))
		}
	}},
}

// proxyTarget makes the blob that lives (or fails to live) in the backend only.
func proxyTarget(fx *fixture, rng *rand.Rand, rd *proxyReader) *blob {
	switch {
	case rd.wantDir:
		d := &pb.Directory{}
		tag := uniqTag(fx, rng)
		for i := 0; i <= rng.IntN(30); i++ {
			d.Files = append(d.Files, &pb.FileNode{Name: fmt.Sprintf("%s-%d", tag, i), Digest: fx.pool.small[1+i%6].digest()})
		}
		if rng.IntN(2) == 0 {
			d.Directories = []*pb.DirectoryNode{{Name: "sub", Digest: fx.pool.rootDir.digest()}}
		}
		return dirBlob(d)
	case rd.acKey:
		ar := validAR(fx)
		ar.ExitCode = int32(rng.IntN(1 << 20))
		b := msgBlob(ar, "action-result")
		return &blob{data: b.data, hash: lib.RandHash(rng), size: b.size, what: "action-result"} // keyed by the action, not by its content
	}
	n := lib.Pick(rng, []int{150, 5000, 5000, 70000, 70000, 400 * lib.KiB, 1200 * lib.KiB})
	return mkBlob(lib.GenBlob(rng, n, lib.Pick(rng, lib.ContentKinds), uniqTag(fx, rng)), "backend-only")
}

// buildProxyOps: quiet says whether the request is followed by the immediate
// leak observation (always when its client gives up or the backend loses its
// connections; otherwise the periodic leak check is the judge).
func buildProxyOps(fx *fixture, rng *rand.Rand, rd *proxyReader, kind string, quiet bool) []*op {
	quiet = quiet || stalls(kind) || faultClass(kind) == "backend-connection-lost"
	tgt := proxyTarget(fx, rng, rd)
	desc, setup, call := rd.build(fx, rng, tgt)
	desc["backend_fault"] = kind
	desc["backend_key"] = fmt.Sprintf("%s/%d", tgt.hash, tgt.size)
	pause := time.Duration(5+rng.IntN(60)) * time.Millisecond
	rules := map[string]*faultRule{}
	down := kind == "down"
	if !down {
		rules[tgt.hash] = &faultRule{kind: kind, data: tgt.data}
	}
	o := &op{ep: rd.ep, gen: "proxy." + rd.name + "." + kind, class: "proxy." + rd.name + ":" + faultClass(kind), desc: desc, noRetry: true,
		run: func(ctx context.Context, fx *fixture) result {
			res := fx.runFaulted(ctx, rules, down, stalls(kind), pause, call)
			fx.r.Count("proxy.reader." + rd.name + "|" + faultClass(kind) + "|" + res.status)
			fx.r.Count("proxy.fault." + kind)
			return res
		},
		after: func(fx *fixture, _ result) {
			if quiet {
				fx.quietOracle(fx.lastOp)
			}
			fx.be().reset()
		}}
	ops := append(setup, o)
	if (kind == "kill" || down) && fx.p.proxy == "grpc" {
		ops = append(ops, backendUpOp())
	}
	return ops
}

func init() {
	for i := range proxyReaders {
		rd := &proxyReaders[i]
		for _, kind := range allFaultKinds {
			kind := kind
			register(variant{fam: "proxy." + rd.name, name: kind,
				applies: func(p plan, _ quickness) bool {
					return faultApplies(p, kind) && (rd.applies == nil || rd.applies(p))
				},
				build: func(fx *fixture, rng *rand.Rand) []*op { return buildProxyOps(fx, rng, rd, kind, rng.IntN(3) == 0) }})
		}
	}
	// The core sweep: every reader with a failing lookup, every fault kind with one reader.
	register(variant{fam: "proxy.sweep", name: "every-reader-with-a-failing-lookup", core: true, applies: hasProxy, build: func(fx *fixture, rng *rand.Rand) []*op {
		var ops []*op
		for i := range proxyReaders {
			rd := &proxyReaders[i]
			if rd.applies != nil && !rd.applies(fx.p) {
				continue
			}
			// (connection losses have their turn in the sweep over the fault kinds: on the gRPC
			// backend each one costs the channel's reconnect back-off)
			kinds := errorKinds(fx.p)
			if fx.p.proxy == "grpc" {
				kinds = []string{"code-Unavailable", "code-Internal", "code-ResourceExhausted", "code-PermissionDenied", "short-cut"}
			}
			ops = append(ops, buildProxyOps(fx, rng, rd, lib.Pick(rng, kinds), true)...)
		}
		return ops
	}})
	register(variant{fam: "proxy.sweep", name: "every-fault-kind", core: true, applies: hasProxy, build: func(fx *fixture, rng *rand.Rand) []*op {
		var ops []*op
		var rds []*proxyReader
		for i := range proxyReaders {
			rd := &proxyReaders[i]
			if (rd.applies == nil || rd.applies(fx.p)) && !rd.acKey {
				rds = append(rds, rd)
			}
		}
		start := rng.IntN(len(rds))
		var kinds, hdr []string
		for _, k := range faultKinds(fx.p) {
			if strings.HasPrefix(k, "hdr-") {
				hdr = append(hdr, k)
			} else {
				kinds = append(kinds, k)
			}
		}
		if len(hdr) > 0 { // four of the header fields per run; the random phase and the thorough tier have them all
			rng.Shuffle(len(hdr), func(i, j int) { hdr[i], hdr[j] = hdr[j], hdr[i] })
			kinds = append(kinds, hdr[:4]...)
		}
		for i, kind := range kinds {
			ops = append(ops, buildProxyOps(fx, rng, rds[(start+i)%len(rds)], kind, true)...)
		}
		return ops
	}})
}

// ---------------------------------------------------------------------------
// SpliceBlob over chunk lists mixing local, backend-only, absent and failing chunks

type spliceChunk struct {
	kind string // "local", "backend-hit", "absent", "unreservable", or a fault kind
	b    *blob  // content when known
	d    *pb.Digest
}

func mkSpliceChunk(fx *fixture, rng *rand.Rand, kind string) spliceChunk {
	switch kind {
	case "local":
		b := lib.Pick(rng, []*blob{fx.pool.small[3], fx.pool.small[4], fx.pool.small[6], fx.pool.medium[0]})
		return spliceChunk{kind: kind, b: b, d: b.digest()}
	case "absent":
		return spliceChunk{kind: kind, d: &pb.Digest{Hash: lib.RandHash(rng), SizeBytes: int64(1 + rng.IntN(100000))}}
	case "unreservable":
		// not local, and larger than anything the cache can make room for
		return spliceChunk{kind: kind, d: &pb.Digest{Hash: lib.RandHash(rng), SizeBytes: lib.Pick(rng, []int64{2 << 30, 1 << 40, 1 << 50})}}
	}
	n := lib.Pick(rng, []int{300, 9000, 9000, 150000, 600 * lib.KiB})
	b := mkBlob(lib.GenBlob(rng, n, lib.Pick(rng, lib.ContentKinds), uniqTag(fx, rng)), "backend-chunk")
	return spliceChunk{kind: kind, b: b, d: b.digest()}
}

func buildSplice(fx *fixture, rng *rand.Rand, shape string, withDigest bool) []*op {
	var chunks []spliceChunk
	add := func(kinds ...string) { chunks = append(chunks, mkSpliceChunk(fx, rng, lib.Pick(rng, kinds))) }
	resolvable := []string{"local", "local", "backend-hit"}
	waitStall := false
	switch shape {
	case "failing-chunk":
		// the first chunk that is neither local nor a backend hit is one whose lookup fails with an error
		for i := rng.IntN(4); i > 0; i-- {
			add(resolvable...)
		}
		add(errorKinds(fx.p)...)
		for i := rng.IntN(3); i > 0; i-- {
			add("local", "backend-hit", "absent", lib.Pick(rng, faultKinds(fx.p)))
		}
	case "unreservable-chunk":
		for i := rng.IntN(3); i > 0; i-- {
			add(resolvable...)
		}
		add("unreservable")
		if rng.IntN(2) == 0 {
			add("local", "absent")
		}
	case "all-resolvable":
		for i := rng.IntN(4); i > 0; i-- {
			add(resolvable...)
		}
		chunks = append(chunks, mkSpliceChunk(fx, rng, "backend-hit"))
		rng.Shuffle(len(chunks), func(i, j int) { chunks[i], chunks[j] = chunks[j], chunks[i] })
	case "stalling-chunk":
		for i := rng.IntN(3); i > 0; i-- {
			add(resolvable...)
		}
		add("stall", "trickle")
		waitStall = true
	default: // random-mix
		all := append([]string{"local", "local", "backend-hit", "backend-hit", "absent", "unreservable"}, faultKinds(fx.p)...)
		for i := 1 + rng.IntN(6); i > 0; i-- {
			add(all...)
		}
		for _, c := range chunks {
			waitStall = waitStall || stalls(c.kind)
		}
	}
	q := &pb.SpliceBlobRequest{}
	rules := map[string]*faultRule{}
	var kinds []string
	var whole []byte
	known, down, total := true, false, int64(0)
	for _, c := range chunks {
		q.ChunkDigests = append(q.ChunkDigests, c.d)
		kinds = append(kinds, fmt.Sprintf("%s/%d", c.kind, c.d.SizeBytes))
		total += c.d.SizeBytes
		if c.b == nil || total > 64*lib.MiB {
			known = false
		} else if known {
			whole = append(whole, c.b.data...)
		}
		switch c.kind {
		case "local", "absent", "unreservable":
		case "backend-hit":
			rules[c.d.Hash] = &faultRule{kind: "hit", data: c.b.data}
		case "down":
			down = true
		default:
			rules[c.d.Hash] = &faultRule{kind: c.kind, data: c.b.data}
		}
	}
	digestIs := "absent (the server hashes the chunks)"
	if withDigest {
		if known && rng.IntN(2) == 0 {
			q.BlobDigest = &pb.Digest{Hash: lib.Sha256Hex(whole), SizeBytes: total}
			digestIs = "the digest of the concatenation"
		} else {
			q.BlobDigest = &pb.Digest{Hash: lib.RandHash(rng), SizeBytes: total}
			digestIs = "right size, some other hash"
		}
	}
	pause := time.Duration(5+rng.IntN(60)) * time.Millisecond
	wd := "without-blob-digest"
	if withDigest {
		wd = "with-blob-digest"
	}
	cls := shape
	switch shape {
	case "failing-chunk":
		cls = "chunk-lookup-fails"
	case "unreservable-chunk":
		cls = "chunk-size-cannot-be-reserved"
	case "stalling-chunk":
		cls = "chunk-lookup-stalls.client-gives-up"
	}
	o := &op{ep: "grpc:CAS.SpliceBlob", gen: "proxy.splice." + wd + "." + shape, class: "proxy.splice." + wd + ":" + cls, noRetry: true,
		desc: map[string]any{"chunks": kinds, "blob_digest": digestIs, "blob_digest_value": descDigest(q.BlobDigest)},
		run: func(ctx context.Context, fx *fixture) result {
			res := fx.runFaulted(ctx, rules, down, waitStall, pause, func(ctx context.Context, fx *fixture) result {
				_, err := fx.srv.CAS.SpliceBlob(ctx, q)
				return grpcRes(err)
			})
			fx.r.Count("proxy.splice." + wd + "." + shape + "|" + res.status)
			if strings.Contains(res.note, "[backend lookups:") {
				fx.pstat("splice." + shape + ".reached-backend")
			}
			return res
		},
		after: func(fx *fixture, _ result) {
			fx.quietOracle(fx.lastOp)
			fx.be().reset()
		}}
	fx.pstat("splice." + shape + ".scheduled")
	ops := []*op{ensureOp(fx.pool.small[3], fx.pool.small[4], fx.pool.small[6], fx.pool.medium[0]), o}
	if fx.p.proxy == "grpc" {
		for _, c := range chunks {
			if c.kind == "kill" || c.kind == "down" {
				ops = append(ops, backendUpOp())
				break
			}
		}
	}
	return ops
}

func (fx *fixture) pstat(k string) {
	if fx.pstats == nil {
		fx.pstats = map[string]int{}
	}
	fx.pstats[k]++
	fx.r.Count("proxy.slice." + k)
}

func init() {
	for _, shape := range []string{"failing-chunk", "unreservable-chunk", "all-resolvable", "stalling-chunk", "random-mix"} {
		shape := shape
		for _, withDigest := range []bool{true, false} {
			withDigest := withDigest
			name := shape + ".without-blob-digest"
			if withDigest {
				name = shape + ".with-blob-digest"
			}
			w := 1
			if shape == "random-mix" {
				w = 3
			}
			register(variant{fam: "proxy.splice", name: name, core: shape != "random-mix", weight: w, applies: hasProxy,
				build: func(fx *fixture, rng *rand.Rand) []*op { return buildSplice(fx, rng, shape, withDigest) }})
		}
	}
}

// ---------------------------------------------------------------------------
// Existence checks in bulk against a slow backend, abandoned while checks are queued
//
// FindMissingBlobs and the dependency check of an ActionResult lookup hand the
// locally missing digests to a bounded pool of lookup workers. With a backend
// that holds every lookup, more missing digests than workers and a client that
// leaves (or a dependency reported missing), checks are still queued when the
// request ends. Afterwards nothing may be left of the request.

// cancelledChecksLogged counts the server's own access-log lines about checks
// it skipped because their request had ended (evidence only).
func (fx *fixture) cancelledChecksLogged(from int64) int {
	f, err := os.Open(fx.child.LogPath)
	if err != nil {
		return 0
	}
	defer func() { _ = f.Close() }()
	st, err := f.Stat()
	if err != nil || st.Size() <= from {
		return 0
	}
	buf := make([]byte, st.Size()-from)
	n, _ := f.ReadAt(buf, from)
	return bytes.Count(buf[:n], []byte(" CANCELLED"))
}

func (fx *fixture) logSize() int64 {
	st, err := os.Stat(fx.child.LogPath)
	if err != nil {
		return 0
	}
	return st.Size()
}

func absentDigests(rng *rand.Rand, n int) []*pb.Digest {
	ds := make([]*pb.Digest, n)
	for i := range ds {
		ds[i] = &pb.Digest{Hash: lib.RandHash(rng), SizeBytes: int64(1 + rng.IntN(1<<20))}
	}
	return ds
}

const lookupWorkers = 512 // documented size of the server's pool of backend lookup workers; the scenarios only need "more digests than that"

// bulkEvidence records what the scenario reached: lookups the backend was
// holding when the request ended, and checks that had not reached the backend.
func (fx *fixture) bulkEvidence(scen string, total int, heldAtEnd, seen int64, logFrom int64) {
	queued := int64(total) - seen
	fx.r.CountN("proxy.bulk."+scen+".digests-missing-locally", int64(total))
	fx.r.CountN("proxy.bulk."+scen+".backend-lookups-held-when-the-request-ended", heldAtEnd)
	if queued > 0 {
		fx.r.CountN("proxy.bulk."+scen+".checks-not-yet-at-the-backend-when-the-request-ended", queued)
	}
	if heldAtEnd > 0 && queued > 0 {
		fx.pstat(scen + ".ended-while-checks-were-queued")
	} else {
		fx.pstat(scen + ".not-saturated")
	}
	// the server's own words, a moment later (evidence only)
	time.Sleep(20 * time.Millisecond)
	if n := fx.cancelledChecksLogged(logFrom); n > 0 {
		fx.r.CountN("proxy.bulk."+scen+".server-logged-checks-skipped-as-cancelled", int64(n))
	}
}

func init() {
	// FindMissingBlobs, several at once, abandoned by their clients.
	for _, how := range []string{"client-cancels", "client-connection-closed", "client-deadline", "some-cancel-others-wait"} {
		how := how
		register(variant{fam: "proxy.bulk.findmissing", name: how, core: how == "client-cancels" || how == "some-cancel-others-wait", weight: 2, applies: hasProxy, build: func(fx *fixture, rng *rand.Rand) []*op {
			k := 1 + rng.IntN(4)
			var reqs [][]*pb.Digest
			total := 0
			for i := 0; i < k; i++ {
				n := 300 + rng.IntN(1500)
				if i == 0 {
					n = lookupWorkers + 150 + rng.IntN(1800) // one request alone exceeds the workers
				}
				ds := absentDigests(rng, n)
				// a few local ones in between
				for j := 0; j < 5; j++ {
					ds[rng.IntN(len(ds))] = lib.Pick(rng, fx.pool.small[1:]).digest()
				}
				total += n - 5
				reqs = append(reqs, ds)
			}
			pause := time.Duration(20+rng.IntN(80)) * time.Millisecond
			deadline := time.Duration(400+rng.IntN(800)) * time.Millisecond
			sizes := make([]int, len(reqs))
			for i, ds := range reqs {
				sizes[i] = len(ds)
			}
			scen := "findmissing"
			fx.pstat(scen + ".scheduled")
			return []*op{{ep: "grpc:CAS.FindMissingBlobs", gen: "proxy.bulk.findmissing." + how, class: "proxy.bulk.findmissing:slow-backend." + how, noRetry: true,
				desc: map[string]any{"concurrent_requests": k, "digests_per_request": sizes, "backend": "holds every existence check", "how": how},
				run: func(ctx context.Context, fx *fixture) result {
					t := fx.be()
					t.reset()
					stall := &faultRule{kind: "stall"}
					for _, ds := range reqs {
						for _, d := range ds {
							t.set(d.Hash, stall) // (the few local ones never reach the backend)
						}
					}
					logFrom := fx.logSize()
					before := t.lookups.Load()
					type call struct {
						cancel context.CancelFunc
						conn   *grpc.ClientConn
						err    error
						leaves bool
					}
					calls := make([]*call, k)
					var wg sync.WaitGroup
					for i := range reqs {
						c := &call{leaves: how != "some-cancel-others-wait" || i%2 == 0}
						calls[i] = c
						cctx, cancel := context.WithCancel(ctx)
						if how == "client-deadline" {
							// the deadline travels to the server with the call; nobody cancels
							cctx, cancel = context.WithTimeout(ctx, deadline)
						}
						c.cancel = cancel
						client := fx.srv.CAS
						if how == "client-connection-closed" {
							conn, err := grpc.NewClient(fx.child.GRPCAddr, grpc.WithTransportCredentials(insecure.NewCredentials()))
							if err == nil {
								c.conn = conn
								client = pb.NewContentAddressableStorageClient(conn)
							}
						}
						wg.Add(1)
						go func(ds []*pb.Digest) {
							defer wg.Done()
							_, c.err = client.FindMissingBlobs(cctx, &pb.FindMissingBlobsRequest{BlobDigests: ds})
						}(reqs[i])
					}
					want := int64(lookupWorkers)
					if int64(total) < want {
						want = int64(total)
					}
					t.waitHeld(want, 10*time.Second)
					time.Sleep(pause) // lets the handlers finish queueing
					heldAtEnd, seen := t.held.Load(), t.lookups.Load()-before
					if how != "some-cancel-others-wait" {
						t.forget() // what is held stays held; whatever the server asks from now on is a miss
					}
					for _, c := range calls {
						if !c.leaves || how == "client-deadline" {
							continue
						}
						if c.conn != nil {
							_ = c.conn.Close()
						}
						c.cancel()
					}
					if how == "some-cancel-others-wait" {
						// the backend now answers (misses): the requests that stayed complete
						time.Sleep(pause)
						miss := &faultRule{kind: "miss"}
						for _, ds := range reqs {
							for _, d := range ds {
								t.set(d.Hash, miss)
							}
						}
						t.releaseStalls()
					}
					wg.Wait()
					for _, c := range calls {
						c.cancel()
						if c.conn != nil {
							_ = c.conn.Close()
						}
					}
					fx.bulkEvidence(scen, total, heldAtEnd, seen, logFrom)
					st := map[string]int{}
					for _, c := range calls {
						st[status.Code(c.err).String()]++
					}
					var parts []string
					for _, code := range []string{"OK", "Canceled", "DeadlineExceeded", "Unavailable", "Unknown", "Internal"} {
						if st[code] > 0 {
							parts = append(parts, fmt.Sprintf("%s*%d", code, st[code]))
							delete(st, code)
						}
					}
					for code, n := range st {
						parts = append(parts, fmt.Sprintf("%s*%d", code, n))
					}
					return result{status: "grpc:" + strings.Join(parts, ",") + "(client-abort)", note: fmt.Sprintf("held=%d seen=%d total=%d", heldAtEnd, seen, total)}
				},
				after: func(fx *fixture, _ result) {
					fx.quietOracle(fx.lastOp)
					fx.be().reset()
				}}}
		}})
	}

	// ActionResult lookups whose dependency check meets the slow backend.
	type acCase struct {
		name  string
		core  bool
		front string // "grpc" | "http"
		end   string // "one-dependency-missing" | "client-cancels"
	}
	for _, c := range []acCase{
		{"grpc.one-dependency-missing", true, "grpc", "one-dependency-missing"},
		{"grpc.client-cancels", true, "grpc", "client-cancels"},
		{"http.one-dependency-missing", true, "http", "one-dependency-missing"},
		{"http.client-cancels", false, "http", "client-cancels"},
	} {
		c := c
		register(variant{fam: "proxy.bulk.ac-dependencies", name: c.name, core: c.core, weight: 2,
			applies: func(p plan, _ quickness) bool { return p.proxy != "" && (c.front == "grpc" || p.validateAC) },
			build: func(fx *fixture, rng *rand.Rand) []*op {
				n := lookupWorkers + 150 + rng.IntN(1700)
				deps := absentDigests(rng, n)
				ar := validAR(fx)
				var store []*blob
				viaTree := rng.IntN(2) == 0
				half := n
				if viaTree {
					half = n / 2
					tr := &pb.Tree{Root: &pb.Directory{}}
					child := &pb.Directory{}
					for i, d := range deps[half:] {
						fn := &pb.FileNode{Name: fmt.Sprintf("f%d", i), Digest: d}
						if i%2 == 0 {
							tr.Root.Files = append(tr.Root.Files, fn)
						} else {
							child.Files = append(child.Files, fn)
						}
					}
					tr.Children = []*pb.Directory{child}
					tb := msgBlob(tr, "tree")
					store = append(store, tb)
					ar.OutputDirectories = append(ar.OutputDirectories, &pb.OutputDirectory{Path: "out/big", TreeDigest: tb.digest()})
				}
				for i, d := range deps[:half] {
					ar.OutputFiles = append(ar.OutputFiles, &pb.OutputFile{Path: fmt.Sprintf("out/dep%d", i), Digest: d})
				}
				key := freshKey(fx, rng)
				pause := time.Duration(20+rng.IntN(80)) * time.Millisecond
				scen := "ac-dependencies." + c.end
				gen := "proxy.bulk.ac-dependencies." + c.name
				fx.pstat(scen + ".scheduled")
				ep := "grpc:AC.GetActionResult"
				if c.front == "http" {
					ep = "http:GET:/ac"
				}
				o := &op{ep: ep, gen: gen, class: "proxy.bulk.ac-dependencies:slow-backend." + c.end, noRetry: true,
					desc: map[string]any{"key": key.Hash, "dependencies_missing_locally": n, "half_of_them_in_a_tree": viaTree, "backend": "holds every existence check", "ends_by": c.end},
					run: func(ctx context.Context, fx *fixture) result {
						t := fx.be()
						t.reset()
						stall := &faultRule{kind: "stall"}
						for _, d := range deps {
							t.set(d.Hash, stall)
						}
						logFrom := fx.logSize()
						before := t.lookups.Load()
						cctx, cancel := context.WithCancel(ctx)
						defer cancel()
						done := make(chan result, 1)
						go func() {
							if c.front == "http" {
								done <- fx.httpDo(cctx, httpReq{method: "GET", path: "/ac/" + key.Hash})
								return
							}
							_, err := fx.srv.AC.GetActionResult(cctx, &pb.GetActionResultRequest{ActionDigest: key})
							done <- grpcRes(err)
						}()
						t.waitHeld(lookupWorkers, 10*time.Second)
						time.Sleep(pause) // lets the handler finish queueing
						heldAtEnd, seen := t.held.Load(), t.lookups.Load()-before
						suffix := "(client-abort)"
						t.forget() // what is held stays held; whatever the server asks from now on is a miss
						if c.end == "one-dependency-missing" {
							// the backend answers exactly one of the checks it holds: that dependency is missing
							suffix = ""
							if !t.answerOneHeld(3 * time.Second) {
								suffix = "(no-check-was-held)"
							}
						} else {
							cancel()
						}
						var res result
						select {
						case res = <-done:
						case <-time.After(8 * time.Second):
							cancel()
							res = <-done
							suffix = "(client-gave-up)"
						}
						fx.bulkEvidence(scen, n, heldAtEnd, seen, logFrom)
						return result{status: res.status + suffix, success: res.success, note: fmt.Sprintf("held=%d seen=%d total=%d", heldAtEnd, seen, n)}
					},
					after: func(fx *fixture, _ result) {
						fx.quietOracle(fx.lastOp)
						fx.be().reset()
					}}
				return []*op{storeOp(gen, store...), storeAROp(gen, key, ar), o}
			}})
	}
}

// proxyEvidence closes a proxy fixture: the backend's answers per lookup and
// fault kind go into the evidence; a slice that was scheduled but never met
// its precondition (backend reached, request ended while checks were queued)
// makes the run inconclusive.
func (fx *fixture) proxyEvidence() {
	t := fx.be()
	if t == nil {
		return
	}
	served := t.servedSnapshot()
	for _, k := range servedKeys(served) {
		fx.r.CountN("proxy.backend-answers."+fx.p.name+"."+k, served[k])
	}
	fx.r.CountN("proxy.backend-connections-reset."+fx.p.name, t.ln.resets.Load())
	fx.r.CountN("proxy.backend-lookups-held."+fx.p.name, t.heldEver.Load())
	if fx.dead || fx.restarts > 0 || os.Getenv("C14_GROUPS") != "" || os.Getenv("C14_VARIANT") != "" {
		return // the run was cut short by a violation, or narrowed by a developer switch
	}
	need := [][2]string{
		{"splice.failing-chunk.scheduled", "splice.failing-chunk.reached-backend"},
		{"splice.stalling-chunk.scheduled", "splice.stalling-chunk.reached-backend"},
		{"findmissing.scheduled", "findmissing.ended-while-checks-were-queued"},
		{"ac-dependencies.one-dependency-missing.scheduled", "ac-dependencies.one-dependency-missing.ended-while-checks-were-queued"},
		{"ac-dependencies.client-cancels.scheduled", "ac-dependencies.client-cancels.ended-while-checks-were-queued"},
	}
	for _, n := range need {
		switch {
		case fx.pstats[n[0]] == 0:
			fx.r.Inconclusive(fmt.Sprintf("%s: the slice %q was never scheduled (request budget too small?)", fx.p.name, n[0]))
		case fx.pstats[n[1]] == 0:
			fx.r.Inconclusive(fmt.Sprintf("%s: the slice %q ran %d time(s) but never met its precondition %q", fx.p.name, n[0], fx.pstats[n[0]], n[1]))
		}
	}
}

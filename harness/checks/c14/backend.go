package c14

import (
	"context"
	"fmt"
	"io"
	"net"
	"net/http"
	"strconv"
	"strings"
	"sync"
	"sync/atomic"
	"time"

	asset "github.com/buchgr/bazel-remote/v2/genproto/build/bazel/remote/asset/v1"
	pb "github.com/buchgr/bazel-remote/v2/genproto/build/bazel/remote/execution/v2"
	"github.com/buchgr/bazel-remote/v2/genproto/build/bazel/semver"

	bs "google.golang.org/genproto/googleapis/bytestream"
	rpcstatus "google.golang.org/genproto/googleapis/rpc/status"
	"google.golang.org/grpc"
	"google.golang.org/grpc/codes"
	"google.golang.org/grpc/status"
)

// ---------------------------------------------------------------------------
// HTTP proxy backend that answers every lookup with a miss (404 WITH a body, so
// that an unclosed response body pins the connection) and swallows uploads.

type httpMissBackend struct {
	ln   net.Listener
	srv  *http.Server
	gets atomic.Int64
	puts atomic.Int64
}

func startHTTPMissBackend() (*httpMissBackend, error) {
	ln, err := net.Listen("tcp", "127.0.0.1:0")
	if err != nil {
		return nil, err
	}
	b := &httpMissBackend{ln: ln}
	b.srv = &http.Server{Handler: http.HandlerFunc(func(w http.ResponseWriter, r *http.Request) {
		switch r.Method {
		case http.MethodPut:
			b.puts.Add(1)
			_, _ = io.Copy(io.Discard, r.Body)
			w.WriteHeader(http.StatusOK)
		default:
			b.gets.Add(1)
			http.Error(w, "no such entry in the harness backend", http.StatusNotFound)
		}
	})}
	go func() { _ = b.srv.Serve(ln) }()
	return b, nil
}

func (b *httpMissBackend) URL() string { return "http://" + b.ln.Addr().String() }
func (b *httpMissBackend) Close()      { _ = b.srv.Close() }

// ---------------------------------------------------------------------------
// gRPC proxy backend that answers every lookup with a well-formed miss.

type grpcMissBackend struct {
	pb.UnimplementedActionCacheServer
	pb.UnimplementedContentAddressableStorageServer
	pb.UnimplementedCapabilitiesServer
	bs.UnimplementedByteStreamServer
	asset.UnimplementedFetchServer

	ln    net.Listener
	srv   *grpc.Server
	calls atomic.Int64
}

func startGRPCMissBackend() (*grpcMissBackend, error) {
	ln, err := net.Listen("tcp", "127.0.0.1:0")
	if err != nil {
		return nil, err
	}
	b := &grpcMissBackend{ln: ln, srv: grpc.NewServer(grpc.MaxRecvMsgSize(64 << 20))}
	pb.RegisterActionCacheServer(b.srv, b)
	pb.RegisterContentAddressableStorageServer(b.srv, b)
	pb.RegisterCapabilitiesServer(b.srv, b)
	bs.RegisterByteStreamServer(b.srv, b)
	asset.RegisterFetchServer(b.srv, b)
	go func() { _ = b.srv.Serve(ln) }()
	return b, nil
}

func (b *grpcMissBackend) Addr() string { return b.ln.Addr().String() }
func (b *grpcMissBackend) Close()       { b.srv.Stop() }

func (b *grpcMissBackend) GetCapabilities(context.Context, *pb.GetCapabilitiesRequest) (*pb.ServerCapabilities, error) {
	return &pb.ServerCapabilities{
		CacheCapabilities: &pb.CacheCapabilities{
			DigestFunctions:               []pb.DigestFunction_Value{pb.DigestFunction_SHA256},
			ActionCacheUpdateCapabilities: &pb.ActionCacheUpdateCapabilities{UpdateEnabled: true},
			SupportedCompressors:          []pb.Compressor_Value{pb.Compressor_ZSTD},
		},
		LowApiVersion:  &semver.SemVer{Major: 2},
		HighApiVersion: &semver.SemVer{Major: 2, Minor: 3},
	}, nil
}

func (b *grpcMissBackend) GetActionResult(context.Context, *pb.GetActionResultRequest) (*pb.ActionResult, error) {
	b.calls.Add(1)
	return nil, status.Error(codes.NotFound, "harness backend: no such action result")
}

func (b *grpcMissBackend) UpdateActionResult(_ context.Context, req *pb.UpdateActionResultRequest) (*pb.ActionResult, error) {
	b.calls.Add(1)
	if req.GetActionResult() == nil {
		return &pb.ActionResult{}, nil
	}
	return req.ActionResult, nil
}

func (b *grpcMissBackend) FindMissingBlobs(_ context.Context, req *pb.FindMissingBlobsRequest) (*pb.FindMissingBlobsResponse, error) {
	b.calls.Add(1)
	return &pb.FindMissingBlobsResponse{MissingBlobDigests: req.GetBlobDigests()}, nil
}

func (b *grpcMissBackend) BatchReadBlobs(_ context.Context, req *pb.BatchReadBlobsRequest) (*pb.BatchReadBlobsResponse, error) {
	b.calls.Add(1)
	resp := &pb.BatchReadBlobsResponse{}
	for _, d := range req.GetDigests() {
		resp.Responses = append(resp.Responses, &pb.BatchReadBlobsResponse_Response{
			Digest: d, Status: &rpcstatus.Status{Code: int32(codes.NotFound)}})
	}
	return resp, nil
}

func (b *grpcMissBackend) BatchUpdateBlobs(_ context.Context, req *pb.BatchUpdateBlobsRequest) (*pb.BatchUpdateBlobsResponse, error) {
	b.calls.Add(1)
	resp := &pb.BatchUpdateBlobsResponse{}
	for _, q := range req.GetRequests() {
		resp.Responses = append(resp.Responses, &pb.BatchUpdateBlobsResponse_Response{
			Digest: q.GetDigest(), Status: &rpcstatus.Status{}})
	}
	return resp, nil
}

func (b *grpcMissBackend) GetTree(*pb.GetTreeRequest, pb.ContentAddressableStorage_GetTreeServer) error {
	b.calls.Add(1)
	return status.Error(codes.NotFound, "harness backend: no such tree")
}

func (b *grpcMissBackend) Read(*bs.ReadRequest, bs.ByteStream_ReadServer) error {
	b.calls.Add(1)
	return status.Error(codes.NotFound, "harness backend: no such blob")
}

func (b *grpcMissBackend) Write(srv bs.ByteStream_WriteServer) error {
	b.calls.Add(1)
	var n int64
	for {
		m, err := srv.Recv()
		if err == io.EOF {
			return srv.SendAndClose(&bs.WriteResponse{CommittedSize: n})
		}
		if err != nil {
			return err
		}
		n += int64(len(m.Data))
	}
}

func (b *grpcMissBackend) QueryWriteStatus(context.Context, *bs.QueryWriteStatusRequest) (*bs.QueryWriteStatusResponse, error) {
	return &bs.QueryWriteStatusResponse{}, nil
}

func (b *grpcMissBackend) FetchBlob(context.Context, *asset.FetchBlobRequest) (*asset.FetchBlobResponse, error) {
	b.calls.Add(1)
	return &asset.FetchBlobResponse{Status: &rpcstatus.Status{Code: int32(codes.NotFound), Message: "harness backend: not found"}}, nil
}

func (b *grpcMissBackend) FetchDirectory(context.Context, *asset.FetchDirectoryRequest) (*asset.FetchDirectoryResponse, error) {
	return &asset.FetchDirectoryResponse{Status: &rpcstatus.Status{Code: int32(codes.NotFound)}}, nil
}

// ---------------------------------------------------------------------------
// Origin server for Remote Asset FetchBlob.
//
//	/blob/<n>      200, n deterministic bytes, Content-Length
//	/nocl/<n>      200, n bytes, chunked (no Content-Length)
//	/short/<n>     200, Content-Length n, n/2 bytes, then the connection is cut
//	/zero          200, Content-Length 0
//	/status/<c>    status c with a small body
//	/loop          302 to itself
//	/stall         holds the request (no answer) until ReleaseStalls / Close
//	/trickle       sends headers and a few bytes, then holds the body

type origin struct {
	ln      net.Listener
	srv     *http.Server
	mu      sync.Mutex
	release chan struct{}
	stalled atomic.Int64 // requests currently held
	seen    atomic.Int64 // stall/trickle requests ever received
	hits    atomic.Int64
}

func originBytes(n int) []byte {
	b := make([]byte, n)
	x := uint32(n)*2654435761 + 12345
	for i := range b {
		x = x*1664525 + 1013904223
		b[i] = byte(x >> 24)
	}
	return b
}

func startOrigin() (*origin, error) {
	ln, err := net.Listen("tcp", "127.0.0.1:0")
	if err != nil {
		return nil, err
	}
	o := &origin{ln: ln, release: make(chan struct{})}
	mux := http.NewServeMux()
	num := func(r *http.Request, prefix string) int {
		n, _ := strconv.Atoi(strings.TrimPrefix(r.URL.Path, prefix))
		if n < 0 || n > 64<<20 {
			n = 0
		}
		return n
	}
	mux.HandleFunc("/blob/", func(w http.ResponseWriter, r *http.Request) {
		o.hits.Add(1)
		b := originBytes(num(r, "/blob/"))
		w.Header().Set("Content-Length", strconv.Itoa(len(b)))
		_, _ = w.Write(b)
	})
	mux.HandleFunc("/nocl/", func(w http.ResponseWriter, r *http.Request) {
		o.hits.Add(1)
		b := originBytes(num(r, "/nocl/"))
		w.WriteHeader(200)
		if f, ok := w.(http.Flusher); ok {
			f.Flush() // forces chunked encoding
		}
		_, _ = w.Write(b)
	})
	mux.HandleFunc("/short/", func(w http.ResponseWriter, r *http.Request) {
		o.hits.Add(1)
		n := num(r, "/short/")
		hj, ok := w.(http.Hijacker)
		if !ok {
			return
		}
		c, rw, err := hj.Hijack()
		if err != nil {
			return
		}
		_, _ = fmt.Fprintf(rw, "HTTP/1.1 200 OK\r\nContent-Length: %d\r\nContent-Type: application/octet-stream\r\n\r\n", n)
		_, _ = rw.Write(originBytes(n)[:n/2])
		_ = rw.Flush()
		_ = c.Close()
	})
	mux.HandleFunc("/zero", func(w http.ResponseWriter, r *http.Request) {
		o.hits.Add(1)
		w.Header().Set("Content-Length", "0")
		w.WriteHeader(200)
	})
	mux.HandleFunc("/status/", func(w http.ResponseWriter, r *http.Request) {
		o.hits.Add(1)
		c := num(r, "/status/")
		if c < 200 || c > 599 {
			c = 500
		}
		http.Error(w, "origin says no", c)
	})
	mux.HandleFunc("/loop", func(w http.ResponseWriter, r *http.Request) {
		o.hits.Add(1)
		http.Redirect(w, r, "/loop", http.StatusFound)
	})
	hold := func(r *http.Request) {
		o.seen.Add(1)
		o.stalled.Add(1)
		defer o.stalled.Add(-1)
		o.mu.Lock()
		ch := o.release
		o.mu.Unlock()
		select {
		case <-ch:
		case <-r.Context().Done(): // the fetching side closed its connection
		}
	}
	mux.HandleFunc("/stall", func(w http.ResponseWriter, r *http.Request) {
		hold(r)
		http.Error(w, "released", http.StatusServiceUnavailable)
	})
	mux.HandleFunc("/trickle", func(w http.ResponseWriter, r *http.Request) {
		w.Header().Set("Content-Length", "1000000")
		w.WriteHeader(200)
		_, _ = w.Write([]byte("first bytes"))
		if f, ok := w.(http.Flusher); ok {
			f.Flush()
		}
		hold(r)
	})
	o.srv = &http.Server{Handler: mux}
	go func() { _ = o.srv.Serve(ln) }()
	return o, nil
}

func (o *origin) URL() string { return "http://" + o.ln.Addr().String() }

// ReleaseStalls lets every held request finish and re-arms the gate.
func (o *origin) ReleaseStalls() {
	o.mu.Lock()
	close(o.release)
	o.release = make(chan struct{})
	o.mu.Unlock()
}

// WaitStalled waits (bounded) until at least n requests are being held.
func (o *origin) WaitStalled(n int64, max time.Duration) bool {
	deadline := time.Now().Add(max)
	for o.stalled.Load() < n {
		if time.Now().After(deadline) {
			return false
		}
		time.Sleep(2 * time.Millisecond)
	}
	return true
}

func (o *origin) Close() {
	o.ReleaseStalls()
	_ = o.srv.Close()
}

package c14

import (
	"context"
	"encoding/base64"
	"encoding/hex"
	"fmt"
	"io"
	"net"
	"net/http"
	"sort"
	"strconv"
	"strings"
	"sync"
	"sync/atomic"
	"time"

	asset "github.com/buchgr/bazel-remote/v2/genproto/build/bazel/remote/asset/v1"
	pb "github.com/buchgr/bazel-remote/v2/genproto/build/bazel/remote/execution/v2"
	"github.com/buchgr/bazel-remote/v2/genproto/build/bazel/semver"

	bs "google.golang.org/genproto/googleapis/bytestream"
	rpcstatus "google.golang.org/genproto/googleapis/rpc/status"
	"google.golang.org/grpc"
	"google.golang.org/grpc/codes"
	"google.golang.org/grpc/status"
	"google.golang.org/protobuf/proto"

	"verif/harness/lib"
)

// The proxy backends of the harness. Without instructions they answer every
// lookup with a well-formed miss and swallow uploads. The generators script
// them per key (faultRule): backend-only hits, error statuses, connections
// closed or reset, stalls that last until the fetching side gives up, short /
// oversize / wrong payloads. Every answer stays inside the backend protocol
// (HTTP, REAPI): the faults are those of an unreliable backend, not of a
// backend speaking another protocol.

// ---------------------------------------------------------------------------
// fault table

// faultRule says how the backend answers lookups of one key.
//
//	miss            well-formed miss (404 / NotFound / "missing")
//	hit             the blob, well-formed
//	status-<n>      HTTP status n with an error page of several KiB         (HTTP backend)
//	code-<Name>     gRPC status <Name>                                      (gRPC backend)
//	kill            every connection of the backend is reset when the lookup arrives
//	reset           this connection is reset without an answer             (HTTP backend)
//	close-empty     this connection is closed (FIN) without an answer      (HTTP backend)
//	stall           the lookup is held, unanswered, until released or until the fetching side leaves
//	                (answerOneHeld: exactly one of the held lookups is answered, with a miss)
//	trickle         reads: first bytes, then held like stall; existence checks: present
//	short           reads end cleanly after half of the announced bytes
//	short-cut       reads break (reset / Internal) after half of the announced bytes
//	oversize        more bytes than the key's size
//	wrong-data      the right number of wrong bytes
//	empty           zero bytes
//	nocl            body without Content-Length                            (HTTP backend)
//	huge-cl         Content-Length 2^40, 64 KiB, connection closed         (HTTP backend)
//	bad-cl          unparsable Content-Length                              (HTTP backend)
//	redirect-loop   302 to itself                                          (HTTP backend)
//	plain-zstd      a plain zstd stream where the cas.v2 layout is expected (zstd storage)
//	garbage         random bytes where the cas.v2 layout is expected        (zstd storage)
//	hdr-<field>     cas.v2 file with one header field overwritten           (zstd storage)
type faultRule struct {
	kind string
	data []byte // logical content (hit family)
}

var missRule = &faultRule{kind: "miss"}

// present reports whether existence checks answer "there" for this rule: the
// hit family, including the hits whose payload is then faulty.
func (r *faultRule) present() bool {
	switch r.kind {
	case "hit", "trickle", "short", "short-cut", "oversize", "wrong-data", "empty", "nocl", "huge-cl", "plain-zstd", "garbage":
		return true
	}
	return strings.HasPrefix(r.kind, "hdr-")
}

type faultTable struct {
	mu      sync.Mutex
	rules   map[string]*faultRule
	release chan struct{}
	served  map[string]int64 // "<lookup>:<kind>" -> answers
	one     chan struct{}    // answerOneHeld

	held     atomic.Int64 // lookups being held right now
	heldEver atomic.Int64
	lookups  atomic.Int64 // lookups (existence checks and reads) ever received
	ln       *killListener
}

func newFaultTable(ln *killListener) *faultTable {
	return &faultTable{rules: map[string]*faultRule{}, release: make(chan struct{}), served: map[string]int64{}, one: make(chan struct{}), ln: ln}
}

func (t *faultTable) set(hash string, r *faultRule) {
	t.mu.Lock()
	t.rules[hash] = r
	t.mu.Unlock()
}

// reset forgets every rule, lets held lookups go and brings the listener up.
func (t *faultTable) reset() {
	t.mu.Lock()
	t.rules = map[string]*faultRule{}
	close(t.release)
	t.release = make(chan struct{})
	t.mu.Unlock()
	t.ln.down.Store(false)
}

// forget drops every rule but keeps the lookups that are being held: from now
// on the backend answers misses. Called at the moment a client gives up, so
// that only lookups made on behalf of the running request meet the fault (the
// server's background uploads, for example, are never stalled by the harness).
func (t *faultTable) forget() {
	t.mu.Lock()
	t.rules = map[string]*faultRule{}
	t.mu.Unlock()
}

func (t *faultTable) releaseStalls() {
	t.mu.Lock()
	close(t.release)
	t.release = make(chan struct{})
	t.mu.Unlock()
}

// ruleFor: keys without a rule are misses (in particular the existence checks
// of the server's background uploads are never disturbed by accident).
func (t *faultTable) ruleFor(hash string, lookup string) *faultRule {
	t.lookups.Add(1)
	t.mu.Lock()
	defer t.mu.Unlock()
	r := t.rules[hash]
	if r == nil {
		r = missRule
	}
	t.served[lookup+":"+r.kind]++
	return r
}

// hold keeps a lookup unanswered: until the stalls are released ("released"),
// the harness has exactly this one answered with a miss ("one") or the fetching
// side has gone ("peer-gone").
func (t *faultTable) hold(ctx context.Context) string {
	t.mu.Lock()
	rel := t.release
	t.mu.Unlock()
	t.held.Add(1)
	t.heldEver.Add(1)
	defer t.held.Add(-1)
	select {
	case <-rel:
		return "released"
	case <-t.one:
		return "one"
	case <-ctx.Done():
		return "peer-gone"
	}
}

// answerOneHeld has exactly one of the lookups being held answered with a miss.
func (t *faultTable) answerOneHeld(max time.Duration) bool {
	select {
	case t.one <- struct{}{}:
		return true
	case <-time.After(max):
		return false
	}
}

// waitHeld waits (bounded) until at least n lookups are being held.
func (t *faultTable) waitHeld(n int64, max time.Duration) bool {
	deadline := time.Now().Add(max)
	for t.held.Load() < n {
		if time.Now().After(deadline) {
			return false
		}
		time.Sleep(time.Millisecond)
	}
	return true
}

func (t *faultTable) servedSnapshot() map[string]int64 {
	t.mu.Lock()
	defer t.mu.Unlock()
	m := make(map[string]int64, len(t.served))
	for k, v := range t.served {
		m[k] = v
	}
	return m
}

// ---------------------------------------------------------------------------
// listener whose connections the harness can reset

type killListener struct {
	net.Listener
	mu     sync.Mutex
	conns  map[*trackedConn]struct{}
	down   atomic.Bool  // every new connection is reset right after the accept
	resets atomic.Int64 // connections reset by the harness
}

type trackedConn struct {
	net.Conn
	l    *killListener
	once sync.Once
}

func (c *trackedConn) Close() error {
	c.once.Do(func() {
		c.l.mu.Lock()
		delete(c.l.conns, c)
		c.l.mu.Unlock()
	})
	return c.Conn.Close()
}

func listenKillable() (*killListener, error) {
	ln, err := net.Listen("tcp", "127.0.0.1:0")
	if err != nil {
		return nil, err
	}
	return &killListener{Listener: ln, conns: map[*trackedConn]struct{}{}}, nil
}

func rstClose(c net.Conn) {
	if tc, ok := c.(*net.TCPConn); ok {
		_ = tc.SetLinger(0)
	}
	_ = c.Close()
}

func (l *killListener) Accept() (net.Conn, error) {
	for {
		c, err := l.Listener.Accept()
		if err != nil {
			return nil, err
		}
		if l.down.Load() {
			l.resets.Add(1)
			rstClose(c)
			continue
		}
		tc := &trackedConn{Conn: c, l: l}
		l.mu.Lock()
		l.conns[tc] = struct{}{}
		l.mu.Unlock()
		return tc, nil
	}
}

// open is the number of connections the backend has open right now.
func (l *killListener) open() int {
	l.mu.Lock()
	defer l.mu.Unlock()
	return len(l.conns)
}

// killAll resets every open connection.
func (l *killListener) killAll() int {
	l.mu.Lock()
	cs := make([]*trackedConn, 0, len(l.conns))
	for c := range l.conns {
		cs = append(cs, c)
	}
	l.mu.Unlock()
	for _, c := range cs {
		l.resets.Add(1)
		if tc, ok := c.Conn.(*net.TCPConn); ok {
			_ = tc.SetLinger(0)
		}
		_ = c.Close()
	}
	return len(cs)
}

// ---------------------------------------------------------------------------
// payloads

// casWire lays the content out as a cas.v2 file (what a backend of a server in
// zstd storage mode holds).
func casWire(data []byte) []byte {
	if len(data) == 0 {
		return nil
	}
	return lib.CasWrite(data, lib.MiB, 1, func(c []byte) []byte { return lib.ZstdEncodeKP(c, 1) })
}

func xorBytes(b []byte) []byte {
	out := make([]byte, len(b))
	for i := range b {
		out[i] = b[i] ^ 0x5a
	}
	return out
}

func junk(n int) []byte { return originBytes(n) }

// payload returns what a read of the key delivers under the rule and how many
// bytes of it are sent before the read stops (cut < len: the stream ends or
// breaks there). v2: the cas.v2 layout is expected.
func (r *faultRule) payload(v2 bool) (wire []byte, cut int) {
	wireOf := func(d []byte) []byte {
		if v2 {
			return casWire(d)
		}
		return d
	}
	switch {
	case r.kind == "oversize":
		wire = wireOf(append(append([]byte{}, r.data...), junk(1000+len(r.data)/8)...))
	case r.kind == "wrong-data":
		wire = wireOf(xorBytes(r.data))
	case r.kind == "empty":
		wire = nil
	case r.kind == "plain-zstd":
		wire = lib.ZstdEncodeKP(r.data, 1)
	case r.kind == "garbage":
		wire = junk(len(r.data) + 29)
	case strings.HasPrefix(r.kind, "hdr-") && v2:
		wire = casWire(r.data)
		for _, hm := range hdrMuts {
			if "hdr-"+hm.name == r.kind && len(wire) > 45 {
				// deterministic: the mutation's random choices derive from the content
				wire = hm.f(newContentRng(r.data), wire, int64(len(r.data)))
			}
		}
	default:
		wire = wireOf(r.data)
	}
	cut = len(wire)
	if r.kind == "short" || r.kind == "short-cut" {
		cut = len(wire) / 2
	}
	if r.kind == "trickle" {
		cut = len(wire) / 4
		if cut > 1024 {
			cut = 1024
		}
	}
	return wire, cut
}

// ---------------------------------------------------------------------------
// HTTP proxy backend

type httpMissBackend struct {
	ln   *killListener
	srv  *http.Server
	t    *faultTable
	gets atomic.Int64
	puts atomic.Int64
}

func startHTTPMissBackend() (*httpMissBackend, error) {
	ln, err := listenKillable()
	if err != nil {
		return nil, err
	}
	b := &httpMissBackend{ln: ln, t: newFaultTable(ln)}
	b.srv = &http.Server{Handler: http.HandlerFunc(b.serve)}
	go func() { _ = b.srv.Serve(ln) }()
	return b, nil
}

func (b *httpMissBackend) URL() string { return "http://" + b.ln.Addr().String() }
func (b *httpMissBackend) Close() {
	b.t.reset()
	_ = b.srv.Close()
}

func hijack(w http.ResponseWriter) net.Conn {
	hj, ok := w.(http.Hijacker)
	if !ok {
		return nil
	}
	c, _, err := hj.Hijack()
	if err != nil {
		return nil
	}
	return c
}

func (b *httpMissBackend) serve(w http.ResponseWriter, r *http.Request) {
	if r.Method == http.MethodPut {
		b.puts.Add(1)
		_, _ = io.Copy(io.Discard, r.Body)
		w.WriteHeader(http.StatusOK)
		return
	}
	b.gets.Add(1)
	parts := strings.Split(strings.Trim(r.URL.Path, "/"), "/")
	hash := parts[len(parts)-1]
	ns := "other"
	if len(parts) >= 2 {
		ns = parts[len(parts)-2]
	}
	head := r.Method == http.MethodHead
	lookup := ns + "-get"
	if head {
		lookup = ns + "-head"
	}
	rule := b.t.ruleFor(hash, lookup)
	miss := func() { http.Error(w, "no such entry in the harness backend", http.StatusNotFound) }
	raw := func(text string, body []byte, rst bool) {
		c := hijack(w)
		if c == nil {
			return
		}
		_, _ = c.Write([]byte(text))
		_, _ = c.Write(body)
		if rst {
			if tc, ok := c.(*trackedConn); ok {
				if t, ok := tc.Conn.(*net.TCPConn); ok {
					_ = t.SetLinger(0)
				}
			}
		}
		_ = c.Close()
	}
	switch k := rule.kind; {
	case k == "miss":
		miss()
		return
	case strings.HasPrefix(k, "status-"):
		n, _ := strconv.Atoi(strings.TrimPrefix(k, "status-"))
		if n < 400 || n > 599 {
			n = 500
		}
		// an error page larger than the kilobyte the server forwards from it
		http.Error(w, "harness backend: injected error status\n"+strings.Repeat("<p>the backend is having a bad day</p>\n", 200), n)
		return
	case k == "kill":
		b.ln.killAll()
		return
	case k == "reset":
		raw("", nil, true)
		return
	case k == "close-empty":
		raw("", nil, false)
		return
	case k == "stall":
		if b.t.hold(r.Context()) == "one" {
			miss()
		} else {
			http.Error(w, "released", http.StatusServiceUnavailable)
		}
		return
	case k == "redirect-loop":
		http.Redirect(w, r, r.URL.Path, http.StatusFound)
		return
	case k == "bad-cl":
		raw("HTTP/1.1 200 OK\r\nContent-Length: banana\r\nContent-Type: application/octet-stream\r\n\r\n", []byte("x"), false)
		return
	}
	// hit family
	wire, cut := rule.payload(strings.HasSuffix(ns, ".v2"))
	if head {
		if rule.kind == "nocl" {
			w.WriteHeader(200)
			return
		}
		w.Header().Set("Content-Length", strconv.Itoa(len(wire)))
		w.WriteHeader(200)
		return
	}
	switch rule.kind {
	case "nocl":
		w.WriteHeader(200)
		if f, ok := w.(http.Flusher); ok {
			f.Flush() // forces chunked encoding
		}
		_, _ = w.Write(wire)
	case "huge-cl":
		n := len(wire)
		if n > 64<<10 {
			n = 64 << 10
		}
		raw("HTTP/1.1 200 OK\r\nContent-Length: 1099511627776\r\nContent-Type: application/octet-stream\r\n\r\n", wire[:n], false)
	case "short", "short-cut":
		raw(fmt.Sprintf("HTTP/1.1 200 OK\r\nContent-Length: %d\r\nContent-Type: application/octet-stream\r\n\r\n", len(wire)), wire[:cut], rule.kind == "short-cut")
	case "trickle":
		w.Header().Set("Content-Length", strconv.Itoa(len(wire)))
		w.WriteHeader(200)
		_, _ = w.Write(wire[:cut])
		if f, ok := w.(http.Flusher); ok {
			f.Flush()
		}
		b.t.hold(r.Context())
	default:
		w.Header().Set("Content-Length", strconv.Itoa(len(wire)))
		w.WriteHeader(200)
		_, _ = w.Write(wire)
	}
}

// ---------------------------------------------------------------------------
// gRPC proxy backend

type grpcMissBackend struct {
	pb.UnimplementedActionCacheServer
	pb.UnimplementedContentAddressableStorageServer
	pb.UnimplementedCapabilitiesServer
	bs.UnimplementedByteStreamServer
	asset.UnimplementedFetchServer

	ln    *killListener
	srv   *grpc.Server
	t     *faultTable
	calls atomic.Int64
}

func startGRPCMissBackend() (*grpcMissBackend, error) {
	ln, err := listenKillable()
	if err != nil {
		return nil, err
	}
	b := &grpcMissBackend{ln: ln, t: newFaultTable(ln), srv: grpc.NewServer(grpc.MaxRecvMsgSize(64 << 20))}
	pb.RegisterActionCacheServer(b.srv, b)
	pb.RegisterContentAddressableStorageServer(b.srv, b)
	pb.RegisterCapabilitiesServer(b.srv, b)
	bs.RegisterByteStreamServer(b.srv, b)
	asset.RegisterFetchServer(b.srv, b)
	go func() { _ = b.srv.Serve(ln) }()
	return b, nil
}

func (b *grpcMissBackend) Addr() string { return b.ln.Addr().String() }
func (b *grpcMissBackend) Close() {
	b.t.reset()
	b.srv.Stop()
}

func (b *grpcMissBackend) GetCapabilities(context.Context, *pb.GetCapabilitiesRequest) (*pb.ServerCapabilities, error) {
	return &pb.ServerCapabilities{
		CacheCapabilities: &pb.CacheCapabilities{
			DigestFunctions:               []pb.DigestFunction_Value{pb.DigestFunction_SHA256},
			ActionCacheUpdateCapabilities: &pb.ActionCacheUpdateCapabilities{UpdateEnabled: true},
			SupportedCompressors:          []pb.Compressor_Value{pb.Compressor_ZSTD},
		},
		LowApiVersion:  &semver.SemVer{Major: 2},
		HighApiVersion: &semver.SemVer{Major: 2, Minor: 3},
	}, nil
}

var codeByName = func() map[string]codes.Code {
	m := map[string]codes.Code{}
	for c := codes.Canceled; c <= codes.Unauthenticated; c++ {
		m[c.String()] = c
	}
	return m
}()

// failure handles the rule kinds that are the same for every RPC. done=true:
// the RPC ends with err (nil err: answer a miss).
func (b *grpcMissBackend) failure(ctx context.Context, rule *faultRule) (done bool, err error) {
	switch k := rule.kind; {
	case k == "miss":
		return true, nil
	case strings.HasPrefix(k, "code-"):
		c, ok := codeByName[strings.TrimPrefix(k, "code-")]
		if !ok {
			c = codes.Internal
		}
		return true, status.Error(c, "harness backend: injected error status")
	case k == "kill":
		b.ln.killAll()
		return true, status.Error(codes.Unavailable, "harness backend: connections reset")
	case k == "stall":
		if b.t.hold(ctx) == "one" {
			return true, nil
		}
		return true, status.Error(codes.Unavailable, "harness backend: released")
	}
	return false, nil
}

func (b *grpcMissBackend) GetActionResult(ctx context.Context, req *pb.GetActionResultRequest) (*pb.ActionResult, error) {
	b.calls.Add(1)
	rule := b.t.ruleFor(req.GetActionDigest().GetHash(), "ac-get")
	if done, err := b.failure(ctx, rule); done {
		if err != nil {
			return nil, err
		}
		return nil, status.Error(codes.NotFound, "harness backend: no such action result")
	}
	ar := &pb.ActionResult{}
	if err := proto.Unmarshal(rule.data, ar); err != nil {
		return nil, status.Error(codes.NotFound, "harness backend: no such action result")
	}
	return ar, nil
}

func (b *grpcMissBackend) UpdateActionResult(_ context.Context, req *pb.UpdateActionResultRequest) (*pb.ActionResult, error) {
	b.calls.Add(1)
	if req.GetActionResult() == nil {
		return &pb.ActionResult{}, nil
	}
	return req.ActionResult, nil
}

func (b *grpcMissBackend) FindMissingBlobs(ctx context.Context, req *pb.FindMissingBlobsRequest) (*pb.FindMissingBlobsResponse, error) {
	b.calls.Add(1)
	resp := &pb.FindMissingBlobsResponse{}
	for _, d := range req.GetBlobDigests() {
		rule := b.t.ruleFor(d.GetHash(), "cas-contains")
		if rule.present() {
			continue
		}
		if _, err := b.failure(ctx, rule); err != nil {
			return nil, err
		}
		resp.MissingBlobDigests = append(resp.MissingBlobDigests, d)
	}
	return resp, nil
}

func (b *grpcMissBackend) BatchReadBlobs(_ context.Context, req *pb.BatchReadBlobsRequest) (*pb.BatchReadBlobsResponse, error) {
	b.calls.Add(1)
	resp := &pb.BatchReadBlobsResponse{}
	for _, d := range req.GetDigests() {
		resp.Responses = append(resp.Responses, &pb.BatchReadBlobsResponse_Response{
			Digest: d, Status: &rpcstatus.Status{Code: int32(codes.NotFound)}})
	}
	return resp, nil
}

func (b *grpcMissBackend) BatchUpdateBlobs(_ context.Context, req *pb.BatchUpdateBlobsRequest) (*pb.BatchUpdateBlobsResponse, error) {
	b.calls.Add(1)
	resp := &pb.BatchUpdateBlobsResponse{}
	for _, q := range req.GetRequests() {
		resp.Responses = append(resp.Responses, &pb.BatchUpdateBlobsResponse_Response{
			Digest: q.GetDigest(), Status: &rpcstatus.Status{}})
	}
	return resp, nil
}

func (b *grpcMissBackend) GetTree(*pb.GetTreeRequest, pb.ContentAddressableStorage_GetTreeServer) error {
	b.calls.Add(1)
	return status.Error(codes.NotFound, "harness backend: no such tree")
}

func (b *grpcMissBackend) Read(req *bs.ReadRequest, srv bs.ByteStream_ReadServer) error {
	b.calls.Add(1)
	parts := strings.Split(req.GetResourceName(), "/")
	hash, v2 := "", false
	for i, p := range parts {
		if (p == "blobs" || p == "zstd") && i+1 < len(parts) {
			hash = parts[i+1]
			v2 = p == "zstd"
		}
	}
	rule := b.t.ruleFor(hash, "cas-read")
	if done, err := b.failure(srv.Context(), rule); done {
		if err != nil {
			return err
		}
		return status.Error(codes.NotFound, "harness backend: no such blob")
	}
	wire, cut := rule.payload(v2)
	for off := 0; off < cut; {
		end := off + 64<<10
		if end > cut {
			end = cut
		}
		if err := srv.Send(&bs.ReadResponse{Data: wire[off:end]}); err != nil {
			return err
		}
		off = end
	}
	switch rule.kind {
	case "short-cut":
		return status.Error(codes.Internal, "harness backend: stream broken")
	case "trickle":
		b.t.hold(srv.Context())
		return status.Error(codes.Unavailable, "harness backend: released")
	}
	return nil
}

func (b *grpcMissBackend) Write(srv bs.ByteStream_WriteServer) error {
	b.calls.Add(1)
	var n int64
	for {
		m, err := srv.Recv()
		if err == io.EOF {
			return srv.SendAndClose(&bs.WriteResponse{CommittedSize: n})
		}
		if err != nil {
			return err
		}
		n += int64(len(m.Data))
	}
}

func (b *grpcMissBackend) QueryWriteStatus(context.Context, *bs.QueryWriteStatusRequest) (*bs.QueryWriteStatusResponse, error) {
	return &bs.QueryWriteStatusResponse{}, nil
}

// FetchBlob is how the server asks a gRPC backend for a blob of unknown size
// (checksum.sri qualifier, no URI).
func (b *grpcMissBackend) FetchBlob(ctx context.Context, req *asset.FetchBlobRequest) (*asset.FetchBlobResponse, error) {
	b.calls.Add(1)
	notFound := &asset.FetchBlobResponse{Status: &rpcstatus.Status{Code: int32(codes.NotFound), Message: "harness backend: not found"}}
	hash := ""
	for _, q := range req.GetQualifiers() {
		if q.GetName() == "checksum.sri" && strings.HasPrefix(q.GetValue(), "sha256-") {
			if raw, err := base64.StdEncoding.DecodeString(strings.TrimPrefix(q.GetValue(), "sha256-")); err == nil {
				hash = hex.EncodeToString(raw)
			}
		}
	}
	if hash == "" {
		return notFound, nil
	}
	rule := b.t.ruleFor(hash, "cas-fetch")
	if rule.present() {
		return &asset.FetchBlobResponse{Status: &rpcstatus.Status{}, BlobDigest: &pb.Digest{Hash: hash, SizeBytes: int64(len(rule.data))}}, nil
	}
	if _, err := b.failure(ctx, rule); err != nil {
		return nil, err
	}
	return notFound, nil
}

func (b *grpcMissBackend) FetchDirectory(context.Context, *asset.FetchDirectoryRequest) (*asset.FetchDirectoryResponse, error) {
	return &asset.FetchDirectoryResponse{Status: &rpcstatus.Status{Code: int32(codes.NotFound)}}, nil
}

// servedKeys lists the answers of a table in stable order (evidence).
func servedKeys(m map[string]int64) []string {
	ks := make([]string, 0, len(m))
	for k := range m {
		ks = append(ks, k)
	}
	sort.Strings(ks)
	return ks
}

package c14

import (
	"bytes"
	"context"
	"crypto/sha256"
	"encoding/base64"
	"encoding/hex"
	"fmt"
	"io"
	"math/rand/v2"
	"net/http"
	"regexp"
	"strings"
	"time"

	asset "github.com/buchgr/bazel-remote/v2/genproto/build/bazel/remote/asset/v1"
	pb "github.com/buchgr/bazel-remote/v2/genproto/build/bazel/remote/execution/v2"

	bs "google.golang.org/genproto/googleapis/bytestream"
	"google.golang.org/grpc/codes"
	"google.golang.org/grpc/status"
	"google.golang.org/protobuf/proto"

	"verif/harness/lib"
)

// blobNameRe matches a digest inside a step name (finding keys must not depend on the seed).
var blobNameRe = regexp.MustCompile(`[0-9a-f]{64}(/[0-9]+)?`)

type blob struct {
	data []byte
	hash string
	size int64
	what string
}

func mkBlob(data []byte, what string) *blob {
	return &blob{data: data, hash: lib.Sha256Hex(data), size: int64(len(data)), what: what}
}

func (b *blob) digest() *pb.Digest { return &pb.Digest{Hash: b.hash, SizeBytes: b.size} }

// blobPool is what the warm-up stores; generators refer to it.
type blobPool struct {
	small  []*blob
	medium []*blob // several hundred KiB
	large  []*blob // several MiB
	// a well-formed directory tree
	rootDir  *blob
	wideDir  *blob   // root with many children (large GetTree answer)
	children []*blob // children of wideDir
	tree     *blob   // well-formed Tree message
	acKey    string  // key of a valid ActionResult
}

// ---------------------------------------------------------------------------
// result helpers

func grpcRes(err error) result {
	code := status.Code(err)
	res := result{status: "grpc:" + code.String(), success: err == nil}
	if err != nil {
		res.note = clip(err.Error(), 200)
	}
	switch code {
	case codes.Unavailable:
		res.transport = true
	case codes.DeadlineExceeded:
		// only the op's own (generous) deadline produces this from the client side;
		// servers of this project never set deadlines.
		res.timeout = true
	}
	return res
}

func clip(s string, n int) string {
	if len(s) > n {
		return s[:n] + "..."
	}
	return s
}

// describeBytes is the journal form of a payload.
func describeBytes(b []byte) any {
	if len(b) <= 64 {
		return map[string]any{"hex": hex.EncodeToString(b)}
	}
	h := sha256.Sum256(b)
	return map[string]any{"len": len(b), "sha256": hex.EncodeToString(h[:8]), "head": hex.EncodeToString(b[:24])}
}

type httpReq struct {
	method string
	path   string
	hdr    map[string]string
	body   []byte
}

func (fx *fixture) httpDo(ctx context.Context, q httpReq) result {
	var rd io.Reader
	if q.body != nil {
		rd = bytes.NewReader(q.body)
	}
	req, err := http.NewRequestWithContext(ctx, q.method, "http://"+fx.child.HTTPAddr+q.path, rd)
	if err != nil {
		return result{status: "client:bad-request", note: err.Error()}
	}
	for k, v := range q.hdr {
		if strings.EqualFold(k, "Host") {
			req.Host = v
		} else {
			req.Header[k] = []string{v}
		}
	}
	resp, err := fx.srv.HTTPClient.Do(req)
	if err != nil {
		if ctx.Err() == context.DeadlineExceeded {
			return result{status: "timeout", timeout: true, note: clip(err.Error(), 200)}
		}
		es := err.Error()
		switch {
		case strings.Contains(es, "EOF"), strings.Contains(es, "connection reset"), strings.Contains(es, "broken pipe"), strings.Contains(es, "server closed"):
			return result{status: "transport:closed", transport: true, note: clip(es, 200)}
		}
		return result{status: "client:error", note: clip(es, 200)}
	}
	defer func() { _ = resp.Body.Close() }()
	_, berr := io.Copy(io.Discard, resp.Body)
	res := result{status: fmt.Sprintf("http:%d", resp.StatusCode), success: resp.StatusCode >= 200 && resp.StatusCode < 300}
	if berr != nil {
		res.note = "body: " + clip(berr.Error(), 160)
		if ctx.Err() == context.DeadlineExceeded {
			res.timeout = true
		}
	}
	return res
}

// ---------------------------------------------------------------------------
// well-formed helpers (used by warm-up and by setup ops)

func (fx *fixture) bsWrite(ctx context.Context, name string, payload []byte, chunk int) error {
	_, err := fx.srv.BSWrite(ctx, name, payload, chunk)
	return err
}

func (fx *fixture) putBlob(ctx context.Context, b *blob) error {
	if b.size == 0 {
		return nil
	}
	if b.size <= 512*lib.KiB {
		resp, err := fx.srv.CAS.BatchUpdateBlobs(ctx, &pb.BatchUpdateBlobsRequest{Requests: []*pb.BatchUpdateBlobsRequest_Request{{Digest: b.digest(), Data: b.data}}})
		if err != nil {
			return err
		}
		for _, r := range resp.Responses {
			if r.GetStatus().GetCode() != 0 {
				return fmt.Errorf("BatchUpdateBlobs: per-blob status %d", r.GetStatus().GetCode())
			}
		}
		return nil
	}
	return fx.bsWrite(ctx, lib.ResUpload("00000000-0000-4000-8000-000000000014", b.hash, b.size), b.data, lib.MiB)
}

func (fx *fixture) isMissing(ctx context.Context, b *blob) (bool, error) {
	miss, err := fx.srv.FindMissing(ctx, b.digest())
	return len(miss) > 0, err
}

// ensureOp is a journalled housekeeping request: make sure the blobs are stored.
func ensureOp(bl ...*blob) *op {
	names := make([]string, 0, len(bl))
	for _, b := range bl {
		names = append(names, fmt.Sprintf("%s/%d", b.hash[:12], b.size))
	}
	return &op{ep: "setup", gen: "setup.ensure", setup: true, desc: map[string]any{"blobs": names},
		run: func(ctx context.Context, fx *fixture) result {
			for _, b := range bl {
				miss, err := fx.isMissing(ctx, b)
				if err != nil {
					return grpcRes(err)
				}
				if miss {
					if err := fx.putBlob(ctx, b); err != nil {
						return grpcRes(err)
					}
				}
			}
			return result{status: "ok", success: true}
		}}
}

func dirBlob(d *pb.Directory) *blob {
	b, err := proto.MarshalOptions{Deterministic: true}.Marshal(d)
	if err != nil {
		panic(err)
	}
	return mkBlob(b, "directory")
}

func msgBlob(m proto.Message, what string) *blob {
	b, err := proto.MarshalOptions{Deterministic: true}.Marshal(m)
	if err != nil {
		panic(err)
	}
	return mkBlob(b, what)
}

func sri(hash string) string {
	raw, _ := hex.DecodeString(hash)
	return "sha256-" + base64.StdEncoding.EncodeToString(raw)
}

// warmup stores the pool and sends one well-formed request of every kind so
// that lazily started helpers (encoder/decoder pools, transports, idle
// connections) are part of the baseline.
func (fx *fixture) warmup() bool {
	rng := rand.New(rand.NewPCG(uint64(fx.r.Seed), uint64(len(fx.p.name))*7919+uint64(fx.restarts)))
	tag := fmt.Sprintf("c14/%s/%d/%d", fx.p.name, fx.r.Seed, fx.restarts)
	pl := &blobPool{}
	for i, n := range []int{1, 17, 300, 4095, 4096, 4097, 20000, 70000} {
		pl.small = append(pl.small, mkBlob(lib.GenBlob(rng, n, lib.Pick(rng, lib.ContentKinds), fmt.Sprintf("%s/s%d", tag, i)), "small"))
	}
	pl.medium = append(pl.medium,
		mkBlob(lib.GenBlob(rng, 300*lib.KiB+7, "random", tag+"/m0"), "medium"),
		mkBlob(lib.GenBlob(rng, 700*lib.KiB+1, "text", tag+"/m1"), "medium"))
	pl.large = append(pl.large,
		mkBlob(lib.GenBlob(rng, 3*lib.MiB+1, "random", tag+"/l0"), "large"),
		mkBlob(lib.GenBlob(rng, 4*lib.MiB+4097, "text", tag+"/l1"), "large"))
	// directory tree
	leaf := dirBlob(&pb.Directory{Files: []*pb.FileNode{{Name: "a.txt", Digest: pl.small[1].digest()}, {Name: "b.bin", Digest: pl.small[3].digest(), IsExecutable: true}}})
	mid := dirBlob(&pb.Directory{Directories: []*pb.DirectoryNode{{Name: "leaf", Digest: leaf.digest()}}, Files: []*pb.FileNode{{Name: "c", Digest: pl.small[2].digest()}},
		Symlinks: []*pb.SymlinkNode{{Name: "l", Target: "c"}}})
	pl.rootDir = dirBlob(&pb.Directory{Directories: []*pb.DirectoryNode{{Name: "mid", Digest: mid.digest()}, {Name: "leaf2", Digest: leaf.digest()}}})
	wide := &pb.Directory{}
	for i := 0; i < 300; i++ {
		c := &pb.Directory{}
		for j := 0; j < 40; j++ {
			c.Files = append(c.Files, &pb.FileNode{Name: fmt.Sprintf("file-%s-%03d-%02d-%s", tag, i, j, strings.Repeat("x", 40)), Digest: pl.small[j%len(pl.small)].digest()})
		}
		cb := dirBlob(c)
		pl.children = append(pl.children, cb)
		wide.Directories = append(wide.Directories, &pb.DirectoryNode{Name: fmt.Sprintf("d%03d", i), Digest: cb.digest()})
	}
	pl.wideDir = dirBlob(wide)
	leafDir := &pb.Directory{Files: []*pb.FileNode{{Name: "a.txt", Digest: pl.small[1].digest()}}}
	pl.tree = msgBlob(&pb.Tree{Root: &pb.Directory{Files: []*pb.FileNode{{Name: "r", Digest: pl.small[0].digest()}}, Directories: []*pb.DirectoryNode{{Name: "leaf", Digest: dirBlob(leafDir).digest()}}},
		Children: []*pb.Directory{leafDir}}, "tree")
	fx.pool = pl

	ctx, cancel := context.WithTimeout(context.Background(), 3*time.Minute)
	defer cancel()
	fail := func(what string, err error) bool {
		// A well-formed request of the warm-up that kills (or wedges) the server is a
		// violation like any other; a dying process needs a moment to be seen as gone.
		fx.child.WaitExit(2 * time.Second)
		if fx.child.Exited() && strings.Contains(fx.child.LogTail(2000), "address already in use") {
			// not a death: the server never came up, another process of the machine took one of
			// its ports between the harness picking it and the server binding it
			fx.portStolen = true
			fx.r.Count("fixture." + fx.p.name + ".port-stolen")
			return false
		}
		fx.lastOp = &op{ep: "warmup", gen: "warmup." + blobNameRe.ReplaceAllString(what, "<blob>"), desc: map[string]any{"step": what, "error": fmt.Sprint(err)}}
		fx.journalWrite(fx.lastOp)
		if !fx.livenessCheck("warm-up") {
			return false
		}
		fx.r.Inconclusive(fmt.Sprintf("%s: warm-up step %q failed on the unfuzzed server: %v", fx.p.name, what, err))
		fx.dead = true
		return false
	}
	// store
	all := append([]*blob{}, pl.small...)
	all = append(all, pl.medium...)
	all = append(all, pl.large...)
	all = append(all, leaf, mid, pl.rootDir, pl.wideDir, pl.tree)
	for _, b := range all {
		if err := fx.putBlob(ctx, b); err != nil {
			return fail("store "+b.what, err)
		}
	}
	var reqs []*pb.BatchUpdateBlobsRequest_Request
	for _, c := range pl.children {
		reqs = append(reqs, &pb.BatchUpdateBlobsRequest_Request{Digest: c.digest(), Data: c.data})
	}
	if _, err := fx.srv.CAS.BatchUpdateBlobs(ctx, &pb.BatchUpdateBlobsRequest{Requests: reqs}); err != nil {
		return fail("store wide children", err)
	}
	// one well-formed request per endpoint
	if _, err := fx.srv.Cap.GetCapabilities(ctx, &pb.GetCapabilitiesRequest{}); err != nil {
		return fail("GetCapabilities", err)
	}
	acDigest := mkBlob([]byte("action:"+tag), "action").digest()
	pl.acKey = acDigest.Hash
	ar := &pb.ActionResult{
		OutputFiles:       []*pb.OutputFile{{Path: "out/a", Digest: pl.small[2].digest()}},
		OutputDirectories: []*pb.OutputDirectory{{Path: "out/dir", TreeDigest: pl.tree.digest()}},
		StdoutDigest:      pl.small[1].digest(),
		ExitCode:          0,
	}
	if _, err := fx.srv.AC.UpdateActionResult(ctx, &pb.UpdateActionResultRequest{ActionDigest: acDigest, ActionResult: ar}); err != nil {
		return fail("UpdateActionResult", err)
	}
	if _, err := fx.srv.AC.GetActionResult(ctx, &pb.GetActionResultRequest{ActionDigest: acDigest, InlineStdout: true, InlineOutputFiles: []string{"out/a"}}); err != nil {
		return fail("GetActionResult", err)
	}
	if _, err := fx.srv.FindMissing(ctx, pl.small[0].digest(), &pb.Digest{Hash: lib.RandHash(rng), SizeBytes: 5}); err != nil {
		return fail("FindMissingBlobs", err)
	}
	for _, zs := range []bool{false, true} {
		q := &pb.BatchReadBlobsRequest{Digests: []*pb.Digest{pl.small[4].digest(), pl.medium[0].digest()}}
		if zs {
			q.AcceptableCompressors = []pb.Compressor_Value{pb.Compressor_ZSTD}
		}
		if _, err := fx.srv.CAS.BatchReadBlobs(ctx, q); err != nil {
			return fail("BatchReadBlobs", err)
		}
	}
	for _, root := range []*blob{pl.rootDir, pl.wideDir} {
		st, err := fx.srv.CAS.GetTree(ctx, &pb.GetTreeRequest{RootDigest: root.digest()})
		if err == nil {
			for {
				if _, err = st.Recv(); err != nil {
					break
				}
			}
		}
		if err != io.EOF {
			return fail("GetTree", err)
		}
	}
	for _, b := range []*blob{pl.small[5], pl.medium[1], pl.large[0], pl.large[1]} {
		for _, name := range []string{lib.ResBlobs(b.hash, b.size), lib.ResZstd(b.hash, b.size)} {
			for _, off := range []int64{0, b.size / 2} {
				if _, err := fx.srv.BSRead(ctx, name, off, 0); err != nil {
					return fail("ByteStream.Read "+name, err)
				}
			}
		}
	}
	zb := mkBlob(lib.GenBlob(rng, 90000, "text", tag+"/z"), "zstd-upload")
	if err := fx.bsWrite(ctx, lib.ResUploadZstd("u-1", zb.hash, zb.size), lib.ZstdEncodeKP(zb.data, 1), 16*lib.KiB); err != nil {
		return fail("ByteStream.Write zstd", err)
	}
	if _, err := fx.srv.BS.QueryWriteStatus(ctx, &bs.QueryWriteStatusRequest{ResourceName: lib.ResUpload("u", zb.hash, zb.size)}); err != nil {
		return fail("QueryWriteStatus", err)
	}
	if _, err := fx.srv.CAS.SpliceBlob(ctx, &pb.SpliceBlobRequest{ChunkDigests: []*pb.Digest{pl.small[3].digest(), pl.small[4].digest()}}); err != nil {
		return fail("SpliceBlob", err)
	}
	// Remote Asset: one successful fetch (hash unknown), one with checksum, one miss.
	for i, q := range []*asset.FetchBlobRequest{
		{Uris: []string{fx.origin.URL() + "/blob/5000"}},
		{Uris: []string{fx.origin.URL() + "/nocl/7000"}, Qualifiers: []*asset.Qualifier{{Name: "checksum.sri", Value: sri(lib.Sha256Hex(originBytes(7000)))}}},
		{Uris: []string{fx.origin.URL() + "/status/404"}},
	} {
		resp, err := fx.srv.Asset.FetchBlob(ctx, q)
		if err != nil {
			return fail("FetchBlob", err)
		}
		if i < 2 && resp.GetStatus().GetCode() != 0 {
			return fail("FetchBlob", fmt.Errorf("in-band status %d for a fetchable URI", resp.GetStatus().GetCode()))
		}
	}
	// HTTP
	hb := mkBlob(lib.GenBlob(rng, 33333, "repetitive", tag+"/h"), "http")
	for _, q := range []httpReq{
		{method: "PUT", path: "/cas/" + hb.hash, body: hb.data},
		{method: "GET", path: "/cas/" + hb.hash},
		{method: "GET", path: "/cas/" + hb.hash, hdr: map[string]string{"Accept-Encoding": "zstd"}},
		{method: "GET", path: "/cas/" + pl.large[1].hash, hdr: map[string]string{"Accept-Encoding": "zstd"}},
		{method: "GET", path: "/cas/" + pl.large[0].hash},
		{method: "HEAD", path: "/cas/" + hb.hash},
		{method: "PUT", path: "/cas/" + zb.hash, body: lib.ZstdEncodeKP(zb.data, 1), hdr: map[string]string{"Content-Encoding": "zstd", "X-Digest-SizeBytes": fmt.Sprint(zb.size)}},
		{method: "GET", path: "/status"},
		{method: "GET", path: "/metrics"},
	} {
		res := fx.httpDo(ctx, q)
		if res.transport || res.timeout || (!res.success && q.path != "/metrics") {
			return fail("HTTP "+q.method+" "+q.path, fmt.Errorf("%s %s", res.status, res.note))
		}
	}
	arBytes, _ := proto.Marshal(ar)
	acHTTP := lib.Sha256Hex([]byte("http-action:" + tag))
	for _, q := range []httpReq{
		{method: "PUT", path: "/ac/" + acHTTP, body: arBytes},
		{method: "GET", path: "/ac/" + acHTTP},
		{method: "GET", path: "/ac/" + acHTTP, hdr: map[string]string{"Accept": "application/json"}},
		{method: "HEAD", path: "/ac/" + acHTTP},
	} {
		res := fx.httpDo(ctx, q)
		if res.transport || res.timeout || !res.success {
			return fail("HTTP "+q.method+" "+q.path, fmt.Errorf("%s %s", res.status, res.note))
		}
	}
	// proxy misses through every front end
	absent := lib.RandHash(rng)
	_ = fx.httpDo(ctx, httpReq{method: "GET", path: "/cas/" + absent})
	_ = fx.httpDo(ctx, httpReq{method: "HEAD", path: "/cas/" + absent})
	_ = fx.httpDo(ctx, httpReq{method: "GET", path: "/ac/" + absent})
	_, _ = fx.srv.BSRead(ctx, lib.ResBlobs(absent, 10), 0, 0)
	_, _ = fx.srv.AC.GetActionResult(ctx, &pb.GetActionResultRequest{ActionDigest: &pb.Digest{Hash: absent, SizeBytes: 10}})

	fx.lastOp = &op{ep: "warmup", gen: "warmup.well-formed-requests"}
	if !fx.livenessCheck("warm-up") {
		return false
	}
	fx.r.Count("warmup.done")
	return fx.takeBaseline()
}

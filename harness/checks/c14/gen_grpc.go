package c14

import (
	"context"
	"fmt"
	"io"
	"math"
	"math/rand/v2"
	"strings"
	"time"

	asset "github.com/buchgr/bazel-remote/v2/genproto/build/bazel/remote/asset/v1"
	pb "github.com/buchgr/bazel-remote/v2/genproto/build/bazel/remote/execution/v2"

	bs "google.golang.org/genproto/googleapis/bytestream"
	"google.golang.org/grpc"
	"google.golang.org/grpc/codes"
	_ "google.golang.org/grpc/encoding/gzip"
	"google.golang.org/grpc/status"
	"google.golang.org/protobuf/encoding/protowire"
	"google.golang.org/protobuf/proto"

	"verif/harness/lib"
)

func always(plan, quickness) bool { return true }

// drainTree reads a GetTree stream to its end.
func drainTree(st pb.ContentAddressableStorage_GetTreeClient, err error) error {
	if err != nil {
		return err
	}
	for {
		if _, err = st.Recv(); err != nil {
			if err == io.EOF {
				return nil
			}
			return err
		}
	}
}

func validAR(fx *fixture) *pb.ActionResult {
	p := fx.pool
	return &pb.ActionResult{
		OutputFiles:       []*pb.OutputFile{{Path: "out/a", Digest: p.small[2].digest()}},
		OutputDirectories: []*pb.OutputDirectory{{Path: "out/dir", TreeDigest: p.tree.digest()}},
		StdoutDigest:      p.small[1].digest(),
	}
}

func freshKey(fx *fixture, rng *rand.Rand) *pb.Digest {
	return &pb.Digest{Hash: lib.RandHash(rng), SizeBytes: int64(1 + rng.IntN(500))}
}

func init() {
	// -----------------------------------------------------------------------
	// digests in every unary / streaming RPC that takes one
	for _, dm := range digestMuts {
		dm := dm
		mk := func(fx *fixture, rng *rand.Rand) (*pb.Digest, *blob) {
			b := lib.Pick(rng, fx.pool.small[1:])
			return dm.f(rng, b), b
		}
		register(
			variant{fam: "digest.FindMissingBlobs", name: dm.name, applies: always, build: func(fx *fixture, rng *rand.Rand) []*op {
				d, b := mk(fx, rng)
				ds := []*pb.Digest{b.digest(), d, {Hash: lib.RandHash(rng), SizeBytes: 9}}
				return []*op{{ep: "grpc:CAS.FindMissingBlobs", mustFail: dm.mustFail, class: dm.class(), desc: map[string]any{"bad_digest": descDigest(d), "position": 1, "of": 3},
					run: func(ctx context.Context, fx *fixture) result {
						_, err := fx.srv.CAS.FindMissingBlobs(ctx, &pb.FindMissingBlobsRequest{BlobDigests: ds})
						return grpcRes(err)
					}}}
			}},
			variant{fam: "digest.BatchReadBlobs", name: dm.name, applies: always, build: func(fx *fixture, rng *rand.Rand) []*op {
				d, b := mk(fx, rng)
				zs := rng.IntN(2) == 0
				return []*op{{ep: "grpc:CAS.BatchReadBlobs", mustFail: dm.mustFail, class: dm.class(), desc: map[string]any{"bad_digest": descDigest(d), "accept_zstd": zs},
					run: func(ctx context.Context, fx *fixture) result {
						q := &pb.BatchReadBlobsRequest{Digests: []*pb.Digest{b.digest(), d}}
						if zs {
							q.AcceptableCompressors = []pb.Compressor_Value{pb.Compressor_ZSTD}
						}
						resp, err := fx.srv.CAS.BatchReadBlobs(ctx, q)
						res := grpcRes(err)
						if err == nil {
							// in-band status of the bad digest
							for i, r := range resp.Responses {
								if i == 1 && r.GetStatus().GetCode() != 0 {
									res.success = false
									res.status = "grpc:OK/blob:" + codes.Code(r.GetStatus().GetCode()).String()
								}
							}
						}
						return res
					},
					after: func(fx *fixture, _ result) {
						// Observation only (not part of this property): does a read with a
						// malformed size make the server drop the stored blob?
						if fx.p.kind != "binary" || !strings.HasPrefix(dm.name, "size-") {
							return
						}
						ctx, cancel := context.WithTimeout(context.Background(), 10*time.Second)
						defer cancel()
						if miss, err := fx.isMissing(ctx, b); err == nil {
							if miss {
								fx.r.Count("observation.stored-blob-gone-after-read-with." + dm.name)
								_ = fx.putBlob(ctx, b)
							} else {
								fx.r.Count("observation.stored-blob-still-there-after-read-with." + dm.name)
							}
						}
					}}}
			}},
			variant{fam: "digest.BatchUpdateBlobs", name: dm.name, applies: always, build: func(fx *fixture, rng *rand.Rand) []*op {
				d, b := mk(fx, rng)
				comp := lib.Pick(rng, []pb.Compressor_Value{pb.Compressor_IDENTITY, pb.Compressor_IDENTITY, pb.Compressor_ZSTD})
				data := b.data
				if comp == pb.Compressor_ZSTD {
					data = lib.ZstdEncodeKP(data, 1)
				}
				return []*op{{ep: "grpc:CAS.BatchUpdateBlobs", mustFail: dm.mustFail, class: dm.class(), desc: map[string]any{"bad_digest": descDigest(d), "compressor": comp.String()},
					run: func(ctx context.Context, fx *fixture) result {
						resp, err := fx.srv.CAS.BatchUpdateBlobs(ctx, &pb.BatchUpdateBlobsRequest{Requests: []*pb.BatchUpdateBlobsRequest_Request{{Digest: d, Data: data, Compressor: comp}}})
						res := grpcRes(err)
						if err == nil {
							for _, r := range resp.Responses {
								if r.GetStatus().GetCode() != 0 {
									res.success = false
									res.status = "grpc:OK/blob:" + codes.Code(r.GetStatus().GetCode()).String()
								}
							}
						}
						return res
					}}}
			}},
			variant{fam: "digest.GetTree", name: dm.name, applies: always, build: func(fx *fixture, rng *rand.Rand) []*op {
				d := dm.f(rng, fx.pool.rootDir)
				pageSize, pageToken := int32(rng.IntN(3))-1, lib.Pick(rng, []string{"", "x"})
				return []*op{{ep: "grpc:CAS.GetTree", mustFail: dm.mustFail, class: dm.class(), desc: map[string]any{"root_digest": descDigest(d), "page_size": pageSize, "page_token": pageToken},
					run: func(ctx context.Context, fx *fixture) result {
						return grpcRes(drainTree(fx.srv.CAS.GetTree(ctx, &pb.GetTreeRequest{RootDigest: d, PageSize: pageSize, PageToken: pageToken})))
					}}}
			}},
			variant{fam: "digest.GetActionResult", name: dm.name, applies: always, build: func(fx *fixture, rng *rand.Rand) []*op {
				d := dm.f(rng, &blob{hash: fx.pool.acKey, size: 20})
				inl := rng.IntN(2) == 0
				return []*op{{ep: "grpc:AC.GetActionResult", mustFail: dm.mustFail, class: dm.class(), desc: map[string]any{"action_digest": descDigest(d), "inline": inl},
					run: func(ctx context.Context, fx *fixture) result {
						_, err := fx.srv.AC.GetActionResult(ctx, &pb.GetActionResultRequest{ActionDigest: d, InlineStdout: inl, InlineStderr: inl, InlineOutputFiles: []string{"out/a"}})
						return grpcRes(err)
					}}}
			}},
			variant{fam: "digest.UpdateActionResult", name: dm.name, applies: always, build: func(fx *fixture, rng *rand.Rand) []*op {
				d := dm.f(rng, &blob{hash: lib.RandHash(rng), size: 20})
				return []*op{{ep: "grpc:AC.UpdateActionResult", mustFail: dm.mustFail, class: dm.class(), desc: map[string]any{"action_digest": descDigest(d)},
					run: func(ctx context.Context, fx *fixture) result {
						_, err := fx.srv.AC.UpdateActionResult(ctx, &pb.UpdateActionResultRequest{ActionDigest: d, ActionResult: validAR(fx)})
						return grpcRes(err)
					}}}
			}},
		)
		// digests inside an ActionResult (gRPC and HTTP upload)
		for _, where := range []string{"output-file", "tree-digest", "stdout", "stderr"} {
			where := where
			mf := dm.mustFail
			if dm.name == "size0-nonempty-hash" {
				mf = false // a wrong digest rather than a malformed one when it only refers to another blob
			}
			if dm.name == "nil" && (where == "stdout" || where == "stderr") {
				mf = false // optional fields
			}
			build := func(fx *fixture, rng *rand.Rand) (*pb.ActionResult, *pb.Digest) {
				d := dm.f(rng, lib.Pick(rng, fx.pool.small[1:]))
				ar := validAR(fx)
				switch where {
				case "output-file":
					ar.OutputFiles = append(ar.OutputFiles, &pb.OutputFile{Path: "out/bad", Digest: d})
				case "tree-digest":
					ar.OutputDirectories = append(ar.OutputDirectories, &pb.OutputDirectory{Path: "out/baddir", TreeDigest: d})
				case "stdout":
					ar.StdoutDigest = d
				case "stderr":
					ar.StderrDigest = d
				}
				return ar, d
			}
			register(variant{fam: "digest.ActionResult." + where, name: dm.name, applies: always, build: func(fx *fixture, rng *rand.Rand) []*op {
				ar, d := build(fx, rng)
				key := freshKey(fx, rng)
				return []*op{{ep: "grpc:AC.UpdateActionResult", mustFail: mf, class: dm.class(), desc: map[string]any{"inner_digest": descDigest(d), "where": where},
					run: func(ctx context.Context, fx *fixture) result {
						_, err := fx.srv.AC.UpdateActionResult(ctx, &pb.UpdateActionResultRequest{ActionDigest: key, ActionResult: ar})
						return grpcRes(err)
					}}}
			}})
			register(variant{fam: "digest.ActionResult.http." + where, name: dm.name, applies: func(p plan, _ quickness) bool { return p.validateAC }, build: func(fx *fixture, rng *rand.Rand) []*op {
				ar, d := build(fx, rng)
				body, _ := proto.Marshal(ar)
				key := lib.RandHash(rng)
				return []*op{{ep: "http:PUT:/ac", mustFail: mf, class: dm.class(), desc: map[string]any{"inner_digest": descDigest(d), "where": where},
					run: func(ctx context.Context, fx *fixture) result {
						return fx.httpDo(ctx, httpReq{method: "PUT", path: "/ac/" + key, body: body})
					}}}
			}})
		}
		// SpliceBlob
		register(
			variant{fam: "digest.SpliceBlob.blob", name: dm.name, applies: always, build: func(fx *fixture, rng *rand.Rand) []*op {
				a, b := fx.pool.small[3], fx.pool.small[4]
				whole := mkBlob(append(append([]byte{}, a.data...), b.data...), "spliced")
				d := dm.f(rng, whole)
				mf := dm.mustFail && dm.name != "nil" // optional: the server computes it
				return []*op{ensureOp(a, b), {ep: "grpc:CAS.SpliceBlob", mustFail: mf, class: dm.class(), desc: map[string]any{"blob_digest": descDigest(d)},
					run: func(ctx context.Context, fx *fixture) result {
						_, err := fx.srv.CAS.SpliceBlob(ctx, &pb.SpliceBlobRequest{BlobDigest: d, ChunkDigests: []*pb.Digest{a.digest(), b.digest()}})
						return grpcRes(err)
					}}}
			}},
			variant{fam: "digest.SpliceBlob.chunk", name: dm.name, applies: always, build: func(fx *fixture, rng *rand.Rand) []*op {
				a := fx.pool.small[3]
				d := dm.f(rng, fx.pool.small[4])
				return []*op{ensureOp(a), {ep: "grpc:CAS.SpliceBlob", mustFail: dm.mustFail, class: dm.class(), desc: map[string]any{"chunk_digest": descDigest(d)},
					run: func(ctx context.Context, fx *fixture) result {
						_, err := fx.srv.CAS.SpliceBlob(ctx, &pb.SpliceBlobRequest{ChunkDigests: []*pb.Digest{a.digest(), d}})
						return grpcRes(err)
					}}}
			}},
		)
	}

	// -----------------------------------------------------------------------
	// SpliceBlob specials
	type spliceCase struct {
		name string
		mf   bool
		f    func(fx *fixture, rng *rand.Rand) *pb.SpliceBlobRequest
	}
	for _, c := range []spliceCase{
		{"no-chunks", true, func(fx *fixture, rng *rand.Rand) *pb.SpliceBlobRequest { return &pb.SpliceBlobRequest{} }},
		{"overflowing-chunk-sizes", true, func(fx *fixture, rng *rand.Rand) *pb.SpliceBlobRequest {
			return &pb.SpliceBlobRequest{ChunkDigests: []*pb.Digest{{Hash: lib.RandHash(rng), SizeBytes: math.MaxInt64}, {Hash: lib.RandHash(rng), SizeBytes: math.MaxInt64}, {Hash: lib.RandHash(rng), SizeBytes: 2}}}
		}},
		{"overflow-wraps-to-blob-size", true, func(fx *fixture, rng *rand.Rand) *pb.SpliceBlobRequest {
			// MaxInt64 + MaxInt64 + 12 wraps to 10
			return &pb.SpliceBlobRequest{BlobDigest: &pb.Digest{Hash: lib.RandHash(rng), SizeBytes: 10},
				ChunkDigests: []*pb.Digest{{Hash: lib.RandHash(rng), SizeBytes: math.MaxInt64}, {Hash: lib.RandHash(rng), SizeBytes: math.MaxInt64}, {Hash: lib.RandHash(rng), SizeBytes: 12}}}
		}},
		{"sum-mismatch", true, func(fx *fixture, rng *rand.Rand) *pb.SpliceBlobRequest {
			a := fx.pool.small[3]
			return &pb.SpliceBlobRequest{BlobDigest: &pb.Digest{Hash: lib.RandHash(rng), SizeBytes: a.size + 1}, ChunkDigests: []*pb.Digest{a.digest()}}
		}},
		{"wrong-blob-hash", false, func(fx *fixture, rng *rand.Rand) *pb.SpliceBlobRequest {
			a, b := fx.pool.medium[0], fx.pool.small[4]
			return &pb.SpliceBlobRequest{BlobDigest: &pb.Digest{Hash: lib.RandHash(rng), SizeBytes: a.size + b.size}, ChunkDigests: []*pb.Digest{a.digest(), b.digest()}}
		}},
		{"missing-chunk", false, func(fx *fixture, rng *rand.Rand) *pb.SpliceBlobRequest {
			a := fx.pool.medium[0]
			return &pb.SpliceBlobRequest{ChunkDigests: []*pb.Digest{a.digest(), {Hash: lib.RandHash(rng), SizeBytes: 10}, a.digest()}}
		}},
		{"missing-chunk-with-blob-digest", false, func(fx *fixture, rng *rand.Rand) *pb.SpliceBlobRequest {
			a := fx.pool.medium[0]
			return &pb.SpliceBlobRequest{BlobDigest: &pb.Digest{Hash: lib.RandHash(rng), SizeBytes: 2*a.size + 10}, ChunkDigests: []*pb.Digest{a.digest(), {Hash: lib.RandHash(rng), SizeBytes: 10}, a.digest()}}
		}},
		{"many-chunks", false, func(fx *fixture, rng *rand.Rand) *pb.SpliceBlobRequest {
			q := &pb.SpliceBlobRequest{}
			for i := 0; i < 300; i++ {
				q.ChunkDigests = append(q.ChunkDigests, lib.Pick(rng, fx.pool.small[1:]).digest())
			}
			return q
		}},
		{"large-chunks-wrong-hash", false, func(fx *fixture, rng *rand.Rand) *pb.SpliceBlobRequest {
			a, b := fx.pool.large[0], fx.pool.large[1]
			return &pb.SpliceBlobRequest{BlobDigest: &pb.Digest{Hash: lib.RandHash(rng), SizeBytes: a.size + b.size}, ChunkDigests: []*pb.Digest{a.digest(), b.digest()}}
		}},
		{"total-exceeds-small-cache", false, func(fx *fixture, rng *rand.Rand) *pb.SpliceBlobRequest {
			// refused (or stored) before/while the chunks are being streamed into the new blob
			q := &pb.SpliceBlobRequest{}
			total := int64(0)
			for i := 0; i < 7; i++ {
				b := fx.pool.large[i%2]
				q.ChunkDigests = append(q.ChunkDigests, b.digest())
				total += b.size
			}
			if rng.IntN(2) == 0 {
				q.BlobDigest = &pb.Digest{Hash: lib.RandHash(rng), SizeBytes: total}
			}
			return q
		}},
		{"unknown-digest-function", true, func(fx *fixture, rng *rand.Rand) *pb.SpliceBlobRequest {
			return &pb.SpliceBlobRequest{ChunkDigests: []*pb.Digest{fx.pool.small[3].digest()}, DigestFunction: pb.DigestFunction_Value(lib.Pick(rng, []int32{2, 9, 77, -1, math.MaxInt32}))}
		}},
	} {
		c := c
		register(variant{fam: "splice", name: c.name, core: c.name == "total-exceeds-small-cache", applies: always, build: func(fx *fixture, rng *rand.Rand) []*op {
			q := c.f(fx, rng)
			cancelEarly := strings.HasPrefix(c.name, "large") && rng.IntN(2) == 0
			return []*op{ensureOp(fx.pool.small[3], fx.pool.small[4], fx.pool.medium[0], fx.pool.large[0], fx.pool.large[1]),
				{ep: "grpc:CAS.SpliceBlob", mustFail: c.mf, desc: map[string]any{"chunks": len(q.ChunkDigests), "blob_digest": descDigest(q.BlobDigest), "cancel_early": cancelEarly},
					run: func(ctx context.Context, fx *fixture) result {
						if cancelEarly {
							var cancel context.CancelFunc
							ctx, cancel = context.WithTimeout(ctx, 3*time.Millisecond)
							defer cancel()
							_, err := fx.srv.CAS.SpliceBlob(ctx, q)
							return result{status: "grpc:" + status.Code(err).String() + "(client-cancel)", success: err == nil}
						}
						_, err := fx.srv.CAS.SpliceBlob(ctx, q)
						return grpcRes(err)
					}}}
		}})
	}

	// -----------------------------------------------------------------------
	// ActionResult payload structure (nil sub-messages at every depth)
	type arCase struct {
		name string
		mf   bool
		f    func(fx *fixture, rng *rand.Rand) *pb.ActionResult
	}
	arCases := []arCase{
		{"nil-action-result", true, func(*fixture, *rand.Rand) *pb.ActionResult { return nil }},
		{"empty-action-result", false, func(*fixture, *rand.Rand) *pb.ActionResult { return &pb.ActionResult{} }},
		{"nil-output-file-element", true, func(fx *fixture, _ *rand.Rand) *pb.ActionResult {
			ar := validAR(fx)
			ar.OutputFiles = append(ar.OutputFiles, nil, nil)
			return ar
		}},
		{"output-file-empty-path", true, func(fx *fixture, _ *rand.Rand) *pb.ActionResult {
			ar := validAR(fx)
			ar.OutputFiles = append(ar.OutputFiles, &pb.OutputFile{Digest: fx.pool.small[1].digest()})
			return ar
		}},
		{"output-file-absolute-path", false, func(fx *fixture, _ *rand.Rand) *pb.ActionResult {
			ar := validAR(fx)
			ar.OutputFiles = append(ar.OutputFiles, &pb.OutputFile{Path: "/etc/passwd", Digest: fx.pool.small[1].digest()})
			return ar
		}},
		{"nil-output-directory-element", true, func(fx *fixture, _ *rand.Rand) *pb.ActionResult {
			ar := validAR(fx)
			ar.OutputDirectories = append(ar.OutputDirectories, nil)
			return ar
		}},
		{"output-directory-without-tree-digest", true, func(fx *fixture, _ *rand.Rand) *pb.ActionResult {
			ar := validAR(fx)
			ar.OutputDirectories = append(ar.OutputDirectories, &pb.OutputDirectory{Path: "d"})
			return ar
		}},
		{"nil-symlink-elements", true, func(fx *fixture, _ *rand.Rand) *pb.ActionResult {
			ar := validAR(fx)
			ar.OutputSymlinks = []*pb.OutputSymlink{nil}
			ar.OutputFileSymlinks = []*pb.OutputSymlink{nil}      //nolint:staticcheck
			ar.OutputDirectorySymlinks = []*pb.OutputSymlink{nil} //nolint:staticcheck
			return ar
		}},
		{"symlink-without-target", false, func(fx *fixture, _ *rand.Rand) *pb.ActionResult {
			ar := validAR(fx)
			ar.OutputSymlinks = []*pb.OutputSymlink{{Path: "p"}}
			return ar
		}},
		{"inlined-contents-digest-mismatch", false, func(fx *fixture, rng *rand.Rand) *pb.ActionResult {
			ar := validAR(fx)
			ar.OutputFiles = append(ar.OutputFiles, &pb.OutputFile{Path: "inl", Digest: &pb.Digest{Hash: lib.RandHash(rng), SizeBytes: 5}, Contents: []byte("hello world")})
			return ar
		}},
		{"inlined-contents-without-digest", false, func(fx *fixture, rng *rand.Rand) *pb.ActionResult {
			ar := &pb.ActionResult{OutputFiles: []*pb.OutputFile{{Path: "inl", Contents: lib.GenBlob(rng, 100, "random", "inl")}}}
			return ar
		}},
		{"stdout-raw-with-wrong-digest", false, func(fx *fixture, rng *rand.Rand) *pb.ActionResult {
			return &pb.ActionResult{StdoutRaw: []byte("some output"), StdoutDigest: &pb.Digest{Hash: lib.RandHash(rng), SizeBytes: 3},
				StderrRaw: []byte("err"), StderrDigest: &pb.Digest{Hash: lib.RandHash(rng), SizeBytes: 1 << 40}}
		}},
		{"node-properties-nil-fields", false, func(fx *fixture, _ *rand.Rand) *pb.ActionResult {
			ar := validAR(fx)
			ar.OutputFiles[0].NodeProperties = &pb.NodeProperties{Properties: []*pb.NodeProperty{nil, {}}}
			ar.ExecutionMetadata = &pb.ExecutedActionMetadata{}
			return ar
		}},
		{"enormous-repeated-fields", false, func(fx *fixture, rng *rand.Rand) *pb.ActionResult {
			ar := &pb.ActionResult{}
			for i := 0; i < 20000; i++ {
				ar.OutputFiles = append(ar.OutputFiles, &pb.OutputFile{Path: fmt.Sprintf("f%d", i), Digest: fx.pool.small[1+i%5].digest()})
			}
			return ar
		}},
	}
	for _, c := range arCases {
		c := c
		register(variant{fam: "payload.UpdateActionResult", name: c.name, applies: always, build: func(fx *fixture, rng *rand.Rand) []*op {
			ar := c.f(fx, rng)
			key := freshKey(fx, rng)
			inst := lib.Pick(rng, []string{"", "inst", "a/b"})
			return []*op{{ep: "grpc:AC.UpdateActionResult", mustFail: c.mf, desc: map[string]any{"case": c.name, "instance": inst},
				run: func(ctx context.Context, fx *fixture) result {
					_, err := fx.srv.AC.UpdateActionResult(ctx, &pb.UpdateActionResultRequest{ActionDigest: key, ActionResult: ar, InstanceName: inst})
					res := grpcRes(err)
					if err == nil && strings.HasPrefix(c.name, "enormous") {
						// read it back through the validating path
						_, err = fx.srv.AC.GetActionResult(ctx, &pb.GetActionResultRequest{ActionDigest: key, InlineOutputFiles: []string{"f1", "f2"}})
						res.note = "readback " + status.Code(err).String()
					}
					return res
				}}}
		}})
	}

	// -----------------------------------------------------------------------
	// Requests with absent top-level sub-messages / nil list elements
	register(
		variant{fam: "payload.nil", name: "GetTree-no-root", applies: always, build: func(fx *fixture, rng *rand.Rand) []*op {
			return []*op{{ep: "grpc:CAS.GetTree", mustFail: true, desc: "GetTreeRequest{}", run: func(ctx context.Context, fx *fixture) result {
				return grpcRes(drainTree(fx.srv.CAS.GetTree(ctx, &pb.GetTreeRequest{})))
			}}}
		}},
		variant{fam: "payload.nil", name: "BatchUpdate-nil-request-element", applies: always, build: func(fx *fixture, rng *rand.Rand) []*op {
			return []*op{{ep: "grpc:CAS.BatchUpdateBlobs", mustFail: true, desc: "Requests:[nil,{no digest}]", run: func(ctx context.Context, fx *fixture) result {
				_, err := fx.srv.CAS.BatchUpdateBlobs(ctx, &pb.BatchUpdateBlobsRequest{Requests: []*pb.BatchUpdateBlobsRequest_Request{nil, {Data: []byte("x")}}})
				return grpcRes(err)
			}}}
		}},
		variant{fam: "payload.nil", name: "empty-requests", applies: always, build: func(fx *fixture, rng *rand.Rand) []*op {
			return []*op{{ep: "grpc:*", desc: "empty FindMissingBlobs/BatchRead/BatchUpdate/QueryWriteStatus/Read", run: func(ctx context.Context, fx *fixture) result {
				_, e1 := fx.srv.CAS.FindMissingBlobs(ctx, &pb.FindMissingBlobsRequest{})
				_, e2 := fx.srv.CAS.BatchReadBlobs(ctx, &pb.BatchReadBlobsRequest{})
				_, e3 := fx.srv.CAS.BatchUpdateBlobs(ctx, &pb.BatchUpdateBlobsRequest{})
				_, e4 := fx.srv.BS.QueryWriteStatus(ctx, &bs.QueryWriteStatusRequest{})
				_, e5 := fx.srv.BSRead(ctx, "", 0, 0)
				_, e6 := fx.srv.CAS.SplitBlob(ctx, &pb.SplitBlobRequest{})
				_, e7 := fx.srv.Asset.FetchDirectory(ctx, &asset.FetchDirectoryRequest{})
				for _, e := range []error{e1, e2, e3, e4, e5, e6, e7} {
					if status.Code(e) == codes.Unavailable {
						return grpcRes(e)
					}
				}
				return result{status: fmt.Sprintf("grpc:%v/%v/%v/%v/%v/%v/%v", status.Code(e1), status.Code(e2), status.Code(e3), status.Code(e4), status.Code(e5), status.Code(e6), status.Code(e7))}
			}}}
		}},
		variant{fam: "payload.compressor", name: "BatchUpdate-unknown-compressor", applies: always, build: func(fx *fixture, rng *rand.Rand) []*op {
			b := mkBlob(lib.GenBlob(rng, 50, "random", "cmp"), "x")
			comp := pb.Compressor_Value(lib.Pick(rng, []int32{2, 3, 4, 99, -1}))
			return []*op{{ep: "grpc:CAS.BatchUpdateBlobs", mustFail: true, desc: map[string]any{"compressor": int32(comp)}, run: func(ctx context.Context, fx *fixture) result {
				resp, err := fx.srv.CAS.BatchUpdateBlobs(ctx, &pb.BatchUpdateBlobsRequest{Requests: []*pb.BatchUpdateBlobsRequest_Request{{Digest: b.digest(), Data: b.data, Compressor: comp}}})
				res := grpcRes(err)
				if err == nil {
					for _, r := range resp.Responses {
						if r.GetStatus().GetCode() != 0 {
							res.success, res.status = false, "grpc:OK/blob:"+codes.Code(r.GetStatus().GetCode()).String()
						}
					}
				}
				return res
			}}}
		}},
		variant{fam: "payload.compressor", name: "BatchUpdate-zstd-garbage", applies: always, build: func(fx *fixture, rng *rand.Rand) []*op {
			b := mkBlob(lib.GenBlob(rng, 5000, "text", "cmpz"), "x")
			z := lib.ZstdEncodeKP(b.data, 1)
			kind := lib.Pick(rng, []string{"garbage", "truncated", "trailing", "wrong-size", "empty"})
			switch kind {
			case "garbage":
				z = lib.GenBlob(rng, 300, "random", "g")
			case "truncated":
				z = z[:len(z)/2]
			case "trailing":
				z = append(append([]byte{}, z...), lib.GenBlob(rng, 64, "random", "t")...)
			case "wrong-size":
				z = lib.ZstdEncodeKP(b.data[:len(b.data)-1], 1)
			case "empty":
				z = nil
			}
			return []*op{{ep: "grpc:CAS.BatchUpdateBlobs", mustFail: true, desc: map[string]any{"zstd_payload": kind}, run: func(ctx context.Context, fx *fixture) result {
				resp, err := fx.srv.CAS.BatchUpdateBlobs(ctx, &pb.BatchUpdateBlobsRequest{Requests: []*pb.BatchUpdateBlobsRequest_Request{{Digest: b.digest(), Data: z, Compressor: pb.Compressor_ZSTD}}})
				res := grpcRes(err)
				if err == nil {
					for _, r := range resp.Responses {
						if r.GetStatus().GetCode() != 0 {
							res.success, res.status = false, "grpc:OK/blob:"+codes.Code(r.GetStatus().GetCode()).String()
						}
					}
				}
				return res
			}}}
		}},
		variant{fam: "payload.acceptable", name: "BatchRead-odd-compressors", applies: always, build: func(fx *fixture, rng *rand.Rand) []*op {
			b := lib.Pick(rng, fx.pool.medium)
			return []*op{ensureOp(b), {ep: "grpc:CAS.BatchReadBlobs", desc: "acceptable_compressors: [99,-1,ZSTD,ZSTD], digest function 77", run: func(ctx context.Context, fx *fixture) result {
				_, err := fx.srv.CAS.BatchReadBlobs(ctx, &pb.BatchReadBlobsRequest{Digests: []*pb.Digest{b.digest(), b.digest(), {Hash: lib.EmptySha256}},
					AcceptableCompressors: []pb.Compressor_Value{99, -1, pb.Compressor_ZSTD, pb.Compressor_ZSTD}, DigestFunction: 77})
				return grpcRes(err)
			}}}
		}},
		variant{fam: "misc", name: "capabilities-health-unknown-method", applies: always, build: func(fx *fixture, rng *rand.Rand) []*op {
			return []*op{{ep: "grpc:misc", desc: "GetCapabilities, health Check/Watch, unknown service and method, gzip-compressed request", run: func(ctx context.Context, fx *fixture) result {
				_, e1 := fx.srv.Cap.GetCapabilities(ctx, &pb.GetCapabilitiesRequest{InstanceName: strings.Repeat("x", 10000)})
				var out []byte
				in := []byte{}
				e2 := fx.srv.Conn.Invoke(ctx, "/grpc.health.v1.Health/Check", &in, &out, grpc.ForceCodec(rawCodec{}))
				e3 := fx.srv.Conn.Invoke(ctx, "/no.such.Service/Method", &in, &out, grpc.ForceCodec(rawCodec{}))
				e4 := fx.srv.Conn.Invoke(ctx, "/build.bazel.remote.execution.v2.Execution/Execute", &in, &out, grpc.ForceCodec(rawCodec{}))
				e5 := fx.srv.Conn.Invoke(ctx, "/google.bytestream.ByteStream/NoSuchMethod", &in, &out, grpc.ForceCodec(rawCodec{}))
				_, e6 := fx.srv.CAS.FindMissingBlobs(ctx, &pb.FindMissingBlobsRequest{BlobDigests: []*pb.Digest{fx.pool.small[1].digest()}}, grpc.UseCompressor("gzip"))
				wctx, wc := context.WithTimeout(ctx, 50*time.Millisecond)
				st, e7 := fx.srv.Conn.NewStream(wctx, &grpc.StreamDesc{ServerStreams: true}, "/grpc.health.v1.Health/Watch", grpc.ForceCodec(rawCodec{}))
				if e7 == nil {
					_ = st.SendMsg(&in)
					_ = st.CloseSend()
					_ = st.RecvMsg(&out)
					_ = st.RecvMsg(&out)
				}
				wc()
				for _, e := range []error{e1, e2, e3, e4, e5, e6} {
					if status.Code(e) == codes.Unavailable {
						return grpcRes(e)
					}
				}
				return result{status: fmt.Sprintf("grpc:%v/%v/%v/%v/%v/%v", status.Code(e1), status.Code(e2), status.Code(e3), status.Code(e4), status.Code(e5), status.Code(e6)), success: false}
			}}}
		}},
	)

	// -----------------------------------------------------------------------
	// Garbage / truncated / wrong-type / deeply nested protobuf for every RPC
	methods := []struct {
		ep, method string
		stream     bool
		sample     func(fx *fixture) proto.Message
	}{
		{"grpc:CAS.FindMissingBlobs", "/build.bazel.remote.execution.v2.ContentAddressableStorage/FindMissingBlobs", false, func(fx *fixture) proto.Message {
			return &pb.FindMissingBlobsRequest{BlobDigests: []*pb.Digest{fx.pool.small[1].digest(), fx.pool.small[2].digest()}}
		}},
		{"grpc:CAS.BatchUpdateBlobs", "/build.bazel.remote.execution.v2.ContentAddressableStorage/BatchUpdateBlobs", false, func(fx *fixture) proto.Message {
			return &pb.BatchUpdateBlobsRequest{Requests: []*pb.BatchUpdateBlobsRequest_Request{{Digest: fx.pool.small[2].digest(), Data: fx.pool.small[2].data}}}
		}},
		{"grpc:CAS.BatchReadBlobs", "/build.bazel.remote.execution.v2.ContentAddressableStorage/BatchReadBlobs", false, func(fx *fixture) proto.Message {
			return &pb.BatchReadBlobsRequest{Digests: []*pb.Digest{fx.pool.small[2].digest()}}
		}},
		{"grpc:CAS.GetTree", "/build.bazel.remote.execution.v2.ContentAddressableStorage/GetTree", true, func(fx *fixture) proto.Message {
			return &pb.GetTreeRequest{RootDigest: fx.pool.rootDir.digest()}
		}},
		{"grpc:CAS.SpliceBlob", "/build.bazel.remote.execution.v2.ContentAddressableStorage/SpliceBlob", false, func(fx *fixture) proto.Message {
			return &pb.SpliceBlobRequest{ChunkDigests: []*pb.Digest{fx.pool.small[3].digest(), fx.pool.small[4].digest()}}
		}},
		{"grpc:CAS.SplitBlob", "/build.bazel.remote.execution.v2.ContentAddressableStorage/SplitBlob", false, func(fx *fixture) proto.Message {
			return &pb.SplitBlobRequest{BlobDigest: fx.pool.small[3].digest()}
		}},
		{"grpc:AC.GetActionResult", "/build.bazel.remote.execution.v2.ActionCache/GetActionResult", false, func(fx *fixture) proto.Message {
			return &pb.GetActionResultRequest{ActionDigest: &pb.Digest{Hash: fx.pool.acKey, SizeBytes: 10}, InlineStdout: true}
		}},
		{"grpc:AC.UpdateActionResult", "/build.bazel.remote.execution.v2.ActionCache/UpdateActionResult", false, func(fx *fixture) proto.Message {
			return &pb.UpdateActionResultRequest{ActionDigest: &pb.Digest{Hash: lib.Sha256Hex([]byte("raw-ar")), SizeBytes: 10}, ActionResult: validAR(fx)}
		}},
		{"grpc:Capabilities.GetCapabilities", "/build.bazel.remote.execution.v2.Capabilities/GetCapabilities", false, func(fx *fixture) proto.Message {
			return &pb.GetCapabilitiesRequest{InstanceName: "x"}
		}},
		{"grpc:ByteStream.Read", "/google.bytestream.ByteStream/Read", true, func(fx *fixture) proto.Message {
			b := fx.pool.small[5]
			return &bs.ReadRequest{ResourceName: lib.ResBlobs(b.hash, b.size)}
		}},
		{"grpc:ByteStream.Write", "/google.bytestream.ByteStream/Write", true, func(fx *fixture) proto.Message {
			b := fx.pool.small[2]
			return &bs.WriteRequest{ResourceName: lib.ResUpload("raw", b.hash, b.size), Data: b.data, FinishWrite: true}
		}},
		{"grpc:ByteStream.QueryWriteStatus", "/google.bytestream.ByteStream/QueryWriteStatus", false, func(fx *fixture) proto.Message {
			b := fx.pool.small[2]
			return &bs.QueryWriteStatusRequest{ResourceName: lib.ResUpload("raw", b.hash, b.size)}
		}},
		{"grpc:Fetch.FetchBlob", "/build.bazel.remote.asset.v1.Fetch/FetchBlob", false, func(fx *fixture) proto.Message {
			return &asset.FetchBlobRequest{Uris: []string{fx.origin.URL() + "/blob/100"}, Qualifiers: []*asset.Qualifier{{Name: "checksum.sri", Value: sri(fx.pool.small[2].hash)}}}
		}},
		{"grpc:Fetch.FetchDirectory", "/build.bazel.remote.asset.v1.Fetch/FetchDirectory", false, func(fx *fixture) proto.Message {
			return &asset.FetchDirectoryRequest{Uris: []string{fx.origin.URL() + "/blob/100"}}
		}},
	}
	rawKinds := []string{"garbage", "truncated", "wrong-type", "deep-groups", "deep-submessages", "huge-length-prefix", "bit-flips", "empty"}
	for _, m := range methods {
		m := m
		for _, k := range rawKinds {
			k := k
			register(variant{fam: "rawproto." + k, name: strings.TrimPrefix(m.ep, "grpc:"), applies: always, build: func(fx *fixture, rng *rand.Rand) []*op {
				valid, _ := proto.Marshal(m.sample(fx))
				var payload []byte
				switch k {
				case "garbage":
					payload = lib.GenBlob(rng, 1+rng.IntN(400), "random", "rawg")
				case "truncated":
					if len(valid) > 1 {
						payload = valid[:1+rng.IntN(len(valid)-1)]
					}
				case "wrong-type":
					payload = fx.pool.tree.data
					if rng.IntN(2) == 0 {
						payload, _ = proto.Marshal(validAR(fx))
					}
				case "deep-groups":
					n := lib.Pick(rng, []int{100, 10001, 50000})
					for i := 0; i < n; i++ {
						payload = protowire.AppendTag(payload, 1000, protowire.StartGroupType)
					}
				case "deep-submessages":
					// field 1 (length-delimited) nested n times
					n := lib.Pick(rng, []int{50, 2000})
					inner := []byte{}
					for i := 0; i < n; i++ {
						var b []byte
						b = protowire.AppendTag(b, 1, protowire.BytesType)
						b = protowire.AppendBytes(b, inner)
						inner = b
					}
					payload = inner
				case "huge-length-prefix":
					payload = protowire.AppendTag(nil, 1, protowire.BytesType)
					payload = protowire.AppendVarint(payload, uint64(lib.Pick(rng, []int64{1 << 31, 1 << 40, math.MaxInt64})))
					payload = append(payload, "short"...)
				case "bit-flips":
					payload = append([]byte{}, valid...)
					for i := 0; i <= rng.IntN(4) && len(payload) > 0; i++ {
						payload[rng.IntN(len(payload))] ^= byte(1 << rng.IntN(8))
					}
				case "empty":
					payload = nil
				}
				// Unambiguously malformed = the standard decoder rejects the bytes for this message type.
				mf := false
				if k != "empty" && k != "wrong-type" {
					if proto.Unmarshal(payload, m.sample(fx).ProtoReflect().New().Interface()) != nil {
						mf = true
					}
				}
				return []*op{{ep: m.ep, mustFail: mf, desc: map[string]any{"raw": k, "payload": describeBytes(payload), "undecodable": mf},
					run: func(ctx context.Context, fx *fixture) result {
						return rawCall(ctx, fx, m.method, m.stream, payload)
					}}}
			}})
		}
	}
}

// rawCodec sends and receives message bytes verbatim.
type rawCodec struct{}

func (rawCodec) Marshal(v any) ([]byte, error) { return *(v.(*[]byte)), nil }
func (rawCodec) Unmarshal(b []byte, v any) error {
	*(v.(*[]byte)) = append([]byte(nil), b...)
	return nil
}
func (rawCodec) Name() string { return "proto" }

func rawCall(ctx context.Context, fx *fixture, method string, stream bool, payload []byte) result {
	var out []byte
	if !stream {
		return grpcRes(fx.srv.Conn.Invoke(ctx, method, &payload, &out, grpc.ForceCodec(rawCodec{})))
	}
	st, err := fx.srv.Conn.NewStream(ctx, &grpc.StreamDesc{ServerStreams: true, ClientStreams: true}, method, grpc.ForceCodec(rawCodec{}))
	if err != nil {
		return grpcRes(err)
	}
	_ = st.SendMsg(&payload)
	_ = st.CloseSend()
	for {
		if err = st.RecvMsg(&out); err != nil {
			if err == io.EOF {
				return grpcRes(nil)
			}
			return grpcRes(err)
		}
	}
}

package c14

import (
	"math/rand/v2"
	"sort"
)

// variant is one generator: family + variant name, built per use with fresh
// random parameters.
type variant struct {
	fam     string
	name    string
	core    bool // scheduled first, in every run (shapes of the defects fixed so far and of the seeded changes)
	weight  int  // relative frequency in the random phase (default 1)
	applies func(p plan, r quickness) bool
	build   func(fx *fixture, rng *rand.Rand) []*op // usually one op; setup ops may precede it
}

type quickness struct{ quick bool }

var registry []variant

func register(v ...variant) { registry = append(registry, v...) }

// scheduler produces the deterministic request list of one fixture: first every
// core variant, then every other applicable variant once (in seeded order),
// then weighted random picks.
type scheduler struct {
	fx      *fixture
	queue   []*op
	first   []variant
	pending []variant
	all     []variant
	totalW  int
}

func newScheduler(fx *fixture) *scheduler {
	s := &scheduler{fx: fx}
	q := quickness{quick: fx.r.Quick}
	var core, rest []variant
	for _, v := range registry {
		if v.applies != nil && !v.applies(fx.p, q) {
			continue
		}
		if v.weight == 0 {
			v.weight = 1
		}
		s.all = append(s.all, v)
		s.totalW += v.weight
		if v.core {
			core = append(core, v)
		} else {
			rest = append(rest, v)
		}
	}
	sort.SliceStable(core, func(i, j int) bool { return core[i].fam+core[i].name < core[j].fam+core[j].name })
	sort.SliceStable(rest, func(i, j int) bool { return rest[i].fam+rest[i].name < rest[j].fam+rest[j].name })
	fx.rng.Shuffle(len(core), func(i, j int) { core[i], core[j] = core[j], core[i] })
	fx.rng.Shuffle(len(rest), func(i, j int) { rest[i], rest[j] = rest[j], rest[i] })
	s.pending = append(core, rest...)
	return s
}

func (s *scheduler) next() *op {
	for len(s.queue) == 0 {
		var v variant
		if len(s.pending) > 0 {
			v = s.pending[0]
			s.pending = s.pending[1:]
		} else {
			w := s.fx.rng.IntN(s.totalW)
			for _, c := range s.all {
				if w < c.weight {
					v = c
					break
				}
				w -= c.weight
			}
		}
		ops := v.build(s.fx, s.fx.rng)
		for _, o := range ops {
			if o == nil {
				continue
			}
			if o.gen == "" {
				o.gen = v.fam + "." + v.name
			}
			s.queue = append(s.queue, o)
		}
	}
	o := s.queue[0]
	s.queue = s.queue[1:]
	return o
}

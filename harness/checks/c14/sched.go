package c14

import (
	"math/rand/v2"
	"os"
	"sort"
	"strings"
)

// variant is one generator: family + variant name, built per use with fresh
// random parameters.
type variant struct {
	fam     string
	name    string
	core    bool // scheduled first, in every run (shapes of the defects fixed so far and of the seeded changes)
	weight  int  // relative frequency inside its group (default 1)
	applies func(p plan, r quickness) bool
	build   func(fx *fixture, rng *rand.Rand) []*op // usually one op; setup ops may precede it
}

type quickness struct{ quick bool }

var registry []variant

func register(v ...variant) { registry = append(registry, v...) }

// groupWeights: share of the random phase per generator group (first component of the family).
var groupWeights = map[string]int{
	"resname": 8, "offsets": 4, "digest": 10, "splice": 2, "payload": 5, "rawproto": 6, "fetch": 5, "stored": 5,
	"wseq": 10, "abort": 10, "http": 14, "httpraw": 6, "grpcraw": 2, "disk": 9, "misc": 1, "proxy": 24, "upsize": 6,
}

func groupOf(fam string) string {
	if i := strings.IndexByte(fam, '.'); i > 0 {
		return fam[:i]
	}
	return fam
}

// scheduler produces the deterministic request list of one fixture: first every
// core variant; in the thorough tier then every other applicable variant once
// (seeded order); then random picks: a group by weight, a variant inside it by weight.
type scheduler struct {
	fx      *fixture
	queue   []*op
	pending []variant
	groups  []string
	byGroup map[string][]variant
	gw      map[string]int
	totalGW int
}

func newScheduler(fx *fixture) *scheduler {
	s := &scheduler{fx: fx, byGroup: map[string][]variant{}, gw: map[string]int{}}
	q := quickness{quick: fx.r.Quick}
	var core, rest []variant
	for _, v := range registry {
		if v.applies != nil && !v.applies(fx.p, q) {
			continue
		}
		if v.weight == 0 {
			v.weight = 1
		}
		g := groupOf(v.fam)
		if only := os.Getenv("C14_GROUPS"); only != "" && !strings.Contains(","+only+",", ","+g+",") { // developer aid
			continue
		}
		if sub := os.Getenv("C14_VARIANT"); sub != "" && !strings.Contains(v.fam+"."+v.name, sub) { // developer aid
			continue
		}
		if _, ok := s.byGroup[g]; !ok {
			s.groups = append(s.groups, g)
			w := groupWeights[g]
			if w == 0 {
				w = 1
			}
			s.gw[g] = w
			s.totalGW += w
		}
		s.byGroup[g] = append(s.byGroup[g], v)
		if v.core {
			core = append(core, v)
		} else {
			rest = append(rest, v)
		}
	}
	sort.Strings(s.groups)
	byName := func(vs []variant) {
		sort.SliceStable(vs, func(i, j int) bool { return vs[i].fam+"."+vs[i].name < vs[j].fam+"."+vs[j].name })
	}
	byName(core)
	byName(rest)
	fx.rng.Shuffle(len(core), func(i, j int) { core[i], core[j] = core[j], core[i] })
	s.pending = core
	if !fx.r.Quick {
		fx.rng.Shuffle(len(rest), func(i, j int) { rest[i], rest[j] = rest[j], rest[i] })
		s.pending = append(s.pending, rest...)
	}
	return s
}

func (s *scheduler) pick() variant {
	if len(s.pending) > 0 {
		v := s.pending[0]
		s.pending = s.pending[1:]
		return v
	}
	w := s.fx.rng.IntN(s.totalGW)
	g := s.groups[0]
	for _, c := range s.groups {
		if w < s.gw[c] {
			g = c
			break
		}
		w -= s.gw[c]
	}
	vs := s.byGroup[g]
	tw := 0
	for _, v := range vs {
		tw += v.weight
	}
	x := s.fx.rng.IntN(tw)
	for _, v := range vs {
		if x < v.weight {
			return v
		}
		x -= v.weight
	}
	return vs[0]
}

func (s *scheduler) next() *op {
	for len(s.queue) == 0 {
		v := s.pick()
		for _, o := range v.build(s.fx, s.fx.rng) {
			if o == nil {
				continue
			}
			if o.gen == "" {
				o.gen = v.fam + "." + v.name
			}
			s.queue = append(s.queue, o)
		}
	}
	o := s.queue[0]
	s.queue = s.queue[1:]
	return o
}

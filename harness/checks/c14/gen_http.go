package c14

import (
	"bytes"
	"context"
	"encoding/json"
	"fmt"
	"math/rand/v2"
	"net"
	"strconv"
	"strings"
	"syscall"
	"time"

	pb "github.com/buchgr/bazel-remote/v2/genproto/build/bazel/remote/execution/v2"

	"google.golang.org/protobuf/encoding/protojson"
	"google.golang.org/protobuf/proto"

	"verif/harness/lib"
)

// ---------------------------------------------------------------------------
// raw sockets

type rawStep struct {
	w         []byte        // write these bytes
	sleep     time.Duration // then pause
	read      int           // then read up to this many bytes (stops at close)
	readAll   bool          // read until the server closes (bounded by the deadline)
	halfClose bool          // shutdown(SHUT_WR)
	fill      int           // keep writing this many filler bytes (stops at the first write error)
}

// rawRun plays a script on a fresh TCP connection and reports the first
// response line, if any. The connection is always closed at the end.
func rawRun(ctx context.Context, addr string, rcvbuf int, steps []rawStep) result {
	d := net.Dialer{Timeout: 5 * time.Second}
	if rcvbuf > 0 {
		d.Control = func(_, _ string, c syscall.RawConn) error {
			return c.Control(func(fd uintptr) { _ = syscall.SetsockoptInt(int(fd), syscall.SOL_SOCKET, syscall.SO_RCVBUF, rcvbuf) })
		}
	}
	c, err := d.DialContext(ctx, "tcp", addr)
	if err != nil {
		return result{status: "raw:dial-failed", transport: true, note: clip(err.Error(), 120)}
	}
	defer func() { _ = c.Close() }()
	dl := time.Now().Add(8 * time.Second)
	if cd, ok := ctx.Deadline(); ok && cd.Before(dl) {
		dl = cd
	}
	_ = c.SetDeadline(dl)
	var got []byte
	wrote, werr := 0, error(nil)
	for _, s := range steps {
		if len(s.w) > 0 && werr == nil {
			var n int
			n, werr = c.Write(s.w)
			wrote += n
		}
		if s.fill > 0 && werr == nil {
			buf := bytes.Repeat([]byte{0x5a}, 32*1024)
			for left := s.fill; left > 0 && werr == nil; left -= len(buf) {
				var n int
				n, werr = c.Write(buf)
				wrote += n
			}
		}
		if s.sleep > 0 {
			time.Sleep(s.sleep)
		}
		if s.halfClose {
			if tc, ok := c.(*net.TCPConn); ok {
				_ = tc.CloseWrite()
			}
		}
		if s.read > 0 || s.readAll {
			// Reads stop at the requested amount, at close, or when the server
			// has been quiet for a while (it may legitimately keep the
			// connection open for another request).
			buf := make([]byte, 32*1024)
			want := s.read
			for s.readAll || want > 0 {
				lim := len(buf)
				if !s.readAll && want < lim {
					lim = want
				}
				idle := 3 * time.Second
				if len(got) > 0 {
					idle = 300 * time.Millisecond
				}
				rd := time.Now().Add(idle)
				if rd.After(dl) {
					rd = dl
				}
				_ = c.SetReadDeadline(rd)
				n, err := c.Read(buf[:lim])
				if len(got) < 4096 {
					got = append(got, buf[:n]...)
				}
				want -= n
				if err != nil {
					break
				}
			}
		}
	}
	res := result{note: fmt.Sprintf("wrote %d bytes", wrote)}
	switch {
	case bytes.HasPrefix(got, []byte("HTTP/1.")) && len(got) >= 12:
		code, _ := strconv.Atoi(string(got[9:12]))
		res.status = fmt.Sprintf("http:%d(raw)", code)
		res.success = code >= 200 && code < 300
	case len(got) > 0:
		res.status = "raw:non-http-answer"
	default:
		res.status = "raw:no-response"
	}
	return res
}

func reqHead(method, path string, hdr ...string) []byte {
	var b strings.Builder
	fmt.Fprintf(&b, "%s %s HTTP/1.1\r\nHost: c14\r\n", method, path)
	for i := 0; i+1 < len(hdr); i += 2 {
		fmt.Fprintf(&b, "%s: %s\r\n", hdr[i], hdr[i+1])
	}
	b.WriteString("\r\n")
	return []byte(b.String())
}

func chunked(parts ...[]byte) []byte {
	var b bytes.Buffer
	for _, p := range parts {
		fmt.Fprintf(&b, "%x\r\n", len(p))
		b.Write(p)
		b.WriteString("\r\n")
	}
	b.WriteString("0\r\n\r\n")
	return b.Bytes()
}

func freshBlob(fx *fixture, rng *rand.Rand, n int) *blob {
	return mkBlob(lib.GenBlob(rng, n, lib.Pick(rng, lib.ContentKinds), fmt.Sprintf("http/%s/%d", fx.p.name, fx.seq)), "fresh")
}

func init() {
	// -----------------------------------------------------------------------
	// paths and methods through the standard client
	type pathCase struct {
		name string
		mf   bool
		f    func(fx *fixture, rng *rand.Rand) string
	}
	stored := func(fx *fixture, rng *rand.Rand) *blob { return lib.Pick(rng, fx.pool.small[1:]) }
	paths := []pathCase{
		{"cas-stored", false, func(fx *fixture, rng *rand.Rand) string { return "/cas/" + stored(fx, rng).hash }},
		{"cas-absent", false, func(fx *fixture, rng *rand.Rand) string { return "/cas/" + lib.RandHash(rng) }},
		{"ac-absent", false, func(fx *fixture, rng *rand.Rand) string { return "/ac/" + lib.RandHash(rng) }},
		{"instance-prefix", false, func(fx *fixture, rng *rand.Rand) string {
			return "/" + lib.Pick(rng, []string{"a", "a/b/c", "ac", "cas", "cas/ac", "é", "a%20b", strings.Repeat("p", 3000)}) + "/cas/" + stored(fx, rng).hash
		}},
		{"query-string", false, func(fx *fixture, rng *rand.Rand) string {
			return "/cas/" + stored(fx, rng).hash + "?x=1&cas/" + lib.RandHash(rng)
		}},
		{"double-slashes", false, func(fx *fixture, rng *rand.Rand) string { return "//cas//" + stored(fx, rng).hash }},
		{"dot-segments", false, func(fx *fixture, rng *rand.Rand) string { return "/x/../cas/./" + stored(fx, rng).hash }},
		{"extra-segment", true, func(fx *fixture, rng *rand.Rand) string { return "/cas/" + stored(fx, rng).hash + "/extra" }},
		{"trailing-slash", true, func(fx *fixture, rng *rand.Rand) string { return "/ac/" + lib.RandHash(rng) + "/" }},
		{"unknown-kind", true, func(fx *fixture, rng *rand.Rand) string {
			return "/" + lib.Pick(rng, []string{"raw", "CAS", "Ac", "blobs", "cas.v2", "c"}) + "/" + stored(fx, rng).hash
		}},
		{"no-hash", true, func(fx *fixture, rng *rand.Rand) string {
			return lib.Pick(rng, []string{"/cas/", "/ac/", "/cas", "/", "/favicon.ico", "/cas/ac/cas/"})
		}},
		{"percent-encoded-hash", true, func(fx *fixture, rng *rand.Rand) string { h := stored(fx, rng).hash; return "/cas/%" + h[:2] + h[2:] }},
	}
	for _, k := range hashMuts {
		k := k
		if k == "empty" || k == "dotdot" || k == "space" {
			continue
		}
		paths = append(paths, pathCase{"hash-" + k, true, func(fx *fixture, rng *rand.Rand) string {
			return lib.Pick(rng, []string{"/cas/", "/ac/", "/inst/cas/"}) + mutHash(rng, k)
		}})
	}
	for _, pc := range paths {
		pc := pc
		for _, method := range []string{"GET", "HEAD", "PUT"} {
			method := method
			// lookups of absent AC entries go to the proxy backend through Contains/Get: always part of the run
			register(variant{fam: "http.path." + method, name: pc.name, core: pc.name == "ac-absent", applies: always, build: func(fx *fixture, rng *rand.Rand) []*op {
				p := pc.f(fx, rng)
				q := httpReq{method: method, path: p}
				if method == "PUT" {
					q.body = lib.GenBlob(rng, 100, "random", "pathput")
				}
				if method == "GET" && rng.IntN(3) == 0 {
					q.hdr = map[string]string{"Accept-Encoding": lib.Pick(rng, []string{"zstd", "gzip, zstd;q=0.5", "br", "*", "zstd\x00"})}
				}
				ep := "http:" + method + ":" + lib.Pick(rng, []string{"/cas"})
				if strings.Contains(p, "/ac/") {
					ep = "http:" + method + ":/ac"
				}
				return []*op{{ep: ep, mustFail: pc.mf, desc: map[string]any{"method": method, "path": clip(p, 200), "headers": q.hdr},
					run: func(ctx context.Context, fx *fixture) result { return fx.httpDo(ctx, q) }}}
			}})
		}
	}
	register(variant{fam: "http.method", name: "unsupported", weight: 8, applies: always, build: func(fx *fixture, rng *rand.Rand) []*op {
		m := lib.Pick(rng, []string{"POST", "DELETE", "PATCH", "OPTIONS", "TRACE", "PROPFIND", "get", "Put", "FOO", "M-SEARCH", strings.Repeat("X", 300)})
		p := lib.Pick(rng, []string{"/cas/" + lib.Pick(rng, fx.pool.small[1:]).hash, "/ac/" + lib.RandHash(rng), "/cas/" + lib.RandHash(rng)})
		return []*op{{ep: "http:OTHER:/cas|ac", mustFail: true, desc: map[string]any{"method": clip(m, 40), "path": p}, noRetry: true,
			run: func(ctx context.Context, fx *fixture) result {
				return rawRun(ctx, fx.child.HTTPAddr, 0, []rawStep{{w: reqHead(m, p, "Content-Length", "3", "Connection", "close")}, {w: []byte("abc"), readAll: true}})
			}}}
	}})
	register(variant{fam: "http.method", name: "status-and-metrics-odd-methods", weight: 4, applies: always, build: func(fx *fixture, rng *rand.Rand) []*op {
		m := lib.Pick(rng, []string{"GET", "HEAD", "PUT", "POST", "DELETE", "OPTIONS"})
		p := lib.Pick(rng, []string{"/status", "/metrics", "/status/", "/status?x", "/metrics/x", "/debug/pprof/", "/debug/pprof/goroutine?debug=2"})
		return []*op{{ep: "http:" + m + ":/status|metrics", desc: map[string]any{"method": m, "path": p},
			run: func(ctx context.Context, fx *fixture) result {
				return fx.httpDo(ctx, httpReq{method: m, path: p, body: []byte("x")})
			}}}
	}})

	// -----------------------------------------------------------------------
	// PUT headers
	type hdrCase struct {
		name string
		mf   bool
		hdr  func(b *blob, rng *rand.Rand) map[string]string
	}
	hdrs := []hdrCase{
		{"sizebytes-negative", true, func(b *blob, rng *rand.Rand) map[string]string {
			return map[string]string{"X-Digest-SizeBytes": lib.Pick(rng, []string{"-1", "-5", "-9223372036854775808"})}
		}},
		{"sizebytes-garbage", true, func(b *blob, rng *rand.Rand) map[string]string {
			return map[string]string{"X-Digest-SizeBytes": lib.Pick(rng, []string{"abc", "1e3", "0x10", "5.0", "١٢٣", "5,6", "5 6"})}
		}},
		{"sizebytes-overflow", true, func(b *blob, rng *rand.Rand) map[string]string {
			return map[string]string{"X-Digest-SizeBytes": lib.Pick(rng, []string{"9223372036854775808", "99999999999999999999999999999"})}
		}},
		{"sizebytes-huge", false, func(b *blob, rng *rand.Rand) map[string]string {
			return map[string]string{"X-Digest-SizeBytes": lib.Pick(rng, []string{"9223372036854775807", "1099511627776"})}
		}},
		{"sizebytes-mismatch", false, func(b *blob, rng *rand.Rand) map[string]string {
			return map[string]string{"X-Digest-SizeBytes": fmt.Sprint(b.size + int64(lib.Pick(rng, []int{-1, 1, 1000})))}
		}},
		{"sizebytes-zero", false, func(b *blob, rng *rand.Rand) map[string]string { return map[string]string{"X-Digest-SizeBytes": "0"} }},
		{"content-encoding-unknown", true, func(b *blob, rng *rand.Rand) map[string]string {
			return map[string]string{"Content-Encoding": lib.Pick(rng, []string{"gzip", "br", "deflate", "compress", "zstd2", "x-zstd"})}
		}},
		{"content-encoding-odd-spelling", false, func(b *blob, rng *rand.Rand) map[string]string {
			return map[string]string{"Content-Encoding": lib.Pick(rng, []string{"ZSTD", "zstd, identity", "identity, zstd", " zstd", "Identity"})}
		}},
		{"content-type-and-misc", false, func(b *blob, rng *rand.Rand) map[string]string {
			return map[string]string{"Content-Type": lib.Pick(rng, []string{"application/json", "text/plain; charset=\xff", "", "a/b;" + strings.Repeat("p=1;", 500)}),
				"Range": "bytes=5-1", "If-None-Match": "*", "Content-Range": "bytes 0-1/5", "Transfer-Encoding": "identity"}
		}},
	}
	for _, hc := range hdrs {
		hc := hc
		for _, kind := range []string{"cas", "ac"} {
			kind := kind
			register(variant{fam: "http.putheader." + kind, name: hc.name, applies: always, build: func(fx *fixture, rng *rand.Rand) []*op {
				b := freshBlob(fx, rng, 1+rng.IntN(5000))
				p := "/cas/" + b.hash
				if kind == "ac" {
					ar, _ := proto.Marshal(validAR(fx))
					b = mkBlob(ar, "ar")
					p = "/ac/" + lib.RandHash(rng)
				}
				h := hc.hdr(b, rng)
				return []*op{{ep: "http:PUT:/" + kind, mustFail: hc.mf, desc: map[string]any{"path": p, "headers": h, "body": len(b.data)},
					run: func(ctx context.Context, fx *fixture) result {
						return fx.httpDo(ctx, httpReq{method: "PUT", path: p, body: b.data, hdr: h})
					}}}
			}})
		}
	}

	// -----------------------------------------------------------------------
	// PUT bodies: zstd garbage, wrong content, empty; AC payloads (protobuf and JSON)
	type bodyCase struct {
		name string
		f    func(fx *fixture, rng *rand.Rand) (path string, body []byte, hdr map[string]string, mf bool)
	}
	zhdr := func(n int64) map[string]string {
		return map[string]string{"Content-Encoding": "zstd", "X-Digest-SizeBytes": fmt.Sprint(n)}
	}
	bodies := []bodyCase{
		{"cas-zstd-garbage", func(fx *fixture, rng *rand.Rand) (string, []byte, map[string]string, bool) {
			b := freshBlob(fx, rng, 20000)
			return "/cas/" + b.hash, lib.GenBlob(rng, 1+rng.IntN(300000), "random", "zg"), zhdr(b.size), true
		}},
		{"cas-zstd-truncated", func(fx *fixture, rng *rand.Rand) (string, []byte, map[string]string, bool) {
			b := freshBlob(fx, rng, 400000)
			z := lib.ZstdEncodeKP(b.data, 1)
			return "/cas/" + b.hash, z[:len(z)/2], zhdr(b.size), true
		}},
		{"cas-zstd-trailing-garbage", func(fx *fixture, rng *rand.Rand) (string, []byte, map[string]string, bool) {
			b := freshBlob(fx, rng, 30000)
			return "/cas/" + b.hash, append(append([]byte{}, lib.ZstdEncodeKP(b.data, 1)...), lib.GenBlob(rng, 100000, "random", "t")...), zhdr(b.size), false
		}},
		{"cas-zstd-decodes-to-other-size", func(fx *fixture, rng *rand.Rand) (string, []byte, map[string]string, bool) {
			b := freshBlob(fx, rng, 30000)
			return "/cas/" + b.hash, lib.ZstdEncodeKP(b.data[:len(b.data)-100], 1), zhdr(b.size), false
		}},
		{"cas-zstd-without-sizebytes", func(fx *fixture, rng *rand.Rand) (string, []byte, map[string]string, bool) {
			b := freshBlob(fx, rng, 30000)
			return "/cas/" + b.hash, lib.ZstdEncodeKP(b.data, 1), map[string]string{"Content-Encoding": "zstd"}, false
		}},
		{"cas-wrong-content", func(fx *fixture, rng *rand.Rand) (string, []byte, map[string]string, bool) {
			return "/cas/" + lib.RandHash(rng), lib.GenBlob(rng, 1+rng.IntN(2*lib.MiB), "random", "wrong"), nil, false
		}},
		{"cas-empty-body-nonempty-hash", func(fx *fixture, rng *rand.Rand) (string, []byte, map[string]string, bool) {
			return "/cas/" + lib.RandHash(rng), []byte{}, nil, true
		}},
		{"cas-empty-blob", func(fx *fixture, rng *rand.Rand) (string, []byte, map[string]string, bool) {
			return "/cas/" + lib.EmptySha256, []byte{}, nil, false
		}},
		{"ac-garbage-protobuf", func(fx *fixture, rng *rand.Rand) (string, []byte, map[string]string, bool) {
			body := lib.GenBlob(rng, 1+rng.IntN(2000), "random", "acg")
			return "/ac/" + lib.RandHash(rng), body, nil, fx.p.validateAC && proto.Unmarshal(body, &pb.ActionResult{}) != nil
		}},
		{"ac-truncated-protobuf", func(fx *fixture, rng *rand.Rand) (string, []byte, map[string]string, bool) {
			body, _ := proto.Marshal(validAR(fx))
			body = body[:1+rng.IntN(len(body)-1)]
			return "/ac/" + lib.RandHash(rng), body, nil, fx.p.validateAC && proto.Unmarshal(body, &pb.ActionResult{}) != nil
		}},
		{"ac-is-a-tree", func(fx *fixture, rng *rand.Rand) (string, []byte, map[string]string, bool) {
			return "/ac/" + lib.RandHash(rng), fx.pool.tree.data, nil, false
		}},
		{"ac-empty-body", func(fx *fixture, rng *rand.Rand) (string, []byte, map[string]string, bool) {
			return "/ac/" + lib.RandHash(rng), []byte{}, nil, false
		}},
		{"ac-zstd-encoded", func(fx *fixture, rng *rand.Rand) (string, []byte, map[string]string, bool) {
			body, _ := proto.Marshal(validAR(fx))
			z := lib.ZstdEncodeKP(body, 1)
			if rng.IntN(2) == 0 {
				z = z[:len(z)-3]
			}
			return "/ac/" + lib.RandHash(rng), z, zhdr(int64(len(body))), false
		}},
		{"ac-json-valid", func(fx *fixture, rng *rand.Rand) (string, []byte, map[string]string, bool) {
			body, _ := protojson.Marshal(validAR(fx))
			return "/ac/" + lib.RandHash(rng), body, map[string]string{"Content-Type": "application/json"}, false
		}},
		{"ac-json-garbage", func(fx *fixture, rng *rand.Rand) (string, []byte, map[string]string, bool) {
			body := []byte(lib.Pick(rng, []string{"{", "}", "[1,2", "{\"outputFiles\":", "nul", "\"str", "{\"a\":1,}", "\xff\xfe", "{'single':1}", "{\"exitCode\": 1e999999}"}))
			return "/ac/" + lib.RandHash(rng), body, map[string]string{"Content-Type": "application/json"}, fx.p.validateAC && !json.Valid(body)
		}},
		{"ac-json-wrong-types", func(fx *fixture, rng *rand.Rand) (string, []byte, map[string]string, bool) {
			body := []byte(lib.Pick(rng, []string{`[]`, `"string"`, `42`, `null`, `{"outputFiles":"x"}`, `{"outputFiles":[null]}`, `{"outputFiles":[{"digest":null,"path":"p"}]}`,
				`{"outputFiles":[{"digest":{"hash":5,"sizeBytes":"x"},"path":"p"}]}`, `{"outputDirectories":[{"path":"d","treeDigest":{}}]}`, `{"exitCode":"NaN"}`,
				`{"stdoutDigest":{"hash":"` + lib.EmptySha256 + `","sizeBytes":"-1"}}`, `{"executionMetadata":{"queuedTimestamp":"not a time"}}`,
				`{"executionMetadata":{"auxiliaryMetadata":[{"@type":"type.googleapis.com/nonexistent.Type","x":1}]}}`, `{"unknownField":1}`, `{"stdoutRaw":"!!!notbase64"}`}))
			return "/ac/" + lib.RandHash(rng), body, map[string]string{"Content-Type": "application/json"}, false
		}},
		{"ac-json-deeply-nested", func(fx *fixture, rng *rand.Rand) (string, []byte, map[string]string, bool) {
			n := lib.Pick(rng, []int{100, 10001, 200000})
			body := []byte(strings.Repeat(lib.Pick(rng, []string{"[", `{"outputFiles":[`, `{"executionMetadata":`}), n))
			return "/ac/" + lib.RandHash(rng), body, map[string]string{"Content-Type": "application/json"}, fx.p.validateAC
		}},
		{"ac-json-huge-repeated", func(fx *fixture, rng *rand.Rand) (string, []byte, map[string]string, bool) {
			var sb strings.Builder
			sb.WriteString(`{"outputFiles":[`)
			h := fx.pool.small[1]
			for i := 0; i < 20000; i++ {
				if i > 0 {
					sb.WriteByte(',')
				}
				fmt.Fprintf(&sb, `{"path":"f%d","digest":{"hash":"%s","sizeBytes":"%d"}}`, i, h.hash, h.size)
			}
			sb.WriteString("]}")
			return "/ac/" + lib.RandHash(rng), []byte(sb.String()), map[string]string{"Content-Type": "application/json"}, false
		}},
	}
	for _, bc := range bodies {
		bc := bc
		register(variant{fam: "http.putbody", name: bc.name, weight: 2, applies: always, build: func(fx *fixture, rng *rand.Rand) []*op {
			p, body, h, mf := bc.f(fx, rng)
			ep := "http:PUT:/cas"
			if strings.HasPrefix(p, "/ac/") {
				ep = "http:PUT:/ac"
			}
			return []*op{{ep: ep, mustFail: mf, desc: map[string]any{"path": p, "headers": h, "body": describeBytes(body)},
				run: func(ctx context.Context, fx *fixture) result {
					return fx.httpDo(ctx, httpReq{method: "PUT", path: p, body: body, hdr: h})
				}}}
		}})
	}

	// -----------------------------------------------------------------------
	// raw-socket framing
	type rawCase struct {
		name string
		mf   bool
		f    func(fx *fixture, rng *rand.Rand) []rawStep
	}
	raws := []rawCase{
		{"put-without-content-length", false, func(fx *fixture, rng *rand.Rand) []rawStep {
			b := freshBlob(fx, rng, 500)
			return []rawStep{{w: reqHead("PUT", "/cas/"+b.hash)}, {w: b.data, sleep: 20 * time.Millisecond, halfClose: true, readAll: true}}
		}},
		{"put-chunked", false, func(fx *fixture, rng *rand.Rand) []rawStep {
			b := freshBlob(fx, rng, 5000)
			return []rawStep{{w: reqHead("PUT", "/cas/"+b.hash, "Transfer-Encoding", "chunked", "Connection", "close")}, {w: chunked(b.data[:1000], b.data[1000:]), readAll: true}}
		}},
		{"put-chunked-with-sizebytes", false, func(fx *fixture, rng *rand.Rand) []rawStep {
			b := freshBlob(fx, rng, 5000)
			return []rawStep{{w: reqHead("PUT", "/cas/"+b.hash, "Transfer-Encoding", "chunked", "X-Digest-SizeBytes", fmt.Sprint(b.size), "Connection", "close")}, {w: chunked(b.data[:1], b.data[1:4000], b.data[4000:]), readAll: true}}
		}},
		{"put-chunked-malformed-chunks", false, func(fx *fixture, rng *rand.Rand) []rawStep {
			b := freshBlob(fx, rng, 500)
			bad := lib.Pick(rng, []string{"zz\r\nabc\r\n0\r\n\r\n", "-5\r\nabc\r\n0\r\n\r\n", "ffffffffffffffffff\r\nabc\r\n", "5\r\nabc\r\n0\r\n\r\n", "3\nabc\n0\n\n", "3;ext=" + strings.Repeat("e", 9000) + "\r\nabc\r\n0\r\n\r\n",
				"3\r\nabc\r\n0\r\nTrailer: " + strings.Repeat("t", 100000) + "\r\n\r\n", "7fffffffffffffff\r\nabc"})
			return []rawStep{{w: reqHead("PUT", "/cas/"+b.hash, "Transfer-Encoding", "chunked", "X-Digest-SizeBytes", "3")}, {w: []byte(bad), sleep: 30 * time.Millisecond, halfClose: true, readAll: true}}
		}},
		{"put-content-length-larger-than-body-then-close", false, func(fx *fixture, rng *rand.Rand) []rawStep {
			b := freshBlob(fx, rng, lib.Pick(rng, []int{3000, 300000, 3 * lib.MiB}))
			cut := rng.IntN(len(b.data))
			hdr := []string{"Content-Length", fmt.Sprint(b.size)}
			body := b.data
			if rng.IntN(2) == 0 {
				body = lib.ZstdEncodeKP(b.data, 1)
				hdr = []string{"Content-Length", fmt.Sprint(len(body)), "Content-Encoding", "zstd", "X-Digest-SizeBytes", fmt.Sprint(b.size)}
				cut = rng.IntN(len(body))
			}
			return []rawStep{{w: reqHead("PUT", "/cas/"+b.hash, hdr...)}, {w: body[:cut], sleep: time.Duration(rng.IntN(30)) * time.Millisecond}}
		}},
		{"put-ac-content-length-larger-than-body-then-close", false, func(fx *fixture, rng *rand.Rand) []rawStep {
			body, _ := proto.Marshal(validAR(fx))
			return []rawStep{{w: reqHead("PUT", "/ac/"+lib.RandHash(rng), "Content-Length", fmt.Sprint(len(body)+1000))}, {w: body, sleep: 20 * time.Millisecond}}
		}},
		{"put-content-length-smaller-than-body", false, func(fx *fixture, rng *rand.Rand) []rawStep {
			b := freshBlob(fx, rng, 4000)
			return []rawStep{{w: reqHead("PUT", "/cas/"+b.hash, "Content-Length", "100")}, {w: b.data, halfClose: true, readAll: true}}
		}},
		{"content-length-odd-values", false, func(fx *fixture, rng *rand.Rand) []rawStep {
			b := freshBlob(fx, rng, 100)
			cl := lib.Pick(rng, []string{"-1", "abc", "9223372036854775807", "9223372036854775808", "1e2", "+100", "100, 100", "100\r\nContent-Length: 5", " 100", "0x64", ""})
			return []rawStep{{w: []byte("PUT /cas/" + b.hash + " HTTP/1.1\r\nHost: c14\r\nContent-Length: " + cl + "\r\n\r\n")}, {w: b.data, sleep: 20 * time.Millisecond, halfClose: true, readAll: true}}
		}},
		{"content-length-and-chunked", false, func(fx *fixture, rng *rand.Rand) []rawStep {
			b := freshBlob(fx, rng, 100)
			return []rawStep{{w: reqHead("PUT", "/cas/"+b.hash, "Content-Length", "100", "Transfer-Encoding", lib.Pick(rng, []string{"chunked", "gzip, chunked", "chunked, chunked", "xchunked"}))}, {w: chunked(b.data), halfClose: true, readAll: true}}
		}},
		{"expect-continue-never-send-body", false, func(fx *fixture, rng *rand.Rand) []rawStep {
			b := freshBlob(fx, rng, 100000)
			return []rawStep{{w: reqHead("PUT", "/cas/"+b.hash, "Content-Length", fmt.Sprint(b.size), "Expect", "100-continue"), read: 25, sleep: time.Duration(20+rng.IntN(100)) * time.Millisecond}}
		}},
		{"zstd-garbage-client-keeps-sending", false, func(fx *fixture, rng *rand.Rand) []rawStep {
			b := freshBlob(fx, rng, 1000)
			n := lib.Pick(rng, []int{200000, 3 * lib.MiB})
			return []rawStep{{w: reqHead("PUT", "/cas/"+b.hash, "Content-Length", fmt.Sprint(n+64), "Content-Encoding", "zstd", "X-Digest-SizeBytes", fmt.Sprint(b.size))},
				{w: lib.GenBlob(rng, 64, "random", "zz"), fill: n, readAll: true}}
		}},
		{"request-line-garbage", false, func(fx *fixture, rng *rand.Rand) []rawStep {
			h := lib.Pick(rng, fx.pool.small[1:]).hash
			l := lib.Pick(rng, []string{"GET /cas/" + h + "\r\n\r\n", "GET /cas/" + h + " HTTP/0.9\r\n\r\n", "GET /cas/" + h + " HTTP/3.0\r\n\r\n", "PRI * HTTP/2.0\r\n\r\nSM\r\n\r\n\x00\x00\x00\x04\x00\x00\x00\x00\x00",
				"GET http://other.example/cas/" + h + " HTTP/1.1\r\nHost: c14\r\n\r\n", "OPTIONS * HTTP/1.1\r\nHost: c14\r\n\r\n", "GET /cas/" + h + " HTTP/1.1\r\n\r\n", "GET /cas/\x00" + h + " HTTP/1.1\r\nHost: c14\r\n\r\n",
				"GET  /cas/" + h + "  HTTP/1.1\r\nHost: c14\r\n\r\n", "GET /cas/" + h + " HTTP/1.1\nHost: c14\n\n", "\r\n\r\nGET /cas/" + h + " HTTP/1.1\r\nHost: c14\r\n\r\n", "GET /cas/" + h + " HTTP/1.1\r\nHost: c14\r\nNoColonHere\r\n\r\n",
				"GET /cas/" + h + " HTTP/1.1\r\nHost: c14\r\n folded: continuation\r\n\r\n", "CONNECT example.com:443 HTTP/1.1\r\nHost: c14\r\n\r\n", "\x16\x03\x01\x02\x00\x01\x00\x01\xfc\x03\x03" + strings.Repeat("\x00", 64),
				"GET /" + strings.Repeat("a", 200000) + " HTTP/1.1\r\nHost: c14\r\n\r\n", "GET /cas/" + h + " HTTP/1.1\r\nHost: c14\r\nX-Big: " + strings.Repeat("b", 1100000) + "\r\n\r\n"})
			return []rawStep{{w: []byte(l), sleep: 10 * time.Millisecond, halfClose: true, readAll: true}}
		}},
		{"many-headers-and-pipelining", false, func(fx *fixture, rng *rand.Rand) []rawStep {
			h := lib.Pick(rng, fx.pool.small[1:]).hash
			var sb strings.Builder
			if rng.IntN(2) == 0 {
				sb.WriteString("GET /cas/" + h + " HTTP/1.1\r\nHost: c14\r\n")
				for i := 0; i < 3000; i++ {
					fmt.Fprintf(&sb, "X-H%d: v\r\n", i)
				}
				sb.WriteString("\r\n")
			} else {
				for i := 0; i < 60; i++ {
					sb.WriteString(lib.Pick(rng, []string{"GET", "HEAD"}) + " /cas/" + h + " HTTP/1.1\r\nHost: c14\r\n\r\n")
				}
			}
			return []rawStep{{w: []byte(sb.String()), read: 2000, sleep: 5 * time.Millisecond}}
		}},
		{"partial-headers-then-close", false, func(fx *fixture, rng *rand.Rand) []rawStep {
			full := string(reqHead("PUT", "/cas/"+lib.RandHash(rng), "Content-Length", "10"))
			return []rawStep{{w: []byte(full[:1+rng.IntN(len(full)-1)]), sleep: time.Duration(rng.IntN(50)) * time.Millisecond}}
		}},
		{"random-bytes", false, func(fx *fixture, rng *rand.Rand) []rawStep {
			return []rawStep{{w: lib.GenBlob(rng, 1+rng.IntN(5000), "random", "rb"), sleep: 10 * time.Millisecond, halfClose: true, readAll: true}}
		}},
	}
	for _, rc := range raws {
		rc := rc
		register(variant{fam: "httpraw", name: rc.name, weight: 2, applies: always, build: func(fx *fixture, rng *rand.Rand) []*op {
			steps := rc.f(fx, rng)
			first := ""
			if len(steps) > 0 {
				first = clip(strings.ReplaceAll(string(steps[0].w), "\r\n", "\\r\\n"), 240)
			}
			return []*op{{ep: "http:RAW", mustFail: rc.mf, noRetry: true, desc: map[string]any{"first_write": first, "steps": len(steps)},
				run: func(ctx context.Context, fx *fixture) result { return rawRun(ctx, fx.child.HTTPAddr, 0, steps) }}}
		}})
	}

	// garbage on the gRPC port
	register(variant{fam: "grpcraw", name: "garbage-on-grpc-port", weight: 2, applies: always, build: func(fx *fixture, rng *rand.Rand) []*op {
		pre := "PRI * HTTP/2.0\r\n\r\nSM\r\n\r\n"
		settings := "\x00\x00\x00\x04\x00\x00\x00\x00\x00"
		frame := func(typ byte, flags byte, stream uint32, payload []byte) string {
			l := len(payload)
			return string([]byte{byte(l >> 16), byte(l >> 8), byte(l), typ, flags, byte(stream >> 24), byte(stream >> 16), byte(stream >> 8), byte(stream)}) + string(payload)
		}
		hp := func(name, value string) []byte { // literal header field without indexing, new name (lengths < 127)
			return append(append([]byte{0x00, byte(len(name))}, name...), append([]byte{byte(len(value))}, value...)...)
		}
		hdrs := func(path string, extra ...[]byte) []byte {
			b := append(hp(":method", "POST"), hp(":scheme", "http")...)
			b = append(b, hp(":path", path)...)
			b = append(b, hp(":authority", "c14")...)
			b = append(b, hp("content-type", "application/grpc")...)
			b = append(b, hp("te", "trailers")...)
			for _, e := range extra {
				b = append(b, e...)
			}
			return b
		}
		m := "/build.bazel.remote.execution.v2.ContentAddressableStorage/FindMissingBlobs"
		w := "/google.bytestream.ByteStream/Write"
		script := lib.Pick(rng, []string{
			"GET / HTTP/1.1\r\nHost: c14\r\n\r\n",
			string(lib.GenBlob(rng, 1+rng.IntN(3000), "random", "g")),
			pre + string(lib.GenBlob(rng, 500, "random", "g2")),
			pre + settings + frame(1, 4, 1, lib.GenBlob(rng, 100, "random", "hpack")),
			// length-prefixed message claiming 4 GiB
			pre + settings + frame(1, 4, 1, hdrs(m)) + frame(0, 1, 1, []byte{0, 0xff, 0xff, 0xff, 0xff, 1, 2, 3}),
			// compressed flag without grpc-encoding
			pre + settings + frame(1, 4, 1, hdrs(m)) + frame(0, 1, 1, []byte{1, 0, 0, 0, 3, 1, 2, 3}),
			// unknown grpc-encoding
			pre + settings + frame(1, 4, 1, hdrs(m, hp("grpc-encoding", "nosuch"))) + frame(0, 1, 1, []byte{1, 0, 0, 0, 3, 1, 2, 3}),
			// gzip garbage
			pre + settings + frame(1, 4, 1, hdrs(m, hp("grpc-encoding", "gzip"))) + frame(0, 1, 1, []byte{1, 0, 0, 0, 3, 1, 2, 3}),
			// zstd garbage
			pre + settings + frame(1, 4, 1, hdrs(m, hp("grpc-encoding", "zstd"))) + frame(0, 1, 1, []byte{1, 0, 0, 0, 5, 0x28, 0xb5, 0x2f, 0xfd, 0xff}),
			// truncated message then END_STREAM
			pre + settings + frame(1, 4, 1, hdrs(m)) + frame(0, 1, 1, []byte{0, 0, 0, 0, 50, 1, 2, 3}),
			// Write stream opened, half a message, connection dropped
			pre + settings + frame(1, 4, 1, hdrs(w)) + frame(0, 0, 1, []byte{0, 0, 0, 1, 0, 10, 3}),
			// Write stream opened and abandoned without any message
			pre + settings + frame(1, 4, 1, hdrs(w)),
			// bad timeout header, bad content-type, unknown path
			pre + settings + frame(1, 4, 1, hdrs(m, hp("grpc-timeout", "notatime"))) + frame(0, 1, 1, []byte{0, 0, 0, 0, 0}),
			pre + settings + frame(1, 5, 1, append(hp(":method", "GET"), hp(":path", "/cas/"+lib.RandHash(rng))...)),
			// RST_STREAM / WINDOW_UPDATE / PING floods and invalid frames
			pre + settings + strings.Repeat(frame(6, 0, 0, make([]byte, 8)), 300) + frame(8, 0, 0, []byte{0, 0, 0, 0}) + frame(3, 0, 0, []byte{0, 0, 0, 1}),
			pre + settings + frame(0x42, 0xff, 7, lib.GenBlob(rng, 200, "random", "fr")) + frame(4, 0, 0, []byte{0, 4, 0xff, 0xff, 0xff, 0xff}),
		})
		pause := time.Duration(10+rng.IntN(40)) * time.Millisecond
		return []*op{{ep: "grpc:RAW", noRetry: true, desc: map[string]any{"bytes": describeBytes([]byte(script))},
			run: func(ctx context.Context, fx *fixture) result {
				res := rawRun(ctx, fx.child.GRPCAddr, 0, []rawStep{{w: []byte(script), sleep: pause, read: 4096}})
				res.success = false
				return res
			}}}
	}})

	// -----------------------------------------------------------------------
	// GET of large blobs where the client goes away early (raw socket, tiny receive buffer)
	for _, enc := range []string{"identity", "zstd"} {
		enc := enc
		for _, how := range []string{"close-after-headers", "close-after-some-bytes", "close-right-after-request", "stop-reading-then-close"} {
			how := how
			register(variant{fam: "abort.httpget." + enc, name: how, core: how == "close-after-some-bytes", weight: 3, applies: always, build: func(fx *fixture, rng *rand.Rand) []*op {
				b := lib.Pick(rng, []*blob{fx.pool.medium[0], fx.pool.medium[1], fx.pool.large[0], fx.pool.large[1]})
				hdr := []string{}
				if enc == "zstd" {
					hdr = []string{"Accept-Encoding", "zstd"}
				}
				var steps []rawStep
				switch how {
				case "close-after-headers":
					steps = []rawStep{{w: reqHead("GET", "/cas/"+b.hash, hdr...), read: 60}}
				case "close-after-some-bytes":
					steps = []rawStep{{w: reqHead("GET", "/cas/"+b.hash, hdr...), read: 200 + rng.IntN(60000)}}
				case "close-right-after-request":
					steps = []rawStep{{w: reqHead("GET", "/cas/"+b.hash, hdr...)}}
				default:
					steps = []rawStep{{w: reqHead("GET", "/cas/"+b.hash, hdr...), read: 100, sleep: time.Duration(50+rng.IntN(200)) * time.Millisecond}}
				}
				return []*op{ensureOp(b), {ep: "http:GET:/cas", abortOp: true, noRetry: true, desc: map[string]any{"path": "/cas/" + b.hash, "accept_encoding": enc, "how": how, "blob_size": b.size},
					run: func(ctx context.Context, fx *fixture) result {
						res := rawRun(ctx, fx.child.HTTPAddr, 4096, steps)
						res.status += "(client-abort)"
						return res
					}}}
			}})
		}
	}
}

var _ = net.Dial

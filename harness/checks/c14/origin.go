package c14

import (
	"fmt"
	"net"
	"net/http"
	"strconv"
	"strings"
	"sync"
	"sync/atomic"
	"time"
)

// ---------------------------------------------------------------------------
// Origin server for Remote Asset FetchBlob.
//
//	/blob/<n>      200, n deterministic bytes, Content-Length
//	/nocl/<n>      200, n bytes, chunked (no Content-Length)
//	/short/<n>     200, Content-Length n, n/2 bytes, then the connection is cut
//	/zero          200, Content-Length 0
//	/status/<c>    status c with a small body
//	/loop          302 to itself
//	/stall         holds the request (no answer) until ReleaseStalls / Close
//	/trickle       sends headers and a few bytes, then holds the body

type origin struct {
	ln      net.Listener
	srv     *http.Server
	mu      sync.Mutex
	release chan struct{}
	stalled atomic.Int64 // requests currently held
	seen    atomic.Int64 // stall/trickle requests ever received
	hits    atomic.Int64
}

func originBytes(n int) []byte {
	b := make([]byte, n)
	x := uint32(n)*2654435761 + 12345
	for i := range b {
		x = x*1664525 + 1013904223
		b[i] = byte(x >> 24)
	}
	return b
}

func startOrigin() (*origin, error) {
	ln, err := net.Listen("tcp", "127.0.0.1:0")
	if err != nil {
		return nil, err
	}
	o := &origin{ln: ln, release: make(chan struct{})}
	mux := http.NewServeMux()
	num := func(r *http.Request, prefix string) int {
		n, _ := strconv.Atoi(strings.TrimPrefix(r.URL.Path, prefix))
		if n < 0 || n > 64<<20 {
			n = 0
		}
		return n
	}
	mux.HandleFunc("/blob/", func(w http.ResponseWriter, r *http.Request) {
		o.hits.Add(1)
		b := originBytes(num(r, "/blob/"))
		w.Header().Set("Content-Length", strconv.Itoa(len(b)))
		_, _ = w.Write(b)
	})
	mux.HandleFunc("/nocl/", func(w http.ResponseWriter, r *http.Request) {
		o.hits.Add(1)
		b := originBytes(num(r, "/nocl/"))
		w.WriteHeader(200)
		if f, ok := w.(http.Flusher); ok {
			f.Flush() // forces chunked encoding
		}
		_, _ = w.Write(b)
	})
	mux.HandleFunc("/short/", func(w http.ResponseWriter, r *http.Request) {
		o.hits.Add(1)
		n := num(r, "/short/")
		hj, ok := w.(http.Hijacker)
		if !ok {
			return
		}
		c, rw, err := hj.Hijack()
		if err != nil {
			return
		}
		_, _ = fmt.Fprintf(rw, "HTTP/1.1 200 OK\r\nContent-Length: %d\r\nContent-Type: application/octet-stream\r\n\r\n", n)
		_, _ = rw.Write(originBytes(n)[:n/2])
		_ = rw.Flush()
		_ = c.Close()
	})
	mux.HandleFunc("/zero", func(w http.ResponseWriter, r *http.Request) {
		o.hits.Add(1)
		w.Header().Set("Content-Length", "0")
		w.WriteHeader(200)
	})
	mux.HandleFunc("/status/", func(w http.ResponseWriter, r *http.Request) {
		o.hits.Add(1)
		c := num(r, "/status/")
		if c < 200 || c > 599 {
			c = 500
		}
		http.Error(w, "origin says no", c)
	})
	mux.HandleFunc("/loop", func(w http.ResponseWriter, r *http.Request) {
		o.hits.Add(1)
		http.Redirect(w, r, "/loop", http.StatusFound)
	})
	hold := func(r *http.Request) {
		o.seen.Add(1)
		o.stalled.Add(1)
		defer o.stalled.Add(-1)
		o.mu.Lock()
		ch := o.release
		o.mu.Unlock()
		select {
		case <-ch:
		case <-r.Context().Done(): // the fetching side closed its connection
		}
	}
	mux.HandleFunc("/stall", func(w http.ResponseWriter, r *http.Request) {
		hold(r)
		http.Error(w, "released", http.StatusServiceUnavailable)
	})
	mux.HandleFunc("/trickle", func(w http.ResponseWriter, r *http.Request) {
		w.Header().Set("Content-Length", "1000000")
		w.WriteHeader(200)
		_, _ = w.Write([]byte("first bytes"))
		if f, ok := w.(http.Flusher); ok {
			f.Flush()
		}
		hold(r)
	})
	o.srv = &http.Server{Handler: mux}
	go func() { _ = o.srv.Serve(ln) }()
	return o, nil
}

func (o *origin) URL() string { return "http://" + o.ln.Addr().String() }

// ReleaseStalls lets every held request finish and re-arms the gate.
func (o *origin) ReleaseStalls() {
	o.mu.Lock()
	close(o.release)
	o.release = make(chan struct{})
	o.mu.Unlock()
}

// WaitStalled waits (bounded) until at least n requests are being held.
func (o *origin) WaitStalled(n int64, max time.Duration) bool {
	deadline := time.Now().Add(max)
	for o.stalled.Load() < n {
		if time.Now().After(deadline) {
			return false
		}
		time.Sleep(2 * time.Millisecond)
	}
	return true
}

func (o *origin) Close() {
	o.ReleaseStalls()
	_ = o.srv.Close()
}

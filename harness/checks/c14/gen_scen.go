package c14

import (
	"context"
	"encoding/base64"
	"fmt"
	"io"
	"math"
	"math/rand/v2"
	"strings"
	"time"

	asset "github.com/buchgr/bazel-remote/v2/genproto/build/bazel/remote/asset/v1"
	pb "github.com/buchgr/bazel-remote/v2/genproto/build/bazel/remote/execution/v2"

	bs "google.golang.org/genproto/googleapis/bytestream"
	"google.golang.org/grpc"
	"google.golang.org/grpc/codes"
	"google.golang.org/grpc/credentials/insecure"
	"google.golang.org/grpc/status"
	"google.golang.org/protobuf/proto"

	"verif/harness/lib"
)

// ---------------------------------------------------------------------------
// Remote Asset FetchBlob

func fetchRes(resp *asset.FetchBlobResponse, err error) result {
	res := grpcRes(err)
	if err == nil {
		c := codes.Code(resp.GetStatus().GetCode())
		if c != codes.OK || resp.GetBlobDigest() == nil {
			res.success = false
			res.status = "grpc:OK/status:" + c.String()
		}
	}
	return res
}

func init() {
	type fetchCase struct {
		name string
		mf   bool
		f    func(fx *fixture, rng *rand.Rand) *asset.FetchBlobRequest
	}
	badURIs := []string{"", "://", "http://", "http:///nohost", "http://[::1", "ftp://example.invalid/x", "file:///etc/passwd", "/relative/path", "http://%zz/",
		"http://host:port/", "http://exa mple/", "data:text/plain,hello", "HTTP:\\\\x", "http://\x7f", "gopher://x", "mailto:a@b", "http//missing-colon", "?", "#", "http://[fe80::1%25en0]:x/",
		strings.Repeat("a", 100000), "http://" + strings.Repeat("a", 70000) + ".invalid/"}
	cases := []fetchCase{
		{"no-uris-no-qualifiers", true, func(*fixture, *rand.Rand) *asset.FetchBlobRequest { return &asset.FetchBlobRequest{} }},
		{"malformed-uris", true, func(_ *fixture, rng *rand.Rand) *asset.FetchBlobRequest {
			q := &asset.FetchBlobRequest{}
			for i := 0; i <= rng.IntN(5); i++ {
				q.Uris = append(q.Uris, lib.Pick(rng, badURIs))
			}
			return q
		}},
		{"nil-qualifier", true, func(_ *fixture, rng *rand.Rand) *asset.FetchBlobRequest {
			return &asset.FetchBlobRequest{Qualifiers: []*asset.Qualifier{nil, nil}, Uris: []string{lib.Pick(rng, badURIs)}}
		}},
		{"qualifier-without-value", true, func(_ *fixture, rng *rand.Rand) *asset.FetchBlobRequest {
			return &asset.FetchBlobRequest{Qualifiers: []*asset.Qualifier{{Name: "checksum.sri"}, {Name: "http_header:X"}, {Name: "http_header_url:0:X"}, {Name: ""}, {Name: "resource_type"}}}
		}},
		{"sri-malformed", true, func(_ *fixture, rng *rand.Rand) *asset.FetchBlobRequest {
			v := lib.Pick(rng, []string{"sha256-", "sha256-!!!not-base64!!!", "sha256-" + base64.StdEncoding.EncodeToString([]byte("short")), "sha256-" + base64.StdEncoding.EncodeToString(make([]byte, 64)),
				"sha512-" + base64.StdEncoding.EncodeToString(make([]byte, 64)), "md5-xyz", "sha256", "SHA256-" + base64.StdEncoding.EncodeToString(make([]byte, 32)), "sha256-" + strings.Repeat("A", 100000)})
			return &asset.FetchBlobRequest{Qualifiers: []*asset.Qualifier{{Name: "checksum.sri", Value: v}}}
		}},
		{"sri-of-stored-blob", false, func(fx *fixture, rng *rand.Rand) *asset.FetchBlobRequest {
			return &asset.FetchBlobRequest{Qualifiers: []*asset.Qualifier{{Name: "checksum.sri", Value: sri(lib.Pick(rng, fx.pool.small).hash)}}}
		}},
		{"sri-of-empty-blob", false, func(fx *fixture, rng *rand.Rand) *asset.FetchBlobRequest {
			return &asset.FetchBlobRequest{Qualifiers: []*asset.Qualifier{{Name: "checksum.sri", Value: sri(lib.EmptySha256)}}}
		}},
		{"sri-absent-no-uri", false, func(fx *fixture, rng *rand.Rand) *asset.FetchBlobRequest {
			return &asset.FetchBlobRequest{Qualifiers: []*asset.Qualifier{{Name: "checksum.sri", Value: sri(lib.RandHash(rng))}}}
		}},
		{"header-qualifiers-odd", false, func(fx *fixture, rng *rand.Rand) *asset.FetchBlobRequest {
			qs := []*asset.Qualifier{
				{Name: "http_header:", Value: "v"}, {Name: "http_header:A B", Value: "v"}, {Name: "http_header:X-Ok", Value: "a,b,,c"},
				{Name: "http_header:X\r\nInjected", Value: "v"}, {Name: "http_header:X-Nl", Value: "a\r\nb"}, {Name: "http_header:Host", Value: "evil"},
				{Name: "http_header:Content-Length", Value: "-5"}, {Name: "http_header:X-Long", Value: strings.Repeat("v", 70000)},
				{Name: "http_header_url:x", Value: "v"}, {Name: "http_header_url:0", Value: "v"}, {Name: "http_header_url:-1:K", Value: "v"}, {Name: "http_header_url:99:K", Value: "v"},
				{Name: "http_header_url:0:K:V", Value: "v"}, {Name: "http_header_url:NaN:K", Value: "v"}, {Name: "http_header_url:0:", Value: "v"},
				{Name: "http_header_url:0:X-Mine", Value: "v"}, {Name: "http_header_url:9223372036854775808:K", Value: "v"}, {Name: "unknown.qualifier", Value: "v"},
			}
			rng.Shuffle(len(qs), func(i, j int) { qs[i], qs[j] = qs[j], qs[i] })
			return &asset.FetchBlobRequest{Qualifiers: qs[:1+rng.IntN(len(qs))], Uris: []string{fx.origin.URL() + "/blob/" + fmt.Sprint(100+rng.IntN(1000))}}
		}},
		{"origin-ok-unknown-hash", false, func(fx *fixture, rng *rand.Rand) *asset.FetchBlobRequest {
			return &asset.FetchBlobRequest{Uris: []string{lib.Pick(rng, badURIs), fx.origin.URL() + lib.Pick(rng, []string{"/blob/", "/nocl/"}) + fmt.Sprint(1+rng.IntN(300000))}}
		}},
		{"origin-ok-with-sri", false, func(fx *fixture, rng *rand.Rand) *asset.FetchBlobRequest {
			n := 1 + rng.IntN(300000)
			return &asset.FetchBlobRequest{Uris: []string{fx.origin.URL() + lib.Pick(rng, []string{"/blob/", "/nocl/"}) + fmt.Sprint(n)},
				Qualifiers: []*asset.Qualifier{{Name: "checksum.sri", Value: sri(lib.Sha256Hex(originBytes(n)))}}}
		}},
		{"origin-wrong-sri", false, func(fx *fixture, rng *rand.Rand) *asset.FetchBlobRequest {
			return &asset.FetchBlobRequest{Uris: []string{fx.origin.URL() + lib.Pick(rng, []string{"/blob/", "/nocl/"}) + fmt.Sprint(1+rng.IntN(2000000))},
				Qualifiers: []*asset.Qualifier{{Name: "checksum.sri", Value: sri(lib.RandHash(rng))}}}
		}},
		{"origin-short-body", false, func(fx *fixture, rng *rand.Rand) *asset.FetchBlobRequest {
			q := &asset.FetchBlobRequest{Uris: []string{fx.origin.URL() + "/short/" + fmt.Sprint(10+rng.IntN(500000))}}
			if rng.IntN(2) == 0 {
				q.Qualifiers = []*asset.Qualifier{{Name: "checksum.sri", Value: sri(lib.RandHash(rng))}}
			}
			return q
		}},
		{"origin-zero-length", false, func(fx *fixture, rng *rand.Rand) *asset.FetchBlobRequest {
			q := &asset.FetchBlobRequest{Uris: []string{fx.origin.URL() + "/zero"}}
			switch rng.IntN(3) {
			case 0:
				q.Qualifiers = []*asset.Qualifier{{Name: "checksum.sri", Value: sri(lib.RandHash(rng))}} // size 0, non-empty hash
			case 1:
				q.Qualifiers = []*asset.Qualifier{{Name: "checksum.sri", Value: sri(lib.EmptySha256)}}
			}
			return q
		}},
		{"origin-error-status", false, func(fx *fixture, rng *rand.Rand) *asset.FetchBlobRequest {
			return &asset.FetchBlobRequest{Uris: []string{fx.origin.URL() + "/status/" + fmt.Sprint(lib.Pick(rng, []int{301, 400, 404, 418, 500, 503})),
				fx.origin.URL() + "/status/" + fmt.Sprint(lib.Pick(rng, []int{401, 403, 410, 429, 502})), fx.origin.URL() + "/loop", "http://127.0.0.1:1/refused"}}
		}},
		{"timeout-and-oldest-fields", false, func(fx *fixture, rng *rand.Rand) *asset.FetchBlobRequest {
			return &asset.FetchBlobRequest{InstanceName: strings.Repeat("i", 3000), Uris: []string{fx.origin.URL() + "/blob/10"}}
		}},
	}
	for _, c := range cases {
		c := c
		register(variant{fam: "fetch", name: c.name, applies: always, build: func(fx *fixture, rng *rand.Rand) []*op {
			q := c.f(fx, rng)
			var qs []string
			for _, x := range q.Qualifiers {
				qs = append(qs, clip(x.GetName(), 60)+"="+clip(x.GetValue(), 80))
			}
			var us []string
			for _, u := range q.Uris {
				us = append(us, clip(u, 120))
			}
			return []*op{{ep: "grpc:Fetch.FetchBlob", mustFail: c.mf, desc: map[string]any{"uris": us, "qualifiers": qs},
				run: func(ctx context.Context, fx *fixture) result {
					return fetchRes(fx.srv.Asset.FetchBlob(ctx, q))
				}}}
		}})
	}

	// FetchBlob against an origin that stalls while the client gives up: the
	// handler must not outlive its client (DESIGN §4 suspicion).
	for _, how := range []string{"stall-before-headers", "stall-mid-body"} {
		how := how
		register(variant{fam: "fetch.stall", name: how, core: true, applies: always, build: func(fx *fixture, rng *rand.Rand) []*op {
			path := "/stall"
			if how == "stall-mid-body" {
				path = "/trickle"
			}
			var q *asset.FetchBlobRequest
			if rng.IntN(2) == 0 {
				q = &asset.FetchBlobRequest{Uris: []string{fx.origin.URL() + path}}
			} else {
				q = &asset.FetchBlobRequest{Uris: []string{fx.origin.URL() + path}, Qualifiers: []*asset.Qualifier{{Name: "checksum.sri", Value: sri(lib.RandHash(rng))}}}
			}
			return []*op{{ep: "grpc:Fetch.FetchBlob", desc: map[string]any{"uri": path, "client": "cancels after 400 ms while the origin holds the request", "with_sri": len(q.Qualifiers) > 0},
				run: func(ctx context.Context, fx *fixture) result {
					before := fx.origin.seen.Load()
					cctx, cancel := context.WithTimeout(ctx, 400*time.Millisecond)
					defer cancel()
					_, err := fx.srv.Asset.FetchBlob(cctx, q)
					reached := fx.origin.seen.Load() > before
					return result{status: "grpc:" + status.Code(err).String() + "(client-gave-up)", success: err == nil, note: fmt.Sprintf("origin reached=%v", reached)}
				},
				after: func(fx *fixture, res result) { fx.stallOracle(how) }}}
		}})
	}
}

// stallOracle: the client of a FetchBlob has given up while the origin still
// holds the request. Persistent state decides: is a goroutine of the handler
// (fetchItem / FetchBlob frame) still there after a generous settle period?
func (fx *fixture) stallOracle(how string) {
	const fn = "server.(*grpcServer).fetchItem"
	present := func() (int, string, error) {
		d, err := fx.child.GoroutineDump()
		if err != nil {
			return 0, "", err
		}
		n := 0
		for sig, c := range lib.GoroutineSignatures(d) {
			if strings.HasPrefix(sig, fn) || strings.HasPrefix(sig, "server.(*grpcServer).FetchBlob") {
				n += c
			}
		}
		return n, d, nil
	}
	wait := 15 * time.Second
	if fx.stallSeen {
		wait = 2 * time.Second // already established with the generous period on this fixture; keep exploring
	}
	deadline := time.Now().Add(wait)
	sleep := 50 * time.Millisecond
	n, dump := 0, ""
	for {
		var err error
		n, dump, err = present()
		if err != nil {
			fx.origin.ReleaseStalls()
			return // liveness is judged elsewhere
		}
		if n == 0 {
			fx.r.Count("fetch-stall.handler-gone")
			fx.origin.ReleaseStalls()
			return
		}
		if time.Now().After(deadline) {
			break
		}
		time.Sleep(sleep)
		if sleep < 2*time.Second {
			sleep *= 2
		}
	}
	held := fx.origin.stalled.Load()
	if fx.stallSeen {
		fx.r.Count("fetch-stall.handler-still-parked(repeat)")
		fx.origin.ReleaseStalls()
		return
	}
	fx.stallSeen = true
	fx.violation("C14:hang:grpc:Fetch.FetchBlob:stalling-origin:handler-outlives-client",
		fmt.Sprintf("%d FetchBlob handler goroutine(s) are still parked in fetchItem 15 s after their client cancelled the call; the outgoing request ignores the call's context, so a stalling origin pins the handler and its connection (origin still holds %d request(s))", n, held),
		map[string]any{"how": how, "stacks": stacksFor(dump, fn, 1)})
	// Let the origin answer; the handler must then go away, otherwise the periodic leak check reports it.
	fx.origin.ReleaseStalls()
}

// ---------------------------------------------------------------------------
// Stored blobs later interpreted as Directory / Tree / ActionResult

func storeOp(gen string, bl ...*blob) *op {
	var reqs []*pb.BatchUpdateBlobsRequest_Request
	var names []string
	for _, b := range bl {
		if b.size == 0 {
			continue
		}
		reqs = append(reqs, &pb.BatchUpdateBlobsRequest_Request{Digest: b.digest(), Data: b.data})
		names = append(names, fmt.Sprintf("%s/%d(%s)", b.hash[:12], b.size, b.what))
	}
	return &op{ep: "grpc:CAS.BatchUpdateBlobs", gen: gen + "/store", setup: true, desc: map[string]any{"store": names},
		run: func(ctx context.Context, fx *fixture) result {
			// split into calls below the default 4 MiB message limit
			var batch []*pb.BatchUpdateBlobsRequest_Request
			n := 0
			flush := func() error {
				if len(batch) == 0 {
					return nil
				}
				_, err := fx.srv.CAS.BatchUpdateBlobs(ctx, &pb.BatchUpdateBlobsRequest{Requests: batch})
				batch, n = nil, 0
				return err
			}
			for _, q := range reqs {
				if n+len(q.Data) > 3*lib.MiB {
					if err := flush(); err != nil {
						return grpcRes(err)
					}
				}
				batch = append(batch, q)
				n += len(q.Data) + 100
			}
			return grpcRes(flush())
		}}
}

func init() {
	type dirCase struct {
		name string
		core bool
		f    func(fx *fixture, rng *rand.Rand) (root *blob, others []*blob)
	}
	someFile := func(fx *fixture) []*pb.FileNode {
		return []*pb.FileNode{{Name: "f", Digest: fx.pool.small[1].digest()}}
	}
	uniq := func(fx *fixture, rng *rand.Rand) string {
		return fmt.Sprintf("u-%s-%d-%d", fx.p.name, fx.seq, rng.Uint32())
	}
	dirCases := []dirCase{
		{"dirnode-without-digest", true, func(fx *fixture, rng *rand.Rand) (*blob, []*blob) {
			return dirBlob(&pb.Directory{Directories: []*pb.DirectoryNode{{Name: uniq(fx, rng)}}}), nil
		}},
		{"dirnode-without-digest-second-level", true, func(fx *fixture, rng *rand.Rand) (*blob, []*blob) {
			c := dirBlob(&pb.Directory{Files: someFile(fx), Directories: []*pb.DirectoryNode{{Name: "ok", Digest: fx.pool.rootDir.digest()}, {Name: uniq(fx, rng)}}})
			return dirBlob(&pb.Directory{Directories: []*pb.DirectoryNode{{Name: uniq(fx, rng), Digest: c.digest()}}}), []*blob{c}
		}},
		{"dirnode-zero-digest", false, func(fx *fixture, rng *rand.Rand) (*blob, []*blob) {
			return dirBlob(&pb.Directory{Directories: []*pb.DirectoryNode{{Name: uniq(fx, rng), Digest: &pb.Digest{}}}}), nil
		}},
		{"dirnode-bad-hash", false, func(fx *fixture, rng *rand.Rand) (*blob, []*blob) {
			return dirBlob(&pb.Directory{Directories: []*pb.DirectoryNode{{Name: uniq(fx, rng), Digest: &pb.Digest{Hash: mutHash(rng, lib.Pick(rng, hashMuts)), SizeBytes: 5}}}}), nil
		}},
		{"dirnode-negative-size", false, func(fx *fixture, rng *rand.Rand) (*blob, []*blob) {
			return dirBlob(&pb.Directory{Directories: []*pb.DirectoryNode{{Name: uniq(fx, rng), Digest: &pb.Digest{Hash: fx.pool.rootDir.hash, SizeBytes: lib.Pick(rng, []int64{-1, math.MinInt64})}}}}), nil
		}},
		{"dirnode-size-mismatch-and-huge", false, func(fx *fixture, rng *rand.Rand) (*blob, []*blob) {
			return dirBlob(&pb.Directory{Directories: []*pb.DirectoryNode{
				{Name: uniq(fx, rng), Digest: &pb.Digest{Hash: fx.pool.rootDir.hash, SizeBytes: fx.pool.rootDir.size + 1}},
				{Name: "huge", Digest: &pb.Digest{Hash: fx.pool.rootDir.hash, SizeBytes: math.MaxInt64}},
				{Name: "absent", Digest: &pb.Digest{Hash: lib.RandHash(rng), SizeBytes: 10}}}}), nil
		}},
		{"child-is-garbage", false, func(fx *fixture, rng *rand.Rand) (*blob, []*blob) {
			g := mkBlob(lib.GenBlob(rng, 1+rng.IntN(3000), "random", uniq(fx, rng)), "garbage")
			return dirBlob(&pb.Directory{Directories: []*pb.DirectoryNode{{Name: "g", Digest: g.digest()}, {Name: "tree", Digest: fx.pool.tree.digest()}, {Name: "large", Digest: fx.pool.medium[0].digest()}}}), []*blob{g}
		}},
		{"root-is-garbage", false, func(fx *fixture, rng *rand.Rand) (*blob, []*blob) {
			return mkBlob(lib.GenBlob(rng, 1+rng.IntN(3000), "random", uniq(fx, rng)), "garbage"), nil
		}},
		{"filenode-and-symlink-without-fields", false, func(fx *fixture, rng *rand.Rand) (*blob, []*blob) {
			return dirBlob(&pb.Directory{Files: []*pb.FileNode{{Name: uniq(fx, rng)}, {}, {Digest: &pb.Digest{}}}, Symlinks: []*pb.SymlinkNode{{}, {Name: "x"}},
				NodeProperties: &pb.NodeProperties{Properties: []*pb.NodeProperty{{}, nil}}}), nil
		}},
		{"deep-chain", false, func(fx *fixture, rng *rand.Rand) (*blob, []*blob) {
			var others []*blob
			cur := dirBlob(&pb.Directory{Files: []*pb.FileNode{{Name: uniq(fx, rng), Digest: fx.pool.small[1].digest()}}})
			others = append(others, cur)
			for i := 0; i < 120; i++ {
				cur = dirBlob(&pb.Directory{Directories: []*pb.DirectoryNode{{Name: "d", Digest: cur.digest()}}})
				others = append(others, cur)
			}
			return cur, others
		}},
		{"wide-same-child", false, func(fx *fixture, rng *rand.Rand) (*blob, []*blob) {
			c := fx.pool.children[0]
			d := &pb.Directory{}
			for i := 0; i < 400; i++ {
				d.Directories = append(d.Directories, &pb.DirectoryNode{Name: fmt.Sprintf("%s-%d", uniq(fx, rng), i), Digest: c.digest()})
			}
			return dirBlob(d), []*blob{c}
		}},
		{"diamond-depth-10", false, func(fx *fixture, rng *rand.Rand) (*blob, []*blob) {
			var others []*blob
			cur := dirBlob(&pb.Directory{Files: []*pb.FileNode{{Name: uniq(fx, rng), Digest: fx.pool.small[1].digest()}}})
			others = append(others, cur)
			for i := 0; i < 10; i++ {
				cur = dirBlob(&pb.Directory{Directories: []*pb.DirectoryNode{{Name: "l", Digest: cur.digest()}, {Name: "r", Digest: cur.digest()}}})
				others = append(others, cur)
			}
			return cur, others
		}},
		{"enormous-names", false, func(fx *fixture, rng *rand.Rand) (*blob, []*blob) {
			return dirBlob(&pb.Directory{Files: []*pb.FileNode{{Name: uniq(fx, rng) + strings.Repeat("n", 900000), Digest: fx.pool.small[1].digest()}}}), nil
		}},
	}
	for _, c := range dirCases {
		c := c
		register(variant{fam: "stored.directory", name: c.name, core: c.core, applies: always, build: func(fx *fixture, rng *rand.Rand) []*op {
			root, others := c.f(fx, rng)
			cancelEarly := rng.IntN(6) == 0
			return []*op{storeOp("stored.directory."+c.name, append(others, root)...),
				{ep: "grpc:CAS.GetTree", desc: map[string]any{"root": descDigest(root.digest()), "stored_blobs": len(others) + 1, "cancel_early": cancelEarly},
					run: func(ctx context.Context, fx *fixture) result {
						if cancelEarly {
							cctx, cancel := context.WithTimeout(ctx, 2*time.Millisecond)
							defer cancel()
							err := drainTree(fx.srv.CAS.GetTree(cctx, &pb.GetTreeRequest{RootDigest: root.digest()}))
							return result{status: "grpc:" + status.Code(err).String() + "(client-cancel)"}
						}
						return grpcRes(drainTree(fx.srv.CAS.GetTree(ctx, &pb.GetTreeRequest{RootDigest: root.digest()})))
					}}}
		}})
	}

	// Trees referenced by ActionResults, read through every AC read path.
	type treeCase struct {
		name string
		core bool
		f    func(fx *fixture, rng *rand.Rand) (treeDigest *pb.Digest, store []*blob)
	}
	tb := func(t *pb.Tree) (*pb.Digest, []*blob) {
		b := msgBlob(t, "tree")
		return b.digest(), []*blob{b}
	}
	treeCases := []treeCase{
		{"nil-root", false, func(fx *fixture, rng *rand.Rand) (*pb.Digest, []*blob) {
			return tb(&pb.Tree{Children: []*pb.Directory{{Files: []*pb.FileNode{{Name: uniq(fx, rng), Digest: fx.pool.small[1].digest()}}}}})
		}},
		{"root-file-without-digest", true, func(fx *fixture, rng *rand.Rand) (*pb.Digest, []*blob) {
			return tb(&pb.Tree{Root: &pb.Directory{Files: []*pb.FileNode{{Name: uniq(fx, rng)}}}})
		}},
		{"child-file-without-digest", true, func(fx *fixture, rng *rand.Rand) (*pb.Digest, []*blob) {
			return tb(&pb.Tree{Root: &pb.Directory{Files: []*pb.FileNode{{Name: "ok", Digest: fx.pool.small[1].digest()}}},
				Children: []*pb.Directory{{Files: []*pb.FileNode{{Name: "ok", Digest: fx.pool.small[2].digest()}, {Name: uniq(fx, rng)}}}}})
		}},
		{"child-dirnode-without-digest", true, func(fx *fixture, rng *rand.Rand) (*pb.Digest, []*blob) {
			return tb(&pb.Tree{Root: &pb.Directory{Directories: []*pb.DirectoryNode{{Name: uniq(fx, rng)}}},
				Children: []*pb.Directory{{Directories: []*pb.DirectoryNode{{Name: "x"}, {}}}}})
		}},
		{"file-zero-digest", false, func(fx *fixture, rng *rand.Rand) (*pb.Digest, []*blob) {
			return tb(&pb.Tree{Root: &pb.Directory{Files: []*pb.FileNode{{Name: uniq(fx, rng), Digest: &pb.Digest{}}}},
				Children: []*pb.Directory{{Files: []*pb.FileNode{{Name: "z", Digest: &pb.Digest{}}}}}})
		}},
		{"file-bad-hash", false, func(fx *fixture, rng *rand.Rand) (*pb.Digest, []*blob) {
			return tb(&pb.Tree{Root: &pb.Directory{Files: []*pb.FileNode{{Name: uniq(fx, rng), Digest: &pb.Digest{Hash: mutHash(rng, lib.Pick(rng, hashMuts)), SizeBytes: 3}}}},
				Children: []*pb.Directory{{Files: []*pb.FileNode{{Name: "z", Digest: &pb.Digest{Hash: mutHash(rng, lib.Pick(rng, hashMuts)), SizeBytes: 3}}}}}})
		}},
		{"file-negative-and-huge-size", false, func(fx *fixture, rng *rand.Rand) (*pb.Digest, []*blob) {
			return tb(&pb.Tree{Root: &pb.Directory{Files: []*pb.FileNode{{Name: uniq(fx, rng), Digest: &pb.Digest{Hash: fx.pool.small[1].hash, SizeBytes: -1}}}},
				Children: []*pb.Directory{{Files: []*pb.FileNode{{Name: "z", Digest: &pb.Digest{Hash: fx.pool.small[1].hash, SizeBytes: math.MaxInt64}}, {Name: "m", Digest: &pb.Digest{Hash: fx.pool.small[1].hash, SizeBytes: math.MinInt64}}}}}})
		}},
		{"enormous-children", false, func(fx *fixture, rng *rand.Rand) (*pb.Digest, []*blob) {
			t := &pb.Tree{Root: &pb.Directory{}}
			u := uniq(fx, rng)
			for i := 0; i < 300; i++ {
				d := &pb.Directory{}
				for j := 0; j < 100; j++ {
					d.Files = append(d.Files, &pb.FileNode{Name: fmt.Sprintf("%s-%d-%d", u, i, j), Digest: fx.pool.small[1+(i+j)%6].digest()})
				}
				t.Children = append(t.Children, d)
			}
			return tb(t)
		}},
		{"garbage-bytes", false, func(fx *fixture, rng *rand.Rand) (*pb.Digest, []*blob) {
			b := mkBlob(lib.GenBlob(rng, 1+rng.IntN(5000), "random", uniq(fx, rng)), "garbage")
			return b.digest(), []*blob{b}
		}},
		{"is-a-directory-message", false, func(fx *fixture, rng *rand.Rand) (*pb.Digest, []*blob) {
			return fx.pool.wideDir.digest(), []*blob{fx.pool.wideDir}
		}},
		{"is-a-large-blob", false, func(fx *fixture, rng *rand.Rand) (*pb.Digest, []*blob) {
			return fx.pool.large[0].digest(), []*blob{fx.pool.large[0]}
		}},
		{"absent", false, func(fx *fixture, rng *rand.Rand) (*pb.Digest, []*blob) {
			return &pb.Digest{Hash: lib.RandHash(rng), SizeBytes: 100}, nil
		}},
		{"size-mismatch", false, func(fx *fixture, rng *rand.Rand) (*pb.Digest, []*blob) {
			return &pb.Digest{Hash: fx.pool.tree.hash, SizeBytes: fx.pool.tree.size + int64(lib.Pick(rng, []int{-1, 1, 1000}))}, []*blob{fx.pool.tree}
		}},
		{"empty-digest", false, func(fx *fixture, rng *rand.Rand) (*pb.Digest, []*blob) {
			return &pb.Digest{Hash: lib.EmptySha256}, nil
		}},
	}
	for _, c := range treeCases {
		c := c
		register(variant{fam: "stored.tree", name: c.name, core: c.core, applies: always, build: func(fx *fixture, rng *rand.Rand) []*op {
			td, store := c.f(fx, rng)
			ar := &pb.ActionResult{OutputDirectories: []*pb.OutputDirectory{{Path: "out", TreeDigest: td}},
				OutputFiles: []*pb.OutputFile{{Path: "a", Digest: fx.pool.small[2].digest()}}, StdoutDigest: fx.pool.small[1].digest()}
			if rng.IntN(3) == 0 {
				ar.OutputFiles = append(ar.OutputFiles, &pb.OutputFile{Path: "big", Digest: fx.pool.large[1].digest()})
				ar.StderrDigest = fx.pool.medium[1].digest()
			}
			key := freshKey(fx, rng)
			gen := "stored.tree." + c.name
			ops := []*op{storeOp(gen, store...),
				{ep: "grpc:AC.UpdateActionResult", gen: gen + "/store-ac", setup: true, desc: map[string]any{"key": key.Hash, "tree_digest": descDigest(td)},
					run: func(ctx context.Context, fx *fixture) result {
						_, err := fx.srv.AC.UpdateActionResult(ctx, &pb.UpdateActionResultRequest{ActionDigest: key, ActionResult: ar})
						return grpcRes(err)
					}}}
			inl := rng.IntN(2) == 0
			nSetup := len(ops)
			defer func() {
				// the four read paths in seeded order (a crash on one path must not always hide the others)
				reads := ops[nSetup:]
				rng.Shuffle(len(reads), func(i, j int) { reads[i], reads[j] = reads[j], reads[i] })
			}()
			ops = append(ops, &op{ep: "grpc:AC.GetActionResult", desc: map[string]any{"key": key.Hash, "inline": inl, "tree": c.name},
				run: func(ctx context.Context, fx *fixture) result {
					_, err := fx.srv.AC.GetActionResult(ctx, &pb.GetActionResultRequest{ActionDigest: key, InlineStdout: inl, InlineStderr: inl, InlineOutputFiles: []string{"a", "big", "nope"}})
					return grpcRes(err)
				}})
			// HTTP read paths of the same entry (the gRPC and HTTP front ends share the "ac" keyspace when validation is on)
			for _, m := range []string{"GET", "HEAD", "GET-json"} {
				m := m
				ops = append(ops, &op{ep: "http:" + strings.TrimSuffix(m, "-json") + ":/ac", desc: map[string]any{"key": key.Hash, "tree": c.name, "variant": m},
					run: func(ctx context.Context, fx *fixture) result {
						q := httpReq{method: strings.TrimSuffix(m, "-json"), path: "/ac/" + key.Hash}
						if m == "GET-json" {
							q.hdr = map[string]string{"Accept": "application/json"}
						}
						return fx.httpDo(ctx, q)
					}})
			}
			return ops
		}})
	}

	// ActionResults that refer to odd blobs for stdout / output files, read with inlining.
	register(variant{fam: "stored.actionresult", name: "inline-odd-digests", applies: always, build: func(fx *fixture, rng *rand.Rand) []*op {
		ar := &pb.ActionResult{
			OutputFiles: []*pb.OutputFile{
				{Path: "big", Digest: fx.pool.large[0].digest()},
				{Path: "absent", Digest: &pb.Digest{Hash: lib.RandHash(rng), SizeBytes: 10}},
				{Path: "wrong-size", Digest: &pb.Digest{Hash: fx.pool.small[3].hash, SizeBytes: fx.pool.small[3].size + 7}},
				{Path: "empty", Digest: &pb.Digest{Hash: lib.EmptySha256}},
				{Path: "huge", Digest: &pb.Digest{Hash: fx.pool.small[3].hash, SizeBytes: math.MaxInt64}},
			},
			StdoutDigest: fx.pool.medium[0].digest(), StderrDigest: &pb.Digest{Hash: fx.pool.small[3].hash, SizeBytes: math.MaxInt64 - 5},
		}
		rng.Shuffle(len(ar.OutputFiles), func(i, j int) { ar.OutputFiles[i], ar.OutputFiles[j] = ar.OutputFiles[j], ar.OutputFiles[i] })
		ar.OutputFiles = ar.OutputFiles[:1+rng.IntN(len(ar.OutputFiles))]
		key := freshKey(fx, rng)
		return []*op{ensureOp(fx.pool.large[0], fx.pool.medium[0], fx.pool.small[3]),
			{ep: "grpc:AC.UpdateActionResult", gen: "stored.actionresult.inline-odd-digests/store-ac", setup: true, desc: map[string]any{"key": key.Hash},
				run: func(ctx context.Context, fx *fixture) result {
					_, err := fx.srv.AC.UpdateActionResult(ctx, &pb.UpdateActionResultRequest{ActionDigest: key, ActionResult: ar})
					return grpcRes(err)
				}},
			{ep: "grpc:AC.GetActionResult", desc: map[string]any{"key": key.Hash, "inline": "all"},
				run: func(ctx context.Context, fx *fixture) result {
					_, err := fx.srv.AC.GetActionResult(ctx, &pb.GetActionResultRequest{ActionDigest: key, InlineStdout: true, InlineStderr: true, InlineOutputFiles: []string{"big", "absent", "wrong-size", "empty", "huge"}})
					return grpcRes(err)
				}}}
	}})
}

// ---------------------------------------------------------------------------
// ByteStream.Write message sequences

type wmode int

const (
	wCloseAndRecv wmode = iota // CloseSend + wait for the answer
	wCancelAfter               // cancel the call after sending
	wHoldThenCancel
)

func writeSeq(ctx context.Context, fx *fixture, msgs []*bs.WriteRequest, mode wmode, pause time.Duration) result {
	cctx, cancel := context.WithCancel(ctx)
	defer cancel()
	st, err := fx.srv.BS.Write(cctx)
	if err != nil {
		return grpcRes(err)
	}
	sent := 0
	for _, m := range msgs {
		if err := st.Send(m); err != nil {
			break
		}
		sent++
	}
	switch mode {
	case wCancelAfter:
		cancel()
		_, err = st.CloseAndRecv()
		return result{status: "grpc:" + status.Code(err).String() + "(client-cancel)", note: fmt.Sprintf("sent %d", sent)}
	case wHoldThenCancel:
		time.Sleep(pause)
		cancel()
		_, err = st.CloseAndRecv()
		return result{status: "grpc:" + status.Code(err).String() + "(client-cancel)", note: fmt.Sprintf("sent %d", sent)}
	}
	_, err = st.CloseAndRecv()
	res := grpcRes(err)
	res.note = fmt.Sprintf("sent %d/%d; %s", sent, len(msgs), res.note)
	return res
}

func chunksOf(name string, data []byte, n int, finish bool) []*bs.WriteRequest {
	var msgs []*bs.WriteRequest
	off := int64(0)
	parts := lib.Chunk(data, n)
	for i, p := range parts {
		m := &bs.WriteRequest{WriteOffset: off, Data: p, FinishWrite: finish && i == len(parts)-1}
		if i == 0 {
			m.ResourceName = name
		}
		off += int64(len(p))
		msgs = append(msgs, m)
	}
	return msgs
}

func init() {
	type wcase struct {
		name string
		core bool
		mf   bool
		f    func(fx *fixture, rng *rand.Rand) ([]*bs.WriteRequest, wmode)
	}
	fresh := func(fx *fixture, rng *rand.Rand, n int) *blob {
		return mkBlob(lib.GenBlob(rng, n, lib.Pick(rng, lib.ContentKinds), fmt.Sprintf("wseq/%s/%d", fx.p.name, fx.seq)), "fresh")
	}
	up := func(b *blob) string { return lib.ResUpload("c14", b.hash, b.size) }
	upz := func(b *blob) string { return lib.ResUploadZstd("c14", b.hash, b.size) }
	cases := []wcase{
		{"no-message-closesend", true, true, func(*fixture, *rand.Rand) ([]*bs.WriteRequest, wmode) { return nil, wCloseAndRecv }},
		{"no-message-cancel", false, false, func(*fixture, *rand.Rand) ([]*bs.WriteRequest, wmode) { return nil, wCancelAfter }},
		{"no-message-hold-then-cancel", false, false, func(*fixture, *rand.Rand) ([]*bs.WriteRequest, wmode) { return nil, wHoldThenCancel }},
		{"only-finish-write", false, true, func(*fixture, *rand.Rand) ([]*bs.WriteRequest, wmode) {
			return []*bs.WriteRequest{{FinishWrite: true}}, wCloseAndRecv
		}},
		{"first-message-without-name", false, true, func(fx *fixture, rng *rand.Rand) ([]*bs.WriteRequest, wmode) {
			b := fresh(fx, rng, 100)
			return []*bs.WriteRequest{{Data: b.data}, {ResourceName: up(b), Data: b.data, FinishWrite: true}}, wCloseAndRecv
		}},
		{"name-change", false, true, func(fx *fixture, rng *rand.Rand) ([]*bs.WriteRequest, wmode) {
			b, c := fresh(fx, rng, 3000), fresh(fx, rng, 3000)
			m := chunksOf(up(b), b.data, 1000, true)
			m[1].ResourceName = up(c)
			return m, wCloseAndRecv
		}},
		{"empty-messages", false, false, func(fx *fixture, rng *rand.Rand) ([]*bs.WriteRequest, wmode) {
			b := fresh(fx, rng, 2000)
			m := []*bs.WriteRequest{{ResourceName: up(b)}}
			for i := 0; i < 30; i++ {
				m = append(m, &bs.WriteRequest{})
			}
			m = append(m, &bs.WriteRequest{Data: b.data, FinishWrite: true})
			return m, wCloseAndRecv
		}},
		{"data-after-finish", false, false, func(fx *fixture, rng *rand.Rand) ([]*bs.WriteRequest, wmode) {
			b := fresh(fx, rng, 2000)
			m := chunksOf(up(b), b.data, 500, true)
			for i := 0; i < 20; i++ {
				m = append(m, &bs.WriteRequest{Data: lib.GenBlob(rng, 8000, "random", "after"), WriteOffset: b.size})
			}
			return m, wCloseAndRecv
		}},
		{"nonzero-first-offset", false, false, func(fx *fixture, rng *rand.Rand) ([]*bs.WriteRequest, wmode) {
			b := fresh(fx, rng, 2000)
			m := chunksOf(up(b), b.data, 500, true)
			m[0].WriteOffset = lib.Pick(rng, []int64{1, -1, math.MaxInt64, math.MinInt64})
			return m, wCloseAndRecv
		}},
		{"offset-jumps", false, false, func(fx *fixture, rng *rand.Rand) ([]*bs.WriteRequest, wmode) {
			b := fresh(fx, rng, 4000)
			m := chunksOf(up(b), b.data, 500, true)
			for i := 1; i < len(m); i++ {
				m[i].WriteOffset = lib.Pick(rng, []int64{0, -1, math.MaxInt64, 7})
			}
			return m, wCloseAndRecv
		}},
		{"abort-at-random-position", false, false, func(fx *fixture, rng *rand.Rand) ([]*bs.WriteRequest, wmode) {
			b := fresh(fx, rng, lib.Pick(rng, []int{5000, 300000, 2 * lib.MiB}))
			name, data := up(b), b.data
			if rng.IntN(2) == 0 {
				name, data = upz(b), lib.ZstdEncodeKP(b.data, 1)
			}
			m := chunksOf(name, data, lib.Pick(rng, []int{100, 4096, 65536}), true)
			k := 1 + rng.IntN(len(m))
			return m[:k], lib.Pick(rng, []wmode{wCancelAfter, wHoldThenCancel})
		}},
		{"closesend-without-finish-partial", false, false, func(fx *fixture, rng *rand.Rand) ([]*bs.WriteRequest, wmode) {
			b := fresh(fx, rng, 50000)
			m := chunksOf(up(b), b.data, 4096, false)
			return m[:1+rng.IntN(len(m)-1)], wCloseAndRecv
		}},
		{"more-than-declared", false, false, func(fx *fixture, rng *rand.Rand) ([]*bs.WriteRequest, wmode) {
			b := fresh(fx, rng, 3000)
			data := append(append([]byte{}, b.data...), lib.GenBlob(rng, 200000, "random", "more")...)
			return chunksOf(up(b), data, 8192, true), wCloseAndRecv
		}},
		{"existing-blob-then-keep-sending", false, false, func(fx *fixture, rng *rand.Rand) ([]*bs.WriteRequest, wmode) {
			b := lib.Pick(rng, fx.pool.small[3:])
			data := lib.GenBlob(rng, 600000, "random", "keep")
			name := up(b)
			if rng.IntN(2) == 0 {
				name = upz(b)
			}
			return chunksOf(name, data, 16384, rng.IntN(2) == 0), wCloseAndRecv
		}},
		{"oversized-single-message", false, false, func(fx *fixture, rng *rand.Rand) ([]*bs.WriteRequest, wmode) {
			b := fresh(fx, rng, 5*lib.MiB)
			return chunksOf(up(b), b.data, 0, true), wCloseAndRecv
		}},
		{"wrong-hash-large", false, false, func(fx *fixture, rng *rand.Rand) ([]*bs.WriteRequest, wmode) {
			b := fresh(fx, rng, 2*lib.MiB+5)
			name := lib.ResUpload("c14", lib.RandHash(rng), b.size)
			return chunksOf(name, b.data, 100000, true), wCloseAndRecv
		}},
		{"declared-size-exceeds-cache", false, false, func(fx *fixture, rng *rand.Rand) ([]*bs.WriteRequest, wmode) {
			data := lib.GenBlob(rng, 300000, "random", "toolarge")
			name := lib.ResUpload("c14", lib.RandHash(rng), lib.Pick(rng, []int64{1 << 40, math.MaxInt64, 30 * lib.MiB}))
			return chunksOf(name, data, 16384, false), wCloseAndRecv
		}},
		// compressed streams failing at the first byte, mid-frame, after the declared size, with the client still sending
		{"zstd-garbage-from-first-byte", true, false, func(fx *fixture, rng *rand.Rand) ([]*bs.WriteRequest, wmode) {
			b := fresh(fx, rng, 20000)
			return chunksOf(upz(b), lib.GenBlob(rng, 16384, "random", "notzstd"), 8192, true), wCloseAndRecv
		}},
		{"zstd-garbage-client-keeps-sending", true, false, func(fx *fixture, rng *rand.Rand) ([]*bs.WriteRequest, wmode) {
			b := fresh(fx, rng, 20000)
			return chunksOf(upz(b), lib.GenBlob(rng, 30*65536, "text", "notzstd"), 65536, rng.IntN(2) == 0), wCloseAndRecv
		}},
		{"zstd-truncated-mid-frame", false, false, func(fx *fixture, rng *rand.Rand) ([]*bs.WriteRequest, wmode) {
			b := fresh(fx, rng, 300000)
			z := lib.ZstdEncodeKP(b.data, 1)
			z = z[:len(z)/2]
			return chunksOf(upz(b), z, 8192, rng.IntN(2) == 0), wCloseAndRecv
		}},
		{"zstd-corrupt-mid-frame-keep-sending", false, false, func(fx *fixture, rng *rand.Rand) ([]*bs.WriteRequest, wmode) {
			b := mkBlob(lib.GenBlob(rng, 900000, "random", fmt.Sprintf("zc/%s/%d", fx.p.name, fx.seq)), "fresh")
			z := append([]byte{}, lib.ZstdEncodeKP(b.data, 1)...)
			for i := len(z) / 3; i < len(z)/3+64; i++ {
				z[i] ^= 0xa5
			}
			return chunksOf(upz(b), z, 16384, true), wCloseAndRecv
		}},
		{"zstd-trailing-data-after-declared-size", false, false, func(fx *fixture, rng *rand.Rand) ([]*bs.WriteRequest, wmode) {
			b := fresh(fx, rng, 50000)
			z := append(append([]byte{}, lib.ZstdEncodeKP(b.data, 1)...), lib.ZstdEncodeKP(lib.GenBlob(rng, 300000, "random", "trail"), 1)...)
			return chunksOf(upz(b), z, 8192, true), wCloseAndRecv
		}},
		{"zstd-decodes-shorter-than-declared", false, false, func(fx *fixture, rng *rand.Rand) ([]*bs.WriteRequest, wmode) {
			b := fresh(fx, rng, 50000)
			return chunksOf(upz(b), lib.ZstdEncodeKP(b.data[:40000], 1), 8192, true), wCloseAndRecv
		}},
		{"zstd-valid-then-garbage", false, false, func(fx *fixture, rng *rand.Rand) ([]*bs.WriteRequest, wmode) {
			b := fresh(fx, rng, 50000)
			z := append(append([]byte{}, lib.ZstdEncodeKP(b.data, 1)...), lib.GenBlob(rng, 200000, "random", "g")...)
			return chunksOf(upz(b), z, 8192, true), wCloseAndRecv
		}},
		{"zstd-empty-stream", false, false, func(fx *fixture, rng *rand.Rand) ([]*bs.WriteRequest, wmode) {
			b := fresh(fx, rng, 500)
			return []*bs.WriteRequest{{ResourceName: upz(b), FinishWrite: true}}, wCloseAndRecv
		}},
		{"zstd-skippable-frames-only", false, false, func(fx *fixture, rng *rand.Rand) ([]*bs.WriteRequest, wmode) {
			b := fresh(fx, rng, 500)
			z := []byte{0x50, 0x2a, 0x4d, 0x18, 4, 0, 0, 0, 1, 2, 3, 4, 0x5f, 0x2a, 0x4d, 0x18, 0xff, 0xff, 0xff, 0xff, 1}
			return chunksOf(upz(b), z, 0, true), wCloseAndRecv
		}},
	}
	for _, c := range cases {
		c := c
		register(variant{fam: "wseq", name: c.name, core: c.core, weight: 2, applies: always, build: func(fx *fixture, rng *rand.Rand) []*op {
			msgs, mode := c.f(fx, rng)
			var shape []string
			total := 0
			for i, m := range msgs {
				total += len(m.Data)
				if i < 6 {
					shape = append(shape, fmt.Sprintf("{name:%q off:%d data:%d fin:%v}", clip(m.ResourceName, 50), m.WriteOffset, len(m.Data), m.FinishWrite))
				}
			}
			pause := time.Duration(20+rng.IntN(150)) * time.Millisecond
			return []*op{{ep: "grpc:ByteStream.Write", mustFail: c.mf, desc: map[string]any{"messages": len(msgs), "bytes": total, "first": shape, "mode": int(mode)},
				run: func(ctx context.Context, fx *fixture) result { return writeSeq(ctx, fx, msgs, mode, pause) }}}
		}})
	}
}

// ---------------------------------------------------------------------------
// Reads of large blobs where the client stops early

func init() {
	pick := func(fx *fixture, rng *rand.Rand) *blob {
		return lib.Pick(rng, []*blob{fx.pool.medium[0], fx.pool.medium[1], fx.pool.large[0], fx.pool.large[1]})
	}
	for _, zs := range []bool{false, true} {
		zs := zs
		for _, how := range []string{"cancel-after-first-message", "cancel-immediately", "stop-reading-then-cancel", "close-connection", "offset-then-cancel"} {
			how := how
			enc := "identity"
			if zs {
				enc = "zstd"
			}
			register(variant{fam: "abort.bsread." + enc, name: how, core: how == "cancel-after-first-message" || how == "close-connection", weight: 3, applies: always, build: func(fx *fixture, rng *rand.Rand) []*op {
				b := pick(fx, rng)
				name := lib.ResBlobs(b.hash, b.size)
				if zs {
					name = lib.ResZstd(b.hash, b.size)
				}
				off := int64(0)
				if how == "offset-then-cancel" {
					off = rng.Int64N(b.size / 2)
				}
				pause := time.Duration(50+rng.IntN(150)) * time.Millisecond
				return []*op{ensureOp(b), {ep: "grpc:ByteStream.Read", abortOp: true, desc: map[string]any{"name": name, "offset": off, "how": how, "blob_size": b.size},
					run: func(ctx context.Context, fx *fixture) result {
						cctx, cancel := context.WithCancel(ctx)
						defer cancel()
						client := fx.srv.BS
						var own *grpc.ClientConn
						if how == "close-connection" {
							var err error
							own, err = grpc.NewClient(fx.child.GRPCAddr, grpc.WithTransportCredentials(insecure.NewCredentials()))
							if err != nil {
								return result{status: "client:error", note: err.Error()}
							}
							defer func() { _ = own.Close() }()
							client = bs.NewByteStreamClient(own)
						}
						st, err := client.Read(cctx, &bs.ReadRequest{ResourceName: name, ReadOffset: off})
						if err != nil {
							return grpcRes(err)
						}
						got := 0
						if how != "cancel-immediately" {
							m, err := st.Recv()
							if err != nil {
								return grpcRes(err)
							}
							got = len(m.Data)
						}
						switch how {
						case "stop-reading-then-cancel":
							time.Sleep(pause)
						case "close-connection":
							_ = own.Close()
						}
						cancel()
						_, err = st.Recv()
						return result{status: "grpc:" + status.Code(err).String() + "(client-abort)", note: fmt.Sprintf("received %d bytes before aborting", got)}
					}}}
			}})
		}
	}
	register(
		variant{fam: "abort.unary", name: "batchread-large-cancel", weight: 2, applies: always, build: func(fx *fixture, rng *rand.Rand) []*op {
			zs := rng.IntN(2) == 0
			after := time.Duration(200+rng.IntN(3000)) * time.Microsecond
			return []*op{ensureOp(fx.pool.large[0], fx.pool.medium[0], fx.pool.medium[1]), {ep: "grpc:CAS.BatchReadBlobs", abortOp: true, desc: map[string]any{"zstd": zs, "cancel_after": after.String()},
				run: func(ctx context.Context, fx *fixture) result {
					cctx, cancel := context.WithTimeout(ctx, after)
					defer cancel()
					q := &pb.BatchReadBlobsRequest{Digests: []*pb.Digest{fx.pool.medium[0].digest(), fx.pool.large[0].digest(), fx.pool.medium[1].digest()}}
					if zs {
						q.AcceptableCompressors = []pb.Compressor_Value{pb.Compressor_ZSTD}
					}
					_, err := fx.srv.CAS.BatchReadBlobs(cctx, q)
					return result{status: "grpc:" + status.Code(err).String() + "(client-abort)"}
				}}}
		}},
		variant{fam: "abort.unary", name: "gettree-wide-cancel", weight: 2, applies: always, build: func(fx *fixture, rng *rand.Rand) []*op {
			pre := []*op{ensureOp(fx.pool.wideDir), ensureOp(fx.pool.children...)}
			pause := time.Duration(rng.IntN(4000)) * time.Microsecond
			return append(pre, &op{ep: "grpc:CAS.GetTree", abortOp: true, desc: map[string]any{"root": "wide directory (300 children)", "how": "cancel early / do not read"},
				run: func(ctx context.Context, fx *fixture) result {
					cctx, cancel := context.WithCancel(ctx)
					defer cancel()
					st, err := fx.srv.CAS.GetTree(cctx, &pb.GetTreeRequest{RootDigest: fx.pool.wideDir.digest()})
					if err != nil {
						return grpcRes(err)
					}
					time.Sleep(pause)
					cancel()
					_, err = st.Recv()
					if err == nil || err == io.EOF {
						return result{status: "grpc:OK(before-abort)"}
					}
					return result{status: "grpc:" + status.Code(err).String() + "(client-abort)"}
				}})
		}},
	)
}

var _ = proto.Marshal

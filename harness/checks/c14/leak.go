package c14

import (
	"context"
	"fmt"
	"os"
	"path/filepath"
	"sort"
	"strings"
	"time"

	"verif/harness/lib"
)

// M-leak on a child process: goroutine signatures (pprof), descriptors
// (/proc/<pid>/fd), /status ReservedSize and NumFiles vs the cache directory.

type baseline struct {
	sigs    map[string]int
	fd      int
	classes map[string]int
}

type leakObs struct {
	sigs       map[string]int
	sigDiff    map[string]int
	dump       string
	fd         int
	classes    map[string]int
	cacheFDs   []string
	conns      map[string]int // connection-table trouble (see socks.go)
	reserved   int64
	numFiles   int
	dirFiles   int
	extraFiles []string
	err        error
}

// fdClasses buckets descriptor targets; files below the cache dir are listed.
func (fx *fixture) fdClasses() (int, map[string]int, []string) {
	ts := fx.child.FDTargets()
	cl := map[string]int{}
	var cacheFiles []string
	for _, t := range ts {
		switch {
		case strings.HasPrefix(t, "socket:"):
			cl["socket"]++
		case strings.HasPrefix(t, "pipe:"):
			cl["pipe"]++
		case strings.HasPrefix(t, "anon_inode:"):
			cl["anon"]++
		case strings.HasPrefix(t, fx.dir+"/") || strings.HasPrefix(strings.TrimSuffix(t, " (deleted)"), fx.dir+"/"):
			cl["cache-file"]++
			cacheFiles = append(cacheFiles, strings.TrimPrefix(t, fx.dir+"/"))
		default:
			cl["other"]++
		}
	}
	sort.Strings(cacheFiles)
	return len(ts), cl, cacheFiles
}

func (fx *fixture) observe() leakObs {
	var o leakObs
	dump, err := fx.child.GoroutineDump()
	if err != nil {
		o.err = err
		return o
	}
	o.dump = dump
	o.sigs = lib.GoroutineSignatures(dump)
	o.sigDiff = lib.SigDiff(fx.base.sigs, o.sigs)
	sp, err := fx.statusPage()
	if err != nil {
		o.err = err
		return o
	}
	o.reserved, o.numFiles = sp.ReservedSize, sp.NumFiles
	files, err := lib.ListFiles(fx.dir)
	if err != nil {
		o.err = err
		return o
	}
	for f := range files {
		top := strings.SplitN(f, string(filepath.Separator), 2)[0]
		if top == "cas.v2" || top == "ac.v2" || top == "raw.v2" {
			o.dirFiles++
		}
	}
	if o.dirFiles > o.numFiles {
		// name a few for the report
		for f := range files {
			if len(o.extraFiles) < 8 {
				o.extraFiles = append(o.extraFiles, f)
			}
		}
		sort.Strings(o.extraFiles)
	}
	o.fd, o.classes, o.cacheFDs = fx.fdClasses()
	o.cacheFDs = fx.newCacheFDs(o.cacheFDs)
	if ct, err := fx.connTrouble(); err == nil {
		for k, v := range ct {
			if v > fx.leakedConns[k] { // reported before: stays until the process ends
				if o.conns == nil {
					o.conns = map[string]int{}
				}
				o.conns[k] = v
			}
		}
	}
	return o
}

// newCacheFDs filters out descriptors on cache files that were reported before
// (a leaked descriptor stays until the process ends; it must not be blamed on
// later requests).
func (fx *fixture) newCacheFDs(files []string) []string {
	seen := map[string]int{}
	var out []string
	for _, f := range files {
		seen[f]++
		if seen[f] > fx.leakedFDs[f] {
			out = append(out, f)
		}
	}
	return out
}

func (fx *fixture) rememberCacheFDs(files []string) {
	if fx.leakedFDs == nil {
		fx.leakedFDs = map[string]int{}
	}
	for _, f := range files {
		fx.leakedFDs[f]++
	}
}

// fdSlack is the number of descriptors above the warm-up baseline that bounded
// pools explain: two idle connections per outgoing host (origin, backend), or
// the highest plateau the N-vs-2N test has established so far.
func (fx *fixture) fdSlack() int {
	if fx.slack > 4 {
		return fx.slack
	}
	return 4
}

func (o leakObs) persistentTrouble() bool {
	return len(o.sigDiff) > 0 || o.reserved != 0 || o.dirFiles > o.numFiles || len(o.cacheFDs) > 0 || len(o.conns) > 0
}

// takeBaseline is called after the warm-up, with no request in flight.
func (fx *fixture) takeBaseline() bool {
	fx.slack = 0
	fx.baseConns = nil
	fx.srv.HTTPClient.CloseIdleConnections()
	var last leakObs
	// Two consecutive identical observations = settled.
	deadline := time.Now().Add(settleMax)
	sleep := 30 * time.Millisecond
	for {
		o := fx.observe()
		if o.err != nil {
			fx.r.Inconclusive(fx.p.name + ": baseline observation failed: " + o.err.Error())
			return false
		}
		if last.sigs != nil && lib.SigString(last.sigs) == lib.SigString(o.sigs) && last.fd == o.fd && o.reserved == 0 && len(o.cacheFDs) == 0 {
			fx.base = baseline{sigs: o.sigs, fd: o.fd, classes: o.classes}
			// connection counts of the settled state: the minimum of a few samples
			// (the /status exchange of the observation itself may still be closing)
			var min map[string]int
			for i := 0; i < 4; i++ {
				fx.baseConns = nil
				_, _ = fx.connTrouble()
				if min == nil {
					min = fx.baseConns
				} else {
					for k := range min {
						if fx.baseConns[k] < min[k] {
							min[k] = fx.baseConns[k]
						}
					}
				}
				time.Sleep(40 * time.Millisecond)
			}
			if min == nil {
				min = map[string]int{}
			}
			fx.baseConns = min
			return true
		}
		last = o
		if time.Now().After(deadline) {
			fx.base = baseline{sigs: o.sigs, fd: o.fd, classes: o.classes}
			fx.r.Count("baseline.unsettled")
			return true
		}
		time.Sleep(sleep)
		if sleep < time.Second {
			sleep *= 2
		}
	}
}

// settle polls with back-off until nothing is held any more or the generous
// settle period is over; what persists then is reported.
func (fx *fixture) settle(max time.Duration) leakObs {
	fx.srv.HTTPClient.CloseIdleConnections()
	deadline := time.Now().Add(max)
	hard := deadline.Add(120 * time.Second)
	sleep := 20 * time.Millisecond
	for {
		o := fx.observe()
		if o.err != nil || !o.persistentTrouble() {
			return o
		}
		if time.Now().After(deadline) {
			// A handler that is still working (not parked) belongs to a request
			// that has not ended yet: keep waiting for it, bounded.
			if len(liveSigs(o.sigDiff)) == 0 || time.Now().After(hard) {
				return o
			}
			fx.r.Count("slow-handler.waited-for")
		}
		time.Sleep(sleep)
		if sleep < 2*time.Second {
			sleep *= 2
		}
	}
}

func sigFunc(sig string) string {
	if i := strings.Index(sig, " ["); i > 0 {
		return sig[:i]
	}
	return sig
}

// stacksFor extracts the goroutine blocks of a dump that produced a signature function.
func stacksFor(dump, fn string, max int) []string {
	var out []string
	for _, block := range strings.Split(dump, "\n\n") {
		if strings.Contains(block, "github.com/buchgr/bazel-remote/v2/"+fn+"(") {
			if len(block) > 1500 {
				block = block[:1500]
			}
			out = append(out, block)
			if len(out) >= max {
				break
			}
		}
	}
	return out
}

func (fx *fixture) windowSummary() map[string]int {
	m := map[string]int{}
	for k, v := range fx.windowKinds {
		m[k] = v
	}
	return m
}

// leakCheck is oracle (4): run with no client call outstanding.
func (fx *fixture) leakCheck(when string) {
	if fx.dead || fx.child.Exited() {
		return
	}
	fx.origin.ReleaseStalls() // nothing of ours is outstanding any more
	if t := fx.be(); t != nil {
		t.reset()
	}
	if devTimings {
		defer func(t time.Time) { fx.r.CountN("ms.leakcheck", time.Since(t).Milliseconds()) }(time.Now())
	}
	o := fx.settle(settleMax)
	if o.err != nil {
		if fx.child.Exited() {
			fx.livenessCheck("leak check")
			return
		}
		if !fx.livenessCheck("leak check") {
			return
		}
		fx.r.Inconclusive(fx.p.name + ": leak observation failed on a live server: " + o.err.Error())
		return
	}
	fx.r.Count("leakcheck.runs")
	fx.finalSigs = o.sigs
	clean := true
	live := liveSigs(o.sigDiff)
	if len(live) > 0 {
		// still working after the settle period plus two minutes: slow machine or
		// endless loop - the persistent-state rule (parked goroutine) does not decide
		fx.r.Inconclusive(fmt.Sprintf("%s: handler goroutine(s) still working, not parked, long after every client call ended: %v", fx.p.name, live))
		for _, sig := range live {
			delete(o.sigDiff, sig)
		}
		fx.rememberCacheFDs(o.cacheFDs)
		o.cacheFDs = nil
	}
	for sig, n := range o.sigDiff {
		clean = false
		fn := sigFunc(sig)
		fx.violation("C14:leak:goroutine:"+fn,
			fmt.Sprintf("%d goroutine(s) %q not in the warm-up baseline are still present %v after every client call ended", n, sig, settleMax),
			map[string]any{"when": when, "signature": sig, "count": n, "stacks": stacksFor(o.dump, fn, 2), "requests_since_last_clean_check": fx.windowSummary()})
	}
	if o.reserved != 0 {
		clean = false
		fx.violation("C14:leak:reserved-size", fmt.Sprintf("/status ReservedSize = %d with no request in flight", o.reserved),
			map[string]any{"when": when, "requests_since_last_clean_check": fx.windowSummary()})
	}
	if o.dirFiles > o.numFiles {
		clean = false
		fx.violation("C14:leak:files-beyond-numfiles", fmt.Sprintf("%d files in the cache directory but /status NumFiles = %d with no request in flight (temporary files left behind)", o.dirFiles, o.numFiles),
			map[string]any{"when": when, "some_files": o.extraFiles, "requests_since_last_clean_check": fx.windowSummary()})
	}
	if len(o.cacheFDs) > 0 {
		clean = false
		fx.violation("C14:leak:fd:cache-file", fmt.Sprintf("the server still holds %d open descriptor(s) on cache files with no request in flight", len(o.cacheFDs)),
			map[string]any{"when": when, "open_cache_files": head(o.cacheFDs, 8), "fdinfo": fx.fdInfo(), "requests_since_last_clean_check": fx.windowSummary()})
		fx.rememberCacheFDs(o.cacheFDs)
	}
	for k, v := range o.conns {
		clean = false
		what := fmt.Sprintf("%d connection(s) of kind %q are still held by the server with no request in flight", v, k)
		switch {
		case k == "close-wait":
			what = fmt.Sprintf("%d socket(s) in CLOSE_WAIT: the peer has closed, the server still holds its end although no request is in flight", v)
		case strings.HasPrefix(k, "outgoing:"):
			what = fmt.Sprintf("%d established connections to the %s although no request is in flight (an idle pool keeps at most two): requests that ended still hold their outgoing connection", v, strings.TrimPrefix(k, "outgoing:"))
		}
		var table []string
		if socks, err := childSockets(fx.child.Pid()); err == nil {
			for _, s := range socks {
				if s.state != "LISTEN" {
					table = append(table, fmt.Sprintf("%d<->%d %s", s.localPort, s.remotePort, s.state))
				}
			}
		}
		fx.violation("C14:leak:conn:"+k, what, map[string]any{"when": when, "count": v, "server_sockets": table,
			"ports": fmt.Sprintf("http=%s grpc=%s", fx.child.HTTPAddr, fx.child.GRPCAddr), "requests_since_last_clean_check": fx.windowSummary()})
		if fx.leakedConns == nil {
			fx.leakedConns = map[string]int{}
		}
		fx.leakedConns[k] = v
	}
	point := map[string]any{"requests": fx.fuzzOps, "fd": o.fd, "baseline_fd": fx.base.fd, "classes": o.classes}
	// Descriptor growth: N vs 2N. More descriptors than the baseline after N
	// requests => send the same N requests again; growing again = leak,
	// unchanged = bounded pool (idle backend connections, lazily opened files).
	// Idle pooled connections (net/http keeps up to two per backend/origin host)
	// come and go: only an excess beyond that slack is examined, and only growth
	// by at least two descriptors under the repeated requests counts. Descriptors
	// on cache files have their own oracle above.
	nonCache := func(x leakObs) int { return x.fd - x.classes["cache-file"] }
	if nonCache(o) > fx.base.fd+fx.fdSlack() && len(fx.window) > 0 {
		excess1 := nonCache(o) - fx.base.fd
		fx.r.Count("fdgrowth.reruns")
		for _, w := range fx.window {
			if fx.dead || fx.child.Exited() {
				break
			}
			w2 := *w
			w2.gen = w.gen // same family; journalled again
			w2.after = nil
			w2.setup = true
			fx.journalWrite(&w2)
			ctx, cancel := context.WithTimeout(context.Background(), opTimeout)
			_ = w2.run(ctx, fx)
			cancel()
		}
		if fx.dead || fx.child.Exited() {
			fx.livenessCheck("fd growth re-run")
			return
		}
		fx.origin.ReleaseStalls()
		o2 := fx.settle(settleMax)
		if o2.err == nil {
			excess2 := nonCache(o2) - fx.base.fd
			point["fd_after_2N"] = o2.fd
			point["classes_after_2N"] = o2.classes
			grown := map[string]int{}
			for k, v := range o2.classes {
				if v > o.classes[k] && k != "cache-file" {
					grown[k] = v - o.classes[k]
				}
			}
			if excess2-excess1 >= 2 {
				clean = false
				cls := "mixed"
				if len(grown) == 1 {
					for k := range grown {
						cls = k
					}
				}
				fx.violation("C14:leak:fd:growth:"+cls,
					fmt.Sprintf("open descriptors grow with the number of requests: baseline %d, after N requests %d, after the same N requests again %d (settled, no request in flight)", fx.base.fd, o.fd, o2.fd),
					map[string]any{"when": when, "baseline_classes": fx.base.classes, "classes_N": o.classes, "classes_2N": o2.classes, "grown": grown, "requests_in_window": fx.windowSummary()})
				// continue from here: later checks compare with the current level
				fx.base.fd, fx.base.classes = nonCache(o2), o2.classes
			} else {
				fx.r.Count("fdgrowth.plateau")
				if excess2 > fx.slack {
					fx.slack = excess2 // bounded: part of the steady state
				}
			}
		}
	}
	fx.fdSeries = append(fx.fdSeries, point)
	if clean {
		fx.r.Count("leakcheck.clean")
	} else {
		// Do not report the same persistent goroutines again at the next check.
		for k, v := range o.sigs {
			if v > fx.base.sigs[k] {
				fx.base.sigs[k] = v
			}
		}
	}
	fx.window = nil
	fx.windowKinds = map[string]int{}
}

// parked wait reasons: a goroutine in one of these is waiting for somebody
// else; anything else (runnable, running, syscall, GC assist ...) is a handler
// that is still working, i.e. a request that has not ended yet.
var parkedStates = []string{"chan receive", "chan send", "select", "IO wait", "semacquire", "sync.Mutex.Lock", "sync.RWMutex", "sync.Cond.Wait", "sync.WaitGroup.Wait", "sleep"}

// liveSigs returns the signatures (not in the baseline) of goroutines that are
// not parked.
func liveSigs(diff map[string]int) []string {
	var out []string
	for sig := range diff {
		st := ""
		if i := strings.LastIndex(sig, " ["); i >= 0 {
			st = strings.TrimSuffix(sig[i+2:], "]")
		}
		parked := false
		for _, p := range parkedStates {
			if strings.HasPrefix(st, p) {
				parked = true
			}
		}
		if !parked {
			out = append(out, sig)
		}
	}
	sort.Strings(out)
	return out
}

// waitCacheFDsGone polls until the child holds no unreported descriptor on
// cache files. After the generous wait it looks at the goroutines: while a
// handler of an earlier request is still working (not parked) its request has
// not ended, so the wait goes on (bounded); such a slow but live handler is
// never a violation.
func (fx *fixture) waitCacheFDsGone(wait time.Duration) (files []string, diffSigs string, stacks []string, stillWorking bool) {
	poll := func(deadline time.Time) bool {
		sleep := 2 * time.Millisecond
		for {
			_, _, files = fx.fdClasses()
			files = fx.newCacheFDs(files)
			if len(files) == 0 {
				return true
			}
			if time.Now().After(deadline) || fx.child.Exited() {
				return false
			}
			time.Sleep(sleep)
			if sleep < 500*time.Millisecond {
				sleep *= 2
			}
		}
	}
	if poll(time.Now().Add(wait)) {
		return nil, "", nil, false
	}
	hard := time.Now().Add(120 * time.Second)
	for !fx.child.Exited() {
		dump, err := fx.child.GoroutineDump()
		if err != nil {
			return files, "", nil, false
		}
		d := lib.SigDiff(fx.base.sigs, lib.GoroutineSignatures(dump))
		diffSigs = lib.SigString(d)
		stacks = nil
		for sig := range d {
			stacks = append(stacks, stacksFor(dump, sigFunc(sig), 1)...)
		}
		if len(liveSigs(d)) == 0 {
			return files, diffSigs, stacks, false // nothing is working on it any more: held for nobody
		}
		if time.Now().After(hard) {
			return files, diffSigs, stacks, true
		}
		fx.r.Count("slow-handler.waited-for")
		if poll(time.Now().Add(5 * time.Second)) {
			return nil, "", nil, false
		}
	}
	return files, diffSigs, stacks, false
}

// cacheFDProbe runs right after a client aborted the transfer of a large blob:
// once the server has noticed the abort no descriptor may point into the cache
// directory (the child is otherwise idle, so nothing else opens cache files).
func (fx *fixture) cacheFDProbe(o *op) {
	wait := 10 * time.Second
	if len(fx.leakedFDs) >= 3 {
		wait = 2 * time.Second // established three times with the generous period on this child; keep exploring
	}
	files, sigs, stacks, working := fx.waitCacheFDsGone(wait)
	if len(files) == 0 {
		fx.r.Count("abort-probe.clean")
		return
	}
	if fx.child.Exited() {
		return
	}
	fx.rememberCacheFDs(files)
	if working {
		fx.r.Inconclusive(fmt.Sprintf("%s: a handler is still working (%s) two minutes after its client left; slow machine or endless loop, cannot tell", fx.p.name, sigs))
		return
	}
	fx.violation("C14:leak:fd:cache-file:"+o.ep+":"+o.keyClass(),
		fmt.Sprintf("%d descriptor(s) on cache files are still open %v after the client aborted the transfer, no other request is in flight and no handler is working", len(files), wait),
		map[string]any{"open_cache_files": head(files, 8), "fdinfo": fx.fdInfo(), "goroutines_not_in_baseline": sigs, "stacks": stacks})
}

// cacheFDsBefore runs before a request whose descriptors will be probed: what
// is open on cache files now (and stays open although nothing is in flight and
// no handler is working) was left behind by an earlier request of the window.
func (fx *fixture) cacheFDsBefore() {
	files, sigs, stacks, working := fx.waitCacheFDsGone(8 * time.Second) // generous: background uploads to a proxy backend may still read their file
	if len(files) == 0 || fx.child.Exited() {
		return
	}
	fx.rememberCacheFDs(files)
	if working {
		fx.r.Inconclusive(fmt.Sprintf("%s: a handler is still working (%s) two minutes after its client got or gave up its answer; slow machine or endless loop, cannot tell", fx.p.name, sigs))
		return
	}
	fx.violation("C14:leak:fd:cache-file", fmt.Sprintf("the server holds %d open descriptor(s) on cache files with no request in flight and no handler working (left behind by an earlier request of the journal)", len(files)),
		map[string]any{"when": "before the next probed request", "goroutines_not_in_baseline": sigs, "stacks": stacks, "open_cache_files": head(files, 8), "fdinfo": fx.fdInfo(),
			"requests_since_last_clean_check": fx.windowSummary()})
}

// fdInfo describes the child's descriptors on cache files (open flags and
// position tell a forgotten reader from a forgotten writer).
func (fx *fixture) fdInfo() []string {
	dir := fmt.Sprintf("/proc/%d/fd", fx.child.Pid())
	es, _ := os.ReadDir(dir)
	var out []string
	for _, e := range es {
		t, err := os.Readlink(filepath.Join(dir, e.Name()))
		if err != nil || !strings.HasPrefix(t, fx.dir+"/") {
			continue
		}
		info, _ := os.ReadFile(fmt.Sprintf("/proc/%d/fdinfo/%s", fx.child.Pid(), e.Name()))
		fs := strings.Fields(string(info))
		if len(fs) > 4 {
			fs = fs[:4] // pos: N flags: 0NNN
		}
		out = append(out, fmt.Sprintf("fd %s -> %s (%s)", e.Name(), strings.TrimPrefix(t, fx.dir+"/"), strings.Join(fs, " ")))
	}
	return out
}

func head(s []string, n int) []string {
	if len(s) > n {
		return s[:n]
	}
	return s
}

package c12

import (
	"fmt"
	"math/rand/v2"
	"strings"
	"time"

	"verif/harness/lib"

	"github.com/buchgr/bazel-remote/v2/cache"
	"google.golang.org/grpc/codes"
)

// Reads in which the cache gives up on a backend object part-way: the object
// turns out to be too large once its size is known, its size metadata
// contradicts the request, its header is unusable, the stream breaks off, or
// the client goes away in the middle of the body. Whatever the reason, the
// response the backend had started must be released.
//
// Each class is run as two batches of k requests per half with a measurement
// of the backend's open connections / response streams / RPCs before, between
// and after ("N vs 2N" per class, which names the class in the finding); the
// same batches are part of both halves of the run, so that the process-wide
// growth test (descriptors, goroutines, connections per rig) covers these
// outcomes too.

type abandonClass struct {
	name    string
	kind    cache.EntryKind
	applies func(rg *rig) bool
	ops     func(rg *rig) []*op
	build   func(rg *rig, rng *rand.Rand, tag string) (*object, *plan)
	stall   string // != "": run through stallCase with the backend stalling there and the client cancelling
}

// frontOps: operations usable for the growth measurement on this rig. On the
// S3 rigs the count of open connections is blurred by idle connections the
// harness cannot close, so only operations whose effect persists (disk.Cache
// API with a never-cancelled context) are used there - a class that leaves a
// response open then grows by exactly one connection per request.
func (rg *rig) frontOps(ops ...*op) []*op {
	var out []*op
	for _, p := range ops {
		if rg.family == "s3" && !strings.HasPrefix(p.name, "api-") {
			continue
		}
		out = append(out, p)
	}
	return out
}

func (rg *rig) v2rig() bool { return rg.storage == "zstd" }

// abandonSize: an object size below max_proxy_blob_size; every other one is
// larger than what socket buffers and flow-control windows absorb, so that
// the backend is still in the middle of sending when the cache gives up.
func (rg *rig) abandonSize(rng *rand.Rand) int {
	size := []int{4096, 70_000, 300 * lib.KiB, 300*lib.KiB + 1}[rng.IntN(4)]
	if rg.maxProxy > 0 && int64(size) > rg.maxProxy-100 {
		size = int(rg.maxProxy) - 100 - rng.IntN(1000)
	}
	return size
}

func (rg *rig) freshCAS(rng *rand.Rand, size int, tag string) *object {
	return rg.fresh(func(bump int) *object { return newCASCheap(rng, rg.storage, size+bump, tag) })
}

// newCASCheap: like newCAS, restricted to the encodings that cost little for
// large incompressible content (how the object was compressed plays no part
// in a read that is given up).
func newCASCheap(rng *rand.Rand, storage string, size int, tag string) *object {
	kind := lib.Pick(rng, lib.ContentKinds)
	if size >= 64*lib.KiB {
		// large objects are there to be larger than buffers and windows on the
		// way: their stored form must be large too
		kind = "random"
	}
	content := lib.GenBlob(rng, size, kind, tag)
	o := &object{kind: cache.CAS, hash: lib.Sha256Hex(content), content: content, stored: content, layout: "raw"}
	if storage != "zstd" {
		return o
	}
	o.v2 = true
	switch rng.IntN(3) {
	case 0:
		o.layout = "identity"
		o.stored = lib.CasWrite(content, lib.MiB, 0, nil)
	case 1:
		o.layout = "kp1-1M"
		o.stored = lib.CasWrite(content, lib.MiB, 1, func(c []byte) []byte { return lib.ZstdEncodeKP(c, 1) })
	default:
		o.layout = "kp1-chunk65536"
		o.stored = lib.CasWrite(content, 65536, 1, func(c []byte) []byte { return lib.ZstdEncodeKP(c, 1) })
	}
	h, err := lib.CasParseHeader(o.stored)
	if err != nil {
		panic("harness codec produced an invalid cas.v2 file: " + err.Error())
	}
	o.offsets = h.Offsets
	o.hdrSize = int(h.Offsets[0])
	return o
}

func abandonClasses() []*abandonClass {
	all := func(*rig) bool { return true }
	limited := func(rg *rig) bool { return rg.maxProxy > 0 }
	v2only := func(rg *rig) bool { return rg.v2rig() }
	unknownCAS := func(rg *rig) []*op { return rg.frontOps(opHTTPGetCAS, opAPIGetUnknown, opHTTPGetCASZstd) }
	knownCAS := func(rg *rig) []*op {
		return rg.frontOps(opBSRead, opAPIGet, opBatchRead, opBSReadZstd, opAPIGetZstd, opBatchReadZstd)
	}
	anyCAS := func(rg *rig) []*op {
		return rg.frontOps(opHTTPGetCAS, opBSRead, opAPIGetUnknown, opAPIGet, opHTTPGetCASZstd, opBatchRead, opBSReadZstd, opAPIGetZstd)
	}
	return []*abandonClass{
		{name: "oversize-size-unknown", kind: cache.CAS, applies: limited, ops: unknownCAS,
			build: func(rg *rig, rng *rand.Rand, tag string) (*object, *plan) {
				size := int(rg.maxProxy) + 1
				if rng.IntN(3) > 0 {
					size += rng.IntN(3000)
				}
				o := rg.freshCAS(rng, size, tag)
				return o, base("size-metadata", "oversize", "size-unknown", "get", "healthy").exp(expNoHit, expNoHit)
			}},
		{name: "oversize-ac", kind: cache.AC, applies: limited,
			ops: func(rg *rig) []*op { return rg.frontOps(opHTTPGetAC, opGRPCGetAC, opAPIGetAC) },
			build: func(rg *rig, rng *rand.Rand, tag string) (*object, *plan) {
				o := rg.fresh(func(int) *object { return newAR(rng, cache.AC, int(rg.maxProxy)+40+rng.IntN(3000), tag) })
				return o, base("size-metadata", "oversize", "action-result", "get", "healthy").exp(expNoHit, expNoHit)
			}},
		{name: "oversize-raw", kind: cache.RAW, applies: limited,
			ops: func(rg *rig) []*op { return rg.frontOps(opHTTPGetRAW, opAPIGetRAW) },
			build: func(rg *rig, rng *rand.Rand, tag string) (*object, *plan) {
				o := rg.fresh(func(bump int) *object {
					if rg.family == "grpc" {
						return newAR(rng, cache.RAW, int(rg.maxProxy)+40+rng.IntN(3000), tag)
					}
					return newRaw(rng, int(rg.maxProxy)+1+rng.IntN(3000)+bump, tag)
				})
				return o, base("size-metadata", "oversize", "raw-entry", "get", "healthy").exp(expNoHit, expNoHit)
			}},
		{name: "size-mismatch-size-known", kind: cache.CAS, applies: all, ops: knownCAS,
			build: func(rg *rig, rng *rand.Rand, tag string) (*object, *plan) {
				o := rg.freshCAS(rng, rg.abandonSize(rng), tag)
				delta := int64(1)
				if rng.IntN(2) == 0 && o.size() > 1 {
					delta = -1
				}
				switch {
				case rg.family == "fake":
					// a backend interface that states sizes itself
					p := base("size-metadata", "other-size", "stated-size", "get", "fetch").exp(expAny, expAny)
					p.size = o.size() + delta
					return o, p
				case o.v2:
					// the object's own header states another logical size
					p := base("header", "other-size", "logical-size-field", "get", "deliver").exp(expAny, expLies)
					p.corrupt = func(b []byte) []byte { put64(b, 8, uint64(o.size()+delta)); return b }
					return o, p
				default:
					// a complete, self-consistent object of another length under the key
					p := base("size-metadata", "other-size", "object-of-another-length", "get", "deliver").exp(expAny, expLies)
					p.extra = 1 + rng.IntN(100)
					return o, p
				}
			}},
		// the header is garbled in a field the proxy itself does not look at: the
		// object is fetched and refused by the validation of the fetched file
		{name: "bad-header", kind: cache.CAS, applies: v2only, ops: anyCAS,
			build: func(rg *rig, rng *rand.Rand, tag string) (*object, *plan) {
				return rg.corruptHeaderObject(rng, tag, "magic", "magic-zstd-frame", "compression-type-2", "frame-size+1")
			}},
		// the header states a logical size that no blob has
		{name: "header-nonpositive-size", kind: cache.CAS, applies: v2only, ops: anyCAS,
			build: func(rg *rig, rng *rand.Rand, tag string) (*object, *plan) {
				return rg.corruptHeaderObject(rng, tag, "logical-size-0", "logical-size-negative")
			}},
		{name: "short-header", kind: cache.CAS, applies: v2only, ops: anyCAS,
			build: func(rg *rig, rng *rand.Rand, tag string) (*object, *plan) {
				o := rg.freshCAS(rng, rg.abandonSize(rng), tag)
				p := base("header", "short-clean", "hdr0-16/cl-exact", "get", "deliver")
				p.cut = rng.IntN(16)
				return o, consistentAlteration(p, o, true, rg.family == "grpc" || rg.family == "fake")
			}},
		{name: "stream-breaks-mid-body", kind: cache.CAS, applies: all, ops: anyCAS,
			build: func(rg *rig, rng *rand.Rand, tag string) (*object, *plan) {
				o := rg.freshCAS(rng, rg.abandonSize(rng), tag)
				p := base("body", "short-error", "mid/cl-full", "get", "deliver").exp(expAny, expAny)
				p.cut, p.framing, p.end, p.code = cutPos(o, "mid", rng), "cl-full", "abort", codes.Unavailable
				return o, p
			}},
		{name: "client-cancel-mid-body", kind: cache.CAS, applies: all, stall: "body",
			ops: func(rg *rig) []*op { return []*op{opBSRead, opHTTPGetCAS, opBSReadZstd} }},
		{name: "client-cancel-mid-header", kind: cache.CAS, applies: v2only, stall: "header",
			ops: func(rg *rig) []*op { return []*op{opHTTPGetCAS, opBSRead} }},
	}
}

func (rg *rig) corruptHeaderObject(rng *rand.Rand, tag string, names ...string) (*object, *plan) {
	o := rg.freshCAS(rng, rg.abandonSize(rng), tag)
	want := names[rng.IntN(len(names))]
	for _, c := range corruptions {
		if c.name == want {
			p := base("header", "corrupt", c.name, "get", "deliver").exp(expAny, expAny)
			p.corrupt = func(b []byte) []byte { return c.apply(o, b) }
			return o, p
		}
	}
	panic("unknown header corruption " + want)
}

// settleOpen: the backend's count of open connections / response streams /
// running RPCs once it has stopped changing (floor < 0) or has come down to
// floor; when it stays above floor for the whole settle period the last count
// is the observation (persistent state).
func (rg *rig) settleOpen(floor int) int {
	if floor < 0 || rg.family == "s3" {
		// S3: the client keeps idle connections the harness cannot close, so
		// the count need not come back down to where it was
		prev := -1
		for i := 0; i < 60; i++ {
			rg.be.closeIdle()
			c := rg.be.openConns()
			if c == prev {
				return c
			}
			prev = c
			time.Sleep(5 * time.Millisecond)
		}
		return prev
	}
	return rg.pollOpen(floor, rg.abandonSettle())
}

// Settle periods of the per-class measurement: per batch, and once more
// (twice as long) before a finding is raised. Backends whose count is a
// counter inside this process (response streams of the injected Azure
// transport, readers of the cache.Proxy fake) have nothing in flight between
// two processes' kernels to wait for; the gRPC backend counts RPCs that have
// started and not returned, over loopback connections of this process.
func (rg *rig) abandonSettle() time.Duration {
	switch rg.family {
	case "azure", "fake", "grpc":
		return 1500 * time.Millisecond
	}
	return 4 * time.Second
}

func (rg *rig) pollOpen(floor int, max time.Duration) int {
	deadline := time.Now().Add(max)
	sleep := 200 * time.Microsecond
	for {
		rg.be.closeIdle()
		n := rg.be.openConns()
		if n <= floor || time.Now().After(deadline) {
			return n
		}
		time.Sleep(sleep)
		if sleep < 50*time.Millisecond {
			sleep *= 2
		}
	}
}

// abandonCase runs one request of the class; reports whether the backend was
// asked for the object at all.
func (rg *rig) abandonCase(cl *abandonClass, p *op, id string, rng *rand.Rand) bool {
	r := rg.w.r
	if cl.stall != "" {
		known := "size-unknown"
		if p.known {
			known = "size-known"
		}
		reached := rg.stallCase(stallSpec{op: p, kind: cl.kind, where: cl.stall}, id, rng)
		r.Count(fmt.Sprintf("abandon.%s/%s/%s.reached-backend=%v", rg.name, cl.name, known, reached))
		return reached
	}
	o, pl := cl.build(rg, rng, id)
	expect := pl.expect(p.known)
	if expect == expLies || pl.corrupt != nil {
		rg.noteLie(o.hash)
	}
	det := &readDetail{Rig: rg.name, Case: id, Op: p.name, Plan: pl.label, Object: o.String(), Expect: expect}
	rg.be.put(o)
	rg.be.setPlan(o, pl)
	defer rg.be.forget(o.hash)
	rg.noteCase("abandon/" + cl.name + "/" + p.name)
	n0 := rg.be.reqCount(o.hash)
	out := rg.runOp(p, rg.front, o)
	n1 := rg.be.reqCount(o.hash)
	det.History = append(det.History, fmt.Sprintf("backend plan %s; %s -> %s (backend requests for the key: %d)", pl.label, p.name, out, n1-n0))
	r.Eval()
	known := "size-unknown"
	if p.known {
		known = "size-known"
	}
	r.Count(fmt.Sprintf("abandon.%s/%s/%s.%s", rg.name, cl.name, known, out.class))
	r.Count(fmt.Sprintf("matrix.%s|%s|%s|%s.%s", pl.stage, pl.fault, p.name, rg.family, out.class))
	if n1 > n0 {
		r.Distinct(rg.name, "abandon", cl.name, p.name, lib.SizeClassName(len(o.content)))
	}
	rg.judge(p, o, pl.fault, "abandoned-read", out, expect, det)
	rg.checkPanics(p.name, "abandon/"+cl.name, det)
	return n1 > n0
}

// abandonBatches: before / after k requests / after 2k requests of one class.
func (rg *rig) abandonBatches(cl *abandonClass, k, half int, rng *rand.Rand) {
	r := rg.w.r
	ops := cl.ops(rg)
	if len(ops) == 0 {
		return
	}
	var counts [3]int
	t0 := time.Now()
	counts[0] = rg.settleOpen(-1)
	reached := 0
	for b := 1; b <= 2; b++ {
		for i := 0; i < k; i++ {
			p := ops[(i+b+half)%len(ops)]
			if rg.abandonCase(cl, p, fmt.Sprintf("%s-h%d-ab-%s-%d-%d", rg.name, half, cl.name, b, i), rng) {
				reached++
			}
			if r.Violations() > 60 {
				return
			}
		}
		counts[b] = rg.settleOpen(counts[b-1])
	}
	if reached == 0 {
		r.Inconclusive(fmt.Sprintf("%s: no request of abandonment class %s reached the backend", rg.name, cl.name))
		return
	}
	defer func() {
		rg.w.noteOpen(fmt.Sprintf("%s/h%d/%s", rg.name, half, cl.name), fmt.Sprintf("%v %.1fs", counts, time.Since(t0).Seconds()))
	}()
	r.Eval()
	r.Count("abandon.class-measured")
	r.Count(fmt.Sprintf("abandon.measured.%s/%s", rg.family, cl.name))
	d1, d2 := counts[1]-counts[0], counts[2]-counts[1]
	leak := d1 > 0 && d2 > 0
	if rg.family == "s3" {
		leak = d1 >= k-1 && d2 >= k-1
	}
	if leak && rg.family != "s3" {
		// persistent state: still above the starting point after another settle period
		if n := rg.pollOpen(counts[0], 2*rg.abandonSettle()); n <= counts[0] {
			leak = false
			counts[2] = n
		}
	}
	if !leak {
		r.Count("abandon.no-growth")
		rg.lastOpen = counts[2]
		return
	}
	what := "backend connections"
	switch rg.family {
	case "grpc":
		what = "RPCs at the backend"
	case "fake", "azure":
		what = "backend response streams"
	}
	rg.mu.Lock()
	rg.attributed += counts[2] - counts[0]
	rg.mu.Unlock()
	rg.lastOpen = counts[2]
	r.Violation(rg.key("abandon", cl.name, "backend-connection-left-open"),
		fmt.Sprintf("%s: reads that give up on the backend's object part-way (%s) leave %s open: %d open before, %d after %d such requests, %d after %d (every call returned, every returned stream was closed, idle connections closed, nothing else uses the backend)",
			rg.name, cl.name, what, counts[0], counts[1], k, counts[2], 2*k),
		map[string]any{"rig": rg.name, "class": cl.name, "open": counts, "max_proxy_blob_size": rg.maxProxy, "storage": rg.storage,
			"operations": opNames(ops)})
}

func opNames(ops []*op) []string {
	var out []string
	for _, p := range ops {
		out = append(out, p.name)
	}
	return out
}

func (rg *rig) runAbandonCases(k, half int) {
	if k <= 0 || rg.role != "read" {
		return
	}
	rng := rg.w.r.Rng(fmt.Sprintf("abandon/%s/%d", rg.name, half))
	for _, cl := range abandonClasses() {
		if !cl.applies(rg) {
			continue
		}
		if cl.stall != "" && len(rg.stallSpecs(1)) == 0 {
			continue
		}
		rg.abandonBatches(cl, k, half, rng)
		if rg.w.r.Violations() > 60 {
			return
		}
	}
}

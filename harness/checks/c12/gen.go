package c12

import (
	"fmt"
	"math/rand/v2"
	"strings"

	"verif/harness/lib"

	"github.com/buchgr/bazel-remote/v2/cache"
	pb "github.com/buchgr/bazel-remote/v2/genproto/build/bazel/remote/execution/v2"
	"google.golang.org/protobuf/proto"
)

var sizesSmall = []int{1, 2, 17, 100, 1000, 4095, 4096, 4097, 20000, 64*lib.KiB - 1, 64 * lib.KiB, 64*lib.KiB + 1}
var sizesLarge = []int{300 * lib.KiB, lib.MiB - 1, lib.MiB, lib.MiB + 1, 2*lib.MiB + 4097}

func pickSize(rng *rand.Rand, thorough bool) int {
	n := 12
	if thorough {
		n = 6
	}
	if rng.IntN(n) == 0 {
		return sizesLarge[rng.IntN(len(sizesLarge))]
	}
	return sizesSmall[rng.IntN(len(sizesSmall))]
}

// newCAS makes a CAS object and the representation a healthy backend of the
// given storage mode holds: for zstd mode a cas.v2 file written by the
// harness's own codec with varying chunk sizes, encoders and compression
// types.
func newCAS(rng *rand.Rand, storage string, size int, tag string, multi bool) *object {
	content := lib.GenBlob(rng, size, lib.Pick(rng, lib.ContentKinds), tag)
	o := &object{kind: cache.CAS, hash: lib.Sha256Hex(content), content: content, stored: content, layout: "raw"}
	if storage != "zstd" {
		return o
	}
	o.v2 = true
	chunk := lib.MiB
	choice := rng.IntN(10)
	if multi {
		choice = 5
	}
	if size > 5*lib.MiB/2 {
		// objects beyond the largest ordinary size exist only to be refused for
		// their size: the cheap encodings will do
		choice = 8 + rng.IntN(2)
	}
	switch {
	case choice < 4:
		lv := 1 + rng.IntN(4)
		o.layout = fmt.Sprintf("kp%d-1M", lv)
		o.stored = lib.CasWrite(content, chunk, 1, func(c []byte) []byte { return lib.ZstdEncodeKP(c, lv) })
	case choice < 6:
		// small chunks: several chunk boundaries inside a small object
		if size > 8 {
			chunk = []int{1000, 4096, 65536}[rng.IntN(3)]
			for size/chunk > 40 {
				chunk *= 8
			}
			if multi && chunk >= size {
				chunk = size/3 + 1
			}
		}
		o.layout = fmt.Sprintf("kp2-chunk%d", chunk)
		o.stored = lib.CasWrite(content, chunk, 1, func(c []byte) []byte { return lib.ZstdEncodeKP(c, 2) })
	case choice < 8:
		lv := []int{1, 3, 9}[rng.IntN(3)]
		o.layout = fmt.Sprintf("libzstd%d-1M", lv)
		o.stored = lib.CasWrite(content, chunk, 1, func(c []byte) []byte { return lib.ZstdEncodeC(c, lv) })
	case choice < 9:
		o.layout = "identity"
		o.stored = lib.CasWrite(content, chunk, 0, nil)
	default:
		o.layout = "kp1-1M"
		o.stored = lib.CasWrite(content, chunk, 1, func(c []byte) []byte { return lib.ZstdEncodeKP(c, 1) })
	}
	h, err := lib.CasParseHeader(o.stored)
	if err != nil {
		panic("harness codec produced an invalid cas.v2 file: " + err.Error())
	}
	o.offsets = h.Offsets
	o.hdrSize = int(h.Offsets[0])
	return o
}

func marshalAR(ar *pb.ActionResult) []byte {
	b, err := proto.MarshalOptions{Deterministic: true}.Marshal(ar)
	if err != nil {
		panic(err)
	}
	return b
}

// newAR makes an ActionResult entry of roughly the given serialized size;
// deps are CAS digests it references (none: a self-contained result).
func newAR(rng *rand.Rand, kind cache.EntryKind, size int, tag string, deps ...*pb.Digest) *object {
	pad := size - 24
	if pad < 1 {
		pad = 1
	}
	ar := &pb.ActionResult{
		ExitCode:          int32(rng.IntN(200)),
		ExecutionMetadata: &pb.ExecutedActionMetadata{Worker: tag + ":" + strings.Repeat("w", pad)},
	}
	for i, d := range deps {
		switch {
		case i == 0:
			ar.StdoutDigest = d
		case i == 1:
			ar.StderrDigest = d
		default:
			ar.OutputFiles = append(ar.OutputFiles, &pb.OutputFile{Path: fmt.Sprintf("out/f%d", i), Digest: d})
		}
	}
	content := marshalAR(ar)
	return &object{kind: kind, hash: lib.RandHash(rng), content: content, stored: content, ar: ar, layout: "action-result"}
}

// newRaw makes an unvalidated (RAW key space) entry of arbitrary bytes.
func newRaw(rng *rand.Rand, size int, tag string) *object {
	content := lib.GenBlob(rng, size, lib.Pick(rng, lib.ContentKinds), tag)
	return &object{kind: cache.RAW, hash: lib.RandHash(rng), content: content, stored: content, layout: "raw-bytes"}
}

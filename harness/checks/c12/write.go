package c12

import (
	"context"
	"fmt"
	"math/rand/v2"
	"os"
	"path/filepath"
	"runtime/debug"
	"strings"
	"sync"
	"time"

	"verif/harness/lib"

	"github.com/buchgr/bazel-remote/v2/cache"
	pb "github.com/buchgr/bazel-remote/v2/genproto/build/bazel/remote/execution/v2"
	"google.golang.org/grpc/codes"
)

const uploadArriveMax = 45 * time.Second

// uploadPath is one way of storing an entry locally.
type uploadPath struct {
	name string
	kind cache.EntryKind
	do   func(ctx context.Context, rg *rig, o *object) error
}

func httpPutOK(res lib.HTTPResult) error {
	if res.Err != nil {
		return res.Err
	}
	if res.Status != 200 {
		return fmt.Errorf("status %d: %s", res.Status, clip(string(res.Body), 100))
	}
	return nil
}

var uploadPaths = []*uploadPath{
	{name: "http-put-cas", kind: cache.CAS, do: func(ctx context.Context, rg *rig, o *object) error {
		return httpPutOK(rg.front.HTTPPut("/cas/"+o.hash, o.content, nil))
	}},
	{name: "http-put-cas-zstd", kind: cache.CAS, do: func(ctx context.Context, rg *rig, o *object) error {
		return httpPutOK(rg.front.HTTPPut("/cas/"+o.hash, lib.ZstdEncodeKP(o.content, 1),
			map[string]string{"Content-Encoding": "zstd", "X-Digest-SizeBytes": fmt.Sprint(len(o.content))}))
	}},
	{name: "bs-write", kind: cache.CAS, do: func(ctx context.Context, rg *rig, o *object) error {
		_, err := rg.front.BSWrite(ctx, lib.ResUpload("7d0b5a3e-0b7e-4c2b-9a55-7f8a3c1d2e4f", o.hash, o.size()), o.content, 64*lib.KiB)
		return err
	}},
	{name: "bs-write-zstd", kind: cache.CAS, do: func(ctx context.Context, rg *rig, o *object) error {
		_, err := rg.front.BSWrite(ctx, lib.ResUploadZstd("7d0b5a3e-0b7e-4c2b-9a55-7f8a3c1d2e50", o.hash, o.size()), lib.ZstdEncodeC(o.content, 3), 64*lib.KiB)
		return err
	}},
	{name: "batch-update", kind: cache.CAS, do: func(ctx context.Context, rg *rig, o *object) error {
		resp, err := rg.front.CAS.BatchUpdateBlobs(ctx, &pb.BatchUpdateBlobsRequest{Requests: []*pb.BatchUpdateBlobsRequest_Request{{Digest: digestOf(o), Data: o.content}}})
		if err != nil {
			return err
		}
		if len(resp.Responses) != 1 || codes.Code(resp.Responses[0].GetStatus().GetCode()) != codes.OK {
			return fmt.Errorf("BatchUpdateBlobs: %v", resp.Responses)
		}
		return nil
	}},
	{name: "grpc-update-ac", kind: cache.AC, do: func(ctx context.Context, rg *rig, o *object) error {
		_, err := rg.front.AC.UpdateActionResult(ctx, &pb.UpdateActionResultRequest{ActionDigest: &pb.Digest{Hash: o.hash, SizeBytes: 9}, ActionResult: o.ar})
		return err
	}},
	{name: "http-put-ac", kind: cache.AC, do: func(ctx context.Context, rg *rig, o *object) error {
		return httpPutOK(rg.front.HTTPPut("/ac/"+o.hash, o.content, nil))
	}},
	{name: "http-put-raw", kind: cache.RAW, do: func(ctx context.Context, rg *rig, o *object) error {
		return httpPutOK(rg.front.HTTPDo("PUT", rg.front.RawURL+"/ac/"+o.hash, o.content, nil))
	}},
}

func (rg *rig) newUploadObject(rng *rand.Rand, up *uploadPath, tag string) *object {
	size := pickSize(rng, !rg.w.r.Quick)
	if rg.maxProxy > 0 && int64(size) > rg.maxProxy-200 {
		size = int(rg.maxProxy) - 200 - rng.IntN(1000) // a peer must be allowed to fetch it
	}
	arSize := size
	if arSize > 100*lib.KiB {
		arSize = 100 * lib.KiB
	}
	return rg.fresh(func(bump int) *object {
		switch up.kind {
		case cache.CAS:
			return newCAS(rng, "uncompressed", size+bump, tag, false) // only the logical content matters here
		case cache.AC:
			return newAR(rng, cache.AC, arSize, tag)
		default:
			if rg.family == "grpc" {
				return newAR(rng, cache.RAW, arSize, tag)
			}
			return newRaw(rng, size+bump, tag)
		}
	})
}

// localRead reads the entry back from the front end itself.
func (rg *rig) localRead(s *lib.Server, o *object, rng *rand.Rand) (*op, outcome) {
	ops := getOps(o.kind)
	p := ops[rng.IntN(len(ops))]
	return p, rg.runOp(p, s, o)
}

// cacheFDs lists open file descriptors of this process that point into the
// given directories (blob files handed to the proxy's Put and the like).
func cacheFDs(dirs []string, contains string) []string {
	ents, err := os.ReadDir("/proc/self/fd")
	if err != nil {
		return nil
	}
	var out []string
	for _, e := range ents {
		t, err := os.Readlink(filepath.Join("/proc/self/fd", e.Name()))
		if err != nil {
			continue
		}
		for _, d := range dirs {
			if strings.HasPrefix(t, d+"/") && (contains == "" || strings.Contains(t, contains)) {
				out = append(out, t)
			}
		}
	}
	return out
}

func countFDs() int {
	ents, err := os.ReadDir("/proc/self/fd")
	if err != nil {
		return -1
	}
	return len(ents)
}

// uploadersIdle: every asynchronous uploader of the process is parked waiting
// for work (so no upload is queued or in flight anywhere).
func (w *world) uploadersIdle() (bool, int, int) {
	sigs := lib.GoroutineSignatures(lib.SelfGoroutineDump())
	idle := 0
	for k, v := range sigs {
		if strings.HasPrefix(k, "utils/backendproxy.StartUploaders") && strings.Contains(k, "chan receive") {
			idle += v
		}
	}
	total := 0
	for _, rg := range w.rigs {
		total += rg.be.uploaders()
	}
	return idle >= total, idle, total
}

// writeCase: one accepted local upload must reach the backend exactly once,
// in a form from which a peer instance reads back the identical entry.
func (rg *rig) writeCase(up *uploadPath, id string, rng *rand.Rand) {
	r := rg.w.r
	ctx, cancel := context.WithTimeout(context.Background(), opWatchdog)
	defer cancel()
	o := rg.newUploadObject(rng, up, id)
	det := &readDetail{Rig: rg.name, Case: id, Op: up.name, Plan: "healthy backend", Object: o.String(), Expect: "exactly one upload; peer reads the identical entry"}
	log := func(f string, a ...any) { det.History = append(det.History, fmt.Sprintf(f, a...)) }
	rg.noteCase("write/" + up.name)

	var err error
	if rg.maxQueue <= 0 && rg.gcWindows < 6 {
		rg.gcWindows++
		// Uploads are switched off: the handle given to the proxy must be
		// closed right away.
		withoutGC(func() {
			if err = up.do(ctx, rg, o); err != nil {
				return
			}
			open := openWithin(rg.front.Dir, o.hash, 0, 300*time.Millisecond)
			r.Eval()
			if len(open) > 0 {
				r.Violation(rg.key(up.name, "uploads-disabled", "blob-file-left-open"),
					fmt.Sprintf("%s: uploads are disabled (max_queued_uploads 0), yet the blob file handed to the proxy stays open after the upload was acknowledged: %s", rg.name, open[0]),
					map[string]any{"case": det, "open": open})
			} else {
				r.Count("fd.dropped-upload-closed.uploads-disabled")
			}
		})
	} else {
		err = up.do(ctx, rg, o)
	}
	if err != nil {
		// not accepted: nothing to demand (judged by C01/C11/C16)
		r.Count("write." + rg.name + "/" + up.name + ".rejected")
		log("upload rejected: %v", err)
		return
	}
	r.Eval()
	r.Count("write." + rg.name + "/" + up.name + ".accepted")

	// The reference for "identical": what the accepting instance serves.
	lop, lout := rg.localRead(rg.front, o, rng)
	want := o
	if lout.class == "watchdog" {
		return
	}
	if lout.class != "hit" {
		r.Violation(rg.key(up.name, "write-through", "local-read-failed"),
			fmt.Sprintf("%s: an entry accepted through %s is not served locally afterwards (%s: %s)", rg.name, up.name, lop.name, lout), det)
		return
	}
	if o.kind == cache.AC && lout.ar != nil {
		// the front end may have filled in execution_metadata.worker etc.;
		// the accepted form is what it serves
		want = &object{kind: o.kind, hash: o.hash, content: marshalAR(lout.ar), ar: lout.ar}
	} else if ok, why := verifyHit(lop, o, lout, true); !ok {
		r.Violation(rg.key(up.name, "write-through", "local-read-wrong"),
			fmt.Sprintf("%s: entry accepted through %s reads back wrong locally: %s", rg.name, up.name, why), det)
		return
	}

	if rg.maxQueue <= 0 {
		r.Count("write." + rg.name + ".dropped(queue-disabled)")
		return
	}

	// Wait (bounded) for the asynchronous uploader.
	arrived := func() bool {
		for _, u := range rg.be.uploads(o.hash) {
			if u.stored {
				return true
			}
		}
		return false
	}
	deadline := time.Now().Add(uploadArriveMax)
	sleep := 200 * time.Microsecond
	for !arrived() && time.Now().Before(deadline) {
		time.Sleep(sleep)
		if sleep < 50*time.Millisecond {
			sleep *= 2
		}
	}
	if !arrived() {
		idle, ni, nt := rg.w.uploadersIdle()
		if !idle {
			r.Inconclusive(fmt.Sprintf("%s: upload of %s not seen after %v while %d of %d uploaders are busy", rg.name, o.hash[:12], uploadArriveMax, nt-ni, nt))
			return
		}
		r.Violation(rg.key(up.name, "write-through", "never-uploaded"),
			fmt.Sprintf("%s: an entry accepted through %s was never handed to the (healthy, idle) backend: every uploader is idle, the backend saw %d requests for the key",
				rg.name, up.name, rg.be.reqCount(o.hash)), det)
		return
	}
	log("backend received the upload")
	r.Distinct(rg.name, "write", up.name, lib.SizeClassName(len(o.content)))
	rg.w.addOnce(onceCheck{rg: rg, hash: o.hash, path: up.name, det: det})

	// A peer in the same storage mode, same backend, empty local cache.
	peer, err := rg.peerServer()
	if err != nil {
		r.Inconclusive(rg.name + ": cannot start the peer instance: " + err.Error())
		return
	}
	pop, pout := rg.localRead(peer, want, rng)
	log("peer %s -> %s", pop.name, pout)
	r.Eval()
	r.Count("peer." + rg.name + "/" + pop.name + "." + pout.class)
	if pout.class == "watchdog" {
		return
	}
	if pout.class != "hit" {
		r.Violation(rg.key(up.name, "write-through", "peer-cannot-read"),
			fmt.Sprintf("%s: a peer instance (same storage mode, same backend, empty cache) cannot read the entry uploaded through %s: %s -> %s",
				rg.name, up.name, pop.name, pout), det)
	} else if ok, why := verifyHit(pop, want, pout, true); !ok {
		r.Violation(rg.key(up.name, "write-through", "peer-reads-different-entry"),
			fmt.Sprintf("%s: a peer instance reads a different entry than the one uploaded through %s: %s", rg.name, up.name, why), det)
	}
	rg.checkPanics(up.name, "write-through", det)
}

// An *os.File that is dropped without Close is closed by its finalizer at
// the next garbage collection, which would hide "handle not closed" from
// /proc/self/fd. Observations of that kind are made inside a short window in
// which the collector is switched off (one rig at a time).
var gcWindow sync.Mutex

func withoutGC(f func()) {
	gcWindow.Lock()
	old := debug.SetGCPercent(-1)
	defer func() {
		debug.SetGCPercent(old)
		gcWindow.Unlock()
	}()
	f()
}

// openWithin polls (briefly: the window keeps the collector off) until at
// most max cache files matching `contains` are open.
func openWithin(dir, contains string, max int, wait time.Duration) []string {
	deadline := time.Now().Add(wait)
	for {
		open := cacheFDs([]string{dir}, contains)
		if len(open) <= max || time.Now().After(deadline) {
			return open
		}
		time.Sleep(2 * time.Millisecond)
	}
}

type onceCheck struct {
	rg   *rig
	hash string
	path string
	det  *readDetail
}

// checkOnce: at quiescence every accepted upload reached the backend exactly
// once.
func (w *world) checkOnce() {
	for _, c := range w.pendingOnce {
		n := 0
		for _, u := range c.rg.be.uploads(c.hash) {
			if u.stored {
				n++
			}
		}
		w.r.Eval()
		if n != 1 {
			w.r.Violation(c.rg.key(c.path, "write-through", "uploaded-more-than-once"),
				fmt.Sprintf("%s: the backend received %d complete uploads of an entry that was stored locally once through %s", c.rg.name, n, c.path), c.det)
		} else {
			w.r.Count("write.exactly-once")
		}
		c.rg.be.forget(c.hash)
	}
	w.pendingOnce = nil
}

// uploadFaultCase: the backend fails the upload; nothing may leak and the
// local entry must stay correct.
func (rg *rig) uploadFaultCase(up *uploadPath, plan *upPlan, id string, rng *rand.Rand) {
	r := rg.w.r
	ctx, cancel := context.WithTimeout(context.Background(), opWatchdog)
	defer cancel()
	o := rg.newUploadObject(rng, up, id)
	det := &readDetail{Rig: rg.name, Case: id, Op: up.name, Plan: "upload fault " + plan.label, Object: o.String(), Expect: "local entry intact; nothing leaked"}
	rg.noteCase("write-fault/" + up.name + "/" + plan.label)
	rg.be.setUploadPlan(o.hash, plan)
	defer rg.be.forget(o.hash)
	if err := up.do(ctx, rg, o); err != nil {
		r.Count("write-fault." + rg.name + ".rejected")
		return
	}
	r.Eval()
	r.Distinct(rg.name, "write-fault", up.name, plan.label)
	// wait until the backend has seen the attempt (or stalls in it)
	deadline := time.Now().Add(uploadArriveMax)
	for time.Now().Before(deadline) {
		if len(rg.be.uploads(o.hash)) > 0 || rg.be.stalls().count(o.hash) > 0 {
			break
		}
		time.Sleep(time.Millisecond)
	}
	seen := len(rg.be.uploads(o.hash)) > 0 || rg.be.stalls().count(o.hash) > 0
	r.Count(fmt.Sprintf("write-fault.%s/%s.backend-saw-attempt=%v", rg.family, plan.label, seen))
	if plan.act == "stall" {
		rg.be.stalls().releaseAll()
	}
	lop, lout := rg.localRead(rg.front, o, rng)
	if lout.class == "watchdog" {
		return
	}
	if lout.class != "hit" {
		r.Violation(rg.key(up.name, "upload-"+plan.label, "local-read-failed"),
			fmt.Sprintf("%s: after a failed write-through (%s) the locally accepted entry is not served (%s: %s)", rg.name, plan.label, lop.name, lout), det)
	} else if o.kind != cache.AC {
		if ok, why := verifyHit(lop, o, lout, true); !ok {
			r.Violation(rg.key(up.name, "upload-"+plan.label, "local-read-wrong"),
				fmt.Sprintf("%s: after a failed write-through (%s) the local entry reads back wrong: %s", rg.name, plan.label, why), det)
		}
	}
	rg.checkPanics(up.name, "upload-"+plan.label, det)
}

func uploadPlansFor(family string) []*upPlan {
	switch family {
	case "http":
		return []*upPlan{
			{label: "5xx-after-body", act: "status-late"},
			{label: "5xx-before-body", act: "status-early"},
			{label: "close-mid-body", act: "close-mid"},
			{label: "stall", act: "stall"},
			{label: "head-5xx", act: "head-5xx"},
		}
	case "grpc":
		return []*upPlan{
			{label: "error-at-first-send", act: "first-send", code: codes.Unavailable},
			{label: "error-at-close", act: "close-recv", code: codes.Internal},
			{label: "stall", act: "stall"},
		}
	case "s3":
		return []*upPlan{{label: "5xx", act: "status-late", once: true}}
	case "azure":
		return []*upPlan{{label: "5xx", act: "status-late"}}
	}
	return nil
}

// fullQueueCase: the backend stalls uploads, the queue (max_queued_uploads 1)
// fills up, further uploads are dropped. Dropped uploads must not keep their
// blob file open, every upload stays readable locally, and after the backend
// resumes nothing is left open.
func (rg *rig) fullQueueCase(id string, rng *rand.Rand) {
	r := rg.w.r
	rg.noteCase("write/full-queue")
	stall := &upPlan{label: "stall", act: "stall"}
	var objs []*object
	paths := []*uploadPath{uploadPaths[0], uploadPaths[2], uploadPaths[4]}
	upload := func(i int) {
		up := paths[i%len(paths)]
		o := rg.newUploadObject(rng, up, fmt.Sprintf("%s-%d", id, i))
		rg.be.setUploadPlan(o.hash, stall)
		ctx, cancel := context.WithTimeout(context.Background(), opWatchdog)
		err := up.do(ctx, rg, o)
		expired := ctx.Err() != nil
		cancel()
		if expired {
			r.Inconclusive(rg.name + ": an upload did not finish within the watchdog (full-queue scenario)")
			return
		}
		if err != nil {
			r.Violation(rg.key(up.name, "full-queue", "upload-rejected"),
				fmt.Sprintf("%s: local upload %d through %s failed while the backend stalls uploads: %v", rg.name, i, up.name, err), map[string]any{"case": id})
			return
		}
		objs = append(objs, o)
	}
	// Fill: every uploader parked in the backend, the queue full.
	fill := rg.numUp + rg.maxQueue + 1
	for i := 0; i < fill; i++ {
		upload(i)
	}
	st := rg.be.stalls()
	st.waitTotal(func(k int) bool { return k >= rg.numUp }, 10*time.Second)
	r.Count(fmt.Sprintf("full-queue.%s.parked-uploads=%d", rg.name, st.totalWaiting()))
	r.Eval()
	r.Distinct(rg.name, "full-queue", rg.maxQueue, rg.numUp)
	// Further uploads are dropped; their files must be closed by the time
	// they are acknowledged. At most (uploaders + queue length) handles can
	// legitimately be open.
	holdable := rg.numUp + rg.maxQueue
	withoutGC(func() {
		for i := 0; i < 8; i++ {
			upload(fill + i)
		}
		open := openWithin(rg.front.Dir, "", holdable, 300*time.Millisecond)
		if len(open) > holdable {
			r.Violation(rg.key("full-queue", "dropped-uploads", "blob-file-left-open"),
				fmt.Sprintf("%s: %d blob files are open although at most %d uploads can be in flight or queued (%d uploaders, max_queued_uploads %d): dropped uploads keep their file handle",
					rg.name, len(open), holdable, rg.numUp, rg.maxQueue), map[string]any{"case": id, "open": clipList(open)})
		} else {
			r.Count("fd.full-queue-within-bound")
		}
	})
	// local behaviour stays correct
	for _, o := range objs {
		lop, lout := rg.localRead(rg.front, o, rng)
		if lout.class == "watchdog" {
			continue
		}
		if ok, why := verifyHit(lop, o, lout, true); lout.class != "hit" || !ok {
			r.Violation(rg.key(lop.name, "full-queue", "local-read-wrong"),
				fmt.Sprintf("%s: blob uploaded while the upload queue was full is not served correctly locally: %s %s", rg.name, lout, why), map[string]any{"case": id, "object": o.String()})
		}
	}
	// backend resumes
	for _, o := range objs {
		rg.be.clearPlan(o.hash)
	}
	var open []string
	deadline := time.Now().Add(30 * time.Second)
	for {
		st.releaseAll()
		open = cacheFDs([]string{rg.front.Dir}, "")
		if (len(open) == 0 && st.totalWaiting() == 0) || time.Now().After(deadline) {
			break
		}
		time.Sleep(5 * time.Millisecond)
	}
	r.Eval()
	if len(open) > 0 {
		r.Violation(rg.key("full-queue", "after-resume", "blob-file-left-open"),
			fmt.Sprintf("%s: %d blob files are still open 30 s after the backend resumed and every queued upload could complete", rg.name, len(open)),
			map[string]any{"case": id, "open": clipList(open)})
	}
	rg.checkPanics("full-queue", "stall", id)
	for _, o := range objs {
		rg.be.forget(o.hash)
	}
}

func (rg *rig) runWriteCases(nWrites, nFaults, nQueue int, half int) {
	rng := rg.w.r.Rng(fmt.Sprintf("write/%s/%d", rg.name, half))
	rg.gcWindows = 0
	for i := 0; i < nWrites; i++ {
		up := uploadPaths[(i+half*3)%len(uploadPaths)]
		rg.writeCase(up, fmt.Sprintf("%s-h%d-w%d", rg.name, half, i), rng)
	}
	plans := uploadPlansFor(rg.family)
	for i := 0; i < nFaults && len(plans) > 0 && rg.maxQueue > 0; i++ {
		up := uploadPaths[(i*3+1)%len(uploadPaths)]
		pl := plans[i%len(plans)]
		if rg.family == "grpc" && up.kind != cache.CAS && pl.act == "first-send" {
			pl = plans[(i+1)%len(plans)]
		}
		rg.uploadFaultCase(up, pl, fmt.Sprintf("%s-h%d-f%d", rg.name, half, i), rng)
	}
	for i := 0; i < nQueue && rg.maxQueue > 0 && rg.maxQueue <= 8 && (rg.family == "http" || rg.family == "grpc"); i++ {
		rg.fullQueueCase(fmt.Sprintf("%s-h%d-fq%d", rg.name, half, i), rng)
	}
}

package c12

import (
	"bytes"
	"context"
	"io"
	"sync"
	"time"

	"verif/harness/lib"

	"github.com/buchgr/bazel-remote/v2/cache"
)

// fakeBackend drives lib.FakeProxy (a direct cache.Proxy object store) and
// adds the fault vocabulary of this check on top of it: streams that end
// early with or without an error, extra bytes, size lies, stalls that last
// until the request context is cancelled.
type fakeBackend struct {
	v2    bool
	inner *lib.FakeProxy

	mu     sync.Mutex
	plans  map[string]*plan
	counts map[string]int
	st     *stallTracker
}

func newFakeBackend(mode string) *fakeBackend {
	fp := lib.NewFakeProxy(mode == "zstd")
	fp.StorePuts = true
	return &fakeBackend{v2: mode == "zstd", inner: fp, plans: map[string]*plan{}, counts: map[string]int{}, st: newStallTracker()}
}

func (b *fakeBackend) kindName() string               { return "fake" }
func (b *fakeBackend) proxy() cache.Proxy             { return b }
func (b *fakeBackend) newPeerProxy() cache.Proxy      { return b }
func (b *fakeBackend) sizeAware(cache.EntryKind) bool { return true }
func (b *fakeBackend) openConns() int                 { return b.inner.OpenReaders() }
func (b *fakeBackend) connSlack() int                 { return 0 }
func (b *fakeBackend) stalls() *stallTracker          { return b.st }
func (b *fakeBackend) closeIdle()                     {}
func (b *fakeBackend) uploaders() int                 { return 0 }
func (b *fakeBackend) close()                         { b.st.releaseAll() }
func (b *fakeBackend) setUploadPlan(string, *upPlan)  {}
func (b *fakeBackend) reqCount(hash string) int {
	b.mu.Lock()
	defer b.mu.Unlock()
	return b.counts[hash]
}
func (b *fakeBackend) setPlan(o *object, p *plan) { b.mu.Lock(); b.plans[o.hash] = p; b.mu.Unlock() }
func (b *fakeBackend) clearPlan(hash string)      { b.mu.Lock(); delete(b.plans, hash); b.mu.Unlock() }
func (b *fakeBackend) put(o *object)              { b.inner.SetRaw(o.kind, o.hash, o.stored, o.size()) }
func (b *fakeBackend) remove(o *object)           { b.inner.Delete(o.kind, o.hash) }

func (b *fakeBackend) forget(hash string) {
	for _, k := range []cache.EntryKind{cache.CAS, cache.AC, cache.RAW} {
		b.inner.Delete(k, hash)
	}
	b.clearPlan(hash)
}

func (b *fakeBackend) holds(o *object) ([]byte, bool) {
	if !b.inner.Has(o.kind, o.hash) {
		return nil, false
	}
	rc, _, err := b.inner.Get(context.Background(), o.kind, o.hash, -1)
	if err != nil || rc == nil {
		return nil, false
	}
	defer func() { _ = rc.Close() }()
	d, _ := io.ReadAll(rc)
	return d, true
}

func (b *fakeBackend) uploads(hash string) []upload {
	var out []upload
	for _, p := range b.inner.PutRecords() {
		if p.Hash == hash {
			out = append(out, upload{kind: p.Kind.String(), hash: p.Hash, payload: p.Data, stored: p.ReadErr == nil, declared: p.LogicalSize})
		}
	}
	return out
}

func (b *fakeBackend) take(hash, target string) *plan {
	b.mu.Lock()
	defer b.mu.Unlock()
	b.counts[hash]++
	p := b.plans[hash]
	if p == nil || p.target != target {
		return nil
	}
	if p.once {
		delete(b.plans, hash)
	}
	return p
}

func (b *fakeBackend) Put(ctx context.Context, kind cache.EntryKind, hash string, logicalSize int64, sizeOnDisk int64, rc io.ReadCloser) {
	b.mu.Lock()
	b.counts[hash]++
	b.mu.Unlock()
	b.inner.Put(ctx, kind, hash, logicalSize, sizeOnDisk, rc)
}

type fakeStream struct {
	b     *fakeBackend
	ctx   context.Context
	hash  string
	inner io.ReadCloser
	r     *bytes.Reader
	end   string
	piece int
}

func (s *fakeStream) Read(p []byte) (int, error) {
	if s.piece > 0 && len(p) > s.piece {
		p = p[:s.piece]
	}
	n, err := s.r.Read(p)
	if err == io.EOF {
		switch s.end {
		case "abort":
			return n, lib.ErrStream
		case "stall":
			if n > 0 {
				return n, nil
			}
			s.b.st.wait(s.hash, s.ctx.Done())
			if e := s.ctx.Err(); e != nil {
				return 0, e
			}
			return 0, lib.ErrStream
		}
	}
	return n, err
}

func (s *fakeStream) Close() error { return s.inner.Close() }

func (b *fakeBackend) Get(ctx context.Context, kind cache.EntryKind, hash string, size int64) (io.ReadCloser, int64, error) {
	p := b.take(hash, "get")
	if p != nil {
		switch p.act {
		case "absent":
			return nil, -1, nil
		case "status":
			return nil, -1, &cache.Error{Code: p.status, Text: "injected backend failure"}
		case "stall":
			b.st.wait(hash, ctx.Done())
			if e := ctx.Err(); e != nil {
				return nil, -1, e
			}
			return nil, -1, lib.ErrStream
		case "delay":
			select {
			case <-ctx.Done():
				return nil, -1, ctx.Err()
			case <-time.After(p.delay):
			}
		}
	}
	rc, sz, err := b.inner.Get(ctx, kind, hash, size)
	if err != nil || rc == nil || p == nil {
		return rc, sz, err
	}
	switch p.act {
	case "fetch":
		return rc, p.size, nil
	case "deliver":
		data, _ := io.ReadAll(rc)
		if p.corrupt != nil {
			data = p.corrupt(data)
		}
		if p.cut >= 0 && p.cut < len(data) {
			data = data[:p.cut]
		}
		if p.extra > 0 {
			data = append(data, garbage(p.extra)...)
		}
		return &fakeStream{b: b, ctx: ctx, hash: hash, inner: rc, r: bytes.NewReader(data), end: p.end, piece: p.trickle}, sz, nil
	}
	return rc, sz, nil
}

func (b *fakeBackend) Contains(ctx context.Context, kind cache.EntryKind, hash string, size int64) (bool, int64) {
	p := b.take(hash, "contains")
	if p != nil {
		switch p.act {
		case "absent", "status":
			return false, -1
		case "stall":
			b.st.wait(hash, ctx.Done())
			return false, -1
		case "delay":
			select {
			case <-ctx.Done():
				return false, -1
			case <-time.After(p.delay):
			}
		case "headsize":
			if !b.inner.Has(kind, hash) {
				return false, -1
			}
			if p.size == -2 {
				return true, -1
			}
			return true, p.size
		}
	}
	return b.inner.Contains(ctx, kind, hash, size)
}

package c12

import (
	"fmt"
	"sync"
	"time"

	"github.com/buchgr/bazel-remote/v2/cache"
	pb "github.com/buchgr/bazel-remote/v2/genproto/build/bazel/remote/execution/v2"
	"google.golang.org/grpc/codes"
)

// object is the harness's model of one entry a backend holds.
type object struct {
	kind    cache.EntryKind
	hash    string
	content []byte // logical content (CAS blob bytes / marshalled ActionResult / raw bytes)
	stored  []byte // representation a healthy backend holds (cas.v2 file for CAS in zstd mode, else == content)
	ar      *pb.ActionResult
	v2      bool   // stored is a cas.v2 file
	layout  string // how stored was produced (evidence)
	// cas.v2 layout positions (only when v2)
	hdrSize int
	offsets []int64
	// acRef: the ActionResult entry referencing this object (dependency-check operations)
	acRef *object
}

func (o *object) size() int64 { return int64(len(o.content)) }

func (o *object) String() string {
	return fmt.Sprintf("%s/%s size=%d stored=%d layout=%s", o.kind, o.hash, len(o.content), len(o.stored), o.layout)
}

// Expectation classes of a (plan, operation) pair.
const (
	expHit   = "hit"   // the healthy / benign case: the answer must be the backend's object
	expNoHit = "nohit" // the object is withheld, damaged detectably or not servable: only miss or error
	expAny   = "any"   // miss, error or the correct object
	expLies  = "lies"  // backend lies self-consistently about an object of unknown size: leak/cleanup oracles only
)

// plan is one backend fault plan in a backend-neutral vocabulary. Each
// backend realises the acts it can express.
type plan struct {
	stage string // connect | before-response | status | size-metadata | header | chunk-boundary | body | last-byte | after-last | none
	fault string // healthy | refuse | close | 5xx | 404 | short-error | short-clean | long | bad-cl | no-cl | oversize | stall | other-size | corrupt | delay | trickle
	label string // stage/fault/position class (evidence + replay)

	target string // "get" | "contains": which backend operation the fault sits on

	act      string // healthy | absent | status | refuse | close | deliver | stall | delay | headsize | fetch | fmissing
	status   int
	bigBody  bool
	cut      int                 // deliver: only the first cut bytes (-1: everything)
	extra    int                 // deliver: append this many garbage bytes
	corrupt  func([]byte) []byte // deliver: applied to the stored bytes first
	framing  string              // http-like: cl-exact | cl-full | cl-plus | cl-minus | close | chunked ; grpc: ok
	end      string              // clean | abort | stall
	code     codes.Code          // grpc-like: error code (with cut = bytes before the error, -1 = before the first message)
	trickle  int                 // deliver in pieces of this many bytes
	msgSize  int                 // grpc: message size
	delay    time.Duration       // delay act
	size     int64               // headsize / fetch: the size to announce (-2: omit)
	wrongSum bool                // fetch: announce another hash
	once     bool                // the fault is applied to the first request only

	expKnown   string // expectation for operations that state the size
	expUnknown string // expectation for operations that do not
}

func (p *plan) String() string { return p.label }

func (p *plan) expect(known bool) string {
	if known {
		return p.expKnown
	}
	return p.expUnknown
}

// upload is one write-through the backend received.
type upload struct {
	kind     string // "cas" | "ac" | "raw"
	hash     string
	name     string // resource name / path
	payload  []byte
	stored   bool // the backend completed and kept it
	compress bool // gRPC: compressed-blobs resource
	declared int64
}

// backendCtl is what the case runners need from a fault-injecting backend.
type backendCtl interface {
	kindName() string
	proxy() cache.Proxy        // the real proxy under test, wired to this backend
	newPeerProxy() cache.Proxy // a second, independent proxy object for the same backend
	sizeAware(kind cache.EntryKind) bool
	put(o *object)
	remove(o *object)
	forget(hash string) // drop every object and record of the key (memory hygiene after a case)
	setPlan(o *object, p *plan)
	setUploadPlan(hash string, p *upPlan)
	clearPlan(hash string)
	reqCount(hash string) int
	openConns() int
	connSlack() int
	uploads(hash string) []upload
	holds(o *object) ([]byte, bool)
	stalls() *stallTracker
	closeIdle()
	uploaders() int
	close()
}

// upPlan is a fault plan for uploads.
type upPlan struct {
	label string
	act   string // status-late | status-early | close-mid | stall | first-send | close-recv | head-5xx | head-present
	code  codes.Code
	once  bool
}

// stallTracker lets backends park a request until the client goes away (or
// the harness releases it) and lets the harness observe that.
type stallTracker struct {
	mu       sync.Mutex
	waiting  map[string]int
	total    int
	gone     int // stalls that ended because the client went away
	released int // stalls that ended by release / watchdog
	release  chan struct{}
}

func newStallTracker() *stallTracker {
	return &stallTracker{waiting: map[string]int{}, release: make(chan struct{})}
}

const stallWatchdog = 90 * time.Second

// wait parks the caller until clientGone fires, the tracker is released, or
// the watchdog expires. Returns true when the client went away.
func (s *stallTracker) wait(hash string, clientGone <-chan struct{}) bool {
	s.mu.Lock()
	s.waiting[hash]++
	s.total++
	rel := s.release
	s.mu.Unlock()
	gone := false
	select {
	case <-clientGone:
		gone = true
	case <-rel:
	case <-time.After(stallWatchdog):
	}
	s.mu.Lock()
	s.waiting[hash]--
	if s.waiting[hash] <= 0 {
		delete(s.waiting, hash)
	}
	s.total--
	if gone {
		s.gone++
	} else {
		s.released++
	}
	s.mu.Unlock()
	return gone
}

func (s *stallTracker) count(hash string) int {
	s.mu.Lock()
	defer s.mu.Unlock()
	return s.waiting[hash]
}

func (s *stallTracker) totalWaiting() int {
	s.mu.Lock()
	defer s.mu.Unlock()
	return s.total
}

// releaseAll wakes every parked request (and keeps working for later ones).
func (s *stallTracker) releaseAll() {
	s.mu.Lock()
	close(s.release)
	s.release = make(chan struct{})
	s.mu.Unlock()
}

// waitFor polls until pred(count) holds for the hash; false on watchdog expiry.
func (s *stallTracker) waitFor(hash string, pred func(int) bool, max time.Duration) bool {
	deadline := time.Now().Add(max)
	sleep := 200 * time.Microsecond
	for {
		if pred(s.count(hash)) {
			return true
		}
		if time.Now().After(deadline) {
			return false
		}
		time.Sleep(sleep)
		if sleep < 20*time.Millisecond {
			sleep *= 2
		}
	}
}

// waitTotal polls until at least n requests are parked.
func (s *stallTracker) waitTotal(pred func(int) bool, max time.Duration) bool {
	deadline := time.Now().Add(max)
	sleep := 200 * time.Microsecond
	for {
		if pred(s.totalWaiting()) {
			return true
		}
		if time.Now().After(deadline) {
			return false
		}
		time.Sleep(sleep)
		if sleep < 20*time.Millisecond {
			sleep *= 2
		}
	}
}
